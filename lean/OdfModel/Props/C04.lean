/-
  Property C04 — saving a document and loading it back reproduces the document.

  Model: `OdfModel.LoadSax` (LoadParser as a state machine over SAX events, with the style index of
  `build_caches`), composed with the XML round trip `parseDoc_render` of the XML layer (C02).
  Tie: harness/c04.py — the recorded SAX streams of every saved part are fed to `drv_load` and the sections are
  compared with what the real `load()` built; the oracle compares load(save(d)) with d on the real library.

  Trusted legs (said so in the statements): expat delivers the event stream `evN t` of the infoset `t` the
  reference parser computes, cut into chunks in any way (`Chunked`); the zip container and the manifest dispatch
  (pictures, sub-documents) are the subject of C03/C16 and of the oracle.
-/
import OdfModel.LoadSax
import OdfModel.Xml.Compose
namespace OdfModel.Props.C04
open OdfModel OdfModel.Xml OdfModel.Spec OdfModel.LoadSax

/-! ### forests -/

@[simp] theorem appF_nil_left (g : Forest) : appF .nil g = g := rfl
@[simp] theorem appF_cons (h : Node) (t g : Forest) : appF (.cons h t) g = .cons h (appF t g) := rfl

@[simp] theorem appF_nil_right : (f : Forest) → appF f .nil = f
  | .nil => rfl
  | .cons h t => by simp [appF_nil_right t]

theorem appF_assoc : (a b c : Forest) → appF (appF a b) c = appF a (appF b c)
  | .nil, _, _ => rfl
  | .cons h t, b, c => by simp [appF_assoc t b c]

/-! ### running event lists -/

@[simp] theorem run_nil (st : St) : run st [] = some st := rfl

theorem run_cons (st : St) (e : Event) (es : List Event) :
    run st (e :: es) = (step st e).bind (fun s => run s es) := by
  simp only [run]; cases step st e <;> rfl

theorem run_append (st : St) (a b : List Event) : run st (a ++ b) = (run st a).bind (fun s => run s b) := by
  induction a generalizing st with
  | nil => simp
  | cons e es ih =>
    simp only [List.cons_append, run_cons]
    cases step st e with
    | none => rfl
    | some s => simpa using ih s

/-! ### C04 (chunking): any way of cutting the character data gives the same result -/

/-- `evs'` is `evs` with every character event cut into an arbitrary list of chunks (empty chunks and, for an empty
    string, no chunk at all included) — what a SAX parser is free to do -/
inductive Chunked : List Event → List Event → Prop where
  | nil : Chunked [] []
  | chars (s : Str) (cs : List Str) (r r' : List Event) : cs.flatten = s → Chunked r r' →
      Chunked (.chars s :: r) (cs.map Event.chars ++ r')
  | other (e : Event) (r r' : List Event) : Chunked r r' → Chunked (e :: r) (e :: r')

theorem stepChars_nil (st : St) : stepChars st [] = st := by
  unfold stepChars; split <;> simp

theorem stepChars_append (st : St) (a b : Str) : stepChars (stepChars st a) b = stepChars st (a ++ b) := by
  unfold stepChars
  by_cases h : st.parsing = true <;> simp [h, List.append_assoc]

theorem run_chunks (st : St) (cs : List Str) (r : List Event) :
    run st (cs.map Event.chars ++ r) = run (stepChars st cs.flatten) r := by
  induction cs generalizing st with
  | nil => simp [stepChars_nil]
  | cons c cs ih =>
    simp only [List.map_cons, List.cons_append, run_cons, step, Option.bind_some, List.flatten_cons]
    rw [ih, stepChars_append]

/-- **C04 (build_chunk_invariant)**: for EVERY state of the parser and EVERY re-chunking of the character events,
    the run gives the same result (also the same crash). -/
theorem build_chunk_invariant (evs evs' : List Event) (h : Chunked evs evs') :
    ∀ st : St, run st evs' = run st evs := by
  induction h with
  | nil => intro st; rfl
  | chars s cs r r' hs _ ih =>
    intro st
    rw [run_chunks, hs, run_cons]
    simp only [step, Option.bind_some]
    exact ih _
  | other e r r' _ ih =>
    intro st
    simp only [run_cons]
    cases step st e with
    | none => rfl
    | some s => simpa using ih s

/-- every stream is a chunking of itself (one chunk per event) -/
theorem chunked_refl (evs : List Event) : Chunked evs evs := by
  induction evs with
  | nil => exact .nil
  | cons e r ih =>
    cases e with
    | chars s => simpa using Chunked.chars s [s] r r (by simp) ih
    | start q a => exact .other _ r r ih
    | stop q => exact .other _ r r ih

/-! ### what LoadParser builds from the events of a forest -/

mutual
/-- no section (trigger) element anywhere inside -/
def noTrigN : Node → Bool
  | .text _ => true
  | .cdata _ => true
  | .elem q _ kids => !isTrigger q && noTrigF kids
def noTrigF : Forest → Bool
  | .nil => true
  | .cons h t => noTrigN h && noTrigF t
end

def hasElemF : Forest → Bool
  | .nil => false
  | .cons (.elem _ _ _) _ => true
  | .cons (.text _) t => hasElemF t
  | .cons (.cdata _) t => hasElemF t

/-- the children LoadParser gives an element whose content is `f`, with pending character data `acc`: character
    data (text and CDATA alike) is accumulated over any number of events and becomes ONE text node in front of the
    next element / at the end tag; an empty accumulation gives no node; nothing is stripped -/
def mergeTF (acc : Str) : Forest → Forest
  | .nil => flushT acc .nil
  | .cons (.text s) t => mergeTF (acc ++ s) t
  | .cons (.cdata s) t => mergeTF (acc ++ s) t
  | .cons (.elem q a kids) t => flushT acc (.cons (.elem q a (mergeTF [] kids)) (mergeTF [] t))

/-- the same, split into the nodes that are complete and the character data still pending at the end -/
def mergeK (acc : Str) : Forest → Forest × Str
  | .nil => (.nil, acc)
  | .cons (.text s) t => mergeK (acc ++ s) t
  | .cons (.cdata s) t => mergeK (acc ++ s) t
  | .cons (.elem q a kids) t => (flushT acc (.cons (.elem q a (mergeTF [] kids)) (mergeK [] t).1), (mergeK [] t).2)

theorem appF_flushT (acc : Str) (f g : Forest) : appF (flushT acc f) g = flushT acc (appF f g) := by
  unfold flushT; split <;> simp

theorem mergeTF_eq (acc : Str) (f : Forest) :
    mergeTF acc f = appF (mergeK acc f).1 (flushT (mergeK acc f).2 .nil) := by
  fun_induction mergeK acc f with
  | case1 acc => simp [mergeTF]
  | case2 acc s t ih => simpa [mergeTF] using ih
  | case3 acc s t ih => simpa [mergeTF] using ih
  | case4 acc q a kids t ih => simp [mergeTF, appF_flushT, ih]

theorem mergeK_noElem (acc : Str) (f : Forest) (h : hasElemF f = false) : (mergeK acc f).1 = .nil := by
  fun_induction mergeK acc f with
  | case1 acc => rfl
  | case2 acc s t ih => exact ih (by simpa [hasElemF] using h)
  | case3 acc s t ih => exact ih (by simpa [hasElemF] using h)
  | case4 acc q a kids t ih => simp [hasElemF] at h

/-- names registered when `(q, attrs)` is attached under `pq` (no clash) -/
def regOne (pq : Option QName) (q : QName) (a : List (QName × Str)) : List Str :=
  match pq with
  | none => []
  | some p =>
    if q = qStyle ∧ (p = qStyles ∨ p = qAutoStyles) then
      match lookupA aStyleName a with
      | some n => [n]
      | none => []
    else []

/-- names registered by the direct children of an element `pq` -/
def regF (pq : Option QName) : Forest → List Str
  | .nil => []
  | .cons (.elem q a _) t => regOne pq q a ++ regF pq t
  | .cons (.text _) t => regF pq t
  | .cons (.cdata _) t => regF pq t

/-- none of the new names is registered already, and they differ from each other -/
def fresh (names : List Str) : List Str → Bool
  | [] => true
  | n :: r => !(names.contains n) && fresh (names ++ [n]) r

def docAfter (r : Root) (d : Doc) (ns : Forest) : Doc :=
  match r with
  | .sec s => d.app s ns
  | _ => d

@[simp] theorem attachToRoot_doc (st : St) (ns : Forest) : (attachToRoot st ns).doc = docAfter st.root st.doc ns := by
  unfold attachToRoot docAfter; cases hr : st.root <;> simp [hr]
@[simp] theorem attachToRoot_spine (st : St) (ns : Forest) : (attachToRoot st ns).spine = st.spine := by
  unfold attachToRoot; cases hr : st.root <;> simp [hr]
@[simp] theorem attachToRoot_root (st : St) (ns : Forest) : (attachToRoot st ns).root = st.root := by
  unfold attachToRoot; cases hr : st.root <;> simp [hr]
@[simp] theorem attachToRoot_names (st : St) (ns : Forest) : (attachToRoot st ns).names = st.names := by
  unfold attachToRoot; cases hr : st.root <;> simp [hr]
@[simp] theorem attachToRoot_fix (st : St) (ns : Forest) : (attachToRoot st ns).fix = st.fix := by
  unfold attachToRoot; cases hr : st.root <;> simp [hr]
@[simp] theorem attachToRoot_stylesPart (st : St) (ns : Forest) : (attachToRoot st ns).stylesPart = st.stylesPart := by
  unfold attachToRoot; cases hr : st.root <;> simp [hr]
@[simp] theorem attachToRoot_parsing (st : St) (ns : Forest) : (attachToRoot st ns).parsing = st.parsing := by
  unfold attachToRoot; cases hr : st.root <;> simp [hr]
@[simp] theorem attachToRoot_data (st : St) (ns : Forest) : (attachToRoot st ns).data = st.data := by
  unfold attachToRoot; cases hr : st.root <;> simp [hr]
@[simp] theorem attachToRoot_currDet (st : St) (ns : Forest) : (attachToRoot st ns).currDet = st.currDet := by
  unfold attachToRoot; cases hr : st.root <;> simp [hr]

def appendKids (st : St) (ns : Forest) : St :=
  match st.spine with
  | f :: r => { st with spine := f.add ns :: r }
  | [] => attachToRoot st ns

def ParentOK (st : St) : Prop := st.spine ≠ [] ∨ st.root = .top ∨ st.root = .det ∨ ∃ s, st.root = .sec s

theorem addToParent_ok (st : St) (ns : Forest) (h : ParentOK st) : addToParent st ns = some (appendKids st ns) := by
  unfold addToParent appendKids attachToRoot
  cases hs : st.spine with
  | cons f r => rfl
  | nil =>
    rcases h with h | h | h | ⟨s, h⟩
    · exact absurd hs h
    all_goals simp [h]

/-- the state after the events of `f`, in closed form -/
def result (st : St) (f : Forest) : St :=
  { appendKids st (mergeK st.data f).1 with
      data := (mergeK st.data f).2
      names := st.names ++ regF (parentQ st) f
      currDet := st.currDet && !hasElemF f }

def flushP (st : St) : St :=
  if st.data.isEmpty then st else { appendKids st (.cons (.text st.data) .nil) with data := [] }

def openE (st : St) (q : QName) (a : List (QName × Str)) : St :=
  { st with names := st.names ++ regOne (parentQ st) q a, spine := ⟨q, a, .nil⟩ :: st.spine, currDet := false }

theorem isTrigger_false_secOf {q : QName} (h : isTrigger q = false) : secOfTrigger q = none := by
  unfold isTrigger at h; cases hs : secOfTrigger q <;> simp_all

theorem trig_fontFace : isTrigger qFontFace = true := by decide
theorem trig_styles : isTrigger qStyles = true := by decide
theorem trig_autoStyles : isTrigger qAutoStyles = true := by decide

theorem attachHook_fresh (names : List Str) (pq : Option QName) (q : QName) (a : List (QName × Str))
    (h : fresh names (regOne pq q a) = true) :
    attachHook names [] pq q a = (names ++ regOne pq q a, [], a) := by
  unfold attachHook
  cases pq with
  | none => simp [regOne]
  | some p =>
    simp only [regOne] at h ⊢
    by_cases hq : q = qStyle
    · cases hl : lookupA aStyleName a with
      | none => simp [hq, hl, lookupFix]; cases lookupA aTextStyleName a <;> simp
      | some nm =>
        by_cases hp : p = qStyles ∨ p = qAutoStyles
        · have hnm : nm ∉ names := by
            simp [hq, hl, hp, fresh] at h; exact h
          simp [hq, hl, hp, hnm, lookupFix]; cases lookupA aTextStyleName a <;> simp
        · simp [hq, hl, hp, lookupFix]; cases lookupA aTextStyleName a <;> simp
    · simp [hq, lookupFix]; cases lookupA aTextStyleName a <;> simp

@[simp] theorem parentQ_appendKids (st : St) (ns : Forest) : parentQ (appendKids st ns) = parentQ st := by
  unfold appendKids parentQ attachToRoot
  cases hs : st.spine with
  | cons f r => simp [Frame.add]
  | nil => cases hr : st.root <;> simp [hr, hs]

theorem parentOK_appendKids (st : St) (ns : Forest) (h : ParentOK st) : ParentOK (appendKids st ns) := by
  unfold appendKids attachToRoot ParentOK at *
  cases hs : st.spine with
  | cons f r => left; simp
  | nil =>
    rcases h with h | h | h | ⟨s, h⟩
    · exact absurd hs h
    all_goals simp [h, hs]

theorem stepStart_inner (st : St) (q : QName) (a : List (QName × Str)) (hp : st.parsing = true)
    (hok : ParentOK st) (hf : st.fix = []) (hq : isTrigger q = false)
    (hfr : fresh st.names (regOne (parentQ st) q a) = true) :
    stepStart st q a = some (openE (flushP st) q a) := by
  have hsec := isTrigger_false_secOf hq
  have hff : q ≠ qFontFace := by intro h; rw [h, trig_fontFace] at hq; cases hq
  unfold stepStart
  simp only [hq, hp, hff, Bool.false_eq_true, if_false, Bool.and_false, Bool.not_true, decide_false]
  by_cases hd : st.data.isEmpty = true
  · simp only [hd, if_true, hsec]
    have hfl : flushP st = st := by simp [flushP, hd]
    rw [hfl]
    unfold ParentOK at hok
    cases hs : st.spine with
    | cons f r =>
      simp only [hs]
      rw [hf, attachHook_fresh _ _ _ _ (by simpa [parentQ, hs] using hfr)]
      simp [openE, hs, hp, hf, parentQ]
    | nil =>
      rcases hok with h | h | h | ⟨s, h⟩
      · exact absurd hs h
      all_goals
        simp only [hs, h]
        rw [hf, attachHook_fresh _ _ _ _ (by simpa [parentQ, hs, h] using hfr)]
        simp [openE, hs, hp, hf, parentQ, h]
  · simp only [hd, Bool.false_eq_true, if_false, addToParent_ok st _ hok, Option.map_some, hsec]
    have hfl : flushP st = { appendKids st (.cons (.text st.data) .nil) with data := [] } := by simp [flushP, hd]
    rw [hfl]
    unfold ParentOK at hok
    cases hs : st.spine with
    | cons f r =>
      simp only [appendKids, hs]
      rw [hf, attachHook_fresh _ _ _ _ (by simpa [parentQ, hs, Frame.add] using hfr)]
      simp [openE, hs, hp, hf, parentQ, Frame.add]
    | nil =>
      rcases hok with h | h | h | ⟨s, h⟩
      · exact absurd hs h
      all_goals
        simp only [appendKids, attachToRoot, hs, h]
        rw [hf, attachHook_fresh _ _ _ _ (by simpa [parentQ, hs, h] using hfr)]
        simp [openE, hs, hp, hf, parentQ, h]

def closeE (st : St) : St :=
  match st.spine with
  | f :: r => { appendKids { st with spine := r } (.cons f.close .nil) with currDet := false }
  | [] => st

theorem stepStop_inner (st : St) (q : QName) (hp : st.parsing = true) (hs : st.spine ≠ [])
    (hcd : st.currDet = false) (hq : isTrigger q = false) :
    stepStop st q = some (closeE (flushP st)) := by
  unfold stepStop
  simp only [hp, Bool.not_true, Bool.false_eq_true, if_false]
  cases hsp : st.spine with
  | nil => exact absurd hsp hs
  | cons f r =>
    by_cases hd : st.data.isEmpty = true
    · have hfl : flushP st = st := by simp [flushP, hd]
      simp only [hd, if_true, hfl, hsp, closeE, hq]
      cases r with
      | nil => simp [appendKids]
      | cons g r' => simp [appendKids]
    · have hfl : flushP st = { appendKids st (.cons (.text st.data) .nil) with data := [] } := by simp [flushP, hd]
      simp only [hd, Bool.false_eq_true, if_false, addToCurr, hcd, addToParent, hsp, Option.map_some, hfl, closeE,
        appendKids, hq]
      cases r with
      | nil => simp [appendKids]
      | cons g r' => simp [appendKids]

/-! #### algebra of `appendKids` -/

theorem Doc.app_nil (d : Doc) (s : Sec) : d.app s .nil = d := by
  cases s <;> simp [Doc.app, Doc.set, Doc.get]

theorem Doc.app_app (d : Doc) (s : Sec) (a b : Forest) : (d.app s a).app s b = d.app s (appF a b) := by
  cases s <;> simp [Doc.app, Doc.set, Doc.get, appF_assoc]

@[simp] theorem Doc.get_app_same (d : Doc) (s : Sec) (a : Forest) : (d.app s a).get s = appF (d.get s) a := by
  cases s <;> simp [Doc.app, Doc.set, Doc.get]

theorem Doc.get_app_other (d : Doc) (s s' : Sec) (a : Forest) (h : s' ≠ s) : (d.app s a).get s' = d.get s' := by
  cases s <;> cases s' <;> simp_all [Doc.app, Doc.set, Doc.get]

theorem appendKids_nil (st : St) : appendKids st .nil = st := by
  unfold appendKids attachToRoot
  cases hs : st.spine with
  | cons f r => cases st; simp_all [Frame.add]
  | nil => cases hr : st.root <;> cases st <;> simp_all [Doc.app_nil]

theorem appendKids_appendKids (st : St) (a b : Forest) :
    appendKids (appendKids st a) b = appendKids st (appF a b) := by
  unfold appendKids attachToRoot
  cases hs : st.spine with
  | cons f r => simp [Frame.add, appF_assoc]
  | nil => cases hr : st.root <;> simp [hs, hr, Doc.app_app]

theorem isEmpty_eq_nil {l : Str} (h : l.isEmpty = true) : l = [] := by cases l <;> simp_all

theorem flushP_eq (st : St) : flushP st = { appendKids st (flushT st.data .nil) with data := [] } := by
  unfold flushP flushT
  by_cases h : st.data.isEmpty = true
  · have := isEmpty_eq_nil h
    simp only [h, if_true, appendKids_nil]
    cases st; simp_all
  · simp [h]

theorem fresh_append (names a b : List Str) : fresh names (a ++ b) = (fresh names a && fresh (names ++ a) b) := by
  induction a generalizing names with
  | nil => simp [fresh]
  | cons n r ih => simp [fresh, ih, Bool.and_assoc, List.append_assoc]

theorem regOne_nontrigger (pq : Option QName) (q : QName) (a : List (QName × Str))
    (h : ∀ p, pq = some p → isTrigger p = false) : regOne pq q a = [] := by
  unfold regOne
  cases pq with
  | none => rfl
  | some p =>
    have hp := h p rfl
    have h1 : p ≠ qStyles := by intro e; rw [e, trig_styles] at hp; cases hp
    have h2 : p ≠ qAutoStyles := by intro e; rw [e, trig_autoStyles] at hp; cases hp
    simp [h1, h2]

theorem regF_nontrigger (pq : Option QName) (h : ∀ p, pq = some p → isTrigger p = false) :
    (f : Forest) → regF pq f = []
  | .nil => rfl
  | .cons (.text _) t => by simp [regF, regF_nontrigger pq h t]
  | .cons (.cdata _) t => by simp [regF, regF_nontrigger pq h t]
  | .cons (.elem q a _) t => by simp [regF, regOne_nontrigger pq q a h, regF_nontrigger pq h t]

/-- what one element contributes: from `st`, the events `start q a`, those of `kids`, `stop q` -/
def afterElem (st : St) (q : QName) (a : List (QName × Str)) (kids : Forest) : St :=
  { appendKids st (flushT st.data (.cons (.elem q a (mergeTF [] kids)) .nil)) with
      data := []
      names := st.names ++ regOne (parentQ st) q a
      currDet := false }

theorem elem_closed (st : St) (q : QName) (a : List (QName × Str)) (kids : Forest)
    (hr : regF (parentQ (openE (flushP st) q a)) kids = []) :
    closeE (flushP (result (openE (flushP st) q a) kids)) = afterElem st q a kids := by
  rw [flushP_eq (result _ _)]
  simp only [result, hr, List.append_nil]
  rw [flushP_eq st]
  have hm := mergeTF_eq [] kids
  obtain ⟨doc, names, fix, sp, parsing, data, root, spine, currDet⟩ := st
  cases spine with
  | cons f r =>
    simp [openE, appendKids, closeE, afterElem, parentQ, Frame.add, Frame.close, hm, appF_assoc, appF_flushT]
  | nil =>
    cases root <;>
      simp [openE, appendKids, closeE, afterElem, parentQ, Frame.add, Frame.close, hm, appF_flushT, docAfter, Doc.app_app]

theorem result_nil (st : St) : result st .nil = st := by
  simp only [result, mergeK, regF, hasElemF, appendKids_nil, List.append_nil]
  cases st; simp

theorem result_text (st : St) (s : Str) (t : Forest) :
    result { st with data := st.data ++ s } t = result st (.cons (.text s) t) := by
  obtain ⟨doc, names, fix, sp, parsing, data, root, spine, currDet⟩ := st
  cases spine with
  | cons f r => simp [result, mergeK, regF, hasElemF, appendKids, parentQ]
  | nil => cases root <;> simp [result, mergeK, regF, hasElemF, appendKids, parentQ, attachToRoot]

theorem result_cdata (st : St) (s : Str) (t : Forest) :
    result { st with data := st.data ++ s } t = result st (.cons (.cdata s) t) := by
  obtain ⟨doc, names, fix, sp, parsing, data, root, spine, currDet⟩ := st
  cases spine with
  | cons f r => simp [result, mergeK, regF, hasElemF, appendKids, parentQ]
  | nil => cases root <;> simp [result, mergeK, regF, hasElemF, appendKids, parentQ, attachToRoot]

theorem result_elem (st : St) (q : QName) (a : List (QName × Str)) (kids t : Forest) :
    result (afterElem st q a kids) t = result st (.cons (.elem q a kids) t) := by
  obtain ⟨doc, names, fix, sp, parsing, data, root, spine, currDet⟩ := st
  cases spine with
  | cons f r =>
    simp [result, afterElem, mergeK, regF, hasElemF, appendKids, parentQ, Frame.add, appF_assoc, appF_flushT]
  | nil =>
    cases root <;>
      simp [result, afterElem, mergeK, regF, hasElemF, appendKids, parentQ, attachToRoot, appF_flushT, Doc.app_app]

/-! #### invariants of the helper states -/

theorem flushP_parsing (st : St) : (flushP st).parsing = st.parsing := by
  rw [flushP_eq]; unfold appendKids; cases hs : st.spine <;> simp
theorem flushP_fix (st : St) : (flushP st).fix = st.fix := by
  rw [flushP_eq]; unfold appendKids; cases hs : st.spine <;> simp
theorem flushP_names (st : St) : (flushP st).names = st.names := by
  rw [flushP_eq]; unfold appendKids; cases hs : st.spine <;> simp
theorem flushP_parentQ (st : St) : parentQ (flushP st) = parentQ st := by
  rw [flushP_eq]
  have := parentQ_appendKids st (flushT st.data .nil)
  simpa [parentQ] using this
theorem flushP_parentOK (st : St) (h : ParentOK st) : ParentOK (flushP st) := by
  rw [flushP_eq]
  have := parentOK_appendKids st (flushT st.data .nil) h
  simpa [ParentOK] using this

theorem parentQ_openE (st : St) (q : QName) (a : List (QName × Str)) :
    ∀ p, parentQ (openE st q a) = some p → p = q := by
  intro p
  unfold parentQ openE
  cases st.root <;> simp <;> intro h <;> exact h.symm

theorem afterElem_parentQ (st : St) (q : QName) (a : List (QName × Str)) (kids : Forest) :
    parentQ (afterElem st q a kids) = parentQ st := by
  have := parentQ_appendKids st (flushT st.data (.cons (.elem q a (mergeTF [] kids)) .nil))
  simpa [afterElem, parentQ] using this

theorem afterElem_parentOK (st : St) (q : QName) (a : List (QName × Str)) (kids : Forest) (h : ParentOK st) :
    ParentOK (afterElem st q a kids) := by
  have := parentOK_appendKids st (flushT st.data (.cons (.elem q a (mergeTF [] kids)) .nil)) h
  simpa [afterElem, ParentOK] using this

theorem appendKids_fields (st : St) (ns : Forest) :
    (appendKids st ns).parsing = st.parsing ∧ (appendKids st ns).fix = st.fix ∧ (appendKids st ns).names = st.names ∧
    (appendKids st ns).data = st.data ∧ (appendKids st ns).currDet = st.currDet ∧
    (appendKids st ns).stylesPart = st.stylesPart ∧ (appendKids st ns).root = st.root ∧
    ((appendKids st ns).spine = [] ↔ st.spine = []) := by
  unfold appendKids; cases hs : st.spine <;> simp [hs]

/-- **the tree builder, inside an element**: from any state in which the parser is switched on and has a parent to
    attach to, the events of a forest without section elements append exactly `mergeK` of the forest to that parent
    and leave the trailing character data pending. -/
theorem run_forest : (f : Forest) → (st : St) → st.parsing = true → ParentOK st → st.fix = [] →
    noTrigF f = true → fresh st.names (regF (parentQ st) f) = true →
    run st (evF f) = some (result st f)
  | .nil, st, _, _, _, _, _ => by simp [evF, result_nil]
  | .cons (.text s) t, st, hp, hok, hf, hnt, hfr => by
    simp only [evF, evN, List.cons_append, List.nil_append, run_cons, step, Option.bind_some]
    have hst : stepChars st s = { st with data := st.data ++ s } := by simp [stepChars, hp]
    rw [hst, ← result_text]
    refine run_forest t _ hp ?_ hf (by simpa [noTrigF, noTrigN] using hnt) (by simpa [regF, parentQ] using hfr)
    simpa [ParentOK] using hok
  | .cons (.cdata s) t, st, hp, hok, hf, hnt, hfr => by
    simp only [evF, evN, List.cons_append, List.nil_append, run_cons, step, Option.bind_some]
    have hst : stepChars st s = { st with data := st.data ++ s } := by simp [stepChars, hp]
    rw [hst, ← result_cdata]
    refine run_forest t _ hp ?_ hf (by simpa [noTrigF, noTrigN] using hnt) (by simpa [regF, parentQ] using hfr)
    simpa [ParentOK] using hok
  | .cons (.elem q a kids) t, st, hp, hok, hf, hnt, hfr => by
    have hnt' : isTrigger q = false ∧ noTrigF kids = true ∧ noTrigF t = true := by
      simpa [noTrigF, noTrigN, Bool.and_assoc] using hnt
    obtain ⟨hq, hnk, hntt⟩ := hnt'
    have hfr' : fresh st.names (regOne (parentQ st) q a) = true ∧
        fresh (st.names ++ regOne (parentQ st) q a) (regF (parentQ st) t) = true := by
      simpa [regF, fresh_append] using hfr
    simp only [evF, evN, List.cons_append, List.append_assoc, run_cons, step]
    rw [stepStart_inner st q a hp hok hf hq hfr'.1]
    simp only [Option.bind_some]
    -- the children
    let st1 := openE (flushP st) q a
    have h1p : st1.parsing = true := by simp [st1, openE, flushP_parsing, hp]
    have h1ok : ParentOK st1 := by left; simp [st1, openE]
    have h1f : st1.fix = [] := by simp [st1, openE, flushP_fix, hf]
    have h1q : ∀ p, parentQ st1 = some p → isTrigger p = false := by
      intro p hpq; rw [parentQ_openE _ _ _ p hpq]; exact hq
    have h1r : regF (parentQ st1) kids = [] := regF_nontrigger _ h1q kids
    have ihk := run_forest kids st1 h1p h1ok h1f hnk (by rw [h1r]; rfl)
    rw [run_append, ihk]
    simp only [Option.bind_some, run_cons]
    -- the end tag
    have hres := appendKids_fields st1 (mergeK st1.data kids).1
    have h3p : (result st1 kids).parsing = true := by simp [result, hres.1, h1p]
    have h3s : (result st1 kids).spine ≠ [] := by
      simp only [result]; intro h; have := hres.2.2.2.2.2.2.2.mp h; simp [st1, openE] at this
    have h3c : (result st1 kids).currDet = false := by simp [result, st1, openE]
    rw [step, stepStop_inner _ q h3p h3s h3c hq]
    simp only [Option.bind_some]
    rw [elem_closed st q a kids h1r, ← result_elem]
    -- the rest
    refine run_forest t _ ?_ (afterElem_parentOK st q a kids hok) ?_ hntt ?_
    · have := appendKids_fields st (flushT st.data (.cons (.elem q a (mergeTF [] kids)) .nil))
      simp [afterElem, this.1, hp]
    · have := appendKids_fields st (flushT st.data (.cons (.elem q a (mergeTF [] kids)) .nil))
      simp [afterElem, this.2.1, hf]
    · rw [afterElem_parentQ]
      simpa [afterElem] using hfr'.2

/-! ### sections: routing, and what is ignored -/

/-- **C04 (routing)**: the document attribute a start tag is routed to.  `office:font-face-decls` is taken from
    styles.xml only; the other seven section elements from whatever part they occur in. -/
def route (stylesPart : Bool) (q : QName) : Option Sec :=
  if !stylesPart && q = qFontFace then none else secOfTrigger q

theorem routing_table :
    route false qFontFace = none ∧ route true qFontFace = some .fontFace ∧
    (∀ sp, route sp qAutoStyles = some .autoStyles ∧ route sp qBody = some .body ∧ route sp qMaster = some .master ∧
      route sp qMeta = some .metaS ∧ route sp qScripts = some .scripts ∧ route sp qSettings = some .settings ∧
      route sp qStyles = some .styles) := by
  refine ⟨by decide, by decide, ?_⟩
  intro sp; cases sp <;> decide

theorem route_some_trigger {sp : Bool} {q : QName} {s : Sec} (h : route sp q = some s) :
    isTrigger q = true ∧ secOfTrigger q = some s ∧ ¬(sp = false ∧ q = qFontFace) := by
  unfold route at h
  by_cases hc : (!sp && decide (q = qFontFace)) = true
  · simp [hc] at h
  · simp only [hc, Bool.false_eq_true, if_false] at h
    refine ⟨by simp [isTrigger, h], h, ?_⟩
    rintro ⟨h1, h2⟩; simp [h1, h2] at hc

/-- while the parser is switched off, everything without a section element inside is skipped -/
theorem run_ignored : (f : Forest) → (st : St) → st.parsing = false → noTrigF f = true → run st (evF f) = some st
  | .nil, st, _, _ => rfl
  | .cons (.text s) t, st, hp, hnt => by
    simp only [evF, evN, List.cons_append, List.nil_append, run_cons, step, Option.bind_some]
    have : stepChars st s = st := by simp [stepChars, hp]
    rw [this]; exact run_ignored t st hp (by simpa [noTrigF, noTrigN] using hnt)
  | .cons (.cdata s) t, st, hp, hnt => by
    simp only [evF, evN, List.cons_append, List.nil_append, run_cons, step, Option.bind_some]
    have : stepChars st s = st := by simp [stepChars, hp]
    rw [this]; exact run_ignored t st hp (by simpa [noTrigF, noTrigN] using hnt)
  | .cons (.elem q a kids) t, st, hp, hnt => by
    have hnt' : isTrigger q = false ∧ noTrigF kids = true ∧ noTrigF t = true := by
      simpa [noTrigF, noTrigN, Bool.and_assoc] using hnt
    obtain ⟨hq, hnk, hntt⟩ := hnt'
    have hstart : stepStart st q a = some st := by
      unfold stepStart; simp [hq, hp]; cases st; simp_all
    have hstop : stepStop st q = some st := by unfold stepStop; simp [hp]
    simp only [evF, evN, List.cons_append, List.append_assoc, run_cons, step, hstart, Option.bind_some]
    rw [run_append, run_ignored kids st hp hnk]
    simp only [Option.bind_some, List.cons_append, List.nil_append, run_cons, step, hstop]
    exact run_ignored t st hp hntt

/-- the children a section receives from a section element with content `f`: the merged content — unless `f` has no
    element child at all, in which case its character data is lost with the element LoadParser built and dropped -/
def secContent (f : Forest) : Forest := if hasElemF f then mergeTF [] f else .nil

def Idle (st : St) : Prop := st.parsing = false ∧ st.data = [] ∧ st.spine = [] ∧ st.currDet = false

/-- the state after a whole section element -/
def afterSection (st : St) (s : Sec) (kids : Forest) : St :=
  { st with doc := st.doc.app s (secContent kids)
            names := st.names ++ regF (some (qOfSec s)) kids
            root := if hasElemF kids then .top else .none }

theorem settle_nil (st : St) (h : st.spine = []) : settle st = st := by simp [settle, h, collapse]

/-- **C04 (one section)**: a section element met while the parser is idle puts `secContent` of its content into the
    section it is routed to, registers the style names, and leaves the parser idle again.  The attributes `a` of the
    section element do not appear on the right-hand side: they are dropped. -/
theorem run_section (st : St) (q : QName) (a : List (QName × Str)) (kids : Forest) (s : Sec)
    (hi : Idle st) (hf : st.fix = []) (hr : route st.stylesPart q = some s) (hnt : noTrigF kids = true)
    (hfr : fresh st.names (regF (some (qOfSec s)) kids) = true) :
    run st (evN (.elem q a kids)) = some (afterSection st s kids) := by
  obtain ⟨htr, hsec, hnf⟩ := route_some_trigger hr
  obtain ⟨hp, hd, hsp, hcd⟩ := hi
  -- the start tag
  let st1 : St := { st with parsing := true, root := .sec s, spine := [], currDet := true }
  have hstart : stepStart st q a = some st1 := by
    unfold stepStart
    have hc : (!st.stylesPart && decide (q = qFontFace)) = false := by
      cases hsp' : st.stylesPart <;> simp_all
    simp only [htr, if_true, hc, Bool.false_eq_true, if_false, Bool.not_true, hd, List.isEmpty_nil, hsec]
    rw [settle_nil _ (by simpa using hsp)]
    simp [st1, hd]
  have h1q : parentQ st1 = some (qOfSec s) := by simp [st1, parentQ]
  have ihk := run_forest kids st1 rfl (Or.inr (Or.inr (Or.inr ⟨s, rfl⟩))) (by simpa [st1] using hf) hnt
    (by rw [h1q]; simpa [st1] using hfr)
  simp only [evN, run_cons, step, hstart, Option.bind_some]
  rw [run_append, ihk]
  simp only [Option.bind_some, run_cons, run_nil, step]
  -- the end tag
  have hK := mergeTF_eq [] kids
  obtain ⟨doc, names, fix, stp, parsing, data, root, spine, currDet⟩ := st
  simp only at hp hd hsp hcd hf
  subst hp hd hsp hcd hf
  by_cases he : hasElemF kids = true
  · by_cases hk2 : (mergeK [] kids).2.isEmpty = true
    · have hk2' := isEmpty_eq_nil hk2
      simp [stepStop, result, st1, appendKids, attachToRoot, h1q, he, hk2', htr, afterSection, secContent, hK, flushT]
    · simp [stepStop, result, st1, appendKids, attachToRoot, h1q, he, hk2, htr, afterSection, secContent, hK, flushT,
        addToCurr, addToParent, Doc.app_app]
  · have he' : hasElemF kids = false := by simpa using he
    have hk1 := mergeK_noElem [] kids he'
    by_cases hk2 : (mergeK [] kids).2.isEmpty = true
    · have hk2' := isEmpty_eq_nil hk2
      simp [stepStop, result, st1, appendKids, attachToRoot, h1q, he', hk2', htr, afterSection, secContent, hk1,
        Doc.app_nil]
    · simp [stepStop, result, st1, appendKids, attachToRoot, h1q, he', hk2, htr, afterSection, secContent, hk1,
        Doc.app_nil, addToCurr]

/-! ### a whole part -/

/-- the top-level children of a part are section elements without nested section elements and with fresh style
    names, or things that are skipped (white space, other elements, office:font-face-decls outside styles.xml) -/
def partKidsOK (sp : Bool) (names : List Str) : Forest → Bool
  | .nil => true
  | .cons (.text _) t => partKidsOK sp names t
  | .cons (.cdata _) t => partKidsOK sp names t
  | .cons (.elem q _ kids) t =>
    match route sp q with
    | some s => noTrigF kids && fresh names (regF (some (qOfSec s)) kids) &&
                partKidsOK sp (names ++ regF (some (qOfSec s)) kids) t
    | none => noTrigF kids && (isTrigger q → q = qFontFace) && partKidsOK sp names t

/-- **what a part contributes to the document** (closed form): every routed section element appends `secContent` of
    its content to its section; everything else is skipped -/
def loadKids (sp : Bool) (l : Loaded) : Forest → Loaded
  | .nil => l
  | .cons (.text _) t => loadKids sp l t
  | .cons (.cdata _) t => loadKids sp l t
  | .cons (.elem q _ kids) t =>
    match route sp q with
    | some s => loadKids sp ⟨l.doc.app s (secContent kids), l.names ++ regF (some (qOfSec s)) kids, l.fix⟩ t
    | none => loadKids sp l t

def afterKids (st : St) : Forest → St
  | .nil => st
  | .cons (.text _) t => afterKids st t
  | .cons (.cdata _) t => afterKids st t
  | .cons (.elem q _ kids) t =>
    match route st.stylesPart q with
    | some s => afterKids (afterSection st s kids) t
    | none => afterKids st t

theorem afterSection_idle (st : St) (s : Sec) (kids : Forest) (h : Idle st) : Idle (afterSection st s kids) := by
  simpa [Idle, afterSection] using h

theorem run_skip_elem (st : St) (q : QName) (a : List (QName × Str)) (kids : Forest) (hp : st.parsing = false)
    (hr : route st.stylesPart q = none) (hq : isTrigger q = true → q = qFontFace) (hnk : noTrigF kids = true) :
    run st (evN (.elem q a kids)) = some st := by
  have hstart : stepStart st q a = some st := by
    unfold stepStart
    by_cases ht : isTrigger q = true
    · have hqf := hq ht
      have hsp : st.stylesPart = false := by
        cases h : st.stylesPart with
        | false => rfl
        | true => simp [route, h, hqf] at hr; simp [isTrigger, hr, hqf] at ht
      simp [ht, hsp, hqf]; cases st; simp_all
    · simp [ht, hp]; cases st; simp_all
  have hstop : stepStop st q = some st := by unfold stepStop; simp [hp]
  simp only [evN, run_cons, step, hstart, Option.bind_some]
  rw [run_append, run_ignored kids st hp hnk]
  simp [run_cons, step, hstop]

theorem run_partKids : (f : Forest) → (st : St) → Idle st → st.fix = [] →
    partKidsOK st.stylesPart st.names f = true → run st (evF f) = some (afterKids st f)
  | .nil, st, _, _, _ => rfl
  | .cons (.text s) t, st, hi, hf, hok => by
    simp only [evF, evN, List.cons_append, List.nil_append, run_cons, step, Option.bind_some]
    have : stepChars st s = st := by simp [stepChars, hi.1]
    rw [this]; exact run_partKids t st hi hf (by simpa [partKidsOK] using hok)
  | .cons (.cdata s) t, st, hi, hf, hok => by
    simp only [evF, evN, List.cons_append, List.nil_append, run_cons, step, Option.bind_some]
    have : stepChars st s = st := by simp [stepChars, hi.1]
    rw [this]; exact run_partKids t st hi hf (by simpa [partKidsOK] using hok)
  | .cons (.elem q a kids) t, st, hi, hf, hok => by
    simp only [evF]
    rw [run_append]
    cases hr : route st.stylesPart q with
    | some s =>
      simp only [partKidsOK, hr, Bool.and_eq_true] at hok
      rw [run_section st q a kids s hi hf hr hok.1.1 hok.1.2]
      simp only [Option.bind_some, afterKids, hr]
      exact run_partKids t _ (afterSection_idle st s kids hi) (by simpa [afterSection] using hf)
        (by simpa [afterSection] using hok.2)
    | none =>
      simp only [partKidsOK, hr, Bool.and_eq_true, decide_eq_true_eq] at hok
      rw [run_skip_elem st q a kids hi.1 hr hok.1.2 hok.1.1]
      simp only [Option.bind_some, afterKids, hr]
      exact run_partKids t st hi hf hok.2

theorem afterKids_loaded : (f : Forest) → (st : St) →
    (⟨(afterKids st f).doc, (afterKids st f).names, (afterKids st f).fix⟩ : Loaded) =
      loadKids st.stylesPart ⟨st.doc, st.names, st.fix⟩ f ∧ (afterKids st f).spine = st.spine ∧
      (afterKids st f).parsing = st.parsing
  | .nil, st => ⟨rfl, rfl, rfl⟩
  | .cons (.text _) t, st => by simpa [afterKids, loadKids] using afterKids_loaded t st
  | .cons (.cdata _) t, st => by simpa [afterKids, loadKids] using afterKids_loaded t st
  | .cons (.elem q a kids) t, st => by
    cases hr : route st.stylesPart q with
    | some s =>
      have := afterKids_loaded t (afterSection st s kids)
      simpa [afterKids, loadKids, hr, afterSection] using this
    | none => simpa [afterKids, loadKids, hr] using afterKids_loaded t st

/-- **C04 (build_events)**: LoadParser on the event stream of a whole part `<root …> sections </root>`.
    For every part whose top-level children satisfy `partKidsOK`, the run succeeds and the document afterwards is
    `loadKids` of the children: each routed section element appended `secContent` of its content to its section
    (section attributes dropped), the root element, white space between the sections and (outside styles.xml)
    office:font-face-decls contributed nothing. -/
theorem build_events (sp : Bool) (l : Loaded) (rq : QName) (ra : List (QName × Str)) (secs : Forest)
    (hf : l.fix = []) (hrq : isTrigger rq = false) (hok : partKidsOK sp l.names secs = true) :
    loadPart sp l (evN (.elem rq ra secs)) = some (loadKids sp l secs) := by
  unfold loadPart
  obtain ⟨st0, hst0⟩ : ∃ st0 : St, st0 = { doc := l.doc, names := l.names, fix := l.fix, stylesPart := sp } := ⟨_, rfl⟩
  rw [← hst0]
  have hi : Idle st0 := by subst hst0; exact ⟨rfl, rfl, rfl, rfl⟩
  have hstart : stepStart st0 rq ra = some st0 := by subst hst0; unfold stepStart; simp [hrq]
  have hk := run_partKids secs st0 hi (by subst hst0; exact hf) (by subst hst0; exact hok)
  have hstop : ∀ st : St, st.parsing = false → stepStop st rq = some st := by
    intro st h; unfold stepStop; simp [h]
  obtain ⟨hl, hsp, hpar⟩ := afterKids_loaded secs st0
  have hap : (afterKids st0 secs).parsing = false := by rw [hpar]; exact hi.1
  simp only [evN, run_cons, step, hstart, Option.bind_some]
  rw [run_append, hk]
  simp only [Option.bind_some, run_cons, step, hstop _ hap, run_nil]
  rw [settle_nil _ (by rw [hsp]; exact hi.2.2.1)]
  subst hst0
  simpa using congrArg some hl

end OdfModel.Props.C04

/-
  Property C04 — saving a document and loading it back reproduces the document.

  Model: `OdfModel.LoadSax` (LoadParser as a state machine over SAX events, with the style index of
  `build_caches`), composed with the XML round trip `parseDoc_render` of the XML layer (C02).
  Tie: harness/c04.py — the recorded SAX streams of every saved part are fed to `drv_load` and the sections are
  compared with what the real `load()` built; the oracle compares load(save(d)) with d on the real library.

  Trusted legs (said so in the statements): expat delivers the event stream `evN t` of the infoset `t` the
  reference parser computes, cut into chunks in any way (`Chunked`); the zip container and the manifest dispatch
  (pictures, sub-documents) are the subject of C03/C16 and of the oracle.
-/
import OdfModel.LoadSax
import OdfModel.Xml.Compose
namespace OdfModel.Props.C04
open OdfModel OdfModel.Xml OdfModel.Spec OdfModel.LoadSax

/-! ### forests -/

@[simp] theorem appF_nil_left (g : Forest) : appF .nil g = g := rfl
@[simp] theorem appF_cons (h : Node) (t g : Forest) : appF (.cons h t) g = .cons h (appF t g) := rfl

@[simp] theorem appF_nil_right : (f : Forest) → appF f .nil = f
  | .nil => rfl
  | .cons h t => by simp [appF_nil_right t]

theorem appF_assoc : (a b c : Forest) → appF (appF a b) c = appF a (appF b c)
  | .nil, _, _ => rfl
  | .cons h t, b, c => by simp [appF_assoc t b c]

/-! ### running event lists -/

@[simp] theorem run_nil (st : St) : run st [] = some st := rfl

theorem run_cons (st : St) (e : Event) (es : List Event) :
    run st (e :: es) = (step st e).bind (fun s => run s es) := by
  simp only [run]; cases step st e <;> rfl

theorem run_append (st : St) (a b : List Event) : run st (a ++ b) = (run st a).bind (fun s => run s b) := by
  induction a generalizing st with
  | nil => simp
  | cons e es ih =>
    simp only [List.cons_append, run_cons]
    cases step st e with
    | none => rfl
    | some s => simpa using ih s

/-! ### C04 (chunking): any way of cutting the character data gives the same result -/

/-- `evs'` is `evs` with every character event cut into an arbitrary list of chunks (empty chunks and, for an empty
    string, no chunk at all included) — what a SAX parser is free to do -/
inductive Chunked : List Event → List Event → Prop where
  | nil : Chunked [] []
  | chars (s : Str) (cs : List Str) (r r' : List Event) : cs.flatten = s → Chunked r r' →
      Chunked (.chars s :: r) (cs.map Event.chars ++ r')
  | other (e : Event) (r r' : List Event) : Chunked r r' → Chunked (e :: r) (e :: r')

theorem stepChars_nil (st : St) : stepChars st [] = st := by
  unfold stepChars; split <;> simp

theorem stepChars_append (st : St) (a b : Str) : stepChars (stepChars st a) b = stepChars st (a ++ b) := by
  unfold stepChars
  by_cases h : (st.parsing && st.skip == 0) = true <;> simp [h, List.append_assoc]

theorem run_chunks (st : St) (cs : List Str) (r : List Event) :
    run st (cs.map Event.chars ++ r) = run (stepChars st cs.flatten) r := by
  induction cs generalizing st with
  | nil => simp [stepChars_nil]
  | cons c cs ih =>
    simp only [List.map_cons, List.cons_append, run_cons, step, Option.bind_some, List.flatten_cons]
    rw [ih, stepChars_append]

/-- **C04 (build_chunk_invariant)**: for EVERY state of the parser and EVERY re-chunking of the character events,
    the run gives the same result (also the same crash). -/
theorem build_chunk_invariant (evs evs' : List Event) (h : Chunked evs evs') :
    ∀ st : St, run st evs' = run st evs := by
  induction h with
  | nil => intro st; rfl
  | chars s cs r r' hs _ ih =>
    intro st
    rw [run_chunks, hs, run_cons]
    simp only [step, Option.bind_some]
    exact ih _
  | other e r r' _ ih =>
    intro st
    simp only [run_cons]
    cases step st e with
    | none => rfl
    | some s => simpa using ih s

/-- every stream is a chunking of itself (one chunk per event) -/
theorem chunked_refl (evs : List Event) : Chunked evs evs := by
  induction evs with
  | nil => exact .nil
  | cons e r ih =>
    cases e with
    | chars s => simpa using Chunked.chars s [s] r r (by simp) ih
    | start q a => exact .other _ r r ih
    | stop q => exact .other _ r r ih

/-! ### what LoadParser builds from the events of a forest -/

def hasElemF : Forest → Bool
  | .nil => false
  | .cons (.elem _ _ _) _ => true
  | .cons (.text _) t => hasElemF t
  | .cons (.cdata _) t => hasElemF t

/-- the children LoadParser gives an element whose content is `f`, with pending character data `acc`: character
    data (text and CDATA alike) is accumulated over any number of events and becomes ONE text node in front of the
    next element / at the end tag; an empty accumulation gives no node; nothing is stripped -/
def mergeTF (acc : Str) : Forest → Forest
  | .nil => flushT acc .nil
  | .cons (.text s) t => mergeTF (acc ++ s) t
  | .cons (.cdata s) t => mergeTF (acc ++ s) t
  | .cons (.elem q a kids) t => flushT acc (.cons (.elem q a (mergeTF [] kids)) (mergeTF [] t))

/-- the same, split into the nodes that are complete and the character data still pending at the end -/
def mergeK (acc : Str) : Forest → Forest × Str
  | .nil => (.nil, acc)
  | .cons (.text s) t => mergeK (acc ++ s) t
  | .cons (.cdata s) t => mergeK (acc ++ s) t
  | .cons (.elem q a kids) t => (flushT acc (.cons (.elem q a (mergeTF [] kids)) (mergeK [] t).1), (mergeK [] t).2)

theorem appF_flushT (acc : Str) (f g : Forest) : appF (flushT acc f) g = flushT acc (appF f g) := by
  unfold flushT; split <;> simp

theorem mergeTF_eq (acc : Str) (f : Forest) :
    mergeTF acc f = appF (mergeK acc f).1 (flushT (mergeK acc f).2 .nil) := by
  fun_induction mergeK acc f with
  | case1 acc => simp [mergeTF]
  | case2 acc s t ih => simpa [mergeTF] using ih
  | case3 acc s t ih => simpa [mergeTF] using ih
  | case4 acc q a kids t ih => simp [mergeTF, appF_flushT, ih]

theorem mergeK_noElem (acc : Str) (f : Forest) (h : hasElemF f = false) : (mergeK acc f).1 = .nil := by
  fun_induction mergeK acc f with
  | case1 acc => rfl
  | case2 acc s t ih => exact ih (by simpa [hasElemF] using h)
  | case3 acc s t ih => exact ih (by simpa [hasElemF] using h)
  | case4 acc q a kids t ih => simp [hasElemF] at h

/-- names registered when `(q, attrs)` is attached under `pq` (no clash) -/
def regOne (pq : Option QName) (q : QName) (a : List (QName × Str)) : List Str :=
  match pq with
  | none => []
  | some p =>
    if q = qStyle ∧ (p = qStyles ∨ p = qAutoStyles) then
      match lookupA aStyleName a with
      | some n => [n]
      | none => []
    else []

mutual
/-- the names registered while a subtree is attached under `pq`, in document order.  Since the repair of the nested
    sections an office:styles / office:automatic-styles element may occur anywhere (inside an inline office:document),
    and the style:style children of such an element are registered like those of the real sections. -/
def regN (pq : Option QName) : Node → List Str
  | .elem q a k => regOne pq q a ++ regAllF (pq.map (fun _ => q)) k
  | .text _ => []
  | .cdata _ => []
def regAllF (pq : Option QName) : Forest → List Str
  | .nil => []
  | .cons h t => regN pq h ++ regAllF pq t
end

/-- none of the new names is registered already, and they differ from each other -/
def fresh (names : List Str) : List Str → Bool
  | [] => true
  | n :: r => !(names.contains n) && fresh (names ++ [n]) r

def docAfter (r : Root) (d : Doc) (ns : Forest) : Doc :=
  match r with
  | .sec s => d.app s ns
  | _ => d

@[simp] theorem attachToRoot_doc (st : St) (ns : Forest) : (attachToRoot st ns).doc = docAfter st.root st.doc ns := by
  unfold attachToRoot docAfter; cases hr : st.root <;> simp [hr]
@[simp] theorem attachToRoot_spine (st : St) (ns : Forest) : (attachToRoot st ns).spine = st.spine := by
  unfold attachToRoot; cases hr : st.root <;> simp [hr]
@[simp] theorem attachToRoot_root (st : St) (ns : Forest) : (attachToRoot st ns).root = st.root := by
  unfold attachToRoot; cases hr : st.root <;> simp [hr]
@[simp] theorem attachToRoot_names (st : St) (ns : Forest) : (attachToRoot st ns).names = st.names := by
  unfold attachToRoot; cases hr : st.root <;> simp [hr]
@[simp] theorem attachToRoot_fix (st : St) (ns : Forest) : (attachToRoot st ns).fix = st.fix := by
  unfold attachToRoot; cases hr : st.root <;> simp [hr]
@[simp] theorem attachToRoot_stylesPart (st : St) (ns : Forest) : (attachToRoot st ns).stylesPart = st.stylesPart := by
  unfold attachToRoot; cases hr : st.root <;> simp [hr]
@[simp] theorem attachToRoot_parsing (st : St) (ns : Forest) : (attachToRoot st ns).parsing = st.parsing := by
  unfold attachToRoot; cases hr : st.root <;> simp [hr]
@[simp] theorem attachToRoot_data (st : St) (ns : Forest) : (attachToRoot st ns).data = st.data := by
  unfold attachToRoot; cases hr : st.root <;> simp [hr]
@[simp] theorem attachToRoot_currDet (st : St) (ns : Forest) : (attachToRoot st ns).currDet = st.currDet := by
  unfold attachToRoot; cases hr : st.root <;> simp [hr]
@[simp] theorem attachToRoot_depth (st : St) (ns : Forest) : (attachToRoot st ns).depth = st.depth := by
  unfold attachToRoot; cases hr : st.root <;> simp [hr]
@[simp] theorem attachToRoot_skip (st : St) (ns : Forest) : (attachToRoot st ns).skip = st.skip := by
  unfold attachToRoot; cases hr : st.root <;> simp [hr]

def appendKids (st : St) (ns : Forest) : St :=
  match st.spine with
  | f :: r => { st with spine := f.add ns :: r }
  | [] => attachToRoot st ns

def ParentOK (st : St) : Prop := st.spine ≠ [] ∨ st.root = .top ∨ st.root = .det ∨ ∃ s, st.root = .sec s

theorem addToParent_ok (st : St) (ns : Forest) (h : ParentOK st) : addToParent st ns = some (appendKids st ns) := by
  unfold addToParent appendKids attachToRoot
  cases hs : st.spine with
  | cons f r => rfl
  | nil =>
    rcases h with h | h | h | ⟨s, h⟩
    · exact absurd hs h
    all_goals simp [h]

/-- the state after the events of `f`, in closed form -/
def result (st : St) (f : Forest) : St :=
  { appendKids st (mergeK st.data f).1 with
      data := (mergeK st.data f).2
      names := st.names ++ regAllF (parentQ st) f
      currDet := st.currDet && !hasElemF f }

def flushP (st : St) : St :=
  if st.data.isEmpty then st else { appendKids st (.cons (.text st.data) .nil) with data := [] }

def openE (st : St) (q : QName) (a : List (QName × Str)) : St :=
  { st with depth := st.depth + 1, names := st.names ++ regOne (parentQ st) q a, spine := ⟨q, a, .nil⟩ :: st.spine,
            currDet := false }

theorem attachHook_fresh (names : List Str) (pq : Option QName) (q : QName) (a : List (QName × Str))
    (h : fresh names (regOne pq q a) = true) :
    attachHook names [] pq q a = (names ++ regOne pq q a, [], a) := by
  unfold attachHook
  cases pq with
  | none => simp [regOne]
  | some p =>
    simp only [regOne] at h ⊢
    by_cases hq : q = qStyle
    · cases hl : lookupA aStyleName a with
      | none => simp [hq, hl, lookupFix]; cases lookupA aTextStyleName a <;> simp
      | some nm =>
        by_cases hp : p = qStyles ∨ p = qAutoStyles
        · have hnm : nm ∉ names := by
            simp [hq, hl, hp, fresh] at h; exact h
          simp [hq, hl, hp, hnm, lookupFix]; cases lookupA aTextStyleName a <;> simp
        · simp [hq, hl, hp, lookupFix]; cases lookupA aTextStyleName a <;> simp
    · simp [hq, lookupFix]; cases lookupA aTextStyleName a <;> simp

@[simp] theorem parentQ_appendKids (st : St) (ns : Forest) : parentQ (appendKids st ns) = parentQ st := by
  unfold appendKids parentQ attachToRoot
  cases hs : st.spine with
  | cons f r => simp [Frame.add]
  | nil => cases hr : st.root <;> simp [hr, hs]

theorem parentOK_appendKids (st : St) (ns : Forest) (h : ParentOK st) : ParentOK (appendKids st ns) := by
  unfold appendKids attachToRoot ParentOK at *
  cases hs : st.spine with
  | cons f r => left; simp
  | nil =>
    rcases h with h | h | h | ⟨s, h⟩
    · exact absurd hs h
    all_goals simp [h, hs]

/-- an element that is not a section (it is not a child of the root element: `depth ≥ 2` before its start tag) and
    is not a repeated font declaration -/
theorem stepStart_inner (st : St) (q : QName) (a : List (QName × Str)) (hp : st.parsing = true) (hsk : st.skip = 0)
    (hd : 2 ≤ st.depth) (hok : ParentOK st) (hf : st.fix = []) (hnf : fontDeclared st q a = false)
    (hfr : fresh st.names (regOne (parentQ st) q a) = true) :
    stepStart st q a = some (openE (flushP st) q a) := by
  have hd2 : decide (st.depth + 1 = 2) = false := by simp; omega
  unfold stepStart
  simp only [hd2, Bool.false_and, Bool.false_eq_true, if_false, hp, Bool.not_true, hsk, hnf, bne_self_eq_false,
    Bool.or_self]
  by_cases hdt : st.data.isEmpty = true
  · simp only [hdt, if_true]
    have hfl : flushP st = st := by simp [flushP, hdt]
    rw [hfl]
    unfold ParentOK at hok
    cases hs : st.spine with
    | cons f r =>
      simp only [hs]
      rw [hf, attachHook_fresh _ _ _ _ (by simpa [parentQ, hs] using hfr)]
      simp [openE, hs, hp, hf, parentQ, hsk]
    | nil =>
      rcases hok with h | h | h | ⟨s, h⟩
      · exact absurd hs h
      all_goals
        simp only [hs, h]
        rw [hf, attachHook_fresh _ _ _ _ (by simpa [parentQ, hs, h] using hfr)]
        simp [openE, hs, hp, hf, parentQ, h, hsk]
  · simp only [hdt, Bool.false_eq_true, if_false, addToParent_ok st _ hok, Option.map_some]
    have hfl : flushP st = { appendKids st (.cons (.text st.data) .nil) with data := [] } := by simp [flushP, hdt]
    rw [hfl]
    unfold ParentOK at hok
    cases hs : st.spine with
    | cons f r =>
      simp only [appendKids, hs]
      rw [hf, attachHook_fresh _ _ _ _ (by simpa [parentQ, hs, Frame.add] using hfr)]
      simp [openE, hs, hp, hf, parentQ, Frame.add, hsk]
    | nil =>
      rcases hok with h | h | h | ⟨s, h⟩
      · exact absurd hs h
      all_goals
        simp only [appendKids, attachToRoot, hs, h]
        rw [hf, attachHook_fresh _ _ _ _ (by simpa [parentQ, hs, h] using hfr)]
        simp [openE, hs, hp, hf, parentQ, h, hsk]

def closeE (st : St) : St :=
  match st.spine with
  | f :: r => { appendKids { st with spine := r } (.cons f.close .nil) with depth := st.depth - 1, currDet := false }
  | [] => st

theorem stepStop_inner (st : St) (q : QName) (hp : st.parsing = true) (hsk : st.skip = 0) (hd : 3 ≤ st.depth)
    (hs : st.spine ≠ []) (hcd : st.currDet = false) :
    stepStop st q = some (closeE (flushP st)) := by
  have hd1 : decide (st.depth - 1 = 1) = false := by simp; omega
  unfold stepStop
  simp only [hp, Bool.not_true, Bool.false_eq_true, if_false, hsk, bne_self_eq_false, hd1, Bool.false_and]
  cases hsp : st.spine with
  | nil => exact absurd hsp hs
  | cons f r =>
    by_cases hdt : st.data.isEmpty = true
    · have hfl : flushP st = st := by simp [flushP, hdt]
      simp only [hdt, if_true, hfl, hsp, closeE]
      cases r with
      | nil => simp [appendKids, hp, hsk]
      | cons g r' => simp [appendKids, hp, hsk]
    · have hfl : flushP st = { appendKids st (.cons (.text st.data) .nil) with data := [] } := by simp [flushP, hdt]
      simp only [hdt, Bool.false_eq_true, if_false, addToCurr, hcd, addToParent, hsp, Option.map_some, hfl, closeE,
        appendKids]
      cases r with
      | nil => simp [appendKids, hp, hsk]
      | cons g r' => simp [appendKids, hp, hsk]

/-! #### algebra of `appendKids` -/

theorem Doc.app_nil (d : Doc) (s : Sec) : d.app s .nil = d := by
  cases s <;> simp [Doc.app, Doc.set, Doc.get]

theorem Doc.app_app (d : Doc) (s : Sec) (a b : Forest) : (d.app s a).app s b = d.app s (appF a b) := by
  cases s <;> simp [Doc.app, Doc.set, Doc.get, appF_assoc]

@[simp] theorem Doc.get_app_same (d : Doc) (s : Sec) (a : Forest) : (d.app s a).get s = appF (d.get s) a := by
  cases s <;> simp [Doc.app, Doc.set, Doc.get]

theorem Doc.get_app_other (d : Doc) (s s' : Sec) (a : Forest) (h : s' ≠ s) : (d.app s a).get s' = d.get s' := by
  cases s <;> cases s' <;> simp_all [Doc.app, Doc.set, Doc.get]

theorem appendKids_nil (st : St) : appendKids st .nil = st := by
  unfold appendKids attachToRoot
  cases hs : st.spine with
  | cons f r => cases st; simp_all [Frame.add]
  | nil => cases hr : st.root <;> cases st <;> simp_all [Doc.app_nil]

theorem appendKids_appendKids (st : St) (a b : Forest) :
    appendKids (appendKids st a) b = appendKids st (appF a b) := by
  unfold appendKids attachToRoot
  cases hs : st.spine with
  | cons f r => simp [Frame.add, appF_assoc]
  | nil => cases hr : st.root <;> simp [hs, hr, Doc.app_app]

theorem isEmpty_eq_nil {l : Str} (h : l.isEmpty = true) : l = [] := by cases l <;> simp_all

theorem flushP_eq (st : St) : flushP st = { appendKids st (flushT st.data .nil) with data := [] } := by
  unfold flushP flushT
  by_cases h : st.data.isEmpty = true
  · have := isEmpty_eq_nil h
    simp only [h, if_true, appendKids_nil]
    cases st; simp_all
  · simp [h]

theorem fresh_append (names a b : List Str) : fresh names (a ++ b) = (fresh names a && fresh (names ++ a) b) := by
  induction a generalizing names with
  | nil => simp [fresh]
  | cons n r ih => simp [fresh, ih, Bool.and_assoc, List.append_assoc]

/-- what one element contributes: from `st`, the events `start q a`, those of `kids`, `stop q` -/
def afterElem (st : St) (q : QName) (a : List (QName × Str)) (kids : Forest) : St :=
  { appendKids st (flushT st.data (.cons (.elem q a (mergeTF [] kids)) .nil)) with
      data := []
      names := st.names ++ regN (parentQ st) (.elem q a kids)
      currDet := false }

theorem parentQ_openE (st : St) (q : QName) (a : List (QName × Str)) :
    parentQ (openE st q a) = (parentQ st).map (fun _ => q) := by
  unfold parentQ openE
  cases st.root <;> simp

theorem elem_closed (st : St) (q : QName) (a : List (QName × Str)) (kids : Forest) :
    closeE (flushP (result (openE (flushP st) q a) kids)) = afterElem st q a kids := by
  rw [flushP_eq (result _ _)]
  have hq : parentQ (openE (flushP st) q a) = (parentQ st).map (fun _ => q) := by
    rw [parentQ_openE, flushP_eq]; have := parentQ_appendKids st (flushT st.data .nil); simpa [parentQ] using congrArg _ this
  simp only [result, hq]
  rw [flushP_eq st]
  have hm := mergeTF_eq [] kids
  obtain ⟨doc, names, fix, sp, parsing, data, root, spine, depth, skip, currDet⟩ := st
  cases spine with
  | cons f r =>
    simp [openE, appendKids, closeE, afterElem, parentQ, Frame.add, Frame.close, hm, appF_assoc, appF_flushT, regN,
      List.append_assoc]
  | nil =>
    cases root <;>
      simp [openE, appendKids, closeE, afterElem, parentQ, Frame.add, Frame.close, hm, appF_flushT, docAfter, Doc.app_app,
        regN, List.append_assoc]

theorem result_nil (st : St) : result st .nil = st := by
  simp only [result, mergeK, regAllF, hasElemF, appendKids_nil, List.append_nil]
  cases st; simp

theorem result_text (st : St) (s : Str) (t : Forest) :
    result { st with data := st.data ++ s } t = result st (.cons (.text s) t) := by
  obtain ⟨doc, names, fix, sp, parsing, data, root, spine, depth, skip, currDet⟩ := st
  cases spine with
  | cons f r => simp [result, mergeK, regAllF, regN, hasElemF, appendKids, parentQ]
  | nil => cases root <;> simp [result, mergeK, regAllF, regN, hasElemF, appendKids, parentQ, attachToRoot]

theorem result_cdata (st : St) (s : Str) (t : Forest) :
    result { st with data := st.data ++ s } t = result st (.cons (.cdata s) t) := by
  obtain ⟨doc, names, fix, sp, parsing, data, root, spine, depth, skip, currDet⟩ := st
  cases spine with
  | cons f r => simp [result, mergeK, regAllF, regN, hasElemF, appendKids, parentQ]
  | nil => cases root <;> simp [result, mergeK, regAllF, regN, hasElemF, appendKids, parentQ, attachToRoot]

theorem result_elem (st : St) (q : QName) (a : List (QName × Str)) (kids t : Forest) :
    result (afterElem st q a kids) t = result st (.cons (.elem q a kids) t) := by
  obtain ⟨doc, names, fix, sp, parsing, data, root, spine, depth, skip, currDet⟩ := st
  cases spine with
  | cons f r =>
    simp [result, afterElem, mergeK, regAllF, hasElemF, appendKids, parentQ, Frame.add, appF_assoc, appF_flushT,
      List.append_assoc]
  | nil =>
    cases root <;>
      simp [result, afterElem, mergeK, regAllF, hasElemF, appendKids, parentQ, attachToRoot, appF_flushT, Doc.app_app,
        List.append_assoc]

/-! #### invariants of the helper states -/

theorem appendKids_fields (st : St) (ns : Forest) :
    (appendKids st ns).parsing = st.parsing ∧ (appendKids st ns).fix = st.fix ∧ (appendKids st ns).names = st.names ∧
    (appendKids st ns).data = st.data ∧ (appendKids st ns).currDet = st.currDet ∧
    (appendKids st ns).stylesPart = st.stylesPart ∧ (appendKids st ns).root = st.root ∧
    ((appendKids st ns).spine = [] ↔ st.spine = []) ∧ (appendKids st ns).depth = st.depth ∧
    (appendKids st ns).skip = st.skip := by
  unfold appendKids; cases hs : st.spine <;> simp [hs]

theorem flushP_fields (st : St) :
    (flushP st).parsing = st.parsing ∧ (flushP st).fix = st.fix ∧ (flushP st).names = st.names ∧
    (flushP st).depth = st.depth ∧ (flushP st).skip = st.skip ∧ ((flushP st).spine = [] ↔ st.spine = []) ∧
    (flushP st).root = st.root := by
  rw [flushP_eq]
  have := appendKids_fields st (flushT st.data .nil)
  simp [this.1, this.2.1, this.2.2.1, this.2.2.2.2.2.2.1, this.2.2.2.2.2.2.2.1, this.2.2.2.2.2.2.2.2.1,
    this.2.2.2.2.2.2.2.2.2]

theorem flushP_parentQ (st : St) : parentQ (flushP st) = parentQ st := by
  rw [flushP_eq]
  have := parentQ_appendKids st (flushT st.data .nil)
  simpa [parentQ] using this
theorem flushP_parentOK (st : St) (h : ParentOK st) : ParentOK (flushP st) := by
  rw [flushP_eq]
  have := parentOK_appendKids st (flushT st.data .nil) h
  simpa [ParentOK] using this

theorem afterElem_parentQ (st : St) (q : QName) (a : List (QName × Str)) (kids : Forest) :
    parentQ (afterElem st q a kids) = parentQ st := by
  have := parentQ_appendKids st (flushT st.data (.cons (.elem q a (mergeTF [] kids)) .nil))
  simpa [afterElem, parentQ] using this

theorem afterElem_parentOK (st : St) (q : QName) (a : List (QName × Str)) (kids : Forest) (h : ParentOK st) :
    ParentOK (afterElem st q a kids) := by
  have := parentOK_appendKids st (flushT st.data (.cons (.elem q a (mergeTF [] kids)) .nil)) h
  simpa [afterElem, ParentOK] using this

/-- inside a skipped font declaration nothing happens -/
theorem run_skipping : (f : Forest) → (st : St) → st.parsing = true → st.skip ≠ 0 → run st (evF f) = some st
  | .nil, st, _, _ => rfl
  | .cons (.text s) t, st, hp, hk => by
    simp only [evF, evN, List.cons_append, List.nil_append, run_cons, step, Option.bind_some]
    have : stepChars st s = st := by simp [stepChars, hk]
    rw [this]; exact run_skipping t st hp hk
  | .cons (.cdata s) t, st, hp, hk => by
    simp only [evF, evN, List.cons_append, List.nil_append, run_cons, step, Option.bind_some]
    have : stepChars st s = st := by simp [stepChars, hk]
    rw [this]; exact run_skipping t st hp hk
  | .cons (.elem q a kids) t, st, hp, hk => by
    obtain ⟨st', hst'⟩ : ∃ s : St, s = { st with depth := st.depth + 1, skip := st.skip + 1 } := ⟨_, rfl⟩
    have hstart : stepStart st q a = some st' := by
      subst hst'; unfold stepStart; simp [hp, hk]
    have hstop : stepStop st' q = some st := by
      subst hst'; unfold stepStop; simp [hp]; cases st; simp
    have hp' : st'.parsing = true := by subst hst'; exact hp
    have hk' : st'.skip ≠ 0 := by subst hst'; simp
    simp only [evF, evN, List.cons_append, List.append_assoc, run_cons, step, hstart, Option.bind_some]
    rw [run_append, run_skipping kids st' hp' hk']
    simp only [Option.bind_some, List.cons_append, List.nil_append, run_cons, step, hstop]
    exact run_skipping t st hp hk

/-- **a font declaration whose name is declared already is skipped with its subtree** (repair @@HASH-B@@): the state
    after it is the state before it -/
theorem run_skip (st : St) (q : QName) (a : List (QName × Str)) (kids : Forest) (hp : st.parsing = true)
    (hsk : st.skip = 0) (hfd : fontDeclared st q a = true) : run st (evN (.elem q a kids)) = some st := by
  obtain ⟨st', hst'⟩ : ∃ s : St, s = { st with depth := st.depth + 1, skip := 1 } := ⟨_, rfl⟩
  have hstart : stepStart st q a = some st' := by
    subst hst'; unfold stepStart; simp [hp, hsk, hfd]
  have hstop : stepStop st' q = some st := by
    subst hst'; unfold stepStop; simp [hp]; cases st; simp_all
  have hp' : st'.parsing = true := by subst hst'; exact hp
  have hk' : st'.skip ≠ 0 := by subst hst'; simp
  simp only [evN, run_cons, step, hstart, Option.bind_some]
  rw [run_append, run_skipping kids st' hp' hk']
  simp [run_cons, step, hstop]

theorem fontDeclared_inner (st : St) (q : QName) (a : List (QName × Str)) (h : st.spine ≠ [] ∨ st.root ≠ .sec .fontFace) :
    fontDeclared st q a = false := by
  unfold fontDeclared
  rcases h with h | h
  · cases hs : st.spine with
    | nil => exact absurd hs h
    | cons f r => simp
  · simp [h]

mutual
/-- **one element** that is not a child of the root element and not a repeated font declaration: LoadParser attaches
    it, with its attributes and the merged content, to the parent — whatever its name is (a nested office:body, office:styles
    … is ordinary content since repair @@HASH-A@@) -/
theorem run_elem : (q : QName) → (a : List (QName × Str)) → (kids : Forest) → (st : St) → st.parsing = true →
    st.skip = 0 → 2 ≤ st.depth → ParentOK st → st.fix = [] → fontDeclared st q a = false →
    fresh st.names (regN (parentQ st) (.elem q a kids)) = true →
    run st (evN (.elem q a kids)) = some (afterElem st q a kids)
  | q, a, kids, st, hp, hsk, hd, hok, hf, hnf, hfr => by
    have hfr' : fresh st.names (regOne (parentQ st) q a) = true ∧
        fresh (st.names ++ regOne (parentQ st) q a) (regAllF ((parentQ st).map (fun _ => q)) kids) = true := by
      simpa [regN, fresh_append] using hfr
    simp only [evN, run_cons, step]
    rw [stepStart_inner st q a hp hsk hd hok hf hnf hfr'.1]
    simp only [Option.bind_some]
    let st1 := openE (flushP st) q a
    have ff := flushP_fields st
    have h1p : st1.parsing = true := by simp [st1, openE, ff.1, hp]
    have h1k : st1.skip = 0 := by simp [st1, openE, ff.2.2.2.2.1, hsk]
    have h1d : 3 ≤ st1.depth := by simp [st1, openE, ff.2.2.2.1]; omega
    have h1ok : ParentOK st1 := by left; simp [st1, openE]
    have h1f : st1.fix = [] := by simp [st1, openE, ff.2.1, hf]
    have h1q : parentQ st1 = (parentQ st).map (fun _ => q) := by
      simp only [st1]; rw [parentQ_openE, flushP_parentQ]
    have ihk := run_forest kids st1 h1p h1k (by omega) h1ok h1f (Or.inl (by simp [st1, openE]))
      (by rw [h1q]; simpa [st1, openE, ff.2.2.1, flushP_parentQ] using hfr'.2)
    rw [run_append, ihk]
    simp only [Option.bind_some, run_cons, run_nil]
    have hres := appendKids_fields st1 (mergeK st1.data kids).1
    have h3p : (result st1 kids).parsing = true := by simp [result, hres.1, h1p]
    have h3k : (result st1 kids).skip = 0 := by simp [result, hres.2.2.2.2.2.2.2.2.2, h1k]
    have h3d : 3 ≤ (result st1 kids).depth := by simp [result, hres.2.2.2.2.2.2.2.2.1]; exact h1d
    have h3s : (result st1 kids).spine ≠ [] := by
      simp only [result]; intro h; have := hres.2.2.2.2.2.2.2.1.mp h; simp [st1, openE] at this
    have h3c : (result st1 kids).currDet = false := by simp [result, st1, openE]
    rw [step, stepStop_inner _ q h3p h3k h3d h3s h3c]
    simp only [Option.bind_some]
    rw [elem_closed st q a kids]
/-- **the tree builder, inside a section**: the events of ANY forest append exactly `mergeK` of the forest to the
    parent and leave the trailing character data pending (`NotFontTop`: not directly under office:font-face-decls,
    where repeated font declarations are skipped — `run_fontTop`). -/
theorem run_forest : (f : Forest) → (st : St) → st.parsing = true → st.skip = 0 → 2 ≤ st.depth → ParentOK st →
    st.fix = [] → (st.spine ≠ [] ∨ st.root ≠ .sec .fontFace) → fresh st.names (regAllF (parentQ st) f) = true →
    run st (evF f) = some (result st f)
  | .nil, st, _, _, _, _, _, _, _ => by simp [evF, result_nil]
  | .cons (.text s) t, st, hp, hsk, hd, hok, hf, hnt, hfr => by
    simp only [evF, evN, List.cons_append, List.nil_append, run_cons, step, Option.bind_some]
    have hst : stepChars st s = { st with data := st.data ++ s } := by simp [stepChars, hp, hsk]
    rw [hst, ← result_text]
    exact run_forest t _ hp hsk hd (by simpa [ParentOK] using hok) hf hnt (by simpa [regAllF, regN, parentQ] using hfr)
  | .cons (.cdata s) t, st, hp, hsk, hd, hok, hf, hnt, hfr => by
    simp only [evF, evN, List.cons_append, List.nil_append, run_cons, step, Option.bind_some]
    have hst : stepChars st s = { st with data := st.data ++ s } := by simp [stepChars, hp, hsk]
    rw [hst, ← result_cdata]
    exact run_forest t _ hp hsk hd (by simpa [ParentOK] using hok) hf hnt (by simpa [regAllF, regN, parentQ] using hfr)
  | .cons (.elem q a kids) t, st, hp, hsk, hd, hok, hf, hnt, hfr => by
    have hfr' : fresh st.names (regN (parentQ st) (.elem q a kids)) = true ∧
        fresh (st.names ++ regN (parentQ st) (.elem q a kids)) (regAllF (parentQ st) t) = true := by
      simpa [regAllF, fresh_append] using hfr
    simp only [evF]
    rw [run_append, run_elem q a kids st hp hsk hd hok hf (fontDeclared_inner st q a hnt) hfr'.1]
    simp only [Option.bind_some]
    rw [← result_elem]
    have af := appendKids_fields st (flushT st.data (.cons (.elem q a (mergeTF [] kids)) .nil))
    refine run_forest t _ ?_ ?_ ?_ (afterElem_parentOK st q a kids hok) ?_ ?_ ?_
    · simp [afterElem, af.1, hp]
    · simp [afterElem, af.2.2.2.2.2.2.2.2.2, hsk]
    · simp [afterElem, af.2.2.2.2.2.2.2.2.1]; exact hd
    · simp [afterElem, af.2.1, hf]
    · rcases hnt with h | h
      · left; simp only [afterElem]; intro e; exact h (af.2.2.2.2.2.2.2.1.mp e)
      · right; simp [afterElem, af.2.2.2.2.2.2.1]; exact h
    · rw [afterElem_parentQ]; simpa [afterElem] using hfr'.2
end

end OdfModel.Props.C04

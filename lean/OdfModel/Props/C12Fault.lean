/-
  Props/C12Fault — C12 for histories in which output calls FAIL part-way (streams that raise, missing picture files).

  Full statement (C12 + C07 for the output calls): whatever output calls were made before — completed or failed at any point —
  the document is the original or its generator-normalised form, and every completed call returns exactly what it returns on the
  untouched document: a failed `save` is invisible to every later rendering ("a retry behaves like a first call").
-/
import OdfModel.RenderFault
import OdfModel.Props.C12
namespace OdfModel.Props.C12Fault
open OdfModel OdfModel.Render OdfModel.RenderFault OdfModel.Props.C12

theorem failStep_cases (c : Render.Cfg) (k : Nat) (d : Doc) : failStep c k d = d ∨ failStep c k d = normGen c.tv d := by
  unfold failStep
  split
  · split <;> simp
  · simp

theorem stepC_cases (c : Render.Cfg) (x : CallAt) (d : Doc) : stepAt c x d = d ∨ stepAt c x d = normGen c.tv d := by
  unfold stepAt
  split
  · exact failStep_cases c _ d
  · exact failStep_cases c _ d
  · exact step_cases c _ d

/-- the position-based model and the early/late model of `Render.Call` (the one the correspondence check drives) agree -/
theorem stepAt_eq_stepC (c : Render.Cfg) (x : CallAt) (d : Doc) :
    stepAt c x d = Render.stepC c (classify c d x) d := by
  unfold stepAt classify failStep
  split
  · split
    · split <;> rfl
    · rfl
  · split
    · split <;> rfl
    · rfl
  · rfl

theorem outC_classified_failure (c : Render.Cfg) (d : Doc) (k : Nat) (p : Option Nat) :
    Render.outC c (match p with
      | some m => if m ≤ k then Render.Call.failedLate else Render.Call.failedEarly
      | none => Render.Call.failedEarly) d = none := by
  cases p with
  | none => rfl
  | some m => by_cases h : m ≤ k <;> simp [h, Render.outC]

theorem outAt_eq_outC (c : Render.Cfg) (x : CallAt) (d : Doc) :
    outAt c x d = Render.outC c (classify c d x) d := by
  obtain ⟨op, f⟩ := x
  cases f with
  | none => cases op <;> rfl
  | some k =>
    cases op
    case save => exact (outC_classified_failure c d k _).symm
    case write => exact (outC_classified_failure c d k _).symm
    all_goals rfl

/-- a state the history can be in: the original document or its normalised form -/
def Reach (c : Render.Cfg) (d e : Doc) : Prop := e = d ∨ e = normGen c.tv d

theorem reach_stepC (c : Render.Cfg) (x : CallAt) (d e : Doc) (h : Reach c d e) : Reach c d (stepAt c x e) := by
  rcases h with h | h <;> rw [h]
  · exact stepC_cases c x d
  · rcases stepC_cases c x (normGen c.tv d) with h' | h'
    · exact Or.inr h'
    · exact Or.inr (by rw [h', normGen_idempotent])

theorem reach_runC (c : Render.Cfg) (xs : List CallAt) (d e : Doc) (h : Reach c d e) : Reach c d (runAt c xs e) := by
  induction xs generalizing e with
  | nil => exact h
  | cons x r ih => exact ih _ (reach_stepC c x d e h)

/-- **C12 with failing calls (purity)**: after ANY history of output calls, each of which may complete or raise while any
    member is being written, the document is the one before the history or its generator-normalised form. -/
theorem render_pure_with_faults (c : Render.Cfg) (xs : List CallAt) (d : Doc) :
    runAt c xs d = d ∨ runAt c xs d = normGen c.tv d :=
  reach_runC c xs d d (Or.inl rfl)

/-- nothing outside `office:meta` changes, however the calls end -/
theorem nonmeta_pure_with_faults (c : Render.Cfg) (xs : List CallAt) (d : Doc) :
    (runAt c xs d).part = d.part ∧ (runAt c xs d).pictures = d.pictures ∧ (runAt c xs d).objects = d.objects ∧
    (runAt c xs d).extras = d.extras ∧ (runAt c xs d).thumbnail = d.thumbnail ∧ (runAt c xs d).mimetype = d.mimetype := by
  rcases render_pure_with_faults c xs d with h | h <;> rw [h] <;> simp [normGen]

theorem out_reach (c : Render.Cfg) (op : Op) (d e : Doc) (h : Reach c d e) : out c op e = out c op d := by
  rcases h with h | h <;> rw [h]
  exact out_normGen c op d

/-- **C12 with failing calls (history independence)**: the i-th call of any history, if it completes, returns what the same
    call returns on the untouched document — whatever completed or failed before it. -/
theorem output_independent_of_failures (c : Render.Cfg) (xs : List CallAt) (d : Doc) (i : Nat) (x : CallAt)
    (hx : xs[i]? = some x) (hok : x.fails = false) :
    (outsAt c xs d)[i]? = some (some (out c x.op d)) := by
  suffices H : ∀ (e : Doc), Reach c d e → (outsAt c xs e)[i]? = some (some (out c x.op d)) from H d (Or.inl rfl)
  induction xs generalizing i with
  | nil => simp at hx
  | cons y r ih =>
    intro e he
    cases i with
    | zero =>
      simp at hx; subst hx
      simp [outsAt, outAt, hok, out_reach c _ d e he]
    | succ j =>
      simp at hx
      simp only [outsAt, List.getElem?_cons_succ]
      exact ih j hx _ (reach_stepC c y d e he)

/-- the outputs of the completed calls are the outputs of the history with the failed calls taken out: a failed call is
    invisible to every later rendering -/
theorem failed_calls_invisible (c : Render.Cfg) (xs : List CallAt) (d : Doc) :
    (outsAt c xs d).filterMap id = outs c (completed xs) d := by
  suffices H : ∀ (e : Doc), Reach c d e → (outsAt c xs e).filterMap id = outs c (completed xs) d from H d (Or.inl rfl)
  induction xs with
  | nil => intro e _; rfl
  | cons y r ih =>
    intro e he
    have hr := ih _ (reach_stepC c y d e he)
    by_cases hf : y.fails = true
    · simp [outsAt, outAt, completed, hf, hr]
    · have hf' : y.fails = false := by simpa using hf
      simp only [outsAt, outAt, completed, hf', Bool.false_eq_true, if_false, List.filterMap_cons, id]
      rw [hr, out_reach c _ d e he]
      simp only [outs]
      rw [outs_step]

/-- **a retry behaves like a first call**: `save` after a `save` that failed at any member writes the package a first `save`
    writes -/
theorem retry_same (c : Render.Cfg) (k : Nat) (d : Doc) :
    outAt c ⟨.save, none⟩ (stepAt c ⟨.save, some k⟩ d) = some (out c .save d) := by
  have h : Reach c d (stepAt c ⟨.save, some k⟩ d) := stepC_cases c _ d
  simp [outAt, CallAt.fails, out_reach c _ d _ h]

/-- where `meta.xml` sits: after `mimetype`, `styles.xml`, `content.xml` (and `settings.xml` when there are settings) -/
theorem meta_position (F : Styles.Cfg) (d : Doc) :
    posOf (str "meta.xml") (pkg F d) = some (if hasKids d.part.settings then 4 else 3) := by
  by_cases h : hasKids d.part.settings = true
  · simp only [pkg, xmlMembers, h, if_true, List.cons_append, List.nil_append, List.append_assoc, posOf]
    simp +decide [str]
  · have h' : hasKids d.part.settings = false := by simpa using h
    simp only [pkg, xmlMembers, h', Bool.false_eq_true, if_false, List.cons_append, List.nil_append, List.append_assoc, posOf]
    simp +decide [str]

/-- a failure in front of `meta.xml` leaves the document exactly as it was (C07 for `save`) -/
theorem early_failure_untouched (c : Render.Cfg) (k : Nat) (d : Doc) (hk : k < 3) : failStep c k d = d := by
  unfold failStep
  rw [meta_position]
  have h3 : ¬ 3 ≤ k := by omega
  have h4 : ¬ 4 ≤ k := by omega
  by_cases h : hasKids (normGen c.tv d).part.settings = true
  · simp [h, h4]
  · simp [h, h3]

/-! non-vacuity: a concrete history with two failures, one in front of `meta.xml` and one behind it -/
def sampleCfg : Render.Cfg := ⟨⟨[], [], fun _ => false⟩, str "ODFPY/x"⟩

/-- a failure while `content.xml` (member 2) is written leaves the foreign generator in place; a failure behind `meta.xml`
    (member 5 does not exist here: the stream raised while the manifest was written) has normalised it -/
example : (runAt sampleCfg [⟨.save, some 2⟩] C12.sample).metaEl = C12.sample.metaEl := by rfl
example : (runAt sampleCfg [⟨.save, some 2⟩, ⟨.write, some 4⟩] C12.sample).metaEl =
    .elem 20 [] [.elem 21 [] [.text (str "T")], .elem eGenerator [] [.text (str "ODFPY/x")]] := by rfl
example : (outsAt sampleCfg [⟨.save, some 1⟩, ⟨.metaxml, none⟩, ⟨.write, some 5⟩, ⟨.save, none⟩] C12.sample).length = 4 := rfl

end OdfModel.Props.C12Fault

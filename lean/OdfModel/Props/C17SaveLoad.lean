/-
  Property C17, the save/load leg: the nodes inserted by the whitespace helper, embedded in the element tree of the
  XML layer, written by the writer and read back by the reference parser (C02), still yield the inserted string.

  `embedF` turns the helper's abstract children into real tree nodes (`<text:s text:c="n"/>`, `<text:tab/>`,
  `<text:line-break/>`, text, CDATA); `extractX` is `extractText` on real trees (it reads `text:c` with `int()`);
  `canonTF` is what a parser returns for the written children (OdfModel.Xml.NsRoundTrip).
-/
import OdfModel.Props.C17
import OdfModel.Xml.Compose
import OdfModel.NsLemmas
namespace OdfModel.Props.C17
open OdfModel OdfModel.Teletype OdfModel.Xml OdfModel.Ns

def TEXTNS : Str :=
  [117, 114, 110, 58, 111, 97, 115, 105, 115, 58, 110, 97, 109, 101, 115, 58, 116, 99, 58, 111, 112, 101, 110, 100, 111,
   99, 117, 109, 101, 110, 116, 58, 120, 109, 108, 110, 115, 58, 116, 101, 120, 116, 58, 49, 46, 48]
def qS : QName := ⟨TEXTNS, [115]⟩
def qC : QName := ⟨TEXTNS, [99]⟩
def qTab : QName := ⟨TEXTNS, [116, 97, 98]⟩
def qLb : QName := ⟨TEXTNS, [108, 105, 110, 101, 45, 98, 114, 101, 97, 107]⟩
def qOther : QName := ⟨TEXTNS, [115, 112, 97, 110]⟩     -- any element extractText recurses into (text:span)

mutual
def embedN : TNode → Node
  | .text s => .text s
  | .cdata s => .cdata s
  | .sp n => .elem qS [(qC, dec n)] .nil          -- S(c=n) stores str(n)
  | .spNoC => .elem qS [] .nil
  | .tab => .elem qTab [] .nil
  | .lb => .elem qLb [] .nil
  | .elem ks => .elem qOther [] (embedF ks)
def embedF : List TNode → Forest
  | [] => .nil
  | k :: ks => .cons (embedN k) (embedF ks)
end

def lookupAttr (q : QName) : List (QName × Str) → Option Str
  | [] => none
  | (a, v) :: r => if a = q then some v else lookupAttr q r

mutual
/-- `extractText` on real tree nodes -/
def extractXN : Node → Str
  | .text s => s
  | .cdata _ => []
  | .elem q attrs kids =>
    if q = qLb then [LF]
    else if q = qTab then [TAB]
    else if q = qS then
      match lookupAttr qC attrs with
      | some v => if v.isEmpty then [SP] else List.replicate (undec v) SP     -- `if c: int(c) else 1`
      | none => [SP]
    else extractXF kids
def extractXF : Forest → Str
  | .nil => []
  | .cons h t => extractXN h ++ extractXF t
end

theorem undec_dec (n : Nat) : undec (dec n) = n := undec_digits (n + 1) n (by omega)

mutual
/-- the embedding is faithful: `extractText` on the real nodes is the helper-level `extract` -/
theorem extractXN_embedN (k : TNode) : extractXN (embedN k) = extract k := by
  cases k with
  | text s => simp [embedN, extractXN, extract]
  | cdata s => simp [embedN, extractXN, extract]
  | sp n =>
    have hne : (dec n).isEmpty = false := by
      have := dec_ne_nil n; cases h : dec n <;> simp_all
    simp [embedN, extractXN, extract, lookupAttr, hne, undec_dec, qS, qLb, qTab, qC, TEXTNS]
  | spNoC => simp [embedN, extractXN, extract, lookupAttr, qS, qLb, qTab, TEXTNS]
  | tab => simp [embedN, extractXN, extract, qTab, qLb, TEXTNS]
  | lb => simp [embedN, extractXN, extract, qLb]
  | elem ks =>
    simp only [embedN, extractXN, extract]
    have h1 : qOther ≠ qLb := by decide
    have h2 : qOther ≠ qTab := by decide
    have h3 : qOther ≠ qS := by decide
    simp only [h1, h2, h3, if_false]
    exact extractXF_embedF ks
theorem extractXF_embedF (ks : List TNode) : extractXF (embedF ks) = extractL ks := by
  cases ks with
  | nil => simp [embedF, extractXF, extractL]
  | cons k r => simp only [embedF, extractXF, extractL]; rw [extractXN_embedN k, extractXF_embedF r]
end

theorem extractXF_flushT (acc : Str) (f : Forest) : extractXF (flushT acc f) = acc ++ extractXF f := by
  unfold flushT
  split
  · rename_i h; have : acc = [] := by simpa using h
    simp [this]
  · simp [extractXF, extractXN]

theorem map_hu_of_digits (l : Str) (h : ∀ c : Nat, c ∈ l → 48 ≤ c ∧ c ≤ 57) : l.map hu = l := by
  induction l with
  | nil => rfl
  | cons c r ih =>
    have hc := h c (by simp)
    simp only [List.map_cons]
    rw [hu_ascii c (by omega), ih (fun c' hc' => h c' (by simp [hc']))]

theorem hu_digits (n : Nat) : (dec n).map hu = dec n :=
  map_hu_of_digits _ (digits_all_digit (n + 1) n)

/-- what `extractText` returns on the canonical form of the written children: the pending character data, then the
    helper-level text with every character passed through the writer's filter.  Stated for the node kinds the helper
    produces (`CleanNode`: non-empty text, `<text:s text:c="n"/>` with n ≥ 1, tab, line-break). -/
theorem extractXF_canonTF (ks : List TNode) (hk : ks.all CleanNode = true) : ∀ acc : Str,
    extractXF (canonTF acc (embedF ks)) = acc ++ (extractL ks).map hu := by
  induction ks with
  | nil => intro acc; simp [embedF, canonTF, extractXF_flushT, extractXF, extractL]
  | cons k r ih =>
    intro acc
    simp only [List.all_cons, Bool.and_eq_true] at hk
    have ih' := ih hk.2
    have hsp : hu SP = SP := hu_ascii SP (by decide)
    have htab : hu TAB = TAB := hu_ascii TAB (by decide)
    have hlf : hu LF = LF := hu_ascii LF (by decide)
    cases k with
    | text s => simp only [embedF, embedN, canonTF, ih', extractL, extract, List.map_append, List.append_assoc]
    | cdata s => simp [CleanNode] at hk
    | spNoC => simp [CleanNode] at hk
    | elem ks' => simp [CleanNode] at hk
    | sp n =>
      have hne : (dec n).isEmpty = false := by
        have := dec_ne_nil n; cases h : dec n <;> simp_all
      simp only [embedF, embedN, canonTF, extractXF_flushT, extractXF, extractXN, huAttrsQ, lookupAttr, hu_digits,
        ih' [], extractL, extract, List.map_append, List.nil_append, hne, undec_dec, if_true, Bool.false_eq_true, if_false]
      have h1 : qS ≠ qLb := by decide
      have h2 : qS ≠ qTab := by decide
      simp [h1, h2, hsp]
    | tab =>
      have h1 : qTab ≠ qLb := by decide
      simp [embedF, embedN, canonTF, extractXF_flushT, extractXF, extractXN, huAttrsQ, ih' [], extractL, extract, h1, htab]
    | lb =>
      simp [embedF, embedN, canonTF, extractXF_flushT, extractXF, extractXN, huAttrsQ, ih' [], extractL, extract, hlf]

/-- **C17 (after save and load, through the XML layer)**: for every string `s` of characters XML can represent
    (`hu c = c`), what `extractText` returns on the parser's view of the nodes `addTextToElement` inserted is `s`. -/
theorem roundtrip_through_canon (s : Str) (hs : ∀ c ∈ s, hu c = c) :
    extractXF (canonTF [] (embedF (enc [] s))) = s := by
  rw [extractXF_canonTF (enc [] s) (no_raw_whitespace s) [], roundtrip]
  simp only [List.nil_append]
  induction s with
  | nil => rfl
  | cons c r ih => simp only [List.map_cons]; rw [hs c (by simp), ih (fun c' hc' => hs c' (by simp [hc']))]

/-- the same, spelled out with the writer and the reference parser: a paragraph `q` holding exactly the inserted nodes,
    written with any admissible table and parsed back, yields an element whose extracted text is `s` -/
theorem roundtrip_saveload (tbl : NsTable) (q : QName) (s : Str) (hs : ∀ c ∈ s, hu c = c)
    (ht : TableOK tbl) (hcl : NsClean tbl) (hok : TreeOK tbl (.elem q [] (embedF (enc [] s)))) :
    ∃ kids, OdfModel.Spec.parseDoc (render tbl (.elem q [] (embedF (enc [] s)))) = some (.elem q [] kids) ∧ extractXF kids = s := by
  refine ⟨canonTF [] (embedF (enc [] s)), ?_, roundtrip_through_canon s hs⟩
  have := parseDoc_render tbl q [] (embedF (enc [] s)) ht hcl hok
  simpa [canonT, huAttrsQ] using this

end OdfModel.Props.C17

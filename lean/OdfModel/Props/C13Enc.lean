/-
  Property C13, the dimension CHARACTER ENCODING OF THE MEMBER (UTF-8 with or without byte order mark, UTF-16 LE / BE with
  byte order mark, 8-bit encodings named by the XML declaration).

  What is PROVED here (about `OdfModel.EntityEnc`, on top of `OdfModel.Props.C13`):
    * `readE` is a conservative extension of `read`: with every member valid UTF-8 the two agree (`readE_utf8`);
    * whatever the encoding of whichever members, a package with an entity-declaring member on the walk of an entry
      point makes the call FAIL — it never returns (`refuses_any_encoding_partial`, `returnsE_implies_clean_partial`);
    * single fault, which explicit failure: a member that is valid UTF-8, or that is read by the entry point handing the
      BYTES to the parser (the MoinMoin converter), is refused with `EntitiesForbidden` (`explicit_utf8_partial`,
      `explicit_bytes_partial`); a member that is not valid UTF-8 and is decoded first (`__loadxmlparts`, `manifestlist`)
      is refused with `UnicodeDecodeError` (`explicit_undecodable_partial`).
  Partial in the same sense as `Props.C13`: the behaviour of defusedxml / expat is the hypothesis `ParserBehaviour`
  (stated on what the DOCTYPE declares, whatever bytes spell it — validated by the encoding fault matrix of harness/c13.py).
-/
import OdfModel.Props.C13
import OdfModel.EntityEnc
namespace OdfModel.Props.C13Enc
open OdfModel OdfModel.Entity OdfModel.ParseSite OdfModel.Props.C13

def liftList : Except Err (List Outcome) → Except ErrE (List Outcome)
  | .error e => .error (.refused e)
  | .ok os => .ok os

theorem undecodable_utf8 (p : PkgE) (ep : EP) (m : Member) (h : p.notUtf8.contains m.path = false) :
    p.undecodable ep m = false := by
  unfold PkgE.undecodable
  rw [h, Bool.and_false]

theorem readListE_utf8 (B : ParserBehaviour) (P : Prep) (ep : EP) (p : PkgE) (h : p.notUtf8 = []) (ms : List Member) :
    readListE B P ep p ms = liftList (readList B P ep p.pkg ms) := by
  induction ms with
  | nil => rfl
  | cons m rest ih =>
    simp only [readListE, readList]
    cases hl : p.pkg.lookup m.path with
    | none =>
      simp only []
      split
      · exact ih
      · rfl
    | some x =>
      have hu : p.undecodable ep m = false := undecodable_utf8 p ep m (by simp [h])
      simp only [readMemberE, hu]
      cases hr : readMember B P ep m x with
      | error e => rfl
      | ok o =>
        simp only [liftErr, ih]
        cases readList B P ep p.pkg rest <;> rfl

/-- **C13 (encoding; conservative extension)**: on a package all of whose members are valid UTF-8 the encoding-aware
    model is the model of `Props.C13`. -/
theorem readE_utf8 (B : ParserBehaviour) (P : Prep) (ep : EP) (p : PkgE) (h : p.notUtf8 = []) :
    readE B P ep p = liftList (read B P ep p.pkg) :=
  readListE_utf8 B P ep p h _

theorem readMemberE_declares (B : ParserBehaviour) (P : Prep) (ep : EP) (p : PkgE) (m : Member) (x : XmlMember) (api : Api)
    (hk : kind ep m = some (.defused api)) (hd : x.declaresEntity = true) :
    readMemberE B P ep p m x = .error (if p.undecodable ep m then .undecodable else .refused .entitiesForbidden) := by
  unfold readMemberE
  rw [readMember_declares B P ep m x api hk hd]
  cases p.undecodable ep m <;> rfl

theorem readListE_refuses (B : ParserBehaviour) (P : Prep) (ep : EP) (p : PkgE) (ms : List Member)
    (hk : ∀ m' ∈ ms, ∃ api, kind ep m' = some (.defused api))
    (m : Member) (x : XmlMember) (hm : m ∈ ms) (hx : p.pkg.lookup m.path = some x) (hd : x.declaresEntity = true) :
    ∃ e, readListE B P ep p ms = .error e := by
  induction ms with
  | nil => cases hm
  | cons m0 rest ih =>
    have ihr : m ∈ rest → ∃ e, readListE B P ep p rest = .error e :=
      fun hmr => ih (fun m' h' => hk m' (List.mem_cons_of_mem _ h')) hmr
    by_cases hm0 : m = m0
    · subst hm0
      obtain ⟨api, hkm⟩ := hk m (by simp)
      simp only [readListE, hx, readMemberE_declares B P ep p m x api hkm hd]
      exact ⟨_, rfl⟩
    · have hmr : m ∈ rest := by
        rcases List.mem_cons.mp hm with h | h
        · exact absurd h hm0
        · exact h
      obtain ⟨e, he⟩ := ihr hmr
      simp only [readListE]
      cases hl : p.pkg.lookup m0.path with
      | none =>
        simp only []
        split
        · exact ⟨e, he⟩
        · exact ⟨_, rfl⟩
      | some x0 =>
        simp only []
        cases hp : readMemberE B P ep p m0 x0 with
        | error e0 => exact ⟨e0, rfl⟩
        | ok o => simp only [he]; exact ⟨e, rfl⟩

/-- **C13 (refusal in EVERY encoding; partial: parser behaviour assumed)**: if an entry point reads a member that
    declares an entity, the call does not return — whatever character encoding that member, or any other member of the
    package, is stored in. -/
theorem refuses_any_encoding_partial (B : ParserBehaviour) (P : Prep) (ep : EP) (p : PkgE) (m : Member) (x : XmlMember)
    (hm : m ∈ readOrder ep p.pkg) (hx : p.pkg.lookup m.path = some x) (hd : x.declaresEntity = true) :
    ∃ e, readE B P ep p = .error e :=
  readListE_refuses B P ep p (readOrder ep p.pkg) (fun m' h' => readOrder_defused ep p.pkg m' h') m x hm hx hd

/-- contrapositive: a call that returns has met no entity declaration in any member it opened, in any encoding -/
theorem returnsE_implies_clean_partial (B : ParserBehaviour) (P : Prep) (ep : EP) (p : PkgE) (os : List Outcome)
    (h : readE B P ep p = .ok os) (m : Member) (x : XmlMember) (hm : m ∈ readOrder ep p.pkg)
    (hx : p.pkg.lookup m.path = some x) : x.declaresEntity = false := by
  cases hd : x.declaresEntity with
  | false => rfl
  | true =>
    obtain ⟨e, he⟩ := refuses_any_encoding_partial B P ep p m x hm hx hd
    rw [he] at h; cases h

theorem readMemberE_clean (B : ParserBehaviour) (P : Prep) (ep : EP) (p : PkgE) (m : Member) (k : Kind)
    (hk : kind ep m = some k) (hu : p.undecodable ep m = false) :
    readMemberE B P ep p m XmlMember.clean = .ok ⟨false⟩ := by
  simp only [readMemberE, hu, readMember_clean B P ep m k hk]
  rfl

/-- single fault: the walk up to the faulty member succeeds, so the failure that surfaces is that member's -/
theorem readListE_single_fault (B : ParserBehaviour) (P : Prep) (ep : EP) (p : PkgE) (ms : List Member)
    (m : Member) (x : XmlMember) (err : ErrE)
    (hbad : ∀ m' ∈ ms, m'.path = m.path → readMemberE B P ep p m' x = .error err)
    (hothers : ∀ m' ∈ ms, m'.path ≠ m.path →
        (p.pkg.lookup m'.path = none ∧ skipsMissing ep m' = true) ∨
        (p.pkg.lookup m'.path = some XmlMember.clean ∧ (∃ k, kind ep m' = some k) ∧ p.undecodable ep m' = false))
    (hm : m ∈ ms) (hx : p.pkg.lookup m.path = some x) :
    readListE B P ep p ms = .error err := by
  induction ms with
  | nil => cases hm
  | cons m0 rest ih =>
    have ihr : m ∈ rest → readListE B P ep p rest = .error err :=
      fun hmr => ih (fun m' h' => hbad m' (List.mem_cons_of_mem _ h'))
                    (fun m' h' => hothers m' (List.mem_cons_of_mem _ h')) hmr
    by_cases hp0 : m0.path = m.path
    · have hb := hbad m0 (by simp) hp0
      simp only [readListE, hp0, hx, hb]
    · have hmr : m ∈ rest := by
        rcases List.mem_cons.mp hm with h | h
        · exact absurd (by rw [h]) hp0
        · exact h
      rcases hothers m0 (by simp) hp0 with ⟨hl, hs⟩ | ⟨hl, ⟨k, hk⟩, hu⟩
      · simp only [readListE, hl, hs, if_true]; exact ihr hmr
      · simp only [readListE, hl, readMemberE_clean B P ep p m0 k hk hu, ihr hmr]

/-- side condition of the single-fault theorems: every OTHER member on the walk is clean and reaches its parser
    (it is valid UTF-8 or is not decoded first), or is absent where the code tolerates absence -/
def OthersCleanE (ep : EP) (p : PkgE) (m : Member) : Prop :=
  ∀ m' ∈ readOrder ep p.pkg, m'.path ≠ m.path →
    (p.pkg.lookup m'.path = none ∧ skipsMissing ep m' = true) ∨
    (p.pkg.lookup m'.path = some XmlMember.clean ∧ p.undecodable ep m' = false)

theorem othersE_kind (ep : EP) (p : PkgE) (m : Member) (h : OthersCleanE ep p m) :
    ∀ m' ∈ readOrder ep p.pkg, m'.path ≠ m.path →
        (p.pkg.lookup m'.path = none ∧ skipsMissing ep m' = true) ∨
        (p.pkg.lookup m'.path = some XmlMember.clean ∧ (∃ k, kind ep m' = some k) ∧ p.undecodable ep m' = false) := by
  intro m' hm' hne
  rcases h m' hm' hne with h | ⟨h, hu⟩
  · exact Or.inl h
  · obtain ⟨api, hk⟩ := readOrder_defused ep p.pkg m' hm'
    exact Or.inr ⟨h, ⟨_, hk⟩, hu⟩

/-- **C13 (explicit refusal, UTF-8 member — with or without byte order mark, whatever its XML declaration names)**:
    the only faulty member declares an entity, is valid UTF-8 and is read ⟹ `EntitiesForbidden`. -/
theorem explicit_utf8_partial (B : ParserBehaviour) (P : Prep) (ep : EP) (p : PkgE) (m : Member) (x : XmlMember)
    (hm : m ∈ readOrder ep p.pkg) (hx : p.pkg.lookup m.path = some x) (hd : x.declaresEntity = true)
    (hu : p.notUtf8.contains m.path = false) (hothers : OthersCleanE ep p m) :
    readE B P ep p = .error (.refused .entitiesForbidden) := by
  unfold readE
  apply readListE_single_fault B P ep p (readOrder ep p.pkg) m x _ _ (othersE_kind ep p m hothers) hm hx
  intro m' hm' hp
  obtain ⟨api, hk⟩ := readOrder_defused ep p.pkg m' hm'
  rw [readMemberE_declares B P ep p m' x api hk hd, undecodable_utf8 p ep m' (by rw [hp]; exact hu)]
  rfl

/-- **C13 (explicit refusal, the entry point that hands the BYTES to the parser — the MoinMoin converter)**:
    the only faulty member declares an entity ⟹ `EntitiesForbidden`, in EVERY encoding of that member. -/
theorem explicit_bytes_partial (B : ParserBehaviour) (P : Prep) (ep : EP) (hs : ep.shape = .moin) (p : PkgE)
    (m : Member) (x : XmlMember)
    (hm : m ∈ readOrder ep p.pkg) (hx : p.pkg.lookup m.path = some x) (hd : x.declaresEntity = true)
    (hothers : OthersCleanE ep p m) :
    readE B P ep p = .error (.refused .entitiesForbidden) := by
  unfold readE
  apply readListE_single_fault B P ep p (readOrder ep p.pkg) m x _ _ (othersE_kind ep p m hothers) hm hx
  intro m' hm' _
  obtain ⟨api, hk⟩ := readOrder_defused ep p.pkg m' hm'
  have hu : p.undecodable ep m' = false := by
    simp [PkgE.undecodable, decodesFirst, hs]
  rw [readMemberE_declares B P ep p m' x api hk hd, hu]
  rfl

/-- **C13 (explicit refusal, member that is not UTF-8 read through `load`, the manifest readers and everything built
    on them)**: the only faulty member (manifest, content / styles / meta / settings of the main document or of ANY
    embedded object) declares an entity and its bytes are not valid UTF-8 (UTF-16 with byte order mark, 8-bit encoding
    with a non-ASCII byte) ⟹ the call fails with `UnicodeDecodeError`; no parser, defused or not, ever sees the member. -/
theorem explicit_undecodable_partial (B : ParserBehaviour) (P : Prep) (ep : EP) (hs : ep.shape ≠ .moin) (p : PkgE)
    (m : Member) (x : XmlMember)
    (hm : m ∈ readOrder ep p.pkg) (hx : p.pkg.lookup m.path = some x) (hd : x.declaresEntity = true)
    (hu : p.notUtf8.contains m.path = true) (hothers : OthersCleanE ep p m) :
    readE B P ep p = .error .undecodable := by
  unfold readE
  apply readListE_single_fault B P ep p (readOrder ep p.pkg) m x _ _ (othersE_kind ep p m hothers) hm hx
  intro m' hm' hp
  obtain ⟨api, hk⟩ := readOrder_defused ep p.pkg m' hm'
  have hun : p.undecodable ep m' = true := by
    unfold PkgE.undecodable decodesFirst
    rw [hp, hu]
    simp [hs]
  rw [readMemberE_declares B P ep p m' x api hk hd, hun]
  rfl

/-! ### the hypotheses are satisfiable; what an undefused re-encoding step in front of the parser would do -/

/-- content.xml declares an entity and is stored in UTF-16 -/
def utf16Pkg : PkgE :=
  { pkg := { files := [(Part.manifest.file, XmlMember.clean), (Part.content.file, ⟨true, false⟩), (Part.styles.file, XmlMember.clean)],
             manifest := [[47], Part.content.file, Part.styles.file] },
    notUtf8 := [Part.content.file] }

theorem utf16_load_undecodable : readE observed Prep.id .load utf16Pkg = .error .undecodable := by rfl

theorem utf16_moin_forbidden : readE observed Prep.id .moinInit utf16Pkg = .error (.refused .entitiesForbidden) := by rfl

/-- the same member handed to a plain parser (what a re-encoding pre-pass through `xml.sax` amounts to) expands -/
example : observed.parse .plain ⟨true, false⟩ = .ok ⟨true⟩ := rfl

end OdfModel.Props.C13Enc

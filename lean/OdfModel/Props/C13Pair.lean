/-
  Property C13, TWO DEFECTS IN ONE PACKAGE: a member that declares entities next to members that are damaged (not
  well-formed) or listed in the manifest but missing from the zip.

  PROVED here (about `OdfModel.EntityDamage`, on top of `OdfModel.Props.C13`):
    * whatever is damaged or missing elsewhere, a sound member on the walk that declares entities makes the call FAIL
      (`pair_refuses_partial`);
    * for the readers built on `load`, when everything else on the walk is clean, damaged or missing (parts, not the
      manifest), the failure is the explicit `EntitiesForbidden` (`pair_explicit_partial`);
    * the missing-part case inside the unextended model (`refuses_with_missing_parts_partial`).
  Partial in the same sense as `Props.C13`: parser behaviour is the hypothesis `ParserBehaviour`.
-/
import OdfModel.Props.C13
import OdfModel.EntityDamage
namespace OdfModel.Props.C13Pair
open OdfModel OdfModel.Entity OdfModel.ParseSite OdfModel.Props.C13

theorem readListD_refuses (B : ParserBehaviour) (P : Prep) (ep : EP) (p : PkgD) (ms : List Member)
    (hk : ∀ m' ∈ ms, ∃ api, kind ep m' = some (.defused api))
    (m : Member) (x : XmlMember) (hm : m ∈ ms) (hx : p.pkg.lookup m.path = some x) (hd : x.declaresEntity = true)
    (hsound : p.damaged.contains m.path = false) :
    ∃ e, readListD B P ep p ms = .error e := by
  induction ms with
  | nil => cases hm
  | cons m0 rest ih =>
    have ihr : m ∈ rest → ∃ e, readListD B P ep p rest = .error e :=
      fun hmr => ih (fun m' h' => hk m' (List.mem_cons_of_mem _ h')) hmr
    by_cases hm0 : m = m0
    · subst hm0
      obtain ⟨api, hkm⟩ := hk m (by simp)
      simp only [readListD, hx, hsound, readMember_declares B P ep m x api hkm hd]
      exact ⟨_, rfl⟩
    · have hmr : m ∈ rest := by
        rcases List.mem_cons.mp hm with h | h
        · exact absurd h hm0
        · exact h
      obtain ⟨e, he⟩ := ihr hmr
      simp only [readListD]
      cases hl : p.pkg.lookup m0.path with
      | none =>
        simp only []
        split
        · exact ⟨e, he⟩
        · exact ⟨_, rfl⟩
      | some x0 =>
        simp only []
        split
        · split
          · exact ⟨e, he⟩
          · exact ⟨_, rfl⟩
        · cases hp : readMember B P ep m0 x0 with
          | error e0 => exact ⟨_, rfl⟩
          | ok o => simp only [he]; exact ⟨e, rfl⟩

/-- **C13 (two defects; partial: parser behaviour assumed)**: whichever other members are damaged or missing, a sound
    member on the walk of the entry point that declares an entity makes the call fail: it never returns. -/
theorem pair_refuses_partial (B : ParserBehaviour) (P : Prep) (ep : EP) (p : PkgD) (m : Member) (x : XmlMember)
    (hm : m ∈ readOrder ep p.pkg) (hx : p.pkg.lookup m.path = some x) (hd : x.declaresEntity = true)
    (hsound : p.damaged.contains m.path = false) :
    ∃ e, readD B P ep p = .error e :=
  readListD_refuses B P ep p (readOrder ep p.pkg) (fun m' h' => readOrder_defused ep p.pkg m' h') m x hm hx hd hsound

/-- what the other members on the walk may be: clean, or - a part, not the manifest - damaged or missing -/
def OthersDamaged (ep : EP) (p : PkgD) (m : Member) : Prop :=
  ∀ m' ∈ readOrder ep p.pkg, m'.path ≠ m.path →
    (p.pkg.lookup m'.path = some XmlMember.clean ∧ p.damaged.contains m'.path = false) ∨
    (m'.part ≠ .manifest ∧ (p.pkg.lookup m'.path = none ∨ p.damaged.contains m'.path = true))

theorem readListD_explicit (B : ParserBehaviour) (P : Prep) (ep : EP) (hs : ep.shape = .loadLike) (p : PkgD) (ms : List Member)
    (hk : ∀ m' ∈ ms, ∃ api, kind ep m' = some (.defused api))
    (m : Member) (x : XmlMember) (hm : m ∈ ms) (hx : p.pkg.lookup m.path = some x) (hd : x.declaresEntity = true)
    (hsound : p.damaged.contains m.path = false)
    (hothers : ∀ m' ∈ ms, m'.path ≠ m.path →
      (p.pkg.lookup m'.path = some XmlMember.clean ∧ p.damaged.contains m'.path = false) ∨
      (m'.part ≠ .manifest ∧ (p.pkg.lookup m'.path = none ∨ p.damaged.contains m'.path = true))) :
    readListD B P ep p ms = .error (.refused .entitiesForbidden) := by
  induction ms with
  | nil => cases hm
  | cons m0 rest ih =>
    have ihr : m ∈ rest → readListD B P ep p rest = .error (.refused .entitiesForbidden) :=
      fun hmr => ih (fun m' h' => hk m' (List.mem_cons_of_mem _ h')) hmr
                    (fun m' h' => hothers m' (List.mem_cons_of_mem _ h'))
    by_cases hp0 : m0.path = m.path
    · obtain ⟨api, hkm⟩ := hk m0 (by simp)
      simp only [readListD, hp0, hx, hsound, readMember_declares B P ep m0 x api hkm hd]
      rfl
    · have hmr : m ∈ rest := by
        rcases List.mem_cons.mp hm with h | h
        · exact absurd (by rw [h]) hp0
        · exact h
      obtain ⟨_, hk0⟩ := hk m0 (by simp)
      rcases hothers m0 (by simp) hp0 with ⟨hl, hnd⟩ | ⟨hpart, hl | hdm⟩
      · simp only [readListD, hl, hnd, readMember_clean B P ep m0 _ hk0, ihr hmr]
        rfl
      · have hskip : skipsMissing ep m0 = true := by simp [skipsMissing, hs, hpart]
        simp only [readListD, hl, hskip, if_true]; exact ihr hmr
      · have hgo : printsAndGoesOn ep m0 = true := by simp [printsAndGoesOn, hs, hpart]
        simp only [readListD]
        cases hl : p.pkg.lookup m0.path with
        | none =>
          have hskip : skipsMissing ep m0 = true := by simp [skipsMissing, hs, hpart]
          simp only [hskip, if_true]; exact ihr hmr
        | some x0 => simp only [hdm, hgo, if_true]; exact ihr hmr

/-- **C13 (two defects, explicit refusal; partial: parser behaviour assumed)**: for `load` and every reader built on it,
    a sound member on the walk declares an entity, every other member on the walk is clean or is a part that is damaged
    (not well-formed) or missing from the zip ⟹ the call fails with `EntitiesForbidden`: the damaged part ends the
    reading of that part only. -/
theorem pair_explicit_partial (B : ParserBehaviour) (P : Prep) (ep : EP) (hs : ep.shape = .loadLike) (p : PkgD)
    (m : Member) (x : XmlMember)
    (hm : m ∈ readOrder ep p.pkg) (hx : p.pkg.lookup m.path = some x) (hd : x.declaresEntity = true)
    (hsound : p.damaged.contains m.path = false) (hothers : OthersDamaged ep p m) :
    readD B P ep p = .error (.refused .entitiesForbidden) :=
  readListD_explicit B P ep hs p (readOrder ep p.pkg) (fun m' h' => readOrder_defused ep p.pkg m' h') m x hm hx hd hsound hothers

/-- **C13 (missing parts, in the unextended model)**: parts listed in the manifest but absent from the zip do not keep
    `load` and the readers built on it from refusing the member that declares an entity. -/
theorem refuses_with_missing_parts_partial (B : ParserBehaviour) (P : Prep) (ep : EP) (hs : ep.shape = .loadLike) (p : Pkg)
    (m : Member) (x : XmlMember)
    (hm : m ∈ readOrder ep p) (hx : p.lookup m.path = some x) (hd : x.declaresEntity = true)
    (hothers : ∀ m' ∈ readOrder ep p, m'.path ≠ m.path →
        p.lookup m'.path = some XmlMember.clean ∨ (p.lookup m'.path = none ∧ m'.part ≠ .manifest)) :
    read B P ep p = .error .entitiesForbidden := by
  apply refuses_explicit_partial B P ep p m x hm hx hd
  intro m' hm' hne
  rcases hothers m' hm' hne with h | ⟨h, hpart⟩
  · exact Or.inr h
  · exact Or.inl ⟨h, by simp [skipsMissing, hs, hpart]⟩

/-- the hypotheses are satisfiable: settings.xml listed but damaged, content.xml declares an entity -/
example : readD observed Prep.id .load
    { pkg := { files := [(Part.manifest.file, XmlMember.clean), (Part.settings.file, XmlMember.clean), (Part.content.file, ⟨true, false⟩)],
               manifest := [Part.settings.file, Part.content.file] },
      damaged := [Part.settings.file] } = .error (.refused .entitiesForbidden) := by rfl

end OdfModel.Props.C13Pair

/-
  Property C16, the bridge to the XML layer: the folder a returned reference names is declared, with the object's
  media type, in the BYTES of the emitted META-INF/manifest.xml — i.e. a reader that parses the manifest (reference
  XML parser + the model of ODFManifestHandler) finds the entry.  Composition of `ref_names_folder_partial`
  (package layer) with `manifest_xml_lists_entries` (Props/C03Xml.lean, which rests on `parseDoc_render`).
-/
import OdfModel.Props.C16
import OdfModel.Props.C03Xml
namespace OdfModel.Props.C16Xml
open OdfModel OdfModel.Xml OdfModel.Spec OdfModel.Pkg OdfModel.Props.C03Xml

/-- an entry of the model is among the entries read back from the XML -/
theorem listed_mem (tbl : NsTable) (p : Str) (es : List ME) (e : ME)
    (ht : TableOK tbl) (hcl : NsClean tbl) (hp : lookupNs tbl MANIFESTNS = some p) (hs : EntriesOK es) (he : e ∈ es) :
    ∃ got, readManifest (manifestXml tbl es) = some got ∧ listed e ∈ got :=
  ⟨es.map listed, manifest_xml_lists_entries tbl p es ht hcl hp hs, List.mem_map.mpr ⟨e, he, rfl⟩⟩

/-- **C16 at the level of the manifest bytes**: under the premises of `ref_names_folder_partial`, for every reference
    `"./" ++ G` returned by addObject, a reader of the emitted manifest.xml finds the entry `G/` with that object's media
    type (both as they arrive through the writer's character filter `hu`; equal on the nose for clean names). -/
theorem ref_declared_in_manifest_xml (h0 : Hist) (ops : List Op) (h : Hist) (hinit : C16.Inv h0)
    (hord : parentsFirst h0 ops = true) (hrun : run h0 ops = some h)
    (tbl : NsTable) (p : Str) (ht : TableOK tbl) (hcl : NsClean tbl) (hp : lookupNs tbl MANIFESTNS = some p)
    (hs : EntriesOK (save h.root).man) :
    ∀ x ∈ h.refs, ∃ got, readManifest (manifestXml tbl (save h.root).man) = some got ∧
      (some ((x.2.2.drop 2 ++ sSlash).map hu), x.2.1.map hu) ∈ got := by
  intro x hx
  have hr := C16.ref_names_folder_partial h0 ops h hinit hord hrun x hx
  simp only [refResolves, Bool.and_eq_true, List.any_eq_true, beq_iff_eq] at hr
  obtain ⟨e, hem, hpath, hmt⟩ := hr.2
  obtain ⟨got, hg, hl⟩ := listed_mem tbl p _ e ht hcl hp hs hem
  refine ⟨got, hg, ?_⟩
  simpa [listed, hpath, hmt] using hl

end OdfModel.Props.C16Xml

/-
  Property C03, the bridge between the package layer and the XML layer.

  `Props/C03.lean` proves the manifest exact *as a list of entries* (`Out.man`); the member `META-INF/manifest.xml`
  itself is an opaque token there.  Here the token is opened: `save` builds the manifest as an element tree
  (`manifest.Manifest()` + one `manifest.FileEntry(fullpath=…, mediatype=…)` per entry, odf/opendocument.py) and
  writes it with `toXml(0)`; a reader gets its entry list from the parsed XML (`ODFManifestHandler`,
  odf/odfmanifest.py).  With the print/parse round trip of the XML layer (`parseDoc_render`):

    what ANY conforming reader extracts from the emitted manifest.xml is the entry list of the model, path for
    path and media type for media type, in order (`manifest_xml_lists_entries`),
    hence — with `manifest_exact_ordered` — exactly the archive's members (`manifest_xml_lists_members`).

  Strings pass through the writer's character filter `hu`; for paths and media types without a filtered code point
  (every name `save` generates; `PathsClean`) the lists are equal on the nose, and the general statement says what
  happens otherwise: the *listed* path is the filtered one.

  Tie: harness/c03.py compares, for every saved package, the entries of `Out.man` with an independent expat parse of
  the real manifest.xml (entry by entry), and harness/xmlchecks.py compares the writer byte for byte.
-/
import OdfModel.Xml.Compose
import OdfModel.Props.C03
namespace OdfModel.Props.C03Xml
open OdfModel OdfModel.Xml OdfModel.Spec OdfModel.Pkg OdfModel.Props.C03

/-- `urn:oasis:names:tc:opendocument:xmlns:manifest:1.0` -/
def MANIFESTNS : Str :=
  [117, 114, 110, 58, 111, 97, 115, 105, 115, 58, 110, 97, 109, 101, 115, 58, 116, 99, 58, 111, 112, 101, 110, 100, 111,
   99, 117, 109, 101, 110, 116, 58, 120, 109, 108, 110, 115, 58, 109, 97, 110, 105, 102, 101, 115, 116, 58, 49, 46, 48]
def qManifest : QName := ⟨MANIFESTNS, [109, 97, 110, 105, 102, 101, 115, 116]⟩                 -- manifest:manifest
def qFileEntry : QName := ⟨MANIFESTNS, [102, 105, 108, 101, 45, 101, 110, 116, 114, 121]⟩      -- manifest:file-entry
def qFullPath : QName := ⟨MANIFESTNS, [102, 117, 108, 108, 45, 112, 97, 116, 104]⟩             -- manifest:full-path
def qMediaType : QName := ⟨MANIFESTNS, [109, 101, 100, 105, 97, 45, 116, 121, 112, 101]⟩       -- manifest:media-type
/-- `application/octet-stream`, the reader's default media type -/
def OCTET : Str :=
  [97, 112, 112, 108, 105, 99, 97, 116, 105, 111, 110, 47, 111, 99, 116, 101, 116, 45, 115, 116, 114, 101, 97, 109]

/-! ### the writer side: the tree `save` builds -/

/-- `manifest.FileEntry(fullpath=p, mediatype=m)` -/
def entryNode (e : ME) : Node := .elem qFileEntry [(qFullPath, e.path), (qMediaType, e.mediatype)] .nil

def entryForest : List ME → Forest
  | [] => .nil
  | e :: r => .cons (entryNode e) (entryForest r)

/-- `self.manifest = manifest.Manifest()` followed by one `addElement(manifest.FileEntry(…))` per entry -/
def manifestTree (es : List ME) : Node := .elem qManifest [] (entryForest es)

/-- the bytes of `META-INF/manifest.xml`: `_XMLPROLOGUE` + `self.manifest.toXml(0)` -/
def manifestXml (tbl : NsTable) (es : List ME) : Str := render tbl (manifestTree es)

/-! ### the reader side: `ODFManifestHandler` over the parsed document -/

def attrVal (as : List (QName × Str)) (q : QName) : Option Str :=
  match as with
  | [] => none
  | (k, v) :: r => if k = q then some v else attrVal r q

mutual
/-- `startElementNS`: every `manifest:file-entry`, at any depth, in document order, contributes
    `(attrs.get(full-path), attrs.get(media-type, "application/octet-stream"))` -/
def rawEntries : Node → List (Option Str × Str)
  | .elem q as kids =>
      (if q = qFileEntry then [(attrVal as qFullPath, (attrVal as qMediaType).getD OCTET)] else []) ++ rawEntriesF kids
  | .text _ => []
  | .cdata _ => []
def rawEntriesF : Forest → List (Option Str × Str)
  | .nil => []
  | .cons h t => rawEntries h ++ rawEntriesF t
end

/-- what a reader extracts from the bytes of a manifest: parse (reference parser), then the handler -/
def readManifest (bytes : Str) : Option (List (Option Str × Str)) := (parseDoc bytes).map rawEntries

/-! ### the tree is one the writer theorem covers -/

def EntriesOK (es : List ME) : Prop := ∀ e ∈ es, StrOK e.path ∧ StrOK e.mediatype

theorem qnames_ok : QNameOK qManifest ∧ QNameOK qFileEntry ∧ QNameOK qFullPath ∧ QNameOK qMediaType := by
  refine ⟨⟨by decide, ?_⟩, ⟨by decide, ?_⟩, ⟨by decide, ?_⟩, ⟨by decide, ?_⟩⟩ <;> intro h <;> exact absurd h (by decide)

theorem covered_all (tbl : NsTable) (p : Str) (h : lookupNs tbl MANIFESTNS = some p) :
    Covered tbl qManifest ∧ Covered tbl qFileEntry ∧ Covered tbl qFullPath ∧ Covered tbl qMediaType :=
  ⟨.inr ⟨p, h⟩, .inr ⟨p, h⟩, .inr ⟨p, h⟩, .inr ⟨p, h⟩⟩

theorem entryForest_ok (tbl : NsTable) (p : Str) (h : lookupNs tbl MANIFESTNS = some p) (es : List ME) (hs : EntriesOK es) :
    ForestOK tbl (entryForest es) := by
  induction es with
  | nil => simp [entryForest, ForestOK]
  | cons e r ih =>
    have he := hs e (by simp)
    have hc := covered_all tbl p h
    have hq := qnames_ok
    have hnd : nodupQ [(qFullPath, e.path), (qMediaType, e.mediatype)] = true := by
      have h1 : (qMediaType == qFullPath) = false := by decide
      simp [nodupQ, h1]
    refine ⟨⟨hq.2.1, hc.2.1, ⟨hnd, ?_⟩, by simp [ForestOK]⟩, ih (fun e' h' => hs e' (by simp [h']))⟩
    intro a ha
    simp only [List.mem_cons, List.not_mem_nil, or_false] at ha
    rcases ha with rfl | rfl
    · exact ⟨hq.2.2.1, hc.2.2.1, he.1⟩
    · exact ⟨hq.2.2.2, hc.2.2.2, he.2⟩

theorem manifestTree_ok (tbl : NsTable) (p : Str) (h : lookupNs tbl MANIFESTNS = some p) (es : List ME) (hs : EntriesOK es) :
    TreeOK tbl (manifestTree es) :=
  ⟨qnames_ok.1, (covered_all tbl p h).1, ⟨by decide, by intro a ha; cases ha⟩, entryForest_ok tbl p h es hs⟩

/-! ### what the reader finds in the canonical form -/

theorem canonTF_entryForest (es : List ME) :
    canonTF [] (entryForest es) =
      entryForest (es.map fun e => { e with path := e.path.map hu, mediatype := e.mediatype.map hu }) := by
  induction es with
  | nil => simp [entryForest, canonTF, flushT]
  | cons e r ih => simp [entryForest, entryNode, canonTF, flushT, huAttrsQ, ih]

theorem rawEntriesF_entryForest (es : List ME) :
    rawEntriesF (entryForest es) = es.map fun e => (some e.path, e.mediatype) := by
  induction es with
  | nil => simp [entryForest, rawEntriesF]
  | cons e r ih =>
    have h1 : qFullPath ≠ qMediaType := by decide
    simp [entryForest, entryNode, rawEntriesF, rawEntries, attrVal, h1, ih]

/-- the listed form of an entry: path and media type as they arrive after the writer's character filter -/
def listed (e : ME) : Option Str × Str := (some (e.path.map hu), e.mediatype.map hu)

/-- **C03 (the XML manifest lists the model's entries)**: reading the emitted `manifest.xml` — prologue, namespace
    declarations, quoting and escaping included — gives one `(full-path, media-type)` pair per entry of the model, in
    order, nothing else. -/
theorem manifest_xml_lists_entries (tbl : NsTable) (p : Str) (es : List ME)
    (ht : TableOK tbl) (hcl : NsClean tbl) (hp : lookupNs tbl MANIFESTNS = some p) (hs : EntriesOK es) :
    readManifest (manifestXml tbl es) = some (es.map listed) := by
  unfold readManifest manifestXml manifestTree
  rw [parseDoc_render tbl qManifest [] (entryForest es) ht hcl (manifestTree_ok tbl p hp es hs)]
  have hne : qManifest ≠ qFileEntry := by decide
  simp only [Option.map_some, canonT, huAttrsQ, rawEntries, hne, if_false, List.nil_append, canonTF_entryForest,
    rawEntriesF_entryForest, List.map_map]
  rfl

/-- paths and media types that the writer's filter leaves alone (all names `save` generates are ASCII; registered
    picture names and media types given by the caller are the only free strings) -/
def PathsClean (es : List ME) : Prop := ∀ e ∈ es, e.path.map hu = e.path ∧ e.mediatype.map hu = e.mediatype

theorem listed_clean (es : List ME) (h : PathsClean es) : es.map listed = es.map fun e => (some e.path, e.mediatype) := by
  apply List.map_congr_left
  intro e he
  simp [listed, (h e he).1, (h e he).2]

/-- **C03 (truthful manifest, at the level of the bytes)**: for a saved document whose manifest strings are clean,
    the paths a reader finds in `manifest.xml`, restricted to the entries that describe files, are exactly the
    archive's member names between `mimetype` and `META-INF/manifest.xml`, in order. -/
theorem manifest_xml_lists_members (tbl : NsTable) (p : Str) (d : Doc)
    (ht : TableOK tbl) (hcl : NsClean tbl) (hp : lookupNs tbl MANIFESTNS = some p)
    (hs : EntriesOK (save d).man) (hc : PathsClean (save d).man) :
    readManifest (manifestXml tbl (save d).man) = some ((save d).man.map fun e => (some e.path, e.mediatype))
    ∧ names (save d) = sMimetype :: (((save d).man.filter (fun e => !e.isFolder)).map (·.path) ++ [sManifestPath]) := by
  refine ⟨?_, ?_⟩
  · rw [manifest_xml_lists_entries tbl p _ ht hcl hp hs, listed_clean _ hc]
  · exact manifest_exact_ordered d

/-- the general statement is NOT "equal on the nose": a path with a code point the writer filters (here U+0001) is
    listed under another name than the member carries — the reason for `PathsClean` -/
theorem listed_path_filtered : listed ⟨[97, 1], [], false⟩ ≠ (some [97, 1], []) := by decide

/-- the premises are met by a concrete table and entry list (non-vacuity); the reader finds the two entries -/
example :
    let tbl : NsTable := [(MANIFESTNS, [109])]
    let es : List ME := [⟨[47], [116], true⟩, ⟨[99, 46, 120, 109, 108], [116, 47, 120], false⟩]
    readManifest (manifestXml tbl es) = some [(some [47], [116]), (some [99, 46, 120, 109, 108], [116, 47, 120])] := by
  decide +kernel

end OdfModel.Props.C03Xml

/-
  Property C13 — the hypothesis `Prep` of Props/C13.lean DISCHARGED for the model of `__fixXmlPart`.

  `Prep` (OdfModel.Entity) says: the text pre-processing between the zip member and the defused parser hands on what
  matters of the member — does its DOCTYPE declare an entity, does it name an external subset — unchanged.  Until fix
  e859a9c that was false for the code (`<b` inside an entity literal was taken for the document element, the xmlns
  declarations were spliced into the literal, the parser failed BEFORE it saw the declaration, the failure was only
  printed: load() returned normally) and the model could only assume it.  Now it follows from
  `OdfModel.Props.C05.fix_prolog_untouched` (the character-level model of the repaired function, tied to the code by
  harness/c05.py and harness/c13.py on every prolog text of the fault matrix):

    * `fix_keeps_prolog_at`     — if the prolog the function finds (`prologLen`, Python's match of its regex) IS a prolog
                                  in the sense of the XML grammar followed by a start tag (`PrologAt`, decidable, an
                                  independent deterministic recogniser: `isXmlProlog`), the result has the same prolog at
                                  the same place, character for character, followed by the same start tag name;
    * `fix_keeps_doctype_facts` — so whatever a reader that decides the DOCTYPE facts from the prolog (`DoctypeReader`)
                                  reports for the result is what it reports for the member;
    * `prepOfFix`, `C13_full_fix`, `fixed_text_refused` — `Prep` instantiated with the model; the refusal theorems of
                                  Props/C13.lean hold with that instance, no `Prep` hypothesis left.

  What REMAINS ASSUMED (not proved, validated by the fault matrix on every run):
    * `ParserBehaviour` (Entity.lean): defusedxml raises `EntitiesForbidden` at an entity declaration, its SAX reader
      raises `ExternalReferenceForbidden` for an external subset;
    * `DoctypeReader.prolog_decides`: what expat reports of the DOCTYPE is decided by the text in front of the document
      element's start tag (XML 1.0 production [22] prolog: the doctypedecl is part of the prolog) — two texts with the
      same XML prolog, each followed by a start tag, are told apart by nothing the property looks at;
    * the side condition `PrologAt x (prologLen x)`: the regex of the code and the XML grammar agree on where the prolog
      of THIS text ends.  Decidable per text; holds for every legal prolog shape of the fault matrix (checked with the
      model's `prologLen` by `decide` below for the worst of them, `w6`); it fails only for texts that are not XML in
      front of the root (e.g. a vertical tab, which Python's `\s` accepts and XML does not: `vt_not_xml`) — expat
      refuses those with a syntax error whatever `__fixXmlPart` does.
-/
import OdfModel.Props.C05
import OdfModel.Props.C13
namespace OdfModel.Props.C13Prep
open OdfModel OdfModel.Entity OdfModel.LoadSax OdfModel.Props.C05 OdfModel.Props.C13

/-! ### the XML grammar's prolog (specification side: deterministic, no regex, no backtracking) -/

/-- XML `S` -/
def isXmlWs (c : Cp) : Bool := c == 32 || c == 9 || c == 10 || c == 13

/-- the text behind the `]` that closes an internal subset: comments, processing instructions and quoted literals are
    units (XML 1.0 [28b] intSubset: markupdecl | DeclSep; literals occur inside markup declarations only) -/
def xmlSubset : Nat → Str → Option Str
  | 0, _ => none
  | _+1, [] => none
  | f+1, c :: r =>
    if c == 93 then some r
    else if c == 34 || c == 39 then
      match splitAtQuote c r with
      | some (_, rest) => xmlSubset f rest
      | none => none
    else if c == 60 && isPrefixOf sBangDashes r then
      match afterFirst sCommentEnd (r.drop 3) with
      | some rest => xmlSubset f rest
      | none => none
    else if c == 60 && r.head? == some 63 then
      match afterFirst sPiEnd (r.drop 1) with
      | some rest => xmlSubset f rest
      | none => none
    else xmlSubset f r

/-- the text behind the `>` that closes `<!DOCTYPE` ([28] doctypedecl: name, ExternalID literals, `[` intSubset `]`) -/
def xmlDoctype : Nat → Str → Option Str
  | 0, _ => none
  | _+1, [] => none
  | f+1, c :: r =>
    if c == 62 then some r
    else if c == 34 || c == 39 then
      match splitAtQuote c r with
      | some (_, rest) => xmlDoctype f rest
      | none => none
    else if c == 91 then
      match xmlSubset (r.length + 1) r with
      | some rest => xmlDoctype f rest
      | none => none
    else xmlDoctype f r

/-- the whole text consists of prolog items ([22] prolog, [27] Misc): white space, `<? … ?>`, `<!-- … -->`, `<!DOCTYPE … >` -/
def xmlItems : Nat → Str → Bool
  | 0, s => s.isEmpty
  | _+1, [] => true
  | f+1, c :: r =>
    if isXmlWs c then xmlItems f r
    else if c == 60 then
      if r.head? == some 63 then
        match afterFirst sPiEnd (r.drop 1) with
        | some rest => xmlItems f rest
        | none => false
      else if isPrefixOf sBangDashes r then
        match afterFirst sCommentEnd (r.drop 3) with
        | some rest => xmlItems f rest
        | none => false
      else if isPrefixOf sBangDoctype r then
        match xmlDoctype (r.length + 1) (r.drop 8) with
        | some rest => xmlItems f rest
        | none => false
      else false
    else false

/-- `p` (after an optional byte order mark) is a complete XML prolog -/
def isXmlProlog (p : Str) : Bool := xmlItems (p.length + 1) (dropBom p)

/-- a start tag begins here: `<` and a character that can start a name for the code (`<(?![?!])[^\s/>]`) -/
def startsTag : Str → Bool
  | c :: d :: _ => c == 60 && d != 63 && d != 33 && isRootNameCh d
  | _ => false

/-- offset `k` of `x` is where the XML prolog ends and the document element's start tag begins -/
def PrologAt (x : Str) (k : Nat) : Prop := isXmlProlog (x.take k) = true ∧ startsTag (x.drop k) = true

instance (x : Str) (k : Nat) : Decidable (PrologAt x k) := by unfold PrologAt; infer_instance

/-- **ASSUMPTION about the parser (expat behind defusedxml), not proved.**  `facts x`: what the parser reports about the
    DOCTYPE of the text `x` (the two flags of `XmlMember`).  The doctypedecl is part of the prolog: two texts with the
    same complete prolog, each followed by a start tag, have the same facts. -/
structure DoctypeReader where
  facts : Str → XmlMember
  prolog_decides : ∀ x y k, PrologAt x k → PrologAt y k → x.take k = y.take k → facts x = facts y

/-! ### the model of `__fixXmlPart` keeps prolog and start tag -/

theorem startsTag_take2 : (s : Str) → startsTag (s.take 2) = startsTag s
  | [] => rfl
  | [_] => rfl
  | _ :: _ :: _ => rfl

/-- **C13 (fix_keeps_prolog_at)**: where the prolog found by the code is the XML prolog of the member, the result of
    `__fixXmlPart` has the same prolog at the same offset and a start tag behind it. -/
theorem fix_keeps_prolog_at (x : Str) (h : PrologAt x (prologLen x)) : PrologAt (fixXmlPart x) (prologLen x) := by
  obtain ⟨h1, h2⟩ := h
  refine ⟨?_, ?_⟩
  · rw [fix_prolog_untouched_le x (prologLen x) (by omega)]; exact h1
  · have e : ((fixXmlPart x).drop (prologLen x)).take 2 = (x.drop (prologLen x)).take 2 := by
      have := congrArg (List.drop (prologLen x)) (fix_prolog_untouched x)
      simpa [List.drop_take] using this
    rw [← startsTag_take2, e, startsTag_take2]; exact h2

/-- **C13 (fix_keeps_doctype_facts)**: … so the DOCTYPE facts the parser reports for the text it is given are those
    of the member. -/
theorem fix_keeps_doctype_facts (R : DoctypeReader) (x : Str) (h : PrologAt x (prologLen x)) :
    R.facts (fixXmlPart x) = R.facts x :=
  R.prolog_decides (fixXmlPart x) x (prologLen x) (fix_keeps_prolog_at x h) h
    (fix_prolog_untouched_le x (prologLen x) (by omega))

/-- **C13 (fixed_text_refused)**: a member text whose DOCTYPE declares an entity is refused by a defused parser AFTER the
    pre-processing as it is before (the failure of the original code: the patched text was no longer refused). -/
theorem fixed_text_refused (B : ParserBehaviour) (R : DoctypeReader) (api : Api) (x : Str)
    (h : PrologAt x (prologLen x)) (hd : (R.facts x).declaresEntity = true) :
    B.parse (.defused api) (R.facts (fixXmlPart x)) = .error .entitiesForbidden := by
  rw [fix_keeps_doctype_facts R x h]; exact B.defused_refuses_entities api _ hd

/-! ### `Prep` instantiated -/

/-- **`Prep` discharged**: `text m` is any member text the reader classifies as `m` and whose prolog the code finds;
    `fix m` is what the reader reports after the MODEL of `__fixXmlPart` has worked on that text. -/
def prepOfFix (R : DoctypeReader) (text : XmlMember → Str) (hfacts : ∀ m, R.facts (text m) = m)
    (hprolog : ∀ m, PrologAt (text m) (prologLen (text m))) : Prep where
  fix m := R.facts (fixXmlPart (text m))
  preserves m := by rw [fix_keeps_doctype_facts R _ (hprolog m), hfacts m]

/-- **C13 (full statement with the modelled pre-processing)**: `C13_full` with `Prep` := the model of `__fixXmlPart`;
    what is left as hypothesis is the parser (`B`, `R`). -/
theorem C13_full_fix (B : ParserBehaviour) (R : DoctypeReader) (text : XmlMember → Str)
    (hfacts : ∀ m, R.facts (text m) = m) (hprolog : ∀ m, PrologAt (text m) (prologLen (text m))) :
    C13_full B (prepOfFix R text hfacts hprolog) :=
  C13_full_partial B _

/-! ### the side condition on concrete texts; the hypotheses are satisfiable -/

/-- ``<?xml version="1.0"?><!-- <a " --><!DOCTYPE r [<?pi " ?><!-- ]> ' --><!ENTITY a "<b>x]><c>y</c></b>"><!ENTITY % p '<d>"]>'>]><?q <e?><r/>`` — every item the prolog grammar
    allows with `<name`, `"`, `'`, `>` and `]` inside: a comment in front, a processing instruction and a comment inside the
    internal subset, a general and a parameter entity literal, a processing instruction behind the DOCTYPE -/
def w6 : Str := [60, 63, 120, 109, 108, 32, 118, 101, 114, 115, 105, 111, 110, 61, 34, 49, 46, 48, 34, 63, 62, 60, 33, 45, 45, 32, 60, 97, 32, 34, 32, 45, 45, 62, 60, 33, 68, 79, 67, 84, 89, 80, 69, 32, 114, 32, 91, 60, 63, 112, 105, 32, 34, 32, 63, 62, 60, 33, 45, 45, 32, 93, 62, 32, 39, 32, 45, 45, 62, 60, 33, 69, 78, 84, 73, 84, 89, 32, 97, 32, 34, 60, 98, 62, 120, 93, 62, 60, 99, 62, 121, 60, 47, 99, 62, 60, 47, 98, 62, 34, 62, 60, 33, 69, 78, 84, 73, 84, 89, 32, 37, 32, 112, 32, 39, 60, 100, 62, 34, 93, 62, 39, 62, 93, 62, 60, 63, 113, 32, 60, 101, 63, 62, 60, 114, 47, 62]

/-- on `w6` the code's prolog is the XML prolog (133 characters), the document element is `r`, and the result keeps it -/
theorem w6_prolog : prologLen w6 = 133 ∧ PrologAt w6 (prologLen w6) ∧ PrologAt (fixXmlPart w6) 133 := by
  decide +kernel

/-- the seeded text of Props/C05.lean (`w5`) satisfies the side condition too -/
theorem w5_prolog : PrologAt w5 (prologLen w5) := by decide +kernel

/-- the excluded class is not empty: a vertical tab in front of the root is white space for Python's `\s`, not for XML -/
theorem vt_not_xml : prologLen [11, 60, 114, 47, 62] = 1 ∧ ¬ PrologAt [11, 60, 114, 47, 62] 1 := by decide +kernel

/-- consistency witness ONLY (not a model of expat): a "reader" that decides from the first character — which belongs to
    the prolog, or is the `<` of the start tag — satisfies `prolog_decides` … -/
def headReader : DoctypeReader where
  facts x := ⟨x.head? == some 32 || x.head? == some 9, x.head? == some 32 || x.head? == some 10⟩
  prolog_decides := by
    intro x y k hx hy he
    have hh : x.head? = y.head? := by
      cases k with
      | zero =>
        have h1 := hx.2; have h2 := hy.2
        simp only [List.drop_zero] at h1 h2
        have hd : ∀ z : Str, startsTag z = true → z.head? = some 60 := by
          intro z hz
          match z, hz with
          | c :: _ :: _, hz => simp [startsTag] at hz; simp [hz.1.1.1]
        rw [hd x h1, hd y h2]
      | succ n =>
        have := congrArg List.head? he
        simpa [List.head?_take] using this
    simp [hh]

/-- … and with it all hypotheses of `prepOfFix` / `C13_full_fix` hold together: four texts ` <r/>`, TAB`<r/>`, LF`<r/>`, `<r/>` -/
example : ∃ (text : XmlMember → Str), (∀ m, headReader.facts (text m) = m) ∧ (∀ m, PrologAt (text m) (prologLen (text m))) := by
  refine ⟨fun m => (match m.declaresEntity, m.externalSubset with
      | true, true => [32] | true, false => [9] | false, true => [10] | false, false => []) ++ [60, 114, 47, 62], ?_, ?_⟩
  · rintro ⟨a, b⟩; cases a <;> cases b <;> decide
  · rintro ⟨a, b⟩; cases a <;> cases b <;> decide +kernel

end OdfModel.Props.C13Prep

/-
  C18Moin — the MoinMoin converter (model `OdfModel.Moin`, odf/odf2moinmoin.py) on the block vocabulary:
  lists (nested, any depth), tables (rows, header rows, cells with running text), sections, frames / text boxes,
  foot notes and end notes, besides the paragraphs / headings / inline content of `OdfModel.MoinLemmas`.

  `MoinSupported` is the class of documents, `visibleText` their visible text in the order in which the converter
  writes it (main text in document order, then the note bodies), `moin_supported_total_complete_partial` says the
  conversion returns a string that carries the visible text completely and in order (white space dropped on both sides,
  the same shape as `complete_nonWs_partial` on the XHTML side).
-/
import OdfModel.MoinLemmas
namespace OdfModel.Props.C18Moin
open OdfModel OdfModel.Moin OdfModel.Generated.Xhtml
open OdfModel.Xhtml (Node Attrs Err M pyInt)

/-! ## visible text -/

/-- the character data that stands directly in an element list (`''.join(c.nodeValue or '' …)` of text_note) -/
def texts (l : List Node) : Str := (l.map (fun c => match c with | .text v => v | .elem .. => [])).flatten

/-- the label of a note: the character data of its first child (text:note-citation) -/
def citeText : List Node → Str
  | c :: _ => texts (kidsOf c)
  | [] => []

mutual
/-- visible text of the main flow, in document order: every text node; of a note only the citation label -/
def vmain : Node → Str
  | .text s => s
  | .elem q _ kids => if q = tNote then citeText kids else vmainL kids
def vmainL : List Node → Str
  | [] => []
  | n :: ns => vmain n ++ vmainL ns
end

/-- the main text of a note's body (second child, text:note-body) -/
def bodyMain : List Node → Str
  | _ :: b :: _ => vmainL (kidsOf b)
  | _ => []

mutual
/-- the bodies of the notes in the order in which the converter collects them (a note inside a note body first) -/
def vnotes : Node → Str
  | .text _ => []
  | .elem q _ kids => vnotesL kids ++ (if q = tNote then bodyMain kids else [])
def vnotesL : List Node → Str
  | [] => []
  | n :: ns => vnotes n ++ vnotesL ns
end

/-- **the visible text of the children of office:text**: paragraphs, headings, list items, table cells, link texts, text
    boxes, note labels — in document order —, then the note bodies as the converter emits them (at the end) -/
def visibleText (blocks : List Node) : Str := vmainL blocks ++ vnotesL blocks

theorem vmain_elem {q : Str} (a : Attrs) (kids : List Node) (h : q ≠ tNote) : vmain (.elem q a kids) = vmainL kids := by
  simp [vmain, h]

theorem vnotes_elem {q : Str} (a : Attrs) (kids : List Node) (h : q ≠ tNote) : vnotes (.elem q a kids) = vnotesL kids := by
  simp [vnotes, h]

theorem vmainL_texts (label : List Str) : vmainL (label.map Node.text) = texts (label.map Node.text) := by
  induction label with
  | nil => rfl
  | cons s r ih => simp [vmainL, vmain, texts] at ih ⊢; exact ih

theorem vnotesL_texts (label : List Str) : vnotesL (label.map Node.text) = [] := by
  induction label with
  | nil => rfl
  | cons s r ih => simp [vnotesL, vnotes, ih]

/-! ## the supported class -/

/-- white space only (indentation between block level elements) -/
def wsOnly (s : Str) : Prop := nonWs s = []
instance (s : Str) : Decidable (wsOnly s) := inferInstanceAs (Decidable (nonWs s = []))

/-- children without visible text (e.g. the columns of a table, the declarations in front of the text) -/
def noText (kids : List Node) : Prop := nonWs (vmainL kids) = [] ∧ nonWs (vnotesL kids) = []
instance (kids : List Node) : Decidable (noText kids) :=
  inferInstanceAs (Decidable (nonWs (vmainL kids) = [] ∧ nonWs (vnotesL kids) = []))

mutual
/-- running text as `textToString` meets it -/
inductive Sup : Node → Prop
  | text (s) : Sup (.text s)
  | markup (q a kids) : notBlock q → moinMethod q = some .inline_markup → SupL kids → Sup (.elem q a kids)
  | leaf (q a kids m) : notBlock q → moinMethod q = some m → leafMethod m = true → noText kids → Sup (.elem q a kids)
  | through (q a kids) : notBlock q → moinMethod q = some .textToString → SupL kids → Sup (.elem q a kids)
  | box (q a kids) : isContainer q = true → SupL kids → Sup (.elem q a kids)
  | para (q a kids) : (q = tP ∨ q = tH) → ParaOK a → SupL kids → Sup (.elem q a kids)
  | list (a kids) : ItemsL kids → Sup (.elem tList a kids)
  | table (a kids) : RowsL kids → Sup (.elem tTable a kids)
  | note (a ac ab) (label : List Str) (bk) : SupL bk →
      Sup (.elem tNote a [.elem tCitation ac (label.map Node.text), .elem tNoteBody ab bk])
inductive SupL : List Node → Prop
  | nil : SupL []
  | cons (n ns) : Sup n → SupL ns → SupL (n :: ns)
/-- the children of a text:list: items (list-item, list-header) and indentation -/
inductive ItemsL : List Node → Prop
  | nil : ItemsL []
  | ws (s rest) : wsOnly s → ItemsL rest → ItemsL (.text s :: rest)
  | item (q a kids rest) : q ≠ tNote → SubL kids → ItemsL rest → ItemsL (.elem q a kids :: rest)
/-- the children of a list item: paragraphs, headings, lists and indentation -/
inductive SubL : List Node → Prop
  | nil : SubL []
  | ws (s rest) : wsOnly s → SubL rest → SubL (.text s :: rest)
  | list (a kids rest) : ItemsL kids → SubL rest → SubL (.elem tList a kids :: rest)
  | para (q a kids rest) : (q = tP ∨ q = tH) → ParaOK a → SupL kids → SubL rest → SubL (.elem q a kids :: rest)
/-- the children of a table:table or table:table-header-rows -/
inductive RowsL : List Node → Prop
  | nil : RowsL []
  | ws (s rest) : wsOnly s → RowsL rest → RowsL (.text s :: rest)
  | header (a kids rest) : RowsL kids → RowsL rest → RowsL (.elem tHeaderRows a kids :: rest)
  | row (a kids rest) : CellsL kids → RowsL rest → RowsL (.elem tRow a kids :: rest)
  | other (q a kids rest) : q ≠ tHeaderRows → q ≠ tRow → q ≠ tNote → noText kids → RowsL rest → RowsL (.elem q a kids :: rest)
/-- the children of a table:table-row -/
inductive CellsL : List Node → Prop
  | nil : CellsL []
  | ws (s rest) : wsOnly s → CellsL rest → CellsL (.text s :: rest)
  | cell (q a kids rest) : q ≠ tNote → SupL kids → CellsL rest → CellsL (.elem q a kids :: rest)
end

/-- the children of office:text -/
inductive TopL : List Node → Prop
  | nil : TopL []
  | ws (s rest) : wsOnly s → TopL rest → TopL (.text s :: rest)
  | list (a kids rest) : ItemsL kids → TopL rest → TopL (.elem tList a kids :: rest)
  | box (q a kids rest) : isContainer q = true → SupL kids → TopL rest → TopL (.elem q a kids :: rest)
  | table (a kids rest) : RowsL kids → TopL rest → TopL (.elem tTable a kids :: rest)
  | para (q a kids rest) : (q = tPage ∨ q = tP ∨ q = tH) → ParaOK a → SupL kids → TopL rest → TopL (.elem q a kids :: rest)
  | other (q a kids rest) : q ≠ tList → isContainer q = false → q ≠ tTable → q ≠ tPage → q ≠ tP → q ≠ tH → q ≠ tNote →
      noText kids → TopL rest → TopL (.elem q a kids :: rest)

/-! ## what one conversion step guarantees -/

/-- the lines that `toString` appends for the collected notes, joined -/
def footStr (F : List (Str × Str)) : Str := (F.map (fun cb => cb.1 ++ [58, 32] ++ cb.2)).flatten

theorem footStr_append (F G : List (Str × Str)) : footStr (F ++ G) = footStr F ++ footStr G := by simp [footStr]

/-- a step started in state `st` succeeds, only appends notes `F` to the collected ones, its string carries `main` and
    the new note lines carry `notes` (white space dropped) -/
def Good (st : MSt) (r : M (Str × MSt)) (main notes : Str) : Prop :=
  ∃ t st' F, r = .ok (t, st') ∧ st'.foot = st.foot ++ F ∧ (nonWs main).Sublist (nonWs t) ∧
    (nonWs notes).Sublist (nonWs (footStr F))

theorem sub2 {m1 m2 t u : Str} (pre mid post : Str) (h1 : (nonWs m1).Sublist (nonWs t)) (h2 : (nonWs m2).Sublist (nonWs u)) :
    (nonWs (m1 ++ m2)).Sublist (nonWs (pre ++ t ++ mid ++ u ++ post)) := by
  have := ((((List.nil_sublist (nonWs pre)).append h1).append (List.nil_sublist (nonWs mid))).append h2).append
    (List.nil_sublist (nonWs post))
  simpa [nonWs_append] using this

theorem sub1 {m t : Str} (pre post : Str) (h : (nonWs m).Sublist (nonWs t)) : (nonWs m).Sublist (nonWs (pre ++ t ++ post)) := by
  have := ((List.nil_sublist (nonWs pre)).append h).append (List.nil_sublist (nonWs post))
  simpa [nonWs_append] using this

theorem sub_notes {n1 n2 : Str} {F1 F2 : List (Str × Str)} (h1 : (nonWs n1).Sublist (nonWs (footStr F1)))
    (h2 : (nonWs n2).Sublist (nonWs (footStr F2))) : (nonWs (n1 ++ n2)).Sublist (nonWs (footStr (F1 ++ F2))) := by
  rw [footStr_append, nonWs_append, nonWs_append]; exact h1.append h2

theorem nonWs_of_ws {s : Str} (h : wsOnly s) (x : Str) : nonWs (s ++ x) = nonWs x := by
  rw [nonWs_append, h]; rfl

theorem ne_note_of_method {q : Str} {m : MName} (h : moinMethod q = some m) (hm : m ≠ .text_note) : q ≠ tNote := by
  rintro rfl
  have h2 : moinMethod tNote = some .text_note := by decide
  rw [h2] at h
  exact hm (Option.some.inj h).symm

/-! ## `nodeStr` case by case -/

theorem nodeStr_through (sty : Styles) (st : MSt) (q : Str) (a : Attrs) (kids : List Node) (h : notBlock q)
    (hm : moinMethod q = some .textToString) : nodeStr sty st (.elem q a kids) = kidsStr sty st kids := by
  obtain ⟨h1, h3, h4, h5, h6, h7⟩ := h
  rw [nodeStr.eq_def]
  simp [h1, h3, h4, h5, h6, h7, hm]

theorem nodeStr_box (sty : Styles) (st : MSt) (q : Str) (a : Attrs) (kids : List Node)
    (h : isContainer q = true) : nodeStr sty st (.elem q a kids) = kidsStr sty st kids := by
  rw [nodeStr.eq_def]; simp [h]

theorem ne_note_of_container {q : Str} (h : isContainer q = true) : q ≠ tNote := by
  rintro rfl; rw [isContainer_note] at h; cases h

theorem ne_list_of_container {q : Str} (h : isContainer q = true) : q ≠ tList := by
  rintro rfl; rw [isContainer_list] at h; cases h

theorem nodeStr_para (sty : Styles) (st : MSt) (q : Str) (a : Attrs) (kids : List Node) (h : q = tP ∨ q = tH) :
    nodeStr sty st (.elem q a kids) =
      match kidsStr sty st kids with
      | .error e => .error e
      | .ok (t, st1) => paraPost sty q a (inlineMarkup sty a t) st1 := by
  have h1 : isContainer q = false := by rcases h with rfl | rfl <;> first | exact isContainer_p | exact isContainer_h
  rw [nodeStr.eq_def]; simp [h1, h]
  cases kidsStr sty st kids with
  | error e => rfl
  | ok v => rfl

theorem nodeStr_list (sty : Styles) (st : MSt) (a : Attrs) (kids : List Node) :
    nodeStr sty st (.elem tList a kids) =
      itemsStr sty ((sty.list.lookup (getAttr a kStyleName)).getD false) 0 { st with last := some tList } kids := by
  have h1 := isContainer_list
  have h3 : tList ≠ tP := by decide
  have h4 : tList ≠ tH := by decide
  rw [nodeStr.eq_def]; simp [h1, h3, h4]

theorem nodeStr_table (sty : Styles) (st : MSt) (a : Attrs) (kids : List Node) :
    nodeStr sty st (.elem tTable a kids) = rowsStr sty { st with last := some tTable } kids := by
  have h1 := isContainer_table
  have h3 : tTable ≠ tP := by decide
  have h4 : tTable ≠ tH := by decide
  have h5 : tTable ≠ tList := by decide
  rw [nodeStr.eq_def]; simp [h1, h3, h4, h5]

theorem nodeStr_note (sty : Styles) (st : MSt) (a ac ab : Attrs) (ck bk : List Node) :
    nodeStr sty st (.elem tNote a [.elem tCitation ac ck, .elem tNoteBody ab bk]) =
      match kidsStr sty st bk with
      | .error e => .error e
      | .ok (t, st1) => .ok ([94] ++ texts ck ++ [94], { st1 with foot := st1.foot ++ [(texts ck, t)] }) := by
  have h1 := isContainer_note
  have h3 : tNote ≠ tP := by decide
  have h4 : tNote ≠ tH := by decide
  have h5 : tNote ≠ tList := by decide
  have h6 : tNote ≠ tTable := by decide
  have h7 : tNote ≠ tSection := by decide
  have hm : moinMethod tNote = some .text_note := by decide
  rw [nodeStr.eq_def]; simp [h1, h3, h4, h5, h6, h7, hm, texts]
  cases kidsStr sty st bk with
  | error e => rfl
  | ok v => rfl

/-! ## the mutual recursion of the converter -/

theorem good_nil (st : MSt) : Good st (.ok ([], st)) [] [] :=
  ⟨[], st, [], rfl, by simp, List.Sublist.refl _, List.Sublist.refl _⟩

/-- paragraphToString after a good textToString -/
theorem good_para (sty : Styles) (st : MSt) (q : Str) (a : Attrs) {r : M (Str × MSt)} {m n : Str} (hp : ParaOK a)
    (h : Good st r m n) :
    Good st (match (generalizing := false) r with
      | .error e => .error e
      | .ok (t, st1) => paraPost sty q a (inlineMarkup sty a t) st1) m n := by
  obtain ⟨t, st1, F, rfl, hf, hm, hn⟩ := h
  obtain ⟨r2, st2, h2, hf2, hs2⟩ := paraPost_ok sty q a (inlineMarkup sty a t) st1 hp
  exact ⟨r2, st2, F, h2, by rw [hf2, hf], (hm.trans (nonWs_inlineMarkup sty a t)).trans hs2, hn⟩

mutual
theorem nodeStr_sup (sty : Styles) (st : MSt) (n : Node) (h : Sup n) :
    Good st (nodeStr sty st n) (vmain n) (vnotes n) := by
  cases h with
  | text s => exact ⟨s, st, [], by simp [nodeStr], by simp, by simp [vmain], by simp [vnotes, nonWs]⟩
  | markup q a kids hb hm hk =>
    have hne : q ≠ tNote := ne_note_of_method hm (by decide)
    obtain ⟨t, st1, F, ht, hf, hs, hn⟩ := kidsStr_sup sty st kids hk
    refine ⟨inlineMarkup sty a t, st1, F, ?_, hf, ?_, ?_⟩
    · rw [nodeStr_markup sty st q a kids hb hm, ht]
    · rw [vmain_elem a kids hne]; exact hs.trans (nonWs_inlineMarkup sty a t)
    · rw [vnotes_elem a kids hne]; exact hn
  | leaf q a kids m hb hm hl hnt =>
    have hne : q ≠ tNote := ne_note_of_method hm (by intro h; subst h; simp [leafMethod] at hl)
    obtain ⟨t, ht⟩ := nodeStr_leaf sty st q a kids m hb hm hl
    refine ⟨t, st, [], ht, by simp, ?_, ?_⟩
    · rw [vmain_elem a kids hne, hnt.1]; exact List.nil_sublist _
    · rw [vnotes_elem a kids hne, hnt.2]; exact List.nil_sublist _
  | through q a kids hb hm hk =>
    have hne : q ≠ tNote := ne_note_of_method hm (by decide)
    rw [nodeStr_through sty st q a kids hb hm, vmain_elem a kids hne, vnotes_elem a kids hne]
    exact kidsStr_sup sty st kids hk
  | box q a kids hq hk =>
    have hne : q ≠ tNote := ne_note_of_container hq
    rw [nodeStr_box sty st q a kids hq, vmain_elem a kids hne, vnotes_elem a kids hne]
    exact kidsStr_sup sty st kids hk
  | para q a kids hq hp hk =>
    have hne : q ≠ tNote := by rcases hq with rfl | rfl <;> decide
    rw [nodeStr_para sty st q a kids hq, vmain_elem a kids hne, vnotes_elem a kids hne]
    exact good_para sty st q a hp (kidsStr_sup sty st kids hk)
  | list a kids hk =>
    have hne : tList ≠ tNote := by decide
    rw [nodeStr_list, vmain_elem a kids hne, vnotes_elem a kids hne]
    exact itemsStr_sup sty _ 0 { st with last := some tList } kids hk
  | table a kids hk =>
    have hne : tTable ≠ tNote := by decide
    rw [nodeStr_table, vmain_elem a kids hne, vnotes_elem a kids hne]
    exact rowsStr_sup sty { st with last := some tTable } kids hk
  | note a ac ab label bk hk =>
    obtain ⟨t, st1, F, ht, hf, hs, hn⟩ := kidsStr_sup sty st bk hk
    refine ⟨[94] ++ texts (label.map Node.text) ++ [94],
      { st1 with foot := st1.foot ++ [(texts (label.map Node.text), t)] }, F ++ [(texts (label.map Node.text), t)], ?_, ?_, ?_, ?_⟩
    · rw [nodeStr_note, ht]
    · simp [hf]
    · simp only [vmain, if_true, citeText, kidsOf]; exact sub1 [94] [94] (List.Sublist.refl _)
    · have e : vnotes (.elem tNote a [.elem tCitation ac (label.map Node.text), .elem tNoteBody ab bk]) =
          vnotesL bk ++ vmainL bk := by
        have h1 : tCitation ≠ tNote := by decide
        have h2 : tNoteBody ≠ tNote := by decide
        simp [vnotes, vnotesL, h1, h2, vnotesL_texts, bodyMain, kidsOf]
      rw [e]
      have h3 : (nonWs (vmainL bk)).Sublist (nonWs (footStr [(texts (label.map Node.text), t)])) := by
        have := sub1 (texts (label.map Node.text) ++ [58, 32]) [] hs
        simpa [footStr] using this
      exact sub_notes hn h3
termination_by sizeOf n
theorem kidsStr_sup (sty : Styles) (st : MSt) (l : List Node) (h : SupL l) :
    Good st (kidsStr sty st l) (vmainL l) (vnotesL l) := by
  cases h with
  | nil => simpa [kidsStr, vmainL, vnotesL] using good_nil st
  | cons n ns hn hns =>
    obtain ⟨t, st1, F1, h1, hf1, hm1, hn1⟩ := nodeStr_sup sty st n hn
    obtain ⟨u, st2, F2, h2, hf2, hm2, hn2⟩ := kidsStr_sup sty st1 ns hns
    refine ⟨t ++ u, st2, F1 ++ F2, by simp [kidsStr, h1, h2], by rw [hf2, hf1, List.append_assoc], ?_, ?_⟩
    · simp only [vmainL, nonWs_append]; exact hm1.append hm2
    · simp only [vnotesL]; exact sub_notes hn1 hn2
termination_by sizeOf l
theorem itemsStr_sup (sty : Styles) (o : Bool) (i : Nat) (st : MSt) (l : List Node) (h : ItemsL l) :
    Good st (itemsStr sty o i st l) (vmainL l) (vnotesL l) := by
  cases h with
  | nil => simpa [itemsStr, vmainL, vnotesL] using good_nil st
  | ws s rest hs hr =>
    obtain ⟨u, st2, F2, h2, hf2, hm2, hn2⟩ := itemsStr_sup sty o i st rest hr
    refine ⟨u, st2, F2, by rw [itemsStr]; exact h2, hf2, ?_, ?_⟩
    · simp only [vmainL, vmain]; rw [nonWs_of_ws hs]; exact hm2
    · simpa [vnotesL, vnotes] using hn2
  | item q a kids rest hne hk hr =>
    obtain ⟨t, st1, F1, h1, hf1, hm1, hn1⟩ := subitemsStr_sup sty i st kids hk
    obtain ⟨u, st2, F2, h2, hf2, hm2, hn2⟩ := itemsStr_sup sty o i { st1 with last := some q } rest hr
    refine ⟨List.replicate i 32 ++ (if o then sOrdered else sBullet) ++ t ++ [10] ++ u, st2, F1 ++ F2,
      by simp [itemsStr, h1, h2], ?_, ?_, ?_⟩
    · rw [hf2]; show st1.foot ++ F2 = _; rw [hf1, List.append_assoc]
    · simp only [vmainL]; rw [vmain_elem a kids hne]
      have := sub2 (List.replicate i 32 ++ (if o then sOrdered else sBullet)) [10] [] hm1 hm2
      simpa [List.append_assoc] using this
    · simp only [vnotesL]; rw [vnotes_elem a kids hne]; exact sub_notes hn1 hn2
termination_by sizeOf l
theorem subitemsStr_sup (sty : Styles) (i : Nat) (st : MSt) (l : List Node) (h : SubL l) :
    Good st (subitemsStr sty i st l) (vmainL l) (vnotesL l) := by
  cases h with
  | nil => simpa [subitemsStr, vmainL, vnotesL] using good_nil st
  | ws s rest hs hr =>
    obtain ⟨u, st2, F2, h2, hf2, hm2, hn2⟩ := subitemsStr_sup sty i st rest hr
    refine ⟨u, st2, F2, by rw [subitemsStr]; exact h2, hf2, ?_, ?_⟩
    · simp only [vmainL, vmain]; rw [nonWs_of_ws hs]; exact hm2
    · simpa [vnotesL, vnotes] using hn2
  | list a kids rest hk hr =>
    have hne : tList ≠ tNote := by decide
    obtain ⟨t, st1, F1, h1, hf1, hm1, hn1⟩ :=
      itemsStr_sup sty ((sty.list.lookup (getAttr a kStyleName)).getD false) (i + 3) { st with last := some tList } kids hk
    obtain ⟨u, st2, F2, h2, hf2, hm2, hn2⟩ := subitemsStr_sup sty i { st1 with last := some tList } rest hr
    refine ⟨[10] ++ t ++ u, st2, F1 ++ F2, by simp [subitemsStr, h1, h2], ?_, ?_, ?_⟩
    · rw [hf2]; show st1.foot ++ F2 = _; rw [hf1]; show (st.foot ++ F1) ++ F2 = _; rw [List.append_assoc]
    · simp only [vmainL]; rw [vmain_elem a kids hne]
      have := sub2 [10] [] [] hm1 hm2
      simpa [List.append_assoc] using this
    · simp only [vnotesL]; rw [vnotes_elem a kids hne]; exact sub_notes hn1 hn2
  | para q a kids rest hq hp hk hr =>
    have hne : q ≠ tNote := by rcases hq with rfl | rfl <;> decide
    have hnl : q ≠ tList := by rcases hq with rfl | rfl <;> decide
    obtain ⟨t, st1, F1, h1, hf1, hm1, hn1⟩ := kidsStr_sup sty st kids hk
    obtain ⟨t2, st2, hp2, hf2, hs2⟩ := paraPost_ok sty q a (inlineMarkup sty a t) st1 hp
    obtain ⟨u, st3, F3, h3, hf3, hm3, hn3⟩ := subitemsStr_sup sty i { st2 with last := some q } rest hr
    refine ⟨t2 ++ u, st3, F1 ++ F3, by simp [subitemsStr, hnl, hq, h1, hp2, h3], ?_, ?_, ?_⟩
    · rw [hf3]; show st2.foot ++ F3 = _; rw [hf2, hf1, List.append_assoc]
    · simp only [vmainL, nonWs_append]; rw [vmain_elem a kids hne]
      exact ((hm1.trans (nonWs_inlineMarkup sty a t)).trans hs2).append hm3
    · simp only [vnotesL]; rw [vnotes_elem a kids hne]; exact sub_notes hn1 hn3
termination_by sizeOf l
theorem cellsStr_sup (sty : Styles) (st : MSt) (l : List Node) (h : CellsL l) :
    Good st (cellsStr sty st l) (vmainL l) (vnotesL l) := by
  cases h with
  | nil => simpa [cellsStr, vmainL, vnotesL] using good_nil st
  | ws s rest hs hr =>
    obtain ⟨u, st2, F2, h2, hf2, hm2, hn2⟩ := cellsStr_sup sty st rest hr
    refine ⟨u, st2, F2, by rw [cellsStr]; exact h2, hf2, ?_, ?_⟩
    · simp only [vmainL, vmain]; rw [nonWs_of_ws hs]; exact hm2
    · simpa [vnotesL, vnotes] using hn2
  | cell q a kids rest hne hk hr =>
    obtain ⟨t, st1, F1, h1, hf1, hm1, hn1⟩ := kidsStr_sup sty st kids hk
    obtain ⟨u, st2, F2, h2, hf2, hm2, hn2⟩ := cellsStr_sup sty { st1 with last := some q } rest hr
    refine ⟨inlineMarkup sty a t ++ sCellEnd ++ u, st2, F1 ++ F2, by simp [cellsStr, h1, h2], ?_, ?_, ?_⟩
    · rw [hf2]; show st1.foot ++ F2 = _; rw [hf1, List.append_assoc]
    · simp only [vmainL]; rw [vmain_elem a kids hne]
      have := sub2 [] sCellEnd [] (hm1.trans (nonWs_inlineMarkup sty a t)) hm2
      simpa [List.append_assoc] using this
    · simp only [vnotesL]; rw [vnotes_elem a kids hne]; exact sub_notes hn1 hn2
termination_by sizeOf l
theorem rowsStr_sup (sty : Styles) (st : MSt) (l : List Node) (h : RowsL l) :
    Good st (rowsStr sty st l) (vmainL l) (vnotesL l) := by
  cases h with
  | nil => simpa [rowsStr, vmainL, vnotesL] using good_nil st
  | ws s rest hs hr =>
    obtain ⟨u, st2, F2, h2, hf2, hm2, hn2⟩ := rowsStr_sup sty st rest hr
    refine ⟨u, st2, F2, by simp [rowsStr, rowStr, h2], hf2, ?_, ?_⟩
    · simp only [vmainL, vmain]; rw [nonWs_of_ws hs]; exact hm2
    · simpa [vnotesL, vnotes] using hn2
  | header a kids rest hk hr =>
    have hne : tHeaderRows ≠ tNote := by decide
    obtain ⟨t, st1, F1, h1, hf1, hm1, hn1⟩ := rowsStr_sup sty { st with last := some tHeaderRows } kids hk
    obtain ⟨u, st2, F2, h2, hf2, hm2, hn2⟩ := rowsStr_sup sty st1 rest hr
    refine ⟨t ++ u, st2, F1 ++ F2, by simp [rowsStr, rowStr, h1, h2], ?_, ?_, ?_⟩
    · rw [hf2, hf1]; show (st.foot ++ F1) ++ F2 = _; rw [List.append_assoc]
    · simp only [vmainL, nonWs_append]; rw [vmain_elem a kids hne]; exact hm1.append hm2
    · simp only [vnotesL]; rw [vnotes_elem a kids hne]; exact sub_notes hn1 hn2
  | row a kids rest hk hr =>
    have hne : tRow ≠ tNote := by decide
    have hnh : tRow ≠ tHeaderRows := by decide
    obtain ⟨t, st1, F1, h1, hf1, hm1, hn1⟩ := cellsStr_sup sty { st with last := some tRow } kids hk
    obtain ⟨u, st2, F2, h2, hf2, hm2, hn2⟩ := rowsStr_sup sty st1 rest hr
    refine ⟨sRowStart ++ t ++ u, st2, F1 ++ F2, by simp [rowsStr, rowStr, hnh, h1, h2], ?_, ?_, ?_⟩
    · rw [hf2, hf1]; show (st.foot ++ F1) ++ F2 = _; rw [List.append_assoc]
    · simp only [vmainL]; rw [vmain_elem a kids hne]
      have := sub2 sRowStart [] [] hm1 hm2
      simpa [List.append_assoc] using this
    · simp only [vnotesL]; rw [vnotes_elem a kids hne]; exact sub_notes hn1 hn2
  | other q a kids rest hq1 hq2 hne hnt hr =>
    obtain ⟨u, st2, F2, h2, hf2, hm2, hn2⟩ := rowsStr_sup sty { st with last := some q } rest hr
    refine ⟨u, st2, F2, by simp [rowsStr, rowStr, hq1, hq2, h2], hf2, ?_, ?_⟩
    · simp only [vmainL, nonWs_append]; rw [vmain_elem a kids hne, hnt.1]; simpa using hm2
    · simp only [vnotesL, nonWs_append]; rw [vnotes_elem a kids hne, hnt.2]; simpa using hn2
termination_by sizeOf l
end

/-! ## the loop of `toString` and the whole document -/

/-- like `Good`, for the buffer of `toString` -/
def TopGood (st : MSt) (r : M (List Str × MSt)) (main notes : Str) : Prop :=
  ∃ ts st' F, r = .ok (ts, st') ∧ st'.foot = st.foot ++ F ∧ (nonWs main).Sublist (nonWs ts.flatten) ∧
    (nonWs notes).Sublist (nonWs (footStr F))

theorem flatten_push (t : Str) (ts : List Str) : (if t.isEmpty then ts else t :: ts).flatten = t ++ ts.flatten := by
  split
  · rename_i h
    have : t = [] := by simpa using h
    simp [this]
  · simp

/-- one child of office:text that the loop converts (`r1` is the call it makes) -/
theorem top_cons (sty : Styles) (st : MSt) (q : Str) (a : Attrs) (kids rest : List Node) (r1 : M (Str × MSt))
    (m1 n1 m2 n2 : Str)
    (hr : (if q = tList then some (itemsStr sty ((sty.list.lookup (getAttr a kStyleName)).getD false) 0 { st with last := some q } kids)
      else if isContainer q then some (kidsStr sty st kids)
      else if q = tTable then some (rowsStr sty { st with last := some q } kids)
      else if q = tPage || q = tP || q = tH then
        some (match kidsStr sty st kids with
          | .error e => .error e
          | .ok (t, st1) => paraPost sty q a (inlineMarkup sty a t) st1)
      else none) = some r1)
    (h1 : Good st r1 m1 n1) (h2 : ∀ s, TopGood s (topStr sty s rest) m2 n2) :
    TopGood st (topStr sty st (.elem q a kids :: rest)) (m1 ++ m2) (n1 ++ n2) := by
  obtain ⟨t, st1, F1, e1, hf1, hm1, hn1⟩ := h1
  obtain ⟨ts, st2, F2, e2, hf2, hm2, hn2⟩ := h2 st1
  subst e1
  refine ⟨if t.isEmpty then ts else t :: ts, st2, F1 ++ F2, ?_, by rw [hf2, hf1, List.append_assoc], ?_, sub_notes hn1 hn2⟩
  · rw [topStr]
    split
    next heq => exact absurd (hr.symm.trans heq) (by simp)
    next e heq => exact absurd (hr.symm.trans heq) (by simp)
    next t' st1' heq =>
      have h := hr.symm.trans heq
      simp only [Option.some.injEq, Except.ok.injEq, Prod.mk.injEq] at h
      obtain ⟨rfl, rfl⟩ := h
      simp only [e2]
  · rw [flatten_push, nonWs_append, nonWs_append]; exact hm1.append hm2

theorem top_skip (sty : Styles) (st : MSt) (q : Str) (a : Attrs) (kids rest : List Node)
    (h1 : q ≠ tList) (h2 : isContainer q = false) (h3 : q ≠ tTable) (h4 : q ≠ tPage) (h5 : q ≠ tP) (h6 : q ≠ tH) :
    topStr sty st (.elem q a kids :: rest) = topStr sty st rest := by
  rw [topStr]; simp [h1, h2, h3, h4, h5, h6]

theorem topStr_sup (sty : Styles) (l : List Node) (h : TopL l) :
    ∀ st, TopGood st (topStr sty st l) (vmainL l) (vnotesL l) := by
  induction h with
  | nil => exact fun st => ⟨[], st, [], rfl, by simp, List.Sublist.refl _, List.Sublist.refl _⟩
  | ws s rest hs _ ih =>
    intro st
    obtain ⟨ts, st2, F2, e2, hf2, hm2, hn2⟩ := ih st
    refine ⟨ts, st2, F2, by rw [topStr]; exact e2, hf2, ?_, ?_⟩
    · simp only [vmainL, vmain]; rw [nonWs_of_ws hs]; exact hm2
    · simpa [vnotesL, vnotes] using hn2
  | list a kids rest hk _ ih =>
    intro st
    have hne : tList ≠ tNote := by decide
    simp only [vmainL, vnotesL]; rw [vmain_elem a kids hne, vnotes_elem a kids hne]
    exact top_cons sty st tList a kids rest _ _ _ _ _ (by simp)
      (itemsStr_sup sty ((sty.list.lookup (getAttr a kStyleName)).getD false) 0 { st with last := some tList } kids hk) ih
  | box q a kids rest hq hk _ ih =>
    intro st
    have hne : q ≠ tNote := ne_note_of_container hq
    have h1 : q ≠ tList := ne_list_of_container hq
    simp only [vmainL, vnotesL]; rw [vmain_elem a kids hne, vnotes_elem a kids hne]
    exact top_cons sty st q a kids rest _ _ _ _ _ (by simp [h1, hq]) (kidsStr_sup sty st kids hk) ih
  | table a kids rest hk _ ih =>
    intro st
    have hne : tTable ≠ tNote := by decide
    have h1 : tTable ≠ tList := by decide
    have h2 := isContainer_table
    simp only [vmainL, vnotesL]; rw [vmain_elem a kids hne, vnotes_elem a kids hne]
    exact top_cons sty st tTable a kids rest _ _ _ _ _ (by simp [h1, h2])
      (rowsStr_sup sty { st with last := some tTable } kids hk) ih
  | para q a kids rest hq hp hk _ ih =>
    intro st
    have hne : q ≠ tNote := by rcases hq with rfl | rfl | rfl <;> decide
    have h1 : q ≠ tList := by rcases hq with rfl | rfl | rfl <;> decide
    have h2 : isContainer q = false := by
      rcases hq with rfl | rfl | rfl <;> first | exact isContainer_page | exact isContainer_p | exact isContainer_h
    have h3 : q ≠ tTable := by rcases hq with rfl | rfl | rfl <;> decide
    have h4 : (q = tPage ∨ q = tP) ∨ q = tH := by rcases hq with h | h | h <;> simp [h]
    simp only [vmainL, vnotesL]; rw [vmain_elem a kids hne, vnotes_elem a kids hne]
    exact top_cons sty st q a kids rest _ _ _ _ _ (by simp [h1, h2, h3, h4])
      (good_para sty st q a hp (kidsStr_sup sty st kids hk)) ih
  | other q a kids rest h1 h2 h3 h4 h5 h6 hne hnt _ ih =>
    intro st
    obtain ⟨ts, st2, F2, e2, hf2, hm2, hn2⟩ := ih st
    refine ⟨ts, st2, F2, by rw [top_skip sty st q a kids rest h1 h2 h3 h4 h5 h6]; exact e2, hf2, ?_, ?_⟩
    · simp only [vmainL, nonWs_append]; rw [vmain_elem a kids hne, hnt.1]; simpa using hm2
    · simp only [vnotesL, nonWs_append]; rw [vnotes_elem a kids hne, hnt.2]; simpa using hn2

/-- **the quantifier of C18 for the MoinMoin converter as far as it is proved**: the two parsed package members
    (styles.xml, content.xml as minidom shows them) of a text document such that
    * the styles are readable by the model (`loadStyles` succeeds: margins written `digits[.digits]unit`,
      style:text-position empty / sub… / super…),
    * there is an office:body whose first element child is the text element, with children `blocks`,
    * `blocks` is in `TopL`: indentation, paragraphs, headings and draw:page (`ParaOK`: outline level absent or decimal),
      lists (`ItemsL` / `SubL`: items with paragraphs, headings and nested lists of any depth), tables (`RowsL` / `CellsL`:
      rows, header rows, any other child without text; cells with running text), the containers (`isContainer`, the
      generated `CONTAINER_TAGS`: sections, frames, text boxes, drawing shapes, numbered paragraphs, the indexes with
      index title and index body - af61005), and other children without text;
      running text (`Sup`) is character data, the `inline_markup` elements (spans, links, bookmark references …), text:s /
      tab / line-break / images / ignored and template elements (…-source) without text, the containers, paragraphs, headings, lists,
      tables, and notes of the shape [text:note-citation [character data], text:note-body [running text]] — also inside
      note bodies.
    EXCLUDED, because the converter (and the model) drops their text — each tested on the real converter:
    * character data directly inside text:list, text:list-item, table:table, table:table-row, office:text that is not
      white space (not valid ODF),
    * children of a list item other than text:p / text:h / text:list (e.g. text:number),
    * children of a table other than rows and header rows that contain text: table:table-rows, table:table-row-group
      (known, findings/C18.md "Round 5"),
    * children of office:text other than p / h / list / table / draw:page / the containers that contain text,
    * elements without method in `ODF2MoinMoin.elements` (written ` {tag} `), elements inside a note citation. -/
inductive MoinSupported (stylesDoc contentDoc : Node) : List Node → Prop
  | mk (sty : Styles) (body : Node) (bs : List Node) (textEl : Node) (more : List Node) :
      loadStyles stylesDoc contentDoc = .ok sty → byTag contentDoc tBody = body :: bs →
      elems (kidsOf body) = textEl :: more → TopL (kidsOf textEl) → MoinSupported stylesDoc contentDoc (kidsOf textEl)

/-- the full statement of the MoinMoin half of C18: for EVERY loadable text document (not only `MoinSupported` ones) the
    conversion returns a string that carries the visible text in order.  Not proved — false as it stands for the excluded
    shapes listed at `MoinSupported` (the converter drops their text). -/
def MoinTotalCompleteFull : Prop :=
  ∀ (stylesDoc contentDoc body : Node) (bs : List Node) (textEl : Node) (more : List Node),
    byTag contentDoc tBody = body :: bs → elems (kidsOf body) = textEl :: more →
    ∃ out, Moin.toString stylesDoc contentDoc = .ok out ∧
      (nonWs (visibleText (kidsOf textEl))).Sublist (nonWs out)

/-- **C18 (MoinMoin: total and complete, lists / tables / sections / text boxes / notes) — partial**: for every
    `MoinSupported` document `Moin.toString` returns a string (no `Err`), and the non-white-space characters of the
    visible text — paragraphs, headings, list items at any depth, table cells, header rows, link texts, text boxes,
    sections, note labels in document order, then the note bodies in the order in which the converter emits them — are a
    subsequence of the non-white-space characters of the output.  Missing for the full statement
    (`MoinTotalCompleteFull`): the shapes excluded by `MoinSupported` (see there), and white space itself (`str.strip()`
    and the cell / paragraph separators change it). -/
theorem moin_supported_total_complete_partial (stylesDoc contentDoc : Node) (blocks : List Node)
    (h : MoinSupported stylesDoc contentDoc blocks) :
    ∃ out, Moin.toString stylesDoc contentDoc = .ok out ∧ (nonWs (visibleText blocks)).Sublist (nonWs out) := by
  cases h with
  | mk sty body bs textEl more h1 h2 h3 h4 =>
    obtain ⟨ts, st', F, ht, hf, hm, hn⟩ := topStr_sup sty (kidsOf textEl) h4 {}
    have hfoot : st'.foot = F := by rw [hf]; rfl
    refine ⟨List.intercalate [10]
      ((if F.isEmpty then ts else ts ++ [sRule] ++ F.map (fun cb => cb.1 ++ [58, 32] ++ cb.2)) ++ [[]]), ?_, ?_⟩
    · unfold Moin.toString
      simp [h1, h2, h3, ht, hfoot, bind, Except.bind, pure, Except.pure]
    · refine List.Sublist.trans ?_ (sublist_nonWs (flatten_sublist_intercalate [10] _))
      unfold visibleText
      by_cases hF : F.isEmpty = true
      · have hF' : F = [] := by simpa using hF
        subst hF'
        have hn' : nonWs (vnotesL (kidsOf textEl)) = [] := by simpa [footStr, nonWs] using hn
        simp only [hF, if_true, nonWs_append, hn', List.append_nil]
        simpa using hm
      · simp only [hF]
        have := sub2 [] sRule [] hm hn
        simpa [footStr, List.append_assoc] using this

/-- **C18 (MoinMoin: total) — partial**: a `MoinSupported` document is converted without error -/
theorem moin_supported_total_partial (stylesDoc contentDoc : Node) (blocks : List Node)
    (h : MoinSupported stylesDoc contentDoc blocks) : ∀ e, Moin.toString stylesDoc contentDoc ≠ .error e := by
  obtain ⟨out, ho, _⟩ := moin_supported_total_complete_partial stylesDoc contentDoc blocks h
  intro e he; rw [ho] at he; cases he

/-! ## the hypotheses are satisfiable -/

def tText : Str := [111, 102, 102, 105, 99, 101, 58, 116, 101, 120, 116]  -- office:text
def tSpan : Str := [116, 101, 120, 116, 58, 115, 112, 97, 110]  -- text:span
def tListItem : Str := [116, 101, 120, 116, 58, 108, 105, 115, 116, 45, 105, 116, 101, 109]  -- text:list-item
def tCell : Str := [116, 97, 98, 108, 101, 58, 116, 97, 98, 108, 101, 45, 99, 101, 108, 108]  -- table:table-cell
def tColumn : Str := [116, 97, 98, 108, 101, 58, 116, 97, 98, 108, 101, 45, 99, 111, 108, 117, 109, 110]  -- table:table-column

/-- styles.xml without any style, and content.xml with the given children of office:text, as minidom shows them -/
def exStyles : Node := .elem [] [] []
def exContent (blocks : List Node) : Node := .elem [] [] [.elem tBody [] [.elem tText [] blocks]]

/-- `<h outline-level="1">T</h>  <p>a<span>b</span><note><citation>1</citation><body><p>n</p></body></note></p>
    <list><item><p>i</p><list><item><p>j</p></item></list></item></list>
    <table><column/><header-rows><row><cell><p>h</p></cell></row></header-rows><row><cell><p>c</p></cell></row></table>
    <section><p>s<frame><text-box><p>x</p></text-box></frame></p></section>`, indented -/
def exBlocks : List Node :=
  [.elem tH [(kOutline, [49])] [.text [84]], .text [10, 32],
   .elem tP [] [.text [97], .elem tSpan [] [.text [98]],
     .elem tNote [] [.elem tCitation [] ([[49]].map Node.text), .elem tNoteBody [] [.elem tP [] [.text [110]]]]],
   .elem tList [] [.text [10], .elem tListItem [] [.elem tP [] [.text [105]],
     .elem tList [] [.elem tListItem [] [.elem tP [] [.text [106]]]]]],
   .elem tTable [] [.elem tColumn [] [], .elem tHeaderRows [] [.elem tRow [] [.elem tCell [] [.elem tP [] [.text [104]]]]],
     .elem tRow [] [.elem tCell [] [.elem tP [] [.text [99]]]]],
   .elem tSection [] [.elem tP [] [.text [115], .elem tFrame [] [.elem tTextBox [] [.elem tP [] [.text [120]]]]]]]

example : MoinSupported exStyles (exContent exBlocks) exBlocks := by
  have para : ∀ s, Sup (.elem tP [] [.text s]) := fun s =>
    .para tP [] _ (Or.inl rfl) (Or.inl rfl) (.cons _ _ (.text s) .nil)
  have one : ∀ n, Sup n → SupL [n] := fun n h => .cons _ _ h .nil
  have nbSpan : notBlock tSpan := by refine ⟨by decide +kernel, ?_, ?_, ?_, ?_, ?_⟩ <;> decide
  have item : ∀ s rest, SubL rest → SubL (.elem tP [] [.text s] :: rest) := fun s rest h =>
    .para tP [] _ rest (Or.inl rfl) (Or.inl rfl) (.cons _ _ (.text s) .nil) h
  have cell : ∀ s, CellsL [.elem tCell [] [.elem tP [] [.text s]]] := fun s =>
    .cell tCell [] _ [] (by decide) (one _ (para s)) .nil
  have htop : TopL exBlocks := by
    refine .para tH _ _ _ (Or.inr (Or.inr rfl)) (Or.inr ⟨1, by decide⟩) (.cons _ _ (.text _) .nil) ?_
    refine .ws _ _ (by decide) ?_
    refine .para tP _ _ _ (Or.inr (Or.inl rfl)) (Or.inl rfl) ?_ ?_
    · exact .cons _ _ (.text _) (.cons _ _ (.markup tSpan [] _ nbSpan (by decide) (one _ (.text _)))
        (one _ (.note [] [] [] [[49]] _ (one _ (para _)))))
    refine .list [] _ _ ?_ ?_
    · exact .ws _ _ (by decide) (.item tListItem [] _ [] (by decide)
        (item _ _ (.list [] _ [] (.item tListItem [] _ [] (by decide) (item _ _ .nil) .nil) .nil)) .nil)
    refine .table [] _ _ ?_ ?_
    · exact .other tColumn [] [] _ (by decide) (by decide) (by decide) ⟨rfl, rfl⟩
        (.header [] _ _ (.row [] _ [] (cell _) .nil) (.row [] _ [] (cell _) .nil))
    exact .box tSection [] _ [] isContainer_section (one _ (.para tP [] _ (Or.inl rfl) (Or.inl rfl) (.cons _ _ (.text _)
      (one _ (.box tFrame [] _ isContainer_frame (one _ (.box tTextBox [] _ isContainer_textBox (one _ (para _))))))))) .nil
  exact MoinSupported.mk {} (.elem tBody [] [.elem tText [] exBlocks]) [] (.elem tText [] exBlocks) [] rfl rfl rfl htop

/-- its visible text: T a b 1 i j h c s x, then the note body n; and what the model writes for it -/
example : visibleText exBlocks = [84, 10, 32, 97, 98, 49, 10, 105, 106, 104, 99, 115, 120, 110] := by rfl
/-- what the model writes for it: "= T =\\n\\n\\nab^1^\\n * i\\n    * j\\n\\n\\n\\n||h||\\n||c||\\n\\nsx\\n----\\n1: n\\n" -/
example : (Moin.toString exStyles (exContent exBlocks)).toOption =
    some [61, 32, 84, 32, 61, 10, 10, 10, 97, 98, 94, 49, 94, 10, 32, 42, 32, 105, 10, 32, 32, 32, 32, 42, 32, 106, 10, 10,
      10, 10, 124, 124, 104, 124, 124, 10, 124, 124, 99, 124, 124, 10, 10, 115, 120, 10, 45, 45, 45, 45, 10, 49, 58, 32, 110,
      10] := by decide +kernel

/-! ## the exclusions are necessary: the model (like odf2moinmoin.py, tested on .odt files built with odfpy) drops this text -/

def tNumber : Str := [116, 101, 120, 116, 58, 110, 117, 109, 98, 101, 114]  -- text:number
def tRows : Str := [116, 97, 98, 108, 101, 58, 116, 97, 98, 108, 101, 45, 114, 111, 119, 115]  -- table:table-rows

/-- `<list><item><number>1.</number><p>i</p></item></list>` → " * i\n\n": the text:number is lost -/
example : (Moin.toString exStyles (exContent [.elem tList [] [.elem tListItem []
    [.elem tNumber [] [.text [49, 46]], .elem tP [] [.text [105]]]]])).toOption = some [32, 42, 32, 105, 10, 10] := by
  decide +kernel

/-- `<table><table-rows><row><cell><p>c</p></cell></row></table-rows></table>` → "": the row group is skipped -/
example : (Moin.toString exStyles (exContent [.elem tTable [] [.elem tRows [] [.elem tRow [] [.elem tCell []
    [.elem tP [] [.text [99]]]]]]])).toOption = some [] := by decide +kernel

/-! ## block-level containers (repair af61005): the former PENDING classes of harness/c18.py are converted completely

  Each witness is the minimal document of the harness corpus (`moin-top-frame`, `moin-top-shape`, `shape-in-paragraph`,
  `moin-top-index`, `moin-index-in-section`, `moin-top-numbered-paragraph`, `moin-numbered-paragraph-in-cell`), as minidom
  shows its content.xml; the real converter gives the same strings (correspondence).  They are `MoinSupported` documents
  now (`witnesses_supported`), so `moin_supported_total_complete_partial` covers them; `lostIn w = false` states the same
  for the single document by evaluation (the text inside the container is written with digits). -/

def tToc : Str := [116, 101, 120, 116, 58, 116, 97, 98, 108, 101, 45, 111, 102, 45, 99, 111, 110, 116, 101, 110, 116]  -- text:table-of-content
def tTocSource : Str := [116, 101, 120, 116, 58, 116, 97, 98, 108, 101, 45, 111, 102, 45, 99, 111, 110, 116, 101, 110, 116, 45, 115, 111, 117, 114, 99, 101]  -- text:table-of-content-source
def tIndexBody : Str := [116, 101, 120, 116, 58, 105, 110, 100, 101, 120, 45, 98, 111, 100, 121]  -- text:index-body
def tIndexTitle : Str := [116, 101, 120, 116, 58, 105, 110, 100, 101, 120, 45, 116, 105, 116, 108, 101]  -- text:index-title
def tNumPar : Str := [116, 101, 120, 116, 58, 110, 117, 109, 98, 101, 114, 101, 100, 45, 112, 97, 114, 97, 103, 114, 97, 112, 104]  -- text:numbered-paragraph
def tRect : Str := [100, 114, 97, 119, 58, 114, 101, 99, 116]  -- draw:rect

/-- the conversion of the document with these children of office:text succeeds and loses visible text -/
def lostIn (blocks : List Node) : Bool :=
  match Moin.toString exStyles (exContent blocks) with
  | .ok out => !(decide ((nonWs (visibleText blocks)).Sublist (nonWs out)))
  | .error _ => false

def par (c : Nat) : Node := .elem tP [] [.text [c]]

/-- `<table-of-content><table-of-content-source/><index-body><index-title><p>1</p></index-title><p>2</p></index-body>
    </table-of-content>` -/
def toc : Node := .elem tToc [] [.elem tTocSource [] [], .elem tIndexBody [] [.elem tIndexTitle [] [par 49], par 50]]

/-- `<p>a</p><frame><text-box><p>2</p></text-box></frame><p>b</p>` (m-top-frame) -/
def wTopFrame : List Node := [par 97, .elem tFrame [] [.elem tTextBox [] [par 50]], par 98]
/-- `<p>a</p><rect><p>2</p></rect><p>b</p>` (m-top-shape) -/
def wTopShape : List Node := [par 97, .elem tRect [] [par 50], par 98]
/-- `<p>a<rect><p>2</p></rect>b</p>` (m-nested-shape) -/
def wNestedShape : List Node := [.elem tP [] [.text [97], .elem tRect [] [par 50], .text [98]]]
/-- `<p>a</p>` the table of content `<p>b</p>` (m-top-index) -/
def wTopIndex : List Node := [par 97, toc, par 98]
/-- the same inside a section (m-nested-index) -/
def wNestedIndex : List Node := [.elem tSection [] [par 97, toc, par 98]]
/-- `<p>a</p><numbered-paragraph><p>2</p></numbered-paragraph><p>b</p>` (m-top-numbered-paragraph) -/
def wTopNumPar : List Node := [par 97, .elem tNumPar [] [par 50], par 98]
/-- the numbered paragraph inside a table cell (m-nested-numbered-paragraph) -/
def wNestedNumPar : List Node :=
  [.elem tTable [] [.elem tRow [] [.elem tCell [] [par 97, .elem tNumPar [] [par 50], par 98]]]]

/-- **tie to the source** (`CONTAINER_TAGS` / `elements`, regenerated): shapes, numbered paragraphs and the parts of an
    index are containers, the index source is a template (do_nothing) -/
theorem containers_of_the_witnesses :
    isContainer tRect = true ∧ isContainer tNumPar = true ∧ isContainer tToc = true ∧ isContainer tIndexBody = true ∧
    isContainer tIndexTitle = true ∧ isContainer tTocSource = false ∧ moinMethod tTocSource = some .do_nothing := by
  decide +kernel

/-- **C18 (MoinMoin, m-top-frame repaired)**: the text box of a frame that is a child of office:text is kept -/
theorem moin_top_frame_text_kept : lostIn wTopFrame = false := by decide +kernel
/-- **C18 (MoinMoin, m-top-shape repaired)**: the paragraphs of a drawing shape that is a child of office:text are kept -/
theorem moin_top_shape_text_kept : lostIn wTopShape = false := by decide +kernel
/-- **C18 (MoinMoin, m-nested-shape repaired)**: a drawing shape inside running text is converted with its paragraphs -/
theorem moin_nested_shape_text_kept : lostIn wNestedShape = false := by decide +kernel
/-- **C18 (MoinMoin, m-top-index repaired)**: a table of content that is a child of office:text is kept with its title -/
theorem moin_top_index_text_kept : lostIn wTopIndex = false := by decide +kernel
/-- **C18 (MoinMoin, m-nested-index repaired)**: also inside a section -/
theorem moin_nested_index_text_kept : lostIn wNestedIndex = false := by decide +kernel
/-- **C18 (MoinMoin, m-top-numbered-paragraph repaired)**: a numbered paragraph that is a child of office:text is kept -/
theorem moin_top_numbered_paragraph_text_kept : lostIn wTopNumPar = false := by decide +kernel
/-- **C18 (MoinMoin, m-nested-numbered-paragraph repaired)**: also inside a cell -/
theorem moin_nested_numbered_paragraph_text_kept : lostIn wNestedNumPar = false := by decide +kernel

/-- what the model (and the converter) writes for `wTopFrame`: a, blank line, 2, blank line, b -/
example : (Moin.toString exStyles (exContent wTopFrame)).toOption = some [97, 10, 10, 50, 10, 10, 98, 10] := by decide +kernel

/-- **C18 (MoinMoin): the containers are inside the proved quantifier** — the seven witnesses are `MoinSupported`
    documents, so `moin_supported_total_complete_partial` applies to them (and to every document built the same way) -/
theorem witnesses_supported : ∀ w ∈ [wTopFrame, wTopShape, wNestedShape, wTopIndex, wNestedIndex, wTopNumPar, wNestedNumPar],
    MoinSupported exStyles (exContent w) w := by
  obtain ⟨hRect, hNum, hToc, hBody, hTitle, hSrcC, hSrcM⟩ := containers_of_the_witnesses
  have sp : ∀ c, Sup (par c) := fun c => .para tP [] _ (Or.inl rfl) (Or.inl rfl) (.cons _ _ (.text _) .nil)
  have one : ∀ n, Sup n → SupL [n] := fun n h => .cons _ _ h .nil
  have tp : ∀ c rest, TopL rest → TopL (par c :: rest) := fun c rest h =>
    .para tP [] _ rest (Or.inr (Or.inl rfl)) (Or.inl rfl) (.cons _ _ (.text _) .nil) h
  have nbSrc : notBlock tTocSource := by refine ⟨hSrcC, ?_, ?_, ?_, ?_, ?_⟩ <;> decide
  have kToc : SupL [.elem tTocSource [] [], .elem tIndexBody [] [.elem tIndexTitle [] [par 49], par 50]] :=
    .cons _ _ (.leaf tTocSource [] [] .do_nothing nbSrc hSrcM rfl ⟨rfl, rfl⟩)
      (one _ (.box tIndexBody [] _ hBody (.cons _ _ (.box tIndexTitle [] _ hTitle (one _ (sp 49))) (one _ (sp 50)))))
  have sToc : Sup toc := .box tToc [] _ hToc kToc
  have sNum : Sup (.elem tNumPar [] [par 50]) := .box tNumPar [] _ hNum (one _ (sp 50))
  have three : ∀ n, Sup n → SupL [par 97, n, par 98] := fun n h => .cons _ _ (sp 97) (.cons _ _ h (one _ (sp 98)))
  intro w hw
  simp only [List.mem_cons, List.not_mem_nil, or_false] at hw
  rcases hw with rfl | rfl | rfl | rfl | rfl | rfl | rfl
  · refine MoinSupported.mk {} (.elem tBody [] [.elem tText [] _]) [] (.elem tText [] _) [] rfl rfl rfl (tp 97 _ (.box tFrame [] _ _ isContainer_frame
      (one _ (.box tTextBox [] _ isContainer_textBox (one _ (sp 50)))) (tp 98 _ .nil)))
  · refine MoinSupported.mk {} (.elem tBody [] [.elem tText [] _]) [] (.elem tText [] _) [] rfl rfl rfl (tp 97 _ (.box tRect [] _ _ hRect (one _ (sp 50)) (tp 98 _ .nil)))
  · refine MoinSupported.mk {} (.elem tBody [] [.elem tText [] _]) [] (.elem tText [] _) [] rfl rfl rfl (.para tP [] _ [] (Or.inr (Or.inl rfl)) (Or.inl rfl)
      (.cons _ _ (.text _) (.cons _ _ (.box tRect [] _ hRect (one _ (sp 50))) (one _ (.text _)))) .nil)
  · refine MoinSupported.mk {} (.elem tBody [] [.elem tText [] _]) [] (.elem tText [] _) [] rfl rfl rfl (tp 97 _ (.box tToc [] _ _ hToc kToc (tp 98 _ .nil)))
  · refine MoinSupported.mk {} (.elem tBody [] [.elem tText [] _]) [] (.elem tText [] _) [] rfl rfl rfl (.box tSection [] _ [] isContainer_section (three _ sToc) .nil)
  · refine MoinSupported.mk {} (.elem tBody [] [.elem tText [] _]) [] (.elem tText [] _) [] rfl rfl rfl (tp 97 _ (.box tNumPar [] _ _ hNum (one _ (sp 50)) (tp 98 _ .nil)))
  · refine MoinSupported.mk {} (.elem tBody [] [.elem tText [] _]) [] (.elem tText [] _) [] rfl rfl rfl (.table [] _ [] (.row [] _ [] (.cell tCell [] _ [] (by decide) (three _ sNum) .nil) .nil) .nil)

def tLine : Str := [100, 114, 97, 119, 58, 108, 105, 110, 101]  -- draw:line
def tGroup : Str := [100, 114, 97, 119, 58, 103]  -- draw:g

/-- **C18 (MoinMoin, after repair of m-top-shape-unlisted / m-nested-shape-unlisted)**: draw:line and draw:g (a group of
    shapes) hold paragraphs too; since they are in `CONTAINER_TAGS` their paragraphs are carried, as children of office:text
    and inside running text (corpus document `moin-line-and-group`) -/
theorem moin_line_and_group_text_kept :
    lostIn [par 97, .elem tLine [] [par 50], par 98] = false ∧ lostIn [par 97, .elem tGroup [] [.elem tRect [] [par 50]], par 98] = false ∧
    lostIn [.elem tP [] [.text [97], .elem tLine [] [par 50], .text [98]]] = false ∧
    lostIn [.elem tP [] [.text [97], .elem tGroup [] [.elem tRect [] [par 50]], .text [98]]] = false := by
  decide +kernel

/-- **C18 (MoinMoin): the full statement is still false in the model** — not for a container any more, but for a
    text:number inside a list item (generated numbering; the harness does not demand it): `MoinTotalCompleteFull` quantifies
    over every text node of the document -/
theorem moinTotalCompleteFull_false : ¬ MoinTotalCompleteFull := by
  let w : List Node := [.elem tList [] [.elem tListItem [] [.elem tNumber [] [.text [49, 46]], .elem tP [] [.text [105]]]]]
  intro h
  obtain ⟨out, ho, hs⟩ := h exStyles (exContent w) (.elem tBody [] [.elem tText [] w]) []
    (.elem tText [] w) [] rfl rfl
  have hl : lostIn w = true := by decide +kernel
  unfold lostIn at hl
  rw [ho] at hl
  have hk : kidsOf (.elem tText [] w) = w := rfl
  rw [hk] at hs
  simp [hs] at hl

end OdfModel.Props.C18Moin

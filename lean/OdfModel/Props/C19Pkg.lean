/-
  Property C19, package level — "all other fields, the rest of the content, styles, pictures and other package
  members are preserved as by an ordinary load and save.  Listing and reading fields never modifies the source."

  Cross-layer file: `OdfModel.UserField` (the update loop over the declarations) × `OdfModel.Pkg` (`load`, `save`).

  odf/userfield.py:
      update(data):  self.loaddoc()                      -- self.document = odf.opendocument.load(src)      → `Pkg.load`
                     for f in self.document.getElementsByType(UserFieldDecl): …setAttrNS…   → `UserField.updateDoc`
                     self.savedoc()                      -- self.document.save(dest)                        → `Pkg.save`
      list_fields_and_values():  self.loaddoc(); read the declarations; return rows        -- no savedoc()

  How the two layers are put together.  `Pkg.save` writes the XML parts as opaque tokens `Content.part kind objectId`
  (the package layer does not look into them); the root document of a loaded package has the ghost id 0, every
  sub-document (embedded object, at any depth) the id 1 + the position of its folder key (`buildDoc`).  A written
  package is here the member list of `Pkg.save` with every token resolved through a table of bodies
  `B : PartKind → Nat → β` (`write`).  The XML layer is a parameter (`XmlLayer β`, β = whatever a serialised part is):
      * `rootTree p`     — the element tree `load` builds for the ROOT document, as `UserField.Doc` (declarations and
                           opaque other nodes, in the order `getElementsByType` walks them).  `getElementsByType`
                           consults `element_dict` of the root `OpenDocument` only: a sub-document is an `OpenDocument`
                           of its own with its own `element_dict`, so the loop never sees it;
      * `ser k t`        — the serialiser of part `k` of the root document from its tree (`contentxml()`,
                           `stylesxml()`, `metaxml()`, `settingsxml()`);
      * `subPart p k i`  — part `k` of the sub-document with ghost id `i`, as `save` writes it after `load p`.
  Nothing is assumed about these three functions.  The frame theorems say: whatever they are, every member of the
  tool's output that is not one of the four XML parts of the root document is THE SAME VALUE as in a plain
  `save (load p)` — same place in the member list, same name, compression method, extra field and bytes — and the
  manifest is the same list; the root's own parts are `ser k` of the updated tree, about which Props/C19.lean
  (`updateDoc_frame`, `update_sets`) says the rest.

  Which root parts can change: a declaration may sit in styles.xml (text:user-field-decls in a page header or footer);
  the loop updates it there as well — harness/c19.py generates such documents and its oracle expects exactly that.  So
  "every member other than content.xml is unchanged" holds under the hypothesis that the other parts' serialisation
  does not see the updated value attributes (`update_members_frame_content_only`; always true for meta.xml and
  settings.xml, true for styles.xml when no named declaration lives in a header/footer), and unconditionally in the form
  "every member other than the root's four XML parts" (`update_members_frame`).
-/
import OdfModel.Props.C03
import OdfModel.Props.C19
namespace OdfModel.Props.C19Pkg
open OdfModel OdfModel.Pkg
open OdfModel.UserField (Data Err Item Field updateDoc fieldsOf listFields)
open OdfModel.Props.C19 (All2 ItemRel expectedView named)

/-- the element tree of the root document as the user-field tool sees it -/
abbrev UDoc := UserField.Doc

/-! ### a written package with its XML parts resolved -/

/-- what the bytes of a member are, once the XML parts are no longer tokens -/
inductive Body (β : Type) where
  | bytes (b : Bytes)
  | file (fname : Str)                -- the bytes of that file at save time
  | xml (x : β)                       -- a serialised XML part
  | manifest (entries : List ME)      -- META-INF/manifest.xml: the serialised entry list
deriving DecidableEq

structure Member (β : Type) where
  name : Str
  method : Method
  extra : Bytes
  body : Body β
deriving DecidableEq

/-- the package a `save` leaves behind: the zip members in writing order, and the manifest entry list -/
structure Written (β : Type) where
  members : List (Member β)
  manifest : List ME
deriving DecidableEq

def resolve {β : Type} (B : PartKind → Nat → β) (man : List ME) : Content → Body β
  | .bytes b => .bytes b
  | .file f => .file f
  | .part k i => .xml (B k i)
  | .manifestXml => .manifest man

def member {β : Type} (B : PartKind → Nat → β) (man : List ME) (e : ZE) : Member β :=
  ⟨e.name, e.method, e.extra, resolve B man e.content⟩

/-- `doc.save(dest)` with the XML parts taken from `B` -/
def write {β : Type} (B : PartKind → Nat → β) (d : Pkg.Doc) : Written β :=
  ⟨(save d).zip.map (member B (save d).man), (save d).man⟩

/-- member name of a part of the root document -/
def partName : PartKind → Str
  | .styles => sStyles
  | .content => sContent
  | .settings => sSettings
  | .metadata => sMeta

/-- the names of the four XML parts of the root document -/
def rootPartNames : List Str := [sStyles, sContent, sSettings, sMeta]

theorem partName_mem (k : PartKind) : partName k ∈ rootPartNames := by
  cases k <;> simp [partName, rootPartNames]

/-! ### the XML layer (a parameter) and the three operations -/

structure XmlLayer (β : Type) where
  /-- the tree `load` builds for the root document -/
  rootTree : Package → UDoc
  /-- serialiser of one part of the root document -/
  ser : PartKind → UDoc → β
  /-- the parts of the sub-documents as they are written after a load (the tool never touches them) -/
  subPart : Package → PartKind → Nat → β

/-- the table of bodies of a document loaded from `p` whose root tree is `t` -/
def bodies {β : Type} (X : XmlLayer β) (p : Package) (t : UDoc) : PartKind → Nat → β :=
  fun k i => if i = 0 then X.ser k t else X.subPart p k i

/-- an ordinary load and save: `load(src).save(dest)`; `none` = `load` raises -/
def plainPkg {β : Type} (X : XmlLayer β) (p : Package) : Option (Written β) :=
  (load p).map (fun d => write (bodies X p (X.rootTree p)) d)

/-- load, transform the root tree with ANY function, save -/
def transformPkg {β : Type} (X : XmlLayer β) (f : UDoc → UDoc) (p : Package) : Option (Written β) :=
  (load p).map (fun d => write (bodies X p (f (X.rootTree p))) d)

/-- `UserFields(src, dest).update(data)`: `none` = `load` raises; `.error` = a converter raised inside the loop,
    `savedoc()` is not reached and nothing is written; `.ok w` = the package written to `dest` -/
def updatePkg {β : Type} (X : XmlLayer β) (p : Package) (data : Data) : Option (Except Err (Written β)) :=
  (load p).map (fun d =>
    match updateDoc data (X.rootTree p) with
    | .error e => .error e
    | .ok t' => .ok (write (bodies X p t') d))

/-- the tool's world: the source package and what has been written to the destination -/
structure PkgState (β : Type) where
  src : Package
  dest : Option (Written β)

/-- `UserFields(src, dest).list_fields_and_values()`: `loaddoc()`, read, return — there is no `savedoc()`;
    `none` = `load` raises -/
def listPkg {β : Type} (X : XmlLayer β) (s : PkgState β) :
    Option (List (Option Str × Option Str × Option Str)) × PkgState β :=
  ((load s.src).map (fun _ => listFields (fieldsOf (X.rootTree s.src))), s)

/-! ### small facts about `All2` -/

theorem all2_map {α γ δ : Type} (R : γ → δ → Prop) (f : α → γ) (g : α → δ) :
    ∀ (l : List α), (∀ e ∈ l, R (f e) (g e)) → All2 R (l.map f) (l.map g) := by
  intro l
  induction l with
  | nil => intro _; exact All2.nil
  | cons a r ih =>
    intro h
    exact All2.cons (h a (by simp)) (ih (fun e he => h e (List.mem_cons_of_mem _ he)))

theorem all2_mono {α γ : Type} {R S : α → γ → Prop} {l : List α} {l' : List γ} (h : All2 R l l')
    (hi : ∀ a b, R a b → S a b) : All2 S l l' := by
  induction h with
  | nil => exact All2.nil
  | cons hab _ ih => exact All2.cons (hi _ _ hab) ih

theorem all2_map_eq {α γ δ : Type} {R : α → γ → Prop} (f : α → δ) (g : γ → δ) {l : List α} {l' : List γ}
    (h : All2 R l l') (hi : ∀ a b, R a b → f a = g b) : l.map f = l'.map g := by
  induction h with
  | nil => rfl
  | cons hab _ ih => simp [hi _ _ hab, ih]

theorem all2_get {α γ : Type} {R : α → γ → Prop} {l : List α} {l' : List γ} (h : All2 R l l') :
    ∀ (j : Nat) (a : α) (b : γ), l[j]? = some a → l'[j]? = some b → R a b := by
  induction h with
  | nil => intro j a b ha; simp at ha
  | cons hab _ ih =>
    intro j a b ha hb
    cases j with
    | zero => simp at ha hb; subst ha; subst hb; exact hab
    | succ j => simp at ha hb; exact ih j a b ha hb

theorem all2_mem_right {α γ : Type} {R : α → γ → Prop} {l : List α} {l' : List γ} (h : All2 R l l') :
    ∀ b ∈ l', ∃ a ∈ l, R a b := by
  induction h with
  | nil => intro b hb; simp at hb
  | cons hab _ ih =>
    intro b hb
    rcases List.mem_cons.mp hb with rfl | hb
    · exact ⟨_, by simp, hab⟩
    · obtain ⟨a, ha, hr⟩ := ih b hb
      exact ⟨a, List.mem_cons_of_mem _ ha, hr⟩

theorem all2_mem_left {α γ : Type} {R : α → γ → Prop} {l : List α} {l' : List γ} (h : All2 R l l') :
    ∀ a ∈ l, ∃ b ∈ l', R a b := by
  induction h with
  | nil => intro a ha; simp at ha
  | cons hab _ ih =>
    intro a ha
    rcases List.mem_cons.mp ha with rfl | ha
    · exact ⟨_, by simp, hab⟩
    · obtain ⟨b, hb, hr⟩ := ih a ha
      exact ⟨b, List.mem_cons_of_mem _ hb, hr⟩

/-! ### where `save` writes a part of the object with id 0 -/

/-- no member of `o` is an XML part of the object with id 0 -/
def NoRootPart (o : Out) : Prop := ∀ e ∈ o.zip, ∀ k, e.content ≠ Content.part k 0

/-- every member of `o` that is an XML part of the object with id 0 is that part under its top-level name -/
def RootPartsAtTop (o : Out) : Prop :=
  ∀ e ∈ o.zip, (∀ k, e.content ≠ Content.part k 0) ∨ ∃ k, e = ⟨partName k, .deflated, [], Content.part k 0⟩

theorem NoRootPart.append {a b : Out} (ha : NoRootPart a) (hb : NoRootPart b) : NoRootPart (a ++ b) := by
  intro e he
  simp only [Out.zip_append, List.mem_append] at he
  rcases he with he | he
  · exact ha e he
  · exact hb e he

theorem RootPartsAtTop.append {a b : Out} (ha : RootPartsAtTop a) (hb : RootPartsAtTop b) : RootPartsAtTop (a ++ b) := by
  intro e he
  simp only [Out.zip_append, List.mem_append] at he
  rcases he with he | he
  · exact ha e he
  · exact hb e he

theorem NoRootPart.atTop {a : Out} (ha : NoRootPart a) : RootPartsAtTop a := fun e he => Or.inl (ha e he)

theorem noRootPart_empty : NoRootPart Out.empty := by intro e he; simp at he

theorem noRootPart_emM (m : ME) : NoRootPart (emM m) := by intro e he; simp at he

theorem noRootPart_emZ (z : ZE) (hc : ∀ k, z.content ≠ Content.part k 0) : NoRootPart (emZ z) := by
  intro e he
  simp only [emZ_zip, List.mem_singleton] at he
  subst he; exact hc

theorem noRootPart_emFile (n : Str) (m : Method) (c : Content) (t : Str) (hc : ∀ k, c ≠ Content.part k 0) :
    NoRootPart (emFile n m c t) := by
  intro e he
  simp only [emFile_zip, List.mem_singleton] at he
  subst he; exact hc

theorem noRootPart_xmlPart (F : Str) (k : PartKind) (n : Str) (i : Nat) (hi : i ≠ 0) : NoRootPart (xmlPart F k n i) := by
  apply noRootPart_emFile
  intro k' hc
  injection hc with _ h2
  exact hi h2

mutual
theorem noRoot_saveXml (L : Nat) (F : Str) (d : Pkg.Doc) (h : hasId 0 d = false) : NoRootPart (saveXml L false F d) := by
  cases d with
  | mk id mt hs pics th ex fo kids =>
    simp only [hasId, Bool.or_eq_false_iff, beq_eq_false_iff_ne, ne_eq] at h
    have ih := noRoot_saveXmlKids L kids h.2
    have h1 := noRootPart_xmlPart F .styles sStyles id h.1
    have h2 := noRootPart_xmlPart F .content sContent id h.1
    have h3 : NoRootPart (if hs = true then xmlPart F .settings sSettings id else Out.empty) := by
      split
      · exact noRootPart_xmlPart F .settings sSettings id h.1
      · exact noRootPart_empty
    simp only [saveXml, Bool.false_eq_true, if_false]
    exact (((((noRootPart_emM _).append h1).append h2).append h3).append noRootPart_empty).append ih
theorem noRoot_saveXmlKids (L : Nat) (ds : List Pkg.Doc) (h : hasIdK 0 ds = false) : NoRootPart (saveXmlKids L ds) := by
  cases ds with
  | nil => simp only [saveXmlKids]; exact noRootPart_empty
  | cons c cs =>
    simp only [hasIdK, Bool.or_eq_false_iff] at h
    simp only [saveXmlKids]
    exact (noRoot_saveXml L (stor L c) c h.1).append (noRoot_saveXmlKids L cs h.2)
end

/-- the XML parts of the top document are written under their plain names; nothing else of `_saveXmlObjects` is a
    part of the object with id 0 when no sub-document carries that id -/
theorem atTop_saveXml_top (L : Nat) (mt : Str) (hs : Bool) (pics : List Pic) (th : Option Thumb) (ex : List Extra)
    (fo : Str) (kids : List Pkg.Doc) (h : hasIdK 0 kids = false) :
    RootPartsAtTop (saveXml L true [] ⟨0, mt, hs, pics, th, ex, fo, kids⟩) := by
  have ih := (noRoot_saveXmlKids L kids h).atTop
  have part : ∀ k, RootPartsAtTop (xmlPart [] k (partName k) 0) := by
    intro k e he
    simp only [xmlPart, emFile_zip, List.mem_singleton, List.nil_append] at he
    exact Or.inr ⟨k, he⟩
  have h1 := part .styles
  have h2 := part .content
  have h3 : RootPartsAtTop (if hs = true then xmlPart [] .settings sSettings 0 else Out.empty) := by
    split
    · exact part .settings
    · exact noRootPart_empty.atTop
  have h4 : RootPartsAtTop (emFile sMeta .deflated (Content.part .metadata 0) sTextXml) := by
    intro e he
    simp only [emFile_zip, List.mem_singleton] at he
    exact Or.inr ⟨.metadata, he⟩
  simp only [saveXml, if_true]
  exact ((((((noRootPart_emM _).atTop).append h1).append h2).append h3).append h4).append ih

theorem noRoot_picsOut (F : Str) (ps : List Pic) : NoRootPart (picsOut F ps) := by
  induction ps with
  | nil => exact noRootPart_empty
  | cons p ps ih =>
    simp only [picsOut]
    refine NoRootPart.append ?_ ih
    unfold picOut
    apply noRootPart_emFile
    intro k hc
    cases hp : p.src <;> rw [hp] at hc <;> simp [picContent] at hc

mutual
theorem noRoot_savePics (L : Nat) (F : Str) (d : Pkg.Doc) : NoRootPart (savePics L F d) := by
  cases d with
  | mk id mt hs pics th ex fo kids =>
    simp only [savePics]
    exact (noRoot_picsOut F pics).append (noRoot_savePicsKids L kids)
theorem noRoot_savePicsKids (L : Nat) (ds : List Pkg.Doc) : NoRootPart (savePicsKids L ds) := by
  cases ds with
  | nil => simp only [savePicsKids]; exact noRootPart_empty
  | cons c cs =>
    simp only [savePicsKids]
    exact (noRoot_savePics L (stor L c) c).append (noRoot_savePicsKids L cs)
end

theorem noRoot_thumbOut (t : Option Thumb) : NoRootPart (thumbOut t) := by
  cases t with
  | none => exact noRootPart_empty
  | some t =>
    simp only [thumbOut]
    exact (noRootPart_emM _).append (noRootPart_emFile _ _ _ _ (by intro k hc; cases hc))

theorem noRoot_extrasOut (F : Str) (es : List Extra) : NoRootPart (extrasOut F es) := by
  induction es with
  | nil => exact noRootPart_empty
  | cons x es ih =>
    simp only [extrasOut]
    refine NoRootPart.append ?_ ih
    unfold extraOut
    split
    · exact noRootPart_empty
    · split
      · exact noRootPart_emM _
      · exact noRootPart_emFile _ _ _ _ (by intro k hc; cases hc)

mutual
theorem noRoot_saveExtras (L : Nat) (F : Str) (d : Pkg.Doc) : NoRootPart (saveExtras L F d) := by
  cases d with
  | mk id mt hs pics th ex fo kids =>
    simp only [saveExtras]
    exact (noRoot_extrasOut F ex).append (noRoot_saveExtrasKids L kids)
theorem noRoot_saveExtrasKids (L : Nat) (ds : List Pkg.Doc) : NoRootPart (saveExtrasKids L ds) := by
  cases ds with
  | nil => simp only [saveExtrasKids]; exact noRootPart_empty
  | cons c cs =>
    simp only [saveExtrasKids]
    exact (noRoot_saveExtras L (stor L c) c).append (noRoot_saveExtrasKids L cs)
end

/-- in everything `save` writes for a document with id 0 none of whose sub-documents has id 0, a part of the object 0
    is one of the (at most four) top-level members styles.xml / content.xml / settings.xml / meta.xml -/
theorem atTop_save (d : Pkg.Doc) (hid : d.id = 0) (hk : hasIdK 0 d.children = false) : RootPartsAtTop (save d) := by
  cases d with
  | mk id mt hs pics th ex fo kids =>
    simp only at hid hk
    subst hid
    unfold save
    exact (((((noRootPart_emZ _ (by intro k hc; cases hc)).atTop.append (atTop_saveXml_top _ mt hs pics th ex fo kids hk)).append
      (noRoot_savePics _ _ _).atTop).append (noRoot_thumbOut _).atTop).append (noRoot_saveExtras _ _ _).atTop).append
      (noRootPart_emZ _ (by intro k hc; cases hc)).atTop

/-! ### the ids of a loaded tree -/

theorem hasIdK_map_false (g : Str → Pkg.Doc) (h : ∀ Q, hasId 0 (g Q) = false) :
    ∀ l : List Str, hasIdK 0 (l.map g) = false := by
  intro l
  induction l with
  | nil => rfl
  | cons a r ih => simp [hasIdK, h a, ih]

/-- a sub-document built by `load` never has the id 0 (its id is 1 + the position of its folder key) -/
theorem buildDoc_noZero (p : Package) (man : List (Str × Str)) (keys : List Str) :
    ∀ (f : Nat) (P : Str), hasId 0 (buildDoc p man keys f P) = false
  | 0, P => by simp [buildDoc, hasId, hasIdK]
  | f+1, P => by
    simp only [buildDoc, hasId]
    simp [hasIdK_map_false _ (buildDoc_noZero p man keys f)]

/-- `load` gives the root document the id 0 and no one else -/
theorem load_ids (p : Package) (d : Pkg.Doc) (hl : load p = some d) : d.id = 0 ∧ hasIdK 0 d.children = false := by
  unfold load at hl
  simp only at hl
  split at hl
  · generalize hb : buildDoc p (manifestlist p.manifest) ((manifestlist p.manifest).map (·.1))
      (loadFuel ((manifestlist p.manifest).map (·.1))) [] = b at hl
    have hz := buildDoc_noZero p (manifestlist p.manifest) ((manifestlist p.manifest).map (·.1))
      (loadFuel ((manifestlist p.manifest).map (·.1))) []
    rw [hb] at hz
    cases b with
    | mk id mt hs pics th ex fo kids =>
      simp only [Option.some.injEq] at hl
      subst hl
      simp only [hasId, Bool.or_eq_false_iff] at hz
      exact ⟨rfl, hz.2⟩
  · cases hl

/-! ### the frame, for any two tables of bodies that agree outside the root document -/

/-- how a member of one written package relates to the member at the same place of another one: it is the same
    member, or both are the same XML part `k` of the root document (same name, method, extra field), holding the
    serialisation of tree `t` resp. `t'` -/
def MemberRel {β : Type} (ser : PartKind → UDoc → β) (t t' : UDoc) (m m' : Member β) : Prop :=
  m = m' ∨ ∃ k, m = ⟨partName k, .deflated, [], .xml (ser k t)⟩ ∧ m' = ⟨partName k, .deflated, [], .xml (ser k t')⟩

theorem write_frame {β : Type} (X : XmlLayer β) (p : Package) (t t' : UDoc) (d : Pkg.Doc) (hid : d.id = 0)
    (hk : hasIdK 0 d.children = false) :
    All2 (MemberRel X.ser t t') (write (bodies X p t) d).members (write (bodies X p t') d).members := by
  unfold write
  apply all2_map
  intro e he
  rcases atTop_save d hid hk e he with hno | ⟨k, rfl⟩
  · left
    unfold member
    cases hc : e.content with
    | bytes b => rfl
    | file f => rfl
    | manifestXml => rfl
    | part k i =>
      have hi : i ≠ 0 := by
        intro h0; subst h0; exact hno k hc
      simp [resolve, bodies, hi]
  · right
    exact ⟨k, by simp [member, resolve, bodies], by simp [member, resolve, bodies]⟩

/-! ### the theorems of the property -/

/-- **C19 (frame independent of the content transformer)**: load a package, replace the root document's tree by ANY
    function of it, save.  Every member of the result is, at the same place of the member list, the member a plain
    load+save writes — mimetype, the parts of every embedded object at any depth, pictures of the root and of the
    objects, the thumbnail, the extras, META-INF/manifest.xml (whose body is the manifest entry list) — unless it is one
    of the four XML parts of the root document, and then it differs in nothing but the serialised tree.  Nothing is
    assumed about the package, the transformer or the XML layer. -/
theorem transform_members_frame {β : Type} (X : XmlLayer β) (f : UDoc → UDoc) (p : Package) (w0 w : Written β)
    (h0 : plainPkg X p = some w0) (h : transformPkg X f p = some w) :
    All2 (MemberRel X.ser (X.rootTree p) (f (X.rootTree p))) w0.members w.members ∧ w.manifest = w0.manifest := by
  unfold plainPkg at h0
  unfold transformPkg at h
  cases hl : load p with
  | none => rw [hl] at h; cases h
  | some d =>
    rw [hl] at h h0
    simp only [Option.map_some, Option.some.injEq] at h h0
    subst h; subst h0
    obtain ⟨hid, hk⟩ := load_ids p d hl
    exact ⟨write_frame X p _ _ d hid hk, rfl⟩

/-- what a successful `update` is made of -/
theorem updatePkg_ok {β : Type} (X : XmlLayer β) (p : Package) (data : Data) (w : Written β)
    (h : updatePkg X p data = some (.ok w)) :
    ∃ d t', load p = some d ∧ updateDoc data (X.rootTree p) = .ok t' ∧ w = write (bodies X p t') d := by
  unfold updatePkg at h
  cases hl : load p with
  | none => rw [hl] at h; cases h
  | some d =>
    rw [hl] at h
    simp only [Option.map_some, Option.some.injEq] at h
    cases hu : updateDoc data (X.rootTree p) with
    | error e => rw [hu] at h; cases h
    | ok t' =>
      rw [hu] at h
      simp only [Except.ok.injEq] at h
      exact ⟨d, t', rfl, rfl, h.symm⟩

/-- **C19 (`update_members_frame`)**: for every package, every update dictionary and every XML layer: the output of
    `update` has, place by place, the members of a plain `load`+`save` of the same source ("preserved as by an ordinary
    load and save": mimetype, every part of every embedded object, all pictures, the thumbnail, the extras, the manifest
    member), except that the XML parts of the root document (styles.xml, content.xml, settings.xml, meta.xml — same
    name, method and extra field) are serialised from the updated tree `t'`; and `t'` is, item by item, the source tree
    with one step of the update loop applied to each declaration and every other node identical (`ItemRel`). -/
theorem update_members_frame {β : Type} (X : XmlLayer β) (p : Package) (data : Data) (w0 w : Written β)
    (h0 : plainPkg X p = some w0) (h : updatePkg X p data = some (.ok w)) :
    ∃ t', updateDoc data (X.rootTree p) = .ok t' ∧ All2 (ItemRel data) (X.rootTree p) t' ∧
      All2 (MemberRel X.ser (X.rootTree p) t') w0.members w.members := by
  obtain ⟨d, t', hl, hu, hw⟩ := updatePkg_ok X p data w h
  unfold plainPkg at h0
  rw [hl] at h0
  simp only [Option.map_some, Option.some.injEq] at h0
  subst h0; subst hw
  obtain ⟨hid, hk⟩ := load_ids p d hl
  exact ⟨t', hu, C19.updateDoc_frame data _ _ hu, write_frame X p _ _ d hid hk⟩

/-- **C19 (`update_members_frame`, by place and by name)**: same number of members, same names in the same order, and
    the member at place `j` is identical to the one a plain load+save writes there unless its name is styles.xml,
    content.xml, settings.xml or meta.xml (top level); every member of the output not so named is a member of the plain
    load+save, and conversely. -/
theorem update_members_frame_named {β : Type} (X : XmlLayer β) (p : Package) (data : Data) (w0 w : Written β)
    (h0 : plainPkg X p = some w0) (h : updatePkg X p data = some (.ok w)) :
    w.members.map (·.name) = w0.members.map (·.name) ∧
    w.members.map (fun m => (m.method, m.extra)) = w0.members.map (fun m => (m.method, m.extra)) ∧
    (∀ (j : Nat) (m0 m : Member β), w0.members[j]? = some m0 → w.members[j]? = some m → m.name ∉ rootPartNames → m = m0) ∧
    (∀ m ∈ w.members, m.name ∉ rootPartNames → m ∈ w0.members) ∧
    (∀ m0 ∈ w0.members, m0.name ∉ rootPartNames → m0 ∈ w.members) := by
  obtain ⟨t', _, _, hall⟩ := update_members_frame X p data w0 w h0 h
  refine ⟨?_, ?_, ?_, ?_, ?_⟩
  · symm
    apply all2_map_eq _ _ hall
    rintro a b (rfl | ⟨k, rfl, rfl⟩) <;> rfl
  · symm
    apply all2_map_eq _ _ hall
    rintro a b (rfl | ⟨k, rfl, rfl⟩) <;> rfl
  · intro j m0 m hm0 hm hn
    rcases all2_get hall j m0 m hm0 hm with rfl | ⟨k, _, rfl⟩
    · rfl
    · exact absurd (partName_mem k) hn
  · intro m hm hn
    obtain ⟨a, ha, hr⟩ := all2_mem_right hall m hm
    rcases hr with rfl | ⟨k, _, rfl⟩
    · exact ha
    · exact absurd (partName_mem k) hn
  · intro m0 hm0 hn
    obtain ⟨b, hb, hr⟩ := all2_mem_left hall m0 hm0
    rcases hr with rfl | ⟨k, rfl, _⟩
    · exact hb
    · exact absurd (partName_mem k) hn

/-- **C19 (`update_manifest_same`)**: the manifest entry list of the output (paths, media types, folder entries, order)
    is identical to that of a plain load+save, and so is the META-INF/manifest.xml member that serialises it -/
theorem update_manifest_same {β : Type} (X : XmlLayer β) (p : Package) (data : Data) (w0 w : Written β)
    (h0 : plainPkg X p = some w0) (h : updatePkg X p data = some (.ok w)) :
    w.manifest = w0.manifest ∧
    (⟨sManifestPath, .deflated, [], .manifest w0.manifest⟩ : Member β) ∈ w.members ∧
    w.members.map (·.name) = sMimetype :: ((w0.manifest.filter (fun e => !e.isFolder)).map (·.path) ++ [sManifestPath]) := by
  obtain ⟨d, t', hl, hu, hw⟩ := updatePkg_ok X p data w h
  unfold plainPkg at h0
  rw [hl] at h0
  simp only [Option.map_some, Option.some.injEq] at h0
  subst h0; subst hw
  refine ⟨rfl, ?_, ?_⟩
  · simp only [write, List.mem_map]
    refine ⟨⟨sManifestPath, .deflated, [], .manifestXml⟩, ?_, rfl⟩
    simp [save]
  · have := C03.manifest_exact_ordered d
    simp only [C03.names, C03.filePaths, C03.fileEntries] at this
    simp only [write, List.map_map]
    exact this

/-- **C19 (only content.xml changes)**: if the serialisation of the other three parts of the root document does not
    see the value attributes the loop rewrites (meta.xml and settings.xml hold no declarations; styles.xml holds none
    unless a header or footer declares user fields — and then, in the code as in this model, they ARE updated), then every
    member other than the top-level content.xml is identical to the one a plain load+save writes at the same place. -/
theorem update_members_frame_content_only {β : Type} (X : XmlLayer β) (p : Package) (data : Data) (w0 w : Written β)
    (h0 : plainPkg X p = some w0) (h : updatePkg X p data = some (.ok w))
    (hblind : ∀ k, k ≠ PartKind.content → ∀ t', All2 (ItemRel data) (X.rootTree p) t' → X.ser k t' = X.ser k (X.rootTree p)) :
    ∀ (j : Nat) (m0 m : Member β), w0.members[j]? = some m0 → w.members[j]? = some m → m.name ≠ sContent → m = m0 := by
  obtain ⟨t', _, hrel, hall⟩ := update_members_frame X p data w0 w h0 h
  intro j m0 m hm0 hm hn
  rcases all2_get hall j m0 m hm0 hm with rfl | ⟨k, rfl, rfl⟩
  · rfl
  · cases k with
    | content => exact absurd rfl hn
    | styles => rw [hblind .styles (by decide) t' hrel]
    | settings => rw [hblind .settings (by decide) t' hrel]
    | metadata => rw [hblind .metadata (by decide) t' hrel]

theorem updateDoc_unnamed (data : Data) (t : UDoc) (h : ∀ f ∈ fieldsOf t, named data f = none) :
    updateDoc data t = .ok t := by
  induction t with
  | nil => rfl
  | cons it r ih =>
    cases it with
    | other x =>
      simp only [fieldsOf] at h
      simp only [updateDoc, ih h]
    | field f =>
      simp only [fieldsOf, List.mem_cons, forall_eq_or_imp] at h
      simp only [updateDoc, C19.updField_unnamed data f h.1, ih h.2]

/-- **C19 (no declaration named ⇒ an ordinary load and save)**: with a dictionary none of whose keys names a
    declaration (in particular the empty one) the tool writes exactly the package `load(src).save(dest)` writes -/
theorem update_unknown_names_pkg {β : Type} (X : XmlLayer β) (p : Package) (data : Data)
    (h : ∀ f ∈ fieldsOf (X.rootTree p), named data f = none) :
    updatePkg X p data = (plainPkg X p).map .ok := by
  unfold updatePkg plainPkg
  rw [updateDoc_unnamed data _ h]
  cases load p <;> rfl

/-- **C19 (content member — corollary with `C19.update_sets` / `updateDoc_frame`)**: after a successful update the
    top-level content.xml, styles.xml and meta.xml of the output are the serialisations of ONE tree `t'` such that
    listing the declarations of `t'` gives, in the same order and number, the new value for every declaration named by
    the dictionary and the source's row for every other one (`expectedView`), and `t'` has the source tree's nodes in
    place, everything that is not a declaration identical. -/
theorem update_content_member {β : Type} (X : XmlLayer β) (p : Package) (data : Data) (w : Written β)
    (h : updatePkg X p data = some (.ok w)) :
    ∃ t', (⟨sContent, .deflated, [], .xml (X.ser .content t')⟩ : Member β) ∈ w.members ∧
      (⟨sStyles, .deflated, [], .xml (X.ser .styles t')⟩ : Member β) ∈ w.members ∧
      (⟨sMeta, .deflated, [], .xml (X.ser .metadata t')⟩ : Member β) ∈ w.members ∧
      listFields (fieldsOf t') = (fieldsOf (X.rootTree p)).map (expectedView data) ∧
      All2 (ItemRel data) (X.rootTree p) t' := by
  obtain ⟨d, t', hl, hu, hw⟩ := updatePkg_ok X p data w h
  subst hw
  obtain ⟨hid, _⟩ := load_ids p d hl
  cases d with
  | mk id mt hs pics th ex fo kids =>
    simp only at hid
    subst hid
    refine ⟨t', ?_, ?_, ?_, C19.update_sets data _ _ (C19.fieldsOf_updateDoc data _ _ hu), C19.updateDoc_frame data _ _ hu⟩
    · simp only [write, List.mem_map]
      exact ⟨⟨sContent, .deflated, [], .part .content 0⟩, by simp [save, saveXml, xmlPart], by simp [member, resolve, bodies]⟩
    · simp only [write, List.mem_map]
      exact ⟨⟨sStyles, .deflated, [], .part .styles 0⟩, by simp [save, saveXml, xmlPart], by simp [member, resolve, bodies]⟩
    · simp only [write, List.mem_map]
      exact ⟨⟨sMeta, .deflated, [], .part .metadata 0⟩, by simp [save, saveXml, xmlPart], by simp [member, resolve, bodies]⟩

/-- **C19 (`list_readonly_pkg`)**: listing computes its rows from the loaded source and produces no package: source
    and destination are what they were (the method has no `savedoc()`; tied to the code by hashing the source bytes and
    the destination before and after, harness/c19.py) -/
theorem list_readonly_pkg {β : Type} (X : XmlLayer β) (s : PkgState β) :
    (listPkg X s).2 = s ∧
    (listPkg X s).1 = (load s.src).map (fun _ => listFields (fieldsOf (X.rootTree s.src))) := ⟨rfl, rfl⟩

/-- a converter that refuses a value leaves nothing written: the result carries no package -/
theorem update_error_writes_nothing {β : Type} (X : XmlLayer β) (p : Package) (data : Data) (e : Err)
    (h : updateDoc data (X.rootTree p) = .error e) :
    updatePkg X p data = (load p).map (fun _ => .error e) := by
  unfold updatePkg
  rw [h]

/-! ### the hypotheses are satisfiable: a package with a thumbnail, a picture, extras and nested embedded objects -/

/-- a date declaration (with a stale office:value) and a string declaration between other nodes -/
def sampleTree : UDoc :=
  [.other 1, .field ⟨[(0, [100]), (1, [100, 97, 116, 101]), (3, [49]), (2, [57])]⟩, .other 2,
   .field ⟨[(0, [115]), (1, [115, 116, 114, 105, 110, 103]), (6, [120])]⟩]

/-- the nodes that are not declarations -/
def othersOnly : UDoc → UDoc
  | [] => []
  | .other x :: r => .other x :: othersOnly r
  | .field _ :: r => othersOnly r

/-- a transparent XML layer: content.xml is (content, whole tree); the other parts of the root hold no declarations;
    a sub-document's part names its owner -/
def sampleLayer : XmlLayer (PartKind × UDoc) :=
  ⟨fun _ => sampleTree, fun k t => (k, if k = .content then t else othersOnly t), fun _ k i => (k, [.other i])⟩

theorem othersOnly_rel (data : Data) (t t' : UDoc) (h : All2 (ItemRel data) t t') : othersOnly t' = othersOnly t := by
  induction h with
  | nil => rfl
  | @cons a b as bs hab _ ih =>
    cases a <;> cases b <;> simp only [ItemRel] at hab
    · simp only [othersOnly, ih]
    · subst hab; simp only [othersOnly, ih]

/-- the hypothesis of `update_members_frame_content_only` holds for the sample layer, whatever the dictionary -/
theorem sampleLayer_blind (data : Data) (p : Package) :
    ∀ k, k ≠ PartKind.content → ∀ t', All2 (ItemRel data) (sampleLayer.rootTree p) t' →
      sampleLayer.ser k t' = sampleLayer.ser k (sampleLayer.rootTree p) := by
  intro k hk t' h
  simp only [sampleLayer, hk, if_false, othersOnly_rel data _ _ h]

/-- updating the date field `d` (and an undeclared name) -/
def sampleData : Data := [([100], [50]), ([122], [51])]

/-- `C03.samplePackage` (thumbnail, "Pictures/a", "Object 7/" with a picture, a file, a meta.xml and an object of its
    own, "Object 5/y", "x/y", "x/") loads and the update succeeds; the output is NOT the plain load+save; the manifests
    are equal; the only place where the member lists differ is content.xml; the content.xml of the nested object
    "Object 7/Object 1/" is the part of the sub-document with id 12, and "Pictures/a" holds the source's byte -/
example :
    (match plainPkg sampleLayer C03.samplePackage, updatePkg sampleLayer C03.samplePackage sampleData with
     | some w0, some (.ok w) =>
        (decide (w.members = w0.members), decide (w.manifest = w0.manifest),
         (List.zip w0.members w.members).filterMap (fun x => if x.1 = x.2 then none else some x.2.name),
         w.members.any (fun m => m.name == objPrefix 7 ++ objPrefix 1 ++ sContent
            && decide (m.body = .xml (PartKind.content, [.other 12]))),
         w.members.any (fun m => m.name == sPictures ++ [97] && decide (m.body = .bytes [1])))
     | _, _ => (true, false, [], false, false))
    = (false, true, [sContent], true, true) := by
  decide +kernel

/-- the member names of that output, in writing order -/
example :
    (match updatePkg sampleLayer C03.samplePackage sampleData with
     | some (.ok w) => w.members.map (·.name)
     | _ => [])
    = [sMimetype, sStyles, sContent, sMeta, objPrefix 7 ++ sStyles, objPrefix 7 ++ sContent,
       objPrefix 7 ++ objPrefix 1 ++ sStyles, objPrefix 7 ++ objPrefix 1 ++ sContent,
       sPictures ++ [97], objPrefix 7 ++ sPictures ++ [98], sThumb, objPrefix 5 ++ [121], [120, 47, 121],
       objPrefix 7 ++ [120], objPrefix 7 ++ sMeta, sManifestPath] := by
  decide +kernel

/-- a value the boolean converter refuses: nothing is written -/
example :
    let X : XmlLayer (PartKind × UDoc) :=
      ⟨fun _ => [.field ⟨[(0, [98]), (1, [98, 111, 111, 108, 101, 97, 110]), (5, [116, 114, 117, 101])]⟩],
       fun k t => (k, t), fun _ k i => (k, [.other i])⟩
    updatePkg X C03.samplePackage [([98], [109, 97, 121, 98, 101])] = (load C03.samplePackage).map (fun _ => .error .valueError) :=
  update_error_writes_nothing _ _ _ _ rfl

end OdfModel.Props.C19Pkg

/-
  Property C08 — the node tree stays structurally consistent under any sequence of edits.

  `Inv h` is the consistency of the property text, stated on the heap of `OdfModel.Dom`:
  child lists without repetition; `c ∈ kids p ↔ parent c = some p` (so every node has at most
  one parent and is listed exactly once, under that parent); previous/next links agree with the
  order of the child list (`Linked`; first/last child are the ends of the list); a detached node
  has no siblings; text and CDATA nodes have no children.

  Every operation preserves `Inv` (`inv_step`), hence every heap reachable from the empty one by
  an edit history of any length satisfies it (`inv_reachable`).  The closed forms of the
  mutators come from Props/C07.lean.

  About "excluding the insertion of a node into its own descendant": `Inv` is a local
  (per-node) consistency and is preserved even by such calls, so `inv_step` needs no such
  hypothesis; the hypothesis is what keeps the structure a forest, see `acyclic_step`.
-/
import OdfModel.Props.C07
namespace OdfModel.Props.C08
open OdfModel.Dom OdfModel.Props.C07

/-! ### sibling links agree with list order -/

/-- the previous/next links of the nodes of `l` agree with the order of `l`;
    `pr` is the node before the segment, `nx` the node after it -/
def Linked (h : Heap) : Option Id → List Id → Option Id → Prop
  | _, [], _ => True
  | pr, x :: r, nx => (h x).prev = pr ∧ (h x).next = (r.head?.or nx) ∧ Linked h (some x) r nx

theorem Linked.congr {h h' : Heap} {pr l nx} (hl : Linked h pr l nx)
    (heq : ∀ x ∈ l, (h' x).prev = (h x).prev ∧ (h' x).next = (h x).next) : Linked h' pr l nx := by
  induction l generalizing pr with
  | nil => trivial
  | cons x r ih =>
    obtain ⟨h1, h2, h3⟩ := hl
    have hx := heq x (by simp)
    refine ⟨by rw [hx.1, h1], by rw [hx.2, h2], ih h3 ?_⟩
    intro y hy; exact heq y (by simp [hy])

theorem getLast?_cons_some (y : Id) (r : List Id) : ∃ z, (y :: r).getLast? = some z := by
  induction r generalizing y with
  | nil => exact ⟨y, rfl⟩
  | cons a r ih => obtain ⟨z, hz⟩ := ih a; exact ⟨z, by simpa [List.getLast?_cons_cons] using hz⟩

theorem Linked.append {h : Heap} {pr l1 l2 nx} :
    Linked h pr (l1 ++ l2) nx ↔ Linked h pr l1 (l2.head?.or nx) ∧ Linked h (l1.getLast?.or pr) l2 nx := by
  induction l1 generalizing pr with
  | nil => simp [Linked]
  | cons x r ih =>
    simp only [List.cons_append, Linked]
    rw [ih]
    cases r with
    | nil => simp [Linked, and_assoc]
    | cons y r' =>
      obtain ⟨z, hz⟩ := getLast?_cons_some y r'
      simp [Linked, and_assoc, hz]

/-- nodes of `l` keep prev/next except that the head's prev becomes `pr'` -/
theorem Linked.replace_head {h h' : Heap} {pr pr' l nx} (hl : Linked h pr l nx) (hnd : l.Nodup)
    (hhead : ∀ x, l.head? = some x → (h' x).prev = pr' ∧ (h' x).next = (h x).next)
    (hrest : ∀ x ∈ l, l.head? ≠ some x → (h' x).prev = (h x).prev ∧ (h' x).next = (h x).next) :
    Linked h' pr' l nx := by
  cases l with
  | nil => trivial
  | cons a r =>
    obtain ⟨h1, h2, h3⟩ := hl
    have ha := hhead a rfl
    refine ⟨ha.1, by rw [ha.2, h2], Linked.congr h3 ?_⟩
    intro x hx
    have hxa : x ≠ a := by
      intro e; subst e
      exact (List.nodup_cons.mp hnd).1 hx
    exact hrest x (by simp [hx]) (by simp [hxa.symm])

/-- nodes of `l` keep prev/next except that the last one's next becomes `nx'` -/
theorem Linked.replace_last {h h' : Heap} {pr l nx nx'} (hl : Linked h pr l nx) (hnd : l.Nodup)
    (hlast : ∀ x, l.getLast? = some x → (h' x).next = nx' ∧ (h' x).prev = (h x).prev)
    (hrest : ∀ x ∈ l, l.getLast? ≠ some x → (h' x).prev = (h x).prev ∧ (h' x).next = (h x).next) :
    Linked h' pr l nx' := by
  induction l generalizing pr with
  | nil => trivial
  | cons a r ih =>
    obtain ⟨h1, h2, h3⟩ := hl
    cases r with
    | nil =>
      have ha := hlast a rfl
      exact ⟨by rw [ha.2, h1], by simpa using ha.1, trivial⟩
    | cons b r' =>
      have hnd' := (List.nodup_cons.mp hnd)
      have hane : (a :: b :: r').getLast? ≠ some a := by
        intro e
        have : a ∈ (b :: r') :=
          List.mem_of_getLast? (l := b :: r') (a := a) (by simpa [List.getLast?_cons_cons] using e)
        exact hnd'.1 this
      have ha := hrest a (by simp) hane
      refine ⟨by rw [ha.1, h1], by rw [ha.2, h2]; simp, ih h3 hnd'.2 ?_ ?_⟩
      · intro x hx; exact hlast x (by simpa [List.getLast?_cons_cons] using hx)
      · intro x hx hne
        exact hrest x (List.mem_cons_of_mem _ hx) (by simpa [List.getLast?_cons_cons] using hne)

/-! ### the invariant -/

/-- **the structural consistency of the property text** -/
structure Inv (h : Heap) : Prop where
  /-- no node is listed twice among the children of a node -/
  nodup : ∀ p, (h p).kids.Nodup
  /-- a node is listed among the children of `p` exactly when `p` is its parent (at most one parent) -/
  parent_iff : ∀ p c, c ∈ (h p).kids ↔ (h c).parent = some p
  /-- previous/next (and so first/last) agree with the order of the child list -/
  linked : ∀ p, Linked h none (h p).kids none
  /-- a detached node has no siblings -/
  detached : ∀ c, (h c).parent = none → (h c).prev = none ∧ (h c).next = none
  /-- text and CDATA nodes have no children -/
  childless : ∀ n, (h n).kind ≠ .elem → (h n).kids = []

theorem erase_mid (l1 l2 : List Id) (c : Id) (h : c ∉ l1) : (l1 ++ c :: l2).erase c = l1 ++ l2 := by
  induction l1 with
  | nil => simp
  | cons a r ih =>
    have hne : a ≠ c := fun e => h (by simp [e])
    have hr : c ∉ r := fun e => h (by simp [e])
    simp [hne, ih hr]

/-- the parent of a node is an element -/
theorem Inv.parent_elem {h : Heap} (hI : Inv h) {c p : Id} (hp : (h c).parent = some p) :
    (h p).kind = .elem := by
  have hc : c ∈ (h p).kids := (hI.parent_iff p c).mpr hp
  by_cases hk : (h p).kind = .elem
  · exact hk
  · rw [hI.childless p hk] at hc; cases hc

/-- under the invariant the detaching statement never raises -/
theorem Inv.detachOk {h : Heap} (hI : Inv h) (c : Id) : DetachOk h c := by
  intro q hq
  exact ⟨hI.parent_elem hq, (hI.parent_iff q c).mpr hq⟩

/-! ### removal preserves the invariant -/

theorem rm_inv {h : Heap} {p c : Id} (hI : Inv h) (hc : c ∈ (h p).kids) : Inv (rmHeap h p c) := by
  have hk := rmHeap_kids h p c
  have hpar := rmHeap_parent h p c
  have hprev := rmHeap_prev h p c
  have hnext := rmHeap_next h p c
  have hkind := rmHeap_kind h p c
  generalize rmHeap h p c = h' at *
  obtain ⟨l1, l2, hsplit⟩ := List.append_of_mem hc
  have hnd := hI.nodup p
  rw [hsplit] at hnd
  have hnd1 : l1.Nodup := (List.nodup_append.mp hnd).1
  have hnd2' : (c :: l2).Nodup := (List.nodup_append.mp hnd).2.1
  have hnd2 : l2.Nodup := (List.nodup_cons.mp hnd2').2
  have hc2 : c ∉ l2 := (List.nodup_cons.mp hnd2').1
  have hdisj : ∀ a ∈ l1, ∀ b ∈ (c :: l2), a ≠ b := (List.nodup_append.mp hnd).2.2
  have hc1 : c ∉ l1 := fun hm => hdisj c hm c (by simp) rfl
  have hd12 : ∀ a ∈ l1, a ∉ l2 := fun a ha hb => hdisj a ha a (by simp [hb]) rfl
  have herase : (h p).kids.erase c = l1 ++ l2 := by rw [hsplit]; exact erase_mid l1 l2 c hc1
  have hlk := hI.linked p
  rw [hsplit] at hlk
  obtain ⟨hA, hB⟩ := Linked.append.mp hlk
  simp only [List.head?_cons] at hA
  obtain ⟨hpc, hnc, hC⟩ := hB
  simp only [Option.or_none] at hpc hnc
  have hparent_c : (h c).parent = some p := (hI.parent_iff p c).mp hc
  have hmem_p : ∀ x, x ∈ l1 ∨ x ∈ l2 → (h x).parent = some p := by
    intro x hx
    apply (hI.parent_iff p x).mp
    rw [hsplit]; rcases hx with hx | hx <;> simp [hx]
  have hne_c : ∀ x, x ∈ l1 ∨ x ∈ l2 → x ≠ c := by
    intro x hx e; subst e; rcases hx with hx | hx
    · exact hc1 hx
    · exact hc2 hx
  have hnext_mem : ∀ n, (h c).next = some n → n ∈ l2 := by
    intro n hn; rw [hnc] at hn; exact List.mem_of_mem_head? hn
  have hprev_mem : ∀ z, (h c).prev = some z → z ∈ l1 := by
    intro z hz; rw [hpc] at hz; exact List.mem_of_getLast? hz
  refine ⟨?_, ?_, ?_, ?_, ?_⟩
  · intro q; rw [hk]; split
    · exact (hI.nodup p).erase c
    · exact hI.nodup q
  · intro q x
    rw [hk, hpar]
    by_cases hq : q = p
    · subst hq
      simp only [if_true]
      rw [(hI.nodup q).mem_erase_iff, hI.parent_iff q x]
      by_cases hx : x = c
      · subst hx; simp
      · simp [hx]
    · simp only [hq, if_false]
      rw [hI.parent_iff q x]
      by_cases hx : x = c
      · subst hx; simp [hparent_c]; exact fun e => hq e.symm
      · simp [hx]
  · intro q
    rw [hk]
    by_cases hq : q = p
    · subst hq
      simp only [if_true, herase]
      apply Linked.append.mpr
      constructor
      · simp only [Option.or_none]
        apply Linked.replace_last hA hnd1
        · intro x hx
          have hxl1 : x ∈ l1 := List.mem_of_getLast? hx
          have hxc := hne_c x (Or.inl hxl1)
          rw [hnext, hprev]
          have h1 : (some x = (h c).prev) := by rw [hpc, hx]
          have h2 : ¬ (some x = (h c).next) := by
            intro e; exact hd12 x hxl1 (hnext_mem x e.symm)
          rw [if_neg hxc, if_neg hxc, if_pos h1, if_neg h2]
          exact ⟨hnc, rfl⟩
        · intro x hx hne
          have hxc := hne_c x (Or.inl hx)
          rw [hnext, hprev]
          have h1 : ¬ (some x = (h c).prev) := by rw [hpc]; exact fun e => hne e.symm
          have h2 : ¬ (some x = (h c).next) := by
            intro e; exact hd12 x hx (hnext_mem x e.symm)
          simp [hxc, h1, h2]
      · simp only [Option.or_none]
        apply Linked.replace_head hC hnd2
        · intro x hx
          have hxl2 : x ∈ l2 := List.mem_of_mem_head? hx
          have hxc := hne_c x (Or.inr hxl2)
          rw [hnext, hprev]
          have h1 : (some x = (h c).next) := by rw [hnc, hx]
          have h2 : ¬ (some x = (h c).prev) := by
            intro e; exact hd12 x (hprev_mem x e.symm) hxl2
          rw [if_neg hxc, if_neg hxc, if_pos h1, if_neg h2]
          exact ⟨hpc, rfl⟩
        · intro x hx hne
          have hxc := hne_c x (Or.inr hx)
          rw [hnext, hprev]
          have h1 : ¬ (some x = (h c).next) := by rw [hnc]; exact fun e => hne e.symm
          have h2 : ¬ (some x = (h c).prev) := by
            intro e; exact hd12 x (hprev_mem x e.symm) hx
          simp [hxc, h1, h2]
    · simp only [hq, if_false]
      apply Linked.congr (hI.linked q)
      intro x hx
      have hxq : (h x).parent = some q := (hI.parent_iff q x).mp hx
      have hxc : x ≠ c := by intro e; subst e; rw [hparent_c] at hxq; exact hq (Option.some.inj hxq).symm
      have h1 : ¬ (some x = (h c).next) := by
        intro e
        have := hmem_p x (Or.inr (hnext_mem x e.symm))
        rw [this] at hxq; exact hq (Option.some.inj hxq).symm
      have h2 : ¬ (some x = (h c).prev) := by
        intro e
        have := hmem_p x (Or.inl (hprev_mem x e.symm))
        rw [this] at hxq; exact hq (Option.some.inj hxq).symm
      rw [hnext, hprev]; simp [hxc, h1, h2]
  · intro x hx
    rw [hpar] at hx
    rw [hprev, hnext]
    by_cases hxc : x = c
    · simp [hxc]
    · simp only [hxc, if_false] at hx ⊢
      have h1 : ¬ (some x = (h c).next) := by
        intro e
        have := hmem_p x (Or.inr (hnext_mem x e.symm))
        rw [this] at hx; cases hx
      have h2 : ¬ (some x = (h c).prev) := by
        intro e
        have := hmem_p x (Or.inl (hprev_mem x e.symm))
        rw [this] at hx; cases hx
      simp [h1, h2, hI.detached x hx]
  · intro q hq
    rw [hkind] at hq
    rw [hk, hI.childless q hq]
    split
    · rename_i e; rw [← e, hI.childless q hq]; rfl
    · rfl

/-! ### attaching a detached node preserves the invariant -/

/-- A detached node `n` is put between the segments `l1` and `l2` of the child list of the element
    `p`; the heap `h'` is described field by field.  Both `appendChild` (`l2 = []`) and
    `insertBefore` (`l2 = ref :: …`) are instances. -/
theorem attach_inv {h h' : Heap} {p n : Id} {l1 l2 : List Id} (hI : Inv h)
    (hkp : (h p).kind = .elem) (hsplit : (h p).kids = l1 ++ l2) (hdet : (h n).parent = none)
    (hkind : ∀ q, (h' q).kind = (h q).kind)
    (hk : ∀ q, (h' q).kids = if q = p then l1 ++ n :: l2 else (h q).kids)
    (hpar : ∀ q, (h' q).parent = if q = n then some p else (h q).parent)
    (hprev : ∀ q, (h' q).prev = if q = n then l1.getLast? else if some q = l2.head? then some n else (h q).prev)
    (hnext : ∀ q, (h' q).next = if q = n then l2.head? else if some q = l1.getLast? then some n else (h q).next) :
    Inv h' := by
  have hn_nowhere : ∀ q, n ∉ (h q).kids := by
    intro q hq; have := (hI.parent_iff q n).mp hq; rw [hdet] at this; cases this
  have hnd := hI.nodup p
  rw [hsplit] at hnd
  have hnd1 : l1.Nodup := (List.nodup_append.mp hnd).1
  have hnd2 : l2.Nodup := (List.nodup_append.mp hnd).2.1
  have hd12 : ∀ a ∈ l1, a ∉ l2 := fun a ha hb => (List.nodup_append.mp hnd).2.2 a ha a hb rfl
  have hn1 : n ∉ l1 := fun hm => hn_nowhere p (by rw [hsplit]; simp [hm])
  have hn2 : n ∉ l2 := fun hm => hn_nowhere p (by rw [hsplit]; simp [hm])
  have hmem_p : ∀ x, x ∈ l1 ∨ x ∈ l2 → (h x).parent = some p := by
    intro x hx
    apply (hI.parent_iff p x).mp
    rw [hsplit]; rcases hx with hx | hx <;> simp [hx]
  have hlk := hI.linked p
  rw [hsplit] at hlk
  obtain ⟨hA, hB⟩ := Linked.append.mp hlk
  simp only [Option.or_none] at hA hB
  have hlast_mem : ∀ x, some x = l1.getLast? → x ∈ l1 := fun x hx => List.mem_of_getLast? hx.symm
  have hhead_mem : ∀ x, some x = l2.head? → x ∈ l2 := fun x hx => List.mem_of_mem_head? hx.symm
  refine ⟨?_, ?_, ?_, ?_, ?_⟩
  · -- nodup
    intro q; rw [hk]; split
    · rw [List.nodup_append]
      refine ⟨hnd1, List.nodup_cons.mpr ⟨hn2, hnd2⟩, ?_⟩
      intro a ha b hb e
      rcases List.mem_cons.mp hb with hb | hb
      · subst e; subst hb; exact hn1 ha
      · subst e; exact hd12 a ha hb
    · exact hI.nodup q
  · -- parent_iff
    intro q x
    rw [hk, hpar]
    by_cases hq : q = p
    · subst hq
      simp only [if_true]
      by_cases hx : x = n
      · subst hx; simp
      · simp only [hx, if_false]
        rw [← hI.parent_iff q x, hsplit]
        simp [hx]
    · simp only [hq, if_false]
      by_cases hx : x = n
      · subst hx
        simp only [if_true]
        constructor
        · intro hm; exact absurd hm (hn_nowhere q)
        · intro e; exact absurd (Option.some.inj e).symm hq
      · simp only [hx, if_false]; exact hI.parent_iff q x
  · -- linked
    intro q
    rw [hk]
    by_cases hq : q = p
    · subst hq
      simp only [if_true]
      apply Linked.append.mpr
      constructor
      · simp only [List.head?_cons]
        apply Linked.replace_last hA hnd1
        · intro x hx
          have hxl1 : x ∈ l1 := List.mem_of_getLast? hx
          have hxn : x ≠ n := fun e => hn1 (e ▸ hxl1)
          have h2 : ¬ (some x = l2.head?) := fun e => hd12 x hxl1 (hhead_mem x e)
          rw [hnext, hprev]
          simp [hxn, hx, h2]
        · intro x hx hne
          have hxn : x ≠ n := fun e => hn1 (e ▸ hx)
          have h1 : ¬ (some x = l1.getLast?) := fun e => hne e.symm
          have h2 : ¬ (some x = l2.head?) := fun e => hd12 x hx (hhead_mem x e)
          rw [hnext, hprev]
          simp [hxn, h1, h2]
      · simp only [Option.or_none]
        refine ⟨by rw [hprev]; simp, by rw [hnext]; simp, ?_⟩
        apply Linked.replace_head hB hnd2
        · intro x hx
          have hxl2 : x ∈ l2 := List.mem_of_mem_head? hx
          have hxn : x ≠ n := fun e => hn2 (e ▸ hxl2)
          have h1 : ¬ (some x = l1.getLast?) := fun e => hd12 x (hlast_mem x e) hxl2
          rw [hnext, hprev]
          simp [hxn, hx, h1]
        · intro x hx hne
          have hxn : x ≠ n := fun e => hn2 (e ▸ hx)
          have h1 : ¬ (some x = l1.getLast?) := fun e => hd12 x (hlast_mem x e) hx
          have h2 : ¬ (some x = l2.head?) := fun e => hne e.symm
          rw [hnext, hprev]
          simp [hxn, h1, h2]
    · simp only [hq, if_false]
      apply Linked.congr (hI.linked q)
      intro x hx
      have hxq : (h x).parent = some q := (hI.parent_iff q x).mp hx
      have hxn : x ≠ n := fun e => hn_nowhere q (e ▸ hx)
      have h1 : ¬ (some x = l1.getLast?) := by
        intro e
        have := hmem_p x (Or.inl (hlast_mem x e))
        rw [this] at hxq; exact hq (Option.some.inj hxq).symm
      have h2 : ¬ (some x = l2.head?) := by
        intro e
        have := hmem_p x (Or.inr (hhead_mem x e))
        rw [this] at hxq; exact hq (Option.some.inj hxq).symm
      rw [hnext, hprev]; simp [hxn, h1, h2]
  · -- detached
    intro x hx
    rw [hpar] at hx
    by_cases hxn : x = n
    · simp [hxn] at hx
    · simp only [hxn, if_false] at hx
      have h1 : ¬ (some x = l1.getLast?) := by
        intro e
        have := hmem_p x (Or.inl (hlast_mem x e))
        rw [this] at hx; cases hx
      have h2 : ¬ (some x = l2.head?) := by
        intro e
        have := hmem_p x (Or.inr (hhead_mem x e))
        rw [this] at hx; cases hx
      rw [hprev, hnext]
      simp [hxn, h1, h2, hI.detached x hx]
  · -- childless
    intro q hq
    rw [hkind] at hq
    rw [hk]
    split
    · rename_i e; subst e; exact absurd hkp hq
    · exact hI.childless q hq

/-! ### field-by-field description of the append / insert heaps -/

section appRaw
variable (h : Heap) (p c q : Id)

theorem app_kind : (setNext (appRawHeap h p c) c none q).kind = (h q).kind := by
  unfold appRawHeap; cases (h p).kids.getLast? <;> simp
theorem app_kids : (setNext (appRawHeap h p c) c none q).kids =
    if q = p then (h p).kids ++ [c] else (h q).kids := by
  unfold appRawHeap; cases (h p).kids.getLast? <;> simp
theorem app_parent : (setNext (appRawHeap h p c) c none q).parent =
    if q = c then some p else (h q).parent := by
  unfold appRawHeap; cases (h p).kids.getLast? <;> simp
theorem app_prev (hdet : (h c).prev = none) : (setNext (appRawHeap h p c) c none q).prev =
    if q = c then (h p).kids.getLast? else (h q).prev := by
  unfold appRawHeap; cases hl : (h p).kids.getLast? <;> simp
  intro e; subst e; exact hdet
theorem app_next : (setNext (appRawHeap h p c) c none q).next =
    if q = c then none else if some q = (h p).kids.getLast? then some c else (h q).next := by
  unfold appRawHeap; cases hl : (h p).kids.getLast? <;> simp
end appRaw

theorem idxOf_split (l1 l2 : List Id) (r : Id) (hr : r ∉ l1) : (l1 ++ r :: l2).idxOf r = l1.length := by
  rw [List.idxOf_append]; simp [hr]

theorem insertIdx_split (l1 l2 : List Id) (n : Id) : (l1 ++ l2).insertIdx l1.length n = l1 ++ n :: l2 := by
  induction l1 with
  | nil => simp
  | cons a l ih => simp [ih]

theorem getElem?_pred_length (l1 l2 : List Id) (hne : l1.length ≠ 0) :
    (l1 ++ l2)[l1.length - 1]? = l1.getLast? := by
  rw [List.getElem?_append_left (by omega), List.getLast?_eq_getElem?]

section ins
variable (h : Heap) (p n r q : Id) (l1 l2 : List Id)
variable (hsplit : (h p).kids = l1 ++ r :: l2) (hr : r ∉ l1)
include hsplit hr

theorem ins_kind : (insHeap h p n r q).kind = (h q).kind := by
  unfold insHeap linkPrevHeap
  simp only [hsplit, idxOf_split l1 l2 r hr]
  split
  · simp
  · split <;> simp
theorem ins_kids : (insHeap h p n r q).kids = if q = p then l1 ++ n :: r :: l2 else (h q).kids := by
  unfold insHeap linkPrevHeap
  simp only [hsplit, idxOf_split l1 l2 r hr, insertIdx_split]
  split
  · simp
  · split <;> simp
theorem ins_parent : (insHeap h p n r q).parent = if q = n then some p else (h q).parent := by
  unfold insHeap linkPrevHeap
  simp only [hsplit, idxOf_split l1 l2 r hr]
  split
  · simp
  · split <;> simp
theorem ins_prev : (insHeap h p n r q).prev =
    if q = n then l1.getLast? else if q = r then some n else (h q).prev := by
  unfold insHeap linkPrevHeap
  simp only [hsplit, idxOf_split l1 l2 r hr, insertIdx_split]
  by_cases h0 : l1.length = 0
  · have : l1 = [] := List.eq_nil_of_length_eq_zero h0
    subst this; simp
  · simp only [h0, if_false]
    have hkp : ((setPrev (setNext (setKids h p (l1 ++ n :: r :: l2)) n (some r)) r (some n)) p).kids
        = l1 ++ n :: r :: l2 := by simp
    rw [hkp, getElem?_pred_length l1 _ h0]
    cases hl : l1.getLast? with
    | none => simp [List.getLast?_eq_none_iff] at hl; subst hl; simp at h0
    | some node => simp
theorem ins_next (hn : n ∉ l1) : (insHeap h p n r q).next =
    if q = n then some r else if some q = l1.getLast? then some n else (h q).next := by
  unfold insHeap linkPrevHeap
  simp only [hsplit, idxOf_split l1 l2 r hr, insertIdx_split]
  by_cases h0 : l1.length = 0
  · have : l1 = [] := List.eq_nil_of_length_eq_zero h0
    subst this; simp
  · simp only [h0, if_false]
    have hkp : ((setPrev (setNext (setKids h p (l1 ++ n :: r :: l2)) n (some r)) r (some n)) p).kids
        = l1 ++ n :: r :: l2 := by simp
    rw [hkp, getElem?_pred_length l1 _ h0]
    cases hl : l1.getLast? with
    | none => simp [List.getLast?_eq_none_iff] at hl; subst hl; simp at h0
    | some node =>
      have hnode : node ≠ n := fun e => hn (e ▸ List.mem_of_getLast? hl)
      simp
      by_cases hq : q = n
      · subst hq; simp [Ne.symm hnode]
      · simp [hq]
end ins

/-! ### the three mutators preserve the invariant -/

theorem detach_inv {h : Heap} (hI : Inv h) (c : Id) : Inv (detach h c) := by
  unfold detach
  split
  · rename_i q hq; exact rm_inv hI ((hI.parent_iff q c).mpr hq)
  · exact hI

theorem app_inv {h : Heap} {p c : Id} (hI : Inv h) (hkp : (h p).kind = .elem) (hdet : (h c).parent = none) :
    Inv (setNext (appRawHeap h p c) c none) := by
  have hpn := (hI.detached c hdet).1
  apply attach_inv (l1 := (h p).kids) (l2 := []) hI hkp (by simp) hdet
  · intro q; exact app_kind h p c q
  · intro q; rw [app_kids]
  · intro q; exact app_parent h p c q
  · intro q; rw [app_prev h p c q hpn]; simp
  · intro q; rw [app_next]; simp

theorem ins_inv {h : Heap} {p n r : Id} (hI : Inv h) (hkp : (h p).kind = .elem) (hr : r ∈ (h p).kids)
    (hdet : (h n).parent = none) : Inv (insHeap h p n r) := by
  obtain ⟨l1, l2, hsplit⟩ := List.append_of_mem hr
  have hnd := hI.nodup p
  rw [hsplit] at hnd
  have hr1 : r ∉ l1 := fun hm => (List.nodup_append.mp hnd).2.2 r hm r (by simp) rfl
  have hn_nowhere : n ∉ (h p).kids := by
    intro hq; have := (hI.parent_iff p n).mp hq; rw [hdet] at this; cases this
  have hn1 : n ∉ l1 := fun hm => hn_nowhere (by rw [hsplit]; simp [hm])
  have hnr : n ≠ r := fun e => hn_nowhere (by rw [hsplit, e]; simp)
  apply attach_inv (l1 := l1) (l2 := r :: l2) hI hkp hsplit hdet
  · intro q; exact ins_kind h p n r q l1 l2 hsplit hr1
  · intro q; exact ins_kids h p n r q l1 l2 hsplit hr1
  · intro q; exact ins_parent h p n r q l1 l2 hsplit hr1
  · intro q; rw [ins_prev h p n r q l1 l2 hsplit hr1]
    by_cases hq : q = n
    · simp [hq]
    · simp only [hq, if_false, List.head?_cons, Option.some.injEq]
  · intro q; rw [ins_next h p n r q l1 l2 hsplit hr1 hn1]; simp

/-- **C08 (removeChild keeps the tree consistent)**, whether it succeeds or raises -/
theorem removeChild_inv {h : Heap} (hI : Inv h) (p c : Id) : Inv ((removeChild p c).run h).1 := by
  rw [removeChild_run]
  split
  · rename_i hc; exact rm_inv hI hc.2
  · exact hI

/-- **C08 (appendChild keeps the tree consistent)**, also when the child is moved from another
    place (or from another position under the same parent) -/
theorem appendChild_inv {h : Heap} (hI : Inv h) (p c : Id) : Inv ((appendChild p c).run h).1 := by
  rw [appendChild_run]
  split
  · exact hI
  · rename_i hk
    have hk' : (h p).kind = .elem := Classical.not_not.mp hk
    simp only [hI.detachOk c, if_true]
    exact app_inv (detach_inv hI c) (by simpa using hk') (detach_parent_self h c)

/-- **C08 (insertBefore keeps the tree consistent)** -/
theorem insertBefore_inv {h : Heap} (hI : Inv h) (p n : Id) (ref : Option Id) :
    Inv ((insertBefore p n ref).run h).1 := by
  rw [insertBefore_run]
  split
  · exact hI
  · rename_i hk
    have hk' : (h p).kind = .elem := Classical.not_not.mp hk
    split
    · exact hI
    · rename_i hro
      have hro' : RefOk h p ref := Classical.not_not.mp hro
      split
      · exact hI
      · rename_i hne
        simp only [hI.detachOk n, not_true, if_false]
        cases ref with
        | none => exact app_inv (detach_inv hI n) (by simpa using hk') (detach_parent_self h n)
        | some r =>
          have hr : r ∈ (h p).kids := hro' r rfl
          have hrn : r ≠ n := fun e => hne (by rw [e])
          exact ins_inv (detach_inv hI n) (by simpa using hk') (mem_kids_detach h n p r hr hrn)
            (detach_parent_self h n)

/-! ### object creation, the wrappers, attribute calls -/

/-- a heap with the same links satisfies the invariant too -/
theorem inv_of_same_links {h h' : Heap} (hI : Inv h)
    (hk : ∀ q, (h' q).kids = (h q).kids) (hpar : ∀ q, (h' q).parent = (h q).parent)
    (hprev : ∀ q, (h' q).prev = (h q).prev) (hnext : ∀ q, (h' q).next = (h q).next)
    (hch : ∀ q, (h' q).kind ≠ .elem → (h q).kids = []) : Inv h' := by
  refine ⟨?_, ?_, ?_, ?_, ?_⟩
  · intro q; rw [hk]; exact hI.nodup q
  · intro q x; rw [hk, hpar]; exact hI.parent_iff q x
  · intro q; rw [hk]; exact Linked.congr (hI.linked q) (fun x _ => ⟨hprev x, hnext x⟩)
  · intro x; rw [hpar, hprev, hnext]; exact hI.detached x
  · intro q hq; rw [hk]; exact hch q hq

theorem initNode_inv {h : Heap} (hI : Inv h) {i : Id} (hb : Blank h i) (k : Kind) (qn : Nat) :
    Inv (h.set i { kind := k, qn := qn }) := by
  obtain ⟨hp, hkids⟩ := hb
  have hd := hI.detached i hp
  apply inv_of_same_links hI
  · intro q; rw [Heap.set_apply]; split
    · rename_i e; subst e; exact hkids.symm
    · rfl
  · intro q; rw [Heap.set_apply]; split
    · rename_i e; subst e; exact hp.symm
    · rfl
  · intro q; rw [Heap.set_apply]; split
    · rename_i e; subst e; exact hd.1.symm
    · rfl
  · intro q; rw [Heap.set_apply]; split
    · rename_i e; subst e; exact hd.2.symm
    · rfl
  · intro q; rw [Heap.set_apply]; split
    · rename_i e; subst e; intro _; exact hkids
    · exact hI.childless q

theorem setAttrs_inv {h : Heap} (hI : Inv h) (e : Id) (v : List (Nat × Nat)) : Inv (setAttrs h e v) := by
  apply inv_of_same_links hI <;> intro q <;> simp
  exact hI.childless q

theorem addElement_inv {h : Heap} (hI : Inv h) (p c : Id) (a : Bool) : Inv ((addElement p c a).run h).1 := by
  unfold addElement
  cases a with
  | false => simpa using hI
  | true => simpa using appendChild_inv hI p c

theorem addText_inv {h : Heap} (hI : Inv h) (p t : Id) (a ne : Bool) (hb : Blank h t) :
    Inv ((addText p t a ne).run h).1 := by
  unfold addText
  cases a with
  | false => simpa using hI
  | true =>
    cases ne with
    | false => simpa using hI
    | true =>
      simp only [Bool.not_true, Bool.false_eq_true, if_false, if_true, run_bind, initNode_run]
      exact appendChild_inv (initNode_inv hI hb .text 0) p t

theorem addCDATA_inv {h : Heap} (hI : Inv h) (p t : Id) (a : Bool) (hb : Blank h t) :
    Inv ((addCDATA p t a).run h).1 := by
  unfold addCDATA
  cases a with
  | false => simpa using hI
  | true =>
    simp only [Bool.not_true, Bool.false_eq_true, if_false, run_bind, initNode_run]
    exact appendChild_inv (initNode_inv hI hb .cdata 0) p t

theorem setAttrNS_inv {h : Heap} (hI : Inv h) (e key : Nat) (conv : Except Err Nat) :
    Inv ((setAttrNS e key conv).run h).1 := by
  unfold setAttrNS
  cases conv with
  | error x => simpa using hI
  | ok v => simpa using setAttrs_inv hI e _

theorem setAttribute_inv {h : Heap} (hI : Inv h) (e : Id) (k t a : Bool) (key : Nat) (conv : Except Err Nat) :
    Inv ((setAttribute e k t a key conv).run h).1 := by
  unfold setAttribute
  cases k <;> cases t <;> cases a <;> simp
  all_goals first | exact hI | exact setAttrNS_inv hI e key conv

theorem removeAttribute_inv {h : Heap} (hI : Inv h) (e : Id) (k t a : Bool) (key : Nat) :
    Inv ((removeAttribute e k t a key).run h).1 := by
  unfold removeAttribute
  cases k <;> cases t <;> cases a <;> simp
  all_goals first
    | exact hI
    | (split
       · exact hI
       · exact setAttrs_inv hI e _)

/-! ### every operation, every history -/

/-- **C08 (one step)**: every operation of an edit history — succeeding or raising — takes a
    consistent tree to a consistent tree.  No "not into its own descendant" hypothesis is needed
    for this local consistency (see `acyclic_step` for the forest shape). -/
theorem inv_step {h : Heap} (hI : Inv h) (op : Op) : Inv ((step op).run h).1 := by
  cases op with
  | newNode i k qn =>
    simp only [step]
    rw [run_bind, fresh_run]
    by_cases hb : Blank h i
    · simpa [hb, initNode_run] using initNode_inv hI hb k qn
    · simpa [hb] using hI
  | append p c => exact appendChild_inv hI p c
  | insertBefore p n ref => exact insertBefore_inv hI p n ref
  | remove p c => exact removeChild_inv hI p c
  | addElement p c a => exact addElement_inv hI p c a
  | addText p t a ne =>
    simp only [step]
    rw [run_bind, fresh_run]
    by_cases hb : Blank h t
    · simpa [hb] using addText_inv hI p t a ne hb
    · simpa [hb] using hI
  | addCDATA p t a =>
    simp only [step]
    rw [run_bind, fresh_run]
    by_cases hb : Blank h t
    · simpa [hb] using addCDATA_inv hI p t a hb
    · simpa [hb] using hI
  | setAttribute e k t a key conv => exact setAttribute_inv hI e k t a key conv
  | setAttrNS e key conv => exact setAttrNS_inv hI e key conv
  | removeAttribute e k t a key => exact removeAttribute_inv hI e k t a key

theorem inv_runOps {h : Heap} (hI : Inv h) (ops : List Op) : Inv (runOps h ops) := by
  induction ops generalizing h with
  | nil => exact hI
  | cons op r ih => exact ih (inv_step hI op)

theorem inv_empty : Inv Heap.empty := by
  refine ⟨?_, ?_, ?_, ?_, ?_⟩ <;> intros <;> simp [Linked]

/-- **C08**: after an edit history of ANY length — creations, appends, insertions, removals,
    addElement/addText/addCDATA, attribute calls, refused calls included — starting from nothing,
    the tree is consistent. -/
theorem inv_reachable (ops : List Op) : Inv (runOps Heap.empty ops) :=
  inv_runOps inv_empty ops

/-! ### refinement to plain child lists; moving; not-found -/

theorem count_eq_one_of_mem {l : List Id} {a : Id} (hn : l.Nodup) (hm : a ∈ l) : l.count a = 1 := by
  have h1 := List.nodup_iff_count.mp hn a
  have h2 := List.count_pos_iff.mpr hm
  omega

/-- detaching `c` erases it from every child list (it is in at most one) -/
theorem detach_kids {h : Heap} (hI : Inv h) (c q : Id) : (detach h c q).kids = (h q).kids.erase c := by
  have hnot : ∀ q, (h c).parent ≠ some q → (h q).kids.erase c = (h q).kids := by
    intro q hq
    exact List.erase_of_not_mem (fun hm => hq ((hI.parent_iff q c).mp hm))
  unfold detach
  split
  · rename_i q0 hq0
    rw [rmHeap_kids]
    split
    · rename_i e; rw [e]
    · rename_i e; rw [hnot q (by rw [hq0]; exact fun e' => e (Option.some.inj e').symm)]
  · rename_i hq0
    rw [hnot q (by rw [hq0]; exact fun e => by cases e)]

/-- under the invariant `appendChild` to an element succeeds; its result -/
theorem appendChild_ok {h : Heap} (hI : Inv h) {p : Id} (hk : (h p).kind = .elem) (c : Id) :
    (appendChild p c).run h = (setNext (appRawHeap (detach h c) p c) c none, .ok ()) := by
  rw [appendChild_run]; simp [hk, hI.detachOk c]

/-- **C08 (children lists after appendChild)**: the list-only reference — the child is erased
    from wherever it was and put last under `p` -/
theorem appendChild_kids {h : Heap} (hI : Inv h) {p : Id} (hk : (h p).kind = .elem) (c q : Id) :
    (((appendChild p c).run h).1 q).kids =
      if q = p then (h p).kids.erase c ++ [c] else (h q).kids.erase c := by
  rw [appendChild_ok hI hk, app_kids]
  split
  · rw [detach_kids hI]
  · rw [detach_kids hI]

/-- under the invariant `insertBefore` an existing child of an element succeeds; its result -/
theorem insertBefore_ok {h : Heap} (hI : Inv h) {p n r : Id} (hk : (h p).kind = .elem)
    (hr : r ∈ (h p).kids) (hne : r ≠ n) :
    (insertBefore p n (some r)).run h = (insHeap (detach h n) p n r, .ok ()) := by
  rw [insertBefore_run]
  have hro : RefOk h p (some r) := by intro r' e; cases e; exact hr
  have h1 : ¬ (some r = some n) := fun e => hne (Option.some.inj e)
  simp [hk, hro, hI.detachOk n, hne]

/-- **C08 (children lists after insertBefore)**: erased from wherever it was, then placed
    directly before the reference child -/
theorem insertBefore_kids {h : Heap} (hI : Inv h) {p n r : Id} (hk : (h p).kind = .elem)
    (hr : r ∈ (h p).kids) (hne : r ≠ n) (q : Id) :
    (((insertBefore p n (some r)).run h).1 q).kids =
      if q = p then ((h p).kids.erase n).insertIdx (((h p).kids.erase n).idxOf r) n
      else (h q).kids.erase n := by
  rw [insertBefore_ok hI hk hr hne]
  have hr' : r ∈ (detach h n p).kids := mem_kids_detach h n p r hr hne
  obtain ⟨l1, l2, hsplit⟩ := List.append_of_mem hr'
  have hnd := (detach_inv hI n).nodup p
  rw [hsplit] at hnd
  have hr1 : r ∉ l1 := fun hm => (List.nodup_append.mp hnd).2.2 r hm r (by simp) rfl
  rw [ins_kids (detach h n) p n r q l1 l2 hsplit hr1]
  split
  · rw [← detach_kids hI n p, hsplit, idxOf_split l1 l2 r hr1, insertIdx_split]
  · rw [detach_kids hI]

/-- **C08 (moving a node takes it out of its old position)**: after `p.appendChild(c)` for a
    node that was a child of `q0`, `c` is listed under `p` only, exactly once, as last child, and
    the old parent's list is the old list without `c` -/
theorem move_leaves_old_position {h : Heap} (hI : Inv h) {p c q0 : Id} (hk : (h p).kind = .elem)
    (_hold : (h c).parent = some q0) :
    let h' := ((appendChild p c).run h).1
    (∀ q, c ∈ (h' q).kids ↔ q = p) ∧ (h' p).kids.count c = 1 ∧
    (h' p).kids.getLast? = some c ∧ (q0 ≠ p → (h' q0).kids = (h q0).kids.erase c) := by
  intro h'
  have hI' : Inv h' := appendChild_inv hI p c
  have hpar : (h' c).parent = some p := by
    show (((appendChild p c).run h).1 c).parent = some p
    rw [appendChild_ok hI hk, app_parent]; simp
  have hkp : (h' p).kids = (h p).kids.erase c ++ [c] := by
    have := appendChild_kids hI hk c p; simpa using this
  refine ⟨?_, ?_, ?_, ?_⟩
  · intro q; rw [hI'.parent_iff q c, hpar]
    constructor
    · intro e; exact (Option.some.inj e).symm
    · intro e; rw [e]
  · exact count_eq_one_of_mem (hI'.nodup p) ((hI'.parent_iff p c).mpr hpar)
  · rw [hkp]; simp
  · intro hne
    have := appendChild_kids hI hk c q0
    simpa [hne] using this

/-- **C08 (moving with insertBefore)**: after `p.insertBefore(n, r)` the moved node is listed under
    `p` only, exactly once, immediately before `r`; any other old parent has lost it -/
theorem move_leaves_old_position_insertBefore {h : Heap} (hI : Inv h) {p n r q0 : Id}
    (hk : (h p).kind = .elem) (hr : r ∈ (h p).kids) (hne : r ≠ n) (_hold : (h n).parent = some q0) :
    let h' := ((insertBefore p n (some r)).run h).1
    (∀ q, n ∈ (h' q).kids ↔ q = p) ∧ (h' p).kids.count n = 1 ∧
    (h' n).next = some r ∧ (h' r).prev = some n ∧ (q0 ≠ p → (h' q0).kids = (h q0).kids.erase n) := by
  intro h'
  have hI' : Inv h' := insertBefore_inv hI p n (some r)
  have hr' : r ∈ (detach h n p).kids := mem_kids_detach h n p r hr hne
  obtain ⟨l1, l2, hsplit⟩ := List.append_of_mem hr'
  have hnd := (detach_inv hI n).nodup p
  rw [hsplit] at hnd
  have hr1 : r ∉ l1 := fun hm => (List.nodup_append.mp hnd).2.2 r hm r (by simp) rfl
  have hn_nowhere : n ∉ (detach h n p).kids := by
    intro hq
    have := ((detach_inv hI n).parent_iff p n).mp hq
    rw [detach_parent_self] at this; cases this
  have hn1 : n ∉ l1 := fun hm => hn_nowhere (by rw [hsplit]; simp [hm])
  have hrun : h' = insHeap (detach h n) p n r := by
    show ((insertBefore p n (some r)).run h).1 = _
    rw [insertBefore_ok hI hk hr hne]
  have hpar : (h' n).parent = some p := by
    rw [hrun, ins_parent (detach h n) p n r n l1 l2 hsplit hr1]; simp
  refine ⟨?_, ?_, ?_, ?_, ?_⟩
  · intro q; rw [hI'.parent_iff q n, hpar]
    constructor
    · intro e; exact (Option.some.inj e).symm
    · intro e; rw [e]
  · exact count_eq_one_of_mem (hI'.nodup p) ((hI'.parent_iff p n).mpr hpar)
  · rw [hrun, ins_next (detach h n) p n r n l1 l2 hsplit hr1 hn1]; simp
  · rw [hrun, ins_prev (detach h n) p n r r l1 l2 hsplit hr1]; simp [hne]
  · intro hne'
    have := insertBefore_kids hI hk hr hne q0
    simpa [hne'] using this

/-- **C08 (removing a non-child raises NotFoundErr)** and leaves everything as it was -/
theorem not_child_raises_NotFound {h : Heap} {p c : Id} (hc : c ∉ (h p).kids) :
    (removeChild p c).run h = (h, .error .NotFound) := by
  rw [removeChild_run]; simp [hc]

/-- **C08 (inserting before a non-child raises NotFoundErr)** and leaves everything as it was —
    in particular the new child keeps its old place -/
theorem not_child_raises_NotFound_insertBefore {h : Heap} {p n r : Id} (hk : (h p).kind = .elem)
    (hr : r ∉ (h p).kids) : (insertBefore p n (some r)).run h = (h, .error .NotFound) := by
  rw [insertBefore_run]
  have hro : ¬ RefOk h p (some r) := fun hh => hr (hh r rfl)
  simp [hk, hro]

/-! ### the forest shape: this is where "not into its own descendant" is needed -/

/-- `a` is `x` itself or an ancestor of `x` -/
inductive AncOrSelf (h : Heap) (a : Id) : Id → Prop
  | refl : AncOrSelf h a a
  | step {x p : Id} : (h x).parent = some p → AncOrSelf h a p → AncOrSelf h a x

/-- no cycles through parent links: some depth strictly decreases from child to parent -/
def Acyclic (h : Heap) : Prop := ∃ d : Id → Nat, ∀ c p, (h c).parent = some p → d p < d c

theorem acyclic_empty : Acyclic Heap.empty := ⟨fun _ => 0, by intro c p hp; simp at hp⟩

/-- removing parent links keeps a forest a forest -/
theorem acyclic_of_parent_sub {h h' : Heap} (hA : Acyclic h)
    (hp : ∀ x q, (h' x).parent = some q → (h x).parent = some q) : Acyclic h' := by
  obtain ⟨d, hd⟩ := hA
  exact ⟨d, fun c p hcp => hd c p (hp c p hcp)⟩

/-- hanging `n` (wherever it was) under `p` keeps a forest a forest, unless `p` is `n` or lies below `n` -/
theorem acyclic_attach {h h' : Heap} {p n : Id} (hA : Acyclic h)
    (hpar : ∀ x, (h' x).parent = if x = n then some p else (h x).parent)
    (hno : ¬ AncOrSelf h n p) : Acyclic h' := by
  classical
  obtain ⟨d, hd⟩ := hA
  refine ⟨fun x => if AncOrSelf h n x then d x + (d p + 1) else d x, ?_⟩
  intro c q hcq
  rw [hpar] at hcq
  by_cases hc : c = n
  · subst hc
    simp only [if_true] at hcq
    cases hcq
    simp only [hno, if_false, AncOrSelf.refl, if_true]
    omega
  · simp only [hc, if_false] at hcq
    have hlt := hd c q hcq
    by_cases hdc : AncOrSelf h n c
    · have hdq : AncOrSelf h n q := by
        cases hdc with
        | refl => exact absurd rfl hc
        | step hp ha => rw [hcq] at hp; cases hp; exact ha
      simp only [hdc, hdq, if_true]; omega
    · have hdq : ¬ AncOrSelf h n q := fun ha => hdc (AncOrSelf.step hcq ha)
      simp only [hdc, hdq, if_false]; exact hlt

theorem AncOrSelf.congr {h h' : Heap} (hp : ∀ x, (h' x).parent = (h x).parent) {a x : Id}
    (ha : AncOrSelf h' a x) : AncOrSelf h a x := by
  induction ha with
  | refl => exact AncOrSelf.refl
  | step hpx _ ih => exact AncOrSelf.step (by rw [← hp]; exact hpx) ih

/-- a node without children is nobody's proper ancestor -/
theorem AncOrSelf.eq_of_no_kids {h : Heap} (hI : Inv h) {a x : Id} (hk : (h a).kids = [])
    (ha : AncOrSelf h a x) : x = a := by
  induction ha with
  | refl => rfl
  | step hpx _ ih =>
    subst ih
    have := (hI.parent_iff _ _).mpr hpx
    rw [hk] at this; cases this

theorem detach_parent (h : Heap) (c x : Id) :
    (detach h c x).parent = if x = c then none else (h x).parent := by
  unfold detach
  split
  · rw [rmHeap_parent]
  · rename_i hq; split
    · rename_i e; rw [e]; exact hq
    · rfl

theorem insHeap_parent (h : Heap) (p n r x : Id) :
    (insHeap h p n r x).parent = if x = n then some p else (h x).parent := by
  unfold insHeap linkPrevHeap
  simp only
  split
  · simp
  · split <;> simp

theorem appendChild_acyclic {h : Heap} (hI : Inv h) (hA : Acyclic h) {p c : Id}
    (hno : ¬ AncOrSelf h c p) : Acyclic ((appendChild p c).run h).1 := by
  rw [appendChild_run]
  split
  · exact hA
  · simp only [hI.detachOk c, if_true]
    apply acyclic_attach hA _ hno
    intro x; rw [app_parent, detach_parent]
    split <;> rfl

theorem insertBefore_acyclic {h : Heap} (hI : Inv h) (hA : Acyclic h) {p n : Id} (ref : Option Id)
    (hno : ¬ AncOrSelf h n p) : Acyclic ((insertBefore p n ref).run h).1 := by
  rw [insertBefore_run]
  split
  · exact hA
  · split
    · exact hA
    · split
      · exact hA
      · simp only [hI.detachOk n, not_true, if_false]
        cases ref with
        | none =>
          apply acyclic_attach hA _ hno
          intro x; rw [app_parent, detach_parent]
          split <;> rfl
        | some r =>
          apply acyclic_attach hA _ hno
          intro x; rw [insHeap_parent, detach_parent]
          split <;> rfl

theorem removeChild_acyclic {h : Heap} (hA : Acyclic h) (p c : Id) :
    Acyclic ((removeChild p c).run h).1 := by
  rw [removeChild_run]
  split
  · apply acyclic_of_parent_sub hA
    intro x q hx; rw [rmHeap_parent] at hx
    split at hx
    · cases hx
    · exact hx
  · exact hA

theorem acyclic_of_same_parents {h h' : Heap} (hA : Acyclic h) (hp : ∀ x, (h' x).parent = (h x).parent) :
    Acyclic h' :=
  acyclic_of_parent_sub hA (fun x q hx => by rw [← hp]; exact hx)

/-- the caller error the property excludes: the node to be inserted is the receiver or one of its
    ancestors -/
def NotIntoOwnDescendant (h : Heap) : Op → Prop
  | .append p c => ¬ AncOrSelf h c p
  | .insertBefore p n _ => ¬ AncOrSelf h n p
  | .addElement p c _ => ¬ AncOrSelf h c p
  | .addText p t _ _ => t ≠ p
  | .addCDATA p t _ => t ≠ p
  | _ => True

theorem appendNew_acyclic {h : Heap} (hI : Inv h) (hA : Acyclic h) {p t : Id} (hb : Blank h t) (hne : t ≠ p)
    (k : Kind) : Acyclic ((appendChild p t).run (h.set t { kind := k, qn := 0 })).1 := by
  have hI1 := initNode_inv hI hb k 0
  have hpar : ∀ x, ((h.set t { kind := k, qn := 0 }) x).parent = (h x).parent := by
    intro x; rw [Heap.set_apply]; split
    · rename_i e; subst e; exact hb.1.symm
    · rfl
  have hA1 : Acyclic (h.set t { kind := k, qn := 0 }) := acyclic_of_same_parents hA hpar
  apply appendChild_acyclic hI1 hA1
  intro ha
  have := AncOrSelf.eq_of_no_kids hI1 (by simp) ha
  exact hne this.symm

/-- **C08 (the structure stays a forest)**: with the caller error excluded, no operation creates a
    cycle of parent links. -/
theorem acyclic_step {h : Heap} (hI : Inv h) (hA : Acyclic h) (op : Op) (hno : NotIntoOwnDescendant h op) :
    Acyclic ((step op).run h).1 := by
  cases op with
  | newNode i k qn =>
    simp only [step]
    rw [run_bind, fresh_run]
    by_cases hb : Blank h i
    · simp only [hb, if_true, initNode_run]
      apply acyclic_of_same_parents hA
      intro x; rw [Heap.set_apply]; split
      · rename_i e; subst e; exact hb.1.symm
      · rfl
    · simpa [hb] using hA
  | append p c => exact appendChild_acyclic hI hA hno
  | insertBefore p n ref => exact insertBefore_acyclic hI hA ref hno
  | remove p c => exact removeChild_acyclic hA p c
  | addElement p c a =>
    simp only [step]; unfold addElement
    cases a with
    | false => simpa using hA
    | true => simpa using appendChild_acyclic hI hA hno
  | addText p t a ne =>
    simp only [step]
    rw [run_bind, fresh_run]
    by_cases hb : Blank h t
    · simp only [hb, if_true]
      unfold addText
      cases a with
      | false => simpa using hA
      | true =>
        cases ne with
        | false => simpa using hA
        | true =>
          simp only [Bool.not_true, Bool.false_eq_true, if_false, if_true, run_bind, initNode_run]
          exact appendNew_acyclic hI hA hb hno .text
    · simpa [hb] using hA
  | addCDATA p t a =>
    simp only [step]
    rw [run_bind, fresh_run]
    by_cases hb : Blank h t
    · simp only [hb, if_true]
      unfold addCDATA
      cases a with
      | false => simpa using hA
      | true =>
        simp only [Bool.not_true, Bool.false_eq_true, if_false, run_bind, initNode_run]
        exact appendNew_acyclic hI hA hb hno .cdata
    · simpa [hb] using hA
  | setAttribute e k t a key conv =>
    simp only [step]; unfold setAttribute setAttrNS
    cases k <;> cases t <;> cases a <;> cases conv <;> simp
    all_goals first | exact hA | exact acyclic_of_same_parents hA (fun x => by simp)
  | setAttrNS e key conv =>
    simp only [step]; unfold setAttrNS
    cases conv <;> simp
    · exact hA
    · exact acyclic_of_same_parents hA (fun x => by simp)
  | removeAttribute e k t a key =>
    simp only [step]; unfold removeAttribute
    cases k <;> cases t <;> cases a <;> simp
    all_goals first
      | exact hA
      | (split
         · exact hA
         · exact acyclic_of_same_parents hA (fun x => by simp))

/-- a history none of whose steps makes the excluded caller error -/
def GoodHistory : Heap → List Op → Prop
  | _, [] => True
  | h, op :: r => NotIntoOwnDescendant h op ∧ GoodHistory ((step op).run h).1 r

theorem tree_runOps (ops : List Op) : ∀ h, Inv h → Acyclic h → GoodHistory h ops →
    Inv (runOps h ops) ∧ Acyclic (runOps h ops) := by
  induction ops with
  | nil => intro h hI hA _; exact ⟨hI, hA⟩
  | cons op r ih =>
    intro h hI hA hg
    exact ih _ (inv_step hI op) (acyclic_step hI hA op hg.1) hg.2

/-- **C08 (tree, any history)**: consistent AND cycle-free after every edit history that never
    inserts a node into itself or its own descendant. -/
theorem tree_reachable (ops : List Op) (hg : GoodHistory Heap.empty ops) :
    Inv (runOps Heap.empty ops) ∧ Acyclic (runOps Heap.empty ops) :=
  tree_runOps ops _ inv_empty acyclic_empty hg

/-! ### non-vacuity: a concrete history -/

/-- elements 0 1 2, text node 3; 1, 3, 2 appended under 0; then 2 moved before 1, 3 moved under 1,
    and a removal of a non-child refused -/
def demoOps : List Op :=
  [.newNode 0 .elem 0, .newNode 1 .elem 0, .newNode 2 .elem 0, .newNode 3 .text 0,
   .append 0 1, .append 0 3, .append 0 2, .insertBefore 0 2 (some 1), .append 1 3, .remove 0 3]

example : ((runOps Heap.empty demoOps) 0).kids = [2, 1] := by decide
example : ((runOps Heap.empty demoOps) 1).kids = [3] := by decide
example : ((runOps Heap.empty demoOps) 1).prev = some 2 ∧ ((runOps Heap.empty demoOps) 1).next = none := by decide
example : Inv (runOps Heap.empty demoOps) := inv_reachable demoOps

/-- the excluded caller error really is what breaks the forest shape (and only that: the local
    consistency `Inv` survives): after `0.appendChild(1); 1.appendChild(0)` the two nodes are each
    other's parent -/
theorem own_descendant_breaks_forest :
    let h := runOps Heap.empty [.newNode 0 .elem 0, .newNode 1 .elem 0, .append 0 1, .append 1 0]
    Inv h ∧ ¬ Acyclic h := by
  intro h
  refine ⟨inv_reachable _, ?_⟩
  intro ⟨d, hd⟩
  have h1 : (h 0).parent = some 1 := by decide
  have h2 : (h 1).parent = some 0 := by decide
  have a := hd 0 1 h1
  have b := hd 1 0 h2
  omega

/-- the hypothesis of `tree_reachable` is satisfiable -/
example : GoodHistory Heap.empty [.newNode 0 .elem 0, .newNode 1 .elem 0, .append 0 1] := by
  refine ⟨trivial, trivial, ?_, trivial⟩
  intro ha
  cases ha with
  | step hp _ =>
    have hnone : (((step (Op.newNode 1 .elem 0)).run ((step (Op.newNode 0 .elem 0)).run Heap.empty).1).1 0).parent
        = none := by decide
    rw [hnone] at hp; cases hp

end OdfModel.Props.C08

/-
  Property C19, the bridge to the XML layer.

  `Props/C19.lean` proves what `update` does to the declarations as attribute dictionaries; what `savedoc()` writes and
  what a later `list_fields_and_values()` reads back is "exercised by the oracle only" there.  Here the declarations are
  written by the writer model (`render`, i.e. `Element.toXml`) and read back by the reference XML parser; the listing is
  then computed on the PARSED attributes.  Result:

    listing the written output returns one row per declaration, in order, computed from the declaration's attributes
    as they arrive through the writer's character filter `hu` (`listing_reads_back`); after an update, these are the
    rows `update_sets` predicts (`listing_after_update`); for values without a filtered code point, the new values
    exactly (`huField_clean`).

  Attribute keys are interned as `Nat` in the C19 model; `qn : AttrKey → QName` is ANY injective naming whose names the
  writer can write (the legend of Generated/ValueTypes.lean is one).  Tie: harness/c19.py (the oracle lists the real
  output through an independent expat reading) and harness/xmlchecks.py (writer byte for byte).
-/
import OdfModel.Xml.Compose
import OdfModel.Props.C19
import OdfModel.NsLemmas
namespace OdfModel.Props.C19Xml
open OdfModel OdfModel.Xml OdfModel.Spec OdfModel.UserField

/-! ### writer side -/

def qattrs (qn : AttrKey → QName) : List (AttrKey × Str) → List (QName × Str)
  | [] => []
  | (k, v) :: r => (qn k, v) :: qattrs qn r

/-- `<text:user-field-decl …/>` with the declaration's attribute dictionary -/
def fieldNode (qn : AttrKey → QName) (qDecl : QName) (f : Field) : Node := .elem qDecl (qattrs qn f.attrs) .nil

def fieldForest (qn : AttrKey → QName) (qDecl : QName) : List Field → Forest
  | [] => .nil
  | f :: r => .cons (fieldNode qn qDecl f) (fieldForest qn qDecl r)

/-- the declarations below one root element (`text:user-field-decls`) -/
def declsTree (qn : AttrKey → QName) (qRoot qDecl : QName) (fs : List Field) : Node :=
  .elem qRoot [] (fieldForest qn qDecl fs)

/-! ### reader side: `getElementsByType(UserFieldDecl)` + the listing, on parsed attributes -/

def attrVal (as : List (QName × Str)) (q : QName) : Option Str :=
  match as with
  | [] => none
  | (k, v) :: r => if k = q then some v else attrVal r q

mutual
def declsOf (qDecl : QName) : Node → List (List (QName × Str))
  | .elem q as kids => (if q = qDecl then [as] else []) ++ declsOfF qDecl kids
  | .text _ => []
  | .cdata _ => []
def declsOfF (qDecl : QName) : Forest → List (List (QName × Str))
  | .nil => []
  | .cons h t => declsOf qDecl h ++ declsOfF qDecl t
end

/-- one row of `list_fields_and_values`, computed on XML attributes -/
def viewX (qn : AttrKey → QName) (as : List (QName × Str)) : Option Str × Option Str × Option Str :=
  (attrVal as (qn nameKey), attrVal as (qn typeKey), attrVal as (qn (listAttrFor (attrVal as (qn typeKey)))))

def listX (qn : AttrKey → QName) (qDecl : QName) (n : Node) : List (Option Str × Option Str × Option Str) :=
  (declsOf qDecl n).map (viewX qn)

/-- a declaration as it arrives: every attribute value through the writer's filter -/
def huField (f : Field) : Field := ⟨f.attrs.map fun kv => (kv.1, kv.2.map hu)⟩

/-! ### lemmas -/

theorem attrVal_qattrs (qn : AttrKey → QName) (hinj : Function.Injective qn) (l : List (AttrKey × Str)) (k : AttrKey) :
    attrVal (qattrs qn l) (qn k) = lookup k l := by
  induction l with
  | nil => rfl
  | cons a r ih =>
    obtain ⟨k', v⟩ := a
    simp only [qattrs, attrVal, lookup]
    by_cases h : k' = k
    · subst h; simp
    · have hq : qn k' ≠ qn k := fun e => h (hinj e)
      simp [hq, h, ih]

theorem huAttrsQ_qattrs (qn : AttrKey → QName) (l : List (AttrKey × Str)) :
    huAttrsQ (qattrs qn l) = qattrs qn (l.map fun kv => (kv.1, kv.2.map hu)) := by
  induction l with
  | nil => rfl
  | cons a r ih => obtain ⟨k, v⟩ := a; simp [qattrs, huAttrsQ, ih]

theorem viewX_qattrs (qn : AttrKey → QName) (hinj : Function.Injective qn) (f : Field) :
    viewX qn (qattrs qn f.attrs) = view f := by
  simp [viewX, view, Field.name, Field.vtype, attrVal_qattrs qn hinj]

theorem canonTF_fieldForest (qn : AttrKey → QName) (qDecl : QName) (fs : List Field) :
    canonTF [] (fieldForest qn qDecl fs) = fieldForest qn qDecl (fs.map huField) := by
  induction fs with
  | nil => simp [fieldForest, canonTF, flushT]
  | cons f r ih => simp [fieldForest, fieldNode, canonTF, flushT, huAttrsQ_qattrs, huField, ih]

theorem declsOfF_fieldForest (qn : AttrKey → QName) (qDecl : QName) (fs : List Field) :
    declsOfF qDecl (fieldForest qn qDecl fs) = fs.map fun f => qattrs qn f.attrs := by
  induction fs with
  | nil => simp [fieldForest, declsOfF]
  | cons f r ih => simp [fieldForest, fieldNode, declsOfF, declsOf, ih]

/-! ### the tree is one the writer theorem covers -/

/-- what the writer needs of the names and the dictionaries: writable, known names; distinct keys; well-formed strings -/
structure Writable (tbl : NsTable) (qn : AttrKey → QName) (qRoot qDecl : QName) (fs : List Field) : Prop where
  root : QNameOK qRoot ∧ Covered tbl qRoot
  decl : QNameOK qDecl ∧ Covered tbl qDecl
  names : ∀ k, QNameOK (qn k) ∧ Covered tbl (qn k)
  keys : ∀ f ∈ fs, (f.attrs.map (·.1)).Nodup
  strs : ∀ f ∈ fs, ∀ kv ∈ f.attrs, StrOK kv.2

theorem qattrs_keys (qn : AttrKey → QName) (l : List (AttrKey × Str)) : (qattrs qn l).map (·.1) = (l.map (·.1)).map qn := by
  induction l with
  | nil => rfl
  | cons a r ih => obtain ⟨k, v⟩ := a; simp [qattrs, ih]

theorem qattrs_mem (qn : AttrKey → QName) (l : List (AttrKey × Str)) (a : QName × Str) (h : a ∈ qattrs qn l) :
    ∃ kv ∈ l, a = (qn kv.1, kv.2) := by
  induction l with
  | nil => simp [qattrs] at h
  | cons b r ih =>
    obtain ⟨k, v⟩ := b
    simp only [qattrs, List.mem_cons] at h
    rcases h with h | h
    · exact ⟨(k, v), by simp, h⟩
    · obtain ⟨kv, hm, he⟩ := ih h; exact ⟨kv, by simp [hm], he⟩

theorem nodup_map_inj {α β} (f : α → β) (hf : Function.Injective f) (l : List α) (h : l.Nodup) : (l.map f).Nodup := by
  induction l with
  | nil => simp
  | cons a r ih =>
    rw [List.nodup_cons] at h
    rw [List.map_cons, List.nodup_cons]
    refine ⟨?_, ih h.2⟩
    intro hm
    obtain ⟨b, hb, hab⟩ := List.mem_map.mp hm
    exact h.1 (hf hab ▸ hb)

theorem fieldForest_ok (tbl : NsTable) (qn : AttrKey → QName) (hinj : Function.Injective qn) (qRoot qDecl : QName)
    (fs : List Field) (w : Writable tbl qn qRoot qDecl fs) : ForestOK tbl (fieldForest qn qDecl fs) := by
  induction fs with
  | nil => simp [fieldForest, ForestOK]
  | cons f r ih =>
    have wr : Writable tbl qn qRoot qDecl r :=
      ⟨w.root, w.decl, w.names, fun f' h => w.keys f' (by simp [h]), fun f' h => w.strs f' (by simp [h])⟩
    refine ⟨⟨w.decl.1, w.decl.2, ⟨?_, ?_⟩, by simp [ForestOK]⟩, ih wr⟩
    · rw [nodupQ_iff, qattrs_keys]
      exact nodup_map_inj qn hinj _ (w.keys f (by simp))
    · intro a ha
      obtain ⟨kv, hm, he⟩ := qattrs_mem qn f.attrs a ha
      subst he
      exact ⟨(w.names kv.1).1, (w.names kv.1).2, w.strs f (by simp) kv hm⟩

/-! ### the theorems -/

/-- **C19 (listing reads back what was written)**: write the declarations with the library's writer, parse the bytes,
    list: one row per declaration, in order, computed from the declaration's attributes as they arrive through the
    writer's character filter. -/
theorem listing_reads_back (tbl : NsTable) (qn : AttrKey → QName) (hinj : Function.Injective qn) (qRoot qDecl : QName)
    (fs : List Field) (ht : TableOK tbl) (hcl : NsClean tbl) (hne : qRoot ≠ qDecl) (w : Writable tbl qn qRoot qDecl fs) :
    (parseDoc (render tbl (declsTree qn qRoot qDecl fs))).map (listX qn qDecl) = some (listFields (fs.map huField)) := by
  have hok : TreeOK tbl (declsTree qn qRoot qDecl fs) :=
    ⟨w.root.1, w.root.2, ⟨by decide, by intro a ha; cases ha⟩, fieldForest_ok tbl qn hinj qRoot qDecl fs w⟩
  unfold declsTree at hok ⊢
  rw [parseDoc_render tbl qRoot [] _ ht hcl hok]
  simp only [Option.map_some, listX, canonT, huAttrsQ, declsOf, hne, if_false, List.nil_append, canonTF_fieldForest,
    declsOfF_fieldForest, List.map_map, listFields]
  congr 1
  apply List.map_congr_left
  intro f _
  simpa using viewX_qattrs qn hinj (huField f)

/-- a declaration without filtered code points arrives unchanged -/
theorem huField_clean (f : Field) (h : ∀ kv ∈ f.attrs, kv.2.map hu = kv.2) : huField f = f := by
  cases f with
  | mk attrs =>
    simp only [huField, Field.mk.injEq]
    conv => rhs; rw [← List.map_id attrs]
    apply List.map_congr_left
    intro kv hkv
    simp [h kv hkv]

/-- **C19 (update, then save, then list — at the level of the bytes)**: when `update` succeeds and no attribute of the
    updated declarations holds a code point the writer filters, listing the WRITTEN output (parsed by the reference
    parser) returns exactly the rows `update_sets` predicts: the new value for every named field, the old row for
    every other. -/
theorem listing_after_update (tbl : NsTable) (qn : AttrKey → QName) (hinj : Function.Injective qn) (qRoot qDecl : QName)
    (data : Data) (fs fs' : List Field) (h : update data fs = .ok fs')
    (ht : TableOK tbl) (hcl : NsClean tbl) (hne : qRoot ≠ qDecl) (w : Writable tbl qn qRoot qDecl fs')
    (hclean : ∀ f ∈ fs', ∀ kv ∈ f.attrs, kv.2.map hu = kv.2) :
    (parseDoc (render tbl (declsTree qn qRoot qDecl fs'))).map (listX qn qDecl) = some (fs.map (C19.expectedView data)) := by
  rw [listing_reads_back tbl qn hinj qRoot qDecl fs' ht hcl hne w]
  have hid : fs'.map huField = fs' := by
    conv => rhs; rw [← List.map_id fs']
    apply List.map_congr_left
    intro f hf
    simpa using huField_clean f (hclean f hf)
  rw [hid, C19.update_sets data fs fs' h]

/-- the filter is visible in the general statement: a value with U+0001 is listed as U+FFFD -/
example : huField ⟨[(2, [97, 1])]⟩ = ⟨[(2, [97, 0xFFFD])]⟩ := by decide +kernel

/-- `update` keeps the keys of every dictionary distinct and every value a well-formed string -/
theorem updField_writable (data : Data) (f f' : Field) (h : updField data f = .ok f')
    (hk : (f.attrs.map (·.1)).Nodup) : (f'.attrs.map (·.1)).Nodup := by
  unfold updField at h
  split at h
  · cases h; exact hk
  · split at h
    · cases h; exact hk
    · split at h
      · cases h
      · cases h
        rename_i v' _
        rcases C19.setAttr_keys (updAttrFor f.vtype) v' f.attrs with e | e
        · simpa [e] using hk
        · -- appended: the key was absent, or `setAttr` would have overwritten
          have : (setAttr (updAttrFor f.vtype) v' f.attrs).map Prod.fst = f.attrs.map Prod.fst ++ [updAttrFor f.vtype] := e
          rw [show (fun (x : AttrKey × Str) => x.1) = Prod.fst from rfl] at hk ⊢
          rw [this]
          have hnot : updAttrFor f.vtype ∉ f.attrs.map Prod.fst := by
            intro hm
            have : ∀ (l : List (AttrKey × Str)) (k : AttrKey) (v : Str), k ∈ l.map Prod.fst →
                (setAttr k v l).map Prod.fst = l.map Prod.fst := by
              intro l k v
              induction l with
              | nil => simp
              | cons a r ih =>
                obtain ⟨k0, v0⟩ := a
                intro hm
                by_cases h0 : k0 = k
                · simp [setAttr, h0]
                · have : k ∈ r.map Prod.fst := by
                    simp only [List.map_cons, List.mem_cons] at hm
                    rcases hm with hm | hm
                    · exact absurd hm.symm h0
                    · exact hm
                  simp [setAttr, h0, ih this]
            have e2 := this f.attrs (updAttrFor f.vtype) v' hm
            rw [e2] at e
            have := congrArg List.length e
            simp at this
          exact List.nodup_append.mpr ⟨hk, by simp, by
            intro a ha b hb
            simp only [List.mem_singleton] at hb
            subst hb
            intro hab; subst hab; exact hnot ha⟩

/-- a concrete instance, evaluated by the kernel: two declarations (a string field `n1` whose value holds `<`, `&`, `"`
    and a TAB, and a field without type), written, parsed and listed -/
example :
    let qn : AttrKey → QName := fun k => ⟨[117], 97 :: Ns.dec k⟩
    let tbl : NsTable := [([117], [112])]
    let fs : List Field := [⟨[(0, [110, 49]), (1, [115, 116, 114, 105, 110, 103]), (3, [60, 38, 34, 9])]⟩, ⟨[(0, [110, 50])]⟩]
    (parseDoc (render tbl (declsTree qn ⟨[117], [114]⟩ ⟨[117], [100]⟩ fs))).map (listX qn ⟨[117], [100]⟩)
      = some (listFields fs) := by
  decide +kernel

end OdfModel.Props.C19Xml

/-
  Property C16 — references to embedded sub-documents resolve to where they are stored.
  Theorems about `OdfModel.Pkg.step/run` (model of `addObject`), `save` and `load`; tied to
  odf/opendocument.py by the correspondence run of harness/c16.py (attachment histories and loaded
  packages through the real library and through drv_pkg).  Code as of fix 0372084: `save` stores every
  sub-document under its `folder` attribute, `addObject` returns "." + that attribute.

  FULL STATEMENT (`RefsResolve`, below): for every attachment history, every reference returned by
  addObject for an object that hangs under the saved document names the folder that holds the object's
  content.xml and styles.xml and that the manifest declares with the object's media type.
  Still FALSE (`not_refsResolve`, finding KF-C16-2): a reference is a string; one handed out while the
  parent was not yet attached goes stale when the parent is attached (the `folder` attributes follow, the
  string cannot).  Proved: `ref_names_folder_partial` — with exactly the decidable hypothesis
  `parentsFirst` (every parent hangs under the saved document when it gets a child) every reference
  resolves: default names, explicit names (leading "/" or not, any characters), refused duplicates,
  children that bring objects of their own, any nesting depth.
  For `load`: see the second half (`reload_keeps_refs`, `load_carries`), all packages, no hypothesis.
-/
import OdfModel.Pkg
import OdfModel.Props.C03
namespace OdfModel.Props.C16
open OdfModel OdfModel.Pkg

/-! ### the tree and its nodes -/

theorem objects_head (L : Nat) (F : Str) (d : Doc) : objects L F d = (F, d) :: objectsK L d.children := by
  cases d with
  | mk id mt hs pics th ex fo kids => simp [objects]

theorem objectsK_append (L : Nat) : ∀ (a b : List Doc), objectsK L (a ++ b) = objectsK L a ++ objectsK L b := by
  intro a
  induction a with
  | nil => intro b; simp [objectsK]
  | cons d ds ih => intro b; simp [objectsK, ih b, List.append_assoc]

mutual
/-- every sub-document is listed with the folder `stor L` computes from its `folder` attribute -/
theorem objects_fst (L : Nat) (F : Str) (d : Doc) : ∀ q ∈ objects L F d, q = (F, d) ∨ q.1 = stor L q.2 := by
  cases d with
  | mk id mt hs pics th ex fo kids =>
    intro q hq
    simp only [objects, List.mem_cons] at hq
    rcases hq with hq | hq
    · exact Or.inl hq
    · exact Or.inr (objectsK_fst L kids q hq)
theorem objectsK_fst (L : Nat) (ds : List Doc) : ∀ q ∈ objectsK L ds, q.1 = stor L q.2 := by
  cases ds with
  | nil => intro q hq; simp [objectsK] at hq
  | cons c cs =>
    intro q hq
    simp only [objectsK, List.mem_append] at hq
    rcases hq with hq | hq
    · rcases objects_fst L (stor L c) c q hq with h | h
      · rw [h]
      · exact h
    · exact objectsK_fst L cs q hq
end

/-- a `folder` attribute of an attached document: begins with "/" -/
def Slashy (f : Str) : Prop := ∃ G, f = 47 :: G

/-- `L'` still has every object (id, media type, folder attribute) that `L` has -/
def Sub (L L' : List (Str × Doc)) : Prop :=
  ∀ q ∈ L, ∃ q' ∈ L', q'.2.id = q.2.id ∧ q'.2.mimetype = q.2.mimetype ∧ q'.2.folder = q.2.folder

/-- `L` holds the object `c` with the folder attribute `f` -/
def New (c : Doc) (f : Str) (L : List (Str × Doc)) : Prop :=
  ∃ q ∈ L, q.2.id = c.id ∧ q.2.mimetype = c.mimetype ∧ q.2.folder = f

theorem setFolder_fields (f : Str) (c : Doc) :
    (setFolder f c).id = c.id ∧ (setFolder f c).mimetype = c.mimetype ∧ (setFolder f c).folder = f := by
  cases c with
  | mk id mt hs pics th ex fo kids => simp [setFolder]

mutual
/-- after `_setFolder(f)` every document of the moved subtree has a folder that begins with `f` -/
theorem setFolder_prefix (L : Nat) (F f : Str) (c : Doc) : ∀ q ∈ objects L F (setFolder f c), f <+: q.2.folder := by
  cases c with
  | mk id mt hs pics th ex fo kids =>
    intro q hq
    simp only [setFolder, objects, List.mem_cons] at hq
    rcases hq with hq | hq
    · subst hq; exact List.prefix_refl _
    · exact setFolderKids_prefix L f fo.length kids q hq
theorem setFolderKids_prefix (L : Nat) (f : Str) (n : Nat) (ds : List Doc) :
    ∀ q ∈ objectsK L (setFolderKids f n ds), f <+: q.2.folder := by
  cases ds with
  | nil => intro q hq; simp [setFolderKids, objectsK] at hq
  | cons c cs =>
    intro q hq
    simp only [setFolderKids, objectsK, List.mem_append] at hq
    rcases hq with hq | hq
    · have := setFolder_prefix L _ (f ++ c.folder.drop n) c q hq
      exact List.IsPrefix.trans (List.prefix_append f _) this
    · exact setFolderKids_prefix L f n cs q hq
end

theorem slashy_of_prefix {f g : Str} (hf : Slashy f) (h : f <+: g) : Slashy g := by
  obtain ⟨G, rfl⟩ := hf
  obtain ⟨t, rfl⟩ := h
  exact ⟨G ++ t, rfl⟩

/-! ### addObject keeps what is attached and adds the new object where its reference says -/

mutual
theorem attach_ok (p : Nat) (c : Doc) (name : Option Str) (t t' : Doc) (f : Str)
    (h : attachIn p c name t = .ok t' f) (hroot : t.folder = [] ∨ Slashy t.folder)
    (hkids : ∀ q ∈ objectsK 0 t.children, Slashy q.2.folder) :
    t'.id = t.id ∧ t'.mimetype = t.mimetype ∧ t'.folder = t.folder
      ∧ Sub (objectsK 0 t.children) (objectsK 0 t'.children) ∧ New c f (objectsK 0 t'.children)
      ∧ Slashy f ∧ ∀ q ∈ objectsK 0 t'.children, Slashy q.2.folder := by
  cases t with
  | mk id mt hs pics th ex fo kids =>
    simp only [attachIn] at h
    by_cases hid : id = p
    · subst hid
      simp only [if_true] at h
      cases hn : objectName fo kids name with
      | none => simp [hn] at h
      | some n =>
        simp only [hn, Attach.ok.injEq] at h
        obtain ⟨rfl, rfl⟩ := h
        have hf : Slashy (fo ++ sSlash ++ n) := by
          rcases hroot with h0 | ⟨G, hG⟩
          · simp only at h0; subst h0; exact ⟨n, rfl⟩
          · simp only at hG; subst hG; exact ⟨G ++ sSlash ++ n, by simp⟩
        refine ⟨rfl, rfl, rfl, ?_, ?_, hf, ?_⟩
        · intro q hq
          refine ⟨q, ?_, rfl, rfl, rfl⟩
          simp only [objectsK_append, List.mem_append]
          exact Or.inl hq
        · refine ⟨(stor 0 (setFolder (fo ++ sSlash ++ n) c), setFolder (fo ++ sSlash ++ n) c), ?_, ?_⟩
          · simp only [objectsK_append, List.mem_append]
            right
            simp only [objectsK, List.append_nil]
            rw [objects_head]; exact List.mem_cons_self
          · exact setFolder_fields _ c
        · intro q hq
          simp only [objectsK_append, List.mem_append] at hq
          rcases hq with hq | hq
          · exact hkids q hq
          · simp only [objectsK, List.append_nil] at hq
            exact slashy_of_prefix hf (setFolder_prefix 0 _ _ c q hq)
    · simp only [hid, if_false] at h
      cases hk : attachInK p c name kids with
      | notFound => simp [hk] at h
      | valueError => simp [hk] at h
      | ok kids' f' =>
        simp only [hk, Attach.ok.injEq] at h
        obtain ⟨rfl, rfl⟩ := h
        have := attach_okK p c name kids kids' f' hk hkids
        exact ⟨rfl, rfl, rfl, this⟩
theorem attach_okK (p : Nat) (c : Doc) (name : Option Str) (ds ds' : List Doc) (f : Str)
    (h : attachInK p c name ds = .ok ds' f) (hkids : ∀ q ∈ objectsK 0 ds, Slashy q.2.folder) :
    Sub (objectsK 0 ds) (objectsK 0 ds') ∧ New c f (objectsK 0 ds') ∧ Slashy f
      ∧ ∀ q ∈ objectsK 0 ds', Slashy q.2.folder := by
  cases ds with
  | nil => simp [attachInK] at h
  | cons d rest =>
    simp only [attachInK] at h
    have hd : Slashy d.folder := hkids (stor 0 d, d) (by simp only [objectsK, List.mem_append]; left; rw [objects_head]; exact List.mem_cons_self)
    have hdk : ∀ q ∈ objectsK 0 d.children, Slashy q.2.folder := by
      intro q hq
      apply hkids q
      simp only [objectsK, List.mem_append]; left; rw [objects_head]; exact List.mem_cons_of_mem _ hq
    have hrest : ∀ q ∈ objectsK 0 rest, Slashy q.2.folder := by
      intro q hq
      apply hkids q
      simp only [objectsK, List.mem_append]; exact Or.inr hq
    cases h1 : attachIn p c name d with
    | ok d' f' =>
      simp only [h1, Attach.ok.injEq] at h
      obtain ⟨rfl, rfl⟩ := h
      obtain ⟨hid, hmt, hfo, hsub, hnew, hf, hall⟩ := attach_ok p c name d d' f' h1 (Or.inr hd) hdk
      refine ⟨?_, ?_, hf, ?_⟩
      · intro q hq
        simp only [objectsK, List.mem_append] at hq ⊢
        rcases hq with hq | hq
        · rw [objects_head] at hq
          rcases List.mem_cons.mp hq with hq | hq
          · subst hq
            exact ⟨(stor 0 d', d'), Or.inl (by rw [objects_head]; exact List.mem_cons_self), hid, hmt, hfo⟩
          · obtain ⟨q', hq', e⟩ := hsub q hq
            exact ⟨q', Or.inl (by rw [objects_head]; exact List.mem_cons_of_mem _ hq'), e⟩
        · exact ⟨q, Or.inr hq, rfl, rfl, rfl⟩
      · obtain ⟨q, hq, e⟩ := hnew
        refine ⟨q, ?_, e⟩
        simp only [objectsK, List.mem_append]
        exact Or.inl (by rw [objects_head]; exact List.mem_cons_of_mem _ hq)
      · intro q hq
        simp only [objectsK, List.mem_append] at hq
        rcases hq with hq | hq
        · rw [objects_head] at hq
          rcases List.mem_cons.mp hq with hq | hq
          · subst hq; simp only; rw [hfo]; exact hd
          · exact hall q hq
        · exact hrest q hq
    | valueError => simp [h1] at h
    | notFound =>
      simp only [h1] at h
      cases h2 : attachInK p c name rest with
      | notFound => simp [h2] at h
      | valueError => simp [h2] at h
      | ok rest' f' =>
        simp only [h2, Attach.ok.injEq] at h
        obtain ⟨rfl, rfl⟩ := h
        obtain ⟨hsub, hnew, hf, hall⟩ := attach_okK p c name rest rest' f' h2 hrest
        refine ⟨?_, ?_, hf, ?_⟩
        · intro q hq
          simp only [objectsK, List.mem_append] at hq ⊢
          rcases hq with hq | hq
          · exact ⟨q, Or.inl hq, rfl, rfl, rfl⟩
          · obtain ⟨q', hq', e⟩ := hsub q hq
            exact ⟨q', Or.inr hq', e⟩
        · obtain ⟨q, hq, e⟩ := hnew
          refine ⟨q, ?_, e⟩
          simp only [objectsK, List.mem_append]
          exact Or.inr hq
        · intro q hq
          simp only [objectsK, List.mem_append] at hq
          rcases hq with hq | hq
          · apply hkids q; simp only [objectsK, List.mem_append]; exact Or.inl hq
          · exact hall q hq
end

mutual
theorem hasId_attach (p : Nat) (c : Doc) (n : Option Str) (t : Doc) (h : hasId p t = true) :
    attachIn p c n t ≠ .notFound := by
  cases t with
  | mk id mt hs pics th ex fo kids =>
    simp only [hasId, Bool.or_eq_true, beq_iff_eq] at h
    simp only [attachIn]
    by_cases hid : id = p
    · simp only [hid, if_true]
      cases objectName fo kids n <;> simp
    · have hk := hasId_attachK p c n kids (by rcases h with h | h; exact absurd h hid; exact h)
      simp only [hid, if_false]
      cases h2 : attachInK p c n kids with
      | notFound => exact absurd h2 hk
      | valueError => simp
      | ok a b => simp
theorem hasId_attachK (p : Nat) (c : Doc) (n : Option Str) (ds : List Doc) (h : hasIdK p ds = true) :
    attachInK p c n ds ≠ .notFound := by
  cases ds with
  | nil => simp [hasIdK] at h
  | cons d rest =>
    simp only [hasIdK, Bool.or_eq_true] at h
    simp only [attachInK]
    cases h1 : attachIn p c n d with
    | ok a b => simp
    | valueError => simp
    | notFound =>
      rcases h with h | h
      · exact absurd h1 (hasId_attach p c n d h)
      · have := hasId_attachK p c n rest h
        cases h2 : attachInK p c n rest with
        | notFound => exact absurd h2 this
        | valueError => simp
        | ok a b => simp
end

/-! ### the theorem for histories that attach parents first -/

/-- the saved document is a top-level document, everything below it has a folder beginning with "/", and every
    reference returned so far is "." + the `folder` attribute of its object, which hangs under the root -/
def Inv (h : Hist) : Prop :=
  h.root.folder = [] ∧ (∀ q ∈ objectsK 0 h.root.children, Slashy q.2.folder) ∧
  ∀ x ∈ h.refs, ∃ q ∈ objectsK 0 h.root.children, q.2.id = x.1 ∧ q.2.mimetype = x.2.1 ∧ x.2.2 = 46 :: q.2.folder

theorem step_inv (h h' : Hist) (op : Op) (hinv : Inv h) (hpar : hasId op.parent h.root = true)
    (hstep : step h op = .ok h') : Inv h' := by
  simp only [step] at hstep
  split at hstep
  · cases hstep
  cases hf : h.pool.find? (fun d => d.id == op.child) with
  | none => simp [hf] at hstep
  | some c =>
    simp only [hf] at hstep
    have hnf := hasId_attach op.parent c op.name h.root hpar
    cases ha : attachIn op.parent c op.name h.root with
    | notFound => exact absurd ha hnf
    | valueError => simp [ha] at hstep
    | ok root' f =>
      simp only [ha, StepRes.ok.injEq] at hstep
      subst hstep
      obtain ⟨_, _, hfo, hsub, hnew, _, hall⟩ := attach_ok op.parent c op.name h.root root' f ha (Or.inl hinv.1) hinv.2.1
      refine ⟨by rw [hfo]; exact hinv.1, hall, ?_⟩
      intro x hx
      simp only [List.mem_append, List.mem_singleton] at hx
      rcases hx with hx | hx
      · obtain ⟨q, hq, e1, e2, e3⟩ := hinv.2.2 x hx
        obtain ⟨q', hq', f1, f2, f3⟩ := hsub q hq
        exact ⟨q', hq', by rw [f1, e1], by rw [f2, e2], by rw [f3, e3]⟩
      · subst hx
        obtain ⟨q, hq, e1, e2, e3⟩ := hnew
        exact ⟨q, hq, e1, e2, by rw [e3]⟩

theorem run_inv : ∀ (ops : List Op) (h h' : Hist), Inv h → parentsFirst h ops = true → run h ops = some h' → Inv h' := by
  intro ops
  induction ops with
  | nil => intro h h' hinv _ hr; simp only [run, Option.some.injEq] at hr; subst hr; exact hinv
  | cons op ops ih =>
    intro h h' hinv hord hr
    simp only [parentsFirst, Bool.and_eq_true] at hord
    simp only [run] at hr
    cases hs : step h op with
    | unsupported => simp [hs] at hr
    | valueError =>
      simp only [hs] at hr hord
      exact ih h h' hinv hord.2 hr
    | ok h1 =>
      simp only [hs] at hr hord
      exact ih h1 h' (step_inv h h1 op hinv hord.1 hs) hord.2 hr

theorem resolves_of_inv (h : Hist) (hinv : Inv h) :
    ∀ x ∈ h.refs, refResolves (save h.root) x.2.2 x.1 x.2.1 = true := by
  intro x hx
  obtain ⟨q, hq, e1, e2, e3⟩ := hinv.2.2 x hx
  obtain ⟨G, hG⟩ := hinv.2.1 q hq
  have hL : h.root.folder.length = 0 := by rw [hinv.1]; rfl
  have hq' : q ∈ objectsK h.root.folder.length h.root.children := by rw [hL]; exact hq
  have hobj : q ∈ objects h.root.folder.length [] h.root := by rw [objects_head]; exact List.mem_cons_of_mem _ hq'
  have hparts := C03.parts_present h.root q hobj
  have hmt := (C03.root_and_object_mediatypes h.root).2 q hq'
  have hz1 := hparts.1 ⟨q.1 ++ sStyles, .deflated, [], .part .styles q.2.id⟩ (by simp [C03.ownXmlZ])
  have hz2 := hparts.1 ⟨q.1 ++ sContent, .deflated, [], .part .content q.2.id⟩ (by simp [C03.ownXmlZ])
  have hst : q.1 = G ++ sSlash := by
    rw [objectsK_fst 0 _ q hq]; simp [stor, hG]
  simp only [refResolves, e3, hG, Bool.and_eq_true, List.any_eq_true]
  have hd : List.drop 2 (46 :: 47 :: G) = G := rfl
  have ht : List.take 2 (46 :: 47 :: G) = [46, 47] := rfl
  rw [hd, ht, ← hst]
  refine ⟨⟨⟨by simp, ⟨_, hz2, by simp [e1]⟩⟩, ⟨_, hz1, by simp [e1]⟩⟩, ⟨_, hmt, by simp [e2]⟩⟩

/-- the full-strength statement: for EVERY attachment history, every returned reference resolves -/
def RefsResolve : Prop :=
  ∀ (h0 : Hist) (ops : List Op) (h : Hist), Inv h0 → run h0 ops = some h →
    ∀ x ∈ h.refs, refResolves (save h.root) x.2.2 x.1 x.2.1 = true

/-- **C16 (`ref_names_folder`, proved part)**: start from a document whose references so far are good (e.g. a
    fresh document: `inv_fresh`).  For every attachment history in which every parent hangs under the saved
    document at the time it gets a child (`parentsFirst h0 ops`, decidable) — default names and explicit names
    alike, refused duplicates skipped, children that already carry objects of their own, any nesting depth —
    every reference returned by addObject is "./" ++ G where the folder "G/" holds, in the saved package,
    content.xml and styles.xml of exactly that object, and the manifest declares "G/" with that object's
    media type. -/
theorem ref_names_folder_partial (h0 : Hist) (ops : List Op) (h : Hist) (hinit : Inv h0)
    (hord : parentsFirst h0 ops = true) (hrun : run h0 ops = some h) :
    ∀ x ∈ h.refs, refResolves (save h.root) x.2.2 x.1 x.2.1 = true :=
  resolves_of_inv h (run_inv ops h0 h hinit hord hrun)

/-- a document that was just created (no objects, folder "") with any pool of unattached documents
    satisfies the invariant -/
theorem inv_fresh (id : Nat) (mt : Str) (hs : Bool) (pics : List Pic) (th : Option Thumb) (ex : List Extra)
    (pool : List Doc) : Inv ⟨⟨id, mt, hs, pics, th, ex, [], []⟩, pool, []⟩ := by
  refine ⟨rfl, ?_, ?_⟩
  · intro q hq; simp [objectsK] at hq
  · intro x hx; simp at hx

/-- a refused `addObject` (ValueError) changes nothing: the history goes on from the same state -/
theorem valueError_atomic (h : Hist) (op : Op) (ops : List Op) (hs : step h op = .valueError) :
    run h (op :: ops) = run h ops := by
  simp [run, hs]

/-! ### samples and the remaining counter-example (replayed on the real library by harness/c16.py) -/

def leaf (id : Nat) (mt : Str) : Doc := ⟨id, mt, false, [], none, [], [], []⟩
/-- `application/x-a`, `application/x-b` stand-ins: only their being different matters -/
def mtA : Str := [97]
def mtB : Str := [98]

/-- all references of a finished history resolve -/
def allResolve (h : Hist) : Bool := h.refs.all (fun x => refResolves (save h.root) x.2.2 x.1 x.2.1)

def hasMember (o : Out) (n : Str) : Bool := o.zip.any (fun e => e.name == n)

/-- "MyObj", "/MyObj", "Object 2" -/
def nMyObj : Str := [77, 121, 79, 98, 106]

/-- the hypothesis is satisfiable, with explicit names: root ← 1 "MyObj"; root ← 2 "/MyObj" is refused (the
    leading "/" is ignored, the name is taken) and attaches nothing; root ← 3 "Object 2"; root ← 4 gets the
    default "Object 3"; 1 ← 2 default "Object 1" below "MyObj" -/
theorem explicit_names_sample :
    let h0 : Hist := ⟨leaf 0 mtA, [leaf 1 mtB, leaf 2 mtA, leaf 3 mtB, leaf 4 mtA], []⟩
    let ops : List Op := [⟨0, 1, some nMyObj⟩, ⟨0, 2, some (47 :: nMyObj)⟩, ⟨0, 3, some (sObjectSp ++ [50])⟩, ⟨0, 4, none⟩, ⟨1, 2, none⟩]
    parentsFirst h0 ops = true ∧
    (run h0 ops).map (fun h => (h.refs.map (fun x => (x.1, x.2.2)), allResolve h))
      = some ([(1, [46, 47] ++ nMyObj), (3, [46, 47] ++ sObjectSp ++ [50]), (4, [46, 47] ++ sObjectSp ++ [51]),
               (2, [46, 47] ++ nMyObj ++ [47] ++ sObjectSp ++ [49])], true) := by
  decide

/-- (was finding KF-C16-9, repaired in d51bb64) a document that is already attached, or the parent itself, is
    refused: nothing changes, the one reference handed out resolves -/
theorem attached_twice_refused :
    let h0 : Hist := ⟨leaf 0 mtA, [leaf 1 mtB, leaf 2 mtA], []⟩
    let ops : List Op := [⟨0, 1, none⟩, ⟨0, 1, none⟩, ⟨2, 1, none⟩, ⟨2, 2, none⟩]
    (run h0 ops).map (fun h => (h.refs.map (·.2.2), h.root.children.length, h.pool.map (·.children.length), allResolve h))
      = some ([[46, 47, 79, 98, 106, 101, 99, 116, 32, 49]], 1, [0], true) := by
  decide

/-- **finding KF-C16-2** (`sig=child-attached-before-parent`): `o1.addObject(o2)` while `o1` is not yet
    attached returns "./Object 1" (o1.folder is still ""), then `d.addObject(o1)` returns "./Object 1" as
    well and moves o2 to "/Object 1/Object 1": save stores o2 in "Object 1/Object 1/", the string handed out
    first is stale. -/
theorem finding_child_before_parent :
    let h0 : Hist := ⟨leaf 0 mtA, [leaf 1 mtB, leaf 2 mtA], []⟩
    let ops : List Op := [⟨1, 2, none⟩, ⟨0, 1, none⟩]
    (run h0 ops).map (fun h => (h.refs.map (·.2.2), parentsFirst h0 ops, allResolve h,
        hasMember (save h.root) (objPrefix 1 ++ objPrefix 1 ++ sContent)))
    = some ([[46, 47, 79, 98, 106, 101, 99, 116, 32, 49], [46, 47, 79, 98, 106, 101, 99, 116, 32, 49]], false, false, true) := by
  decide

theorem not_refsResolve : ¬ RefsResolve := by
  intro h
  have h1 := finding_child_before_parent
  simp only at h1
  cases hr : run ⟨leaf 0 mtA, [leaf 1 mtB, leaf 2 mtA], []⟩ [⟨1, 2, none⟩, ⟨0, 1, none⟩] with
  | none => rw [hr] at h1; cases h1
  | some hh =>
    rw [hr] at h1
    have hall := h _ _ hh (inv_fresh 0 mtA false [] none [] _) hr
    have : allResolve hh = true := by
      simp only [allResolve, List.all_eq_true]; exact hall
    simp only [Option.map_some, Option.some.injEq, Prod.mk.injEq] at h1
    rw [this] at h1
    exact absurd h1.2.2.1 (by decide)

/-! ### load + save: every sub-document, at any depth, with any folder name and in any manifest order, comes back
    under the folder it was loaded from, and so does everything else below its folder -/

open OdfModel.Props.C03 in
theorem chainPairs_parent (keys : List Str) : ∀ (f : Nat) (op rest : Str),
    ∀ x ∈ chainPairs keys f op rest, x.1 = op ∨ ∃ y ∈ chainPairs keys f op rest, y.2 = x.1 := by
  intro f
  induction f with
  | zero => intro op rest x hx; simp [chainPairs] at hx
  | succ f ih =>
    intro op rest x hx
    simp only [chainPairs] at hx ⊢
    cases ho : objComp rest with
    | none => simp [ho] at hx
    | some c =>
      simp only [ho] at hx ⊢
      by_cases hk : keys.contains (op ++ c) = true
      · simp only [hk, if_true, List.mem_cons] at hx ⊢
        rcases hx with rfl | hx
        · exact Or.inl rfl
        · right
          rcases ih _ _ x hx with h | ⟨y, hy, hyx⟩
          · exact ⟨(op, op ++ c), Or.inl rfl, h.symm⟩
          · exact ⟨y, Or.inr hy, hyx⟩
      · simp only [hk] at hx
        simp at hx

open OdfModel.Props.C03 in
/-- the parent of a sub-document folder is the top folder or itself a sub-document folder -/
theorem allPairs_parent (keys : List Str) (x : Str × Str) (hx : x ∈ allPairs keys) :
    x.1 = [] ∨ ∃ P', (P', x.1) ∈ allPairs keys := by
  simp only [allPairs, foldl_addPair_mem, List.not_mem_nil, false_or, List.mem_flatMap] at hx ⊢
  obtain ⟨k, hk, hxk⟩ := hx
  rcases chainPairs_parent keys k.length [] k x hxk with h | ⟨y, hy, hyx⟩
  · exact Or.inl h
  · right
    refine ⟨y.1, k, hk, ?_⟩
    have : (y.1, x.1) = y := by rw [← hyx]
    rw [this]; exact hy

/-- nesting depth of a folder: its number of "/" -/
def depth (Q : Str) : Nat := Q.count 47

open OdfModel.Props.C03 in
theorem depth_comp (P c : Str) (hc : IsComp c) : depth (P ++ c) = depth P + 1 := by
  obtain ⟨ds, rfl, _, hd⟩ := hc
  have h1 : List.count 47 ds = 0 := by
    apply List.count_eq_zero.mpr
    intro hin
    have := hd 47 hin; revert this; decide
  have h2 : List.count 47 sObjectSp = 0 := by decide
  have h3 : List.count 47 sSlash = 1 := by decide
  simp only [depth, List.count_append, h1, h2, h3]

theorem objectsK_map_mem (g : Str → Doc) : ∀ (l : List Str) (Q : Str), Q ∈ l →
    (stor 0 (g Q), g Q) ∈ objectsK 0 (l.map g) ∧ ∀ q ∈ objectsK 0 (g Q).children, q ∈ objectsK 0 (l.map g) := by
  intro l
  induction l with
  | nil => intro Q h; cases h
  | cons x xs ih =>
    intro Q hQ
    simp only [List.map_cons, objectsK, List.mem_append]
    rcases List.mem_cons.mp hQ with rfl | hQ
    · rw [objects_head]
      exact ⟨Or.inl List.mem_cons_self, fun q hq => Or.inl (List.mem_cons_of_mem _ hq)⟩
    · exact ⟨Or.inr (ih Q hQ).1, fun q hq => Or.inr ((ih Q hQ).2 q hq)⟩

mutual
/-- the sub-documents of a sub-document are sub-documents -/
theorem objects_trans (L : Nat) (F : Str) (d : Doc) : ∀ q ∈ objects L F d, ∀ r ∈ objectsK L q.2.children, r ∈ objectsK L d.children := by
  cases d with
  | mk id mt hs pics th ex fo kids =>
    intro q hq r hr
    simp only [objects, List.mem_cons] at hq
    rcases hq with rfl | hq
    · exact hr
    · exact objectsK_trans L kids q hq r hr
theorem objectsK_trans (L : Nat) (ds : List Doc) : ∀ q ∈ objectsK L ds, ∀ r ∈ objectsK L q.2.children, r ∈ objectsK L ds := by
  cases ds with
  | nil => intro q hq; simp [objectsK] at hq
  | cons c cs =>
    intro q hq r hr
    simp only [objectsK, List.mem_append] at hq ⊢
    rcases hq with hq | hq
    · left
      rw [objects_head]
      exact List.mem_cons_of_mem _ (objects_trans L (stor L c) c q hq r hr)
    · exact Or.inr (objectsK_trans L cs q hq r hr)
end

open OdfModel.Props.C03 in
theorem stor_built (p : Package) (man : List (Str × Str)) (keys : List Str) (f : Nat) (Q : Str)
    (hQ : Q.getLast? = some 47) : stor 0 (buildDoc p man keys f Q) = Q := by
  have hne : Q ≠ [] := by intro he; rw [he] at hQ; simp at hQ
  have h3 : Q.isEmpty = false := by cases Q with | nil => exact absurd rfl hne | cons a b => rfl
  simp only [stor, buildDoc_folder, folderOfPath, h3, Bool.false_eq_true, if_false, Nat.zero_add, List.drop_succ_cons,
    List.drop_zero, sSlash]
  exact (eq_dropLast_append_of_getLast? Q 47 hQ).symm

open OdfModel.Props.C03 in
/-- every sub-document folder is reached by `buildDoc` from the top, given fuel for its depth -/
theorem reach (p : Package) (man : List (Str × Str)) (keys : List Str) (F : Nat) :
    ∀ (n : Nat) (Q : Str), Q.length ≤ n → (∃ P, (P, Q) ∈ allPairs keys) → depth Q ≤ F →
      (Q, buildDoc p man keys (F - depth Q) Q) ∈ objectsK 0 (buildDoc p man keys F []).children := by
  intro n
  induction n with
  | zero =>
    intro Q hl ⟨P, hP⟩ _
    obtain ⟨_, c, hc, e, _⟩ := allPairs_spec keys (P, Q) hP
    simp only at e
    have := (isComp_facts c hc).1
    have : Q ≠ [] := by rw [e]; cases c with | nil => exact absurd rfl this | cons a b => cases P <;> simp
    cases Q with
    | nil => exact absurd rfl this
    | cons a b => simp at hl
  | succ n ih =>
    intro Q hl ⟨P, hP⟩ hd
    obtain ⟨_, c, hc, e, _⟩ := allPairs_spec keys (P, Q) hP
    simp only at e
    have hQl : Q.getLast? = some 47 := by rw [e, List.getLast?_append, (isComp_facts c hc).2.1]; rfl
    have hdQ : depth Q = depth P + 1 := by rw [e]; exact depth_comp P c hc
    have hkid : Q ∈ kidsOf keys P := (mem_kidsOf keys P Q).mpr hP
    rcases allPairs_parent keys (P, Q) hP with h0 | ⟨P', hP'⟩
    · simp only at h0
      subst h0
      have hd1 : depth Q = 1 := by rw [hdQ]; rfl
      cases F with
      | zero => omega
      | succ F' =>
        have := (objectsK_map_mem (buildDoc p man keys F') (kidsOf keys []) Q hkid).1
        rw [stor_built p man keys F' Q hQl] at this
        simpa [buildDoc, hd1] using this
    · simp only at hP'
      have hPlen : P.length ≤ n := by
        have : 0 < c.length := by
          have := (isComp_facts c hc).1
          cases c with | nil => exact absurd rfl this | cons a b => simp
        rw [e] at hl; simp at hl; omega
      have ihP := ih P hPlen ⟨P', hP'⟩ (by omega)
      -- the node of P has fuel F - depth P = (F - depth Q) + 1
      have hf : F - depth P = (F - depth Q) + 1 := by omega
      rw [hf] at ihP
      have hk := (objectsK_map_mem (buildDoc p man keys (F - depth Q)) (kidsOf keys P) Q hkid).1
      rw [stor_built p man keys _ Q hQl] at hk
      have hch : (buildDoc p man keys (F - depth Q + 1) P).children = (kidsOf keys P).map (buildDoc p man keys (F - depth Q)) := rfl
      exact objectsK_trans 0 _ _ ihP _ (by rw [hch]; exact hk)

theorem length_le_sum_lengths : ∀ (l : List Str) (x : Str), x ∈ l → x.length ≤ (l.map (·.length)).sum := by
  intro l
  induction l with
  | nil => intro x h; cases h
  | cons a l ih =>
    intro x h
    simp only [List.map_cons, List.sum_cons]
    rcases List.mem_cons.mp h with rfl | h
    · omega
    · have := ih x h; omega

open OdfModel.Props.C03 in
/-- the document `load` built for the folder `Q` of the package -/
def LoadedAt (p : Package) (d : Doc) (Q : Str) (o : Doc) : Prop :=
  let man := manifestlist p.manifest
  let keys := man.map (·.1)
  (Q, o) ∈ objects 0 [] d ∧ o.folder = folderOfPath Q ∧ o.pictures = picsAt p man keys Q ∧ o.extras = extrasAt p man keys Q
  ∧ (Q ≠ [] → o.id = keys.idxOf Q + 1 ∧ o.mimetype = ((man.find? (fun e => e.1 == Q)).map (·.2)).getD [])

open OdfModel.Props.C03 in
/-- every folder that `load` recognises as a sub-document (and the top folder "") has its document in the tree,
    stored — by `save` — under that very folder -/
theorem loaded_at (p : Package) (d : Doc) (hl : load p = some d) (Q : Str)
    (hQ : Q = [] ∨ ∃ P, (P, Q) ∈ allPairs ((manifestlist p.manifest).map (·.1))) :
    d.folder = [] ∧ ∃ o, LoadedAt p d Q o := by
  unfold load at hl
  simp only at hl
  split at hl
  · generalize hb : buildDoc p (manifestlist p.manifest) ((manifestlist p.manifest).map (·.1))
      (loadFuel ((manifestlist p.manifest).map (·.1))) [] = b at hl
    cases b with
    | mk id mt hs pics th ex fo kids =>
      simp only [Option.some.injEq] at hl
      subst hl
      have hfo : fo = [] := by
        have := congrArg Doc.folder hb
        rw [buildDoc_folder] at this
        simpa [folderOfPath] using this.symm
      have hkids : kids = (buildDoc p (manifestlist p.manifest) ((manifestlist p.manifest).map (·.1))
          (loadFuel ((manifestlist p.manifest).map (·.1))) []).children := by rw [hb]
      refine ⟨hfo, ?_⟩
      rcases hQ with rfl | ⟨P, hP⟩
      · refine ⟨⟨0, detectMimetype p, hs, pics, thumbOf p (manifestlist p.manifest), ex, fo, kids⟩, ?_, by simpa [folderOfPath] using hfo, ?_, ?_, fun h => absurd rfl h⟩
        · rw [objects_head]; exact List.mem_cons_self
        · have := congrArg Doc.pictures hb
          simp only [loadFuel] at this
          exact this.symm
        · have := congrArg Doc.extras hb
          simp only [loadFuel] at this
          exact this.symm
      · obtain ⟨_, c, hc, e, hin⟩ := allPairs_spec _ (P, Q) hP
        simp only at e hin
        have hdep : depth Q ≤ loadFuel ((manifestlist p.manifest).map (·.1)) := by
          have h1 : depth Q ≤ Q.length := List.count_le_length
          have h2 := length_le_sum_lengths _ Q hin
          simp only [loadFuel]; omega
        have := reach p (manifestlist p.manifest) _ (loadFuel ((manifestlist p.manifest).map (·.1))) Q.length Q
          (Nat.le_refl _) ⟨P, hP⟩ hdep
        rw [← hkids] at this
        refine ⟨buildDoc p (manifestlist p.manifest) ((manifestlist p.manifest).map (·.1))
          (loadFuel ((manifestlist p.manifest).map (·.1)) - depth Q) Q, ?_, buildDoc_folder _ _ _ _ _, ?_, ?_, fun _ => ⟨?_, ?_⟩⟩
        · rw [objects_head]; exact List.mem_cons_of_mem _ this
        all_goals (cases (loadFuel ((manifestlist p.manifest).map (·.1)) - depth Q) <;> rfl)
  · cases hl


open OdfModel.Props.C03 in
/-- **C16 (`reload_keeps_refs`, full strength)**: for every package that loads, and every folder `Q` that
    `load` recognises as a sub-document — any chain of listed "Object <digits>/" folders: any numbering, any
    number of digits, any nesting depth, wherever its entries stand in the manifest — the reference
    "./Object …" (= "." + the folder attribute `load` gives it) names, after save, the folder that holds
    content.xml and styles.xml of the document loaded from `Q`, declared with the media type the manifest gave `Q`. -/
theorem reload_keeps_refs (p : Package) (d : Doc) (hl : load p = some d) :
    ∀ x ∈ allPairs ((manifestlist p.manifest).map (·.1)),
      refResolves (save d) (46 :: folderOfPath x.2) (((manifestlist p.manifest).map (·.1)).idxOf x.2 + 1)
        ((((manifestlist p.manifest).find? (fun e => e.1 == x.2)).map (·.2)).getD []) = true := by
  intro x hx
  obtain ⟨_, c, hc, e, _⟩ := allPairs_spec _ x hx
  have hQl : x.2.getLast? = some 47 := by rw [e, List.getLast?_append, (isComp_facts c hc).2.1]; rfl
  have hne : x.2 ≠ [] := by intro he; rw [he] at hQl; simp at hQl
  obtain ⟨hfo, o, hobj, hof, _, _, hid⟩ := loaded_at p d hl x.2 (Or.inr ⟨x.1, hx⟩)
  obtain ⟨hoid, homt⟩ := hid hne
  have hL : d.folder.length = 0 := by rw [hfo]; rfl
  have hobj' : (x.2, o) ∈ objects d.folder.length [] d := by rw [hL]; exact hobj
  have hk : (x.2, o) ∈ objectsK d.folder.length d.children := by
    rw [objects_head] at hobj'
    rcases List.mem_cons.mp hobj' with h | h
    · exact absurd (congrArg Prod.fst h) hne
    · exact h
  have hparts := C03.parts_present d (x.2, o) hobj'
  have hmt := (C03.root_and_object_mediatypes d).2 (x.2, o) hk
  have hz1 := hparts.1 ⟨x.2 ++ sStyles, .deflated, [], .part .styles o.id⟩ (by simp [C03.ownXmlZ])
  have hz2 := hparts.1 ⟨x.2 ++ sContent, .deflated, [], .part .content o.id⟩ (by simp [C03.ownXmlZ])
  have h3 : x.2.isEmpty = false := by cases hx2 : x.2 with | nil => exact absurd hx2 hne | cons a b => rfl
  have hF : List.drop 2 (46 :: folderOfPath x.2) ++ sSlash = x.2 := by
    simp only [folderOfPath, h3, Bool.false_eq_true, if_false, List.drop_succ_cons, List.drop_zero, sSlash]
    exact (eq_dropLast_append_of_getLast? x.2 47 hQl).symm
  have hT : List.take 2 (46 :: folderOfPath x.2) = [46, 47] := by
    simp [folderOfPath, h3]
  simp only [refResolves, hF, hT, Bool.and_eq_true, List.any_eq_true]
  refine ⟨⟨⟨by simp, ⟨_, hz2, by simp [hoid]⟩⟩, ⟨_, hz1, by simp [hoid]⟩⟩, ⟨_, hmt, by simp [homt]⟩⟩

open OdfModel.Props.C03 in
theorem chainEnd_in_pairs (keys : List Str) : ∀ (f : Nat) (op rest : Str),
    chainEnd keys f op rest = op ∨ ∃ x ∈ chainPairs keys f op rest, x.2 = chainEnd keys f op rest := by
  intro f
  induction f with
  | zero => intro op rest; exact Or.inl rfl
  | succ f ih =>
    intro op rest
    simp only [chainEnd, chainPairs]
    cases ho : objComp rest with
    | none => exact Or.inl rfl
    | some c =>
      simp only
      by_cases hk : keys.contains (op ++ c) = true
      · simp only [hk, if_true]
        right
        rcases ih (op ++ c) (rest.drop c.length) with h | ⟨x, hx, hxe⟩
        · exact ⟨(op, op ++ c), List.mem_cons_self, h.symm⟩
        · exact ⟨x, List.mem_cons_of_mem _ hx, hxe⟩
      · simp only [hk]; exact Or.inl rfl

open OdfModel.Props.C03 in
/-- the folder a manifest key is dispatched to is the top folder or a sub-document folder -/
theorem chainOf_known (keys : List Str) (k : Str) (hk : k ∈ keys) :
    chainOf keys k = [] ∨ ∃ P', (P', chainOf keys k) ∈ allPairs keys := by
  rcases chainEnd_in_pairs keys k.length [] k with h | ⟨x, hx, hxe⟩
  · exact Or.inl h
  · right
    refine ⟨x.1, ?_⟩
    simp only [allPairs, foldl_addPair_mem, List.not_mem_nil, false_or, List.mem_flatMap]
    refine ⟨k, hk, ?_⟩
    have : (x.1, chainOf keys k) = x := by unfold chainOf; rw [← hxe]
    rw [this]; exact hx

theorem load_reads (p : Package) (d : Doc) (hl : load p = some d) :
    ∀ e ∈ manifestlist p.manifest, needsRead ((manifestlist p.manifest).map (·.1)) e = true →
      (zread p.members e.1).isSome = true := by
  unfold load at hl
  simp only at hl
  split at hl
  · rename_i hall
    intro e he hr
    simp only [List.all_eq_true, Bool.or_eq_true, Bool.not_eq_true'] at hall
    rcases hall e he with h | h
    · rw [hr] at h; cases h
    · exact h
  · cases hl

open OdfModel.Props.C03 in
/-- **C16 (other files travel — `load_carries_files`, full strength)**: for every package that loads, every
    manifest entry that `load` does not interpret (not a picture, the thumbnail, a parsed part, or one of the
    entries `save` regenerates) — at the top level or below a sub-document folder of any depth, e.g.
    "Object 1/meta.xml", "Object 12345/Object 1/Configurations2/menu.xml" — is, after save, listed under the
    same path with the same media type and, unless it is a directory name, present as a member with exactly the
    bytes the source held; META-INF/documentsignatures.xml excepted. -/
theorem load_carries_files (p : Package) (d : Doc) (hl : load p = some d) (e : Str × Str)
    (he : e ∈ manifestlist p.manifest)
    (hk : isKept (chainOf ((manifestlist p.manifest).map (·.1)) e.1) e = true)
    (hs : e.1.drop (chainOf ((manifestlist p.manifest).map (·.1)) e.1).length ≠ sDocSig) :
    (∃ fl, (⟨e.1, e.2, fl⟩ : ME) ∈ (save d).man) ∧
    ((e.1.drop (chainOf ((manifestlist p.manifest).map (·.1)) e.1).length).getLast? ≠ some 47 →
      ∃ b, zread p.members e.1 = some b ∧ (⟨e.1, .deflated, [], .bytes b⟩ : ZE) ∈ (save d).zip) := by
  have hkey : e.1 ∈ (manifestlist p.manifest).map (·.1) := List.mem_map_of_mem he
  have hent : e ∈ entriesAt (manifestlist p.manifest) ((manifestlist p.manifest).map (·.1))
      (chainOf ((manifestlist p.manifest).map (·.1)) e.1) := (mem_entriesAt _ _ _ e).mpr ⟨he, rfl⟩
  have hek := entry_key _ _ _ e hent
  generalize hP : chainOf ((manifestlist p.manifest).map (·.1)) e.1 = P at hk hs hent hek
  have hPk : P = [] ∨ ∃ P', (P', P) ∈ allPairs ((manifestlist p.manifest).map (·.1)) := by
    rw [← hP]; exact chainOf_known _ e.1 hkey
  obtain ⟨hfo, o, hobj, _, _, hex, _⟩ := loaded_at p d hl P hPk
  have hL : d.folder.length = 0 := by rw [hfo]; rfl
  have hx : toExtra p P e ∈ o.extras := by
    rw [hex]; exact (mem_extrasAt p _ _ P _).mpr ⟨e, hent, hk, rfl⟩
  have hw := C03.extras_present d (P, o) (by rw [hL]; exact hobj) (toExtra p P e) hx (by simpa [toExtra] using hs)
  obtain ⟨⟨fl, h1⟩, h2⟩ := hw
  have hpath : P ++ (toExtra p P e).filename = e.1 := by simp only [toExtra]; exact hek.symm
  simp only [hpath] at h1 h2
  refine ⟨⟨fl, by simpa [toExtra] using h1⟩, ?_⟩
  intro hne
  have hr : needsRead ((manifestlist p.manifest).map (·.1)) e = true := by
    simp only [needsRead, hP, hk, Bool.true_and, Bool.or_eq_true, bne_iff_ne, ne_eq]
    right
    exact hne
  have hsome := load_reads p d hl e he hr
  cases hz : zread p.members e.1 with
  | none => rw [hz] at hsome; cases hsome
  | some b =>
    refine ⟨b, rfl, h2 b ?_⟩
    have : ((e.1.drop P.length).getLast? == some 47) = false := by simpa using hne
    simp [toExtra, this, hz]

theorem foldl_register_distinct : ∀ (l acc : List Pic), ((acc ++ l).map (·.href)).Nodup →
    l.foldl register acc = acc ++ l := by
  intro l
  induction l with
  | nil => intro acc _; simp
  | cons x xs ih =>
    intro acc h
    simp only [List.foldl_cons]
    have hx : acc.any (fun q => q.href == x.href) = false := by
      cases ha : acc.any (fun q => q.href == x.href) with
      | false => rfl
      | true =>
        exfalso
        simp only [List.any_eq_true, beq_iff_eq] at ha
        obtain ⟨q, hq, hqe⟩ := ha
        simp only [List.map_append, List.map_cons, List.nodup_append] at h
        exact h.2.2 q.href (List.mem_map_of_mem hq) x.href List.mem_cons_self hqe
    have hr : register acc x = acc ++ [x] := by simp [register, hx]
    rw [hr, ih (acc ++ [x]) (by simpa [List.append_assoc] using h)]
    simp

open OdfModel.Props.C03 in
/-- **C16 (pictures travel — `load_carries_pictures`, full strength)**: every "Pictures/…" entry of the package, at
    the top level or below a sub-document folder of any depth, is after load + save a member under the same
    path, stored, with exactly the bytes the source held, listed with the same media type. -/
theorem load_carries_pictures (p : Package) (d : Doc) (hl : load p = some d) (e : Str × Str)
    (he : e ∈ manifestlist p.manifest)
    (hp : isPicturePath (e.1.drop (chainOf ((manifestlist p.manifest).map (·.1)) e.1).length) = true) :
    ∃ b, zread p.members e.1 = some b ∧ (⟨e.1, .stored, [], .bytes b⟩ : ZE) ∈ (save d).zip
      ∧ (⟨e.1, e.2, false⟩ : ME) ∈ (save d).man := by
  have hkey : e.1 ∈ (manifestlist p.manifest).map (·.1) := List.mem_map_of_mem he
  have hent : e ∈ entriesAt (manifestlist p.manifest) ((manifestlist p.manifest).map (·.1))
      (chainOf ((manifestlist p.manifest).map (·.1)) e.1) := (mem_entriesAt _ _ _ e).mpr ⟨he, rfl⟩
  have hek := entry_key _ _ _ e hent
  have hr : needsRead ((manifestlist p.manifest).map (·.1)) e = true := by simp [needsRead, hp]
  have hsome := load_reads p d hl e he hr
  generalize hP : chainOf ((manifestlist p.manifest).map (·.1)) e.1 = P at hp hent hek
  have hPk : P = [] ∨ ∃ P', (P', P) ∈ allPairs ((manifestlist p.manifest).map (·.1)) := by
    rw [← hP]; exact chainOf_known _ e.1 hkey
  obtain ⟨hfo, o, hobj, _, hpics, _, _⟩ := loaded_at p d hl P hPk
  have hL : d.folder.length = 0 := by rw [hfo]; rfl
  cases hz : zread p.members e.1 with
  | none => rw [hz] at hsome; cases hsome
  | some b =>
    -- the registrations of this document have pairwise distinct names, so each is kept as it is
    have hdist : ((((entriesAt (manifestlist p.manifest) ((manifestlist p.manifest).map (·.1)) P).filter
        (fun e => isPicturePath (e.1.drop P.length))).map
        (fun e => (⟨e.1.drop P.length, .image ((zread p.members e.1).getD []), e.2⟩ : Pic))).map (·.href)).Nodup := by
      rw [List.map_map]
      apply nodup_map_of_nodup_map _ (fun e : Str × Str => e.1)
      · have h1 : ((entriesAt (manifestlist p.manifest) ((manifestlist p.manifest).map (·.1)) P).filter
            (fun e => isPicturePath (e.1.drop P.length))).Sublist (manifestlist p.manifest) :=
          List.Sublist.trans List.filter_sublist (by unfold entriesAt; exact List.filter_sublist)
        exact List.Nodup.sublist (List.Sublist.map _ h1) (manifestlist_nodup _)
      · intro a ha b hb hab
        have ka := entry_key _ _ P a (List.mem_filter.mp ha).1
        have kb := entry_key _ _ P b (List.mem_filter.mp hb).1
        simp only [Function.comp] at hab
        rw [ka, kb, hab]
    have hpic : (⟨e.1.drop P.length, .image b, e.2⟩ : Pic) ∈ o.pictures := by
      rw [hpics]
      unfold picsAt
      rw [foldl_register_distinct _ [] (by simpa using hdist)]
      simp only [List.nil_append, List.mem_map, List.mem_filter]
      exact ⟨e, ⟨hent, hp⟩, by simp [hz]⟩
    have := C03.pictures_present d (P, o) (by rw [hL]; exact hobj) _ hpic
    simp only [picContent] at this
    rw [← hek] at this
    exact ⟨b, rfl, this.1, this.2⟩

/-- the three travel theorems applied: a package with "Object 7/" listed after one of its files, holding a picture,
    a file, a meta.xml of its own and an object of its own comes back with every one of these members in place -/
theorem reload_sample :
    (load C03.samplePackage).map (fun d =>
      hasMember (save d) (objPrefix 7 ++ sContent) && hasMember (save d) (objPrefix 7 ++ sPictures ++ [98])
       && hasMember (save d) (objPrefix 7 ++ [120]) && hasMember (save d) (objPrefix 7 ++ sMeta)
       && hasMember (save d) (objPrefix 7 ++ objPrefix 1 ++ sContent) && hasMember (save d) (objPrefix 5 ++ [121])
       && refResolves (save d) ([46] ++ (sSlash ++ objPrefix 7 ++ objPrefix 1).dropLast) 12 sOdt)
      = some true := by
  decide


end OdfModel.Props.C16

/-
  Property C16 — references to embedded sub-documents resolve to where they are stored.
  Theorems about `OdfModel.Pkg.step/run` (model of `addObject`), `save` and `load`; tied to
  odf/opendocument.py by the correspondence run of harness/c16.py (attachment histories and loaded
  packages through the real library and through drv_pkg).

  FULL STATEMENT (`RefsResolve`, below): for every attachment history, every reference returned by
  addObject for an object that hangs under the saved document names the folder that holds the object's
  content.xml and styles.xml and that the manifest declares with the object's media type.
  It is FALSE for the code as it is (`not_refsResolve`): `save` names folders by POSITION in
  `childobjects`, `addObject` by the parent's `folder` attribute at attach time or by the caller's name.
  Proved: `ref_names_folder_partial` (default names, parents attached to the root chain first) and the
  three counter-examples `finding_*`; for `load`: `reload_keeps_refs_partial`, `finding_noncontiguous`, `finding_permuted_manifest_order`.
-/
import OdfModel.Pkg
import OdfModel.Props.C03
namespace OdfModel.Props.C16
open OdfModel OdfModel.Pkg

/-! ### the invariant: the `folder` attribute agrees with the position -/

mutual
/-- `Pos F t`: in the tree `t`, stored at positional folder `F`, every document's `folder` attribute
    `a` satisfies `a ++ "/" = "/" ++ (its positional folder)` -/
def Pos (F : Str) : Doc → Prop
  | ⟨_, _, _, _, _, _, fo, kids⟩ => fo ++ sSlash = sSlash ++ F ∧ PosK F 1 kids
def PosK (F : Str) (k : Nat) : List Doc → Prop
  | [] => True
  | c :: cs => Pos (F ++ objPrefix k) c ∧ PosK F (k+1) cs
end

theorem posK_snoc (F : Str) (x : Doc) : ∀ (ds : List Doc) (k : Nat),
    PosK F k (ds ++ [x]) ↔ PosK F k ds ∧ Pos (F ++ objPrefix (k + ds.length)) x := by
  intro ds
  induction ds with
  | nil => intro k; simp [PosK]
  | cons d ds ih =>
    intro k
    simp only [List.cons_append, PosK, ih (k+1), List.length_cons, and_assoc]
    have : k + 1 + ds.length = k + (ds.length + 1) := by omega
    rw [this]

theorem objectsK_snoc (F : Str) (x : Doc) : ∀ (ds : List Doc) (k : Nat),
    objectsK F k (ds ++ [x]) = objectsK F k ds ++ objects (F ++ objPrefix (k + ds.length)) x := by
  intro ds
  induction ds with
  | nil => intro k; simp [objectsK]
  | cons d ds ih =>
    intro k
    simp only [List.cons_append, objectsK, ih (k+1), List.length_cons, List.append_assoc]
    have : k + 1 + ds.length = k + (ds.length + 1) := by omega
    rw [this]

theorem objects_head (F : Str) (d : Doc) : objects F d = (F, d) :: objectsK F 1 d.children := by
  cases d with
  | mk id mt hs pics th ex fo kids => simp [objects]

/-- `L'` still has, at the same folder, every object (id, media type) that `L` has -/
def Sub (L L' : List (Str × Doc)) : Prop :=
  ∀ q ∈ L, ∃ q' ∈ L', q'.1 = q.1 ∧ q'.2.id = q.2.id ∧ q'.2.mimetype = q.2.mimetype

theorem Sub.refl (L : List (Str × Doc)) : Sub L L := fun q hq => ⟨q, hq, rfl, rfl, rfl⟩

/-- `L` holds the object `c` at a folder `G ++ "/"` where the folder attribute given to it is `"/" ++ G` -/
def New (c : Doc) (f : Str) (L : List (Str × Doc)) : Prop :=
  ∃ q ∈ L, ∃ G, q.2.id = c.id ∧ q.2.mimetype = c.mimetype ∧ f = sSlash ++ G ∧ q.1 = G ++ sSlash

mutual
theorem attach_ok (p : Nat) (c : Doc) (hc : c.children = []) (F : Str) (t t' : Doc) (f : Str)
    (hpos : Pos F t) (h : attachIn p c none t = some (t', f)) :
    Pos F t' ∧ t'.id = t.id ∧ t'.mimetype = t.mimetype
      ∧ Sub (objectsK F 1 t.children) (objectsK F 1 t'.children) ∧ New c f (objectsK F 1 t'.children) := by
  cases t with
  | mk id mt hs pics th ex fo kids =>
    simp only [attachIn] at h
    simp only [Pos] at hpos
    by_cases hid : id = p
    · subst hid
      simp only [if_true, Option.some.injEq, Prod.mk.injEq] at h
      obtain ⟨rfl, rfl⟩ := h
      have hfo : (fo ++ sSlashObjectSp ++ dec (kids.length + 1)) ++ sSlash
          = sSlash ++ (F ++ objPrefix (1 + kids.length)) := by
        have e1 : sSlashObjectSp = sSlash ++ sObjectSp := by decide
        have e2 : 1 + kids.length = kids.length + 1 := by omega
        rw [e1, e2]
        simp only [objPrefix, ← List.append_assoc, hpos.1]
      refine ⟨?_, rfl, rfl, ?_, ?_⟩
      · simp only [Pos]
        refine ⟨hpos.1, (posK_snoc F _ kids 1).mpr ⟨hpos.2, ?_⟩⟩
        cases c with
        | mk cid cmt chs cpics cth cex cfo ckids =>
          simp only at hc
          subst hc
          simp only [Doc.setFolder, Pos, PosK, and_true]
          exact hfo
      · intro q hq
        refine ⟨q, ?_, rfl, rfl, rfl⟩
        simp only [objectsK_snoc, List.mem_append]
        exact Or.inl hq
      · refine ⟨(F ++ objPrefix (1 + kids.length), c.setFolder (fo ++ sSlashObjectSp ++ dec (kids.length + 1))), ?_, F ++ sObjectSp ++ dec (kids.length + 1), rfl, rfl, ?_, ?_⟩
        · simp only [objectsK_snoc, List.mem_append]
          right
          rw [objects_head]; exact List.mem_cons_self
        · have e1 : sSlashObjectSp = sSlash ++ sObjectSp := by decide
          rw [e1]
          simp only [← List.append_assoc, hpos.1]
        · have e2 : 1 + kids.length = kids.length + 1 := by omega
          simp only [objPrefix, e2, List.append_assoc]
    · simp only [hid, if_false] at h
      cases hk : attachInK p c none kids with
      | none => simp [hk] at h
      | some r =>
        obtain ⟨kids', f'⟩ := r
        simp only [hk, Option.some.injEq, Prod.mk.injEq] at h
        obtain ⟨rfl, rfl⟩ := h
        have := attach_okK p c hc F 1 kids kids' f' hpos.2 hk
        exact ⟨by simp only [Pos]; exact ⟨hpos.1, this.1⟩, rfl, rfl, this.2.1, this.2.2⟩
theorem attach_okK (p : Nat) (c : Doc) (hc : c.children = []) (F : Str) (k : Nat) (ds ds' : List Doc) (f : Str)
    (hpos : PosK F k ds) (h : attachInK p c none ds = some (ds', f)) :
    PosK F k ds' ∧ Sub (objectsK F k ds) (objectsK F k ds') ∧ New c f (objectsK F k ds') := by
  cases ds with
  | nil => simp [attachInK] at h
  | cons d rest =>
    simp only [attachInK] at h
    simp only [PosK] at hpos
    cases h1 : attachIn p c none d with
    | some r =>
      obtain ⟨d', f'⟩ := r
      simp only [h1, Option.some.injEq, Prod.mk.injEq] at h
      obtain ⟨rfl, rfl⟩ := h
      have := attach_ok p c hc (F ++ objPrefix k) d d' f' hpos.1 h1
      obtain ⟨hp, hid, hmt, hsub, hnew⟩ := this
      refine ⟨by simp only [PosK]; exact ⟨hp, hpos.2⟩, ?_, ?_⟩
      · intro q hq
        simp only [objectsK, List.mem_append] at hq ⊢
        rcases hq with hq | hq
        · rw [objects_head] at hq
          rcases List.mem_cons.mp hq with hq | hq
          · subst hq
            exact ⟨(F ++ objPrefix k, d'), Or.inl (by rw [objects_head]; exact List.mem_cons_self), rfl, hid, hmt⟩
          · obtain ⟨q', hq', e⟩ := hsub q hq
            exact ⟨q', Or.inl (by rw [objects_head]; exact List.mem_cons_of_mem _ hq'), e⟩
        · exact ⟨q, Or.inr hq, rfl, rfl, rfl⟩
      · obtain ⟨q, hq, G, e⟩ := hnew
        refine ⟨q, ?_, G, e⟩
        simp only [objectsK, List.mem_append]
        exact Or.inl (by rw [objects_head]; exact List.mem_cons_of_mem _ hq)
    | none =>
      simp only [h1] at h
      cases h2 : attachInK p c none rest with
      | none => simp [h2] at h
      | some r =>
        obtain ⟨rest', f'⟩ := r
        simp only [h2, Option.some.injEq, Prod.mk.injEq] at h
        obtain ⟨rfl, rfl⟩ := h
        have := attach_okK p c hc F (k+1) rest rest' f' hpos.2 h2
        obtain ⟨hp, hsub, hnew⟩ := this
        refine ⟨by simp only [PosK]; exact ⟨hpos.1, hp⟩, ?_, ?_⟩
        · intro q hq
          simp only [objectsK, List.mem_append] at hq ⊢
          rcases hq with hq | hq
          · exact ⟨q, Or.inl hq, rfl, rfl, rfl⟩
          · obtain ⟨q', hq', e⟩ := hsub q hq
            exact ⟨q', Or.inr hq', e⟩
        · obtain ⟨q, hq, G, e⟩ := hnew
          refine ⟨q, ?_, G, e⟩
          simp only [objectsK, List.mem_append]
          exact Or.inr hq
end

mutual
theorem hasId_attach (p : Nat) (c : Doc) (n : Option Str) (t : Doc) (h : hasId p t = true) :
    (attachIn p c n t).isSome = true := by
  cases t with
  | mk id mt hs pics th ex fo kids =>
    simp only [hasId, Bool.or_eq_true, beq_iff_eq] at h
    simp only [attachIn]
    by_cases hid : id = p
    · simp [hid]
    · have hk := hasId_attachK p c n kids (by rcases h with h | h; exact absurd h hid; exact h)
      simp only [hid, if_false]
      cases h2 : attachInK p c n kids with
      | none => simp [h2] at hk
      | some r => simp
theorem hasId_attachK (p : Nat) (c : Doc) (n : Option Str) (ds : List Doc) (h : hasIdK p ds = true) :
    (attachInK p c n ds).isSome = true := by
  cases ds with
  | nil => simp [hasIdK] at h
  | cons d rest =>
    simp only [hasIdK, Bool.or_eq_true] at h
    simp only [attachInK]
    cases h1 : attachIn p c n d with
    | some r => simp
    | none =>
      rcases h with h | h
      · have := hasId_attach p c n d h; simp [h1] at this
      · have := hasId_attachK p c n rest h
        cases h2 : attachInK p c n rest with
        | none => simp [h2] at this
        | some r => simp
end

/-! ### the theorem for well-ordered histories -/

/-- every reference returned so far names the positional folder of its object under the root -/
def RefsOK (h : Hist) : Prop :=
  ∀ x ∈ h.refs, ∃ q ∈ objectsK [] 1 h.root.children, ∃ G,
    q.2.id = x.1 ∧ q.2.mimetype = x.2.1 ∧ x.2.2 = sDotSlashStr ++ G ∧ q.1 = G ++ sSlash
where sDotSlashStr : Str := [46, 47]

def Inv (h : Hist) : Prop := Pos [] h.root ∧ RefsOK h

theorem step_inv (h h' : Hist) (op : Op) (hinv : Inv h) (hord : orderedOp h op = true)
    (hstep : step h op = some h') : Inv h' := by
  simp only [orderedOp, Bool.and_eq_true] at hord
  obtain ⟨⟨hname, hpar⟩, hchild⟩ := hord
  have hn : op.name = none := by cases hh : op.name <;> simp [hh] at hname ⊢
  simp only [step] at hstep
  cases hf : h.pool.find? (fun d => d.id == op.child) with
  | none => simp [hf] at hstep
  | some c =>
    simp only [hf] at hstep hchild
    have hc : c.children = [] := by simpa using hchild
    have hsome := hasId_attach op.parent c op.name h.root hpar
    cases ha : attachIn op.parent c op.name h.root with
    | none => simp [ha] at hsome
    | some r =>
      obtain ⟨root', f⟩ := r
      simp only [ha, Option.some.injEq] at hstep
      subst hstep
      rw [hn] at ha
      obtain ⟨hp, _, _, hsub, hnew⟩ := attach_ok op.parent c hc [] h.root root' f hinv.1 ha
      refine ⟨hp, ?_⟩
      intro x hx
      simp only [List.mem_append, List.mem_singleton] at hx
      rcases hx with hx | hx
      · obtain ⟨q, hq, G, e1, e2, e3, e4⟩ := hinv.2 x hx
        obtain ⟨q', hq', f1, f2, f3⟩ := hsub q hq
        exact ⟨q', hq', G, by rw [f2, e1], by rw [f3, e2], e3, by rw [f1, e4]⟩
      · subst hx
        obtain ⟨q, hq, G, e1, e2, e3, e4⟩ := hnew
        refine ⟨q, hq, G, e1, e2, ?_, e4⟩
        simp only [e3, RefsOK.sDotSlashStr, sSlash]
        rfl

theorem run_inv : ∀ (ops : List Op) (h h' : Hist), Inv h → ordered h ops = true → run h ops = some h' → Inv h' := by
  intro ops
  induction ops with
  | nil => intro h h' hinv _ hr; simp only [run, Option.some.injEq] at hr; subst hr; exact hinv
  | cons op ops ih =>
    intro h h' hinv hord hr
    simp only [ordered, Bool.and_eq_true] at hord
    simp only [run] at hr
    cases hs : step h op with
    | none => simp [hs] at hr
    | some h1 =>
      simp only [hs] at hr hord
      exact ih h1 h' (step_inv h h1 op hinv hord.1 hs) hord.2 hr

theorem resolves_of_refsOK (h : Hist) (hr : RefsOK h) :
    ∀ x ∈ h.refs, refResolves (save h.root) x.2.2 x.1 x.2.1 = true := by
  intro x hx
  obtain ⟨q, hq, G, e1, e2, e3, e4⟩ := hr x hx
  have hobj : q ∈ objects [] h.root := by rw [objects_head]; exact List.mem_cons_of_mem _ hq
  have hparts := C03.parts_present h.root q hobj
  have hmt := (C03.root_and_object_mediatypes h.root).2 q hq
  have hz1 := hparts.1 ⟨q.1 ++ sStyles, .deflated, [], .part .styles q.2.id⟩ (by simp [C03.ownXmlZ])
  have hz2 := hparts.1 ⟨q.1 ++ sContent, .deflated, [], .part .content q.2.id⟩ (by simp [C03.ownXmlZ])
  simp only [refResolves, e3, RefsOK.sDotSlashStr, Bool.and_eq_true, List.any_eq_true]
  have hd : List.drop 2 ([46, 47] ++ G) = G := by simp
  have ht : List.take 2 ([46, 47] ++ G) = [46, 47] := by simp
  rw [hd, ht, ← e4]
  refine ⟨⟨⟨by simp, ⟨_, hz2, by simp [e1]⟩⟩, ⟨_, hz1, by simp [e1]⟩⟩, ⟨_, hmt, by simp [e2]⟩⟩

/-- the full-strength statement: for EVERY attachment history, every returned reference resolves -/
def RefsResolve : Prop :=
  ∀ (h0 : Hist) (ops : List Op) (h : Hist), Inv h0 → run h0 ops = some h →
    ∀ x ∈ h.refs, refResolves (save h.root) x.2.2 x.1 x.2.1 = true

/-- **C16 (`ref_names_folder`, proved part)**: start from a document whose references so far are good
    (e.g. a fresh document: `inv_fresh`).  For every attachment history in which all objects get their
    default name and every parent is attached to the root chain before its children are attached
    (`ordered h0 ops`, decidable), every reference returned by addObject — for objects at any nesting
    depth — is "./" ++ G where the folder "G/" holds, in the saved package, content.xml and styles.xml of
    exactly that object, and the manifest declares "G/" with that object's media type. -/
theorem ref_names_folder_partial (h0 : Hist) (ops : List Op) (h : Hist) (hinit : Inv h0)
    (hord : ordered h0 ops = true) (hrun : run h0 ops = some h) :
    ∀ x ∈ h.refs, refResolves (save h.root) x.2.2 x.1 x.2.1 = true :=
  resolves_of_refsOK h (run_inv ops h0 h hinit hord hrun).2

/-- a document that was just created (no objects, folder "") with any pool of unattached documents
    satisfies the invariant -/
theorem inv_fresh (id : Nat) (mt : Str) (hs : Bool) (pics : List Pic) (th : Option Thumb) (ex : List Extra)
    (pool : List Doc) : Inv ⟨⟨id, mt, hs, pics, th, ex, [], []⟩, pool, []⟩ := by
  refine ⟨by simp [Pos, PosK], ?_⟩
  intro x hx; simp at hx

/-! ### counter-examples (each replayed on the real library by harness/c16.py) -/

def leaf (id : Nat) (mt : Str) : Doc := ⟨id, mt, false, [], none, [], [], []⟩
/-- `application/x-a`, `application/x-b` stand-ins: only their being different matters -/
def mtA : Str := [97]
def mtB : Str := [98]

/-- all references of a finished history resolve -/
def allResolve (h : Hist) : Bool := h.refs.all (fun x => refResolves (save h.root) x.2.2 x.1 x.2.1)

def hasMember (o : Out) (n : Str) : Bool := o.zip.any (fun e => e.name == n)

/-- the hypotheses of the partial theorem are satisfiable: root ← 1, root ← 2, 1 ← 3 -/
theorem ordered_sample :
    ordered ⟨leaf 0 mtA, [leaf 1 mtB, leaf 2 mtA, leaf 3 mtB], []⟩ [⟨0, 1, none⟩, ⟨0, 2, none⟩, ⟨1, 3, none⟩] = true
    ∧ (run ⟨leaf 0 mtA, [leaf 1 mtB, leaf 2 mtA, leaf 3 mtB], []⟩ [⟨0, 1, none⟩, ⟨0, 2, none⟩, ⟨1, 3, none⟩]).map allResolve
        = some true := by
  decide

/-- **finding KF-C16-1** (`sig=explicit-objectname`): `d.addObject(o1); d.addObject(o2, "MyObj")` returns
    ".MyObj" for `o2`, but save stores it as "Object 2/". -/
theorem finding_explicit_objectname :
    (run ⟨leaf 0 mtA, [leaf 1 mtB, leaf 2 mtB], []⟩ [⟨0, 1, none⟩, ⟨0, 2, some [77, 121, 79, 98, 106]⟩]).map
      (fun h => (h.refs.map (·.2.2), hasMember (save h.root) (objPrefix 2 ++ sContent), allResolve h))
    = some ([[46, 47, 79, 98, 106, 101, 99, 116, 32, 49], [46, 77, 121, 79, 98, 106]],
            true, false) := by
  decide

/-- **finding KF-C16-2** (`sig=child-attached-before-parent`): `o1.addObject(o2)` while `o1` is not yet
    attached returns "./Object 1" (o1.folder is still ""), then `d.addObject(o1)` returns "./Object 1" as
    well; save stores o2 in "Object 1/Object 1/". -/
theorem finding_child_before_parent :
    (run ⟨leaf 0 mtA, [leaf 1 mtB, leaf 2 mtA], []⟩ [⟨1, 2, none⟩, ⟨0, 1, none⟩]).map
      (fun h => (h.refs.map (·.2.2), ordered ⟨leaf 0 mtA, [leaf 1 mtB, leaf 2 mtA], []⟩ [⟨1, 2, none⟩, ⟨0, 1, none⟩],
                 allResolve h))
    = some ([[46, 47, 79, 98, 106, 101, 99, 116, 32, 49], [46, 47, 79, 98, 106, 101, 99, 116, 32, 49]], false, false) := by
  decide

theorem not_refsResolve : ¬ RefsResolve := by
  intro h
  have h1 := finding_explicit_objectname
  cases hr : run ⟨leaf 0 mtA, [leaf 1 mtB, leaf 2 mtB], []⟩ [⟨0, 1, none⟩, ⟨0, 2, some [77, 121, 79, 98, 106]⟩] with
  | none => rw [hr] at h1; cases h1
  | some hh =>
    rw [hr] at h1
    have hall := h _ _ hh (inv_fresh 0 mtA false [] none [] _) hr
    have : allResolve hh = true := by
      simp only [allResolve, List.all_eq_true]; exact hall
    simp only [Option.map_some, Option.some.injEq, Prod.mk.injEq] at h1
    rw [this] at h1
    exact absurd h1.2.2 (by decide)

/-! ### load: object folders are renumbered by manifest order -/

/-- for a package, what its content says about its objects: "./Object N" for every top-level object
    folder "Object N/" (`load` keeps exactly that in the `folder` attribute: "/Object N") -/
def reloadRefs (d : Doc) : List (Nat × Str × Str) :=
  d.children.map (fun c => (c.id, c.mimetype, 46 :: c.folder))

/-- after load + save, every reference "./Object N" still names the folder of the object that was
    loaded from "Object N/" -/
def reloadOK (p : Package) : Bool :=
  match load p with
  | none => true
  | some d => (reloadRefs d).all (fun x => refResolves (save d) x.2.2 x.1 x.2.1)

/-- the full-strength statement for loaded packages -/
def ReloadKeepsRefs : Prop := ∀ p, reloadOK p = true

/-- "Object 7/" is the only object folder of the package -/
def pkgObject7 : Package :=
  ⟨some sOdt,
   [(sSlash, sOdt), (sContent, sTextXml), (sStyles, sTextXml),
    (sObjectSp ++ [55, 47], mtB), (sObjectSp ++ [55, 47] ++ sContent, sTextXml), (sObjectSp ++ [55, 47] ++ sStyles, sTextXml)],
   [(sContent, [60]), (sStyles, [60]), (sObjectSp ++ [55, 47] ++ sContent, [60]), (sObjectSp ++ [55, 47] ++ sStyles, [60])], []⟩

/-- **finding KF-C16-3** (`sig=noncontiguous-object-numbering`): the object loaded from "Object 7/" keeps
    folder "/Object 7" (the content says "./Object 7") but is re-stored as "Object 1/". -/
theorem finding_noncontiguous :
    (load pkgObject7).map (fun d => (d.children.map (·.folder), (save d).man.any (fun e => e.path == objPrefix 1),
        (save d).man.any (fun e => e.path == objPrefix 7), reloadOK pkgObject7))
      = some ([[47, 79, 98, 106, 101, 99, 116, 32, 55]], true, false, false) := by
  decide

/-- "Object 1/" (media type A) and "Object 2/" (media type B), the manifest listing "Object 2/" first -/
def pkgPermuted : Package :=
  ⟨some sOdt,
   [(sSlash, sOdt), (sContent, sTextXml), (sStyles, sTextXml),
    (objPrefix 2, mtB), (objPrefix 2 ++ sContent, sTextXml), (objPrefix 2 ++ sStyles, sTextXml),
    (objPrefix 1, mtA), (objPrefix 1 ++ sContent, sTextXml), (objPrefix 1 ++ sStyles, sTextXml)],
   [(sContent, [60]), (sStyles, [60]), (objPrefix 2 ++ sContent, [60]), (objPrefix 2 ++ sStyles, [60]),
    (objPrefix 1 ++ sContent, [60]), (objPrefix 1 ++ sStyles, [60])], []⟩

/-- **finding KF-C16-8** (`sig=permuted-manifest-order`): the folders are numbered 1, 2 but listed as 2, 1:
    the sub-document loaded from "Object 2/" (id 1, media type B) is re-stored as "Object 1/", so after
    load + save "Object 2/" is declared with media type A and holds the other sub-document. -/
theorem finding_permuted_manifest_order :
    (load pkgPermuted).map (fun d => (d.children.map (fun c => (c.id, c.folder)),
        (save d).man.any (fun e => e.path == objPrefix 2 && e.mediatype == mtA), reloadOK pkgPermuted))
      = some ([(1, [47, 79, 98, 106, 101, 99, 116, 32, 50]), (2, [47, 79, 98, 106, 101, 99, 116, 32, 49])], true, false) := by
  decide

theorem not_reloadKeepsRefs : ¬ ReloadKeepsRefs := by
  intro h
  have := h pkgObject7
  have h2 := finding_noncontiguous
  cases hl : load pkgObject7 with
  | none => rw [hl] at h2; cases h2
  | some d =>
    rw [hl] at h2
    simp only [Option.map_some, Option.some.injEq, Prod.mk.injEq] at h2
    rw [this] at h2
    exact absurd h2.2.2.2 (by decide)

/-- **C16 (reload, proved part)**: if the document that `load` produced has its objects' `folder`
    attributes in positional order ("/Object 1", "/Object 2", … — i.e. the manifest lists the object
    folders contiguously numbered and in that order: `Pos [] d`), then after save every reference
    "./Object N" still names the folder of the object loaded from "Object N/", with its media type. -/
theorem reload_keeps_refs_partial (d : Doc) (hpos : Pos [] d) :
    ∀ x ∈ reloadRefs d, refResolves (save d) x.2.2 x.1 x.2.1 = true := by
  have hr : RefsOK ⟨d, [], reloadRefs d⟩ := by
    cases d with
    | mk id mt hs pics th ex fo kids =>
      simp only [Pos] at hpos
      intro x hx
      simp only [reloadRefs, List.mem_map] at hx
      obtain ⟨c, hc, rfl⟩ := hx
      -- position of c among the kids
      have key : ∀ (ds : List Doc) (k : Nat), PosK [] k ds → c ∈ ds →
          ∃ q ∈ objectsK [] k ds, ∃ G, q.2.id = c.id ∧ q.2.mimetype = c.mimetype ∧ c.folder = sSlash ++ G ∧ q.1 = G ++ sSlash := by
        intro ds
        induction ds with
        | nil => intro k _ h; cases h
        | cons e es ih =>
          intro k hp hm
          simp only [PosK] at hp
          rcases List.mem_cons.mp hm with hm | hm
          · subst hm
            refine ⟨(objPrefix k, c), ?_, sObjectSp ++ dec k, rfl, rfl, ?_, ?_⟩
            · simp only [objectsK, List.mem_append]; left
              rw [objects_head]; simp
            · cases c with
              | mk cid cmt chs cpics cth cex cfo ckids =>
                simp only [Pos] at hp
                have h1 := hp.1.1
                simp only [List.nil_append, objPrefix, sSlash] at h1 ⊢
                have : cfo ++ [47] = (47 :: (sObjectSp ++ dec k)) ++ [47] := by simpa using h1
                exact List.append_cancel_right this
            · simp [objPrefix]
          · obtain ⟨q, hq, G, e⟩ := ih (k+1) hp.2 hm
            exact ⟨q, by simp only [objectsK, List.mem_append]; exact Or.inr hq, G, e⟩
      obtain ⟨q, hq, G, e1, e2, e3, e4⟩ := key kids 1 hpos.2 hc
      exact ⟨q, hq, G, e1, e2, by simp [e3, RefsOK.sDotSlashStr, sSlash], e4⟩
  exact resolves_of_refsOK ⟨d, [], reloadRefs d⟩ hr

end OdfModel.Props.C16

/-
  C18Spell — the paragraph handlers of the XHTML converter (model `OdfModel.Xhtml`, odf/odf2xhtml.py s_text_p / e_text_p)
  on style names in EVERY spelling: a name that only becomes a key of `special_styles` after '.' is replaced by '_'
  (Heading.20.1, Preformatted.20.Text, Heading_20.3 …) is opened and closed with the same special tag.

  * `para_open_close_same_tag`: whatever the attributes, the tag the start handler opens is the tag the end handler closes
    (the last token each of them writes carries `paraTag attrs`).
  * `paraTag_spelling`: the tag does not depend on whether the name is spelled with '.' or with '_'.
  * `dotted_special_spellings`: the dotted spellings of the special paragraph styles do get the special tag (so the theorems
    above are not about `p` only).
-/
import OdfModel.Xhtml
namespace OdfModel.Props.C18Spell
open OdfModel OdfModel.Xhtml OdfModel.Xml OdfModel.Generated.Xhtml

theorem replaceDot_nil : replaceDot [] = [] := rfl

theorem replaceDot_cons (x : Nat) (s : Str) :
    replaceDot (x :: s) = (if x = 46 then [95] else [x]) ++ replaceDot s := by
  simp [replaceDot, replace1]

/-- `s.replace(".", "_")` twice is once: no '.' is left after the first pass -/
theorem replaceDot_idem (s : Str) : replaceDot (replaceDot s) = replaceDot s := by
  induction s with
  | nil => rfl
  | cons x s ih =>
    rw [replaceDot_cons]
    by_cases h : x = 46
    · simp only [h, if_true]
      show replaceDot (95 :: replaceDot s) = _
      rw [replaceDot_cons, ih]; simp
    · simp only [h, if_false]
      show replaceDot (x :: replaceDot s) = _
      rw [replaceDot_cons, ih]; simp [h]

theorem replaceDot_isEmpty (s : Str) : (replaceDot s).isEmpty = s.isEmpty := by
  cases s with
  | nil => rfl
  | cons x s => rw [replaceDot_cons]; by_cases h : x = 46 <;> simp [h]

/-- **C18 (style-name spellings)**: the tag of a paragraph is the same for a style name and for its spelling with every
    '.' written as '_' -/
theorem paraTag_spelling (c : Str) (rest : Attrs) :
    paraTag ((kStyleName, c) :: rest) = paraTag ((kStyleName, replaceDot c) :: rest) := by
  simp [paraTag, List.lookup, replaceDot_idem, replaceDot_isEmpty]

/-- **C18 (style-name spellings)**: s_text_p and e_text_p of one element write an open and a close token of the SAME
    tag name, for every attribute list (every style name, special or not, dotted or not) -/
theorem para_open_close_same_tag (cfg : Cfg) (ctx : Ctx) (q : Str) (attrs : Attrs) (pe pc : Bool) (st st' : St)
    (hd : st'.depth ≠ 0) :
    (∃ s a b, runH cfg ctx .s_text_p q attrs pe pc st = .ok (s, pe, pc) ∧ s.out.getLast? = some (.otag (paraTag attrs) a b)) ∧
    (∃ s b, runH cfg ctx .e_text_p q attrs pe pc st' = .ok (s, pe, pc) ∧ s.out.getLast? = some (.ctag (paraTag attrs) b)) := by
  constructor
  · exact ⟨_, styleClassAttr cfg sPdash (attrs.lookup kStyleName), false, rfl, by simp [purgedata, opentag, emit]⟩
  · refine ⟨purgedata (closePure (paraTag attrs) true (writedata st')), true, ?_, by simp [purgedata, closePure, emit]⟩
    have : (writedata st').depth = st'.depth := by
      unfold writedata emitText; split <;> simp [emit]
    simp [runH, closetag, this, hd, Except.map]

private def sty (s : String) : Attrs := [(kStyleName, s.toList.map Char.toNat)]

/-- the dotted spellings of the special paragraph styles get the special tag, other dotted names the tag `p` -/
theorem dotted_special_spellings :
    paraTag (sty "Heading.20.1") = "h1".toList.map Char.toNat ∧
    paraTag (sty "Heading_20.3") = "h3".toList.map Char.toNat ∧
    paraTag (sty "Heading.20_6") = "h6".toList.map Char.toNat ∧
    paraTag (sty "Preformatted.20.Text") = "pre".toList.map Char.toNat ∧
    paraTag (sty "Heading_20_2") = "h2".toList.map Char.toNat ∧
    paraTag (sty "My.Style") = nP ∧ paraTag (sty "Heading.1") = nP := by
  decide

end OdfModel.Props.C18Spell

/-
  Property C15 — schema-valid attribute values are accepted and kept unchanged.

  Theorems about `OdfModel.AttrConv` (model of odf/attrconverters.py) over the tables that
  harness/translate_attr.py regenerates on every run:
    Generated/AttrConv.lean    regexes of the code (as `RE` terms), converter shapes + literal tuples
    Generated/AttrSchema.lean  the schema's pattern facets (as `RE` terms), attribute datatypes
    Generated/AttrTable.lean   the `attrconverters` dict and the schema's attribute occurrences

  Full statement of the property on the model (kept visible; what is proved is below):

    def C15_full : Prop :=
      (∀ t ∈ attrTable, ∀ o ∈ t.2.2,                              -- every (element, attribute, datatype) occurrence
          Compatible (kindOf (convertIdx bindings t.1 o.1)) (dtOf o.2))   -- accepts every value, keeps it
      ∧ (∀ i s r, cnv i s = .ok r → cnv i r = .ok r)               -- converting again is a no-op
      ∧ (∀ validated kind K, cnvK K s = if s ∈ L(K) then .ok s else .error .valueError)

  Proved: the third conjunct in full (`validated_full`, `validated_table`); the second in full
  (`idempotent`, every converter of the regenerated table); the first for every occurrence outside
  the one (converter, datatype) cell of `knownCells` (`binding_compatible`), which has a proved
  counter-example (`finding_qname_unprefixed`).

  `Lex` is the set of *canonical* lexical forms of a datatype (no insignificant outer white space
  for token-typed values); for XSD built-in types without a modelled grammar it is an upper bound
  (so `Compatible` is proved for a superset of the schema-valid values, never a subset).
-/
import OdfModel.AttrConv
import OdfModel.Generated.AttrSchema
import OdfModel.Generated.AttrTable
namespace OdfModel.Props.C15
open OdfModel OdfModel.Regex OdfModel.Attr
open OdfModel.Generated

/-! ## 1. The translator recognised the shape of every converter -/

def noOpaque : Kind → Bool
  | .unknown => false
  | .firstOf a b => noOpaque a && noOpaque b
  | _ => true

/-- every `cnv_*` function (and everything the dict binds) has a recognised shape -/
theorem no_opaque_kind : (AttrConv.converters.all fun p => noOpaque p.2) = true := by decide +kernel

/-- `str.lower()` never produces an all-ASCII multi-character expansion (complete probe), so comparing
    `lower s` with ASCII literals is decided character by character through `lowerPairs` -/
theorem lower_probe_clean : AttrConv.lowerMultiAscii = [] := by decide +kernel

/-! ## 2. Validated kinds: accepted iff the whole string is in the language, and returned unchanged -/

/-- the language a validating converter accepts -/
def codeAccepts : Kind → Str → Bool
  | .enum vals, s => vals.contains s
  | .pattern _ r, s => accepts r s
  | .firstOf a b, s => codeAccepts a s || codeAccepts b s
  | _, _ => true

/-- enumerations, full-match patterns, and first-of combinations of those -/
def validating : Kind → Bool
  | .enum _ => true
  | .pattern m _ => m == .full
  | .firstOf a b => validating a && validating b
  | _ => false

/-- **C15 (validated types)**: a validating converter returns its argument unchanged when the *whole*
    string is in its language and raises `ValueError` otherwise. -/
theorem validated_full (K : Kind) (hv : validating K = true) (s : Str) :
    cnvK K s = if codeAccepts K s = true then .ok s else .error .valueError := by
  induction K with
  | identity => simp [validating] at hv
  | enum vals => simp [cnvK, codeAccepts]
  | ciMap c => simp [validating] at hv
  | pattern m r =>
    have : m = .full := by simpa [validating] using hv
    subst this
    by_cases h : accepts r s = true <;> simp [cnvK, codeAccepts, matchMode, h]
  | hexEscape cs => simp [validating] at hv
  | joinChars sep => simp [validating] at hv
  | firstOf a b iha ihb =>
    simp only [validating, Bool.and_eq_true] at hv
    have ha := iha hv.1
    have hb := ihb hv.2
    simp only [cnvK, codeAccepts, ha, hb]
    by_cases h1 : codeAccepts a s = true
    · simp [h1]
    · by_cases h2 : codeAccepts b s = true
      · simp [h1, h2]
      · simp [h1, h2]
  | unknown => simp [validating] at hv

/-- accepted ⇒ full match and unchanged (the form of DESIGN.md) -/
theorem validated_full_ok {K : Kind} (hv : validating K = true) {s r : Str} (h : cnvK K s = .ok r) :
    codeAccepts K s = true ∧ r = s := by
  rw [validated_full K hv s] at h
  by_cases hc : codeAccepts K s = true
  · simp [hc] at h; exact ⟨hc, h.symm⟩
  · simp [hc] at h

/-- not in the language ⇒ `ValueError` (suffix junk, trailing newline, wrong unit, …) -/
theorem validated_reject {K : Kind} (hv : validating K = true) {s : Str} (h : codeAccepts K s = false) :
    cnvK K s = .error .valueError := by
  rw [validated_full K hv s]; simp [h]

/-- the converters the property calls validated (lengths, percentages, point lists, view boxes,
    enumerations) are validating in the table regenerated from the source: in particular every regex
    is applied as a full match (`match` on a pattern ending in `\Z`, or `fullmatch`) -/
theorem validated_table :
    ([AttrConv.c_cnv_length, AttrConv.c_cnv_percent, AttrConv.c_cnv_lengthorpercent, AttrConv.c_cnv_points,
      AttrConv.c_cnv_viewbox, AttrConv.c_cnv_language, AttrConv.c_cnv_namespacedToken,
      AttrConv.c_cnv_configtype, AttrConv.c_cnv_data_source_has_labels, AttrConv.c_cnv_draw_aspect,
      AttrConv.c_cnv_family, AttrConv.c_cnv_legend_position, AttrConv.c_cnv_list_linkage_type,
      AttrConv.c_cnv_major_minor, AttrConv.c_cnv_metavaluetype, AttrConv.c_cnv_rowOrCol,
      AttrConv.c_cnv_stroke_linecap, AttrConv.c_cnv_textnoteclass, AttrConv.c_cnv_xlinkshow,
      AttrConv.c_cnv_xlinktype].all fun i => validating (kindOf i)) = true := by decide +kernel

/-- no pattern anywhere in the converter table is applied as a prefix / `$` / search match -/
def fullOnly : Kind → Bool
  | .pattern m _ => m == .full
  | .firstOf a b => fullOnly a && fullOnly b
  | _ => true

theorem patterns_full_match : (AttrConv.converters.all fun p => fullOnly p.2) = true := by decide +kernel

example : cnv AttrConv.c_cnv_length (lit "12.5cm") = .ok (lit "12.5cm") := by decide +kernel
example : cnv AttrConv.c_cnv_length (lit "12cmXYZ") = .error .valueError := by decide +kernel
example : cnv AttrConv.c_cnv_length (lit "12cm\n") = .error .valueError := by decide +kernel

/-! ## 3. Converting a stored value again is a no-op -/

theorem replaceCp_of_not_mem {c : Nat} {s : Str} (h : c ∉ s) : replaceCp c s = s := by
  induction s with
  | nil => rfl
  | cons x r ih =>
    simp only [List.mem_cons, not_or] at h
    have hx : x ≠ c := fun e => h.1 e.symm
    simp [replaceCp, hx, ih h.2]

theorem not_mem_replaceCp_self {c : Nat} (s : Str) (hc : c ∉ hexEsc c) : c ∉ replaceCp c s := by
  induction s with
  | nil => simp [replaceCp]
  | cons x r ih =>
    simp only [replaceCp]
    split
    · simp only [List.mem_append, not_or]; exact ⟨hc, ih⟩
    · rename_i hx
      simp only [List.mem_cons, not_or]; exact ⟨fun e => hx e.symm, ih⟩

theorem not_mem_replaceCp_other {c c' : Nat} {s : Str} (h : c ∉ s) (hc : c ∉ hexEsc c') :
    c ∉ replaceCp c' s := by
  induction s with
  | nil => simp [replaceCp]
  | cons x r ih =>
    simp only [List.mem_cons, not_or] at h
    simp only [replaceCp]
    split
    · simp only [List.mem_append, not_or]; exact ⟨hc, ih h.2⟩
    · simp only [List.mem_cons, not_or]; exact ⟨h.1, ih h.2⟩

/-- `make_NCName`'s loop -/
def esc (cs : List Nat) (s : Str) : Str := cs.foldl (fun acc c => replaceCp c acc) s

theorem esc_cons (d : Nat) (ds : List Nat) (s : Str) : esc (d :: ds) s = esc ds (replaceCp d s) := rfl

theorem not_mem_esc_of_not_mem {c : Nat} (ds : List Nat) {s : Str} (h : c ∉ s)
    (hs : ∀ c' ∈ ds, c ∉ hexEsc c') : c ∉ esc ds s := by
  induction ds generalizing s with
  | nil => simpa [esc] using h
  | cons d ds ih =>
    rw [esc_cons]
    exact ih (not_mem_replaceCp_other h (hs d (by simp))) (fun c' hc' => hs c' (by simp [hc']))

/-- no escape sequence contains a character that is itself escaped -/
def escSafe (cs : List Nat) : Bool := cs.all fun c => cs.all fun c' => !(hexEsc c').contains c

theorem escSafe_spec {cs : List Nat} (h : escSafe cs = true) : ∀ c ∈ cs, ∀ c' ∈ cs, c ∉ hexEsc c' := by
  intro c hc c' hc'
  simp only [escSafe, List.all_eq_true] at h
  have := h c hc c' hc'
  simpa using this

theorem not_mem_esc (cs : List Nat) (s : Str) (all : List Nat) (hsub : ∀ c ∈ cs, c ∈ all)
    (hs : ∀ c ∈ all, ∀ c' ∈ all, c ∉ hexEsc c') : ∀ c ∈ cs, c ∉ esc cs s := by
  induction cs generalizing s with
  | nil => simp
  | cons d ds ih =>
    intro c hc
    rw [esc_cons]
    by_cases hmem : c ∈ ds
    · exact ih _ (fun x hx => hsub x (by simp [hx])) c hmem
    · have hcd : c = d := by
        simp only [List.mem_cons] at hc
        rcases hc with h | h
        · exact h
        · exact absurd h hmem
      subst hcd
      have hcall := hsub c (by simp)
      exact not_mem_esc_of_not_mem ds (not_mem_replaceCp_self s (hs c hcall c hcall))
        (fun c' hc' => hs c hcall c' (hsub c' (by simp [hc'])))

theorem esc_of_clean (cs : List Nat) (s : Str) (h : ∀ c ∈ cs, c ∉ s) : esc cs s = s := by
  induction cs generalizing s with
  | nil => rfl
  | cons d ds ih =>
    rw [esc_cons, replaceCp_of_not_mem (h d (by simp))]
    exact ih s (fun c hc => h c (by simp [hc]))

/-- converters that can only return their argument -/
def pureKind : Kind → Bool
  | .identity => true
  | .enum _ => true
  | .pattern _ _ => true
  | .firstOf a b => pureKind a && pureKind b
  | _ => false

theorem pure_sound (K : Kind) (h : pureKind K = true) {s r : Str} (hr : cnvK K s = .ok r) : r = s := by
  induction K generalizing r with
  | identity => simp [cnvK] at hr; exact hr.symm
  | enum vals =>
    simp only [cnvK] at hr
    split at hr
    · simp at hr; exact hr.symm
    · simp at hr
  | ciMap c => simp [pureKind] at h
  | pattern m re =>
    simp only [cnvK] at hr
    split at hr
    · simp at hr; exact hr.symm
    · simp at hr
  | hexEscape cs => simp [pureKind] at h
  | joinChars sep => simp [pureKind] at h
  | firstOf a b iha ihb =>
    simp only [pureKind, Bool.and_eq_true] at h
    simp only [cnvK] at hr
    split at hr
    · rename_i x hx
      simp at hr; subst hr
      exact iha h.1 hx
    · split at hr
      · rename_i y hy
        simp at hr; subst hr
        exact ihb h.2 hy
      · simp at hr
  | unknown => simp [pureKind] at h

def isOk (r : Except Err Str) (s : Str) : Bool :=
  match r with
  | .ok x => x == s
  | .error _ => false

theorem isOk_spec {r : Except Err Str} {s : Str} (h : isOk r s = true) : r = .ok s := by
  cases r with
  | ok x => simp [isOk] at h; rw [h]
  | error e => simp [isOk] at h

/-- a decidable sufficient condition for "a second conversion changes nothing" -/
def okKind : Kind → Bool
  | .identity => true
  | .enum _ => true
  | .pattern _ _ => true
  | .ciMap cases => cases.all fun c => isOk (cnvK (.ciMap cases) c.2) c.2
  | .hexEscape cs => escSafe cs
  | .joinChars _ => false
  | .firstOf a b => pureKind a && pureKind b
  | .unknown => true

theorem idempotent_kind (K : Kind) (h : okKind K = true) {s r : Str} (hr : cnvK K s = .ok r) :
    cnvK K r = .ok r := by
  cases K with
  | identity => simp [cnvK]
  | enum vals => have := pure_sound (.enum vals) rfl hr; subst this; exact hr
  | pattern m re => have := pure_sound (.pattern m re) rfl hr; subst this; exact hr
  | firstOf a b => have := pure_sound (.firstOf a b) (by simpa [okKind, pureKind] using h) hr; subst this; exact hr
  | ciMap cases =>
    simp only [cnvK] at hr
    split at hr
    · rename_i c hc
      simp at hr; subst hr
      have hmem := List.mem_of_find?_eq_some hc
      simp only [okKind, List.all_eq_true] at h
      exact isOk_spec (h c hmem)
    · simp at hr
  | hexEscape cs =>
    simp only [cnvK] at hr
    simp at hr
    have hsafe := escSafe_spec (by simpa [okKind] using h)
    have hclean : ∀ c ∈ cs, c ∉ r := by
      intro c hc
      rw [← hr]
      exact not_mem_esc cs s cs (fun _ h => h) hsafe c hc
    simp only [cnvK]
    exact congrArg Except.ok (esc_of_clean cs r hclean)
  | joinChars sep => simp [okKind] at h
  | unknown => simp [cnvK] at hr

/-- every converter of the regenerated table satisfies the sufficient condition -/
theorem idempotent_table : (AttrConv.converters.all fun p => okKind p.2) = true := by decide +kernel

/-- **C15 (second conversion is a no-op)**: for every converter of the table regenerated from the source,
    converting a stored value again returns it unchanged. -/
theorem idempotent (i : Nat) (s r : Str) (h : cnv i s = .ok r) : cnv i r = .ok r := by
  cases hi : AttrConv.converters[i]? with
  | none => simp [cnv, kindOf, hi, cnvK] at h
  | some p =>
    have hmem : p ∈ AttrConv.converters := List.mem_of_getElem? hi
    have ht := idempotent_table
    simp only [List.all_eq_true] at ht
    have hk : okKind p.2 = true := ht p hmem
    have hkind : kindOf i = p.2 := by simp [kindOf, hi]
    simp only [cnv, hkind] at h ⊢
    exact idempotent_kind p.2 hk h

example : cnv AttrConv.c_cnv_NCNames (lit "P1 P2") = .ok (lit "P1 P2") := by decide +kernel
example : cnv AttrConv.c_cnv_boolean (lit "TRUE") = .ok (lit "true") ∧
    cnv AttrConv.c_cnv_boolean (lit "true") = .ok (lit "true") := by decide +kernel

/-! ## 4. The code's regexes against the schema's own pattern facets -/

/-- schema pattern number `i` (`nothing` if the index is unknown or the syntax was outside the subset) -/
def spat (i : Nat) : RE :=
  match AttrSchema.schemaPatterns[i]? with
  | some (some p) => p
  | _ => .nothing

/-- **pattern_same**: the regex of `cnv_length` is, term for term, the schema's pattern for `length`
    (hence the same language for *all* strings, `Regex.same_language`); likewise the others. -/
theorem pattern_same_length : AttrConv.pat_length = spat AttrSchema.sp_length := by decide +kernel
theorem pattern_same_percent : AttrConv.pat_percent = spat AttrSchema.sp_percent := by decide +kernel
theorem pattern_same_points : AttrConv.pat_points = spat AttrSchema.sp_points := by decide +kernel
theorem pattern_same_color : AttrConv.pat_color = spat AttrSchema.sp_color := by decide +kernel
theorem pattern_same_vector3D : AttrConv.pat_vector3D = spat AttrSchema.sp_vector3D := by decide +kernel

/-- **pattern_incl**: where the regexes differ, inclusion of languages is *decided* by the checked
    simulation `Regex.inclB` and lifted to all strings by `Regex.inclB_sound`. -/
theorem pattern_incl_nonNegativeLength (s : Str) :
    accepts (spat AttrSchema.sp_nonNegativeLength) s = true → accepts AttrConv.pat_length s = true :=
  inclB_sound (by decide +kernel) s
theorem pattern_incl_positiveLength (s : Str) :
    accepts (spat AttrSchema.sp_positiveLength) s = true → accepts AttrConv.pat_length s = true :=
  inclB_sound (by decide +kernel) s
theorem pattern_incl_nonNegativePixelLength (s : Str) :
    accepts (spat AttrSchema.sp_nonNegativePixelLength) s = true → accepts AttrConv.pat_length s = true :=
  inclB_sound (by decide +kernel) s
theorem pattern_incl_zeroToHundredPercent (s : Str) :
    accepts (spat AttrSchema.sp_zeroToHundredPercent) s = true → accepts AttrConv.pat_percent s = true :=
  inclB_sound (by decide +kernel) s
theorem pattern_incl_signedZeroToHundredPercent (s : Str) :
    accepts (spat AttrSchema.sp_signedZeroToHundredPercent) s = true → accepts AttrConv.pat_percent s = true :=
  inclB_sound (by decide +kernel) s

/-- the lexical space of `xsd:language` (XML Schema Part 2, §3.3.3): `[a-zA-Z]{1,8}(-[a-zA-Z0-9]{1,8})*` -/
def xsdLanguage : RE :=
  .seq (RE.rep 1 8 (.cls false [(65, 90), (97, 122)]))
    (.star (.seq (RE.chr 45) (RE.rep 1 8 (.cls false [(65, 90), (97, 122), (48, 57)]))))

/-- `cnv_language` accepts exactly the `xsd:language` lexical space -/
theorem pattern_language_incl (s : Str) :
    accepts xsdLanguage s = true → accepts AttrConv.pat_language s = true :=
  inclB_sound (by decide +kernel) s
theorem pattern_language_incl_rev (s : Str) :
    accepts AttrConv.pat_language s = true → accepts xsdLanguage s = true :=
  inclB_sound (by decide +kernel) s

/-- XML white space (the separators of a RELAX-NG / XSD list) -/
def xmlSpace : RE := .cls false [(32, 32), (9, 9), (10, 10), (13, 13)]

/-- the lexical space of `xsd:integer`: an optional sign and digits -/
def xsdInteger : RE := .seq (RE.opt (.cls false [(43, 43), (45, 45)])) (RE.plus (.cls false [(48, 57)]))

/-- lexical space of the XSD built-in types that occur as list items (others: not refined) -/
def xsdItemRE : XsdTy → Option RE
  | .integer => some xsdInteger
  | _ => none

/-- `n` items separated by runs of XML white space (canonical: no white space before the first / after the last item) -/
def listRE (item : RE) : Nat → RE
  | 0 => .eps
  | n + 1 => .seq item (RE.rep n n (.seq (RE.plus xmlSpace) item))

/-- **pattern_incl (view box)**: every list of four `xsd:integer` is accepted by `cnv_viewbox`'s regex -/
theorem pattern_incl_viewbox (s : Str) :
    accepts (listRE xsdInteger 4) s = true → accepts AttrConv.pat_viewbox s = true :=
  inclB_sound (by decide +kernel) s

/-- an NCName by the productions of XML 1.0 (5th edition) / Namespaces in XML: NameStartChar and NameChar without ':' -/
def ncNameStart : List (Nat × Nat) :=
  [(65, 90), (95, 95), (97, 122), (0xC0, 0xD6), (0xD8, 0xF6), (0xF8, 0x2FF), (0x370, 0x37D), (0x37F, 0x1FFF),
   (0x200C, 0x200D), (0x2070, 0x218F), (0x2C00, 0x2FEF), (0x3001, 0xD7FF), (0xF900, 0xFDCF), (0xFDF0, 0xFFFD),
   (0x10000, 0xEFFFF)]
def xmlNCName : RE :=
  .seq (.cls false ncNameStart)
    (.star (.cls false (ncNameStart ++ [(45, 45), (46, 46), (48, 57), (0xB7, 0xB7), (0x300, 0x36F), (0x203F, 0x2040)])))

/-- a prefixed `xsd:QName` -/
def prefixedQName : RE := .seq xmlNCName (.seq (RE.chr 58) xmlNCName)

/-- **pattern_incl (namespaced token)**: every *prefixed* QName, with any XML name characters, is accepted by
    `cnv_namespacedToken`'s regex, and nothing else is (the unprefixed half of `xsd:QName` is KF-C15-6) -/
theorem pattern_incl_prefixedQName (s : Str) :
    accepts prefixedQName s = true → accepts AttrConv.pat_namespacedToken s = true :=
  inclB_sound (by decide +kernel) s
theorem pattern_incl_prefixedQName_rev (s : Str) :
    accepts AttrConv.pat_namespacedToken s = true → accepts prefixedQName s = true :=
  inclB_sound (by decide +kernel) s

/-! ## 5. Datatypes of the schema and compatibility of a converter with a datatype -/

def noColonBlank (s : Str) : Bool := s.all fun c => c != 58 && c != 32

/-- upper bound of the lexical space of an XSD built-in type (exact for `language`; `NCName`-like
    types: no colon, no blank; everything else: any string) -/
def xsdUB : XsdTy → Str → Bool
  | .NCName, s => noColonBlank s
  | .ID, s => noColonBlank s
  | .IDREF, s => noColonBlank s
  | .language, s => accepts xsdLanguage s
  | _, _ => true

/-- the pattern facet restricts the lexical space of `string`-based types (for `token` the facet applies
    after white-space collapsing, so it is not used as a bound) -/
def patUB (ty : XsdTy) (pat : Option Nat) (s : Str) : Bool :=
  match ty, pat with
  | .string, some i =>
    match AttrSchema.schemaPatterns[i]? with
    | some (some p) => accepts p s
    | _ => true
  | _, _ => true

def atomLex : Atom → Str → Bool
  | .val v, s => s == v
  | .data ty pat, s => xsdUB ty s && patUB ty pat s
  | .list, _ => true
  | .listN ty n, s =>
    match xsdItemRE ty with
    | some it => accepts (listRE it n) s
    | none => true
  | .text, _ => true
  | .empty, s => s == []

/-- `s` is a (canonical) lexical value of the datatype -/
def Lex (D : DT) (s : Str) : Bool := D.any fun a => atomLex a s

/-- the converter accepts every lexical value of the datatype and returns it unchanged
    (so it is stored, written and re-converted unchanged) -/
def Compatible (K : Kind) (D : DT) : Prop := ∀ s, Lex D s = true → cnvK K s = .ok s

def patCompatB (m : Mode) (r : RE) (ty : XsdTy) (pat : Option Nat) : Bool :=
  m == .full &&
  match ty, pat with
  | .string, some i =>
    match AttrSchema.schemaPatterns[i]? with
    | some (some p) => p == r || inclB p r
    | _ => false
  | .language, _ => inclB xsdLanguage r
  | _, _ => false

def isNameTy : XsdTy → Bool
  | .NCName => true
  | .ID => true
  | .IDREF => true
  | _ => false

def dataCompatB : Kind → XsdTy → Option Nat → Bool
  | .identity, _, _ => true
  | .pattern m r, ty, pat => patCompatB m r ty pat
  | .hexEscape cs, ty, _ => isNameTy ty && cs.all fun c => c == 58 || c == 32
  | .firstOf a b, ty, pat => pureKind a && (dataCompatB a ty pat || dataCompatB b ty pat)
  | _, _, _ => false

def isIdentity : Kind → Bool
  | .identity => true
  | _ => false

def listCompatB : Kind → XsdTy → Nat → Bool
  | .identity, _, _ => true
  | .pattern m r, ty, n =>
    m == .full &&
    match xsdItemRE ty with
    | some it => inclB (listRE it n) r
    | none => false
  | _, _, _ => false

def atomCompatB (K : Kind) : Atom → Bool
  | .val v => isOk (cnvK K v) v
  | .empty => isOk (cnvK K []) []
  | .data ty pat => dataCompatB K ty pat
  | .list => isIdentity K
  | .listN ty n => listCompatB K ty n
  | .text => isIdentity K

/-- the decidable compatibility relation evaluated over the tables -/
def CompatB (K : Kind) (D : DT) : Bool := D.all fun a => atomCompatB K a

theorem patCompat_sound {m : Mode} {r : RE} {ty : XsdTy} {pat : Option Nat}
    (h : patCompatB m r ty pat = true) (s : Str) (hl : (xsdUB ty s && patUB ty pat s) = true) :
    cnvK (.pattern m r) s = .ok s := by
  simp only [patCompatB, Bool.and_eq_true, beq_iff_eq] at h
  obtain ⟨hm, h⟩ := h
  subst hm
  simp only [Bool.and_eq_true] at hl
  have hacc : accepts r s = true := by
    cases ty <;> try (simp at h; done)
    case string =>
      cases pat with
      | none => simp at h
      | some i =>
        simp only at h
        simp only [patUB] at hl
        split at h
        · rename_i p hp
          simp only [hp] at hl
          simp only [Bool.or_eq_true, beq_iff_eq] at h
          rcases h with h | h
          · rw [← h]; exact hl.2
          · exact inclB_sound h s hl.2
        · simp at h
    case language =>
      have h' : inclB xsdLanguage r = true := by
        cases pat <;> simpa using h
      exact inclB_sound h' s (by simpa [xsdUB] using hl.1)
  simp [cnvK, matchMode, hacc]

theorem esc_of_noColonBlank {cs : List Nat} {s : Str}
    (hcs : (cs.all fun c => c == 58 || c == 32) = true) (hs : noColonBlank s = true) : esc cs s = s := by
  apply esc_of_clean
  intro c hc hmem
  simp only [List.all_eq_true, Bool.or_eq_true, beq_iff_eq] at hcs
  simp only [noColonBlank, List.all_eq_true, Bool.and_eq_true, bne_iff_ne, ne_eq] at hs
  have := hs c hmem
  rcases hcs c hc with h | h
  · exact this.1 h
  · exact this.2 h

theorem dataCompat_sound (K : Kind) {ty : XsdTy} {pat : Option Nat}
    (h : dataCompatB K ty pat = true) (s : Str) (hl : (xsdUB ty s && patUB ty pat s) = true) :
    cnvK K s = .ok s := by
  induction K with
  | identity => simp [cnvK]
  | enum vals => simp [dataCompatB] at h
  | ciMap c => simp [dataCompatB] at h
  | pattern m r => exact patCompat_sound (by simpa [dataCompatB] using h) s hl
  | hexEscape cs =>
    simp only [dataCompatB, Bool.and_eq_true] at h
    have hs : noColonBlank s = true := by
      simp only [Bool.and_eq_true] at hl
      cases ty <;> simp [isNameTy] at h <;> simpa [xsdUB] using hl.1
    simp only [cnvK]
    exact congrArg Except.ok (esc_of_noColonBlank h.2 hs)
  | joinChars sep => simp [dataCompatB] at h
  | firstOf a b iha ihb =>
    simp only [dataCompatB, Bool.and_eq_true, Bool.or_eq_true] at h
    obtain ⟨hp, h⟩ := h
    simp only [cnvK]
    rcases h with h | h
    · rw [iha h]
    · cases hca : cnvK a s with
      | ok x =>
        have := pure_sound a hp hca
        subst this; rfl
      | error e => simp [ihb h]
  | unknown => simp [dataCompatB] at h

theorem isIdentity_spec {K : Kind} (h : isIdentity K = true) (s : Str) : cnvK K s = .ok s := by
  cases K <;> simp [isIdentity] at h
  simp [cnvK]

theorem listCompat_sound (K : Kind) {ty : XsdTy} {n : Nat} (h : listCompatB K ty n = true) (s : Str)
    (hl : atomLex (.listN ty n) s = true) : cnvK K s = .ok s := by
  cases K with
  | identity => simp [cnvK]
  | pattern m r =>
    simp only [listCompatB, Bool.and_eq_true, beq_iff_eq] at h
    obtain ⟨hm, h⟩ := h
    subst hm
    simp only [atomLex] at hl
    cases hit : xsdItemRE ty with
    | none => simp [hit] at h
    | some it =>
      simp only [hit] at h hl
      have hacc := inclB_sound h s hl
      simp [cnvK, matchMode, hacc]
  | enum v => simp [listCompatB] at h
  | ciMap c => simp [listCompatB] at h
  | hexEscape c => simp [listCompatB] at h
  | joinChars c => simp [listCompatB] at h
  | firstOf a b => simp [listCompatB] at h
  | unknown => simp [listCompatB] at h

theorem atomCompat_sound (K : Kind) (a : Atom) (h : atomCompatB K a = true) (s : Str)
    (hl : atomLex a s = true) : cnvK K s = .ok s := by
  cases a with
  | val v =>
    have : s = v := by simpa [atomLex] using hl
    subst this
    exact isOk_spec (by simpa [atomCompatB] using h)
  | empty =>
    have : s = [] := by simpa [atomLex] using hl
    subst this
    exact isOk_spec (by simpa [atomCompatB] using h)
  | data ty pat => exact dataCompat_sound K (by simpa [atomCompatB] using h) s (by simpa [atomLex] using hl)
  | list => exact isIdentity_spec (by simpa [atomCompatB] using h) s
  | listN ty n => exact listCompat_sound K (by simpa [atomCompatB] using h) s hl
  | text => exact isIdentity_spec (by simpa [atomCompatB] using h) s

/-- one proved lemma covers every (converter shape, datatype atom) pair: `CompatB` is sound -/
theorem compatB_sound {K : Kind} {D : DT} (h : CompatB K D = true) : Compatible K D := by
  intro s hs
  simp only [Lex, List.any_eq_true] at hs
  obtain ⟨a, ha, hl⟩ := hs
  simp only [CompatB, List.all_eq_true] at h
  exact atomCompat_sound K a (h a ha) s hl

/-! ## 6. The table theorem: every (element, attribute, datatype) occurrence of the schema -/

def dtOf (i : Nat) : DT :=
  match AttrSchema.dts[i]? with
  | some d => d
  | none => [.text]

/-- The (converter, datatype) cells on which the bound converter is **not** compatible with the schema's
    datatype.  Each is a defect of the unchanged tree recorded in known-findings/C15.txt and shown by a
    proved counter-example below; any other incompatible cell breaks `cells_ok`. -/
def knownCells : List (Nat × DT) := [
  -- KF-C15-6  namespacedToken = xsd:QName, whose prefix is optional; the code requires `prefix:local`
  --           (an unprefixed value being refused is pinned by tests/testchart.py::testChart)
  (AttrConv.c_cnv_namespacedToken, [.data .QName none])
]

def knownCell (c : Nat × Nat) : Bool := knownCells.any fun k => k.1 == c.1 && k.2 == dtOf c.2

/-- converters with an id below `nIdentity` are identity-shaped -/
theorem identity_prefix :
    ((List.range AttrConv.nIdentity).all fun i => isIdentity (kindOf i)) = true := by decide +kernel

/-- every non-identity (converter, datatype) cell is compatible or a recorded finding -/
theorem cells_ok :
    (AttrTable.cellsNI.all fun c => CompatB (kindOf c.1) (dtOf c.2) || knownCell c) = true := by
  decide +kernel

def cellOK (c dt : Nat) : Bool := decide (c < AttrConv.nIdentity) || AttrTable.cellsNI.contains (c, dt)

/-- for every attribute, every schema occurrence resolves (through the entries of that attribute:
    `(attr, element)` first, then `(attr, None)`, else `str`) to a cell covered by the two theorems above -/
def tableCheck : Bool :=
  AttrTable.attrTable.all fun t => t.2.2.all fun o => cellOK (lookupIn t.2.1 o.1) o.2

theorem table_ok : tableCheck = true := by decide +kernel

def sortedB : List Nat → Bool
  | a :: b :: r => decide (a < b) && sortedB (b :: r)
  | _ => true

/-- attribute ids are strictly increasing in the table, so the dict lookup by attribute finds its own entry -/
theorem keys_sorted : sortedB (AttrTable.attrTable.map fun t => t.1) = true := by decide +kernel

theorem sortedB_head_lt {a : Nat} {l : List Nat} (h : sortedB (a :: l) = true) : ∀ x ∈ l, a < x := by
  induction l generalizing a with
  | nil => simp
  | cons b r ih =>
    simp only [sortedB, Bool.and_eq_true, decide_eq_true_eq] at h
    intro x hx
    simp only [List.mem_cons] at hx
    rcases hx with rfl | hx
    · exact h.1
    · exact Nat.lt_trans h.1 (ih h.2 x hx)

theorem sortedB_tail {a : Nat} {l : List Nat} (h : sortedB (a :: l) = true) : sortedB l = true := by
  cases l with
  | nil => simp [sortedB]
  | cons b r => simp only [sortedB, Bool.and_eq_true] at h; exact h.2

theorem find_of_sorted {β : Type} (tbl : List (Nat × β)) (h : sortedB (tbl.map fun t => t.1) = true)
    (t : Nat × β) (ht : t ∈ tbl) : tbl.find? (fun g => g.1 == t.1) = some t := by
  induction tbl with
  | nil => simp at ht
  | cons x xs ih =>
    simp only [List.map_cons] at h
    simp only [List.mem_cons] at ht
    rcases ht with rfl | ht
    · simp [List.find?]
    · have hlt := sortedB_head_lt h t.1 (List.mem_map.mpr ⟨t, ht, rfl⟩)
      have hne : (x.1 == t.1) = false := by
        simp only [beq_eq_false_iff_ne, ne_eq]; omega
      simp only [List.find?, hne]
      exact ih (sortedB_tail h) ht

theorem convertIdx_of_mem (t : Nat × List (Option Nat × Nat) × List (Nat × Nat))
    (ht : t ∈ AttrTable.attrTable) (el : Nat) :
    convertIdx AttrTable.bindings t.1 el = lookupIn t.2.1 el := by
  have hs : sortedB (AttrTable.bindings.map fun t => t.1) = true := by
    have := keys_sorted
    simpa [AttrTable.bindings, List.map_map, Function.comp_def] using this
  have hm : (t.1, t.2.1) ∈ AttrTable.bindings := by
    simp only [AttrTable.bindings, List.mem_map]
    exact ⟨t, ht, rfl⟩
  have := find_of_sorted AttrTable.bindings hs (t.1, t.2.1) hm
  simp only [convertIdx, this]

theorem kind_identity_of_lt {i : Nat} (h : i < AttrConv.nIdentity) : isIdentity (kindOf i) = true := by
  have := identity_prefix
  simp only [List.all_eq_true, List.mem_range] at this
  exact this i h

/-- **C15 (binding_compatible)**: for every attribute occurrence `(element, attribute, datatype)` of the
    shipped schema, the converter that `AttrConverters.convert` selects for `(attribute, element)` accepts
    every lexical value of the datatype and returns it unchanged — or the (converter, datatype) cell is
    the recorded finding KF-C15-6. -/
theorem binding_compatible :
    ∀ t ∈ AttrTable.attrTable, ∀ o ∈ t.2.2,
      Compatible (kindOf (convertIdx AttrTable.bindings t.1 o.1)) (dtOf o.2) ∨
      knownCell (convertIdx AttrTable.bindings t.1 o.1, o.2) = true := by
  intro t ht o ho
  rw [convertIdx_of_mem t ht o.1]
  have h := table_ok
  simp only [tableCheck, List.all_eq_true] at h
  have hc := h t ht o ho
  simp only [cellOK, Bool.or_eq_true, decide_eq_true_eq] at hc
  rcases hc with hlt | hmem
  · left
    intro s _
    exact isIdentity_spec (kind_identity_of_lt hlt) s
  · have hcells := cells_ok
    simp only [List.all_eq_true] at hcells
    have hmem' : (lookupIn t.2.1 o.1, o.2) ∈ AttrTable.cellsNI := by simpa using hmem
    have := hcells _ hmem'
    simp only [Bool.or_eq_true] at this
    rcases this with h1 | h2
    · left; exact compatB_sound h1
    · right; exact h2

/-- the hypotheses are satisfiable and the known list is not the whole table: the first occurrence is compatible -/
example : ∃ t ∈ AttrTable.attrTable, ∃ o ∈ t.2.2,
    knownCell (convertIdx AttrTable.bindings t.1 o.1, o.2) = false := by decide +kernel

/-! ### Proved counter-examples for the recorded cells (each witness is a schema-valid value) -/

/-- KF-C15-6: an unprefixed QName -/
theorem finding_qname_unprefixed :
    cnv AttrConv.c_cnv_namespacedToken (lit "bar") = .error .valueError := by decide +kernel

end OdfModel.Props.C15

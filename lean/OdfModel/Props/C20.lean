/-
  Property C20 — the list-style builder yields one correct level definition per specification.

  Theorems about `OdfModel.EasyList` (model of odf/easyliststyle.py), for every list of specifications, every
  spacing string, both display modes and EVERY float oracle `F` (Python's `float`/`*`/`str`, which the model
  takes as a parameter).  Tied to the code by harness/c20.py (same inputs through the real functions and drv_easylist)
  and by Generated/EasyListRe.lean (the two character classes, re-read from the source on every run).

  Full statement (kept visible):
    def C20_full : Prop := ∀ specs (1 ≤ length ≤ 10, all non-empty) spacing (a CSS length) showAll,
      ∃ st, styleFromList pythonFloat name specs spacing showAll = .ok st ∧ grammar accepts st ∧
        st.levels.length = specs.length ∧ (∀ i, level i numbered i+1 ∧ indent i = (i+1) × spacing) ∧
        (spec i contains one of 1IiAa → numbering level with that format, prefix, suffix, display levels) ∧
        (otherwise → bullet level with the first character)
  About the spacing: `cssSplit_number` (group 1 is in the language of the number regex, at the leftmost start, longest),
  `cssSplit_unit` (the unit written is the lower-cased run of ASCII letters after it), `cssSplit_examples`.
  Proved: everything except (a) "indent i = (i+1) × spacing" as arithmetic — `indent_shape_partial` only says the two
  attributes are `F`'s strings followed by the unit (the float arithmetic and its `str()` are checked by correspondence
  and by the harness's oracle), and (b) "the grammar accepts" (checked on the real library by the oracle:
  `automaticstyles.addElement` + serialisation).
-/
import OdfModel.EasyList
namespace OdfModel.Props.C20
open OdfModel OdfModel.Regex OdfModel.EasyList

/-- the regexes compiled in `styleFromList` still have the shapes the model is written for -/
theorem regex_shapes_ok : Generated.EasyListRe.shapeOK = true := by decide +kernel

/-- the format characters are exactly `1`, `I`, `i`, `A`, `a` -/
theorem fmt_chars (c : Nat) : isFmt c = true ↔ c = 49 ∨ c = 73 ∨ c = 105 ∨ c = 65 ∨ c = 97 := by
  simp [isFmt, Generated.EasyListRe.fmtRanges, inRanges]
  omega

/-- the unit characters are exactly the ASCII letters -/
theorem unit_chars (c : Nat) : isUnit c = true ↔ (97 ≤ c ∧ c ≤ 122) ∨ (65 ≤ c ∧ c ≤ 90) := by
  simp [isUnit, Generated.EasyListRe.unitRanges, inRanges]

/-- the unit is lower-cased (`cssLengthUnits = m.group(2).lower()`) -/
theorem unit_is_lowercased : Generated.EasyListRe.lowerUnit = true := by decide +kernel

/-! ### `findFmt` is "the first format character" -/

theorem takeWhile_all (p : Cp → Bool) : ∀ (l : Str) (x : Cp), x ∈ l.takeWhile p → p x = true := by
  intro l
  induction l with
  | nil => intro x hx; simp at hx
  | cons a r ih =>
    intro x hx
    by_cases ha : p a = true
    · simp only [List.takeWhile_cons, ha, if_true, List.mem_cons] at hx
      rcases hx with rfl | hx
      · exact ha
      · exact ih x hx
    · simp [ha] at hx

theorem dropWhile_nil_all (p : Cp → Bool) : ∀ (l : Str), l.dropWhile p = [] → ∀ x ∈ l, p x = true := by
  intro l
  induction l with
  | nil => intro _ x hx; simp at hx
  | cons a r ih =>
    intro h x hx
    by_cases ha : p a = true
    · simp only [List.dropWhile_cons, ha, if_true] at h
      simp only [List.mem_cons] at hx
      rcases hx with rfl | hx
      · exact ha
      · exact ih h x hx
    · simp [ha] at h

theorem dropWhile_head (p : Cp → Bool) : ∀ (l : Str) (c : Cp) (r : Str), l.dropWhile p = c :: r → p c = false := by
  intro l
  induction l with
  | nil => intro c r h; simp at h
  | cons a t ih =>
    intro c r h
    by_cases ha : p a = true
    · simp only [List.dropWhile_cons, ha, if_true] at h
      exact ih c r h
    · simp only [List.dropWhile_cons, ha] at h
      simp at h
      rw [← h.1]; simpa using ha

theorem findFmt_some {spec pre suf : Str} {c : Cp} (h : findFmt spec = some (pre, c, suf)) :
    spec = pre ++ [c] ++ suf ∧ isFmt c = true ∧ ∀ x ∈ pre, isFmt x = false := by
  unfold findFmt at h
  split at h
  · simp at h
  · rename_i c' suf' hd
    simp only [Option.some.injEq, Prod.mk.injEq] at h
    obtain ⟨hp, hc, hs⟩ := h
    subst hp hc hs
    have happ := List.takeWhile_append_dropWhile (p := fun c => !isFmt c) (l := spec)
    refine ⟨?_, ?_, ?_⟩
    · rw [hd] at happ; simpa using happ.symm
    · have := dropWhile_head (fun c => !isFmt c) spec c' suf' hd
      simpa using this
    · intro x hx
      have := takeWhile_all (fun c => !isFmt c) spec x hx
      simpa using this

theorem findFmt_none {spec : Str} (h : findFmt spec = none) : ∀ x ∈ spec, isFmt x = false := by
  unfold findFmt at h
  split at h
  · rename_i hd
    intro x hx
    have := dropWhile_nil_all (fun c => !isFmt c) spec hd x hx
    simpa using this
  · simp at h

theorem findFmt_isSome_iff (spec : Str) : (findFmt spec).isSome = true ↔ ∃ c ∈ spec, isFmt c = true := by
  constructor
  · intro h
    cases hf : findFmt spec with
    | none => simp [hf] at h
    | some t =>
      obtain ⟨pre, c, suf⟩ := t
      obtain ⟨hs, hc, _⟩ := findFmt_some hf
      exact ⟨c, by rw [hs]; simp, hc⟩
  · rintro ⟨c, hc, hfc⟩
    cases hf : findFmt spec with
    | none => have := findFmt_none hf c hc; simp [this] at hfc
    | some t => simp

/-! ### the loop -/

theorem levelsFrom_spec (showAll : Bool) (units base : Str) (mul : Nat → Str) :
    ∀ (specs : List Str) (k : Nat) (ls : List Level),
      levelsFrom showAll units base mul k specs = .ok ls →
      ls.length = specs.length ∧
      ∀ j (h1 : j < specs.length) (h2 : j < ls.length),
        mkLevel showAll units base mul (k + j) specs[j] = .ok ls[j] := by
  intro specs
  induction specs with
  | nil =>
    intro k ls h
    simp [levelsFrom] at h
    subst h; simp
  | cons s r ih =>
    intro k ls h
    simp only [levelsFrom] at h
    split at h
    · simp at h
    · rename_i l hl
      split at h
      · simp at h
      · rename_i ls' hls
        simp at h; subst h
        obtain ⟨hlen, hrest⟩ := ih (k + 1) ls' hls
        refine ⟨by simp [hlen], ?_⟩
        intro j h1 h2
        cases j with
        | zero => simpa using hl
        | succ j =>
          have := hrest j (by simpa using h1) (by simpa using h2)
          simpa [Nat.add_assoc, Nat.add_comm 1 j] using this

/-- what `styleFromList` returning a style means -/
theorem styleFromList_ok {F : FloatOracle} {name : Str} {specs : List Str} {spacing : Str} {showAll : Bool}
    {st : ListStyle} (h : styleFromList F name specs spacing showAll = .ok st) :
    ∃ base mul units, F.parse ((cssSplit spacing).map fun p => p.1) = some (base, mul) ∧
      units = unitsOf (cssSplit spacing) ∧
      levelsFrom showAll units base mul 0 specs = .ok st.levels ∧ st.name = makeNCName name := by
  simp only [styleFromList] at h
  split at h
  · simp at h
  · rename_i base mul hF
    split at h
    · simp at h
    · rename_i ls hls
      simp at h; subst h
      exact ⟨base, mul, _, hF, rfl, hls, rfl⟩

variable {F : FloatOracle} {name : Str} {specs : List Str} {spacing : Str} {showAll : Bool} {st : ListStyle}

/-- **C20 (one level definition per specification)** -/
theorem levels_count (h : styleFromList F name specs spacing showAll = .ok st) :
    st.levels.length = specs.length := by
  obtain ⟨base, mul, units, _, _, hl, _⟩ := styleFromList_ok h
  exact (levelsFrom_spec showAll units base mul specs 0 st.levels hl).1

/-- level `i` of the result is the loop body applied to specification `i` -/
theorem level_is_mkLevel (h : styleFromList F name specs spacing showAll = .ok st)
    (i : Nat) (h1 : i < specs.length) (h2 : i < st.levels.length) :
    ∃ base mul units, F.parse ((cssSplit spacing).map fun p => p.1) = some (base, mul) ∧
      units = unitsOf (cssSplit spacing) ∧
      mkLevel showAll units base mul i specs[i] = .ok st.levels[i] := by
  obtain ⟨base, mul, units, hF, hu, hl, _⟩ := styleFromList_ok h
  have := (levelsFrom_spec showAll units base mul specs 0 st.levels hl).2 i h1 h2
  exact ⟨base, mul, units, hF, hu, by simpa using this⟩

theorem mkLevel_level {showAll : Bool} {units base : Str} {mul : Nat → Str} {i : Nat} {spec : Str} {l : Level}
    (h : mkLevel showAll units base mul i spec = .ok l) :
    l.level = i + 1 ∧ l.spaceBefore = mul (i + 1) ++ units ∧ l.minLabelWidth = base ++ units := by
  unfold mkLevel at h
  split at h
  · simp at h; subst h; simp
  · split at h
    · simp at h
    · simp at h; subst h; simp

/-- **C20 (numbered 1..n in order)** -/
theorem levels_numbered (h : styleFromList F name specs spacing showAll = .ok st)
    (i : Nat) (h1 : i < specs.length) (h2 : i < st.levels.length) : st.levels[i].level = i + 1 := by
  obtain ⟨_, _, _, _, _, hm⟩ := level_is_mkLevel h i h1 h2
  exact (mkLevel_level hm).1

def isNumber (l : Level) : Bool :=
  match l.kind with
  | .number _ _ _ _ => true
  | .bullet _ => false

theorem mkLevel_number_iff {showAll : Bool} {units base : Str} {mul : Nat → Str} {i : Nat} {spec : Str} {l : Level}
    (h : mkLevel showAll units base mul i spec = .ok l) :
    isNumber l = true ↔ ∃ c ∈ spec, isFmt c = true := by
  rw [← findFmt_isSome_iff]
  unfold mkLevel at h
  split at h
  · rename_i hf
    simp at h; subst h; simp [isNumber, hf]
  · rename_i hf
    split at h
    · simp at h
    · simp at h; subst h; simp [isNumber, hf]

/-- **C20 (numbering level iff the specification contains one of 1 I i A a)** -/
theorem number_iff (h : styleFromList F name specs spacing showAll = .ok st)
    (i : Nat) (h1 : i < specs.length) (h2 : i < st.levels.length) :
    isNumber st.levels[i] = true ↔ ∃ c ∈ specs[i], isFmt c = true := by
  obtain ⟨_, _, _, _, _, hm⟩ := level_is_mkLevel h i h1 h2
  exact mkLevel_number_iff hm

theorem mkLevel_number {showAll : Bool} {units base : Str} {mul : Nat → Str} {i : Nat} {spec : Str} {l : Level}
    {c : Cp} {pre suf : Str} {d : Nat}
    (h : mkLevel showAll units base mul i spec = .ok l) (hk : l.kind = .number c pre suf d) :
    spec = pre ++ [c] ++ suf ∧ isFmt c = true ∧ (∀ x ∈ pre, isFmt x = false) ∧
    d = (if showAll then i + 1 else 1) := by
  unfold mkLevel at h
  split at h
  · rename_i pre' c' suf' hf
    simp at h; subst h
    simp only [LevelKind.number.injEq] at hk
    obtain ⟨rfl, rfl, rfl, rfl⟩ := hk
    obtain ⟨a, b, c⟩ := findFmt_some hf
    exact ⟨a, b, c, by simp⟩
  · split at h
    · simp at h
    · simp at h; subst h; simp at hk

/-- **C20 (prefix / format / suffix)**: a numbering level's specification is `prefix ++ [format] ++ suffix` where
    `format` is the FIRST of the format characters in it. -/
theorem prefix_suffix (h : styleFromList F name specs spacing showAll = .ok st)
    (i : Nat) (h1 : i < specs.length) (h2 : i < st.levels.length)
    {c : Cp} {pre suf : Str} {d : Nat} (hk : st.levels[i].kind = .number c pre suf d) :
    specs[i] = pre ++ [c] ++ suf ∧ isFmt c = true ∧ ∀ x ∈ pre, isFmt x = false := by
  obtain ⟨_, _, _, _, _, hm⟩ := level_is_mkLevel h i h1 h2
  obtain ⟨a, b, c, _⟩ := mkLevel_number hm hk
  exact ⟨a, b, c⟩

/-- **C20 (the numbering format is written)**: the level element carries `style:num-format` = that character,
    the prefix / suffix attributes exactly when non-empty. -/
theorem num_format (l : Level) {c : Cp} {pre suf : Str} {d : Nat} (hk : l.kind = .number c pre suf d) :
    (levelAttrs l).1 = "text:list-level-style-number" ∧
    ("style:num-format", [c]) ∈ (levelAttrs l).2 ∧
    (pre ≠ [] → ("style:num-prefix", pre) ∈ (levelAttrs l).2) ∧
    (suf ≠ [] → ("style:num-suffix", suf) ∈ (levelAttrs l).2) ∧
    (pre = [] → ∀ v, ("style:num-prefix", v) ∉ (levelAttrs l).2) ∧
    (suf = [] → ∀ v, ("style:num-suffix", v) ∉ (levelAttrs l).2) := by
  simp only [levelAttrs, hk]
  refine ⟨trivial, by simp, ?_, ?_, ?_, ?_⟩
  · intro hp; cases pre <;> simp_all
  · intro hs; cases suf <;> simp_all
  · intro hp v; subst hp; cases suf <;> simp
  · intro hs v; subst hs; cases pre <;> simp

/-- **C20 (all levels or one level shown, as requested)** -/
theorem display_levels (h : styleFromList F name specs spacing showAll = .ok st)
    (i : Nat) (h1 : i < specs.length) (h2 : i < st.levels.length)
    {c : Cp} {pre suf : Str} {d : Nat} (hk : st.levels[i].kind = .number c pre suf d) :
    d = if showAll then i + 1 else 1 := by
  obtain ⟨_, _, _, _, _, hm⟩ := level_is_mkLevel h i h1 h2
  exact (mkLevel_number hm hk).2.2.2

/-- **C20 (bullet = first character)** of a specification without a format character -/
theorem bullet_first_char (h : styleFromList F name specs spacing showAll = .ok st)
    (i : Nat) (h1 : i < specs.length) (h2 : i < st.levels.length)
    {b : Cp} (hk : st.levels[i].kind = .bullet b) :
    (∃ r, specs[i] = b :: r) ∧ ∀ x ∈ specs[i], isFmt x = false := by
  obtain ⟨_, _, _, _, _, hm⟩ := level_is_mkLevel h i h1 h2
  unfold mkLevel at hm
  split at hm
  · simp at hm; rw [← hm] at hk; simp at hk
  · rename_i hf
    split at hm
    · simp at hm
    · rename_i b' r hs
      simp at hm; rw [← hm] at hk
      simp only [LevelKind.bullet.injEq] at hk
      subst hk
      exact ⟨⟨r, hs⟩, findFmt_none hf⟩

theorem findFmt_eq_none {spec : Str} (hf : ∀ x ∈ spec, isFmt x = false) : findFmt spec = none := by
  cases h : findFmt spec with
  | none => rfl
  | some t =>
    have hs : (findFmt spec).isSome = true := by rw [h]; rfl
    obtain ⟨c, hc, hc'⟩ := (findFmt_isSome_iff spec).1 hs
    rw [hf c hc] at hc'
    cases hc'

/-- **C20 (bullet = first character, and only that)**: what follows the first character of a specification without a
    format character — a variation selector, combining marks, a keycap, a ZWJ sequence, a second astral character,
    anything — has no influence on the level: the level built for `b :: tail` is the level built for the one-character
    specification `[b]`, and its bullet is the single code point `b`. -/
theorem bullet_ignores_tail (showAll : Bool) (units base : Str) (mul : Nat → Str) (i : Nat) (b : Cp) (tail : Str)
    (hf : ∀ x ∈ b :: tail, isFmt x = false) :
    mkLevel showAll units base mul i (b :: tail) = mkLevel showAll units base mul i [b] ∧
    ∃ l, mkLevel showAll units base mul i (b :: tail) = .ok l ∧ l.kind = .bullet b := by
  have h1 := findFmt_eq_none hf
  have h2 : findFmt [b] = none :=
    findFmt_eq_none (fun x hx => hf x (by simp at hx; subst hx; simp))
  refine ⟨?_, ?_⟩
  · simp [mkLevel, h1, h2]
  · refine ⟨{ level := i + 1, kind := .bullet b, spaceBefore := mul (i + 1) ++ units, minLabelWidth := base ++ units }, ?_, rfl⟩
    simp [mkLevel, h1]

/-- the hypotheses of `bullet_ignores_tail` are satisfiable on the inputs it is about: HEAVY CHECK MARK followed by
    VARIATION SELECTOR-16, and a keycap sequence `#` U+FE0F U+20E3 -/
theorem bullet_ignores_tail_examples :
    (∀ x ∈ [0x2714, 0xFE0F], isFmt x = false) ∧ (∀ x ∈ [0x23, 0xFE0F, 0x20E3], isFmt x = false) := by
  decide +kernel

/-- **C20 (indentation)** — partial: the two length attributes are the float oracle's strings for `i+1` times the
    number and for the number itself, followed by the unit of the spacing.  That `mul (i+1)` denotes (i+1) × the
    spacing is Python float arithmetic, outside the model (checked by the harness on every generated case). -/
theorem indent_shape_partial (h : styleFromList F name specs spacing showAll = .ok st)
    (i : Nat) (h1 : i < specs.length) (h2 : i < st.levels.length) :
    ∃ base mul units, F.parse ((cssSplit spacing).map fun p => p.1) = some (base, mul) ∧
      units = unitsOf (cssSplit spacing) ∧
      st.levels[i].spaceBefore = mul (i + 1) ++ units ∧ st.levels[i].minLabelWidth = base ++ units := by
  obtain ⟨base, mul, units, hF, hu, hm⟩ := level_is_mkLevel h i h1 h2
  exact ⟨base, mul, units, hF, hu, (mkLevel_level hm).2.1, (mkLevel_level hm).2.2⟩

/-- a non-empty specification list of non-empty specifications never fails once the number parses:
    the hypotheses of the theorems above are satisfiable for every such input -/
theorem succeeds_on_nonempty_specs {base : Str} {mul : Nat → Str}
    (hF : F.parse ((cssSplit spacing).map fun p => p.1) = some (base, mul))
    (hne : ∀ s ∈ specs, s ≠ []) : ∃ st, styleFromList F name specs spacing showAll = .ok st := by
  have key : ∀ (units : Str) (specs : List Str) (k : Nat), (∀ s ∈ specs, s ≠ []) →
      ∃ ls, levelsFrom showAll units base mul k specs = .ok ls := by
    intro units specs
    induction specs with
    | nil => intro k _; exact ⟨[], rfl⟩
    | cons s r ih =>
      intro k hne
      have hs : s ≠ [] := hne s (by simp)
      obtain ⟨ls, hls⟩ := ih (k + 1) (fun x hx => hne x (by simp [hx]))
      have : ∃ l, mkLevel showAll units base mul k s = .ok l := by
        unfold mkLevel
        split
        · exact ⟨_, rfl⟩
        · cases s with
          | nil => exact absurd rfl hs
          | cons b t => exact ⟨_, rfl⟩
      obtain ⟨l, hl⟩ := this
      exact ⟨l :: ls, by simp [levelsFrom, hl, hls]⟩
  simp only [styleFromList, hF]
  obtain ⟨ls, hls⟩ := key (unitsOf (cssSplit spacing)) specs 0 hne
  rw [hls]
  exact ⟨_, rfl⟩

example : (findFmt (Attr.lit "(a)")).isSome = true := by decide +kernel

/-! ### `cssSplit`: what `cssLengthPattern.search(spacing)` yields -/

theorem longestPrefix_accepts : ∀ (s : Str) (r : RE) (n : Nat), longestPrefix r s = some n →
    n ≤ s.length ∧ accepts r (s.take n) = true := by
  intro s
  induction s with
  | nil =>
    intro r n h
    simp only [longestPrefix] at h
    split at h
    · rename_i hn; simp at h; subst h; simp [hn]
    · simp at h
  | cons c t ih =>
    intro r n h
    simp only [longestPrefix] at h
    split at h
    · rename_i m hm
      simp at h; subst h
      obtain ⟨h1, h2⟩ := ih _ _ hm
      exact ⟨by simp; omega, by simpa using h2⟩
    · split at h
      · rename_i hn; simp at h; subst h; simp [hn]
      · simp at h

/-- no prefix matches when `longestPrefix` finds nothing -/
theorem longestPrefix_none : ∀ (s : Str) (r : RE), longestPrefix r s = none → acceptsPrefix r s = false := by
  intro s
  induction s with
  | nil =>
    intro r h
    simp only [longestPrefix] at h
    split at h
    · simp at h
    · rename_i hn; simpa [acceptsPrefix] using hn
  | cons c t ih =>
    intro r h
    simp only [longestPrefix] at h
    split at h
    · simp at h
    · rename_i hm
      split at h
      · simp at h
      · rename_i hn
        have h1 := ih _ hm
        have h2 : nullable r = false := by simpa using hn
        simp [acceptsPrefix, h1, h2]

/-- it is the LONGEST matching prefix -/
theorem longestPrefix_max : ∀ (s : Str) (r : RE) (n : Nat), longestPrefix r s = some n →
    ∀ m, m ≤ s.length → accepts r (s.take m) = true → m ≤ n := by
  intro s
  induction s with
  | nil => intro r n _ m hm _; simp at hm; omega
  | cons c t ih =>
    intro r n h m hm hacc
    cases m with
    | zero => omega
    | succ k =>
      simp only [longestPrefix] at h
      have hk : k ≤ t.length := by simpa using hm
      have hacc' : accepts (deriv c r) (t.take k) = true := by simpa using hacc
      split at h
      · rename_i j hj
        simp at h; subst h
        have := ih _ _ hj k hk hacc'
        omega
      · rename_i hnone
        have hp := longestPrefix_none _ _ hnone
        have : acceptsPrefix (deriv c r) t = true :=
          (acceptsPrefix_iff _ _).mpr ⟨t.take k, t.drop k, by simp, hacc'⟩
        simp [hp] at this

theorem searchLongest_spec : ∀ (s : Str) (r : RE) (pre g post : Str),
    searchLongest r s = some (pre, g, post) →
    s = pre ++ g ++ post ∧ accepts r g = true ∧
    ∀ k, k < pre.length → acceptsPrefix r (s.drop k) = false := by
  intro s
  induction s with
  | nil =>
    intro r pre g post h
    simp only [searchLongest] at h
    split at h
    · rename_i hn
      simp at h; obtain ⟨rfl, rfl, rfl⟩ := h
      exact ⟨rfl, by simpa using hn, by simp⟩
    · simp at h
  | cons c t ih =>
    intro r pre g post h
    simp only [searchLongest] at h
    split at h
    · rename_i n hn
      simp at h; obtain ⟨rfl, rfl, rfl⟩ := h
      obtain ⟨_, hacc⟩ := longestPrefix_accepts _ _ _ hn
      exact ⟨by simp, hacc, by simp⟩
    · rename_i hnone
      split at h
      · rename_i pre' g' post' hs
        simp at h; obtain ⟨rfl, rfl, rfl⟩ := h
        obtain ⟨h1, h2, h3⟩ := ih r pre' g' post' hs
        refine ⟨by simp [h1], h2, ?_⟩
        intro k hk
        cases k with
        | zero => simpa using longestPrefix_none _ _ hnone
        | succ j => simpa using h3 j (by simpa using hk)
      · simp at h

/-- **group 1 is a number of the regex, cut out of the spacing at the leftmost place where one starts** -/
theorem cssSplit_number {spacing g u : Str} (h : cssSplit spacing = some (g, u)) :
    accepts Generated.EasyListRe.numRE g = true ∧
    ∃ pre post, spacing = pre ++ g ++ post ∧
      ∀ k, k < pre.length → acceptsPrefix Generated.EasyListRe.numRE (spacing.drop k) = false := by
  unfold cssSplit at h
  split at h
  · simp at h
  · rename_i pre g' post hs
    simp at h
    obtain ⟨rfl, _⟩ := h
    obtain ⟨h1, h2, h3⟩ := searchLongest_spec _ _ _ _ _ hs
    exact ⟨h2, pre, post, h1, h3⟩

/-- ASCII letters are lower-cased to `a`–`z` by the probed `str.lower()` table -/
theorem lower_unit_table :
    ((List.range 128).all fun c => !isUnit c || (decide (97 ≤ Attr.lowerCp c) && decide (Attr.lowerCp c ≤ 122))) = true := by
  decide +kernel

/-- **the unit that is written is in lower case**: it is the lower-cased run of ASCII letters that follows the number
    (after optional white space) -/
theorem cssSplit_unit {spacing g u : Str} (h : cssSplit spacing = some (g, u)) :
    (∃ raw, (∀ c ∈ raw, isUnit c = true) ∧ u = Attr.lower raw) ∧ ∀ c ∈ u, 97 ≤ c ∧ c ≤ 122 := by
  unfold cssSplit at h
  split at h
  · simp at h
  · rename_i pre g' post hs
    simp at h
    obtain ⟨_, hu⟩ := h
    have hraw : ∀ c ∈ (post.dropWhile isSpace).takeWhile isUnit, isUnit c = true :=
      fun c hc => takeWhile_all isUnit _ c hc
    have hcase : u = Attr.lower ((post.dropWhile isSpace).takeWhile isUnit) := by
      rw [← hu]; simp [unitCase, unit_is_lowercased]
    refine ⟨⟨_, hraw, hcase⟩, ?_⟩
    intro c hc
    rw [hcase] at hc
    simp only [Attr.lower, List.mem_map] at hc
    obtain ⟨x, hx, rfl⟩ := hc
    have hxu := hraw x hx
    have hlt : x < 128 := by
      have hu' := (unit_chars x).mp hxu
      rcases hu' with h' | h' <;> omega
    have ht := lower_unit_table
    simp only [List.all_eq_true, List.mem_range] at ht
    have := ht x hlt
    simp only [hxu, Bool.not_true, Bool.false_or, Bool.and_eq_true, decide_eq_true_eq] at this
    exact this

/-- the inputs of the two repaired findings, and the forms the property's "every CSS length" covers -/
theorem cssSplit_examples :
    cssSplit (Attr.lit "1CM") = some (Attr.lit "1", Attr.lit "cm") ∧
    cssSplit (Attr.lit "1e1mm") = some (Attr.lit "1e1", Attr.lit "mm") ∧
    cssSplit (Attr.lit "2.5E-1Pt") = some (Attr.lit "2.5E-1", Attr.lit "pt") ∧
    cssSplit (Attr.lit "+.5 In") = some (Attr.lit "+.5", Attr.lit "in") ∧
    cssSplit (Attr.lit "-12.75em") = some (Attr.lit "-12.75", Attr.lit "em") ∧
    cssSplit (Attr.lit "3") = some (Attr.lit "3", []) ∧
    cssSplit (Attr.lit "cm") = none := by decide +kernel

/-! ### the string form -/

theorem splitAux_ne_nil (d : Str) (fuel : Nat) (cur s : Str) : splitAux d fuel cur s ≠ [] := by
  cases fuel with
  | zero => simp [splitAux]
  | succ n =>
    cases s with
    | nil => simp [splitAux]
    | cons c r =>
      simp only [splitAux]
      split <;> simp
      exact splitAux_ne_nil d n (cur ++ [c]) r

theorem splitAux_join (d : Str) (hd : d ≠ []) :
    ∀ (fuel : Nat) (cur s : Str), s.length < fuel → join d (splitAux d fuel cur s) = cur ++ s := by
  intro fuel
  induction fuel with
  | zero => intro cur s h; omega
  | succ n ih =>
    intro cur s h
    cases s with
    | nil => simp [splitAux, join]
    | cons c r =>
      simp only [splitAux]
      split
      · rename_i hp
        have hpre : d <+: (c :: r) := List.isPrefixOf_iff_prefix.mp hp
        obtain ⟨t, ht⟩ := hpre
        have hdrop : (c :: r).drop d.length = t := by rw [← ht]; simp
        have hlen : t.length < n := by
          have : (c :: r).length = d.length + t.length := by rw [← ht]; simp
          have hdl : 0 < d.length := List.length_pos_iff.mpr hd
          simp only [List.length_cons] at this h; omega
        rw [hdrop]
        have hrec := ih [] t hlen
        cases hsa : splitAux d n [] t with
        | nil => exact absurd hsa (splitAux_ne_nil d n [] t)
        | cons x xs =>
          rw [hsa] at hrec
          simp only [join]
          rw [hrec, ← ht]; simp
      · have hlen : r.length < n := by simp at h; omega
        rw [ih (cur ++ [c]) r hlen]; simp

/-- **C20 (string form)**: for a non-empty delimiter, joining the pieces with the delimiter gives the string back,
    i.e. `split` cuts exactly at occurrences of the delimiter and loses nothing -/
theorem split_join (d s : Str) (hd : d ≠ []) : join d (split d s) = s := by
  simpa [split] using splitAux_join d hd (s.length + 1) [] s (by omega)

/-- `styleFromString` is `styleFromList` on the pieces -/
theorem string_form (F : FloatOracle) (name specifiers delim spacing : Str) (showAll : Bool) (hd : delim ≠ []) :
    styleFromString F name specifiers delim spacing showAll =
      styleFromList F name (split delim specifiers) spacing showAll := by
  cases delim with
  | nil => exact absurd rfl hd
  | cons a b => simp [styleFromString]

end OdfModel.Props.C20

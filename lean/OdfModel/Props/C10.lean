/-
  Property C10 — saving keeps every referenced automatic style in the part that refers to it.

  Theorems about `OdfModel.Styles` (model of `_stylerefs_of` / `_parseoneelement` / `_used_auto_styles`
  with its closure loop / the two call sites in `contentxml` and `stylesxml`, as of commit 8f9573d) and the
  generated tables `OdfModel.Generated.StyleRefs` (schema style-reference attributes, measured followed
  attributes, measured separators of `str.split`).
  Tie: harness/translate_styles.py (tables, every run) and the correspondence run of harness/c10.py.
-/
import OdfModel.Styles
import OdfModel.Generated.StyleRefs
namespace OdfModel.Props.C10
open OdfModel OdfModel.Styles OdfModel.Generated.StyleRefs

/-! ### The scan computes exactly the de-duplicated list of references -/

theorem mem_addRef (acc : List Str) (v x : Str) : x ∈ addRef acc v ↔ x ∈ acc ∨ x = v := by
  unfold addRef
  split
  · constructor
    · intro h; exact Or.inl h
    · rintro (h | h)
      · exact h
      · subst h; assumption
  · simp

theorem nodup_addRef (acc : List Str) (v : Str) (h : acc.Nodup) : (addRef acc v).Nodup := by
  unfold addRef
  split
  · exact h
  · rename_i hv
    rw [List.nodup_append]
    refine ⟨h, by simp, ?_⟩
    intro a ha b hb
    simp at hb
    subst hb
    intro hab; subst hab; exact hv ha

theorem mem_foldl_addRef (l : List Str) (acc : List Str) (x : Str) :
    x ∈ l.foldl addRef acc ↔ x ∈ acc ∨ x ∈ l := by
  induction l generalizing acc with
  | nil => simp
  | cons v r ih =>
    simp only [List.foldl_cons, ih, mem_addRef, List.mem_cons]
    constructor
    · rintro ((h | h) | h)
      · exact Or.inl h
      · exact Or.inr (Or.inl h)
      · exact Or.inr (Or.inr h)
    · rintro (h | h | h)
      · exact Or.inl (Or.inl h)
      · exact Or.inl (Or.inr h)
      · exact Or.inr h

theorem nodup_foldl_addRef (l : List Str) (acc : List Str) (h : acc.Nodup) :
    (l.foldl addRef acc).Nodup := by
  induction l generalizing acc with
  | nil => simpa
  | cons v r ih => exact ih _ (nodup_addRef acc v h)

theorem scanAttrs_eq (F : List Attr) (attrs : Attrs) (acc : List Str) :
    scanAttrs F attrs acc = (ownRefs F attrs).foldl addRef acc := by
  induction F generalizing acc with
  | nil => simp [scanAttrs, ownRefs]
  | cons a r ih =>
    simp only [scanAttrs, ownRefs, List.filterMap_cons]
    cases h : attrs.lookup a with
    | none => simp only []; rw [ih]; rfl
    | some v =>
      by_cases hv : v = []
      · simp only [hv, ite_true]; rw [ih]; rfl
      · simp only [hv, ite_false]; rw [ih]; rfl

theorem scanList_eq (sp : Cp → Bool) (L : List Attr) (attrs : Attrs) (acc : List Str) :
    scanList sp L attrs acc = (ownListRefs sp L attrs).foldl addRef acc := by
  induction L generalizing acc with
  | nil => simp [scanList, ownListRefs]
  | cons a r ih =>
    simp only [scanList, ownListRefs, List.filterMap_cons]
    cases h : attrs.lookup a with
    | none => simp only []; rw [ih]; rfl
    | some v =>
      simp only [List.flatMap_cons, List.foldl_append]
      rw [ih]; rfl

mutual
theorem parseNode_eq (C : Cfg) (n : Node) (acc : List Str) :
    parseNode C n acc = (refsNode C n).foldl addRef acc := by
  cases n with
  | text s => simp [parseNode, refsNode]
  | elem name attrs kids =>
    simp only [parseNode, refsNode, List.foldl_append]
    rw [parseKids_eq C kids, scanList_eq, scanAttrs_eq]
theorem parseKids_eq (C : Cfg) (ks : List Node) (acc : List Str) :
    parseKids C ks acc = (refsKids C ks).foldl addRef acc := by
  cases ks with
  | nil => simp [parseKids, refsKids]
  | cons n r =>
    simp only [parseKids, refsKids, List.foldl_append]
    rw [parseKids_eq C r, parseNode_eq C n]
end

theorem mem_parseNode (C : Cfg) (n : Node) (acc : List Str) (x : Str) :
    x ∈ parseNode C n acc ↔ x ∈ acc ∨ x ∈ refsNode C n := by
  rw [parseNode_eq, mem_foldl_addRef]

/-- all references below the children of the given containers, in document order -/
def segRefs (C : Cfg) (segs : List Node) : List Str :=
  segs.flatMap (fun t => refsKids C (kidsOf t))

theorem collect_eq (C : Cfg) (segs : List Node) (acc : List Str) :
    collect C segs acc = (segRefs C segs).foldl addRef acc := by
  induction segs generalizing acc with
  | nil => simp [collect, segRefs]
  | cons t r ih =>
    simp only [collect, segRefs, List.flatMap_cons, List.foldl_append]
    rw [ih, parseKids_eq]; rfl

/-- the name list before the closure loop: exactly the names referenced from below the segments -/
theorem mem_collect (C : Cfg) (segs : List Node) (v : Str) :
    v ∈ collect C segs [] ↔ ∃ top ∈ segs, v ∈ refsKids C (kidsOf top) := by
  rw [collect_eq, mem_foldl_addRef]
  simp [segRefs, List.mem_flatMap]

/-- `if stylename not in stylenamelist`: the collected list never holds a name twice -/
theorem collect_nodup (C : Cfg) (segs : List Node) : (collect C segs []).Nodup := by
  rw [collect_eq]; exact nodup_foldl_addRef _ _ (by simp)

theorem mem_refsKids {C : Cfg} {ks : List Node} {k : Node} {v : Str}
    (hk : k ∈ ks) (hv : v ∈ refsNode C k) : v ∈ refsKids C ks := by
  induction ks with
  | nil => cases hk
  | cons n r ih =>
    simp only [refsKids, List.mem_append]
    rcases List.mem_cons.mp hk with h | h
    · subst h; exact Or.inl hv
    · exact Or.inr (ih h)

/-! ### The closure loop reaches a fixpoint -/

/-- number of children not yet scanned -/
def unscanned (fl : List (Bool × Node)) : Nat := (fl.filter (fun p => !p.1)).length

/-- a scanned style: its name is in the list and so is everything it (and its subtree) refers to -/
def Scanned (C : Cfg) (names : List Str) (e : Node) : Prop :=
  (∃ v, styleNameOf e = some v ∧ v ∈ names) ∧ ∀ x ∈ refsNode C e, x ∈ names

def Inv (C : Cfg) (names : List Str) (fl : List (Bool × Node)) : Prop :=
  ∀ p ∈ fl, p.1 = true → Scanned C names p.2

/-- no unscanned child qualifies any more -/
def Stable (names : List Str) (fl : List (Bool × Node)) : Prop :=
  ∀ p ∈ fl, p.1 = false → keptPred names p.2 = false

theorem Scanned.mono {C : Cfg} {n n' : List Str} {e : Node} (h : ∀ x ∈ n, x ∈ n') (hs : Scanned C n e) :
    Scanned C n' e := by
  obtain ⟨⟨v, hv, hvn⟩, hr⟩ := hs
  exact ⟨⟨v, hv, h v hvn⟩, fun x hx => h x (hr x hx)⟩

theorem Inv.mono {C : Cfg} {n n' : List Str} {fl : List (Bool × Node)} (h : ∀ x ∈ n, x ∈ n') (hi : Inv C n fl) :
    Inv C n' fl := fun p hp hb => (hi p hp hb).mono h

theorem keptPred_true {names : List Str} {e : Node} (h : keptPred names e = true) :
    ∃ v, styleNameOf e = some v ∧ v ∈ names := by
  unfold keptPred at h
  cases hs : styleNameOf e with
  | none => simp [hs] at h
  | some v => simp only [hs, decide_eq_true_eq] at h; exact ⟨v, rfl, h⟩

theorem keptPred_of_mem {names : List Str} {e : Node} {v : Str} (hs : styleNameOf e = some v) (hv : v ∈ names) :
    keptPred names e = true := by
  simp [keptPred, hs, hv]

theorem sweep_names_mono (C : Cfg) (fl : List (Bool × Node)) (names : List Str) (g : Bool) :
    ∀ x ∈ names, x ∈ (sweep C fl names g).1 := by
  induction fl generalizing names g with
  | nil => intro x hx; simpa [sweep]
  | cons p r ih =>
    obtain ⟨b, e⟩ := p
    intro x hx
    simp only [sweep]
    split
    · exact ih _ _ x ((mem_parseNode C e names x).mpr (Or.inl hx))
    · exact ih _ _ x hx

theorem sweep_nodes (C : Cfg) (fl : List (Bool × Node)) (names : List Str) (g : Bool) :
    (sweep C fl names g).2.1.map (·.2) = fl.map (·.2) := by
  induction fl generalizing names g with
  | nil => simp [sweep]
  | cons p r ih =>
    obtain ⟨b, e⟩ := p
    simp only [sweep]
    split <;> simp [ih]

theorem sweep_inv (C : Cfg) (fl : List (Bool × Node)) (names : List Str) (g : Bool) (hi : Inv C names fl) :
    Inv C (sweep C fl names g).1 (sweep C fl names g).2.1 := by
  induction fl generalizing names g with
  | nil => intro p hp; simp [sweep] at hp
  | cons p r ih =>
    obtain ⟨b, e⟩ := p
    have hr : Inv C names r := fun q hq => hi q (List.mem_cons_of_mem _ hq)
    simp only [sweep]
    split
    · rename_i hc
      simp only [Bool.and_eq_true] at hc
      have hm : ∀ x ∈ names, x ∈ parseNode C e names := fun x hx => (mem_parseNode C e names x).mpr (Or.inl hx)
      have ih' := ih (parseNode C e names) true (hr.mono hm)
      intro q hq hb
      rcases List.mem_cons.mp hq with h | h
      · subst h
        obtain ⟨v, hv, hvn⟩ := keptPred_true hc.2
        have hmono := sweep_names_mono C r (parseNode C e names) true
        exact ⟨⟨v, hv, hmono v (hm v hvn)⟩,
          fun x hx => hmono x ((mem_parseNode C e names x).mpr (Or.inr hx))⟩
      · exact ih' q h hb
    · have ih' := ih names g hr
      intro q hq hb
      rcases List.mem_cons.mp hq with h | h
      · subst h
        exact (hi (b, e) (List.mem_cons_self) hb).mono (sweep_names_mono C r names g)
      · exact ih' q h hb

theorem sweep_grown_mono (C : Cfg) (fl : List (Bool × Node)) (names : List Str) :
    (sweep C fl names true).2.2 = true := by
  induction fl generalizing names with
  | nil => simp [sweep]
  | cons p r ih =>
    obtain ⟨b, e⟩ := p
    simp only [sweep]
    split <;> simp [ih]

/-- a round that did not grow changed nothing, and no unscanned child qualifies -/
theorem sweep_not_grown (C : Cfg) (fl : List (Bool × Node)) (names : List Str) (g : Bool)
    (h : (sweep C fl names g).2.2 = false) :
    g = false ∧ (sweep C fl names g).1 = names ∧ (sweep C fl names g).2.1 = fl ∧ Stable names fl := by
  induction fl generalizing names g with
  | nil => simp only [sweep] at h; subst h; simp [sweep, Stable]
  | cons p r ih =>
    obtain ⟨b, e⟩ := p
    simp only [sweep] at h ⊢
    split at h
    · simp [sweep_grown_mono] at h
    · rename_i hc
      obtain ⟨h1, h2, h3, h4⟩ := ih names g h
      simp only [hc]
      refine ⟨h1, h2, by simp [h3], ?_⟩
      intro q hq hb
      rcases List.mem_cons.mp hq with hq | hq
      · subst hq
        simp only at hb
        subst hb
        simpa using hc
      · exact h4 q hq hb

theorem sweep_unscanned_le (C : Cfg) (fl : List (Bool × Node)) (names : List Str) (g : Bool) :
    unscanned (sweep C fl names g).2.1 ≤ unscanned fl := by
  induction fl generalizing names g with
  | nil => simp [sweep]
  | cons p r ih =>
    obtain ⟨b, e⟩ := p
    simp only [sweep]
    split
    · rename_i hc
      simp only [Bool.and_eq_true, Bool.not_eq_true'] at hc
      have := ih (parseNode C e names) true
      simp only [unscanned, List.filter_cons, hc.1] at this ⊢
      simp
      omega
    · have := ih names g
      simp only [unscanned, List.filter_cons] at this ⊢
      cases b <;> simp <;> omega

theorem sweep_unscanned_lt (C : Cfg) (fl : List (Bool × Node)) (names : List Str)
    (h : (sweep C fl names false).2.2 = true) :
    unscanned (sweep C fl names false).2.1 < unscanned fl := by
  induction fl generalizing names with
  | nil => simp [sweep] at h
  | cons p r ih =>
    obtain ⟨b, e⟩ := p
    simp only [sweep] at h ⊢
    split
    · rename_i hc
      simp only [Bool.and_eq_true, Bool.not_eq_true'] at hc
      have := sweep_unscanned_le C r (parseNode C e names) true
      simp only [unscanned, List.filter_cons, hc.1] at this ⊢
      simp
      omega
    · rename_i hc
      simp only [hc] at h
      have := ih names h
      simp only [unscanned, List.filter_cons] at this ⊢
      cases b <;> simp <;> omega

/-- **the `while grown` loop ends at a fixpoint** (the fuel `number of children + 1` is never exhausted):
    names only grow, the children stay the same nodes in the same order, every scanned child has its name
    and all its references in the list, and no unscanned child qualifies any more. -/
theorem closeLoop_stable (C : Cfg) (fuel : Nat) (fl : List (Bool × Node)) (names : List Str)
    (hf : unscanned fl < fuel) (hi : Inv C names fl) :
    (∀ x ∈ names, x ∈ (closeLoop C fuel fl names).1) ∧
    (closeLoop C fuel fl names).2.map (·.2) = fl.map (·.2) ∧
    Inv C (closeLoop C fuel fl names).1 (closeLoop C fuel fl names).2 ∧
    Stable (closeLoop C fuel fl names).1 (closeLoop C fuel fl names).2 := by
  induction fuel generalizing fl names with
  | zero => omega
  | succ f ih =>
    simp only [closeLoop]
    split
    · rename_i hg
      have hlt := sweep_unscanned_lt C fl names hg
      have := ih (sweep C fl names false).2.1 (sweep C fl names false).1 (by omega) (sweep_inv C fl names false hi)
      obtain ⟨h1, h2, h3, h4⟩ := this
      exact ⟨fun x hx => h1 x (sweep_names_mono C fl names false x hx), by rw [h2, sweep_nodes], h3, h4⟩
    · rename_i hg
      simp only [Bool.not_eq_true] at hg
      obtain ⟨_, h2, h3, h4⟩ := sweep_not_grown C fl names false hg
      rw [h2, h3]
      exact ⟨fun x hx => hx, rfl, hi, h4⟩

/-! ### Soundness: nothing is kept that is not referenced -/

theorem sweep_sound (C : Cfg) (P : Str → Prop) (fl : List (Bool × Node)) (names : List Str) (g : Bool)
    (hstep : ∀ e ∈ fl.map (·.2), ∀ s, styleNameOf e = some s → P s → ∀ x ∈ refsNode C e, P x)
    (hn : ∀ x ∈ names, P x) : ∀ x ∈ (sweep C fl names g).1, P x := by
  induction fl generalizing names g with
  | nil => simpa [sweep] using hn
  | cons p r ih =>
    obtain ⟨b, e⟩ := p
    have hstep' : ∀ e ∈ r.map (·.2), ∀ s, styleNameOf e = some s → P s → ∀ x ∈ refsNode C e, P x :=
      fun e he => hstep e (by simp only [List.map_cons, List.mem_cons]; exact Or.inr he)
    simp only [sweep]
    split
    · rename_i hc
      simp only [Bool.and_eq_true] at hc
      obtain ⟨v, hv, hvn⟩ := keptPred_true hc.2
      apply ih _ _ hstep'
      intro x hx
      rcases (mem_parseNode C e names x).mp hx with h | h
      · exact hn x h
      · exact hstep e (by simp) v hv (hn v hvn) x h
    · exact ih _ _ hstep' hn

theorem closeLoop_sound (C : Cfg) (P : Str → Prop) (fuel : Nat) (fl : List (Bool × Node)) (names : List Str)
    (hstep : ∀ e ∈ fl.map (·.2), ∀ s, styleNameOf e = some s → P s → ∀ x ∈ refsNode C e, P x)
    (hn : ∀ x ∈ names, P x) : ∀ x ∈ (closeLoop C fuel fl names).1, P x := by
  induction fuel generalizing fl names with
  | zero => simpa [closeLoop] using hn
  | succ f ih =>
    simp only [closeLoop]
    split
    · exact ih _ _ (by rw [sweep_nodes]; exact hstep) (sweep_sound C P fl names false hstep hn)
    · exact sweep_sound C P fl names false hstep hn

/-! ### What is kept -/

/-- the state the loop of `_used_auto_styles` ends in -/
def final (C : Cfg) (segs : List Node) (auto : Node) : List Str × List (Bool × Node) :=
  closeLoop C (((kidsOf auto).map (fun e => (false, e))).length + 1) ((kidsOf auto).map (fun e => (false, e)))
    (collect C segs [])

theorem usedAuto_eq (C : Cfg) (segs : List Node) (auto : Node) :
    usedAuto C segs auto = ((final C segs auto).2.filter (·.1)).map (·.2) := rfl

theorem final_spec (C : Cfg) (segs : List Node) (auto : Node) :
    (∀ x ∈ collect C segs [], x ∈ (final C segs auto).1) ∧
    (final C segs auto).2.map (·.2) = kidsOf auto ∧
    Inv C (final C segs auto).1 (final C segs auto).2 ∧
    Stable (final C segs auto).1 (final C segs auto).2 := by
  have h := closeLoop_stable C (((kidsOf auto).map (fun e => (false, e))).length + 1)
    ((kidsOf auto).map (fun e => (false, e))) (collect C segs [])
    (by unfold unscanned; exact Nat.lt_succ_of_le (List.length_filter_le _ _))
    (by intro p hp hb; simp only [List.mem_map] at hp; obtain ⟨e, _, rfl⟩ := hp; simp at hb)
  obtain ⟨h1, h2, h3, h4⟩ := h
  refine ⟨h1, ?_, h3, h4⟩
  unfold final
  rw [h2]; simp [Function.comp_def]

/-- a child of automatic-styles whose name is in the final name list is kept -/
theorem kept_of_name_mem (C : Cfg) (segs : List Node) (auto e : Node) (v : Str)
    (he : e ∈ kidsOf auto) (hn : styleNameOf e = some v) (hv : v ∈ (final C segs auto).1) :
    e ∈ usedAuto C segs auto ∧ Scanned C (final C segs auto).1 e := by
  obtain ⟨_, h2, h3, h4⟩ := final_spec C segs auto
  rw [← h2, List.mem_map] at he
  obtain ⟨p, hp, rfl⟩ := he
  have hb : p.1 = true := by
    cases hb : p.1 with
    | true => rfl
    | false => have := h4 p hp hb; rw [keptPred_of_mem hn hv] at this; cases this
  refine ⟨?_, h3 p hp hb⟩
  rw [usedAuto_eq, List.mem_map]
  exact ⟨p, List.mem_filter.mpr ⟨hp, hb⟩, rfl⟩

/-- completeness of the loop: whatever is reachable through the attributes the code follows is in the
    final name list -/
theorem reach_in_names (C : Cfg) (segs : List Node) (auto : Node) (v : Str)
    (h : Reach (refsNode C) segs auto v) : v ∈ (final C segs auto).1 := by
  induction h with
  | root htop hk hv =>
    exact (final_spec C segs auto).1 _ ((mem_collect C segs _).mpr ⟨_, htop, mem_refsKids hk hv⟩)
  | step _ he hn hv ih =>
    exact (kept_of_name_mem C segs auto _ _ he hn ih).2.2 _ hv

/-- soundness of the loop: every name in the final list is reachable -/
theorem names_reach (C : Cfg) (segs : List Node) (auto : Node) :
    ∀ x ∈ (final C segs auto).1, Reach (refsNode C) segs auto x := by
  apply closeLoop_sound C (Reach (refsNode C) segs auto)
  · intro e he s hs hr x hx
    simp only [List.map_map, List.mem_map, Function.comp_def] at he
    obtain ⟨e', he', rfl⟩ := he
    exact Reach.step hr he' hs hx
  · intro x hx
    obtain ⟨top, htop, hv⟩ := (mem_collect C segs x).mp hx
    -- x is referred to from some child of `top`
    have : ∃ k ∈ kidsOf top, x ∈ refsNode C k := by
      generalize kidsOf top = ks at hv
      induction ks with
      | nil => simp [refsKids] at hv
      | cons n r ih =>
        simp only [refsKids, List.mem_append] at hv
        rcases hv with h | h
        · exact ⟨n, by simp, h⟩
        · obtain ⟨k, hk, hx⟩ := ih h; exact ⟨k, List.mem_cons_of_mem _ hk, hx⟩
    obtain ⟨k, hk, hxk⟩ := this
    exact Reach.root htop hk hxk

/-- **C10 (kept ⇔ reachable)**: an automatic style is written to a part exactly when its `style:name` is
    reachable — referenced from below one of the scanned containers, directly or through any chain of
    kept automatic styles — through the attributes the code follows. -/
theorem kept_iff (C : Cfg) (segs : List Node) (auto e : Node) :
    e ∈ usedAuto C segs auto ↔
      e ∈ kidsOf auto ∧ ∃ v, styleNameOf e = some v ∧ Reach (refsNode C) segs auto v := by
  constructor
  · intro h
    obtain ⟨_, h2, h3, _⟩ := final_spec C segs auto
    rw [usedAuto_eq, List.mem_map] at h
    obtain ⟨p, hp, rfl⟩ := h
    obtain ⟨hp, hb⟩ := List.mem_filter.mp hp
    refine ⟨by rw [← h2]; exact List.mem_map.mpr ⟨p, hp, rfl⟩, ?_⟩
    obtain ⟨⟨v, hv, hvn⟩, _⟩ := h3 p hp hb
    exact ⟨v, hv, names_reach C segs auto v hvn⟩
  · rintro ⟨he, v, hn, hr⟩
    exact (kept_of_name_mem C segs auto e v he hn (reach_in_names C segs auto v hr)).1

/-! ### From the schema's references to the code's -/

/-- a name without separator characters -/
def noSp (sp : Cp → Bool) (v : Str) : Prop := ∀ c ∈ v, sp c = false

instance (sp : Cp → Bool) (v : Str) : Decidable (noSp sp v) := by unfold noSp; infer_instance

/-- the automatic styles have names without white space (`style:name` is an NCName by the schema) -/
def WellNamed (sp : Cp → Bool) (auto : Node) : Prop :=
  ∀ e ∈ kidsOf auto, ∀ s, styleNameOf e = some s → noSp sp s

/-- splitting at more separators still finds every item that contains none of them -/
theorem splitBy_mono (p q : Cp → Bool) (hpq : ∀ c, p c = true → q c = true) (s cur cur' v : Str)
    (hv : v ∈ splitBy p s cur) (hq : noSp q v) (hc : cur' = cur ∨ ∃ c ∈ cur, q c = true) :
    v ∈ splitBy q s cur' := by
  induction s generalizing cur cur' with
  | nil =>
    simp only [splitBy] at hv ⊢
    split at hv
    · cases hv
    · simp only [List.mem_singleton] at hv
      subst hv
      rcases hc with h | ⟨c, hc, hqc⟩
      · subst h; rename_i hne; simp [hne]
      · rw [hq c hc] at hqc; cases hqc
  | cons c r ih =>
    simp only [splitBy] at hv ⊢
    by_cases hp : p c = true
    · have hqc := hpq c hp
      simp only [hp, ite_true] at hv
      simp only [hqc, ite_true]
      have tail : v ∈ splitBy p r [] → v ∈ (if cur' = [] then splitBy q r [] else cur' :: splitBy q r []) := by
        intro h
        have := ih [] [] h (Or.inl rfl)
        split
        · exact this
        · exact List.mem_cons_of_mem _ this
      split at hv
      · exact tail hv
      · rcases List.mem_cons.mp hv with h | h
        · subst h
          rcases hc with h | ⟨x, hx, hqx⟩
          · subst h; rename_i hne; simp [hne]
          · rw [hq x hx] at hqx; cases hqx
        · exact tail h
    · simp only [hp] at hv
      simp only [Bool.false_eq_true, ite_false] at hv
      by_cases hqc : q c = true
      · simp only [hqc, ite_true]
        have := ih (cur ++ [c]) [] hv (Or.inr ⟨c, by simp, hqc⟩)
        split
        · exact this
        · exact List.mem_cons_of_mem _ this
      · simp only [hqc]
        simp only [Bool.false_eq_true, ite_false]
        apply ih (cur ++ [c]) (cur' ++ [c]) hv
        rcases hc with h | ⟨x, hx, hqx⟩
        · subst h; exact Or.inl rfl
        · exact Or.inr ⟨x, by simp [hx], hqx⟩

theorem mem_ownRefs (S : List Attr) (attrs : Attrs) (v : Str) :
    v ∈ ownRefs S attrs ↔ v ≠ [] ∧ ∃ a ∈ S, attrs.lookup a = some v := by
  simp only [ownRefs, List.mem_filterMap]
  constructor
  · rintro ⟨a, ha, h⟩
    cases hl : attrs.lookup a with
    | none => simp [hl] at h
    | some w =>
      simp only [hl] at h
      by_cases hw : w = []
      · simp [hw] at h
      · simp only [hw, ite_false, Option.some.injEq] at h
        subst h; exact ⟨hw, a, ha, hl⟩
  · rintro ⟨hv, a, ha, hl⟩
    exact ⟨a, ha, by simp [hl, hv]⟩

theorem mem_ownListRefs (sp : Cp → Bool) (L : List Attr) (attrs : Attrs) (v : Str) :
    v ∈ ownListRefs sp L attrs ↔ ∃ a ∈ L, ∃ w, attrs.lookup a = some w ∧ v ∈ splitBy sp w [] := by
  simp only [ownListRefs, List.mem_flatMap, List.mem_filterMap]
  constructor
  · rintro ⟨w, ⟨a, ha, hl⟩, hv⟩; exact ⟨a, ha, w, hl, hv⟩
  · rintro ⟨a, ha, w, hl, hv⟩; exact ⟨w, ⟨a, ha, hl⟩, hv⟩

mutual
theorem refsNode_spec_code (C : Cfg) (S L : List Attr) (hS : S ⊆ C.single) (hL : L ⊆ C.list)
    (hsp : ∀ c, xmlSpace c = true → C.sp c = true) (n : Node) (v : Str) (hn : noSp C.sp v)
    (hv : v ∈ refsNode (specCfg S L) n) : v ∈ refsNode C n := by
  cases n with
  | text s => simp [refsNode] at hv
  | elem name attrs kids =>
    simp only [refsNode, List.mem_append, specCfg] at hv ⊢
    rcases hv with (hv | hv) | hv
    · rw [mem_ownRefs] at hv
      obtain ⟨h1, a, ha, hl⟩ := hv
      exact Or.inl (Or.inl ((mem_ownRefs _ _ _).mpr ⟨h1, a, hS ha, hl⟩))
    · rw [mem_ownListRefs] at hv
      obtain ⟨a, ha, w, hl, hs⟩ := hv
      exact Or.inl (Or.inr ((mem_ownListRefs _ _ _ _).mpr
        ⟨a, hL ha, w, hl, splitBy_mono xmlSpace C.sp hsp w [] [] v hs hn (Or.inl rfl)⟩))
    · exact Or.inr (refsKids_spec_code C S L hS hL hsp kids v hn hv)
theorem refsKids_spec_code (C : Cfg) (S L : List Attr) (hS : S ⊆ C.single) (hL : L ⊆ C.list)
    (hsp : ∀ c, xmlSpace c = true → C.sp c = true) (ks : List Node) (v : Str) (hn : noSp C.sp v)
    (hv : v ∈ refsKids (specCfg S L) ks) : v ∈ refsKids C ks := by
  cases ks with
  | nil => simp [refsKids] at hv
  | cons n r =>
    simp only [refsKids, List.mem_append] at hv ⊢
    rcases hv with hv | hv
    · exact Or.inl (refsNode_spec_code C S L hS hL hsp n v hn hv)
    · exact Or.inr (refsKids_spec_code C S L hS hL hsp r v hn hv)
end

theorem reach_spec_code (C : Cfg) (S L : List Attr) (hS : S ⊆ C.single) (hL : L ⊆ C.list)
    (hsp : ∀ c, xmlSpace c = true → C.sp c = true) (segs : List Node) (auto : Node)
    (hw : WellNamed C.sp auto) (v : Str) (hr : Reach (refsNode (specCfg S L)) segs auto v) :
    noSp C.sp v → Reach (refsNode C) segs auto v := by
  induction hr with
  | root htop hk hv =>
    intro hn; exact Reach.root htop hk (refsNode_spec_code C S L hS hL hsp _ _ hn hv)
  | step _ he hs hv ih =>
    intro hn
    exact Reach.step (ih (hw _ he _ hs)) he hs (refsNode_spec_code C S L hS hL hsp _ _ hn hv)

/-- **C10 (closure, any scanned containers)**: if the code follows every single-valued attribute of `S`
    and splits every list-valued attribute of `L` (at least at XML white space), then every automatic
    style reachable from the scanned containers through the schema's references — directly or through
    any chain of automatic styles — is kept. -/
theorem closure_kept (C : Cfg) (S L : List Attr) (hS : S ⊆ C.single) (hL : L ⊆ C.list)
    (hsp : ∀ c, xmlSpace c = true → C.sp c = true) (segs : List Node) (auto : Node)
    (hw : WellNamed C.sp auto) (e : Node) (v : Str) (he : e ∈ kidsOf auto) (hn : styleNameOf e = some v)
    (hr : Reach (refsNode (specCfg S L)) segs auto v) : e ∈ usedAuto C segs auto :=
  (kept_iff C segs auto e).mpr ⟨he, v, hn, reach_spec_code C S L hS hL hsp segs auto hw v hr (hw e he v hn)⟩

/-! ### The tables, and the property for the code as it is -/

/-- the configuration of the real code, from the regenerated tables -/
def codeCfg : Cfg := { single := followedAttrs, list := followedListAttrs, sp := fun c => pySpaceTable.contains c }

/-- single-valued / list-valued style-reference attributes of the ODF schema -/
def schemaSingle : List Attr := schemaStyleRefAttrs.filter (fun a => !schemaListTyped.contains a)

/-- **C10 (table)**: every style-reference attribute of the schema is followed by the code — the
    single-valued ones as names, the list-valued ones split into names. -/
theorem schema_refs_followed : schemaSingle ⊆ followedAttrs ∧ schemaListTyped ⊆ followedListAttrs ∧
    schemaListTyped ⊆ schemaStyleRefAttrs := by decide

/-- `str.split()` splits at every XML white-space character (and some more) -/
theorem xmlSpace_split : ∀ c, xmlSpace c = true → codeCfg.sp c = true := by
  intro c h
  simp only [xmlSpace, Bool.or_eq_true, beq_iff_eq] at h
  rcases h with ((h | h) | h) | h <;> subst h <;> decide

/-- the naming attribute is not itself followed (otherwise every style would refer to itself) -/
theorem styleName_not_followed : styleNameAttr ∉ followedAttrs ∧ styleNameAttr ∉ followedListAttrs := by decide

theorem Reach.mono_roots {refs : Node → List Str} {roots roots' : List Node} {auto : Node} {v : Str}
    (h : roots ⊆ roots') (hr : Reach refs roots auto v) : Reach refs roots' auto v := by
  induction hr with
  | root htop hk hv => exact Reach.root (h htop) hk hv
  | step _ he hs hv ih => exact Reach.step ih he hs hv

/-- **C10 (content.xml, full strength)**: every automatic style referenced from the body through any
    style-reference attribute of the ODF schema, directly or via other automatic styles, is written to
    content.xml.  (`WellNamed`: the names of the automatic styles contain no white space — `style:name`
    is an NCName.) -/
theorem closure_kept_content (d : StyleDoc) (hw : WellNamed codeCfg.sp d.auto) (e : Node) (v : Str)
    (he : e ∈ kidsOf d.auto) (hn : styleNameOf e = some v)
    (hr : Reach (refsNode (specCfg schemaSingle schemaListTyped)) [d.body] d.auto v) :
    e ∈ contentKept codeCfg d := by
  have hr' : Reach (refsNode (specCfg schemaSingle schemaListTyped)) [d.styles, d.body] d.auto v :=
    Reach.mono_roots (by intro x hx; simp only [List.mem_singleton] at hx; subst hx; simp) hr
  exact closure_kept codeCfg _ _ schema_refs_followed.1 schema_refs_followed.2.1 xmlSpace_split _ _ hw e v he hn hr'

/-- **C10 (styles.xml, full strength)**: every automatic style referenced from the master styles
    (master pages, their headers, footers and shapes) through any style-reference attribute of the ODF
    schema, directly or via other automatic styles, is written to styles.xml. -/
theorem closure_kept_styles (d : StyleDoc) (hw : WellNamed codeCfg.sp d.auto) (e : Node) (v : Str)
    (he : e ∈ kidsOf d.auto) (hn : styleNameOf e = some v)
    (hr : Reach (refsNode (specCfg schemaSingle schemaListTyped)) [d.master] d.auto v) :
    e ∈ stylesKept codeCfg d :=
  closure_kept codeCfg _ _ schema_refs_followed.1 schema_refs_followed.2.1 xmlSpace_split _ _ hw e v he hn hr

/-- **C10 (at most once per part)**: the kept list is a sub-list of the children of
    `office:automatic-styles` — same elements, same order, no element repeated … -/
theorem kept_sublist (C : Cfg) (segs : List Node) (auto : Node) :
    (usedAuto C segs auto).Sublist (kidsOf auto) := by
  rw [usedAuto_eq]
  have h := (final_spec C segs auto).2.1
  rw [← h]
  exact (List.filter_sublist).map _

/-- … so if the automatic styles have pairwise different names, so have the styles written to a part. -/
theorem kept_once (C : Cfg) (segs : List Node) (auto : Node)
    (h : (namesOf (kidsOf auto)).Nodup) : (namesOf (usedAuto C segs auto)).Nodup := by
  unfold namesOf at *
  exact ((kept_sublist C segs auto).map styleNameOf).nodup h

/-- **C10 (definition unchanged)**: every kept element *is* a child of `office:automatic-styles`
    (the same subtree: name, attributes, children), and it is written with the same printer as any
    other element (`s.toXml(2, xml)` in both call sites). -/
theorem definition_unchanged (C : Cfg) (segs : List Node) (auto e : Node)
    (h : e ∈ usedAuto C segs auto) : e ∈ kidsOf auto :=
  (kept_sublist C segs auto).subset h

/-- **C10 (never dangling)**: in both parts, whatever a *written* automatic style refers to (through
    the followed attributes) and that names an automatic style is written too. -/
theorem kept_closed (C : Cfg) (segs : List Node) (auto s e : Node) (v : Str)
    (hs : s ∈ usedAuto C segs auto) (hv : v ∈ refsNode C s)
    (he : e ∈ kidsOf auto) (hn : styleNameOf e = some v) : e ∈ usedAuto C segs auto := by
  obtain ⟨hsk, w, hw, hr⟩ := (kept_iff C segs auto s).mp hs
  exact (kept_iff C segs auto e).mpr ⟨he, v, hn, Reach.step hr hsk hw hv⟩

/-- **C10 (nothing unreferenced)**: an automatic style whose name is not reachable from the scanned
    containers is not written — in particular one that only an *unused* automatic style refers to
    (since ff5b530 `office:automatic-styles` is not a seed of content.xml any more). -/
theorem not_kept_of_unreachable (C : Cfg) (segs : List Node) (auto e : Node)
    (h : ∀ v, styleNameOf e = some v → ¬ Reach (refsNode C) segs auto v) : e ∉ usedAuto C segs auto := by
  intro hk
  obtain ⟨_, v, hv, hr⟩ := (kept_iff C segs auto e).mp hk
  exact h v hv hr

/-- content.xml is seeded from the common styles and the body; whatever is reachable from there
    through chains of automatic styles is written, nothing else -/
theorem contentKept_iff (C : Cfg) (d : StyleDoc) (e : Node) :
    e ∈ contentKept C d ↔
      e ∈ kidsOf d.auto ∧ ∃ v, styleNameOf e = some v ∧ Reach (refsNode C) [d.styles, d.body] d.auto v :=
  kept_iff C [d.styles, d.body] d.auto e

/-! ### Non-vacuity -/

def X : Str := [88]
def Y : Str := [89]
abbrev tsn : Attr := a_text_style_name
abbrev dsn : Attr := a_style_data_style_name
abbrev tcn : Attr := a_text_class_names

/-- master page → paragraph style `X` (text:class-names="Q X", a list value) → data style `Y`
    (style:data-style-name); an unused style `Z` -/
def chain : StyleDoc :=
  { styles := .elem 100 [] []
    auto := .elem 101 [] [.elem 112 [(styleNameAttr, Y)] [], .elem 113 [(styleNameAttr, [90])] [],
                          .elem 110 [(styleNameAttr, X), (dsn, Y)] []]
    master := .elem 102 [] [.elem 111 [(tcn, [81, 32, 88])] []]
    body := .elem 103 [] [] }

/-- the hypotheses of the closure theorems are satisfiable, and the loop really iterates: `Y` is found in
    the second round only (it precedes `X` among the automatic styles); `Z` is not kept; content.xml of the
    document with an empty body keeps nothing (`X` → `Y` alone does not make `Y` used) -/
theorem chain_kept :
    namesOf (stylesKept codeCfg chain) = [some Y, some X] ∧
    namesOf (contentKept codeCfg { chain with body := chain.master }) = [some Y, some X] ∧
    namesOf (contentKept codeCfg chain) = [] := by
  decide

/-- unused automatic style `X` refers to automatic style `Y`; the body uses neither: neither is written
    to content.xml (before ff5b530 `Y` was) -/
def unusedRef : StyleDoc :=
  { styles := .elem 100 [] []
    auto := .elem 101 [] [.elem 110 [(styleNameAttr, X), (dsn, Y)] [], .elem 112 [(styleNameAttr, Y)] []]
    master := .elem 102 [] []
    body := .elem 103 [] [.elem 111 [(tsn, [90])] []] }

theorem unused_ref_not_written :
    namesOf (contentKept codeCfg unusedRef) = [] ∧ namesOf (stylesKept codeCfg unusedRef) = [] := by decide

theorem chain_wellNamed : WellNamed codeCfg.sp chain.auto := by
  intro e he s hs
  simp only [chain, kidsOf, List.mem_cons, List.not_mem_nil, or_false] at he
  rcases he with rfl | rfl | rfl <;> simp [styleNameOf, List.lookup, styleNameAttr] at hs <;> subst hs <;> decide

theorem chain_reach : Reach (refsNode (specCfg schemaSingle schemaListTyped)) [chain.master] chain.auto Y := by
  have h1 : Reach (refsNode (specCfg schemaSingle schemaListTyped)) [chain.master] chain.auto X :=
    Reach.root (top := chain.master) (k := .elem 111 [(tcn, [81, 32, 88])] []) (by simp) (by simp [chain, kidsOf]) (by decide)
  exact Reach.step (e := .elem 110 [(styleNameAttr, X), (dsn, Y)] []) h1 (by simp [chain, kidsOf]) (by decide) (by decide)

end OdfModel.Props.C10

/-
  Property C13 — reading a package never expands entities or touches external resources.

  What is PROVED here (about `OdfModel.Entity` + the regenerated inventory `Generated.ParseSites`):
    * the dispatch: every parser any reading entry point can hand any member to — for every object path —
      is constructed by `defusedxml` (`reach_all_defused`, `all_defused`, `load_parametric`);
    * the hand-written walk of each entry point (for `load`: every chain of listed `Object <digits>/` folders, any
      depth, any name length) only opens members the inventory knows about (`readOrder_sound`, `objFolders_listed`);
    * UNDER THE ASSUMED parser behaviour (`ParserBehaviour`: defusedxml raises on an entity declaration; its
      SAX reader raises on an external subset) a package with an entity-declaring member that the entry point
      reads makes the call fail, with `EntitiesForbidden` when that member is the only faulty one, and with
      `ExternalReferenceForbidden` when its DOCTYPE only names an external subset — for EVERY entry point
      (`refuses_partial`, `refuses_explicit_partial`, `refuses_external_subset_partial`, `C13_full_partial`).

  What is NOT proved (level: partial): the behaviour of defusedxml / expat itself (`ParserBehaviour`), a hypothesis
  validated on every run by the fault matrix of harness/c13.py, and "never reads a local file or URL", which
  is outside the model (a refused parse resolves nothing; the harness watches file and URL opens).
  That the text pre-processing in front of the parser (`__fixXmlPart`) leaves the DOCTYPE alone is the parameter `Prep`
  of the theorems of THIS file; Props/C13Prep.lean instantiates it with the character-level model of the function
  (since /repo fix e859a9c the function looks for the document element behind the prolog; Props/C05.lean
  `fix_prolog_untouched`) — `prepOfFix`, `C13_full_fix` — so it is no longer assumed.

  Full statement of the property in model terms: `C13_full`, proved for every assumed parser behaviour
  (`C13_full_partial`).  The external-subset refusal of the MoinMoin converter is CODE (`ODF2MoinMoin._parse` tests
  `doctype.systemId / publicId` after the DOM parse, repaired in d51c2e9): it is the `doctypeGuard` flag of the
  regenerated inventory (`moin_guarded`), not an assumption.
-/
import OdfModel.Entity
namespace OdfModel.Props.C13
open OdfModel OdfModel.Entity OdfModel.ParseSite

/-! ### the regenerated inventory is complete for the modelled entry points -/

/-- every modelled entry point was found in the source by the translator -/
theorem reach_total (ep : EP) : (reachIds ep).isSome = true := by
  cases ep <;> decide

/-- every site id in the reach table names a library site of the inventory -/
theorem reach_ids_exist (ep : EP) :
    ((reachIds ep).getD []).all (fun i => Generated.ParseSites.sites.any (fun s => s.id == i)) = true := by
  cases ep <;> decide

/-- every entry point reaches at least one parser (the table is not vacuous) -/
theorem reach_nonempty (ep : EP) : reachSites ep ≠ [] := by
  cases ep <;> decide

/-! ### dispatch -/

/-- **C13 (inventory, media types)**: no parse site of the library is reached or skipped depending on the media type
    the manifest gives an object folder (the model's walk has no media type: every folder on a listed chain of
    `Object <n>/` folders is a sub-document, whatever kind of object it holds) -/
theorem dispatch_media_independent : ∀ s ∈ Generated.ParseSites.sites, s.mediaCond = 0 := by
  decide

/-- **C13 (inventory)**: every parser construction reachable from a reading entry point of the library is
    imported from `defusedxml` (checked over the inventory regenerated from the source on every run). -/
theorem reach_all_defused (ep : EP) : ∀ s ∈ reachSites ep, s.origin = 0 := by
  cases ep <;> decide

theorem sitesFor_sub (ep : EP) (m : Member) : ∀ s ∈ sitesFor ep m, s ∈ reachSites ep := by
  intro s hs
  unfold sitesFor sitesForB at hs
  exact (List.mem_filter.mp hs).1

theorem kindOfSites_defused (l : List Site) (hne : l ≠ []) (h : ∀ s ∈ l, s.origin = 0) :
    ∃ api, kindOfSites l = some (.defused api) := by
  cases l with
  | nil => exact absurd rfl hne
  | cons s ss =>
    have hall : (s :: ss).all (fun t => t.origin == 0) = true := by
      rw [List.all_eq_true]; intro t ht; simp [h t ht]
    refine ⟨siteApi s, ?_⟩
    simp only [kindOfSites, hall, if_true]
    simp [siteKind, h s (by simp)]

/-- **C13 (dispatch)**: whatever member — of the main document or of an embedded object at ANY object path —
    an entry point can hand to a parser, that parser is a defusedxml one. -/
theorem all_defused (ep : EP) (m : Member) (h : parses ep m) : ∃ api, kind ep m = some (.defused api) := by
  unfold kind kindB
  apply kindOfSites_defused
  · exact h
  · intro s hs
    exact reach_all_defused ep s (sitesFor_sub ep m s hs)

/-- the same, as a statement about `Kind.isDefused` -/
theorem all_defused_isDefused (ep : EP) (m : Member) (h : parses ep m) : (kind ep m).map Kind.isDefused = some true := by
  obtain ⟨api, hk⟩ := all_defused ep m h
  simp [hk, Kind.isDefused]

/-- finite core of the parametric lemma: what the inventory says about a member depends only on its part and
    on whether its object path is empty -/
theorem loadlike_table (ep : EP) (hs : ep.shape = .loadLike) (pt : Part) (hpt : pt ≠ .manifest) (objEmpty : Bool) :
    sitesForB ep pt objEmpty ≠ [] ∧ kindB ep pt objEmpty = some (.defused .sax) := by
  cases ep <;> first | exact absurd hs (by decide) | skip
  all_goals (cases objEmpty <;> cases pt <;> first | exact absurd rfl hpt | decide)

/-- **C13 (parametric lemma for `load`)**: for EVERY object path — not an enumeration — the four parts of the
    object are parsed by `load`, and by the defusedxml SAX reader: `__loadxmlparts` has one parse site whose
    member name is `objectpath + literal`. -/
theorem load_parametric (objectpath : Str) (pt : Part) (hpt : pt ≠ .manifest) :
    parses .load ⟨objectpath, pt⟩ ∧ kind .load ⟨objectpath, pt⟩ = some (.defused .sax) :=
  loadlike_table .load rfl pt hpt objectpath.isEmpty

/-- every load-like entry point (load, the user-field tool, the XHTML converter) behaves like `load` here -/
theorem loadlike_parametric (ep : EP) (hs : ep.shape = .loadLike) (objectpath : Str) (pt : Part) (hpt : pt ≠ .manifest) :
    parses ep ⟨objectpath, pt⟩ ∧ kind ep ⟨objectpath, pt⟩ = some (.defused .sax) :=
  loadlike_table ep hs pt hpt objectpath.isEmpty

theorem manifest_kind (ep : EP) (hs : ep.shape ≠ .moin) :
    parses ep ⟨[], .manifest⟩ ∧ kind ep ⟨[], .manifest⟩ = some (.defused .sax) := by
  show sitesForB ep .manifest true ≠ [] ∧ kindB ep .manifest true = some (.defused .sax)
  cases ep <;> first | exact absurd rfl hs | decide

theorem moin_kind (ep : EP) (hs : ep.shape = .moin) (pt : Part) (hpt : pt = .styles ∨ pt = .content) :
    parses ep ⟨[], pt⟩ ∧ kind ep ⟨[], pt⟩ = some (.defused .dom) := by
  show sitesForB ep pt true ≠ [] ∧ kindB ep pt true = some (.defused .dom)
  cases ep <;> first | exact absurd hs (by decide) | skip
  all_goals (rcases hpt with h | h <;> subst h <;> decide)

theorem moin_table (ep : EP) (hs : ep.shape = .moin) (pt : Part) (objEmpty : Bool) (h : sitesForB ep pt objEmpty ≠ []) :
    objEmpty = true ∧ (pt = .styles ∨ pt = .content) := by
  cases ep <;> first | exact absurd hs (by decide) | skip
  all_goals (revert h; cases objEmpty <;> cases pt <;> decide)

/-- the MoinMoin converter opens nothing but styles.xml and content.xml of the main document: no other
    member, and no member of an embedded object, flows into its parsers -/
theorem moin_reads_only_top_styles_content (ep : EP) (hs : ep.shape = .moin) (m : Member) (h : parses ep m) :
    m.obj.isEmpty = true ∧ (m.part = .styles ∨ m.part = .content) :=
  moin_table ep hs m.part m.obj.isEmpty h

/-! ### the walk of each entry point stays inside the inventory -/

theorem mem_loadParts (p : Pkg) (obj : Str) (m : Member) (h : m ∈ loadParts p obj) :
    m.obj = obj ∧ m.part ≠ .manifest := by
  unfold loadParts at h
  have h1 := (List.mem_filter.mp h).1
  simp only [List.map_cons, List.map_nil, List.mem_cons, List.not_mem_nil, or_false] at h1
  rcases h1 with h1 | h1 | h1 | h1 <;> subst h1 <;> simp

theorem chain_listed (man : List Str) (e : Str) (fuel : Nat) (op : Str) :
    ∀ f ∈ chain man e fuel op, man.contains f = true := by
  induction fuel generalizing op with
  | zero => intro f hf; simp [chain] at hf
  | succ n ih =>
    intro f hf
    unfold chain at hf
    split at hf
    · cases hf
    · rename_i seg _
      split at hf
      · rename_i hc
        rcases List.mem_cons.mp hf with h | h
        · rw [h]; exact hc
        · exact ih _ f h
      · cases hf

/-- every sub-document folder `load` descends into is itself listed in the manifest -/
theorem objFolders_listed (man : List Str) : ∀ f ∈ objFolders man, man.contains f = true := by
  intro f hf
  unfold objFolders at hf
  rw [List.mem_eraseDups] at hf
  obtain ⟨e, _, he⟩ := List.mem_flatMap.mp hf
  exact chain_listed man e _ _ f he

/-- `Object <digits>/` as code points -/
def objName (digits : Str) : Str := [79, 98, 106, 101, 99, 116, 32] ++ digits ++ [47]

/-- the dispatch of 0372084 on an example: a nested folder and a long-named folder ARE sub-documents, a nested
    folder whose parent is not listed is not -/
example :
    objFolders [objName [49], objName [49] ++ Part.content.file, objName [49] ++ objName [50],
                objName [49] ++ objName [50] ++ objName [51, 51], objName [49, 48, 48],
                objName [53] ++ objName [54], [112, 47]]
      = [objName [49], objName [49] ++ objName [50], objName [49] ++ objName [50] ++ objName [51, 51], objName [49, 48, 48]] := by
  decide

/-- **C13 (walk ⊆ inventory)**: every member the model says an entry point opens flows, according to the
    regenerated inventory, into a parser reached from that entry point. -/
theorem readOrder_sound (ep : EP) (p : Pkg) (m : Member) (h : m ∈ readOrder ep p) : parses ep m := by
  unfold readOrder at h
  cases hs : ep.shape <;> rw [hs] at h <;> simp only at h
  · -- loadLike
    rcases List.mem_cons.mp h with h | h
    · subst h; exact (manifest_kind ep (by rw [hs]; decide)).1
    · rcases List.mem_append.mp h with h | h
      · obtain ⟨ho, hp⟩ := mem_loadParts p [] m h
        obtain ⟨obj, pt⟩ := m
        exact (loadlike_parametric ep hs obj pt hp).1
      · obtain ⟨e, _, he⟩ := List.mem_flatMap.mp h
        obtain ⟨ho, hp⟩ := mem_loadParts p e m he
        obtain ⟨obj, pt⟩ := m
        exact (loadlike_parametric ep hs obj pt hp).1
  · -- manifestOnly
    simp only [List.mem_cons, List.not_mem_nil, or_false] at h
    subst h; exact (manifest_kind ep (by rw [hs]; decide)).1
  · -- moin
    simp only [List.mem_cons, List.not_mem_nil, or_false] at h
    rcases h with h | h <;> subst h
    · exact (moin_kind ep hs .styles (Or.inl rfl)).1
    · exact (moin_kind ep hs .content (Or.inr rfl)).1

/-- every member on the walk meets a defusedxml parser -/
theorem readOrder_defused (ep : EP) (p : Pkg) (m : Member) (h : m ∈ readOrder ep p) :
    ∃ api, kind ep m = some (.defused api) :=
  all_defused ep m (readOrder_sound ep p m h)

/-! ### refusal, under the assumed parser behaviour -/

/-- **C13 (inventory, doctype guard)**: the parse site of the MoinMoin converter is followed by the explicit
    `systemId / publicId` test (regenerated from the AST of `ODF2MoinMoin._parse` on every run) -/
theorem moin_guarded (ep : EP) (hs : ep.shape = .moin) (pt : Part) (hpt : pt = .styles ∨ pt = .content) :
    guarded ep ⟨[], pt⟩ = true := by
  show guardedB ep pt true = true
  cases ep <;> first | exact absurd hs (by decide) | skip
  all_goals (rcases hpt with h | h <;> subst h <;> decide)

/-- the pre-processing obligation at work: what the parser is given carries the member's DOCTYPE facts -/
theorem prep_arg (P : Prep) (ep : EP) (m : Member) (x : XmlMember) :
    (if prepped ep m = true then P.fix x else x) = x := by
  split
  · exact P.preserves x
  · rfl

/-- **C13 (inventory, pre-processing)**: the only parse site with a text transformer in front of it is the one of
    `__loadxmlparts` (so the obligation `Prep` concerns `__fixXmlPart` and nothing else): the manifest reader and
    the MoinMoin converter hand the member's bytes to the parser as they are -/
theorem prep_only_load_parts (ep : EP) (pt : Part) (objEmpty : Bool) (h : preppedB ep pt objEmpty = true) :
    ep.shape = .loadLike ∧ pt ≠ .manifest := by
  revert h
  cases ep <;> cases pt <;> cases objEmpty <;> decide

theorem readMember_declares (B : ParserBehaviour) (P : Prep) (ep : EP) (m : Member) (x : XmlMember) (api : Api)
    (hk : kind ep m = some (.defused api)) (hd : x.declaresEntity = true) :
    readMember B P ep m x = .error .entitiesForbidden := by
  simp only [readMember, hk, prep_arg, B.defused_refuses_entities api x hd]

theorem readMember_clean (B : ParserBehaviour) (P : Prep) (ep : EP) (m : Member) (k : Kind) (hk : kind ep m = some k) :
    readMember B P ep m XmlMember.clean = .ok ⟨false⟩ := by
  have h := B.clean_ok k
  simp only [readMember, hk, prep_arg, h]
  simp [XmlMember.clean]

/-- a member whose DOCTYPE only names an external subset: refused by the SAX reader (assumed), or by the code's
    own doctype test after a DOM parse (modelled; the DOM parse itself may succeed or refuse, nothing else) -/
theorem readMember_external (B : ParserBehaviour) (P : Prep) (ep : EP) (m : Member) (x : XmlMember)
    (hk : kind ep m = some (.defused .sax) ∨ ((∃ api, kind ep m = some (.defused api)) ∧ guarded ep m = true))
    (hd : x.declaresEntity = false) (he : x.externalSubset = true) :
    readMember B P ep m x = .error .externalReferenceForbidden := by
  rcases hk with hk | ⟨⟨api, hk⟩, hg⟩
  · simp only [readMember, hk, prep_arg, B.sax_refuses_external_subset x hd he]
  · rcases B.defused_no_other_failure api x hd with ⟨o, ho⟩ | herr
    · simp [readMember, hk, prep_arg, ho, hg, he]
    · simp only [readMember, hk, prep_arg, herr]

theorem readList_refuses (B : ParserBehaviour) (P : Prep) (ep : EP) (p : Pkg) (ms : List Member)
    (hk : ∀ m' ∈ ms, ∃ api, kind ep m' = some (.defused api))
    (m : Member) (x : XmlMember) (hm : m ∈ ms) (hx : p.lookup m.path = some x) (hd : x.declaresEntity = true) :
    ∃ e, readList B P ep p ms = .error e := by
  induction ms with
  | nil => cases hm
  | cons m0 rest ih =>
    have ihr : m ∈ rest → ∃ e, readList B P ep p rest = .error e :=
      fun hmr => ih (fun m' h' => hk m' (List.mem_cons_of_mem _ h')) hmr
    by_cases hm0 : m = m0
    · subst hm0
      obtain ⟨api, hkm⟩ := hk m (by simp)
      simp only [readList, hx, readMember_declares B P ep m x api hkm hd]
      exact ⟨_, rfl⟩
    · have hmr : m ∈ rest := by
        rcases List.mem_cons.mp hm with h | h
        · exact absurd h hm0
        · exact h
      obtain ⟨e, he⟩ := ihr hmr
      simp only [readList]
      cases hl : p.lookup m0.path with
      | none =>
        simp only []
        split
        · exact ⟨e, he⟩
        · exact ⟨_, rfl⟩
      | some x0 =>
        simp only []
        cases hp : readMember B P ep m0 x0 with
        | error e0 => exact ⟨e0, rfl⟩
        | ok o => simp only [he]; exact ⟨e, rfl⟩

/-- **C13 (refusal; partial: parser behaviour assumed)**: if an entry point reads a member that declares an
    entity (internal, external general or parameter — used or not), the call does not return: it fails. -/
theorem refuses_partial (B : ParserBehaviour) (P : Prep) (ep : EP) (p : Pkg) (m : Member) (x : XmlMember)
    (hm : m ∈ readOrder ep p) (hx : p.lookup m.path = some x) (hd : x.declaresEntity = true) :
    ∃ e, read B P ep p = .error e :=
  readList_refuses B P ep p (readOrder ep p) (fun m' h' => readOrder_defused ep p m' h') m x hm hx hd

/-- contrapositive: a call that returns has met no entity declaration in any member it opened -/
theorem returns_implies_clean_partial (B : ParserBehaviour) (P : Prep) (ep : EP) (p : Pkg) (os : List Outcome)
    (h : read B P ep p = .ok os) (m : Member) (x : XmlMember) (hm : m ∈ readOrder ep p)
    (hx : p.lookup m.path = some x) : x.declaresEntity = false := by
  cases hd : x.declaresEntity with
  | false => rfl
  | true =>
    obtain ⟨e, he⟩ := refuses_partial B P ep p m x hm hx hd
    rw [he] at h; cases h

/-- single-fault form used by the fault matrix: the walk up to the faulty member succeeds, so the error that
    surfaces is the explicit refusal of that member -/
theorem readList_single_fault (B : ParserBehaviour) (P : Prep) (ep : EP) (p : Pkg) (ms : List Member)
    (m : Member) (x : XmlMember) (err : Err)
    (hbad : ∀ m' ∈ ms, m'.path = m.path → readMember B P ep m' x = .error err)
    (hothers : ∀ m' ∈ ms, m'.path ≠ m.path →
        (p.lookup m'.path = none ∧ skipsMissing ep m' = true) ∨
        (p.lookup m'.path = some XmlMember.clean ∧ ∃ k, kind ep m' = some k))
    (hm : m ∈ ms) (hx : p.lookup m.path = some x) :
    readList B P ep p ms = .error err := by
  induction ms with
  | nil => cases hm
  | cons m0 rest ih =>
    have ihr : m ∈ rest → readList B P ep p rest = .error err :=
      fun hmr => ih (fun m' h' => hbad m' (List.mem_cons_of_mem _ h'))
                    (fun m' h' => hothers m' (List.mem_cons_of_mem _ h')) hmr
    by_cases hp0 : m0.path = m.path
    · have hb := hbad m0 (by simp) hp0
      simp only [readList, hp0, hx, hb]
    · have hmr : m ∈ rest := by
        rcases List.mem_cons.mp hm with h | h
        · exact absurd (by rw [h]) hp0
        · exact h
      rcases hothers m0 (by simp) hp0 with ⟨hl, hs⟩ | ⟨hl, k, hk⟩
      · simp only [readList, hl, hs, if_true]; exact ihr hmr
      · simp only [readList, hl, readMember_clean B P ep m0 k hk, ihr hmr]

/-- the side condition of the single-fault theorems: every OTHER member on the walk is clean, or absent where
    the code tolerates absence -/
def OthersClean (ep : EP) (p : Pkg) (m : Member) : Prop :=
  ∀ m' ∈ readOrder ep p, m'.path ≠ m.path →
    (p.lookup m'.path = none ∧ skipsMissing ep m' = true) ∨ p.lookup m'.path = some XmlMember.clean

theorem others_kind (ep : EP) (p : Pkg) (m : Member) (h : OthersClean ep p m) :
    ∀ m' ∈ readOrder ep p, m'.path ≠ m.path →
        (p.lookup m'.path = none ∧ skipsMissing ep m' = true) ∨
        (p.lookup m'.path = some XmlMember.clean ∧ ∃ k, kind ep m' = some k) := by
  intro m' hm' hne
  rcases h m' hm' hne with h | h
  · exact Or.inl h
  · obtain ⟨api, hk⟩ := readOrder_defused ep p m' hm'
    exact Or.inr ⟨h, _, hk⟩

/-- **C13 (explicit refusal; partial: parser behaviour assumed)**: the package's only faulty member declares
    an entity and is read by the entry point ⟹ the call fails with `EntitiesForbidden`, for every entry point,
    every object path, whatever the parser does otherwise. -/
theorem refuses_explicit_partial (B : ParserBehaviour) (P : Prep) (ep : EP) (p : Pkg) (m : Member) (x : XmlMember)
    (hm : m ∈ readOrder ep p) (hx : p.lookup m.path = some x) (hd : x.declaresEntity = true)
    (hothers : OthersClean ep p m) :
    read B P ep p = .error .entitiesForbidden := by
  unfold Entity.read
  apply readList_single_fault B P ep p (readOrder ep p) m x .entitiesForbidden
  · intro m' hm' _
    obtain ⟨api, hk⟩ := readOrder_defused ep p m' hm'
    exact readMember_declares B P ep m' x api hk hd
  · exact others_kind ep p m hothers
  · exact hm
  · exact hx

/-- on the walk of an entry point that is not the MoinMoin converter every member meets the SAX reader -/
theorem readOrder_sax (ep : EP) (hs : ep.shape ≠ .moin) (p : Pkg) (m : Member) (h : m ∈ readOrder ep p) :
    kind ep m = some (.defused .sax) := by
  unfold readOrder at h
  cases hsh : ep.shape <;> rw [hsh] at h <;> simp only at h
  · rcases List.mem_cons.mp h with h | h
    · subst h; exact (manifest_kind ep hs).2
    · rcases List.mem_append.mp h with h | h
      · obtain ⟨_, hp⟩ := mem_loadParts p [] m h
        obtain ⟨obj, pt⟩ := m
        exact (loadlike_parametric ep hsh obj pt hp).2
      · obtain ⟨e, _, he⟩ := List.mem_flatMap.mp h
        obtain ⟨_, hp⟩ := mem_loadParts p e m he
        obtain ⟨obj, pt⟩ := m
        exact (loadlike_parametric ep hsh obj pt hp).2
  · simp only [List.mem_cons, List.not_mem_nil, or_false] at h
    subst h; exact (manifest_kind ep hs).2
  · exact absurd hsh hs

/-- every member on any walk is either handed to the SAX reader or to a defusedxml parser whose result the code
    checks for an external subset -/
theorem readOrder_sax_or_guarded (ep : EP) (p : Pkg) (m : Member) (h : m ∈ readOrder ep p) :
    kind ep m = some (.defused .sax) ∨ ((∃ api, kind ep m = some (.defused api)) ∧ guarded ep m = true) := by
  by_cases hs : ep.shape = .moin
  · right
    unfold readOrder at h
    rw [hs] at h
    simp only [List.mem_cons, List.not_mem_nil, or_false] at h
    rcases h with h | h <;> subst h
    · exact ⟨⟨_, (moin_kind ep hs .styles (Or.inl rfl)).2⟩, moin_guarded ep hs .styles (Or.inl rfl)⟩
    · exact ⟨⟨_, (moin_kind ep hs .content (Or.inr rfl)).2⟩, moin_guarded ep hs .content (Or.inr rfl)⟩
  · exact Or.inl (readOrder_sax ep hs p m h)

/-- **C13 (external DTD subset; partial: parser behaviour assumed)**: for EVERY entry point — the MoinMoin
    converter included, through the doctype test of `_parse` — a member whose DOCTYPE names an external subset is
    refused with `ExternalReferenceForbidden`. -/
theorem refuses_external_subset_partial (B : ParserBehaviour) (P : Prep) (ep : EP) (p : Pkg)
    (m : Member) (x : XmlMember)
    (hm : m ∈ readOrder ep p) (hx : p.lookup m.path = some x)
    (hd : x.declaresEntity = false) (he : x.externalSubset = true)
    (hothers : OthersClean ep p m) :
    read B P ep p = .error .externalReferenceForbidden := by
  unfold Entity.read
  apply readList_single_fault B P ep p (readOrder ep p) m x .externalReferenceForbidden
  · intro m' hm' _
    exact readMember_external B P ep m' x (readOrder_sax_or_guarded ep p m' hm') hd he
  · exact others_kind ep p m hothers
  · exact hm
  · exact hx

/-! ### full statement -/

/-- the property at full strength in model terms, for a given parser behaviour: ANY doctype-borne fault
    (entity declaration or external subset) in a member the entry point reads makes the call fail with one of
    the two explicit refusals -/
def C13_full (B : ParserBehaviour) (P : Prep) : Prop :=
  ∀ (ep : EP) (p : Pkg) (m : Member) (x : XmlMember), m ∈ readOrder ep p → p.lookup m.path = some x →
    (x.declaresEntity = true ∨ x.externalSubset = true) → OthersClean ep p m →
    read B P ep p = .error .entitiesForbidden ∨ read B P ep p = .error .externalReferenceForbidden

/-- **C13 (full statement; partial only in that the behaviour of defusedxml / expat is the hypothesis `B`)** -/
theorem C13_full_partial (B : ParserBehaviour) (P : Prep) : C13_full B P := by
  intro ep p m x hm hx hf ho
  cases hd : x.declaresEntity with
  | true => exact Or.inl (refuses_explicit_partial B P ep p m x hm hx hd ho)
  | false =>
    rcases hf with hf | hf
    · rw [hd] at hf; cases hf
    · exact Or.inr (refuses_external_subset_partial B P ep p m x hm hx hd hf ho)

/-- a package whose content.xml names an external DTD subset and declares nothing itself -/
def extSubsetPkg : Pkg :=
  { files := [(Part.styles.file, XmlMember.clean), (Part.content.file, ⟨false, true⟩)], manifest := [] }

/-- the former finding KF-C13-1/2 (repaired in d51c2e9), on the model with the observed parser behaviour: the DOM
    parse of content.xml succeeds and the doctype test of `_parse` refuses it -/
theorem moin_external_subset_refused : read observed Prep.id .moinInit extSubsetPkg = .error .externalReferenceForbidden := by
  rfl

/-! ### the hypotheses are satisfiable / the model is not vacuous -/

example : parses .load ⟨lit "Object 1/", .content⟩ := (load_parametric _ _ (by decide)).1
example : ¬ parses .moinInit ⟨[79, 98, 106, 101, 99, 116, 32, 49, 47], .content⟩ := by decide
example : ¬ parses .manifestlist ⟨[], .content⟩ := by decide

/-- `Object 1/content.xml` declares an entity: load refuses, for the observed behaviour and any other -/
example (B : ParserBehaviour) (P : Prep) :
    read B P EP.load ({ files := [(Part.manifest.file, XmlMember.clean),
                             ([79, 98, 106, 101, 99, 116, 32, 49, 47] ++ Part.content.file, ⟨true, false⟩)],
                        manifest := [[79, 98, 106, 101, 99, 116, 32, 49, 47],
                                     [79, 98, 106, 101, 99, 116, 32, 49, 47] ++ Part.content.file] } : Pkg)
      = .error .entitiesForbidden := by
  apply refuses_explicit_partial B P .load _ ⟨[79, 98, 106, 101, 99, 116, 32, 49, 47], .content⟩ ⟨true, false⟩
  · decide
  · decide
  · rfl
  · unfold OthersClean; decide

/-- `Object 1/Object 2/styles.xml` (nested) names an external subset: every load-like entry point refuses -/
example (B : ParserBehaviour) (P : Prep) :
    read B P EP.xhtmlOdf2xhtml
      ({ files := [(Part.manifest.file, XmlMember.clean), (objName [49] ++ objName [50] ++ Part.styles.file, ⟨false, true⟩)],
         manifest := [objName [49], objName [49] ++ objName [50], objName [49] ++ objName [50] ++ Part.styles.file] } : Pkg)
      = .error .externalReferenceForbidden := by
  apply refuses_external_subset_partial B P .xhtmlOdf2xhtml _ ⟨objName [49] ++ objName [50], .styles⟩ ⟨false, true⟩
  · decide
  · decide
  · rfl
  · rfl
  · unfold OthersClean; decide

/-- had a plain parser been used, the observed behaviour would return expanded content -/
example : observed.parse .plain ⟨true, false⟩ = .ok ⟨true⟩ := rfl

end OdfModel.Props.C13

/-
  OdfModel.Props.C17Merge — the nodes inserted by one `addTextToElement` call are already in the
  form a save/load cycle leaves them in: no two text nodes are adjacent, so merging adjacent
  text nodes (`mergeText`, all the SAX builder does to them) returns the very same list.
  With `roundtrip` this gives: the loaded children are *equal* to the inserted ones, not only
  equal under `extractText`; and the encoding is injective.
-/
import OdfModel.Teletype
import OdfModel.Props.C17
namespace OdfModel.Props.C17Merge
open OdfModel OdfModel.Teletype OdfModel.Props.C17

/-- the separators `enc` puts between text nodes -/
def IsSep : TNode → Bool
  | .sp _ => true
  | .tab => true
  | .lb => true
  | _ => false

theorem mergeText_sep_cons (x : TNode) (r : List TNode) (hx : IsSep x = true) :
    mergeText (x :: r) = x :: mergeText r := by
  cases x <;> simp [IsSep] at hx <;> simp [mergeText]

theorem mergeText_text_sep (a : Str) (x : TNode) (r : List TNode) (hx : IsSep x = true) :
    mergeText (.text a :: x :: r) = .text a :: x :: mergeText r := by
  cases x <;> simp [IsSep] at hx <;> simp [mergeText]

theorem mergeText_single_text (a : Str) : mergeText [.text a] = [.text a] := by
  simp [mergeText]

theorem mergeText_flush (buf : Str) : mergeText (flush buf) = flush buf := by
  unfold flush
  split
  · simp [mergeText]
  · exact mergeText_single_text buf

/-- a flushed buffer, a separator, then a list that merging leaves alone -/
theorem mergeText_flush_sep (buf : Str) (x : TNode) (r : List TNode) (hx : IsSep x = true)
    (hr : mergeText r = r) : mergeText (flush buf ++ [x] ++ r) = flush buf ++ [x] ++ r := by
  unfold flush
  split
  · simp [mergeText_sep_cons x r hx, hr]
  · simp [mergeText_text_sep buf x r hx, hr]

/-- **C17 (structure survives save/load)**: the list `addTextToElement` appends has no two
    adjacent text nodes, for every string and every state of the text buffer. -/
theorem mergeText_enc (buf s : Str) : mergeText (enc buf s) = enc buf s := by
  fun_induction enc buf s with
  | case1 buf => exact mergeText_flush buf
  | case2 buf r ih => exact mergeText_flush_sep buf _ _ (by simp [IsSep]) ih
  | case3 buf r _ ih => exact mergeText_flush_sep buf _ _ (by simp [IsSep]) ih
  | case4 buf r _ _ n hn ih => exact mergeText_flush_sep _ _ _ (by simp [IsSep]) ih
  | case5 buf r _ _ n hn ih => exact ih
  | case6 buf c r h1 h2 h3 ih => exact ih

/-- one call: what is loaded back is node for node what was inserted -/
theorem saveload_identity (s : Str) : mergeText (enc [] s) = enc [] s := mergeText_enc [] s

/-- the encoding loses nothing: two strings with the same inserted nodes are the same string -/
theorem enc_injective (s t : Str) (h : enc [] s = enc [] t) : s = t := by
  have := congrArg extractL h
  simpa [roundtrip] using this

/-- and that stays true after the save/load merge -/
theorem enc_injective_after_merge (s t : Str)
    (h : mergeText (enc [] s) = mergeText (enc [] t)) : s = t := by
  rw [saveload_identity, saveload_identity] at h
  exact enc_injective s t h

/-- non-vacuity: a string that exercises every branch of `enc` (text, blank run, tab, line break) -/
example : enc [] [97, 32, 32, 32, 98, 9, 10, 32, 99]
    = [.text [97, 32], .sp 2, .text [98], .tab, .lb, .text [32, 99]] := by
  simp [enc, flush, SP, TAB, LF]


theorem mergeText_head (r : List TNode) (h : ∀ b r', r ≠ .text b :: r') :
    ∀ b r', mergeText r ≠ .text b :: r' := by
  intro b r'
  cases r with
  | nil => simp [mergeText]
  | cons y t =>
    cases y with
    | text s => exact absurd rfl (h s t)
    | elem ks => simp [mergeText]
    | _ => simp [mergeText]

/-- **C17 (a second save/load changes nothing more)**: merging is idempotent on EVERY child list, not only on
    inserted ones - so `roundtrip_after_merge` holds after any number of save/load cycles (`roundtrip_after_merges`). -/
theorem mergeText_idem (l : List TNode) : mergeText (mergeText l) = mergeText l := by
  fun_induction mergeText l with
  | case1 a b r ih => exact ih
  | case2 ks r ih => simp [mergeText, ih]
  | case3 x r h1 h2 ih =>
    cases x with
    | text a =>
      have hr : ∀ b r', r ≠ .text b :: r' := by
        intro b r' e; exact h1 a b r' rfl e
      have := mergeText_head r hr
      cases hm : mergeText r with
      | nil => simp [mergeText]
      | cons y t =>
        rw [hm] at ih this
        cases y with
        | text s => exact absurd rfl (this s t)
        | _ => simp_all [mergeText]
    | elem ks => exact absurd rfl (h2 ks)
    | _ => simp [mergeText, ih]
  | case4 => simp [mergeText]

/-- `n` save/load cycles, as far as `extractText` can tell -/
def cycles : Nat → List TNode → List TNode
  | 0, l => l
  | n + 1, l => mergeText (cycles n l)

theorem cycles_succ (n : Nat) (l : List TNode) : cycles (n + 1) l = mergeText l := by
  induction n with
  | zero => rfl
  | succ k ih => rw [cycles, ih, mergeText_idem]

/-- any number of save/load cycles -/
theorem roundtrip_after_merges (kids : List TNode) (s : Str) (n : Nat) :
    extractL (cycles (n + 1) (kids ++ enc [] s)) = extractL kids ++ s := by
  rw [cycles_succ]; exact roundtrip_after_merge kids s

end OdfModel.Props.C17Merge

/-
  Property C02 — parsing emitted XML gives back exactly the in-memory tree.

  Model: `OdfModel.Xml` (Escape, Tree) = odf/element.py's encoders and `toXml`; reference parser `OdfModel.Spec.parseDoc`.
  Tie: harness/c02.py (byte-exact correspondence of `toXml` with `printNode ∘ rawRoot`, all code points through the
  three encoders, reference parser vs expat).
-/
import OdfModel.Xml.Compose
namespace OdfModel.Props.C02
open OdfModel OdfModel.Xml OdfModel.Spec

/-- what the property permits: exactly the characters XML 1.0 cannot represent become U+FFFD -/
def repl (c : Cp) : Cp := if isXmlChar c then c else 0xFFFD

/-- the property's canonical form: as `canonT`, with `repl` in place of the library's filter `hu` -/
def replAttrs : List (QName × Str) → List (QName × Str)
  | [] => []
  | (q, v) :: r => (q, v.map repl) :: replAttrs r

def canonRF (acc : Str) : Forest → Forest
  | .nil => flushT acc .nil
  | .cons (.text s) t => canonRF (acc ++ s.map repl) t
  | .cons (.cdata s) t => canonRF (acc ++ s.map repl) t
  | .cons (.elem q attrs kids) t => flushT acc (.cons (.elem q (replAttrs attrs) (canonRF [] kids)) (canonRF [] t))

def canonR : Node → Node
  | .elem q attrs kids => .elem q (replAttrs attrs) (canonRF [] kids)
  | n => n

/-- **C02, FULL STATEMENT** (what the property demands of every rendering): the reference parser returns the tree
    itself — elements by (namespace, local name) in order, attributes with character-identical values, character
    data in place — up to CDATA-vs-text, merging of adjacent character data, and U+FFFD for XML-unrepresentable
    characters only.  On the current tree this is FALSE for trees containing "discouraged" code points
    (known finding KF-C02-1, theorem `finding_discouraged`); it is proved below as `print_parse_partial` for all
    other trees and as `print_parse` with the library's own filter. -/
def FullStatement : Prop :=
  ∀ (tbl : NsTable) (q : QName) (attrs : List (QName × Str)) (kids : Forest),
    TableOK tbl → NsClean tbl → TreeOK tbl (.elem q attrs kids) →
    parseDoc (render tbl (.elem q attrs kids)) = some (canonR (.elem q attrs kids))

/-- **C02 (print/parse)**: for every admissible namespace table and every tree, parsing what `toXml` writes returns
    the tree with every string filtered by the library's `_handle_unrepresentable`. -/
theorem print_parse (tbl : NsTable) (q : QName) (attrs : List (QName × Str)) (kids : Forest)
    (ht : TableOK tbl) (hcl : NsClean tbl) (hu : TreeOK tbl (.elem q attrs kids)) :
    parseDoc (render tbl (.elem q attrs kids)) = some (canonT (.elem q attrs kids)) :=
  parseDoc_render tbl q attrs kids ht hcl hu

/-! #### the filter vs. the property's replacement -/

mutual
/-- no string of the tree contains a discouraged code point (U+007F–84, U+0086–9F, plane-final non-characters) -/
def NoDisc : Node → Prop
  | .text s => ∀ c ∈ s, discouraged c = false
  | .cdata s => ∀ c ∈ s, discouraged c = false
  | .elem _ attrs kids => (∀ a ∈ attrs, ∀ c ∈ a.2, discouraged c = false) ∧ NoDiscF kids
def NoDiscF : Forest → Prop
  | .nil => True
  | .cons h t => NoDisc h ∧ NoDiscF t
end

theorem hu_eq_repl (c : Cp) (hc : c < 0x110000) (hd : discouraged c = false) : hu c = repl c := by
  unfold hu repl
  cases hf : filtered c with
  | true =>
    rcases filtered_cases c hf with h | h
    · simp [h]
    · rw [hd] at h; cases h
  | false => simp [unfiltered_isXmlChar c hc hf]

theorem map_hu_eq_repl (s : Str) (hs : StrOK s) (hd : ∀ c ∈ s, discouraged c = false) : s.map hu = s.map repl := by
  apply List.map_congr_left
  intro c hc
  exact hu_eq_repl c (hs c hc) (hd c hc)

theorem huAttrsQ_eq_replAttrs {tbl : NsTable} (as : List (QName × Str))
    (h : ∀ a ∈ as, QNameOK a.1 ∧ Covered tbl a.1 ∧ StrOK a.2) (hd : ∀ a ∈ as, ∀ c ∈ a.2, discouraged c = false) :
    huAttrsQ as = replAttrs as := by
  induction as with
  | nil => rfl
  | cons a r ih =>
    obtain ⟨q, v⟩ := a
    simp only [huAttrsQ, replAttrs]
    rw [map_hu_eq_repl v (h (q, v) (by simp)).2.2 (hd (q, v) (by simp)),
      ih (fun a' ha' => h a' (by simp [ha'])) (fun a' ha' => hd a' (by simp [ha']))]

theorem canonTF_eq_canonRF {tbl : NsTable} (acc : Str) (f : Forest) (hf : ForestOK tbl f) (hd : NoDiscF f) :
    canonTF acc f = canonRF acc f := by
  fun_induction canonTF acc f with
  | case1 acc => simp [canonRF]
  | case2 acc s t ih =>
    simp only [canonRF]
    rw [← map_hu_eq_repl s hf.1 hd.1]; exact ih hf.2 hd.2
  | case3 acc s t ih =>
    simp only [canonRF]
    rw [← map_hu_eq_repl s hf.1 hd.1]; exact ih hf.2 hd.2
  | case4 acc q attrs kids t ih1 ih2 =>
    obtain ⟨⟨_, _, hat, hk⟩, ht⟩ := hf
    obtain ⟨⟨hda, hdk⟩, hdt⟩ := hd
    simp only [canonRF]
    rw [huAttrsQ_eq_replAttrs attrs hat.2 hda, ih1 hk hdk, ih2 ht hdt]

/-- **C02 (partial: trees without discouraged code points)**: the full statement, for every tree none of whose
    strings contains a discouraged code point.  The excluded class is exactly known finding KF-C02-1. -/
theorem print_parse_partial (tbl : NsTable) (q : QName) (attrs : List (QName × Str)) (kids : Forest)
    (ht : TableOK tbl) (hcl : NsClean tbl) (hu : TreeOK tbl (.elem q attrs kids))
    (hd : NoDisc (.elem q attrs kids)) :
    parseDoc (render tbl (.elem q attrs kids)) = some (canonR (.elem q attrs kids)) := by
  rw [print_parse tbl q attrs kids ht hcl hu]
  obtain ⟨_, _, hat, hk⟩ := hu
  obtain ⟨hda, hdk⟩ := hd
  simp only [canonT, canonR]
  rw [huAttrsQ_eq_replAttrs attrs hat.2 hda, canonTF_eq_canonRF [] kids hk hdk]

/-- **known finding KF-C02-1, proved**: U+007F is an XML 1.0 `Char`, yet the library replaces it by U+FFFD
    (pinned by tests.testunicode.test_illegaltext, which expects U+2FFFE → U+FFFD). -/
theorem finding_discouraged : isXmlChar 0x7F = true ∧ hu 0x7F = 0xFFFD ∧ repl 0x7F = 0x7F ∧
    isXmlChar 0x2FFFE = true ∧ hu 0x2FFFE = 0xFFFD := by decide

/-- the full statement fails on the current tree: a one-character text node with U+007F -/
theorem full_statement_false_witness :
    canonT (.elem ⟨[], [97]⟩ [] (.cons (.text [0x7F]) .nil)) ≠ canonR (.elem ⟨[], [97]⟩ [] (.cons (.text [0x7F]) .nil)) := by
  intro h
  simp only [canonT, canonR, canonTF, canonRF, flushT, huAttrsQ, replAttrs, List.nil_append, List.map_cons, List.map_nil,
    List.isEmpty_cons, Bool.false_eq_true, if_false, Node.elem.injEq, Forest.cons.injEq, Node.text.injEq,
    List.cons.injEq] at h
  have : hu 0x7F ≠ repl 0x7F := by decide
  exact this h.2.2.1.1

/-! #### adjacent surrogate code points -/

/-- every surrogate code point is filtered, and the property agrees: one U+FFFD for it -/
theorem surrogate_hu (c : Nat) (hlo : 0xD800 ≤ c) (hhi : c ≤ 0xDFFF) : hu c = 0xFFFD ∧ repl c = 0xFFFD := by
  have hf : filtered c = true := by
    simp [filtered, inRanges, OdfModel.Generated.filteredRanges]
    grind
  have hx : isXmlChar c = false := by
    simp [isXmlChar]
    grind
  simp [hu, repl, hf, hx]

/-- **C02 (a high surrogate immediately followed by a low one)**: the filter works code point by code point, so a string
    in which a high surrogate (U+D800..DBFF) is directly followed by a low surrogate (U+DC00..DFFF) - two code points
    of the tree, neither representable in XML 1.0 - is written as TWO U+FFFD, whatever stands before and after; the
    pair is never read as the one supplementary character it would encode in UTF-16 (the length is preserved). -/
theorem surrogate_pair_two_replacements (pre post : Str) (h l : Nat)
    (hh : 0xD800 ≤ h ∧ h ≤ 0xDBFF) (hl : 0xDC00 ≤ l ∧ l ≤ 0xDFFF) :
    handleUnrep (pre ++ h :: l :: post) = handleUnrep pre ++ 0xFFFD :: 0xFFFD :: handleUnrep post ∧
    (pre ++ h :: l :: post).map repl = pre.map repl ++ 0xFFFD :: 0xFFFD :: post.map repl ∧
    (handleUnrep (pre ++ h :: l :: post)).length = (pre ++ h :: l :: post).length := by
  have a := surrogate_hu h hh.1 (by omega)
  have b := surrogate_hu l (by omega) hl.2
  simp [handleUnrep, a.1, a.2, b.1, b.2]

/-! #### attribute order and the assembled parts -/

/-- attribute order is free: the parser's attribute list is the tree's, entry by entry (so any permutation of the
    `dict` order permutes the result the same way) -/
theorem attrs_pointwise (as : List (QName × Str)) :
    (huAttrsQ as).map (·.1) = as.map (·.1) ∧ (huAttrsQ as).map (·.2) = as.map (fun a => a.2.map hu) := by
  induction as with
  | nil => exact ⟨rfl, rfl⟩
  | cons a r ih => obtain ⟨q, v⟩ := a; simp [huAttrsQ, ih.1, ih.2]

/-- the package parts (`contentxml`, `stylesxml`, `metaxml`, `settingsxml`) are assembled with
    `write_open_tag(0)` … children … `write_close_tag`; with at least one child written this is exactly what
    `toXml(0)` writes for the wrapper element, so `print_parse` covers them -/
theorem part_assembly (tag : Str) (attrs : List (Str × Str)) (h : RNode) (t : RForest) :
    printOpenClose tag attrs (.cons h t) = printNode (.elem tag attrs (.cons h t)) := by
  simp [printOpenClose, printNode]

/-- **C02 for the four package parts**: a part assembled from a wrapper element and at least one child parses back to
    the canonical form of the wrapper with exactly those children (content.xml always has automatic-styles and body,
    styles.xml has styles and automatic-styles, meta.xml and settings.xml have their single section). -/
theorem parts_print_parse (tbl : NsTable) (q : QName) (attrs : List (QName × Str)) (h : Node) (t : Forest)
    (ht : TableOK tbl) (hcl : NsClean tbl) (hu : TreeOK tbl (.elem q attrs (.cons h t))) :
    parseDoc (renderPart tbl q attrs (.cons h t)) = some (canonT (.elem q attrs (.cons h t))) := by
  have : renderPart tbl q attrs (.cons h t) = render tbl (.elem q attrs (.cons h t)) := by
    simp [renderPart, render, rawRoot, rawOfF, printOpenClose, printNode]
  rw [this]
  exact print_parse tbl q attrs (.cons h t) ht hcl hu

/-- non-vacuity: the hypotheses of `print_parse` are satisfiable — table `u ↦ p`, root `p:a` with an unqualified
    attribute holding every special character, a text node and a CDATA node containing `]]>` and CR -/
example : TableOK [([117], [112])] ∧ NsClean [([117], [112])] ∧
    TreeOK [([117], [112])] (.elem ⟨[117], [97]⟩ [(⟨[], [98]⟩, [34, 39, 38, 60, 62, 9, 10, 13, 1])]
        (.cons (.text [38, 13]) (.cons (.cdata [93, 93, 62, 13]) .nil))) := by
  refine ⟨⟨by simp, ?_⟩, ?_, ?_⟩
  · intro e he; simp at he; subst he
    refine ⟨by decide, by decide, by decide, ?_⟩
    intro c hc; simp at hc; subst hc; decide
  · intro e he; simp at he; subst he; decide
  · refine ⟨⟨by decide, by intro h; cases h⟩, Or.inr ⟨[112], by simp [lookupNs]⟩, ⟨by decide, ?_⟩, ?_⟩
    · intro a ha; simp at ha; subst ha
      refine ⟨⟨by decide, by intro _; decide⟩, Or.inl rfl, ?_⟩
      intro c hc; simp at hc; rcases hc with rfl | rfl | rfl | rfl | rfl | rfl | rfl | rfl | rfl <;> decide
    · refine ⟨?_, ?_, trivial⟩
      · intro c hc; simp at hc; rcases hc with rfl | rfl <;> decide
      · intro c hc; simp at hc; rcases hc with rfl | rfl | rfl <;> decide

end OdfModel.Props.C02

/-
  C10 for content nested to ANY depth.

  The theorems of Props/C10 quantify over all trees, so they say nothing special about depth: the model's scan
  (`parseNode` / `parseKids`, structural recursion) reaches a reference wherever it sits.  The real scan is a pair of
  recursive Python methods and lives under the interpreter's recursion limit; "the scan reaches the far end or the save
  does not happen" is what harness/c10.py checks on documents nested 400..1500 levels deep (oracle_deep) and what the
  correspondence compares with this model on the dumped trees.

  Stated here explicitly, as the depth-indexed instance the harness drives: a reference that sits below `n` levels of
  arbitrary elements (each level with attributes and siblings of its own) is collected (`refs_nest`), for every `n`; hence
  the automatic style it names is written to content.xml / styles.xml (`deep_kept_content`, `deep_kept_styles`), also when
  the far end names it only through another automatic style (`deep_chain_kept_content`).
-/
import OdfModel.Props.C10
namespace OdfModel.Props.C10Deep
open OdfModel OdfModel.Styles OdfModel.Generated.StyleRefs OdfModel.Props.C10

/-- one level of nesting: element name, attributes, the siblings before and after the nested child -/
structure Level where
  name : Nat
  attrs : Attrs
  before : List Node
  after : List Node

/-- `k` below the levels `ls` (outermost first) -/
def nest : List Level → Node → Node
  | [], k => k
  | l :: r, k => .elem l.name l.attrs (l.before ++ [nest r k] ++ l.after)

/-- the nesting depth `nest` adds -/
theorem nest_depth_example : (nest (List.replicate 3 ⟨7, [], [], []⟩) (.text [])) =
    .elem 7 [] [.elem 7 [] [.elem 7 [] [.text []]]] := by
  simp [nest, List.replicate]

/-- what an element refers to, every enclosing element refers to - at every depth -/
theorem refs_nest (C : Cfg) (ls : List Level) (k : Node) (v : Str) (h : v ∈ refsNode C k) :
    v ∈ refsNode C (nest ls k) := by
  induction ls with
  | nil => exact h
  | cons l r ih =>
    simp only [nest, refsNode, List.mem_append]
    exact Or.inr (mem_refsKids (k := nest r k) (by simp) ih)

/-- the scan of the code reaches the far end of any nesting -/
theorem scan_reaches_nest (C : Cfg) (ls : List Level) (k : Node) (acc : List Str) (v : Str)
    (h : v ∈ refsNode C k) : v ∈ parseNode C (nest ls k) acc :=
  (mem_parseNode C _ acc v).mpr (Or.inr (refs_nest C ls k v h))

/-- **C10 (any depth, content.xml)**: an automatic style named (through any style-reference attribute of the schema)
    by an element that sits below any number of levels of nesting in the body is written to content.xml -/
theorem deep_kept_content (d : StyleDoc) (hw : WellNamed codeCfg.sp d.auto) (ls : List Level) (k e : Node) (v : Str)
    (hk : nest ls k ∈ kidsOf d.body) (hv : v ∈ refsNode (specCfg schemaSingle schemaListTyped) k)
    (he : e ∈ kidsOf d.auto) (hn : styleNameOf e = some v) :
    e ∈ contentKept codeCfg d :=
  closure_kept_content d hw e v he hn (Reach.root (by simp) hk (refs_nest _ ls k v hv))

/-- **C10 (any depth, styles.xml)**: the same below a master page (header, footer, shapes) -/
theorem deep_kept_styles (d : StyleDoc) (hw : WellNamed codeCfg.sp d.auto) (ls : List Level) (k e : Node) (v : Str)
    (hk : nest ls k ∈ kidsOf d.master) (hv : v ∈ refsNode (specCfg schemaSingle schemaListTyped) k)
    (he : e ∈ kidsOf d.auto) (hn : styleNameOf e = some v) :
    e ∈ stylesKept codeCfg d :=
  closure_kept_styles d hw e v he hn (Reach.root (by simp) hk (refs_nest _ ls k v hv))

/-- **C10 (any depth, through another automatic style)**: the far end names `s`, the automatic style `nest ms j` called `s`
    names `v` (`j` at any depth inside it): the automatic style called `v` is written to content.xml too -/
theorem deep_chain_kept_content (d : StyleDoc) (hw : WellNamed codeCfg.sp d.auto) (ls ms : List Level) (k j e : Node) (s v : Str)
    (hk : nest ls k ∈ kidsOf d.body) (hs : s ∈ refsNode (specCfg schemaSingle schemaListTyped) k)
    (hm : nest ms j ∈ kidsOf d.auto) (hms : styleNameOf (nest ms j) = some s)
    (hv : v ∈ refsNode (specCfg schemaSingle schemaListTyped) j)
    (he : e ∈ kidsOf d.auto) (hn : styleNameOf e = some v) :
    e ∈ contentKept codeCfg d :=
  closure_kept_content d hw e v he hn
    (Reach.step (Reach.root (by simp) hk (refs_nest _ ls k s hs)) hm hms (refs_nest _ ms j v hv))

end OdfModel.Props.C10Deep

/-
  Property C07 — a refused or failed operation leaves the document untouched.

  The operations of `OdfModel.Dom` are statement sequences in the monad
  `M α = Heap → Heap × Except Err α`, which hands back the heap AS MUTATED SO FAR together with
  the exception.  So `(op.run h) = (h', .error e) → h' = h` is a statement about the order of
  checks and assignments in the Python source; it fails for a model in which an assignment
  precedes a `raise` (see `atomicity_needs_the_order` at the end).

  First the *closed forms*: what each mutator returns, for every heap (no invariant assumed);
  then the atomicity theorems read them off.
-/
import OdfModel.Dom
namespace OdfModel.Props.C07
open OdfModel.Dom

@[simp] theorem run_bind_ite {α β} (c : Prop) [Decidable c] (x y : M α) (f : α → M β) (h : Heap) :
    ((if c then x else y) >>= f).run h = if c then (x >>= f).run h else (y >>= f).run h := by
  split <;> rfl

/-! ### removeChild -/

/-- the heap after a `removeChild` that does not raise: its six assignments composed -/
def rmHeap (h : Heap) (p c : Id) : Heap :=
  setParent (setPrev (setNext
    (setNextOpt (setPrevOpt (setKids h p ((h p).kids.erase c)) (h c).next (h c).prev) (h c).prev (h c).next)
    c none) c none) c none

/-- closed form of `removeChild` -/
theorem removeChild_run (h : Heap) (p c : Id) :
    (removeChild p c).run h =
      if (h p).kind = .elem ∧ c ∈ (h p).kids then (rmHeap h p c, .ok ()) else (h, .error .NotFound) := by
  unfold removeChild rmHeap
  simp
  by_cases h1 : (h p).kind = .elem <;> by_cases h2 : c ∈ (h p).kids <;> simp [h1, h2]

/-! ### appendChild -/

/-- `if c.parentNode is not None: c.parentNode.removeChild(c)` does not raise -/
def DetachOk (h : Heap) (c : Id) : Prop :=
  ∀ q, (h c).parent = some q → (h q).kind = .elem ∧ c ∈ (h q).kids

instance (h : Heap) (c : Id) : Decidable (DetachOk h c) := by
  unfold DetachOk
  cases hp : (h c).parent with
  | none => exact isTrue (by intro q hq; cases hq)
  | some q0 =>
    by_cases hk : (h q0).kind = .elem ∧ c ∈ (h q0).kids
    · exact isTrue (by intro q hq; cases hq; exact hk)
    · exact isFalse (by intro hh; exact hk (hh q0 rfl))

/-- the heap after that statement -/
def detach (h : Heap) (c : Id) : Heap :=
  match (h c).parent with
  | some q => rmHeap h q c
  | none => h

/-- the heap after `_append_child(p, c)` -/
def appRawHeap (h : Heap) (p c : Id) : Heap :=
  setParent (setKids
    (match (h p).kids.getLast? with
     | some last => setNext (setPrev h c (some last)) last (some c)
     | none => h) p ((h p).kids ++ [c])) c (some p)

theorem appendRaw_run (h : Heap) (p c : Id) : (appendRaw p c).run h = (appRawHeap h p c, .ok ()) := by
  unfold appendRaw appRawHeap
  simp
  split <;> simp [*]

theorem detachIfAttached_run (h : Heap) (c : Id) :
    (detachIfAttached c).run h = if DetachOk h c then (detach h c, .ok ()) else (h, .error .NotFound) := by
  unfold detachIfAttached DetachOk detach
  simp
  split
  · rename_i q hq
    rw [removeChild_run]
    by_cases hc : (h q).kind = .elem ∧ c ∈ (h q).kids
    · simp [hc, hq]
    · have : ¬ ∀ q', some q = some q' → (h q').kind = .elem ∧ c ∈ (h q').kids := by
        intro hh; exact hc (hh q rfl)
      simp [hc, hq]
  · rename_i hq
    simp [hq]

/-- closed form of `appendChild` -/
theorem appendChild_run (h : Heap) (p c : Id) :
    (appendChild p c).run h =
      if (h p).kind ≠ .elem then (h, .error .Hierarchy)
      else if DetachOk h c then (setNext (appRawHeap (detach h c) p c) c none, .ok ())
      else (h, .error .NotFound) := by
  unfold appendChild
  simp
  by_cases hk : (h p).kind = .elem
  · simp only [hk, if_true]
    rw [run_bind, detachIfAttached_run]
    by_cases hd : DetachOk h c
    · simp [hd, run_bind, appendRaw_run]
    · simp [hd]
  · simp [hk]

/-! ### pointwise description of `rmHeap` -/

@[simp] theorem rmHeap_kind (h : Heap) (p c x : Id) : (rmHeap h p c x).kind = (h x).kind := by
  simp [rmHeap]
@[simp] theorem rmHeap_attrs (h : Heap) (p c x : Id) : (rmHeap h p c x).attrs = (h x).attrs := by
  simp [rmHeap]
@[simp] theorem rmHeap_qn (h : Heap) (p c x : Id) : (rmHeap h p c x).qn = (h x).qn := by
  simp [rmHeap]
theorem rmHeap_kids (h : Heap) (p c x : Id) :
    (rmHeap h p c x).kids = if x = p then (h p).kids.erase c else (h x).kids := by
  simp [rmHeap]
theorem rmHeap_parent (h : Heap) (p c x : Id) :
    (rmHeap h p c x).parent = if x = c then none else (h x).parent := by
  simp [rmHeap]
theorem rmHeap_prev (h : Heap) (p c x : Id) :
    (rmHeap h p c x).prev = if x = c then none else if some x = (h c).next then (h c).prev else (h x).prev := by
  simp [rmHeap]
theorem rmHeap_next (h : Heap) (p c x : Id) :
    (rmHeap h p c x).next = if x = c then none else if some x = (h c).prev then (h c).next else (h x).next := by
  simp [rmHeap]

@[simp] theorem detach_kind (h : Heap) (c x : Id) : (detach h c x).kind = (h x).kind := by
  unfold detach; split <;> simp
theorem detach_parent_self (h : Heap) (c : Id) : (detach h c c).parent = none := by
  unfold detach; split
  · simp [rmHeap_parent]
  · assumption
theorem detach_of_detached (h : Heap) (c : Id) (hp : (h c).parent = none) : detach h c = h := by
  unfold detach; split
  · rename_i q hq; rw [hp] at hq; cases hq
  · rfl
theorem detach_idem (h : Heap) (c : Id) : detach (detach h c) c = detach h c :=
  detach_of_detached _ _ (detach_parent_self h c)
theorem detachOk_detach (h : Heap) (c : Id) : DetachOk (detach h c) c := by
  intro q hq; rw [detach_parent_self] at hq; cases hq
/-- a node other than the detached one stays where it is listed -/
theorem mem_kids_detach (h : Heap) (c p r : Id) (hr : r ∈ (h p).kids) (hne : r ≠ c) :
    r ∈ (detach h c p).kids := by
  unfold detach; split
  · rename_i q _
    rw [rmHeap_kids]
    by_cases hpq : p = q
    · subst hpq; simp only [if_true]; exact (List.mem_erase_of_ne hne).mpr hr
    · simp only [hpq, if_false]; exact hr
  · exact hr

/-! ### insertBefore -/

/-- `refChild is None or refChild in self.childNodes` -/
def RefOk (h : Heap) (p : Id) (ref : Option Id) : Prop := ∀ r, ref = some r → r ∈ (h p).kids

instance (h : Heap) (p : Id) (ref : Option Id) : Decidable (RefOk h p ref) := by
  unfold RefOk
  cases ref with
  | none => exact isTrue (by intro r hr; cases hr)
  | some r0 =>
    by_cases hk : r0 ∈ (h p).kids
    · exact isTrue (by intro r hr; cases hr; exact hk)
    · exact isFalse (by intro hh; exact hk (hh r0 rfl))

theorem checkRef_run (h : Heap) (p : Id) (ref : Option Id) :
    (checkRef p ref).run h = if RefOk h p ref then (h, .ok ()) else (h, .error .NotFound) := by
  unfold checkRef RefOk
  cases ref with
  | none => simp
  | some r => by_cases hr : r ∈ (h p).kids <;> simp [hr]

/-- the heap after the `if index: … else: …` statement -/
def linkPrevHeap (h : Heap) (p n : Id) (index : Nat) : Heap :=
  if index = 0 then setPrev h n none
  else match (h p).kids[index - 1]? with
    | some node => setPrev (setNext h node (some n)) n (some node)
    | none => h

theorem linkPrev_run (h : Heap) (p n : Id) (index : Nat) :
    (linkPrev p n index).run h =
      if index ≠ 0 ∧ (h p).kids[index - 1]? = none then (h, .error .Other)
      else (linkPrevHeap h p n index, .ok ()) := by
  unfold linkPrev linkPrevHeap
  by_cases hi : index = 0
  · simp [hi]
  · cases hk : (h p).kids[index - 1]? with
    | none => simp only [run_ite, run_bind_rd, hk]; simp [hi]
    | some node => simp only [run_ite, run_bind_rd, hk]; simp [hi]

/-- the heap after the `else:` branch of insertBefore -/
def insHeap (h : Heap) (p n r : Id) : Heap :=
  let index := (h p).kids.idxOf r
  let h1 := setPrev (setNext (setKids h p ((h p).kids.insertIdx index n)) n (some r)) r (some n)
  setParent (linkPrevHeap h1 p n index) n (some p)

theorem idxOf_pred_insertIdx (l : List Id) (r n : Id) (hr : r ∈ l) (_h0 : l.idxOf r ≠ 0) :
    (l.insertIdx (l.idxOf r) n)[l.idxOf r - 1]? ≠ none := by
  have hlt : l.idxOf r < l.length := List.idxOf_lt_length_of_mem hr
  have hlen : (l.insertIdx (l.idxOf r) n).length = l.length + 1 :=
    List.length_insertIdx_of_le_length (Nat.le_of_lt hlt) n
  intro hnone
  rw [List.getElem?_eq_none_iff] at hnone
  omega

theorem insertAtRef_run (h : Heap) (p n r : Id) :
    (insertAtRef p n r).run h =
      if r ∈ (h p).kids then (insHeap h p n r, .ok ()) else (h, .error .NotFound) := by
  unfold insertAtRef insHeap
  by_cases hr : r ∈ (h p).kids
  · have key : ¬ ((h p).kids.idxOf r ≠ 0 ∧
        ((h p).kids.insertIdx ((h p).kids.idxOf r) n)[(h p).kids.idxOf r - 1]? = none) :=
      fun hh => idxOf_pred_insertIdx _ r n hr hh.1 hh.2
    simp [hr]
    rw [run_bind, linkPrev_run]
    simp only [setPrev_kids, setNext_kids, setKids_kids, if_true]
    rw [if_neg key]
    simp
  · simp [hr]

/-- closed form of `insertBefore` -/
theorem insertBefore_run (h : Heap) (p n : Id) (ref : Option Id) :
    (insertBefore p n ref).run h =
      if (h p).kind ≠ .elem then (h, .error .Hierarchy)
      else if ¬ RefOk h p ref then (h, .error .NotFound)
      else if ref = some n then (h, .ok ())
      else if ¬ DetachOk h n then (h, .error .NotFound)
      else match ref with
        | none => (setNext (appRawHeap (detach h n) p n) n none, .ok ())
        | some r => (insHeap (detach h n) p n r, .ok ()) := by
  unfold insertBefore
  simp
  by_cases hk : (h p).kind = .elem
  · simp only [hk, if_true]
    rw [run_bind, checkRef_run]
    by_cases hro : RefOk h p ref
    · simp only [hro, if_true, not_true, if_false]
      by_cases hn : ref = some n
      · simp [hn]
      · simp only [hn, if_false]
        rw [run_bind, detachIfAttached_run]
        by_cases hd : DetachOk h n
        · simp only [hd, if_true, not_true, if_false]
          cases ref with
          | none =>
            simp [appendChild_run, hk, detachOk_detach, detach_idem]
          | some r =>
            have hr : r ∈ (h p).kids := hro r rfl
            have hne : r ≠ n := fun e => hn (by rw [e])
            simp [insertAtRef_run, mem_kids_detach h n p r hr hne]
        · simp [hd]
    · simp [hro]
  · simp [hk]

/-! ### atomicity of the three mutators (every heap, no invariant needed) -/

/-- **C07 (removeChild)**: a `removeChild` that raises has changed nothing. -/
theorem removeChild_atomic {h h' : Heap} {p c : Id} {e : Err}
    (hr : (removeChild p c).run h = (h', .error e)) : h' = h := by
  rw [removeChild_run] at hr
  split at hr <;> cases hr; rfl

/-- **C07 (appendChild)**: an `appendChild` that raises (childless receiver; the nested
    `removeChild`) has changed nothing. -/
theorem appendChild_atomic {h h' : Heap} {p c : Id} {e : Err}
    (hr : (appendChild p c).run h = (h', .error e)) : h' = h := by
  rw [appendChild_run] at hr
  repeat' split at hr
  all_goals cases hr
  all_goals rfl

/-- **C07 (insertBefore)**: an `insertBefore` that raises — in particular because the reference
    node is not a child — has changed nothing: the new child is still where it was.  This rests on
    the reference check preceding the detachment of the new child, and on the facts that after
    that detachment neither the second `index` lookup nor the nested `appendChild` can raise. -/
theorem insertBefore_atomic {h h' : Heap} {p n : Id} {ref : Option Id} {e : Err}
    (hr : (insertBefore p n ref).run h = (h', .error e)) : h' = h := by
  rw [insertBefore_run] at hr
  repeat' split at hr
  all_goals cases hr
  all_goals rfl

/-- which exception, and when (used by C08 as well) -/
theorem removeChild_error_iff (h : Heap) (p c : Id) :
    ((removeChild p c).run h).2 = .error .NotFound ↔ ¬ ((h p).kind = .elem ∧ c ∈ (h p).kids) := by
  rw [removeChild_run]; split <;> simp [*]

/-! ### addElement / addText / addCDATA -/

/-- **C07 (addElement)**: refused by the grammar (IllegalChild) or by the DOM: nothing changed. -/
theorem addElement_atomic {h h' : Heap} {p c : Id} {allowed : Bool} {e : Err}
    (hr : (addElement p c allowed).run h = (h', .error e)) : h' = h := by
  unfold addElement at hr
  cases allowed with
  | false => simp at hr; exact hr.1.symm
  | true => simp at hr; exact appendChild_atomic hr

theorem initNode_run (h : Heap) (i : Id) (k : Kind) (qn : Nat) :
    (initNode i k qn).run h = (h.set i { kind := k, qn := qn }, .ok ()) := rfl

/-- after `Text(data)` the append that follows cannot raise: the receiver is an element and the
    new node is detached -/
theorem appendChild_fresh_ok (h : Heap) (p t : Id) (k : Kind) (hk : (h p).kind = .elem) (hne : t ≠ p) :
    ∃ h', (appendChild p t).run (h.set t { kind := k, qn := 0 }) = (h', .ok ()) := by
  rw [appendChild_run]
  have h1 : ((h.set t { kind := k, qn := 0 }) p).kind = .elem := by
    rw [Heap.set_other _ _ _ _ (Ne.symm hne)]; exact hk
  have h2 : DetachOk (h.set t { kind := k, qn := 0 }) t := by
    intro q hq; simp at hq
  simp [h1, h2]

/-- **C07 (addText)**: text refused (IllegalText): nothing changed.  `p` is an element (only
    `Element` has `addText`) and the new Text object is not the receiver. -/
theorem addText_atomic {h h' : Heap} {p t : Id} {allowsText nonempty : Bool} {e : Err}
    (hk : (h p).kind = .elem) (hne : t ≠ p)
    (hr : (addText p t allowsText nonempty).run h = (h', .error e)) : h' = h := by
  unfold addText at hr
  cases allowsText with
  | false => simp at hr; exact hr.1.symm
  | true =>
    cases nonempty with
    | false => simp at hr
    | true =>
      simp [run_bind, initNode_run] at hr
      obtain ⟨h2, hok⟩ := appendChild_fresh_ok h p t .text hk hne
      rw [hok] at hr; cases hr

/-- **C07 (addCDATA)** -/
theorem addCDATA_atomic {h h' : Heap} {p t : Id} {allowsText : Bool} {e : Err}
    (hk : (h p).kind = .elem) (hne : t ≠ p)
    (hr : (addCDATA p t allowsText).run h = (h', .error e)) : h' = h := by
  unfold addCDATA at hr
  cases allowsText with
  | false => simp at hr; exact hr.1.symm
  | true =>
    simp [run_bind, initNode_run] at hr
    obtain ⟨h2, hok⟩ := appendChild_fresh_ok h p t .cdata hk hne
    rw [hok] at hr; cases hr

theorem fresh_run (h : Heap) (i : Id) :
    (fresh i).run h = if Blank h i then (h, .ok ()) else (h, .error .Other) := by
  unfold fresh
  by_cases hb : Blank h i <;> simp [hb]

/-! ### attributes -/

/-- **C07 (setAttrNS)**: a value the converter rejects is not stored, the old value stays. -/
theorem setAttrNS_atomic {h h' : Heap} {el : Id} {key : Nat} {conv : Except Err Nat} {e : Err}
    (hr : (setAttrNS el key conv).run h = (h', .error e)) : h' = h := by
  unfold setAttrNS at hr
  cases conv with
  | error x => simp at hr; exact hr.1.symm
  | ok v => simp at hr

/-- **C07 (setAttribute)**: unknown attribute name or invalid value: nothing changed. -/
theorem setAttribute_atomic {h h' : Heap} {el : Id} {known isTuple allowed : Bool} {key : Nat}
    {conv : Except Err Nat} {e : Err}
    (hr : (setAttribute el known isTuple allowed key conv).run h = (h', .error e)) : h' = h := by
  unfold setAttribute at hr
  cases known <;> cases isTuple <;> cases allowed <;> simp at hr
  all_goals first | exact hr.1.symm | exact setAttrNS_atomic hr

/-- **C07 (removeAttribute)** -/
theorem removeAttribute_atomic {h h' : Heap} {el : Id} {known isTuple allowed : Bool} {key : Nat} {e : Err}
    (hr : (removeAttribute el known isTuple allowed key).run h = (h', .error e)) : h' = h := by
  unfold removeAttribute at hr
  cases known <;> cases isTuple <;> cases allowed <;> simp at hr
  all_goals first
    | exact hr.1.symm
    | (split at hr <;> simp at hr; exact hr.1.symm)

/-! ### every operation of a history -/

/-- the receiver of `addText` / `addCDATA` is an element (only `Element` has these methods) and the
    Text / CDATASection object created inside the call is not the receiver -/
def Sane (h : Heap) : Op → Prop
  | .addText p t _ _ => (h p).kind = .elem ∧ t ≠ p
  | .addCDATA p t _ => (h p).kind = .elem ∧ t ≠ p
  | _ => True

/-- **C07 (every entry point of an edit history)**: whatever the operation and whatever the
    exception, a call that raises leaves the heap — links, child lists, attributes of every node —
    exactly as it was. -/
theorem step_atomic {h h' : Heap} {op : Op} {e : Err} (hs : Sane h op)
    (hr : (step op).run h = (h', .error e)) : h' = h := by
  cases op with
  | newNode i k qn =>
    simp only [step] at hr
    rw [run_bind, fresh_run] at hr
    by_cases hb : Blank h i
    · simp [hb, initNode_run] at hr
    · simp [hb] at hr; exact hr.1.symm
  | append p c => exact appendChild_atomic hr
  | insertBefore p n ref => exact insertBefore_atomic hr
  | remove p c => exact removeChild_atomic hr
  | addElement p c a => exact addElement_atomic hr
  | addText p t a ne =>
    simp only [step] at hr
    rw [run_bind, fresh_run] at hr
    by_cases hb : Blank h t
    · simp only [hb, if_true] at hr; exact addText_atomic hs.1 hs.2 hr
    · simp [hb] at hr; exact hr.1.symm
  | addCDATA p t a =>
    simp only [step] at hr
    rw [run_bind, fresh_run] at hr
    by_cases hb : Blank h t
    · simp only [hb, if_true] at hr; exact addCDATA_atomic hs.1 hs.2 hr
    · simp [hb] at hr; exact hr.1.symm
  | setAttribute el k t a key conv => exact setAttribute_atomic hr
  | setAttrNS el key conv => exact setAttrNS_atomic hr
  | removeAttribute el k t a key => exact removeAttribute_atomic hr

/-- **C07 (histories)**: a refused call can be deleted from an edit history without changing the
    final document. -/
theorem refused_call_is_skippable {h h' : Heap} {op : Op} {e : Err} (hs : Sane h op)
    (hr : (step op).run h = (h', .error e)) (rest : List Op) :
    runOps h (op :: rest) = runOps h rest := by
  have : ((step op).run h).1 = h := by rw [hr]; exact step_atomic hs hr
  simp [runOps, this]

/-! ### the constructor protocol: `Factory(text=…, attr=…, parent=p)`

  The new object (and the Text / CDATASection it may have been given) is mutated freely while
  it is being built; the document is "everything else".  `S` is the set of the new ids. -/

/-- `h'` agrees with `h` on every node outside `S` -/
def Agree (S : Id → Prop) (h h' : Heap) : Prop := ∀ x, ¬ S x → h' x = h x

theorem Agree.refl (S : Id → Prop) (h : Heap) : Agree S h h := fun _ _ => rfl
theorem Agree.trans {S : Id → Prop} {h1 h2 h3 : Heap} (a : Agree S h1 h2) (b : Agree S h2 h3) : Agree S h1 h3 :=
  fun x hx => by rw [b x hx, a x hx]

/-- while it is being built, the new element is an element whose children are new nodes -/
def Building (S : Id → Prop) (self : Id) (h : Heap) : Prop :=
  (h self).kind = .elem ∧ ∀ k ∈ (h self).kids, S k

/-- a statement of the constructor body: touches only new nodes, keeps `Building` if it succeeds -/
def Stage (S : Id → Prop) (self : Id) (m : M Unit) : Prop :=
  ∀ h1, Building S self h1 →
    Agree S h1 (m.run h1).1 ∧ (∀ u, (m.run h1).2 = .ok u → Building S self (m.run h1).1)

theorem set_other_rec (h : Heap) (i x : Id) (r : NodeRec) (hne : x ≠ i) : (h.set i r) x = h x := by
  simp [Heap.set_apply, hne]
theorem setKids_other (h : Heap) (i x : Id) (v) (hne : x ≠ i) : (setKids h i v) x = h x := by
  simp [setKids, Heap.set_apply, hne]
theorem setPrev_other (h : Heap) (i x : Id) (v) (hne : x ≠ i) : (setPrev h i v) x = h x := by
  simp [setPrev, Heap.set_apply, hne]
theorem setNext_other (h : Heap) (i x : Id) (v) (hne : x ≠ i) : (setNext h i v) x = h x := by
  simp [setNext, Heap.set_apply, hne]
theorem setParent_other (h : Heap) (i x : Id) (v) (hne : x ≠ i) : (setParent h i v) x = h x := by
  simp [setParent, Heap.set_apply, hne]
theorem setAttrs_other (h : Heap) (i x : Id) (v) (hne : x ≠ i) : (setAttrs h i v) x = h x := by
  simp [setAttrs, Heap.set_apply, hne]

/-- appending a just-created node to the element under construction -/
theorem appendNew_stage {S : Id → Prop} {self t : Id} (hS : S self) (hT : S t) (hne : t ≠ self) (k : Kind) :
    ∀ h1, Building S self h1 →
      Agree S h1 ((appendChild self t).run (h1.set t { kind := k, qn := 0 })).1 ∧
      (∀ u, ((appendChild self t).run (h1.set t { kind := k, qn := 0 })).2 = .ok u →
        Building S self ((appendChild self t).run (h1.set t { kind := k, qn := 0 })).1) := by
  intro h1 hB
  have hself : (h1.set t { kind := k, qn := 0 }) self = h1 self := set_other_rec _ _ _ _ (Ne.symm hne)
  have hk : ((h1.set t { kind := k, qn := 0 }) self).kind = .elem := by rw [hself]; exact hB.1
  have hpar : ((h1.set t { kind := k, qn := 0 }) t).parent = none := by simp
  have hd : DetachOk (h1.set t { kind := k, qn := 0 }) t := by intro q hq; rw [hpar] at hq; cases hq
  rw [appendChild_run]
  simp only [hk, ne_eq, not_true, if_false, hd, if_true, detach_of_detached _ _ hpar]
  constructor
  · intro x hx
    have hxt : x ≠ t := fun e => hx (e ▸ hT)
    have hxs : x ≠ self := fun e => hx (e ▸ hS)
    rw [setNext_other _ _ _ _ hxt]
    unfold appRawHeap
    rw [setParent_other _ _ _ _ hxt, setKids_other _ _ _ _ hxs]
    cases hl : ((h1.set t { kind := k, qn := 0 }) self).kids.getLast? with
    | none => simp only; exact set_other_rec _ _ _ _ hxt
    | some last =>
      have hlast : S last := by
        apply hB.2
        rw [hself] at hl
        exact List.mem_of_getLast? hl
      have hxl : x ≠ last := fun e => hx (e ▸ hlast)
      simp only
      rw [setNext_other _ _ _ _ hxl, setPrev_other _ _ _ _ hxt]
      exact set_other_rec _ _ _ _ hxt
  · intro _ _
    constructor
    · unfold appRawHeap
      cases ((h1.set t { kind := k, qn := 0 }) self).kids.getLast? <;> simp [hk]
    · intro c hc
      have : (setNext (appRawHeap (h1.set t { kind := k, qn := 0 }) self t) t none self).kids
          = (h1 self).kids ++ [t] := by
        unfold appRawHeap
        cases ((h1.set t { kind := k, qn := 0 }) self).kids.getLast? <;> simp [hself]
      rw [this] at hc
      rcases List.mem_append.mp hc with hc | hc
      · exact hB.2 c hc
      · simp at hc; rw [hc]; exact hT

theorem addText_stage {S : Id → Prop} {self t : Id} (hS : S self) (hT : S t) (hne : t ≠ self)
    (a ne : Bool) : Stage S self (addText self t a ne) := by
  intro h1 hB
  unfold addText
  cases a with
  | false => simp; exact Agree.refl S h1
  | true =>
    cases ne with
    | false => simp; exact ⟨Agree.refl S h1, hB⟩
    | true =>
      simp only [Bool.not_true, Bool.false_eq_true, if_false, if_true, run_bind, initNode_run]
      exact appendNew_stage hS hT hne .text h1 hB

theorem addCDATA_stage {S : Id → Prop} {self t : Id} (hS : S self) (hT : S t) (hne : t ≠ self)
    (a : Bool) : Stage S self (addCDATA self t a) := by
  intro h1 hB
  unfold addCDATA
  cases a with
  | false => simp; exact Agree.refl S h1
  | true =>
    simp only [Bool.not_true, Bool.false_eq_true, if_false, run_bind, initNode_run]
    exact appendNew_stage hS hT hne .cdata h1 hB

theorem pure_stage (S : Id → Prop) (self : Id) : Stage S self (pure ()) := by
  intro h1 hB; exact ⟨Agree.refl S h1, fun _ _ => hB⟩

theorem setAttrs_stage {S : Id → Prop} {self : Id} (hS : S self) (f : Heap → List (Nat × Nat)) :
    Stage S self (upd fun h => setAttrs h self (f h)) := by
  intro h1 hB
  simp only [run_upd]
  refine ⟨fun x hx => setAttrs_other _ _ _ _ (fun e => hx (e ▸ hS)), fun _ _ => ?_⟩
  exact ⟨by simpa using hB.1, by simpa using hB.2⟩

theorem raise_stage (S : Id → Prop) (self : Id) (e : Err) : Stage S self (raise e) := by
  intro h1 _; exact ⟨Agree.refl S h1, fun _ h => by cases h⟩

theorem setAttrNS_stage {S : Id → Prop} {self : Id} (hS : S self) (key : Nat) (conv : Except Err Nat) :
    Stage S self (setAttrNS self key conv) := by
  unfold setAttrNS
  cases conv with
  | error x => exact raise_stage S self x
  | ok v => exact setAttrs_stage hS _

theorem applyAttr_stage {S : Id → Prop} {self : Id} (hS : S self) (a : AttrArg) :
    Stage S self (applyAttr self a) := by
  cases a with
  | viaSet k t al key conv =>
    unfold applyAttr setAttribute
    cases k <;> cases t <;> cases al <;> simp
    all_goals first | exact raise_stage S self _ | exact setAttrNS_stage hS key conv
  | viaNS key conv => exact setAttrNS_stage hS key conv
  | raw key val => exact setAttrs_stage hS _

theorem Stage.seq {S : Id → Prop} {self : Id} {m k : M Unit} (hm : Stage S self m) (hk : Stage S self k) :
    Stage S self (m >>= fun _ => k) := by
  intro h1 hB
  rw [run_bind]
  obtain ⟨ha, hb⟩ := hm h1 hB
  rcases hrun : m.run h1 with ⟨h2, (e | u)⟩
  · rw [hrun] at ha
    exact ⟨ha, fun _ h => by cases h⟩
  · rw [hrun] at ha hb
    have hB2 := hb u rfl
    obtain ⟨ha2, hb2⟩ := hk h2 hB2
    exact ⟨Agree.trans ha ha2, hb2⟩

theorem applyAttrs_stage {S : Id → Prop} {self : Id} (hS : S self) (l : List AttrArg) :
    Stage S self (applyAttrs self l) := by
  induction l with
  | nil => exact pure_stage S self
  | cons a r ih => exact Stage.seq (applyAttr_stage hS a) ih

theorem checkRequired_stage (S : Id → Prop) (self : Id) (l : List Nat) :
    Stage S self (checkRequired self l) := by
  induction l with
  | nil => exact pure_stage S self
  | cons r rs ih =>
    intro h1 hB
    unfold checkRequired
    by_cases hr : lookupAttr r (h1 self).attrs = none
    · simp [hr]; exact Agree.refl S h1
    · simp [hr]; exact ih h1 hB

/-- a last statement that is atomic: if the whole sequence raises, only new nodes were touched -/
theorem Stage.then_atomic {S : Id → Prop} {self : Id} {m k : M Unit} (hm : Stage S self m)
    (hk : ∀ h2 h3 e, k.run h2 = (h3, .error e) → h3 = h2)
    {h1 h' : Heap} {e : Err} (hB : Building S self h1)
    (hr : (m >>= fun _ => k).run h1 = (h', .error e)) : Agree S h1 h' := by
  rw [run_bind] at hr
  obtain ⟨ha, _⟩ := hm h1 hB
  rcases hrun : m.run h1 with ⟨h2, (e2 | u)⟩
  · rw [hrun] at hr ha; cases hr; exact ha
  · rw [hrun] at hr ha
    have := hk h2 h' e hr
    rw [this]; exact ha

/-- **C07 (constructor with `parent=`)**: if a factory call raises — text or cdata refused,
    unknown attribute, invalid value, required attribute missing, or the parent refusing the
    element — then every node other than the objects created by the call itself (the element,
    its text / CDATA node) is exactly as before: the parent's child list, the links of its
    children, all attributes.  The attach is the last statement and is itself atomic. -/
theorem construct_atomic {h h' : Heap} {self qn : Nat} {allowsText : Bool}
    {text : Option (Id × Bool)} {cdata : Option Id} {attrs : List AttrArg} {required : List Nat}
    {parent : Option (Id × Bool)} {e : Err}
    (hts : ∀ t ne, text = some (t, ne) → t ≠ self) (hcs : ∀ c, cdata = some c → c ≠ self)
    (hr : (construct self qn allowsText text cdata attrs required parent).run h = (h', .error e)) :
    ∀ x, x ≠ self → (∀ t ne, text = some (t, ne) → x ≠ t) → (∀ c, cdata = some c → x ≠ c) →
      h' x = h x := by
  let S : Id → Prop := fun x => x = self ∨ (∃ t ne, text = some (t, ne) ∧ x = t) ∨ (∃ c, cdata = some c ∧ x = c)
  have hS : S self := Or.inl rfl
  intro x hx1 hx2 hx3
  have hxS : ¬ S x := by
    intro hs
    rcases hs with hs | ⟨t, ne, ht, hs⟩ | ⟨c, hc, hs⟩
    · exact hx1 hs
    · exact hx2 t ne ht hs
    · exact hx3 c hc hs
  unfold construct at hr
  rw [run_bind, initNode_run] at hr
  simp only at hr
  have hB0 : Building S self (h.set self { kind := .elem, qn := qn }) := by
    constructor <;> simp
  have hA0 : Agree S h (h.set self { kind := .elem, qn := qn }) :=
    fun y hy => set_other_rec _ _ _ _ (fun e => hy (e ▸ hS))
  have hst1 : Stage S self (ctorText self allowsText text) := by
    cases htx : text with
    | none => exact pure_stage S self
    | some tn =>
      obtain ⟨t, ne⟩ := tn
      exact addText_stage hS (Or.inr (Or.inl ⟨t, ne, htx, rfl⟩)) (hts t ne htx) allowsText ne
  have hst2 : Stage S self (ctorCData self allowsText cdata) := by
    cases hcx : cdata with
    | none => exact pure_stage S self
    | some c => exact addCDATA_stage hS (Or.inr (Or.inr ⟨c, hcx, rfl⟩)) (hcs c hcx) allowsText
  have hfinal : ∀ h2 h3 e, (ctorAttach self parent).run h2 = (h3, .error e) → h3 = h2 := by
    intro h2 h3 e hr2
    cases parent with
    | none => simp [ctorAttach] at hr2
    | some pa => obtain ⟨p, al⟩ := pa; exact addElement_atomic hr2
  -- the body is  s1 >>= (s2 >>= (s3 >>= (s4 >>= s5)))
  have key := Stage.then_atomic (S := S) (self := self)
    (m := ctorText self allowsText text >>= fun _ => ctorCData self allowsText cdata >>= fun _ =>
      applyAttrs self attrs >>= fun _ => checkRequired self required)
    (Stage.seq hst1 (Stage.seq hst2 (Stage.seq (applyAttrs_stage hS attrs) (checkRequired_stage S self required))))
    hfinal hB0 (h' := h') (e := e)
  have hassoc : ∀ (a b c d f : M Unit) (hh : Heap),
      (a >>= fun _ => b >>= fun _ => c >>= fun _ => d >>= fun _ => f).run hh =
      ((a >>= fun _ => b >>= fun _ => c >>= fun _ => d) >>= fun _ => f).run hh := by
    intro a b c d f hh
    simp only [run_bind]
    rcases a.run hh with ⟨h1, (e1 | u1)⟩ <;> simp only
    rcases b.run h1 with ⟨h2, (e2 | u2)⟩ <;> simp only
    rcases c.run h2 with ⟨h3, (e3 | u3)⟩ <;> simp only
  rw [hassoc] at hr
  have hA := key hr
  rw [hA x hxS, hA0 x hxS]

/-- **C07 ("an element whose construction was refused is never found in the document")**: after a
    refused factory call no node of the document lists the refused element as a child (in
    particular not the `parent=` it was given), provided none did before (the object is new). -/
theorem refused_not_found {h h' : Heap} {self qn : Nat} {allowsText : Bool}
    {text : Option (Id × Bool)} {cdata : Option Id} {attrs : List AttrArg} {required : List Nat}
    {parent : Option (Id × Bool)} {e : Err}
    (hts : ∀ t ne, text = some (t, ne) → t ≠ self) (hcs : ∀ c, cdata = some c → c ≠ self)
    (hnew : ∀ q, self ∉ (h q).kids)
    (hr : (construct self qn allowsText text cdata attrs required parent).run h = (h', .error e)) :
    ∀ q, q ≠ self → (∀ t ne, text = some (t, ne) → q ≠ t) → (∀ c, cdata = some c → q ≠ c) →
      self ∉ (h' q).kids := by
  intro q h1 h2 h3
  rw [construct_atomic hts hcs hr q h1 h2 h3]
  exact hnew q

/-- **C07 (wrapper factory `StyleRefElement`, refused `stylename=` / `classnames=`)**: the style
    arguments are checked before the element exists — the heap is literally unchanged. -/
theorem styleRefConstruct_refused_args {h : Heap} {e : Err} {self qn : Nat} {allowsText : Bool}
    {text : Option (Id × Bool)} {cdata : Option Id} {attrs : List AttrArg} {required : List Nat}
    {parent : Option (Id × Bool)} :
    (styleRefConstruct (.error e) self qn allowsText text cdata attrs required parent).run h = (h, .error e) := by
  unfold styleRefConstruct; simp

/-- **C07 (wrapper factory `StyleRefElement` with `parent=`)**: whatever makes the call raise,
    every node other than the objects created by the call itself is exactly as before. -/
theorem styleRefConstruct_atomic {h h' : Heap} {pre : Except Err Unit} {self qn : Nat} {allowsText : Bool}
    {text : Option (Id × Bool)} {cdata : Option Id} {attrs : List AttrArg} {required : List Nat}
    {parent : Option (Id × Bool)} {e : Err}
    (hts : ∀ t ne, text = some (t, ne) → t ≠ self) (hcs : ∀ c, cdata = some c → c ≠ self)
    (hr : (styleRefConstruct pre self qn allowsText text cdata attrs required parent).run h = (h', .error e)) :
    ∀ x, x ≠ self → (∀ t ne, text = some (t, ne) → x ≠ t) → (∀ c, cdata = some c → x ≠ c) →
      h' x = h x := by
  unfold styleRefConstruct at hr
  cases pre with
  | error e0 => simp at hr; intro x _ _ _; rw [hr.1]
  | ok u => simp at hr; exact construct_atomic hts hcs hr

/-! ### the theorems are about the statement order: two counter-models, and non-vacuity -/

/-- `insertBefore` with the statement order it had before repair 77f9994 (detach the new child,
    then look for the reference child) -/
def insertBeforeDetachFirst (p n : Id) (ref : Option Id) : M Unit := do
  if (← rd fun h => (h p).kind) ≠ .elem then raise .Hierarchy
  detachIfAttached n
  match ref with
  | none => appendChild p n
  | some r => insertAtRef p n r

/-- `setAttrNS` storing the raw value before the converter has accepted it -/
def setAttrNSStoreFirst (e : Id) (key raw : Nat) (conv : Except Err Nat) : M Unit := do
  upd fun h => setAttrs h e (storeAttr key raw (h e).attrs)
  match conv with
  | .error x => raise x
  | .ok v => upd fun h => setAttrs h e (storeAttr key v (h e).attrs)

/-- four elements, node 1 a child of node 0 -/
def demoHeap : Heap :=
  runOps Heap.empty [.newNode 0 .elem 0, .newNode 1 .elem 0, .newNode 2 .elem 0, .newNode 3 .elem 0, .append 0 1]

/-- in the same monad, the other statement order is NOT atomic: `2.insertBefore(1, 3)` raises
    NotFoundErr (3 is not a child of 2) and node 1 has silently left its parent 0.  So
    `insertBefore_atomic` is a fact about the source order, not a property of the modelling. -/
theorem atomicity_needs_the_order :
    ((insertBeforeDetachFirst 2 1 (some 3)).run demoHeap).2 = .error .NotFound ∧
    (((insertBeforeDetachFirst 2 1 (some 3)).run demoHeap).1 0).kids ≠ (demoHeap 0).kids := by
  refine ⟨by rfl, by decide⟩

/-- likewise for "store, then convert" -/
theorem atomicity_needs_convert_first :
    ((setAttrNSStoreFirst 0 7 8 (.error .ValueError)).run demoHeap).2 = .error .ValueError ∧
    (((setAttrNSStoreFirst 0 7 8 (.error .ValueError)).run demoHeap).1 0).attrs ≠ (demoHeap 0).attrs := by
  refine ⟨by rfl, by decide⟩

/-- non-vacuity: the real `insertBefore` does raise on that input (and, by `insertBefore_atomic`,
    leaves node 1 under node 0) -/
example : ((insertBefore 2 1 (some 3)).run demoHeap).2 = .error .NotFound := by rfl
example : (((insertBefore 2 1 (some 3)).run demoHeap).1 0).kids = [1] := by decide

/-- non-vacuity of `construct_atomic`: `H(text='…', parent=0)` without its required attribute 5
    raises AttributeError after its Text node 11 was created; the parent 0 still has the single
    child 1 -/
example : ((construct 10 0 true (some (11, true)) none [] [5] (some (0, true))).run demoHeap).2
    = .error .AttributeError := by rfl
example : (((construct 10 0 true (some (11, true)) none [] [5] (some (0, true))).run demoHeap).1 0).kids = [1] := by
  decide
/-- … and the same call with the attribute present attaches the element last -/
example : (((construct 10 0 true (some (11, true)) none [.viaNS 5 (.ok 1)] [5] (some (0, true))).run demoHeap).1 0).kids
    = [1, 10] := by decide

/-! ### reference children that only CLAIM to be children (pointer surgery) -/

/-- **C07 (stale reference child)**: whatever the reference node's own parent pointer says — a shallow copy of a
    child, a child struck from the list by hand, a node whose `parentNode` was assigned — if it is not in the
    receiver's child list, `insertBefore` raises NotFoundErr and returns the heap it was given: the new child has
    not left the place it had. -/
theorem insertBefore_stale_ref (h : Heap) (p n r : Id) (hk : (h p).kind = .elem) (hr : r ∉ (h p).kids) :
    (insertBefore p n (some r)).run h = (h, .error .NotFound) := by
  rw [insertBefore_run]
  simp [hk, RefOk, hr]

/-- **C07 (stale child)**: likewise `removeChild` of a node that is in no child list of the receiver. -/
theorem removeChild_stale (h : Heap) (p c : Id) (hr : c ∉ (h p).kids) :
    (removeChild p c).run h = (h, .error .NotFound) := by
  rw [removeChild_run]
  simp [hr]

/-- `insertBefore` deciding "is refChild my child" by the reference node's parent POINTER instead of by
    membership of the child list -/
def insertBeforeByParentPointer (p n : Id) (ref : Option Id) : M Unit := do
  if (← rd fun h => (h p).kind) ≠ .elem then raise .Hierarchy
  match ref with
  | some r => if (← rd fun h => (h r).parent) ≠ some p then raise .NotFound
  | none => pure ()
  if ref = some n then
    pure ()
  else
    detachIfAttached n
    match ref with
    | none => appendChild p n
    | some r => insertAtRef p n r

/-- `demoHeap` after `node3.parentNode = node2` by hand: node 3 says it is a child of node 2, node 2 has no children -/
def ghostHeap : Heap := setParent demoHeap 3 (some 2)

/-- the pointer test is NOT atomic: `2.insertBefore(1, 3)` on `ghostHeap` passes the test, detaches node 1 from its
    parent 0 and only then fails to find node 3 in the child list.  `insertBefore_atomic` rests on the membership test. -/
theorem atomicity_needs_the_membership_test :
    ((insertBeforeByParentPointer 2 1 (some 3)).run ghostHeap).2 = .error .NotFound ∧
    (((insertBeforeByParentPointer 2 1 (some 3)).run ghostHeap).1 0).kids ≠ (ghostHeap 0).kids := by
  refine ⟨by rfl, by decide⟩

/-- non-vacuity: the real `insertBefore` refuses that call too, and node 1 stays under node 0 -/
example : ((insertBefore 2 1 (some 3)).run ghostHeap).2 = .error .NotFound := by rfl
example : (((insertBefore 2 1 (some 3)).run ghostHeap).1 0).kids = [1] := by decide
example : (ghostHeap 3).parent = some 2 ∧ 3 ∉ (ghostHeap 2).kids := by decide

end OdfModel.Props.C07

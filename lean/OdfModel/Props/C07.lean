/-
  Property C07 — a refused or failed operation leaves the document untouched.

  The operations of `OdfModel.Dom` are statement sequences in the monad
  `M α = Heap → Heap × Except Err α`, which hands back the heap AS MUTATED SO FAR together with
  the exception.  So `(op.run h) = (h', .error e) → h' = h` is a statement about the order of
  checks and assignments in the Python source; it fails for a model in which an assignment
  precedes a `raise` (see `atomicity_needs_the_order` at the end).

  First the *closed forms*: what each mutator returns, for every heap (no invariant assumed);
  then the atomicity theorems read them off.
-/
import OdfModel.Dom
namespace OdfModel.Props.C07
open OdfModel.Dom

@[simp] theorem run_bind_ite {α β} (c : Prop) [Decidable c] (x y : M α) (f : α → M β) (h : Heap) :
    ((if c then x else y) >>= f).run h = if c then (x >>= f).run h else (y >>= f).run h := by
  split <;> rfl

/-! ### removeChild -/

/-- the heap after a `removeChild` that does not raise: its six assignments composed -/
def rmHeap (h : Heap) (p c : Id) : Heap :=
  setParent (setPrev (setNext
    (setNextOpt (setPrevOpt (setKids h p ((h p).kids.erase c)) (h c).next (h c).prev) (h c).prev (h c).next)
    c none) c none) c none

/-- closed form of `removeChild` -/
theorem removeChild_run (h : Heap) (p c : Id) :
    (removeChild p c).run h =
      if (h p).kind = .elem ∧ c ∈ (h p).kids then (rmHeap h p c, .ok ()) else (h, .error .NotFound) := by
  unfold removeChild rmHeap
  simp
  by_cases h1 : (h p).kind = .elem <;> by_cases h2 : c ∈ (h p).kids <;> simp [h1, h2]

/-! ### appendChild -/

/-- `if c.parentNode is not None: c.parentNode.removeChild(c)` does not raise -/
def DetachOk (h : Heap) (c : Id) : Prop :=
  ∀ q, (h c).parent = some q → (h q).kind = .elem ∧ c ∈ (h q).kids

instance (h : Heap) (c : Id) : Decidable (DetachOk h c) := by
  unfold DetachOk
  cases hp : (h c).parent with
  | none => exact isTrue (by intro q hq; cases hq)
  | some q0 =>
    by_cases hk : (h q0).kind = .elem ∧ c ∈ (h q0).kids
    · exact isTrue (by intro q hq; cases hq; exact hk)
    · exact isFalse (by intro hh; exact hk (hh q0 rfl))

/-- the heap after that statement -/
def detach (h : Heap) (c : Id) : Heap :=
  match (h c).parent with
  | some q => rmHeap h q c
  | none => h

/-- the heap after `_append_child(p, c)` -/
def appRawHeap (h : Heap) (p c : Id) : Heap :=
  setParent (setKids
    (match (h p).kids.getLast? with
     | some last => setNext (setPrev h c (some last)) last (some c)
     | none => h) p ((h p).kids ++ [c])) c (some p)

theorem appendRaw_run (h : Heap) (p c : Id) : (appendRaw p c).run h = (appRawHeap h p c, .ok ()) := by
  unfold appendRaw appRawHeap
  simp
  split <;> simp [*]

theorem detachIfAttached_run (h : Heap) (c : Id) :
    (detachIfAttached c).run h = if DetachOk h c then (detach h c, .ok ()) else (h, .error .NotFound) := by
  unfold detachIfAttached DetachOk detach
  simp
  split
  · rename_i q hq
    rw [removeChild_run]
    by_cases hc : (h q).kind = .elem ∧ c ∈ (h q).kids
    · simp [hc, hq]
    · have : ¬ ∀ q', some q = some q' → (h q').kind = .elem ∧ c ∈ (h q').kids := by
        intro hh; exact hc (hh q rfl)
      simp [hc, hq]
  · rename_i hq
    simp [hq]

/-- closed form of `appendChild` -/
theorem appendChild_run (h : Heap) (p c : Id) :
    (appendChild p c).run h =
      if (h p).kind ≠ .elem then (h, .error .Hierarchy)
      else if DetachOk h c then (setNext (appRawHeap (detach h c) p c) c none, .ok ())
      else (h, .error .NotFound) := by
  unfold appendChild
  simp
  by_cases hk : (h p).kind = .elem
  · simp only [hk, if_true]
    rw [run_bind, detachIfAttached_run]
    by_cases hd : DetachOk h c
    · simp [hd, run_bind, appendRaw_run]
    · simp [hd]
  · simp [hk]

/-! ### pointwise description of `rmHeap` -/

@[simp] theorem rmHeap_kind (h : Heap) (p c x : Id) : (rmHeap h p c x).kind = (h x).kind := by
  simp [rmHeap]
@[simp] theorem rmHeap_attrs (h : Heap) (p c x : Id) : (rmHeap h p c x).attrs = (h x).attrs := by
  simp [rmHeap]
@[simp] theorem rmHeap_qn (h : Heap) (p c x : Id) : (rmHeap h p c x).qn = (h x).qn := by
  simp [rmHeap]
theorem rmHeap_kids (h : Heap) (p c x : Id) :
    (rmHeap h p c x).kids = if x = p then (h p).kids.erase c else (h x).kids := by
  simp [rmHeap]
theorem rmHeap_parent (h : Heap) (p c x : Id) :
    (rmHeap h p c x).parent = if x = c then none else (h x).parent := by
  simp [rmHeap]
theorem rmHeap_prev (h : Heap) (p c x : Id) :
    (rmHeap h p c x).prev = if x = c then none else if some x = (h c).next then (h c).prev else (h x).prev := by
  simp [rmHeap]
theorem rmHeap_next (h : Heap) (p c x : Id) :
    (rmHeap h p c x).next = if x = c then none else if some x = (h c).prev then (h c).next else (h x).next := by
  simp [rmHeap]

@[simp] theorem detach_kind (h : Heap) (c x : Id) : (detach h c x).kind = (h x).kind := by
  unfold detach; split <;> simp
theorem detach_parent_self (h : Heap) (c : Id) : (detach h c c).parent = none := by
  unfold detach; split
  · simp [rmHeap_parent]
  · assumption
theorem detach_of_detached (h : Heap) (c : Id) (hp : (h c).parent = none) : detach h c = h := by
  unfold detach; split
  · rename_i q hq; rw [hp] at hq; cases hq
  · rfl
theorem detach_idem (h : Heap) (c : Id) : detach (detach h c) c = detach h c :=
  detach_of_detached _ _ (detach_parent_self h c)
theorem detachOk_detach (h : Heap) (c : Id) : DetachOk (detach h c) c := by
  intro q hq; rw [detach_parent_self] at hq; cases hq
/-- a node other than the detached one stays where it is listed -/
theorem mem_kids_detach (h : Heap) (c p r : Id) (hr : r ∈ (h p).kids) (hne : r ≠ c) :
    r ∈ (detach h c p).kids := by
  unfold detach; split
  · rename_i q _
    rw [rmHeap_kids]
    by_cases hpq : p = q
    · subst hpq; simp only [if_true]; exact (List.mem_erase_of_ne hne).mpr hr
    · simp only [hpq, if_false]; exact hr
  · exact hr

/-! ### insertBefore -/

/-- `refChild is None or refChild in self.childNodes` -/
def RefOk (h : Heap) (p : Id) (ref : Option Id) : Prop := ∀ r, ref = some r → r ∈ (h p).kids

instance (h : Heap) (p : Id) (ref : Option Id) : Decidable (RefOk h p ref) := by
  unfold RefOk
  cases ref with
  | none => exact isTrue (by intro r hr; cases hr)
  | some r0 =>
    by_cases hk : r0 ∈ (h p).kids
    · exact isTrue (by intro r hr; cases hr; exact hk)
    · exact isFalse (by intro hh; exact hk (hh r0 rfl))

theorem checkRef_run (h : Heap) (p : Id) (ref : Option Id) :
    (checkRef p ref).run h = if RefOk h p ref then (h, .ok ()) else (h, .error .NotFound) := by
  unfold checkRef RefOk
  cases ref with
  | none => simp
  | some r => by_cases hr : r ∈ (h p).kids <;> simp [hr]

/-- the heap after the `if index: … else: …` statement -/
def linkPrevHeap (h : Heap) (p n : Id) (index : Nat) : Heap :=
  if index = 0 then setPrev h n none
  else match (h p).kids[index - 1]? with
    | some node => setPrev (setNext h node (some n)) n (some node)
    | none => h

theorem linkPrev_run (h : Heap) (p n : Id) (index : Nat) :
    (linkPrev p n index).run h =
      if index ≠ 0 ∧ (h p).kids[index - 1]? = none then (h, .error .Other)
      else (linkPrevHeap h p n index, .ok ()) := by
  unfold linkPrev linkPrevHeap
  by_cases hi : index = 0
  · simp [hi]
  · cases hk : (h p).kids[index - 1]? with
    | none => simp only [run_ite, run_bind_rd, hk]; simp [hi]
    | some node => simp only [run_ite, run_bind_rd, hk]; simp [hi]

/-- the heap after the `else:` branch of insertBefore -/
def insHeap (h : Heap) (p n r : Id) : Heap :=
  let index := (h p).kids.idxOf r
  let h1 := setPrev (setNext (setKids h p ((h p).kids.insertIdx index n)) n (some r)) r (some n)
  setParent (linkPrevHeap h1 p n index) n (some p)

theorem idxOf_pred_insertIdx (l : List Id) (r n : Id) (hr : r ∈ l) (_h0 : l.idxOf r ≠ 0) :
    (l.insertIdx (l.idxOf r) n)[l.idxOf r - 1]? ≠ none := by
  have hlt : l.idxOf r < l.length := List.idxOf_lt_length_of_mem hr
  have hlen : (l.insertIdx (l.idxOf r) n).length = l.length + 1 :=
    List.length_insertIdx_of_le_length (Nat.le_of_lt hlt) n
  intro hnone
  rw [List.getElem?_eq_none_iff] at hnone
  omega

theorem insertAtRef_run (h : Heap) (p n r : Id) :
    (insertAtRef p n r).run h =
      if r ∈ (h p).kids then (insHeap h p n r, .ok ()) else (h, .error .NotFound) := by
  unfold insertAtRef insHeap
  by_cases hr : r ∈ (h p).kids
  · have key : ¬ ((h p).kids.idxOf r ≠ 0 ∧
        ((h p).kids.insertIdx ((h p).kids.idxOf r) n)[(h p).kids.idxOf r - 1]? = none) :=
      fun hh => idxOf_pred_insertIdx _ r n hr hh.1 hh.2
    simp [hr]
    rw [run_bind, linkPrev_run]
    simp only [setPrev_kids, setNext_kids, setKids_kids, if_true]
    rw [if_neg key]
    simp
  · simp [hr]

/-- closed form of `insertBefore` -/
theorem insertBefore_run (h : Heap) (p n : Id) (ref : Option Id) :
    (insertBefore p n ref).run h =
      if (h p).kind ≠ .elem then (h, .error .Hierarchy)
      else if ¬ RefOk h p ref then (h, .error .NotFound)
      else if ref = some n then (h, .ok ())
      else if ¬ DetachOk h n then (h, .error .NotFound)
      else match ref with
        | none => (setNext (appRawHeap (detach h n) p n) n none, .ok ())
        | some r => (insHeap (detach h n) p n r, .ok ()) := by
  unfold insertBefore
  simp
  by_cases hk : (h p).kind = .elem
  · simp only [hk, if_true]
    rw [run_bind, checkRef_run]
    by_cases hro : RefOk h p ref
    · simp only [hro, if_true, not_true, if_false]
      by_cases hn : ref = some n
      · simp [hn]
      · simp only [hn, if_false]
        rw [run_bind, detachIfAttached_run]
        by_cases hd : DetachOk h n
        · simp only [hd, if_true, not_true, if_false]
          cases ref with
          | none =>
            simp [appendChild_run, hk, detachOk_detach, detach_idem]
          | some r =>
            have hr : r ∈ (h p).kids := hro r rfl
            have hne : r ≠ n := fun e => hn (by rw [e])
            simp [insertAtRef_run, mem_kids_detach h n p r hr hne]
        · simp [hd]
    · simp [hro]
  · simp [hk]

/-! ### atomicity of the three mutators (every heap, no invariant needed) -/

/-- **C07 (removeChild)**: a `removeChild` that raises has changed nothing. -/
theorem removeChild_atomic {h h' : Heap} {p c : Id} {e : Err}
    (hr : (removeChild p c).run h = (h', .error e)) : h' = h := by
  rw [removeChild_run] at hr
  split at hr <;> cases hr; rfl

/-- **C07 (appendChild)**: an `appendChild` that raises (childless receiver; the nested
    `removeChild`) has changed nothing. -/
theorem appendChild_atomic {h h' : Heap} {p c : Id} {e : Err}
    (hr : (appendChild p c).run h = (h', .error e)) : h' = h := by
  rw [appendChild_run] at hr
  repeat' split at hr
  all_goals cases hr
  all_goals rfl

/-- **C07 (insertBefore)**: an `insertBefore` that raises — in particular because the reference
    node is not a child — has changed nothing: the new child is still where it was.  This rests on
    the reference check preceding the detachment of the new child, and on the facts that after
    that detachment neither the second `index` lookup nor the nested `appendChild` can raise. -/
theorem insertBefore_atomic {h h' : Heap} {p n : Id} {ref : Option Id} {e : Err}
    (hr : (insertBefore p n ref).run h = (h', .error e)) : h' = h := by
  rw [insertBefore_run] at hr
  repeat' split at hr
  all_goals cases hr
  all_goals rfl

/-- which exception, and when (used by C08 as well) -/
theorem removeChild_error_iff (h : Heap) (p c : Id) :
    ((removeChild p c).run h).2 = .error .NotFound ↔ ¬ ((h p).kind = .elem ∧ c ∈ (h p).kids) := by
  rw [removeChild_run]; split <;> simp [*]

/-! ### addElement / addText / addCDATA -/

/-- **C07 (addElement)**: refused by the grammar (IllegalChild) or by the DOM: nothing changed. -/
theorem addElement_atomic {h h' : Heap} {p c : Id} {allowed : Bool} {e : Err}
    (hr : (addElement p c allowed).run h = (h', .error e)) : h' = h := by
  unfold addElement at hr
  cases allowed with
  | false => simp at hr; exact hr.1.symm
  | true => simp at hr; exact appendChild_atomic hr

theorem initNode_run (h : Heap) (i : Id) (k : Kind) (qn : Nat) :
    (initNode i k qn).run h = (h.set i { kind := k, qn := qn }, .ok ()) := rfl

/-- after `Text(data)` the append that follows cannot raise: the receiver is an element and the
    new node is detached -/
theorem appendChild_fresh_ok (h : Heap) (p t : Id) (k : Kind) (hk : (h p).kind = .elem) (hne : t ≠ p) :
    ∃ h', (appendChild p t).run (h.set t { kind := k, qn := 0 }) = (h', .ok ()) := by
  rw [appendChild_run]
  have h1 : ((h.set t { kind := k, qn := 0 }) p).kind = .elem := by
    rw [Heap.set_other _ _ _ _ (Ne.symm hne)]; exact hk
  have h2 : DetachOk (h.set t { kind := k, qn := 0 }) t := by
    intro q hq; simp at hq
  simp [h1, h2]

/-- **C07 (addText)**: text refused (IllegalText): nothing changed.  `p` is an element (only
    `Element` has `addText`) and the new Text object is not the receiver. -/
theorem addText_atomic {h h' : Heap} {p t : Id} {allowsText nonempty : Bool} {e : Err}
    (hk : (h p).kind = .elem) (hne : t ≠ p)
    (hr : (addText p t allowsText nonempty).run h = (h', .error e)) : h' = h := by
  unfold addText at hr
  cases allowsText with
  | false => simp at hr; exact hr.1.symm
  | true =>
    cases nonempty with
    | false => simp at hr
    | true =>
      simp [run_bind, initNode_run] at hr
      obtain ⟨h2, hok⟩ := appendChild_fresh_ok h p t .text hk hne
      rw [hok] at hr; cases hr

/-- **C07 (addCDATA)** -/
theorem addCDATA_atomic {h h' : Heap} {p t : Id} {allowsText : Bool} {e : Err}
    (hk : (h p).kind = .elem) (hne : t ≠ p)
    (hr : (addCDATA p t allowsText).run h = (h', .error e)) : h' = h := by
  unfold addCDATA at hr
  cases allowsText with
  | false => simp at hr; exact hr.1.symm
  | true =>
    simp [run_bind, initNode_run] at hr
    obtain ⟨h2, hok⟩ := appendChild_fresh_ok h p t .cdata hk hne
    rw [hok] at hr; cases hr

theorem fresh_run (h : Heap) (i : Id) :
    (fresh i).run h = if Blank h i then (h, .ok ()) else (h, .error .Other) := by
  unfold fresh
  by_cases hb : Blank h i <;> simp [hb]

/-! ### attributes -/

/-- **C07 (setAttrNS)**: a value the converter rejects is not stored, the old value stays. -/
theorem setAttrNS_atomic {h h' : Heap} {el : Id} {key : Nat} {conv : Except Err Nat} {e : Err}
    (hr : (setAttrNS el key conv).run h = (h', .error e)) : h' = h := by
  unfold setAttrNS at hr
  cases conv with
  | error x => simp at hr; exact hr.1.symm
  | ok v => simp at hr

/-- **C07 (setAttribute)**: unknown attribute name or invalid value: nothing changed. -/
theorem setAttribute_atomic {h h' : Heap} {el : Id} {known isTuple allowed : Bool} {key : Nat}
    {conv : Except Err Nat} {e : Err}
    (hr : (setAttribute el known isTuple allowed key conv).run h = (h', .error e)) : h' = h := by
  unfold setAttribute at hr
  cases known <;> cases isTuple <;> cases allowed <;> simp at hr
  all_goals first | exact hr.1.symm | exact setAttrNS_atomic hr

/-- **C07 (removeAttribute)** -/
theorem removeAttribute_atomic {h h' : Heap} {el : Id} {known isTuple allowed : Bool} {key : Nat} {e : Err}
    (hr : (removeAttribute el known isTuple allowed key).run h = (h', .error e)) : h' = h := by
  unfold removeAttribute at hr
  cases known <;> cases isTuple <;> cases allowed <;> simp at hr
  all_goals first
    | exact hr.1.symm
    | (split at hr <;> simp at hr; exact hr.1.symm)

end OdfModel.Props.C07

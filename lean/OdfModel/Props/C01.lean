/-
  Property C01 — every XML stream the library emits is well-formed.

  Model: `OdfModel.Xml` (encoders + writer), `OdfModel.Ns` (process-wide namespace table); the reference parser
  `OdfModel.Spec.parseDoc` accepts only namespace-well-formed XML 1.0 (a sub-language, see Spec/XmlParse.lean).
  Tie: harness/c01.py — the three encoders on every code point, `toXml` byte for byte on generated trees, the reference
  parser against expat, the namespace table against real histories.
-/
import OdfModel.Props.C14
import OdfModel.Xml.Encodable
import OdfModel.Generated.EscapeSrc
namespace OdfModel.Props.C01
open OdfModel OdfModel.Xml OdfModel.Spec OdfModel.Ns

/-- **C01 (one rendering)**: whatever strings are used as text, CDATA and attribute values, whatever the (admissible)
    namespace table: the emitted stream is accepted by the reference parser. -/
theorem emitted_wf (tbl : NsTable) (q : QName) (attrs : List (QName × Str)) (kids : Forest)
    (ht : TableOK tbl) (hcl : NsClean tbl) (hu : TreeOK tbl (.elem q attrs kids)) :
    ∃ t, parseDoc (render tbl (.elem q attrs kids)) = some t :=
  ⟨_, parseDoc_render tbl q attrs kids ht hcl hu⟩

/-- registering a namespace makes it known to every later table -/
theorem covered_after (st : NsState) (nss : List Str) (ns : Str) (hne : ns ≠ [])
    (h : ns ∈ nss ∨ (lookupNs st.seen ns).isSome = true) : (lookupNs (run st nss).seen ns).isSome = true := by
  induction nss generalizing st with
  | nil =>
    rcases h with h | h
    · cases h
    · exact h
  | cons x r ih =>
    apply ih
    have hstep : ∀ n, (lookupNs st.seen n).isSome = true → (lookupNs (getNsPrefix st x).1.seen n).isSome = true := by
      intro n hn
      unfold getNsPrefix
      by_cases hx : x.isEmpty = true
      · simp [hx, hn]
      · simp only [hx, Bool.false_eq_true, if_false]
        split
        · exact hn
        · -- appended at the end: earlier entries are still found
          have : ∀ (l : NsTable) (e : Str × Str), (lookupNs l n).isSome = true → (lookupNs (l ++ [e]) n).isSome = true := by
            intro l e hl
            induction l with
            | nil => simp [lookupNs] at hl
            | cons y l' ihl =>
              obtain ⟨a, b⟩ := y
              simp only [lookupNs, List.cons_append] at hl ⊢
              split
              · rfl
              · rename_i hne'; simp only [hne', if_false] at hl; exact ihl hl
          exact this _ _ hn
    rcases h with h | h
    · rcases List.mem_cons.mp h with rfl | h'
      · right
        unfold getNsPrefix
        have hx : ns.isEmpty = false := by cases ns <;> simp_all
        simp only [hx, Bool.false_eq_true, if_false]
        split
        · assumption
        · have : ∀ (l : NsTable) (p : Str), (lookupNs (l ++ [(ns, p)]) ns).isSome = true := by
            intro l p
            induction l with
            | nil => simp [lookupNs]
            | cons y l' ihl =>
              obtain ⟨a, b⟩ := y
              simp only [lookupNs, List.cons_append]
              split
              · rfl
              · exact ihl
          exact this _ _
      · exact Or.inl h'
    · exact Or.inr (hstep ns h)

/-- **C01 ("whatever the process has serialised before")**: after EVERY history `nss` of namespace registrations
    (each a string of real code points without filtered characters), a tree whose namespaces were registered —
    which `Element.__init__` and `setAttrNS` always do — is emitted as a stream the reference parser accepts. -/
theorem emitted_wf_after_any_history (nss : List Str) (hs : ∀ ns ∈ nss, StrOK ns ∧ ns.map hu = ns)
    (q : QName) (attrs : List (QName × Str)) (kids : Forest)
    (hu' : TreeOK (run initial nss).seen (.elem q attrs kids)) :
    ∃ t, parseDoc (render (run initial nss).seen (.elem q attrs kids)) = some t :=
  emitted_wf _ q attrs kids (C14.tableOK_reachable nss (fun ns h => (hs ns h).1))
    (C14.nsClean_reachable nss (fun ns h => (hs ns h).2)) hu'

/-- **C01 (encodable)**: every character of an emitted stream is an XML 1.0 `Char`; in particular no lone surrogate is
    ever written, so `.encode('utf-8')` in xml()/contentxml()/save() cannot raise, whatever strings the tree holds. -/
theorem emitted_encodable (tbl : NsTable) (q : QName) (attrs : List (QName × Str)) (kids : Forest)
    (ht : TableOK tbl) (hu : TreeOK tbl (.elem q attrs kids)) :
    ∀ c ∈ render tbl (.elem q attrs kids), isXmlChar c = true ∧ ¬ (0xD800 ≤ c ∧ c ≤ 0xDFFF) := by
  intro c hc
  have h := allXml_render tbl q attrs kids ht hu c hc
  exact ⟨h, isXmlChar_not_surrogate c h⟩

/-! ### The model's constants are the constants in the source text (translator, AST route)

`Generated/EscapeSrc.lean` is rewritten on every run from the SOURCE of odf/element.py / odf/opendocument.py; these
theorems break when a literal of the encoders is edited (the behavioural route — every code point through the real
functions — then says on which character). -/
open OdfModel.Generated.EscapeSrc in
/-- `_escape` replaces `&`, `<`, `>` — in that order — by the model's `AMP`, `LT`, `GT` -/
theorem escape_src_agrees : escapeReplaces = [([38], AMP), ([60], LT), ([62], GT)] := by decide

open OdfModel.Generated.EscapeSrc in
/-- `_quoteattr` adds LF, CR, TAB (in that order) with the model's references, and replaces `"` by the model's `QUOT` -/
theorem attr_src_agrees :
    attrEntities = attrEnts.map (fun e => ([e.1], e.2)) ∧ attrReplaces = [([34], QUOT)] := by decide

open OdfModel.Generated.EscapeSrc in
/-- `Text.toXml` hands the model's `textEnts` to `_sanitize` -/
theorem text_src_agrees : textEntities = textEnts.map (fun e => ([e.1], e.2)) := by decide

open OdfModel.Generated.EscapeSrc in
/-- `CDATASection.toXml`: `]]>` is split as in `replCdataEnd`, CR is carried outside the section, the frame is `CDO … CDC` -/
theorem cdata_src_agrees :
    cdataReplaces = [(CDC, [93, 93] ++ CDC ++ CDO ++ [62]), ([13], CDC ++ R13 ++ CDO)] ∧ cdataOpen = CDO ∧ cdataClose = CDC := by
  decide

open OdfModel.Generated.EscapeSrc in
/-- `_XMLPROLOGUE` is the model's (and the reference parser's) prologue -/
theorem prologue_src_agrees : prologue = PROLOGUE := by decide

end OdfModel.Props.C01

/-
  Property C09 × C04 — LOADS keep the document indexes coherent (cross-layer: LoadSax events → DomDoc operations).

  C09 speaks of "any history of tree edits, serialisations and LOADS".  Props/C09.lean proves the index invariant
  `CohIdx` for every DomDoc operation; LoadSax.lean models which TREE `LoadParser` (odf/load.py) builds from a SAX
  event stream, without the indexes.  This file joins the two:

    `opsOfEvents`  the DomDoc operations LoadParser performs for the events INSIDE ONE ROUTED SECTION (parse = True,
                   skip = 0): the forest that is appended below the section object `sec` (office:body, office:styles, …).
                   Statement by statement (odf/load.py):
        characters(data)            self.data.append(data)                       no DOM call; `pend` = ''.join(data) != ''
        startElementNS(tag, attrs)  if content: self.parent.addText(content, check_grammar=False)        `flushOps`
                                    e = Element(qname=tag, qattributes=attrdict, check_grammar=False)     `.newNode`, `attrOps`
                                        (Element.__init__: one setAttrNS per entry of qattributes)
                                    self.parent.addElement(e, check_grammar=False)                        `.addElement par e true`
                                    self.parent = e                                                        push
        endElementNS(tag)           if str: self.curr.addText(str, check_grammar=False)                   `flushOps`
                                    self.curr = self.curr.parentNode; self.parent = self.curr            pop
                   `check_grammar=False` is the verdict `true` of the add* wrappers.  The ids of the new objects are taken from a
                   counter `n` (a new Python object is never an existing one: every id ≥ n is unused, hypothesis `LInv.blank`).
                   NOT covered: the routing of the eight section start tags themselves (the section objects exist since
                   `OpenDocument.__init__` — `skeleton` below — and only receive attributes, a `SameLinks` change), the
                   skipped repeated font declarations (no DOM call at all), an attribute converter that raises (the load stops
                   there: the operations emitted so far are a prefix of the ones here), the end tag of the section itself
                   (`opsOfEvents` stops at an end tag that has no start tag in the stream).

  Proved
    `load_historyOk`     every operation emitted meets the side conditions `OpOk` of C09's step theorem and none raises
                         (in particular no RecursionError: every node is attached while it is still a leaf) — so the loads
                         are histories the reachability theorem `coherent_runD` / `coherent_reachable_partial` quantifies over;
    `load_inv`           the loader invariant `LInv` (coherent state, unused ids, open elements) is kept;
    `load_coherent`      after the load `CohIdx` holds (corollary of C09.coherent_runD);
    `load_reachable`     … for a document reached by any C09 history from a fresh document, then loaded into;
    `load_byType_exact`  `doc.getElementsByType` after a load returns exactly the attached elements of the type, each once;
    `load_loaded_listed` every element the loader created below an attached section is attached and listed under its qname;
    `skeleton_linv`      the hypotheses hold for the document `OpenDocument.__init__` leaves (top node + eight sections),
                         for each of its sections;
    `load_tree_eq_partial`  refinement, at the level of DOM calls: for the events of ANY forest `f` the operations are exactly
                         the pre-order construction script `buildF` of the forest `mergeK acc f` that LoadSax's `run_forest`
                         (Props/C04) proves the loader appends to the parent — the two models of the loader agree on WHICH tree
                         is built and in which order.  `_partial`: what is missing is the read-back from the heap (that the
                         script `buildF F` leaves a subtree whose shape is `F`); DomDoc nodes carry no character data, and
                         the attribute values that `build_caches` rewrites during the attach (style:name → 'M'+name,
                         text:style-name) are modelled on both sides (`attachHook` / `registerStyle`, `fixStyleRef`) but not
                         compared here.
    `load_tree_eq_section_partial`  the same for the whole content of a section; `load_models_agree_partial`  both models
                         side by side under the hypotheses of C04's `run_forest`.
  Ids are written `Nat` here (`Dom.Id` is an abbreviation of `Nat`; `omega` wants to see `Nat`).
-/
import OdfModel.DomDoc
import OdfModel.LoadSax
import OdfModel.Props.C09
import OdfModel.Props.C04
namespace OdfModel.Props.C09Load
open OdfModel OdfModel.Xml OdfModel.Dom OdfModel.DomDoc OdfModel.Props.C07 OdfModel.Props.C08 OdfModel.Props.C09
open OdfModel.LoadSax (Event evN evF)

/-! ### the operations of a load -/

/-- `for attr, value in qattributes.items(): self.setAttrNS(attr[0], attr[1], value)`; `tk` = token of the attribute
    key, `tv` = token of the converted value -/
def attrOps (tk : QName → Nat) (tv : QName → Str → Nat) (e : Nat) : List (QName × Str) → List DOp
  | [] => []
  | (k, v) :: r => .tree (.setAttrNS e (tk k) (.ok (tv k v))) :: attrOps tk tv e r

/-- `content = ''.join(self.data); if content: par.addText(content, check_grammar=False)` -/
def flushOps (par : Nat) (pend : Bool) (n : Nat) : List DOp :=
  if pend then [.tree (.addText par n true true)] else []

/-- the id counter after the flush -/
def flushNext (pend : Bool) (n : Nat) : Nat := if pend then n + 1 else n

/-- the DomDoc operations of LoadParser for the events inside a routed section `sec`; `st` = the open elements
    (innermost first), `pend` = character data is pending, `n` = the next unused id -/
def opsOfEvents (tq : QName → Nat) (tk : QName → Nat) (tv : QName → Str → Nat) (sec : Nat) :
    List Nat → Bool → Nat → List Event → List DOp
  | _, _, _, [] => []
  | st, pend, n, .chars s :: r => opsOfEvents tq tk tv sec st (pend || !s.isEmpty) n r
  | st, pend, n, .start q a :: r =>
    flushOps (st.headD sec) pend n ++
      (.tree (.newNode (flushNext pend n) .elem (tq q)) :: attrOps tk tv (flushNext pend n) a) ++
      [.tree (.addElement (st.headD sec) (flushNext pend n) true)] ++
      opsOfEvents tq tk tv sec (flushNext pend n :: st) false (flushNext pend n + 1) r
  | [], _, _, .stop _ :: _ => []
  | c :: st, pend, n, .stop _ :: r => flushOps c pend n ++ opsOfEvents tq tk tv sec st false (flushNext pend n) r

/-- open elements, pending flag and id counter after the events -/
def endState : List Nat → Bool → Nat → List Event → List Nat × Bool × Nat
  | st, pend, n, [] => (st, pend, n)
  | st, pend, n, .chars s :: r => endState st (pend || !s.isEmpty) n r
  | st, pend, n, .start _ _ :: r => endState (flushNext pend n :: st) false (flushNext pend n + 1) r
  | [], pend, n, .stop _ :: _ => ([], pend, n)
  | _ :: st, pend, n, .stop _ :: r => endState st false (flushNext pend n) r

/-! ### histories -/

theorem runD_append (a b : List DOp) : ∀ s, runD s (a ++ b) = runD (runD s a) b := by
  induction a with
  | nil => intro s; rfl
  | cons op r ih => intro s; exact ih _

theorem historyOk_append (a b : List DOp) : ∀ s, HistoryOk s a → HistoryOk (runD s a) b → HistoryOk s (a ++ b) := by
  induction a with
  | nil => intro s _ hb; exact hb
  | cons op r ih => intro s ha hb; exact ⟨ha.1, ha.2.1, ih _ ha.2.2 hb⟩

theorem historyOk_one {s : DState} {op : DOp} (hok : OpOk s op) (hr : ((stepD op).run s).2 = .ok ()) :
    HistoryOk s [op] := by
  refine ⟨hok, ?_, trivial⟩
  rw [hr]; intro h; cases h

/-! ### the loader invariant -/

/-- what LoadParser may rely on between two DOM calls: the state is coherent (`Good`); the ids from `n` on are unused
    (`Blank`: nothing refers to a Python object that does not exist yet), the top node is older than the load (`< n0`);
    the section and the open elements are existing elements, the open ones created by this load -/
structure LInv (s : DState) (sec : Nat) (st : List Nat) (n0 n : Nat) : Prop where
  good : Good s
  top_lt : n0 > s.top
  le : n0 ≤ n
  blank : ∀ i, n ≤ i → Blank s.heap i
  open_elem : ∀ p ∈ sec :: st, p < n ∧ (s.heap p).kind = .elem
  open_new : ∀ p ∈ st, n0 ≤ p

/-- the section is attached, and so is everything the load has created so far -/
def LAtt (s : DState) (sec : Nat) (n0 n : Nat) : Prop := Att s sec ∧ ∀ i, n0 ≤ i → i < n → Att s i

theorem headD_mem (sec : Nat) (st : List Nat) : st.headD sec ∈ sec :: st := by
  cases st <;> simp

theorem LInv.push {s : DState} {sec : Nat} {st : List Nat} {n0 n : Nat} (h : LInv s sec st n0 (n + 1))
    (hn : n0 ≤ n) (hk : (s.heap n).kind = .elem) : LInv s sec (n :: st) n0 (n + 1) := by
  refine ⟨h.good, h.top_lt, h.le, h.blank, ?_, ?_⟩
  · intro p hp
    rcases List.mem_cons.mp hp with e | e
    · exact h.open_elem p (by simp [e])
    · rcases List.mem_cons.mp e with e | e
      · subst e; exact ⟨by omega, hk⟩
      · exact h.open_elem p (by simp [e])
  · intro p hp
    rcases List.mem_cons.mp hp with e | e
    · subst e; exact hn
    · exact h.open_new p e

theorem LInv.pop {s : DState} {sec c : Nat} {st : List Nat} {n0 n : Nat} (h : LInv s sec (c :: st) n0 n) :
    LInv s sec st n0 n := by
  refine ⟨h.good, h.top_lt, h.le, h.blank, ?_, ?_⟩
  · intro p hp
    rcases List.mem_cons.mp hp with e | e
    · exact h.open_elem p (by simp [e])
    · exact h.open_elem p (by simp [e])
  · intro p hp; exact h.open_new p (by simp [hp])

/-- another element of the same state as the section; nothing open (used for `skeleton`) -/
theorem LInv.rebase {s : DState} {sec : Nat} {st : List Nat} {n0 n : Nat} (h : LInv s sec st n0 n) {sec' : Nat}
    (hlt : sec' < n) (hk : (s.heap sec').kind = .elem) : LInv s sec' [] n n := by
  refine ⟨h.good, by have := h.top_lt; have := h.le; omega, Nat.le_refl _, h.blank, ?_, ?_⟩
  · intro p hp
    have : p = sec' := by simpa using hp
    subst this; exact ⟨hlt, hk⟩
  · intro p hp; cases hp

/-! ### `_child_attached` of a leaf cannot run out of the recursion budget -/

theorem childAttached_ok {p c : Nat} {s : DState} {l : List Nat} (hl : elemsUnder s.heap c = some l) :
    ((childAttached p c).run s).2 = .ok () := by
  unfold childAttached
  simp only [DomDoc.run_bind_rd]
  rw [DomDoc.run_bind, setOwnerRec_run, hl]
  simp only [DomDoc.run_bind_rd]
  obtain ⟨c1, _⟩ := foldOwned_view (s.owned p) l s
  rw [DomDoc.run_ite]
  generalize List.foldl (fun s_1 x => setOwned s_1 x (s.owned p)) s l = s2 at c1
  split
  · rw [rebuildCaches_run, c1, hl]
  · rfl

/-- `p.appendChild(c)` for a detached childless `c` (a new Text node, a new element): it succeeds, and the heap is
    the linked one up to attribute values -/
theorem appendLeaf_view {p c : Nat} {s s' : DState} {r : Except Err Unit}
    (hkp : (s.heap p).kind = .elem) (hdet : (s.heap c).parent = none) (hkids : (s.heap c).kids = []) (hcp : c ≠ p)
    (hrun : (DomDoc.appendChild p c).run s = (s', r)) :
    r = .ok () ∧ SameLinks (setNext (appRawHeap s.heap p c) c none) s'.heap ∧ s'.top = s.top := by
  unfold DomDoc.appendChild at hrun
  simp only [DomDoc.run_bind_rd] at hrun
  simp only [hkp, ne_eq, not_true, if_false] at hrun
  have hdrun : (DomDoc.detachIfAttached c).run s = (s, .ok ()) := by
    unfold DomDoc.detachIfAttached
    simp only [DomDoc.run_bind_rd, hdet]; rfl
  rw [DomDoc.run_bind, hdrun] at hrun
  simp only at hrun
  rw [run_bind_liftH, appendRaw_run] at hrun
  simp only at hrun
  rw [run_bind_liftH, Dom.run_upd] at hrun
  simp only at hrun
  have hl : ∃ l, elemsUnder (setNext (appRawHeap s.heap p c) c none) c = some l := by
    unfold elemsUnder
    show ∃ l, elems _ (399 + 1) c = some l
    rw [elems_succ, app_kids, if_neg hcp, hkids, elemsL_nil]
    split <;> simp
  obtain ⟨l, hl⟩ := hl
  have hok := childAttached_ok (p := p) (s := { s with heap := setNext (appRawHeap s.heap p c) c none }) hl
  rw [hrun] at hok
  rcases childAttached_view hrun with hrec | ⟨_, l', _, hs, ht, _, _⟩
  · rw [hrec] at hok; cases hok
  · exact ⟨hok, hs, ht⟩

/-- the new object `n` is appended to the section or to an open element -/
theorem appendLeaf_inv {s s' : DState} {r : Except Err Unit} {sec : Nat} {st : List Nat} {n0 n p : Nat}
    (hL : LInv s sec st n0 n) (hp : p ∈ sec :: st) (hrun : (DomDoc.appendChild p n).run s = (s', r)) :
    r = .ok () ∧ (¬ AncOrSelf s.heap n p ∧ n ≠ s.top) ∧ LInv s' sec st n0 (n + 1) ∧
      (s'.heap n).kind = (s.heap n).kind ∧ (LAtt s sec n0 n → LAtt s' sec n0 (n + 1)) := by
  obtain ⟨hpn, hkp⟩ := hL.open_elem p hp
  have hb := hL.blank n (Nat.le_refl _)
  have hnp : n ≠ p := by omega
  have hnt : n ≠ s.top := by have := hL.top_lt; have := hL.le; omega
  obtain ⟨hok, hs, ht⟩ := appendLeaf_view hkp hb.1 hb.2 hnp hrun
  have hno : ¬ AncOrSelf s.heap n p := fun ha => hnp (AncOrSelf.eq_of_no_kids hL.good.1 hb.2 ha).symm
  have hG' : Good s' := appendChild_good hL.good hno hnt hrun (by rw [hok]; intro h; cases h)
  have hpar : ∀ y : Nat, (s'.heap y).parent = if y = n then some p else (s.heap y).parent := by
    intro y; rw [(hs y).2.1, app_parent]
  have hkids : ∀ y : Nat, (s'.heap y).kids = if y = p then (s.heap p).kids ++ [n] else (s.heap y).kids := by
    intro y; rw [(hs y).1, app_kids]
  have hkind : ∀ y : Nat, (s'.heap y).kind = (s.heap y).kind := by
    intro y; rw [(hs y).2.2.2.2.1, app_kind]
  refine ⟨hok, ⟨hno, hnt⟩, ⟨hG', by rw [ht]; exact hL.top_lt, by have := hL.le; omega, ?_, ?_, hL.open_new⟩, hkind n, ?_⟩
  · intro i hi
    have hbi := hL.blank i (by omega)
    constructor
    · rw [hpar, if_neg (by omega)]; exact hbi.1
    · rw [hkids, if_neg (by omega)]; exact hbi.2
  · intro q hq
    obtain ⟨a, b⟩ := hL.open_elem q hq
    exact ⟨by omega, by rw [hkind]; exact b⟩
  · rintro ⟨hsec, hall⟩
    have mono : ∀ x, Att s x → Att s' x := by
      intro x hx
      unfold Att at *
      rw [ht]
      refine AncOrSelf.mono (h := s'.heap) (h' := s.heap) (fun y q hy => ?_) hx
      rw [hpar]
      split
      · rename_i e; subst e; rw [hb.1] at hy; cases hy
      · exact hy
    have hpa : Att s p := by
      rcases List.mem_cons.mp hp with e | e
      · subst e; exact hsec
      · exact hall p (hL.open_new p e) hpn
    refine ⟨mono _ hsec, fun i h1 h2 => ?_⟩
    by_cases hi : i = n
    · subst hi
      exact AncOrSelf.step (by rw [hpar, if_pos rfl]) (mono _ hpa)
    · exact mono _ (hall i h1 (by omega))

/-! ### the single operations -/

/-- object creation at the next unused id -/
theorem initNode_linv {s : DState} {sec : Nat} {st : List Nat} {n0 n : Nat} (hL : LInv s sec st n0 n) (k : Kind) (qn : Nat) :
    LInv { s with heap := s.heap.set n { kind := k, qn := qn } } sec st n0 n ∧
    (LAtt s sec n0 n → LAtt { s with heap := s.heap.set n { kind := k, qn := qn } } sec n0 n) := by
  have hb := hL.blank n (Nat.le_refl _)
  have hnt : n ≠ s.top := by have := hL.top_lt; have := hL.le; omega
  have hpar : ∀ y, ((s.heap.set n { kind := k, qn := qn }) y).parent = (s.heap y).parent := by
    intro y; rw [Heap.set_apply]; split
    · rename_i e; subst e; exact hb.1.symm
    · rfl
  have hother : ∀ y, y ≠ n → (s.heap.set n { kind := k, qn := qn }) y = s.heap y :=
    fun y hy => Heap.set_other _ _ _ _ hy
  refine ⟨⟨initNode_good hL.good hb hnt k qn, hL.top_lt, hL.le, ?_, ?_, hL.open_new⟩, ?_⟩
  · intro i hi
    show Blank (s.heap.set n { kind := k, qn := qn }) i
    by_cases e : i = n
    · subst e; constructor <;> simp
    · unfold Blank; rw [hother i e]; exact hL.blank i hi
  · intro p hp
    obtain ⟨a, b⟩ := hL.open_elem p hp
    refine ⟨a, ?_⟩
    show ((s.heap.set n { kind := k, qn := qn }) p).kind = .elem
    rw [hother p (by omega)]; exact b
  · rintro ⟨hsec, hall⟩
    have hatt : ∀ x, Att { s with heap := s.heap.set n { kind := k, qn := qn } } x ↔ Att s x :=
      att_congr rfl hpar
    exact ⟨(hatt _).mpr hsec, fun i h1 h2 => (hatt _).mpr (hall i h1 h2)⟩

theorem newNode_run {s : DState} {n : Nat} (hb : Blank s.heap n) (k : Kind) (qn : Nat) :
    (stepD (.tree (.newNode n k qn))).run s = ({ s with heap := s.heap.set n { kind := k, qn := qn } }, .ok ()) := by
  simp only [stepD, Dom.step]
  rw [run_liftH, Dom.run_bind, fresh_run]
  simp only [hb, if_true, initNode_run]

theorem setAttrNS_run (s : DState) (e key v : Nat) :
    (stepD (.tree (.setAttrNS e key (.ok v)))).run s =
      ({ s with heap := setAttrs s.heap e (storeAttr key v (s.heap e).attrs) }, .ok ()) := rfl

theorem setAttrs_linv {s : DState} {sec : Nat} {st : List Nat} {n0 n : Nat} (hL : LInv s sec st n0 n) (e : Nat)
    (v : List (Nat × Nat)) :
    LInv { s with heap := setAttrs s.heap e v } sec st n0 n ∧
    (LAtt s sec n0 n → LAtt { s with heap := setAttrs s.heap e v } sec n0 n) := by
  refine ⟨⟨good_of_sameLinks hL.good (sameLinks_setAttrs _ _ _) rfl rfl rfl, hL.top_lt, hL.le, ?_, ?_, hL.open_new⟩, ?_⟩
  · intro i hi
    have := hL.blank i hi
    unfold Blank at *
    simpa using this
  · intro p hp
    obtain ⟨a, b⟩ := hL.open_elem p hp
    exact ⟨a, by simpa using b⟩
  · rintro ⟨hsec, hall⟩
    have hatt : ∀ x, Att { s with heap := setAttrs s.heap e v } x ↔ Att s x :=
      att_congr rfl (fun y => by simp)
    exact ⟨(hatt _).mpr hsec, fun i h1 h2 => (hatt _).mpr (hall i h1 h2)⟩

/-- the attribute loop of `Element.__init__` -/
theorem attrOps_linv (tk : QName → Nat) (tv : QName → Str → Nat) (e : Nat) {sec : Nat} {st : List Nat} {n0 n : Nat} :
    ∀ (a : List (QName × Str)) (s : DState), LInv s sec st n0 n →
      HistoryOk s (attrOps tk tv e a) ∧ LInv (runD s (attrOps tk tv e a)) sec st n0 n ∧
      (∀ y, ((runD s (attrOps tk tv e a)).heap y).kind = (s.heap y).kind) ∧
      (LAtt s sec n0 n → LAtt (runD s (attrOps tk tv e a)) sec n0 n) := by
  intro a
  induction a with
  | nil => intro s hL; exact ⟨trivial, hL, fun _ => rfl, id⟩
  | cons kv r ih =>
    intro s hL
    obtain ⟨k, v⟩ := kv
    obtain ⟨h1, h2⟩ := setAttrs_linv hL e (storeAttr (tk k) (tv k v) (s.heap e).attrs)
    obtain ⟨i1, i2, i3, i4⟩ := ih _ h1
    refine ⟨?_, ?_, ?_, ?_⟩
    · refine ⟨trivial, ?_, ?_⟩
      · rw [setAttrNS_run]; intro h; cases h
      · simpa only [setAttrNS_run] using i1
    · simpa only [attrOps, runD, setAttrNS_run] using i2
    · intro y
      have := i3 y
      simp only [attrOps, runD, setAttrNS_run] at this ⊢
      rw [this]; simp
    · intro hA
      have := i4 (h2 hA)
      simpa only [attrOps, runD, setAttrNS_run] using this

/-- `par.addText(content, check_grammar=False)` with a non-empty content -/
theorem addText_step {s : DState} {sec : Nat} {st : List Nat} {n0 n p : Nat} (hL : LInv s sec st n0 n)
    (hp : p ∈ sec :: st) :
    HistoryOk s [.tree (.addText p n true true)] ∧
    LInv (runD s [.tree (.addText p n true true)]) sec st n0 (n + 1) ∧
    (LAtt s sec n0 n → LAtt (runD s [.tree (.addText p n true true)]) sec n0 (n + 1)) := by
  have hb := hL.blank n (Nat.le_refl _)
  obtain ⟨hpn, _⟩ := hL.open_elem p hp
  have hnt : n ≠ s.top := by have := hL.top_lt; have := hL.le; omega
  rcases hrun : (stepD (.tree (.addText p n true true))).run s with ⟨s', r⟩
  have hrun0 := hrun
  simp only [stepD] at hrun
  rw [DomDoc.run_bind, liftH_fresh_run] at hrun
  simp only [hb, if_true] at hrun
  unfold DomDoc.addText at hrun
  simp only [Bool.not_true, Bool.false_eq_true, if_false, if_true] at hrun
  rw [run_bind_liftH, initNode_run] at hrun
  obtain ⟨hL1, hA1⟩ := initNode_linv hL .text 0
  obtain ⟨hok, _, hL', _, hA'⟩ := appendLeaf_inv hL1 hp hrun
  have hs' : runD s [.tree (.addText p n true true)] = s' := by
    show ((stepD (.tree (.addText p n true true))).run s).1 = s'
    rw [hrun0]
  rw [hs']
  have hnp : n ≠ p := by omega
  refine ⟨historyOk_one ⟨hnp, hnt⟩ (by rw [hrun0]; exact hok), hL', fun hA => hA' (hA1 hA)⟩

/-- `par.addElement(e, check_grammar=False)` for the element `n` just created -/
theorem addElement_step {s : DState} {sec : Nat} {st : List Nat} {n0 n p : Nat} (hL : LInv s sec st n0 n)
    (hp : p ∈ sec :: st) (hk : (s.heap n).kind = .elem) :
    HistoryOk s [.tree (.addElement p n true)] ∧
    LInv (runD s [.tree (.addElement p n true)]) sec (n :: st) n0 (n + 1) ∧
    (LAtt s sec n0 n → LAtt (runD s [.tree (.addElement p n true)]) sec n0 (n + 1)) := by
  rcases hrun : (stepD (.tree (.addElement p n true))).run s with ⟨s', r⟩
  have hrun0 := hrun
  simp only [stepD] at hrun
  unfold DomDoc.addElement at hrun
  simp only [Bool.not_true, Bool.false_eq_true, if_false] at hrun
  obtain ⟨hok, hop, hL', hkind, hA'⟩ := appendLeaf_inv hL hp hrun
  have hs' : runD s [.tree (.addElement p n true)] = s' := by
    show ((stepD (.tree (.addElement p n true))).run s).1 = s'
    rw [hrun0]
  rw [hs']
  exact ⟨historyOk_one hop (by rw [hrun0]; exact hok), hL'.push hL.le (by rw [hkind]; exact hk), hA'⟩

theorem flush_step {s : DState} {sec : Nat} {st : List Nat} {n0 n p : Nat} (hL : LInv s sec st n0 n)
    (hp : p ∈ sec :: st) (pend : Bool) :
    HistoryOk s (flushOps p pend n) ∧
    LInv (runD s (flushOps p pend n)) sec st n0 (flushNext pend n) ∧
    (LAtt s sec n0 n → LAtt (runD s (flushOps p pend n)) sec n0 (flushNext pend n)) := by
  cases pend with
  | false => exact ⟨trivial, hL, id⟩
  | true => exact addText_step hL hp

/-- the four statement groups of `startElementNS` -/
theorem start_step (tq tk : QName → Nat) (tv : QName → Str → Nat) {s : DState} {sec : Nat} {st : List Nat} {n0 n : Nat}
    (hL : LInv s sec st n0 n) (pend : Bool) (q : QName) (a : List (QName × Str)) :
    let ops := flushOps (st.headD sec) pend n ++
      (.tree (.newNode (flushNext pend n) .elem (tq q)) :: attrOps tk tv (flushNext pend n) a) ++
      [.tree (.addElement (st.headD sec) (flushNext pend n) true)]
    HistoryOk s ops ∧ LInv (runD s ops) sec (flushNext pend n :: st) n0 (flushNext pend n + 1) ∧
    (LAtt s sec n0 n → LAtt (runD s ops) sec n0 (flushNext pend n + 1)) := by
  have hp := headD_mem sec st
  obtain ⟨f1, f2, f3⟩ := flush_step hL hp pend
  generalize flushNext pend n = e at *
  intro ops
  generalize hs1 : runD s (flushOps (st.headD sec) pend n) = s1 at *
  have hb := f2.blank e (Nat.le_refl _)
  have hnt : e ≠ s1.top := by have := f2.top_lt; have := f2.le; omega
  obtain ⟨g1, g2⟩ := initNode_linv f2 .elem (tq q)
  generalize hs2 : ({ s1 with heap := s1.heap.set e { kind := .elem, qn := tq q } } : DState) = s2 at *
  have hk2 : (s2.heap e).kind = .elem := by rw [← hs2]; show ((s1.heap.set e _) e).kind = .elem; simp
  have hnew : HistoryOk s1 [.tree (.newNode e .elem (tq q))] :=
    historyOk_one (show e ≠ s1.top from hnt) (by rw [newNode_run hb])
  have hrun2 : runD s1 [.tree (.newNode e .elem (tq q))] = s2 := by
    show ((stepD (.tree (.newNode e .elem (tq q)))).run s1).1 = s2
    rw [newNode_run hb, ← hs2]
  obtain ⟨a1, a2, a3, a4⟩ := attrOps_linv tk tv e a s2 g1
  generalize hs3 : runD s2 (attrOps tk tv e a) = s3 at *
  have hk3 : (s3.heap e).kind = .elem := by rw [a3, hk2]
  obtain ⟨b1, b2, b3⟩ := addElement_step a2 hp hk3
  have hsplit : ops = flushOps (st.headD sec) pend n ++ ([.tree (.newNode e .elem (tq q))] ++
      (attrOps tk tv e a ++ [.tree (.addElement (st.headD sec) e true)])) := by
    simp [ops]
  rw [hsplit]
  refine ⟨?_, ?_, ?_⟩
  · apply historyOk_append _ _ _ f1
    rw [hs1]
    apply historyOk_append _ _ _ hnew
    rw [hrun2]
    apply historyOk_append _ _ _ a1
    rw [hs3]; exact b1
  · rw [runD_append, hs1, runD_append, hrun2, runD_append, hs3]; exact b2
  · intro hA
    rw [runD_append, hs1, runD_append, hrun2, runD_append, hs3]
    exact b3 (a4 (g2 (f3 hA)))

/-! ### the whole event stream -/

/-- **C09 × C04 (loader invariant)**: the operations of a load are a history as C09's reachability theorem wants it
    (`HistoryOk`: side conditions met, no RecursionError) and keep the loader invariant; what the load created below an
    attached section is attached -/
theorem load_inv (tq tk : QName → Nat) (tv : QName → Str → Nat) (sec n0 : Nat) :
    ∀ (evs : List Event) (st : List Nat) (pend : Bool) (n : Nat) (s : DState), LInv s sec st n0 n →
      HistoryOk s (opsOfEvents tq tk tv sec st pend n evs) ∧
      LInv (runD s (opsOfEvents tq tk tv sec st pend n evs)) sec (endState st pend n evs).1 n0 (endState st pend n evs).2.2 ∧
      (LAtt s sec n0 n → LAtt (runD s (opsOfEvents tq tk tv sec st pend n evs)) sec n0 (endState st pend n evs).2.2) := by
  intro evs
  induction evs with
  | nil => intro st pend n s hL; exact ⟨trivial, hL, id⟩
  | cons ev r ih =>
    intro st pend n s hL
    cases ev with
    | chars c => exact ih st (pend || !c.isEmpty) n s hL
    | start q a =>
      obtain ⟨h1, h2, h3⟩ := start_step tq tk tv hL pend q a
      obtain ⟨i1, i2, i3⟩ := ih (flushNext pend n :: st) false (flushNext pend n + 1) _ h2
      simp only [opsOfEvents, endState]
      refine ⟨historyOk_append _ _ _ h1 i1, ?_, ?_⟩
      · rw [runD_append]; exact i2
      · intro hA; rw [runD_append]; exact i3 (h3 hA)
    | stop q =>
      cases st with
      | nil => exact ⟨trivial, hL, id⟩
      | cons c st' =>
        obtain ⟨h1, h2, h3⟩ := flush_step hL (p := c) (by simp) pend
        obtain ⟨i1, i2, i3⟩ := ih st' false (flushNext pend n) _ h2.pop
        simp only [opsOfEvents, endState]
        refine ⟨historyOk_append _ _ _ h1 i1, ?_, ?_⟩
        · rw [runD_append]; exact i2
        · intro hA; rw [runD_append]; exact i3 (h3 hA)

/-- **C09 × C04 (the loads are histories of C09)**: every operation LoadParser performs is one of the operations C09's
    step theorem quantifies over, with its side conditions met -/
theorem load_historyOk (tq tk : QName → Nat) (tv : QName → Str → Nat) {sec n0 : Nat} {s : DState}
    (hL : LInv s sec [] n0 n0) (evs : List Event) : HistoryOk s (opsOfEvents tq tk tv sec [] false n0 evs) :=
  (load_inv tq tk tv sec n0 evs [] false n0 s hL).1

/-- **C09 (loads)**: after the load the element index lists exactly the attached elements, each once, under its
    qname, and ownerDocument is set exactly on the attached elements — a corollary of C09's `coherent_runD` -/
theorem load_coherent (tq tk : QName → Nat) (tv : QName → Str → Nat) {sec n0 : Nat} {s : DState}
    (hL : LInv s sec [] n0 n0) (evs : List Event) : CohIdx (runD s (opsOfEvents tq tk tv sec [] false n0 evs)) :=
  (coherent_runD _ s hL.good (load_historyOk tq tk tv hL evs)).2.2

/-- **C09 (edits, then a load)**: a document reached from a fresh one by ANY history of C09, then loaded into: still a
    state of `coherent_reachable_partial` (the concatenated history meets `HistoryOk`) -/
theorem load_reachable (tq tk : QName → Nat) (tv : QName → Str → Nat) (q : Nat) (pre : List DOp)
    (hpre : HistoryOk (freshDoc q) pre) {sec n0 : Nat} (hL : LInv (runD (freshDoc q) pre) sec [] n0 n0)
    (evs : List Event) :
    HistoryOk (freshDoc q) (pre ++ opsOfEvents tq tk tv sec [] false n0 evs) ∧
    Good (runD (freshDoc q) (pre ++ opsOfEvents tq tk tv sec [] false n0 evs)) := by
  have h := historyOk_append _ _ _ hpre (load_historyOk tq tk tv hL evs)
  exact ⟨h, coherent_reachable_partial q _ h⟩

/-- **C09 (document-level query after a load)**: `doc.getElementsByType(f)` returns exactly the attached elements of
    that qname, each once -/
theorem load_byType_exact (tq tk : QName → Nat) (tv : QName → Str → Nat) {sec n0 : Nat} {s : DState}
    (hL : LInv s sec [] n0 n0) (evs : List Event) (qn : Nat) {s' : DState} {l : List Nat}
    (hrun : (docByType qn).run (runD s (opsOfEvents tq tk tv sec [] false n0 evs)) = (s', .ok l)) :
    l.Nodup ∧ ∀ x, x ≠ s'.top → (x ∈ l ↔ Att s' x ∧ (s'.heap x).kind = .elem ∧ (s'.heap x).qn = qn) :=
  docByType_exact (coherent_runD _ s hL.good (load_historyOk tq tk tv hL evs)) hrun

/-- **C09 (what was loaded is found)**: below an attached section every node the load created is attached, and every
    element among them is listed in the index under its qname -/
theorem load_loaded_listed (tq tk : QName → Nat) (tv : QName → Str → Nat) {sec n0 : Nat} {s : DState}
    (hL : LInv s sec [] n0 n0) (hsec : Att s sec) (evs : List Event) (x : Nat) (h0 : n0 ≤ x)
    (h1 : x < (endState [] false n0 evs).2.2) :
    let s' := runD s (opsOfEvents tq tk tv sec [] false n0 evs)
    Att s' x ∧ ((s'.heap x).kind = .elem → x ∈ ed s' (s'.heap x).qn) := by
  intro s'
  obtain ⟨_, hL', hA'⟩ := load_inv tq tk tv sec n0 evs [] false n0 s hL
  have hA := hA' ⟨hsec, fun i a b => absurd a (by omega)⟩
  have hx : Att s' x := hA.2 x h0 h1
  refine ⟨hx, fun hk => ?_⟩
  have hne : x ≠ s'.top := by have : n0 > s'.top := hL'.top_lt; omega
  exact (hL'.good.2.2.mem_iff _ x hne).mpr ⟨hx, hk, rfl⟩

/-! ### the document `OpenDocument.__init__` leaves: the hypotheses are satisfiable -/

theorem linv_fresh (q : Nat) : LInv (freshDoc q) 0 [] 1 1 := by
  refine ⟨good_fresh q, ?_, Nat.le_refl _, ?_, ?_, ?_⟩
  · show 1 > (fresh0 q).top
    exact Nat.one_pos
  · intro i hi
    rw [freshDoc_eq]
    show Blank (Heap.empty.set 0 { kind := .elem, qn := q }) i
    have hi0 : i ≠ 0 := by omega
    unfold Blank
    rw [Heap.set_other _ _ _ _ hi0]
    exact ⟨rfl, rfl⟩
  · intro p hp
    have : p = 0 := by simpa using hp
    subst this
    exact ⟨Nat.one_pos, by rw [freshDoc_eq]; show ((Heap.empty.set 0 { kind := .elem, qn := q }) 0).kind = .elem; simp⟩
  · intro p hp; cases hp

/-- example tokens: style:style, office:styles, office:automatic-styles, meta:generator as DomDoc fixes them -/
def tqEx (q : QName) : Nat :=
  if q = LoadSax.qStyle then QN_STYLE else if q = LoadSax.qStyles then QN_STYLES
  else if q = LoadSax.qAutoStyles then QN_AUTOSTYLES else if q = LoadSax.qGenerator then QN_GENERATOR
  else if q = LoadSax.qMeta then 10 else if q = LoadSax.qScripts then 11 else if q = LoadSax.qFontFace then 12
  else if q = LoadSax.qSettings then 13 else if q = LoadSax.qMaster then 14 else if q = LoadSax.qBody then 15
  else 100 + q.loc.length
def tkEx (k : QName) : Nat :=
  if k = LoadSax.aStyleName then KEY_STYLE_NAME else if k = LoadSax.aTextStyleName then KEY_TEXT_STYLE_NAME else 50
def tvEx (_ : QName) (v : Str) : Nat := v.length

/-- `self.meta = Meta(); self.topnode.addElement(self.meta)` … `self.body = Body(); self.topnode.addElement(self.body)`
    (add_generator=False, as `load` calls the constructor): as events below the top node -/
def secEvents : List Event :=
  [LoadSax.qMeta, LoadSax.qScripts, LoadSax.qFontFace, LoadSax.qSettings, LoadSax.qStyles, LoadSax.qAutoStyles,
    LoadSax.qMaster, LoadSax.qBody].flatMap (fun q => [.start q [], .stop q])

/-- the document as `OpenDocument.__init__` leaves it: top node 0, the sections meta 1, scripts 2, font-face-decls 3,
    settings 4, styles 5, automatic-styles 6, master-styles 7, body 8 -/
def skeleton : DState := runD (freshDoc 9) (opsOfEvents tqEx tkEx tvEx 0 [] false 1 secEvents)

/-- **the hypotheses of the load theorems hold for a new document**, for each of its eight sections, with 9 as the
    first unused id -/
theorem skeleton_linv (sec : Nat) (h1 : 1 ≤ sec) (h8 : sec ≤ 8) : LInv skeleton sec [] 9 9 ∧ Att skeleton sec := by
  obtain ⟨_, hL, hA⟩ := load_inv tqEx tkEx tvEx 0 1 secEvents [] false 1 (freshDoc 9) (linv_fresh 9)
  have he : endState [] false 1 secEvents = ([], false, 9) := by decide
  simp only [he] at hL hA
  have hatt := (hA ⟨AncOrSelf.refl, fun i a b => absurd a (by omega)⟩).2 sec h1 (by omega)
  have hcases : sec = 1 ∨ sec = 2 ∨ sec = 3 ∨ sec = 4 ∨ sec = 5 ∨ sec = 6 ∨ sec = 7 ∨ sec = 8 := by omega
  refine ⟨hL.rebase (by omega) ?_, hatt⟩
  rcases hcases with e | e | e | e | e | e | e | e <;> subst e <;> decide +kernel

/-! ### a concrete load: `<text:p text:style-name="x"><text:span>ab</text:span>cd</text:p>` inside office:body -/

def qP : QName := ⟨LoadSax.TEXTNS, [112]⟩
def qSpan : QName := ⟨LoadSax.TEXTNS, [115, 112, 97, 110]⟩
def exEvents : List Event :=
  [.start qP [(LoadSax.aTextStyleName, [120])], .start qSpan [], .chars [97, 98], .stop qSpan, .chars [99], .chars [100],
   .stop qP]

/-- the DOM calls of this load -/
example : opsOfEvents tqEx tkEx tvEx 8 [] false 9 exEvents =
    [.tree (.newNode 9 .elem 101), .tree (.setAttrNS 9 KEY_TEXT_STYLE_NAME (.ok 1)), .tree (.addElement 8 9 true),
     .tree (.newNode 10 .elem 104), .tree (.addElement 9 10 true),
     .tree (.addText 10 11 true true), .tree (.addText 9 12 true true)] := by rfl

/-- after it: the tree below office:body, the index lists, ownerDocument, and the two queries -/
example :
    let s := runD skeleton (opsOfEvents tqEx tkEx tvEx 8 [] false 9 exEvents)
    (s.heap 8).kids = [9] ∧ (s.heap 9).kids = [10, 12] ∧ (s.heap 10).kids = [11] ∧
    ed s 101 = [9] ∧ ed s 104 = [10] ∧ ed s 15 = [8] ∧ s.owned 9 = true ∧ s.owned 10 = true ∧ s.owned 11 = false ∧
    endState [] false 9 exEvents = ([], false, 13) := by decide +kernel

example : ((docByType 104).run (runD skeleton (opsOfEvents tqEx tkEx tvEx 8 [] false 9 exEvents))).2.toOption = some [10] := by
  decide +kernel

/-! ### refinement: the DOM calls are the construction script of the forest LoadSax builds -/

mutual
/-- the DOM calls that build a node below `par`, ids from `n` on, in document order: the element is created, gets its
    attributes, is attached, then its children are built; a text node is one `addText` -/
def buildN (tq tk : QName → Nat) (tv : QName → Str → Nat) (par n : Nat) : Node → List DOp × Nat
  | .text _ => ([.tree (.addText par n true true)], n + 1)
  | .cdata _ => ([.tree (.addText par n true true)], n + 1)
  | .elem q a kids =>
    ((.tree (.newNode n .elem (tq q)) :: attrOps tk tv n a) ++ [.tree (.addElement par n true)] ++
       (buildF tq tk tv n (n + 1) kids).1, (buildF tq tk tv n (n + 1) kids).2)
def buildF (tq tk : QName → Nat) (tv : QName → Str → Nat) (par n : Nat) : Forest → List DOp × Nat
  | .nil => ([], n)
  | .cons h t =>
    ((buildN tq tk tv par n h).1 ++ (buildF tq tk tv par (buildN tq tk tv par n h).2 t).1,
     (buildF tq tk tv par (buildN tq tk tv par n h).2 t).2)
end

section refinement
variable (tq tk : QName → Nat) (tv : QName → Str → Nat)

theorem buildF_appF (par : Nat) : ∀ (a b : Forest) (n : Nat),
    buildF tq tk tv par n (LoadSax.appF a b) =
      ((buildF tq tk tv par n a).1 ++ (buildF tq tk tv par (buildF tq tk tv par n a).2 b).1,
       (buildF tq tk tv par (buildF tq tk tv par n a).2 b).2)
  | .nil, b, n => by simp [LoadSax.appF, buildF]
  | .cons h t, b, n => by
    simp only [LoadSax.appF, buildF]
    rw [buildF_appF par t b]
    simp

theorem buildF_flushT (par n : Nat) (acc : Str) (f : Forest) :
    buildF tq tk tv par n (flushT acc f) =
      (flushOps par (!acc.isEmpty) n ++ (buildF tq tk tv par (flushNext (!acc.isEmpty) n) f).1,
       (buildF tq tk tv par (flushNext (!acc.isEmpty) n) f).2) := by
  unfold flushT flushOps flushNext
  by_cases h : acc.isEmpty = true
  · simp [h]
  · simp [h, buildF, buildN]

theorem pend_append (acc s : Str) : (!acc.isEmpty || !s.isEmpty) = !(acc ++ s).isEmpty := by
  cases acc <;> cases s <;> simp

/-- **C09 × C04 (the two models of the loader agree on the tree, at the level of DOM calls)**: for the events of ANY
    forest `f`, read with pending character data `acc` below the section or an open element, `opsOfEvents` emits exactly
    the construction script `buildF` of `(mergeK acc f).1` — the forest that LoadSax's `run_forest` (Props/C04) shows
    LoadParser appends to the parent — leaves `(mergeK acc f).2` pending, and goes on with the remaining events.
    `_partial`: see the header (no read-back from the heap; character data and rewritten attribute values not compared). -/
theorem load_tree_eq_partial (sec : Nat) : (f : Forest) → (st : List Nat) → (acc : Str) → (n : Nat) → (rest : List Event) →
    opsOfEvents tq tk tv sec st (!acc.isEmpty) n (evF f ++ rest) =
      (buildF tq tk tv (st.headD sec) n (C04.mergeK acc f).1).1 ++
        opsOfEvents tq tk tv sec st (!(C04.mergeK acc f).2.isEmpty)
          (buildF tq tk tv (st.headD sec) n (C04.mergeK acc f).1).2 rest
  | .nil, st, acc, n, rest => by simp [evF, C04.mergeK, buildF]
  | .cons (.text s) t, st, acc, n, rest => by
    simp only [evF, evN, List.cons_append, List.nil_append, opsOfEvents, C04.mergeK]
    rw [pend_append]
    exact load_tree_eq_partial sec t st (acc ++ s) n rest
  | .cons (.cdata s) t, st, acc, n, rest => by
    simp only [evF, evN, List.cons_append, List.nil_append, opsOfEvents, C04.mergeK]
    rw [pend_append]
    exact load_tree_eq_partial sec t st (acc ++ s) n rest
  | .cons (.elem q a kids) t, st, acc, n, rest => by
    have ihk := load_tree_eq_partial sec kids (flushNext (!acc.isEmpty) n :: st) [] (flushNext (!acc.isEmpty) n + 1)
      (.stop q :: (evF t ++ rest))
    have iht := fun n2 => load_tree_eq_partial sec t st [] n2 rest
    simp only [List.isEmpty_nil, Bool.not_true, List.headD_cons] at ihk iht
    simp only [evF, evN, List.cons_append, List.append_assoc, List.nil_append, opsOfEvents, C04.mergeK]
    rw [ihk]
    simp only [opsOfEvents]
    rw [iht, buildF_flushT]
    simp only [buildF, buildN, C04.mergeTF_eq [] kids, buildF_appF, buildF_flushT]
    simp [List.append_assoc]

/-- the whole content of a section, nothing pending before it -/
theorem load_tree_eq_section_partial (sec n : Nat) (f : Forest) :
    opsOfEvents tq tk tv sec [] false n (evF f) = (buildF tq tk tv sec n (C04.mergeK [] f).1).1 := by
  have h := load_tree_eq_partial tq tk tv sec f [] [] n []
  simpa [opsOfEvents] using h

/-- **the two models side by side**: under the hypotheses of C04's `run_forest` (inside a section, no style renamed),
    LoadSax's parser appends the forest `(mergeK data f).1` to the parent (`C04.result`), and the DomDoc operations of
    the same events are the construction script of that very forest -/
theorem load_models_agree_partial (sec n : Nat) (st : List Nat) (f : Forest) (ls : LoadSax.St)
    (hp : ls.parsing = true) (hsk : ls.skip = 0) (hd : 2 ≤ ls.depth) (hok : C04.ParentOK ls) (hf : ls.fix = [])
    (hnt : ls.spine ≠ [] ∨ ls.root ≠ .sec .fontFace)
    (hfr : C04.fresh ls.names (C04.regAllF (LoadSax.parentQ ls) f) = true) :
    LoadSax.run ls (evF f) = some (C04.result ls f) ∧
    opsOfEvents tq tk tv sec st (!ls.data.isEmpty) n (evF f) =
      (buildF tq tk tv (st.headD sec) n (C04.mergeK ls.data f).1).1 := by
  refine ⟨C04.run_forest f ls hp hsk hd hok hf hnt hfr, ?_⟩
  have h := load_tree_eq_partial tq tk tv sec f st ls.data n []
  simpa [opsOfEvents] using h

end refinement

end OdfModel.Props.C09Load

/-
  `extras_carried` of property C05, re-pointed to the package layer (lean/OdfModel/Pkg.lean as of fix d51bb64:
  recursive load, save by folder).  It is `OdfModel.Props.C16.load_carries_files`; the top-level special case that
  the old statement covered is `extras_carried_top`.  Imported by Props/C05.lean.
-/
import OdfModel.Props.C16
namespace OdfModel.Props.C05
open OdfModel OdfModel.Pkg

/-- **C05 (extras_carried)**: for every package that loads, every manifest entry that `load` does not interpret —
    not a picture, the thumbnail, one of the parsed parts (content/styles/settings.xml of any sub-document, the top
    meta.xml, a folder entry of a sub-document), or one of the entries `save` writes afresh ("/", "Thumbnails/",
    mimetype, the manifest) — at the top level or below a sub-document folder of ANY depth (`chainOf` = the folder of
    the sub-document the key belongs to; e.g. "Object 1/meta.xml", "Object 12/Object 1/Configurations2/x") is in the
    manifest of the re-saved package under the same path with the same media type and, unless its name ends in "/",
    a member with the very bytes the source held; META-INF/documentsignatures.xml excepted. -/
theorem extras_carried (p : Package) (d : Pkg.Doc) (hl : load p = some d) (e : Str × Str)
    (he : e ∈ manifestlist p.manifest)
    (ho : isKept (chainOf ((manifestlist p.manifest).map (·.1)) e.1) e = true)
    (hs : e.1.drop (chainOf ((manifestlist p.manifest).map (·.1)) e.1).length ≠ sDocSig) :
    (∃ fl, (⟨e.1, e.2, fl⟩ : ME) ∈ (save d).man) ∧
    ((e.1.drop (chainOf ((manifestlist p.manifest).map (·.1)) e.1).length).getLast? ≠ some 47 →
      ∃ b, zread p.members e.1 = some b ∧ (⟨e.1, .deflated, [], .bytes b⟩ : ZE) ∈ (save d).zip) :=
  C16.load_carries_files p d hl e he ho hs

/-- a key that does not begin with "Object " is dispatched to the top document -/
theorem chainOf_top (keys : List Str) (k : Str) (h : (k.take 7 == sObjectSp) = false) : chainOf keys k = [] := by
  unfold chainOf
  cases k.length with
  | zero => rfl
  | succ n =>
    have : objComp k = none := by unfold objComp; simp [h]
    simp [chainEnd, this]

/-- the statement in its old, top-level form: an entry that is not below an "Object " folder and that the dispatch
    does not interpret is carried with path, media type and bytes -/
theorem extras_carried_top (p : Package) (d : Pkg.Doc) (hl : load p = some d) (e : Str × Str)
    (he : e ∈ manifestlist p.manifest) (h7 : (e.1.take 7 == sObjectSp) = false)
    (ho : isKept [] e = true) (hs : e.1 ≠ sDocSig) :
    (∃ fl, (⟨e.1, e.2, fl⟩ : ME) ∈ (save d).man) ∧
    (e.1.getLast? ≠ some 47 → ∃ b, zread p.members e.1 = some b ∧ (⟨e.1, .deflated, [], .bytes b⟩ : ZE) ∈ (save d).zip) := by
  have hc := chainOf_top ((manifestlist p.manifest).map (·.1)) e.1 h7
  have := extras_carried p d hl e he (by rw [hc]; exact ho) (by rw [hc]; simpa using hs)
  rw [hc] at this
  simpa using this

end OdfModel.Props.C05

/-
  `extras_carried` of property C05, re-pointed to the package layer (lean/OdfModel/Pkg.lean as of fix d51bb64:
  recursive load, save by folder).  It is `OdfModel.Props.C16.load_carries_files`; the top-level special case that
  the old statement covered is `extras_carried_top`.  Imported by Props/C05.lean.
-/
import OdfModel.Props.C16
namespace OdfModel.Props.C05
open OdfModel OdfModel.Pkg

/-- **C05 (extras_carried)**: for every package that loads, every manifest entry that `load` does not interpret —
    not a picture, the thumbnail, one of the parsed parts (content/styles/settings.xml of any sub-document, the top
    meta.xml, a folder entry of a sub-document), or one of the entries `save` writes afresh ("/", "Thumbnails/",
    mimetype, the manifest) — at the top level or below a sub-document folder of ANY depth (`chainOf` = the folder of
    the sub-document the key belongs to; e.g. "Object 1/meta.xml", "Object 12/Object 1/Configurations2/x") is in the
    manifest of the re-saved package under the same path with the same media type and, unless its name ends in "/",
    a member with the very bytes the source held; META-INF/documentsignatures.xml excepted. -/
theorem extras_carried (p : Package) (d : Pkg.Doc) (hl : load p = some d) (e : Str × Str)
    (he : e ∈ manifestlist p.manifest)
    (ho : isKept (chainOf ((manifestlist p.manifest).map (·.1)) e.1) e = true)
    (hs : e.1.drop (chainOf ((manifestlist p.manifest).map (·.1)) e.1).length ≠ sDocSig) :
    (∃ fl, (⟨e.1, e.2, fl⟩ : ME) ∈ (save d).man) ∧
    ((e.1.drop (chainOf ((manifestlist p.manifest).map (·.1)) e.1).length).getLast? ≠ some 47 →
      ∃ b, zread p.members e.1 = some b ∧ (⟨e.1, .deflated, [], .bytes b⟩ : ZE) ∈ (save d).zip) :=
  C16.load_carries_files p d hl e he ho hs

/-- a key that does not begin with "Object " is dispatched to the top document -/
theorem chainOf_top (keys : List Str) (k : Str) (h : (k.take 7 == sObjectSp) = false) : chainOf keys k = [] := by
  unfold chainOf
  cases k.length with
  | zero => rfl
  | succ n =>
    have : objComp k = none := by unfold objComp; simp [h]
    simp [chainEnd, this]

/-- the statement in its old, top-level form: an entry that is not below an "Object " folder and that the dispatch
    does not interpret is carried with path, media type and bytes -/
theorem extras_carried_top (p : Package) (d : Pkg.Doc) (hl : load p = some d) (e : Str × Str)
    (he : e ∈ manifestlist p.manifest) (h7 : (e.1.take 7 == sObjectSp) = false)
    (ho : isKept [] e = true) (hs : e.1 ≠ sDocSig) :
    (∃ fl, (⟨e.1, e.2, fl⟩ : ME) ∈ (save d).man) ∧
    (e.1.getLast? ≠ some 47 → ∃ b, zread p.members e.1 = some b ∧ (⟨e.1, .deflated, [], .bytes b⟩ : ZE) ∈ (save d).zip) := by
  have hc := chainOf_top ((manifestlist p.manifest).map (·.1)) e.1 h7
  have := extras_carried p d hl e he (by rw [hc]; exact ho) (by rw [hc]; simpa using hs)
  rw [hc] at this
  simpa using this

/-! ### Listed members BELOW an object folder (round 6)

The seeded fault class "a name that means something at the top of a package is also given its top-level meaning below
an object folder" (the preview `Object 1/Thumbnails/thumbnail.png`, its folder entry, an object's own `mimetype`,
`META-INF/manifest.xml`, `meta.xml` ...).  In the model the dispatch compares the names with a special meaning against the
FULL path, so below an object folder only pictures and the parsed parts are interpreted. -/

/-- a path below an object folder (it starts with `O`) is none of the full paths the dispatch knows -/
theorem below_object_ne (P' rest t : Str) (ht : t.head? ≠ some 79) : ((79 :: P') ++ rest == t) = false := by
  rw [beq_eq_false_iff_ne]
  intro h
  rw [← h] at ht
  simp at ht

/-- **C05 (isKept_below_object)**: for an entry below an object folder `P` ("Object …/"), the dispatch keeps EVERY
    listed member as it is, except pictures and the parts it parses (content / styles / settings.xml, the folder entry
    itself): whatever the name below the folder is - `Thumbnails/thumbnail.png`, `Thumbnails/`, `mimetype`,
    `META-INF/manifest.xml`, `meta.xml`, `layout-cache` ... -/
theorem isKept_below_object (P rest mt : Str) (hO : P.head? = some 79) :
    isKept P (P ++ rest, mt) = (!isPicturePath rest && !isParsedPart rest) := by
  obtain ⟨P', rfl⟩ : ∃ P', P = 79 :: P' := by
    cases P with
    | nil => simp at hO
    | cons a P' => simp at hO; exact ⟨P', by rw [hO]⟩
  have hd : ((79 :: P') ++ rest).drop (79 :: P').length = rest := List.drop_left
  unfold isKept isRegenerated
  simp only [hd]
  rw [below_object_ne P' rest sThumb (by decide), below_object_ne P' rest sMeta (by decide),
      below_object_ne P' rest sSlash (by decide), below_object_ne P' rest sThumbDir (by decide),
      below_object_ne P' rest sMimetype (by decide), below_object_ne P' rest sManifestPath (by decide)]
  simp

/-- **C05 (object_member_carried)**: a listed member `P ++ rest` that the chain of object folders assigns to the
    sub-document in `P` ("Object …/", any depth) and that is neither a picture nor a parsed part of that sub-document is
    listed in the re-saved package under the same path with the same media type and, unless it is a folder name, stored
    with the very bytes of the source - in particular the object's own preview `Thumbnails/thumbnail.png` and the folder
    entry `Thumbnails/` (`object_preview_carried`). -/
theorem object_member_carried (p : Package) (d : Pkg.Doc) (hl : load p = some d) (P rest mt : Str)
    (he : (P ++ rest, mt) ∈ manifestlist p.manifest)
    (hc : chainOf ((manifestlist p.manifest).map (·.1)) (P ++ rest) = P) (hO : P.head? = some 79)
    (hpic : isPicturePath rest = false) (hpart : isParsedPart rest = false) (hs : rest ≠ sDocSig) :
    (∃ fl, (⟨P ++ rest, mt, fl⟩ : ME) ∈ (save d).man) ∧
    (rest.getLast? ≠ some 47 →
      ∃ b, zread p.members (P ++ rest) = some b ∧ (⟨P ++ rest, .deflated, [], .bytes b⟩ : ZE) ∈ (save d).zip) := by
  have hd : (P ++ rest).drop P.length = rest := List.drop_left
  have := extras_carried p d hl (P ++ rest, mt) he
    (by simp only [hc]; rw [isKept_below_object P rest mt hO, hpic, hpart]; rfl)
    (by simp only [hc, hd]; exact hs)
  simp only [hc, hd] at this
  exact this

/-- the preview image of an embedded object and its folder entry -/
theorem object_preview_carried (p : Package) (d : Pkg.Doc) (hl : load p = some d) (P mt : Str)
    (he : (P ++ sThumb, mt) ∈ manifestlist p.manifest)
    (hc : chainOf ((manifestlist p.manifest).map (·.1)) (P ++ sThumb) = P) (hO : P.head? = some 79) :
    (∃ fl, (⟨P ++ sThumb, mt, fl⟩ : ME) ∈ (save d).man) ∧
    ∃ b, zread p.members (P ++ sThumb) = some b ∧ (⟨P ++ sThumb, .deflated, [], .bytes b⟩ : ZE) ∈ (save d).zip := by
  have h := object_member_carried p d hl P sThumb mt he hc hO (by decide) (by decide) (by decide)
  exact ⟨h.1, h.2 (by decide)⟩

/-- the hypotheses are satisfiable: "Object 1/" is such a folder, and `Thumbnails/` below it is kept too -/
example : isKept [79, 98, 106, 101, 99, 116, 32, 49, 47] ([79, 98, 106, 101, 99, 116, 32, 49, 47] ++ sThumbDir, []) = true := by
  rw [isKept_below_object _ _ _ (by decide)]; decide

end OdfModel.Props.C05

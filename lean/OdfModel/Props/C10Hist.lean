/-
  C10 over HISTORIES of one document object: saves that succeed, saves whose output fails part-way (the
  application keeps the document), edits that add automatic styles and content that refers to them, and the
  save that is finally judged.

  The model of `save()` (OdfModel/Styles.lean) reads the four containers of the document and nothing else:
  `OpenDocument` carries no field that `stylesxml()` / `contentxml()` / `_used_auto_styles` write.  A save,
  complete or aborted after any number of bytes, is therefore the identity on the modelled state (`step`).
  That this is what the real object does is checked by the correspondence of harness/c10.py, which takes real
  documents through such histories (file objects whose write() raises inside each member of the package,
  nodes that cannot be rendered) and sends the tree it ends with to the model.

  Proved here: the final save of any history writes what the first save of a never saved document with the
  same edits writes (`retry_like_first_save`); whatever was written before is still written after any
  additive history (`kept_after_history`); an automatic style added at any point of a history and referred to
  from body content / master-page content added at any point of it is written to content.xml / styles.xml by
  the final save (`new_style_kept_content`, `new_style_kept_styles`, and at full strength - every reference
  attribute of the schema - `new_style_kept_content_schema`, `new_style_kept_styles_schema`).
-/
import OdfModel.Props.C10
namespace OdfModel.Props.C10Hist
open OdfModel OdfModel.Styles OdfModel.Generated.StyleRefs OdfModel.Props.C10

def nameOf : Node → Nat
  | .elem n _ _ => n
  | .text _ => 0

/-- `container.addElement(k)`: `k` becomes the last child (the containers are always elements) -/
def addKid (n k : Node) : Node := .elem (nameOf n) (attrsOf n) (kidsOf n ++ [k])

/-- what the application does with the document object between two looks at it -/
inductive Op where
  /-- `save()` / `write()` that returns -/
  | save
  /-- `save()` / `write()` whose output raised after `written` bytes; the exception is caught, the object kept -/
  | failSave (written : Nat)
  /-- `doc.automaticstyles.addElement(e)` -/
  | addAuto (e : Node)
  /-- `doc.styles.addElement(k)` -/
  | addCommon (k : Node)
  /-- content added to the body -/
  | addBody (k : Node)
  /-- a master page (or a header / footer wrapped in one) added to the master styles -/
  | addMaster (k : Node)

def step (d : StyleDoc) : Op → StyleDoc
  | .save => d
  | .failSave _ => d
  | .addAuto e => { d with auto := addKid d.auto e }
  | .addCommon k => { d with styles := addKid d.styles k }
  | .addBody k => { d with body := addKid d.body k }
  | .addMaster k => { d with master := addKid d.master k }

def run (d : StyleDoc) (h : List Op) : StyleDoc := h.foldl step d

def isEdit : Op → Bool
  | .save => false
  | .failSave _ => false
  | _ => true

theorem run_cons (d : StyleDoc) (op : Op) (h : List Op) : run d (op :: h) = run (step d op) h := rfl

theorem run_append (d : StyleDoc) (h1 h2 : List Op) : run d (h1 ++ h2) = run (run d h1) h2 := by
  simp [run, List.foldl_append]

/-- saves, complete or aborted, can be struck from a history -/
theorem run_edits_only (d : StyleDoc) (h : List Op) : run d h = run d (h.filter isEdit) := by
  induction h generalizing d with
  | nil => rfl
  | cons op r ih =>
    cases op <;> simp [List.filter, isEdit, run_cons, step, ih]

/-- **C10 (a retry behaves like a first save)**: after any history - saves that succeeded, saves that failed
    after any number of bytes, edits in between - both parts get exactly the automatic styles that the first
    save of a document writes which got the same edits and was never saved before. -/
theorem retry_like_first_save (C : Cfg) (d : StyleDoc) (h : List Op) :
    contentKept C (run d h) = contentKept C (run d (h.filter isEdit)) ∧
    stylesKept C (run d h) = stylesKept C (run d (h.filter isEdit)) := by
  rw [← run_edits_only]; exact ⟨rfl, rfl⟩

theorem kidsOf_addKid (n k : Node) : kidsOf (addKid n k) = kidsOf n ++ [k] := rfl

theorem step_kids_mono (d : StyleDoc) (op : Op) :
    kidsOf d.auto ⊆ kidsOf (step d op).auto ∧ kidsOf d.styles ⊆ kidsOf (step d op).styles ∧
    kidsOf d.body ⊆ kidsOf (step d op).body ∧ kidsOf d.master ⊆ kidsOf (step d op).master := by
  cases op <;> simp [step, kidsOf_addKid]

/-- nothing is ever taken out by an additive history -/
theorem run_kids_mono (d : StyleDoc) (h : List Op) :
    kidsOf d.auto ⊆ kidsOf (run d h).auto ∧ kidsOf d.styles ⊆ kidsOf (run d h).styles ∧
    kidsOf d.body ⊆ kidsOf (run d h).body ∧ kidsOf d.master ⊆ kidsOf (run d h).master := by
  induction h generalizing d with
  | nil => simp [run]
  | cons op r ih =>
    rw [run_cons]
    obtain ⟨a1, a2, a3, a4⟩ := step_kids_mono d op
    obtain ⟨b1, b2, b3, b4⟩ := ih (step d op)
    exact ⟨fun _ hx => b1 (a1 hx), fun _ hx => b2 (a2 hx), fun _ hx => b3 (a3 hx), fun _ hx => b4 (a4 hx)⟩

theorem mem_auto_of_added (d : StyleDoc) (h : List Op) (e : Node) (he : Op.addAuto e ∈ h) :
    e ∈ kidsOf (run d h).auto := by
  induction h generalizing d with
  | nil => cases he
  | cons op r ih =>
    rw [run_cons]
    rcases List.mem_cons.mp he with rfl | he
    · exact (run_kids_mono _ r).1 (by simp [step, kidsOf_addKid])
    · exact ih _ he

theorem mem_body_of_added (d : StyleDoc) (h : List Op) (k : Node) (hk : Op.addBody k ∈ h) :
    k ∈ kidsOf (run d h).body := by
  induction h generalizing d with
  | nil => cases hk
  | cons op r ih =>
    rw [run_cons]
    rcases List.mem_cons.mp hk with rfl | hk
    · exact (run_kids_mono _ r).2.2.1 (by simp [step, kidsOf_addKid])
    · exact ih _ hk

theorem mem_master_of_added (d : StyleDoc) (h : List Op) (k : Node) (hk : Op.addMaster k ∈ h) :
    k ∈ kidsOf (run d h).master := by
  induction h generalizing d with
  | nil => cases hk
  | cons op r ih =>
    rw [run_cons]
    rcases List.mem_cons.mp hk with rfl | hk
    · exact (run_kids_mono _ r).2.2.2 (by simp [step, kidsOf_addKid])
    · exact ih _ hk

/-- reachability only grows when children are added to the roots and to `office:automatic-styles` -/
theorem reach_mono {refs : Node → List Str} {roots roots' : List Node} {auto auto' : Node} {v : Str}
    (hroots : ∀ top ∈ roots, ∀ k ∈ kidsOf top, ∃ top' ∈ roots', k ∈ kidsOf top')
    (hauto : kidsOf auto ⊆ kidsOf auto') (hr : Reach refs roots auto v) : Reach refs roots' auto' v := by
  induction hr with
  | root htop hk hv =>
    obtain ⟨top', ht', hk'⟩ := hroots _ htop _ hk
    exact Reach.root ht' hk' hv
  | step _ he hs hv ih => exact Reach.step ih (hauto he) hs hv

/-- **C10 (what was written stays written)**: an automatic style that a save of `d` writes to a part is
    written to that part by the save that ends any additive history of `d` - whatever saves failed on the way. -/
theorem kept_after_history (C : Cfg) (d : StyleDoc) (h : List Op) (e : Node) :
    (e ∈ contentKept C d → e ∈ contentKept C (run d h)) ∧ (e ∈ stylesKept C d → e ∈ stylesKept C (run d h)) := by
  obtain ⟨m1, m2, m3, m4⟩ := run_kids_mono d h
  constructor
  · intro hk
    obtain ⟨he, v, hn, hr⟩ := (kept_iff C [d.styles, d.body] d.auto e).mp hk
    refine (kept_iff C [(run d h).styles, (run d h).body] (run d h).auto e).mpr ⟨m1 he, v, hn, reach_mono ?_ m1 hr⟩
    intro top ht k hk
    simp only [List.mem_cons, List.not_mem_nil, or_false] at ht
    rcases ht with rfl | rfl
    · exact ⟨_, by simp, m2 hk⟩
    · exact ⟨_, by simp, m3 hk⟩
  · intro hk
    obtain ⟨he, v, hn, hr⟩ := (kept_iff C [d.master] d.auto e).mp hk
    refine (kept_iff C [(run d h).master] (run d h).auto e).mpr ⟨m1 he, v, hn, reach_mono ?_ m1 hr⟩
    intro top ht k hk
    simp only [List.mem_cons, List.not_mem_nil, or_false] at ht
    subst ht
    exact ⟨_, by simp, m4 hk⟩

/-- **C10 (new style after a failed save, content.xml)**: an automatic style `e` named `v` that the
    application adds at some point of a history, and body content `k` referring to `v` (through the attributes
    the code follows) that it adds at some point, are enough: the save that ends the history writes `e` to
    content.xml - wherever in the history saves succeeded or failed. -/
theorem new_style_kept_content (C : Cfg) (d : StyleDoc) (h : List Op) (e k : Node) (v : Str)
    (he : Op.addAuto e ∈ h) (hk : Op.addBody k ∈ h) (hn : styleNameOf e = some v) (hv : v ∈ refsNode C k) :
    e ∈ contentKept C (run d h) :=
  (kept_iff C _ _ e).mpr ⟨mem_auto_of_added d h e he, v, hn,
    Reach.root (top := (run d h).body) (by simp) (mem_body_of_added d h k hk) hv⟩

/-- **C10 (new style after a failed save, styles.xml)**: the same for a master page (a footer, a header in
    it) added to the master styles. -/
theorem new_style_kept_styles (C : Cfg) (d : StyleDoc) (h : List Op) (e k : Node) (v : Str)
    (he : Op.addAuto e ∈ h) (hk : Op.addMaster k ∈ h) (hn : styleNameOf e = some v) (hv : v ∈ refsNode C k) :
    e ∈ stylesKept C (run d h) :=
  (kept_iff C _ _ e).mpr ⟨mem_auto_of_added d h e he, v, hn,
    Reach.root (top := (run d h).master) (by simp) (mem_master_of_added d h k hk) hv⟩

/-- full strength (content.xml): the reference may use ANY style-reference attribute of the schema -/
theorem new_style_kept_content_schema (d : StyleDoc) (h : List Op) (e k : Node) (v : Str)
    (hw : WellNamed codeCfg.sp (run d h).auto)
    (he : Op.addAuto e ∈ h) (hk : Op.addBody k ∈ h) (hn : styleNameOf e = some v)
    (hv : v ∈ refsNode (specCfg schemaSingle schemaListTyped) k) :
    e ∈ contentKept codeCfg (run d h) :=
  closure_kept_content (run d h) hw e v (mem_auto_of_added d h e he) hn
    (Reach.root (top := (run d h).body) (by simp) (mem_body_of_added d h k hk) hv)

/-- full strength (styles.xml) -/
theorem new_style_kept_styles_schema (d : StyleDoc) (h : List Op) (e k : Node) (v : Str)
    (hw : WellNamed codeCfg.sp (run d h).auto)
    (he : Op.addAuto e ∈ h) (hk : Op.addMaster k ∈ h) (hn : styleNameOf e = some v)
    (hv : v ∈ refsNode (specCfg schemaSingle schemaListTyped) k) :
    e ∈ stylesKept codeCfg (run d h) :=
  closure_kept_styles (run d h) hw e v (mem_auto_of_added d h e he) hn
    (Reach.root (top := (run d h).master) (by simp) (mem_master_of_added d h k hk) hv)

/-! ### Non-vacuity -/

/-- the document of `chain` (a header paragraph style `X` with a data style `Y` behind it); the first save
    breaks after 200 bytes (inside styles.xml); then a paragraph style `P` (80) for new body text and a
    paragraph style `M` (77), with a list style `L` (76) behind it, for a new footer; a second failure inside
    content.xml; the retry -/
def retryHistory : List Op :=
  [ .failSave 200,
    .addAuto (.elem 110 [(styleNameAttr, [80])] []),
    .addBody (.elem 111 [(tsn, [80])] []),
    .addAuto (.elem 110 [(styleNameAttr, [77]), (a_style_list_style_name, [76])] []),
    .addAuto (.elem 114 [(styleNameAttr, [76])] []),
    .failSave 900,
    .addMaster (.elem 120 [] [.elem 121 [] [.elem 111 [(tsn, [77])] []]]),
    .save ]

theorem retry_example :
    namesOf (contentKept codeCfg (run chain retryHistory)) = [some [80]] ∧
    namesOf (stylesKept codeCfg (run chain retryHistory)) = [some Y, some X, some [77], some [76]] := by
  decide

end OdfModel.Props.C10Hist

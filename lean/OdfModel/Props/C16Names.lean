/-
  Property C16 / C03 — the NAME `addObject` gives an object (model `OdfModel.Pkg.objectName`, `setFolder`).
  Input classes added in round 7 (harness/c16.py `gen_numbered_hist`, `gen_paths`; harness/c03.py `gen_numbered`):
    * explicit numbered names "Object 4", "Object 3" (descending / with gaps / equal to the next default name)
      followed by default names: the name chosen is FREE (`objectName_free`, all parents, all names), the default
      numbering steps over every taken name in whatever order the objects were attached (`descending_then_default`);
    * explicit names that are paths ("Charts/Sales") given to a holder that is attached afterwards: the holder's
      objects keep everything below the holder's folder, not only the last component (`setFolderKids_folder`,
      `path_name_inside_out`).
-/
import OdfModel.Pkg
import OdfModel.Props.C16
namespace OdfModel.Props.C16Names
open OdfModel OdfModel.Pkg OdfModel.Props.C16

/-- the names in use below a holder stored in `fo`: `f[len(self.folder)+1:]` for the folder `f` of EVERY object below the
    holder, at any depth (`_foldersBelow`; before the repair of KF-C16-3: of the direct objects only) -/
def usedNames (fo : Str) (kids : List Doc) : List Str := (objectsK 0 kids).map (fun q => q.2.folder.drop (fo.length + 1))

/-- the names of the direct objects (what `usedNames` was before the repair of KF-C16-3) are among them -/
theorem direct_names_used (fo : Str) (kids : List Doc) :
    ∀ x ∈ kids.map (fun c => c.folder.drop (fo.length + 1)), x ∈ usedNames fo kids := by
  intro x hx
  obtain ⟨c, hc, rfl⟩ := List.mem_map.mp hx
  obtain ⟨a, b, rfl⟩ := List.append_of_mem hc
  refine List.mem_map.mpr ⟨(stor 0 c, c), ?_, rfl⟩
  simp only [objectsK_append, objectsK, List.mem_append]
  right; left; rw [objects_head]; exact List.mem_cons_self

/-- **C16/C03 (`objectName_free`)**: whatever name `addObject` settles on (default or explicit, leading "/" or
    not, a path or not), it is not the folder — read below the holder — of any object below the holder, at any depth:
    for every holder, every tree of objects in every order, every requested name. (The other outcome is ValueError:
    nothing is attached.)  Stronger than before the repair of KF-C16-3, when it spoke of the direct objects only
    (`objectName_free_direct`). -/
theorem objectName_free (fo : Str) (kids : List Doc) (name : Option Str) (n : Str)
    (h : objectName fo kids name = some n) : n ∉ usedNames fo kids := by
  unfold objectName at h
  simp at h
  obtain ⟨h1, h2⟩ := h
  subst h2
  simpa [usedNames, usedBelow] using h1

/-- the statement as it was before the repair: the name is not the name of an object the parent already holds -/
theorem objectName_free_direct (fo : Str) (kids : List Doc) (name : Option Str) (n : Str)
    (h : objectName fo kids name = some n) : n ∉ kids.map (fun c => c.folder.drop (fo.length + 1)) :=
  fun hn => objectName_free fo kids name n h (direct_names_used fo kids n hn)

/-- **C16 (`attach_folder_fresh`)**: the folder a new object gets is not the folder of ANY object of the holder's tree —
    direct or nested at any depth (`q ∈ objectsK 0 kids`) — whose folder lies below the holder's (`hf`; true of every
    object of a tree built by `addObject`/`load`).  Before the repair of KF-C16-3 this held for the direct objects only
    (now `attach_folder_fresh_direct`), and `finding_path_name_equals_nested_folder` was a counter-example. -/
theorem attach_folder_fresh (fo : Str) (kids : List Doc) (name : Option Str) (n : Str)
    (h : objectName fo kids name = some n) (q : Str × Doc) (hq : q ∈ objectsK 0 kids)
    (hf : q.2.folder = fo ++ sSlash ++ q.2.folder.drop (fo.length + 1)) : q.2.folder ≠ fo ++ sSlash ++ n := by
  intro he
  apply objectName_free fo kids name n h
  have : q.2.folder.drop (fo.length + 1) = n := by
    have h2 := he
    rw [hf] at h2
    have h3 : (fo ++ sSlash) ++ q.2.folder.drop (fo.length + 1) = (fo ++ sSlash) ++ n := by simpa using h2
    exact List.append_cancel_left h3
  rw [← this]
  exact List.mem_map_of_mem hq

/-- the hypothesis `hf` of `attach_folder_fresh` is "the object's folder begins with the holder's folder and a slash" -/
theorem below_of_prefix (fo g : Str) (h : (fo ++ sSlash) <+: g) : g = fo ++ sSlash ++ g.drop (fo.length + 1) := by
  obtain ⟨t, rfl⟩ := h
  simp [sSlash]

/-- `attach_folder_fresh` for a holder whose objects all lie below its folder: the new folder is the folder of none of them -/
theorem attach_folder_fresh_tree (fo : Str) (kids : List Doc) (name : Option Str) (n : Str)
    (h : objectName fo kids name = some n) (hbelow : ∀ q ∈ objectsK 0 kids, (fo ++ sSlash) <+: q.2.folder) :
    fo ++ sSlash ++ n ∉ (objectsK 0 kids).map (fun q => q.2.folder) := by
  intro hm
  obtain ⟨q, hq, he⟩ := List.mem_map.mp hm
  exact attach_folder_fresh fo kids name n h q hq (below_of_prefix fo _ (hbelow q hq)) he

/-- the statement as it was before the repair (direct objects of the holder) -/
theorem attach_folder_fresh_direct (fo : Str) (kids : List Doc) (name : Option Str) (n : Str)
    (h : objectName fo kids name = some n) (c : Doc) (hc : c ∈ kids)
    (hf : c.folder = fo ++ sSlash ++ c.folder.drop (fo.length + 1)) : c.folder ≠ fo ++ sSlash ++ n := by
  obtain ⟨a, b, rfl⟩ := List.append_of_mem hc
  refine attach_folder_fresh fo _ name n h (stor 0 c, c) ?_ hf
  simp only [objectsK_append, objectsK, List.mem_append]
  right; left; rw [objects_head]; exact List.mem_cons_self

/-- `_setFolder`: every object of the moved document keeps the whole of its folder below the document's old
    folder (`c.folder[len(self.folder):]`), put behind the new folder -/
theorem setFolderKids_folder (folder : Str) (oldLen : Nat) :
    ∀ (ds : List Doc), (setFolderKids folder oldLen ds).map (·.folder) = ds.map (fun c => folder ++ c.folder.drop oldLen) := by
  intro ds
  induction ds with
  | nil => simp [setFolderKids]
  | cons c cs ih =>
    obtain ⟨id, mt, hs, pics, th, ex, fo, kids⟩ := c
    simp [setFolderKids, setFolder, ih]

/-- "Object 4" then "Object 3" (explicit, descending, nothing at 1 and 2), then two default names: the default
    numbering starts at 3, steps over 3 AND 4 and hands out "Object 5", then "Object 6"; asking for "Object 3" again
    is refused; every reference resolves, no member name occurs twice -/
theorem descending_then_default :
    let h0 : Hist := ⟨leaf 0 mtA, [leaf 1 mtB, leaf 2 mtA, leaf 3 mtB, leaf 4 mtA, leaf 5 mtB], []⟩
    let ops : List Op := [⟨0, 1, some (sObjectSp ++ [52])⟩, ⟨0, 2, some (sObjectSp ++ [51])⟩, ⟨0, 3, none⟩,
                          ⟨0, 5, some (sObjectSp ++ [51])⟩, ⟨0, 4, none⟩]
    (run h0 ops).map (fun h => (h.refs.map (fun x => (x.1, x.2.2)), allResolve h, decide (((save h.root).zip.map (·.name)).Nodup)))
      = some ([(1, [46, 47] ++ sObjectSp ++ [52]), (2, [46, 47] ++ sObjectSp ++ [51]), (3, [46, 47] ++ sObjectSp ++ [53]),
               (4, [46, 47] ++ sObjectSp ++ [54])], true, true) := by
  decide

/-- "Charts/Sales", "Tables/Sales" -/
def nChartsSales : Str := [67, 104, 97, 114, 116, 115, 47, 83, 97, 108, 101, 115]
def nTablesSales : Str := [84, 97, 98, 108, 101, 115, 47, 83, 97, 108, 101, 115]

/-- inside-out with path names: the holder 1 gets "Charts/Sales" and "Tables/Sales" (same last component), then is
    attached to the saved document: the two objects are stored in "Object 1/Charts/Sales/" and
    "Object 1/Tables/Sales/" (the references handed out, read below the holder's folder "Object 1/"), no member
    name occurs twice -/
theorem path_name_inside_out :
    let h0 : Hist := ⟨leaf 0 mtA, [leaf 1 mtB, leaf 2 mtA, leaf 3 mtB], []⟩
    let ops : List Op := [⟨1, 2, some nChartsSales⟩, ⟨1, 3, some nTablesSales⟩, ⟨0, 1, none⟩]
    (run h0 ops).map (fun h => (h.refs.map (fun x => (x.1, x.2.2)),
        hasMember (save h.root) (objPrefix 1 ++ nChartsSales ++ sSlash ++ sContent),
        hasMember (save h.root) (objPrefix 1 ++ nTablesSales ++ sSlash ++ sContent),
        hasMember (save h.root) (objPrefix 1 ++ [83, 97, 108, 101, 115] ++ sSlash ++ sContent),
        decide (((save h.root).zip.map (·.name)).Nodup)))
      = some ([(2, [46, 47] ++ nChartsSales), (3, [46, 47] ++ nTablesSales), (1, [46, 47] ++ sObjectSp ++ [49])],
              true, true, false, true) := by
  decide

/-- "Object 1/Object 1" -/
def nObj1Obj1 : Str := sObjectSp ++ [49] ++ sSlash ++ sObjectSp ++ [49]

/-- two documents of the tree with one `folder` attribute (`save` writes both to that folder) -/
def sharedFolder (d : Doc) : Bool := decide (¬ ((objectsK 0 d.children).map (fun q => q.2.folder)).Nodup)

/-- **(was finding KF-C16-3, `sig=path-name-equals-folder-of-nested-object`, repaired)**: 1 ← 3 ("./Object 1"), 0 ← 1
    ("./Object 1": 3 now lives in "Object 1/Object 1/"), then 0 ← 2 under the explicit name "Object 1/Object 1": refused
    (ValueError, nothing attached — the name is the folder of an object nested in a sibling); the same call under "Object 1/x"
    is accepted; no folder holds two documents, no member name occurs twice, every reference of the well-ordered tail resolves -/
theorem path_name_equals_nested_folder_refused :
    let h0 : Hist := ⟨leaf 0 mtA, [leaf 1 mtB, leaf 2 mtA, leaf 3 mtB], []⟩
    let ops : List Op := [⟨1, 3, none⟩, ⟨0, 1, none⟩, ⟨0, 2, some nObj1Obj1⟩]
    (match run h0 ops.dropLast with
      | some h => (match step h ⟨0, 2, some nObj1Obj1⟩ with | .valueError => true | _ => false)
      | none => false) = true ∧
    (run h0 (ops ++ [⟨0, 2, some (sObjectSp ++ [49] ++ sSlash ++ [120])⟩])).map (fun h => (h.refs.map (fun x => (x.1, x.2.2)), sharedFolder h.root,
        decide (((save h.root).zip.map (·.name)).Nodup)))
      = some ([(3, [46, 47] ++ sObjectSp ++ [49]), (1, [46, 47] ++ sObjectSp ++ [49]),
               (2, [46, 47] ++ sObjectSp ++ [49] ++ sSlash ++ [120])], false, true) := by
  decide

/-- the full-strength statement about attach histories: no two documents below the saved document share a folder -/
def NoTwoDocumentsInOneFolder : Prop :=
  ∀ (h0 : Hist) (ops : List Op) (h : Hist), Inv h0 → h0.root.children = [] → (∀ d ∈ h0.pool, d.children = [] ∧ d.folder = []) →
    run h0 ops = some h → sharedFolder h.root = false

/-- **finding KF-C16-10** (`sig=object-attached-into-folder-of-path-named-object`; what the repair of KF-C16-3 leaves): a
    holder compares a name with the folders BELOW ITSELF only.  0 ← 1 ("./Object 1"), 0 ← 2 under "Object 1/Object 1"
    (accepted: 1 holds nothing yet), then 1 ← 3 gets the default name "Object 1" (1 holds nothing, it cannot see 2):
    2 and 3 both have the folder "/Object 1/Object 1", every parent was attached first, `save` writes member names twice. -/
theorem finding_later_attach_shares_folder :
    let h0 : Hist := ⟨leaf 0 mtA, [leaf 1 mtB, leaf 2 mtA, leaf 3 mtB], []⟩
    let ops : List Op := [⟨0, 1, none⟩, ⟨0, 2, some nObj1Obj1⟩, ⟨1, 3, none⟩]
    (run h0 ops).map (fun h => (h.refs.map (fun x => (x.1, x.2.2)), parentsFirst h0 ops, sharedFolder h.root,
        decide (((save h.root).zip.map (·.name)).Nodup)))
      = some ([(1, [46, 47] ++ sObjectSp ++ [49]), (2, [46, 47] ++ nObj1Obj1), (3, [46, 47] ++ nObj1Obj1)], true, true, false) := by
  decide

theorem not_noTwoDocumentsInOneFolder : ¬ NoTwoDocumentsInOneFolder := by
  intro hall
  have h1 := finding_later_attach_shares_folder
  simp only at h1
  cases hr : run ⟨leaf 0 mtA, [leaf 1 mtB, leaf 2 mtA, leaf 3 mtB], []⟩ [⟨0, 1, none⟩, ⟨0, 2, some nObj1Obj1⟩, ⟨1, 3, none⟩] with
  | none => rw [hr] at h1; cases h1
  | some hh =>
    rw [hr] at h1
    have := hall _ _ hh (inv_fresh 0 mtA false [] none [] _) rfl (by decide) hr
    simp only [Option.map_some, Option.some.injEq, Prod.mk.injEq] at h1
    rw [this] at h1
    exact absurd h1.2.2.1 (by decide)

end OdfModel.Props.C16Names

/-
  Property C16 / C03 — the NAME `addObject` gives an object (model `OdfModel.Pkg.objectName`, `setFolder`).
  Input classes added in round 7 (harness/c16.py `gen_numbered_hist`, `gen_paths`; harness/c03.py `gen_numbered`):
    * explicit numbered names "Object 4", "Object 3" (descending / with gaps / equal to the next default name)
      followed by default names: the name chosen is FREE (`objectName_free`, all parents, all names), the default
      numbering steps over every taken name in whatever order the objects were attached (`descending_then_default`);
    * explicit names that are paths ("Charts/Sales") given to a holder that is attached afterwards: the holder's
      objects keep everything below the holder's folder, not only the last component (`setFolderKids_folder`,
      `path_name_inside_out`).
-/
import OdfModel.Pkg
import OdfModel.Props.C16
namespace OdfModel.Props.C16Names
open OdfModel OdfModel.Pkg OdfModel.Props.C16

/-- the names in use below a parent stored in `fo`: `c.folder[len(self.folder)+1:]` -/
def usedNames (fo : Str) (kids : List Doc) : List Str := kids.map (fun c => c.folder.drop (fo.length + 1))

/-- **C16/C03 (`objectName_free`)**: whatever name `addObject` settles on (default or explicit, leading "/" or
    not), it is not the name of an object the parent already holds — for every parent, every list of objects in
    every order, every requested name. (The other outcome is ValueError: nothing is attached.) -/
theorem objectName_free (fo : Str) (kids : List Doc) (name : Option Str) (n : Str)
    (h : objectName fo kids name = some n) : n ∉ usedNames fo kids := by
  unfold objectName at h
  simp at h
  obtain ⟨h1, h2⟩ := h
  subst h2
  simpa [usedNames] using h1

/-- the folder a new object gets is not the folder of an object the parent already holds -/
theorem attach_folder_fresh (fo : Str) (kids : List Doc) (name : Option Str) (n : Str)
    (h : objectName fo kids name = some n) (c : Doc) (hc : c ∈ kids)
    (hf : c.folder = fo ++ sSlash ++ c.folder.drop (fo.length + 1)) : c.folder ≠ fo ++ sSlash ++ n := by
  intro he
  apply objectName_free fo kids name n h
  have : c.folder.drop (fo.length + 1) = n := by
    have h2 := he
    rw [hf] at h2
    have h3 : (fo ++ sSlash) ++ c.folder.drop (fo.length + 1) = (fo ++ sSlash) ++ n := by simpa using h2
    exact List.append_cancel_left h3
  rw [← this]
  exact List.mem_map_of_mem hc

/-- `_setFolder`: every object of the moved document keeps the whole of its folder below the document's old
    folder (`c.folder[len(self.folder):]`), put behind the new folder -/
theorem setFolderKids_folder (folder : Str) (oldLen : Nat) :
    ∀ (ds : List Doc), (setFolderKids folder oldLen ds).map (·.folder) = ds.map (fun c => folder ++ c.folder.drop oldLen) := by
  intro ds
  induction ds with
  | nil => simp [setFolderKids]
  | cons c cs ih =>
    obtain ⟨id, mt, hs, pics, th, ex, fo, kids⟩ := c
    simp [setFolderKids, setFolder, ih]

/-- "Object 4" then "Object 3" (explicit, descending, nothing at 1 and 2), then two default names: the default
    numbering starts at 3, steps over 3 AND 4 and hands out "Object 5", then "Object 6"; asking for "Object 3" again
    is refused; every reference resolves, no member name occurs twice -/
theorem descending_then_default :
    let h0 : Hist := ⟨leaf 0 mtA, [leaf 1 mtB, leaf 2 mtA, leaf 3 mtB, leaf 4 mtA, leaf 5 mtB], []⟩
    let ops : List Op := [⟨0, 1, some (sObjectSp ++ [52])⟩, ⟨0, 2, some (sObjectSp ++ [51])⟩, ⟨0, 3, none⟩,
                          ⟨0, 5, some (sObjectSp ++ [51])⟩, ⟨0, 4, none⟩]
    (run h0 ops).map (fun h => (h.refs.map (fun x => (x.1, x.2.2)), allResolve h, decide (((save h.root).zip.map (·.name)).Nodup)))
      = some ([(1, [46, 47] ++ sObjectSp ++ [52]), (2, [46, 47] ++ sObjectSp ++ [51]), (3, [46, 47] ++ sObjectSp ++ [53]),
               (4, [46, 47] ++ sObjectSp ++ [54])], true, true) := by
  decide

/-- "Charts/Sales", "Tables/Sales" -/
def nChartsSales : Str := [67, 104, 97, 114, 116, 115, 47, 83, 97, 108, 101, 115]
def nTablesSales : Str := [84, 97, 98, 108, 101, 115, 47, 83, 97, 108, 101, 115]

/-- inside-out with path names: the holder 1 gets "Charts/Sales" and "Tables/Sales" (same last component), then is
    attached to the saved document: the two objects are stored in "Object 1/Charts/Sales/" and
    "Object 1/Tables/Sales/" (the references handed out, read below the holder's folder "Object 1/"), no member
    name occurs twice -/
theorem path_name_inside_out :
    let h0 : Hist := ⟨leaf 0 mtA, [leaf 1 mtB, leaf 2 mtA, leaf 3 mtB], []⟩
    let ops : List Op := [⟨1, 2, some nChartsSales⟩, ⟨1, 3, some nTablesSales⟩, ⟨0, 1, none⟩]
    (run h0 ops).map (fun h => (h.refs.map (fun x => (x.1, x.2.2)),
        hasMember (save h.root) (objPrefix 1 ++ nChartsSales ++ sSlash ++ sContent),
        hasMember (save h.root) (objPrefix 1 ++ nTablesSales ++ sSlash ++ sContent),
        hasMember (save h.root) (objPrefix 1 ++ [83, 97, 108, 101, 115] ++ sSlash ++ sContent),
        decide (((save h.root).zip.map (·.name)).Nodup)))
      = some ([(2, [46, 47] ++ nChartsSales), (3, [46, 47] ++ nTablesSales), (1, [46, 47] ++ sObjectSp ++ [49])],
              true, true, false, true) := by
  decide

end OdfModel.Props.C16Names

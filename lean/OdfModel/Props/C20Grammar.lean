/-
  Property C20, clause "returns a list style the grammar accepts" — cross-layer: EasyList × GrammarApi × AttrConv.

  `EasyList.callsOf st` (OdfModel/EasyListCalls.lean) is the sequence of grammar-relevant API calls odf/easyliststyle.py
  makes while it builds the element the model describes as `st`: the factory calls with their keywords, the
  `setAttribute` calls, StyleElement's `setAttrNS`, and the two `addElement` calls per level.  Each of them can raise in
  the real library (IllegalChild; AttributeError for an unknown keyword or a missing required attribute; ValueError from
  the value converter).  Here every one of them is shown to succeed

    * in `GrammarApi` over `Generated.GrammarTables.tables`  (odf/grammar.py, regenerated on every run)  — `grammar_accepts`
    * in `AttrConv`  over `Generated.Generated.AttrTable.bindings`      (odf/attrconverters.py, regenerated)         — `values_accepted`

  The ids come from Generated/EasyListIds.lean (looked up by harness/c20.py in the current name tables); `ids_*` prove
  that each id names the element / attribute its identifier says, in both id spaces, so a wrong id cannot slip through.
  harness/c20.py compares `callsOf` (driver command `calls`) with a trace of the real function: same calls, same order,
  same keywords, same values, and the attributes / children of the returned tree are what the calls store.

  Full statement of the clause (kept visible):
    def C20_grammar_full : Prop := ∀ name specs (1 ≤ length ≤ 10, all non-empty) spacing (a CSS length) showAll,
      styleFromList pythonFloat name specs spacing showAll returns an element and no call made on the way raises
  `grammar_accepts` + `values_accepted` + `C20.succeeds_on_nonempty_specs` give this for every float oracle that does not
  raise; nothing here depends on WHICH strings the oracle returns, because the converter the table binds to
  text:space-before and text:min-label-width is identity-shaped (`cnv_string`; `length_attrs_unchecked`).  If the table
  ever bound `cnv_length` there, `values_accepted` would stop building, and acceptance would depend on `FloatOracle`
  (Python's `str(float)` can print `1e+16`, `inf`, `nan`, and a negative or unit-less spacing is not a `length`).
  What is NOT claimed: that the stored values are valid against the *schema's* datatypes (nonNegativeLength for the two
  length attributes) — the library does not check that, and for a negative spacing it is false.
-/
import OdfModel.EasyListCalls
import OdfModel.GrammarApi
import OdfModel.AttrConv
import OdfModel.Generated.GrammarTables
import OdfModel.Generated.GrammarNames
import OdfModel.Generated.AttrTable
import OdfModel.Generated.AttrSchema
import OdfModel.Props.C20
namespace OdfModel.Props.C20Grammar
open OdfModel OdfModel.EasyList OdfModel.GrammarApi OdfModel.GrammarNamesCodec
open OdfModel.Generated.EasyListIds

abbrev T : Tables := Generated.GrammarTables.tables

/-! ### the ids name what their identifiers say -/

/-- the four element ids, in the grammar's name table -/
theorem ids_elements :
    Generated.GrammarNames.elemName[eListStyle]? = some (n!"text:list-style") ∧
    Generated.GrammarNames.elemName[eNumber]? = some (n!"text:list-level-style-number") ∧
    Generated.GrammarNames.elemName[eBullet]? = some (n!"text:list-level-style-bullet") ∧
    Generated.GrammarNames.elemName[eProps]? = some (n!"style:list-level-properties") := by decide +kernel

/-- the ten attribute ids, in the grammar's name table -/
theorem ids_attributes :
    Generated.GrammarNames.attrName[aStyleName]? = some (n!"style:name") ∧
    Generated.GrammarNames.attrName[aDisplayName]? = some (n!"style:display-name") ∧
    Generated.GrammarNames.attrName[aLevel]? = some (n!"text:level") ∧
    Generated.GrammarNames.attrName[aNumFormat]? = some (n!"style:num-format") ∧
    Generated.GrammarNames.attrName[aNumPrefix]? = some (n!"style:num-prefix") ∧
    Generated.GrammarNames.attrName[aNumSuffix]? = some (n!"style:num-suffix") ∧
    Generated.GrammarNames.attrName[aDisplayLevels]? = some (n!"text:display-levels") ∧
    Generated.GrammarNames.attrName[aBulletChar]? = some (n!"text:bullet-char") ∧
    Generated.GrammarNames.attrName[aSpaceBefore]? = some (n!"text:space-before") ∧
    Generated.GrammarNames.attrName[aMinLabelWidth]? = some (n!"text:min-label-width") := by decide +kernel

/-- the keyword the grammar tables derive for each attribute (`a[1].lower().replace('-','')`) is the literal the
    source of easyliststyle.py writes -/
theorem ids_keywords :
    kwOf T aStyleName = kwName ∧ kwOf T aLevel = kwLevel ∧ kwOf T aNumFormat = kwNumFormat ∧
    kwOf T aNumPrefix = kwNumPrefix ∧ kwOf T aNumSuffix = kwNumSuffix ∧ kwOf T aDisplayLevels = kwDisplayLevels ∧
    kwOf T aBulletChar = kwBulletChar ∧ kwOf T aSpaceBefore = kwSpaceBefore ∧
    kwOf T aMinLabelWidth = kwMinLabelWidth := by decide +kernel

/-- code points of the qualified name (`namespace local`) number `i` of the converter table's name list -/
def convName (i : Nat) : Option (List Char) := (Generated.AttrSchema.qnames[i]?).map String.toList

/-- the same fourteen names in the id space of the converter table -/
theorem ids_converter_space :
    convName cListStyle = some "urn:oasis:names:tc:opendocument:xmlns:text:1.0 list-style".toList ∧
    convName cNumber = some "urn:oasis:names:tc:opendocument:xmlns:text:1.0 list-level-style-number".toList ∧
    convName cBullet = some "urn:oasis:names:tc:opendocument:xmlns:text:1.0 list-level-style-bullet".toList ∧
    convName cProps = some "urn:oasis:names:tc:opendocument:xmlns:style:1.0 list-level-properties".toList ∧
    convName cStyleName = some "urn:oasis:names:tc:opendocument:xmlns:style:1.0 name".toList ∧
    convName cDisplayName = some "urn:oasis:names:tc:opendocument:xmlns:style:1.0 display-name".toList ∧
    convName cLevel = some "urn:oasis:names:tc:opendocument:xmlns:text:1.0 level".toList ∧
    convName cNumFormat = some "urn:oasis:names:tc:opendocument:xmlns:style:1.0 num-format".toList ∧
    convName cNumPrefix = some "urn:oasis:names:tc:opendocument:xmlns:style:1.0 num-prefix".toList ∧
    convName cNumSuffix = some "urn:oasis:names:tc:opendocument:xmlns:style:1.0 num-suffix".toList ∧
    convName cDisplayLevels = some "urn:oasis:names:tc:opendocument:xmlns:text:1.0 display-levels".toList ∧
    convName cBulletChar = some "urn:oasis:names:tc:opendocument:xmlns:text:1.0 bullet-char".toList ∧
    convName cSpaceBefore = some "urn:oasis:names:tc:opendocument:xmlns:text:1.0 space-before".toList ∧
    convName cMinLabelWidth = some "urn:oasis:names:tc:opendocument:xmlns:text:1.0 min-label-width".toList := by
  decide +kernel

/-! ### grammar acceptance of one call -/

/-- `setAttribute(kw, …)` on `e` does not raise and stores the attribute the code means -/
def setsTo (e kw a : Nat) : Bool :=
  match setAttribute T true e kw with
  | .ok b => b == a
  | .error _ => false

/-- the constructor with these keywords does not raise (every keyword accepted, no required attribute missing) and
    every keyword resolves to the intended attribute -/
def ctorOk (e : Nat) (kws : List (Nat × Nat)) : Bool :=
  (match constructKw T true e [] (kws.map (·.1)) with
   | .ok _ => true
   | .error _ => false) && kws.all (fun k => setsTo e k.1 k.2)

/-- the grammar lists attribute `a` for element `e` (`setAttrNS` itself checks nothing) -/
def listsAttr (e a : Nat) : Bool :=
  match allowedAttrsOf T e with
  | some l => l.contains a
  | none => false

def childOk (p c : Nat) : Bool :=
  match addElement T true p c with
  | .ok _ => true
  | .error _ => false

/-- the call succeeds in the GrammarApi model over the regenerated tables -/
def grammarOk : Call → Bool
  | .construct e kws => ctorOk e (kws.map fun k => (k.kw, k.attr))
  | .setAttribute e k => setsTo e k.kw k.attr
  | .setAttrNS e a _ => listsAttr e a
  | .addElement p c => childOk p c

/-! the finitely many shapes, each a closed fact about the tables -/

theorem shape_list_style : ctorOk eListStyle [(kwName, aStyleName)] = true ∧ listsAttr eListStyle aDisplayName = true := by
  decide +kernel

theorem shape_number :
    ctorOk eNumber [(kwLevel, aLevel), (kwNumFormat, aNumFormat)] = true ∧
    setsTo eNumber kwNumPrefix aNumPrefix = true ∧ setsTo eNumber kwNumSuffix aNumSuffix = true ∧
    setsTo eNumber kwDisplayLevels aDisplayLevels = true := by decide +kernel

theorem shape_bullet : ctorOk eBullet [(kwLevel, aLevel), (kwBulletChar, aBulletChar)] = true := by decide +kernel

theorem shape_props :
    ctorOk eProps [] = true ∧ setsTo eProps kwSpaceBefore aSpaceBefore = true ∧
    setsTo eProps kwMinLabelWidth aMinLabelWidth = true := by decide +kernel

theorem shape_children :
    childOk eNumber eProps = true ∧ childOk eBullet eProps = true ∧
    childOk eListStyle eNumber = true ∧ childOk eListStyle eBullet = true := by decide +kernel

/-- the constructors really have something to check: both level elements REQUIRE text:level, the bullet level also
    text:bullet-char (odf/grammar.py does not require style:num-format on the numbering level; fix 8143ff3 made the
    builder pass it all the same); a level built without them, a keyword of another element, or a child in the wrong
    place is refused by the same model (so the `shape_*` facts are not vacuous) -/
theorem required_are_demanded :
    requiresAttr T eNumber aLevel = true ∧
    requiresAttr T eBullet aLevel = true ∧ requiresAttr T eBullet aBulletChar = true ∧
    ctorOk eNumber [(kwNumFormat, aNumFormat)] = false ∧ ctorOk eBullet [(kwLevel, aLevel)] = false ∧
    ctorOk eProps [(kwLevel, aLevel)] = false ∧ setsTo eBullet kwNumFormat aNumFormat = false ∧
    childOk eProps eNumber = false ∧ childOk eListStyle eProps = false := by decide +kernel

theorem level_calls_ok (l : Level) : ∀ c ∈ callsOfLevel l, grammarOk c = true := by
  obtain ⟨h1, h2, h3, h4⟩ := shape_number
  obtain ⟨p1, p2, p3⟩ := shape_props
  obtain ⟨c1, c2, c3, c4⟩ := shape_children
  have hb := shape_bullet
  intro c hc
  unfold callsOfLevel levelHeadCalls levelElem at hc
  rcases l with ⟨lv, kind, sb, mw⟩
  cases kind with
  | number ch pre suf d =>
    by_cases hp : pre.isEmpty = true <;> by_cases hs : suf.isEmpty = true <;>
      simp only [hp, hs, if_true, if_false, List.append_nil, List.cons_append, List.nil_append, List.mem_cons,
        List.not_mem_nil, or_false, Bool.false_eq_true] at hc <;>
      rcases hc with rfl | hc <;> (try rcases hc with rfl | hc) <;> (try rcases hc with rfl | hc) <;>
      (try rcases hc with rfl | hc) <;> (try rcases hc with rfl | hc) <;> (try rcases hc with rfl | hc) <;>
      (try rcases hc with rfl | hc) <;> (try rcases hc with rfl | hc) <;> (try subst hc) <;>
      simp [grammarOk, *]
  | bullet b =>
    simp only [List.cons_append, List.nil_append, List.mem_cons, List.not_mem_nil, or_false] at hc
    rcases hc with rfl | rfl | rfl | rfl | rfl | rfl <;> simp [grammarOk, *]

theorem levels_calls_ok : ∀ (ls : List Level), ∀ c ∈ levelsCalls ls, grammarOk c = true := by
  intro ls
  induction ls with
  | nil => intro c hc; simp [levelsCalls] at hc
  | cons l r ih =>
    intro c hc
    simp only [levelsCalls, List.mem_append] at hc
    rcases hc with hc | hc
    · exact level_calls_ok l c hc
    · exact ih c hc

/-- every call made for ANY list-style value of the model is accepted (acceptance does not look at the values) -/
theorem calls_ok (st : ListStyle) : ∀ c ∈ callsOf st, grammarOk c = true := by
  obtain ⟨s1, s2⟩ := shape_list_style
  intro c hc
  simp only [callsOf, List.cons_append, List.nil_append, List.mem_cons] at hc
  rcases hc with rfl | rfl | hc
  · simp [grammarOk, s1]
  · simp [grammarOk, s2]
  · exact levels_calls_ok st.levels c hc

/-- **C20 (the grammar accepts the list style)**: for every result of `styleFromList` — every specification list, spacing,
    display mode and float oracle — every factory call, `setAttribute`, `setAttrNS` and `addElement` the real function
    makes on the way succeeds in the model of odf/element.py's grammar checks over the tables regenerated from
    odf/grammar.py: each keyword is accepted and resolves to the intended attribute, no required attribute is missing
    when a constructor returns, style:display-name is an attribute the grammar lists for text:list-style, and each
    child is allowed under its parent. -/
theorem grammar_accepts {F : FloatOracle} {name : Str} {specs : List Str} {spacing : Str} {showAll : Bool}
    {st : ListStyle} (_h : styleFromList F name specs spacing showAll = .ok st) :
    ∀ c ∈ callsOf st, grammarOk c = true := calls_ok st

/-- the call sequence has the expected size: two calls for the list style, then per level 6 calls for a bullet and
    7–9 for a numbering level (so `grammar_accepts` speaks about at least 6 calls per specification) -/
theorem calls_per_level (l : Level) : 6 ≤ (callsOfLevel l).length ∧ (callsOfLevel l).length ≤ 9 := by
  rcases l with ⟨lv, kind, sb, mw⟩
  cases kind with
  | number ch pre suf d =>
    by_cases hp : pre.isEmpty = true <;> by_cases hs : suf.isEmpty = true <;>
      simp [callsOfLevel, levelHeadCalls, hp, hs]
  | bullet b => simp [callsOfLevel, levelHeadCalls]

/-! ### the values pass the converter the table binds to each attribute -/

/-- grammar id → converter-table id, for the names of `ids_converter_space` -/
def convElem (e : Nat) : Nat :=
  if e = eListStyle then cListStyle else if e = eNumber then cNumber else if e = eBullet then cBullet else cProps

def convAttr (a : Nat) : Nat :=
  if a = aStyleName then cStyleName else if a = aDisplayName then cDisplayName else if a = aLevel then cLevel
  else if a = aNumFormat then cNumFormat else if a = aNumPrefix then cNumPrefix else if a = aNumSuffix then cNumSuffix
  else if a = aDisplayLevels then cDisplayLevels else if a = aBulletChar then cBulletChar
  else if a = aSpaceBefore then cSpaceBefore else cMinLabelWidth

/-- the (element, attribute, value) triples a call hands to `setAttrNS` (the converter runs there) -/
def storesOf : Call → List (Nat × Nat × Str)
  | .construct e kws => kws.map fun k => (e, k.attr, k.value)
  | .setAttribute e k => [(e, k.attr, k.value)]
  | .setAttrNS e a v => [(e, a, v)]
  | .addElement _ _ => []

/-- what `AttrConverters.convert` returns for attribute `a` on element `e` (grammar ids) -/
def convert (e a : Nat) (v : Str) : Except Attr.Err Str :=
  Attr.setAttr Generated.AttrTable.bindings (convAttr a) (convElem e) v

/-- the converter bound to each (attribute, element) pair the builder uses, as an index of the converter table -/
def boundKinds : List Attr.Kind :=
  [(eListStyle, aStyleName), (eListStyle, aDisplayName), (eNumber, aLevel), (eNumber, aNumFormat), (eNumber, aNumPrefix),
   (eNumber, aNumSuffix), (eNumber, aDisplayLevels), (eBullet, aLevel), (eBullet, aBulletChar), (eProps, aSpaceBefore),
   (eProps, aMinLabelWidth)].map fun p => Attr.kindOf (Attr.convertIdx Generated.AttrTable.bindings (convAttr p.2) (convElem p.1))

/-- style:name goes through `cnv_NCName` (replaces ':' and ' '), everything else through an identity-shaped converter
    (`cnv_string`, `cnv_positiveInteger` = `str(arg)`) — read off the regenerated tables -/
theorem bound_converters :
    boundKinds = [.hexEscape [58, 32], .identity, .identity, .identity, .identity, .identity, .identity, .identity,
                  .identity, .identity, .identity] := by decide +kernel

/-- in particular the two length attributes are NOT checked by the library (`cnv_string`, not `cnv_length`): this is why
    `values_accepted` holds for every float oracle -/
theorem length_attrs_unchecked (v : Str) :
    convert eProps aSpaceBefore v = .ok v ∧ convert eProps aMinLabelWidth v = .ok v := by
  have h := bound_converters
  simp only [boundKinds, List.map_cons, List.map_nil, List.cons.injEq, and_true] at h
  obtain ⟨_, _, _, _, _, _, _, _, _, h9, h10⟩ := h
  simp [convert, Attr.setAttr, Attr.cnv, h9, h10, Attr.cnvK]

/-- one stored triple: accepted, and the stored value is the given one except for style:name, which is stored as
    `makeNCName` of it -/
def storeOk (t : Nat × Nat × Str) : Prop :=
  convert t.1 t.2.1 t.2.2 = .ok (if t.2.1 = aStyleName then makeNCName t.2.2 else t.2.2)

theorem level_values_ok (l : Level) : ∀ c ∈ callsOfLevel l, ∀ t ∈ storesOf c, storeOk t := by
  have h := bound_converters
  simp only [boundKinds, List.map_cons, List.map_nil, List.cons.injEq, and_true] at h
  obtain ⟨_, _, k2, k3, k4, k5, k6, k7, k8, k9, k10⟩ := h
  have ne : aLevel ≠ aStyleName ∧ aNumFormat ≠ aStyleName ∧ aNumPrefix ≠ aStyleName ∧ aNumSuffix ≠ aStyleName ∧
      aDisplayLevels ≠ aStyleName ∧ aBulletChar ≠ aStyleName ∧ aSpaceBefore ≠ aStyleName ∧
      aMinLabelWidth ≠ aStyleName := by decide +kernel
  obtain ⟨n1, n2, n3, n4, n5, n6, n7, n8⟩ := ne
  intro c hc t ht
  unfold callsOfLevel levelHeadCalls levelElem at hc
  rcases l with ⟨lv, kind, sb, mw⟩
  cases kind with
  | number ch pre suf d =>
    by_cases hp : pre.isEmpty = true <;> by_cases hs : suf.isEmpty = true <;>
      simp only [hp, hs, if_true, if_false, List.append_nil, List.cons_append, List.nil_append, List.mem_cons,
        List.not_mem_nil, or_false, Bool.false_eq_true] at hc <;>
      rcases hc with rfl | hc <;> (try rcases hc with rfl | hc) <;> (try rcases hc with rfl | hc) <;>
      (try rcases hc with rfl | hc) <;> (try rcases hc with rfl | hc) <;> (try rcases hc with rfl | hc) <;>
      (try rcases hc with rfl | hc) <;> (try rcases hc with rfl | hc) <;> (try subst hc) <;>
      simp only [storesOf, List.map_cons, List.map_nil, List.mem_cons, List.not_mem_nil, or_false] at ht <;>
      (try rcases ht with rfl | rfl) <;> (try subst ht) <;>
      simp [storeOk, convert, Attr.setAttr, Attr.cnv, Attr.cnvK, *]
  | bullet b =>
    simp only [List.cons_append, List.nil_append, List.mem_cons, List.not_mem_nil, or_false] at hc
    rcases hc with rfl | rfl | rfl | rfl | rfl | rfl <;>
      simp only [storesOf, List.map_cons, List.map_nil, List.mem_cons, List.not_mem_nil, or_false] at ht <;>
      (try rcases ht with rfl | rfl) <;> (try subst ht) <;>
      simp [storeOk, convert, Attr.setAttr, Attr.cnv, Attr.cnvK, *]

theorem levels_values_ok : ∀ (ls : List Level), ∀ c ∈ levelsCalls ls, ∀ t ∈ storesOf c, storeOk t := by
  intro ls
  induction ls with
  | nil => intro c hc; simp [levelsCalls] at hc
  | cons l r ih =>
    intro c hc
    simp only [levelsCalls, List.mem_append] at hc
    rcases hc with hc | hc
    · exact level_values_ok l c hc
    · exact ih c hc

/-- `make_NCName` as the converter table has it (`hexEscape [58, 32]`) is the model's `makeNCName` -/
theorem hexEscape_is_makeNCName (s : Str) : Attr.cnvK (.hexEscape [58, 32]) s = .ok (makeNCName s) := by
  simp [Attr.cnvK, makeNCName, List.foldl]

/-- **C20 (the values are accepted)**: every value handed to `setAttrNS` on the way — by a keyword of a factory call, by
    `setAttribute`, or by StyleElement for style:display-name — passes the converter that the regenerated
    `attrconverters` table binds to that attribute on that element (`AttrConverters.convert`: `(attr, element)`, then
    `(attr, None)`, then `str`), so no ValueError is raised; the stored value is the given string, except style:name,
    stored as `make_NCName` of the given name (= `st.name`).  Holds for EVERY float oracle: no converter involved looks
    at the strings `F` produced (`bound_converters`, `length_attrs_unchecked`).  Integer arguments (`level=(i+1)`,
    `displayLevels`) are modelled by their `str()`; `C20.levels_numbered` / `C20.display_levels` say which positive
    integers they are. -/
theorem values_accepted {F : FloatOracle} {name : Str} {specs : List Str} {spacing : Str} {showAll : Bool}
    {st : ListStyle} (_h : styleFromList F name specs spacing showAll = .ok st) :
    ∀ c ∈ callsOf st, ∀ t ∈ storesOf c, storeOk t := by
  have h := bound_converters
  simp only [boundKinds, List.map_cons, List.map_nil, List.cons.injEq, and_true] at h
  obtain ⟨k0, k1, _⟩ := h
  have ne : aDisplayName ≠ aStyleName := by decide +kernel
  intro c hc t ht
  simp only [callsOf, List.cons_append, List.nil_append, List.mem_cons] at hc
  rcases hc with rfl | rfl | hc
  · simp only [storesOf, List.map_cons, List.map_nil, List.mem_cons, List.not_mem_nil, or_false] at ht
    subst ht
    simp only [storeOk, convert, Attr.setAttr, Attr.cnv, if_true]
    rw [k0]; exact hexEscape_is_makeNCName _
  · simp only [storesOf, List.mem_cons, List.not_mem_nil, or_false] at ht
    subst ht
    simp [storeOk, convert, Attr.setAttr, Attr.cnv, k1, Attr.cnvK, ne]
  · exact levels_values_ok st.levels c hc t ht

/-- the name stored on the returned element is the model's `st.name` -/
theorem name_stored {F : FloatOracle} {name : Str} {specs : List Str} {spacing : Str} {showAll : Bool}
    {st : ListStyle} (h : styleFromList F name specs spacing showAll = .ok st) :
    convert eListStyle aStyleName st.displayName = .ok st.name := by
  have hv := values_accepted h (.construct eListStyle [⟨kwName, aStyleName, st.displayName⟩])
    (by simp [callsOf]) (eListStyle, aStyleName, st.displayName) (by simp [storesOf])
  simp only [storeOk, if_true] at hv
  rw [hv]
  simp only [styleFromList] at h
  split at h
  · simp at h
  · split at h
    · simp at h
    · simp at h; subst h; rfl

/-! ### the hypotheses are satisfiable: a concrete three-level style (numbering with prefix and suffix, bullet,
    bare numbering) and its 24 calls, all accepted -/

def exF : FloatOracle := ⟨fun _ => some (Attr.lit "0.6", fun k => Attr.lit (if k = 1 then "0.6" else if k = 2 then "1.2" else "1.8"))⟩

def exSpecs : List Str := [Attr.lit "(1)", Attr.lit "*", Attr.lit "a"]

/-- what the example computes: level count, number of calls, all calls accepted, the stored style:name -/
def exSummary : Option (Nat × Nat × Bool × Str) :=
  match styleFromList exF (Attr.lit "My List") exSpecs (Attr.lit "0.6cm") true with
  | .ok st => some (st.levels.length, (callsOf st).length, (callsOf st).all grammarOk, st.name)
  | .error _ => none

example : exSummary = some (3, 24, true, Attr.lit "My_20_List") := by decide +kernel
end OdfModel.Props.C20Grammar

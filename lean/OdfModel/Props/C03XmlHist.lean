/-
  C03 × C14 × XML layer: the manifest theorem of Props/C03Xml.lean for EVERY process history.

  `save` creates `manifest.Manifest()` before it writes anything, which registers the manifest namespace in the
  process-wide table; whatever the process did before (other documents, foreign namespaces, loads — a history of
  `get_nsprefix` calls, C14), the table the manifest is written under is sound (`tableOK_reachable`), clean
  (`nsClean_reachable`) and knows the manifest namespace, so a reader of the emitted manifest.xml finds exactly the
  model's entries.
-/
import OdfModel.Props.C14
import OdfModel.Props.C03Xml
namespace OdfModel.Props.C03XmlHist
open OdfModel OdfModel.Xml OdfModel.Spec OdfModel.Ns OdfModel.Props.C03Xml
open OdfModel.Pkg (ME)

theorem lookupNs_append_self (tbl : NsTable) (ns p : Str) (h : lookupNs tbl ns = none) :
    lookupNs (tbl ++ [(ns, p)]) ns = some p := by
  induction tbl with
  | nil => simp [lookupNs]
  | cons e r ih =>
    obtain ⟨n, q⟩ := e
    simp only [lookupNs, List.cons_append] at h ⊢
    split
    · rename_i hn; simp [hn] at h
    · rename_i hn; simp only [hn, if_false] at h; exact ih h

/-- after `get_nsprefix(ns)` for a non-empty `ns`, the declaration table knows `ns` -/
theorem known_after_get (st : NsState) (ns : Str) (hne : ns.isEmpty = false) :
    ∃ p, lookupNs (getNsPrefix st ns).1.seen ns = some p := by
  unfold getNsPrefix
  simp only [hne, Bool.false_eq_true, if_false]
  cases hl : lookupNs st.seen ns with
  | some p => exact ⟨p, by simp [hl]⟩
  | none => exact ⟨_, by simp only [hl, Option.isSome_none, Bool.false_eq_true, if_false]; exact lookupNs_append_self _ _ _ hl⟩

theorem manifestns_strOK : StrOK MANIFESTNS := by
  unfold StrOK MANIFESTNS; decide
theorem manifestns_clean : MANIFESTNS.map hu = MANIFESTNS := by decide +kernel

/-- **C03 (truthful manifest bytes, after any process history)**: let the process have registered any namespaces
    `hist` (well-formed strings without filtered characters) before `save` creates the manifest element.  Then a reader
    of the emitted `META-INF/manifest.xml` finds exactly the model's entries, in order. -/
theorem manifest_xml_after_any_history (hist : List Str) (es : List ME)
    (hh : ∀ ns ∈ hist, StrOK ns ∧ ns.map hu = ns) (hs : EntriesOK es) :
    readManifest (manifestXml (run initial (hist ++ [MANIFESTNS])).seen es) = some (es.map listed) := by
  have hall : ∀ ns ∈ hist ++ [MANIFESTNS], StrOK ns ∧ ns.map hu = ns := by
    intro ns h
    rcases List.mem_append.mp h with h | h
    · exact hh ns h
    · simp only [List.mem_singleton] at h; subst h; exact ⟨manifestns_strOK, manifestns_clean⟩
  have ht := C14.tableOK_reachable (hist ++ [MANIFESTNS]) (fun ns h => (hall ns h).1)
  have hcl := C14.nsClean_reachable (hist ++ [MANIFESTNS]) (fun ns h => (hall ns h).2)
  have hrun : run initial (hist ++ [MANIFESTNS]) = (getNsPrefix (run initial hist) MANIFESTNS).1 := by
    simp [run, List.foldl_append]
  obtain ⟨p, hp⟩ := known_after_get (run initial hist) MANIFESTNS (by decide)
  rw [← hrun] at hp
  exact manifest_xml_lists_entries _ p es ht hcl hp hs

end OdfModel.Props.C03XmlHist

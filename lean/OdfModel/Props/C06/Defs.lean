/-
  Property C06, part 1: the per-row checks that the kernel evaluates, and the lemmas that lift a
  successful check of a row to the ∀-statement about the API decisions of that row.

  `rowOk e` compares, for element `e`, the decisions of the API model (OdfModel.GrammarApi, over the
  regenerated tables of odf/grammar.py) with the schema's answer (OdfModel.Grammar, over the
  regenerated `P` terms of the shipped .rng files); every difference must be excused by
  OdfModel.GrammarExceptions (Exceptions or KnownFindings).
-/
import OdfModel.GrammarData
import OdfModel.GrammarExceptions
namespace OdfModel.Props.C06
open OdfModel OdfModel.Grammar OdfModel.GrammarApi OdfModel.GrammarData OdfModel.GrammarExceptions
open OdfModel.Generated

/-- the whole row `(k, e, *)` is excused -/
def rowExcused (k : Kind) (e : Nat) : Bool := excused k e STAR

theorem covers_star (r : Row) (k : Kind) (e x : Nat) (h : r.covers k e STAR = true) : r.covers k e x = true := by
  simp only [Row.covers, Bool.and_eq_true, Bool.or_eq_true, Bool.or_self] at h ⊢
  exact ⟨h.1, Or.inr h.2⟩

theorem inRows_star (rows : List Row) (k : Kind) (e x : Nat) (h : inRows rows k e STAR = true) :
    inRows rows k e x = true := by
  simp only [inRows, List.any_eq_true] at h ⊢
  obtain ⟨r, hr, hc⟩ := h
  exact ⟨r, hr, covers_star r k e x hc⟩

theorem rowExcused_all (k : Kind) (e x : Nat) (h : rowExcused k e = true) : excused k e x = true := by
  simp only [rowExcused, excused, inExceptions, inKnownFindings, Bool.or_eq_true] at h ⊢
  rcases h with (h | h) | h
  · exact Or.inl (Or.inl h)
  · exact Or.inl (Or.inr (inRows_star _ k e x h))
  · exact Or.inr (inRows_star _ k e x h)

/-- `excused` split into the two hand-written lists -/
theorem excused_split {k : Kind} {e x : Nat} (h : excused k e x = true) :
    inExceptions k e x = true ∨ inKnownFindings k e x = true := by
  simpa [excused] using h

/-! ### children -/

def childrenRowOk (p : Nat) : Bool :=
  let S := schema.mayElems p
  let ex := fun c => excused .children (elemName p) (elemName c)
  match allowedChildrenOf T p with
  | none => S.contains ANY || rowExcused .children (elemName p)
  | some l =>
    if S.contains ANY then rowExcused .children (elemName p)
    else (l.all fun c => S.contains c || ex c) && (S.all fun c => l.contains c || ex c)

theorem allowsChild_eq (p c : Nat) :
    allowsChild T p c = (match allowedChildrenOf T p with | none => true | some l => l.contains c) := by
  unfold allowsChild addElement
  cases allowedChildrenOf T p with
  | none => rfl
  | some l => simp only []; cases l.contains c <;> rfl

theorem children_lift (p : Nat) (h : childrenRowOk p = true) (c : Nat) :
    allowsChild T p c = schema.permitsChild p c ∨ excused .children (elemName p) (elemName c) = true := by
  unfold childrenRowOk at h
  rw [allowsChild_eq]
  simp only [Schema.permitsChild]
  cases hl : allowedChildrenOf T p with
  | none =>
    simp only [hl, Bool.or_eq_true] at h
    rcases h with h | h
    · left; rw [h]; rfl
    · right; exact rowExcused_all _ _ _ h
  | some l =>
    simp only [hl] at h ⊢
    cases hany : (schema.mayElems p).contains ANY with
    | true =>
      simp only [hany, if_true] at h
      right; exact rowExcused_all _ _ _ h
    | false =>
      simp only [hany, Bool.false_eq_true, if_false, Bool.and_eq_true, List.all_eq_true, Bool.or_eq_true] at h
      cases h1 : l.contains c <;> cases h2 : (schema.mayElems p).contains c
      · left; rfl
      · rcases h.2 c (List.contains_iff_mem.mp h2) with h3 | h3
        · rw [h1] at h3; exact absurd h3 (by decide)
        · right; exact h3
      · rcases h.1 c (List.contains_iff_mem.mp h1) with h3 | h3
        · rw [h2] at h3; exact absurd h3 (by decide)
        · right; exact h3
      · left; rfl

/-! ### text -/

def textRowOk (e : Nat) : Bool :=
  (allowsTextOf T e == schema.mayText e) || excused .text (elemName e) NOITEM

theorem allowsText_eq (e : Nat) : allowsText' T e = allowsTextOf T e := by
  unfold allowsText' addText
  cases allowsTextOf T e <;> rfl

theorem text_lift (e : Nat) (h : textRowOk e = true) :
    allowsText' T e = schema.mayText e ∨ excused .text (elemName e) NOITEM = true := by
  simp only [textRowOk, Bool.or_eq_true, beq_iff_eq] at h
  rcases h with h | h
  · left; rw [allowsText_eq]; exact h
  · right; exact h

/-! ### attributes by keyword -/

def attrsRowOk (e : Nat) : Bool :=
  let S := schema.mayAttrs e
  let ex := fun a => excused .attrs (elemName e) (attrName a)
  match allowedAttrsOf T e with
  | none => S.all ex
  | some l =>
    (l.all fun b => firstWithKw T (kwOf T b) l != some b || S.contains ANY || S.contains b || ex b)
    && (S.all fun a => (a != ANY && l.any (fun b => kwOf T b == kwOf T a)) || ex a)

theorem firstWithKw_some (kw : Nat) (l : List Nat) (b : Nat) (h : firstWithKw T kw l = some b) :
    b ∈ l ∧ kwOf T b = kw := by
  induction l with
  | nil => simp [firstWithKw] at h
  | cons a rest ih =>
    simp only [firstWithKw] at h
    by_cases ha : (kwOf T a == kw) = true
    · simp only [ha, if_true, Option.some.injEq] at h
      subst h
      exact ⟨List.mem_cons_self, by simpa using ha⟩
    · simp only [ha, Bool.false_eq_true, if_false] at h
      exact ⟨List.mem_cons_of_mem _ (ih h).1, (ih h).2⟩

theorem firstWithKw_isSome (kw : Nat) (l : List Nat) (h : l.any (fun b => kwOf T b == kw) = true) :
    ∃ b, firstWithKw T kw l = some b := by
  induction l with
  | nil => simp at h
  | cons a rest ih =>
    simp only [firstWithKw]
    by_cases ha : (kwOf T a == kw) = true
    · exact ⟨a, by simp [ha]⟩
    · simp only [List.any_cons, ha, Bool.false_or] at h
      simp only [ha, Bool.false_eq_true, if_false]
      exact ih h

/-- an accepted keyword stores an attribute the schema permits on that element -/
theorem attrs_sound_lift (e : Nat) (h : attrsRowOk e = true) (k b : Nat)
    (hs : setAttribute T true e k = .ok b) :
    schema.permitsAttr e b = true ∨ excused .attrs (elemName e) (attrName b) = true := by
  unfold attrsRowOk at h
  simp only [setAttribute] at hs
  cases hl : allowedAttrsOf T e with
  | none => simp [hl] at hs
  | some l =>
    simp only [hl] at hs h
    cases hf : firstWithKw T k l with
    | none => simp [hf] at hs
    | some b' =>
      simp only [hf, Except.ok.injEq] at hs
      subst hs
      have ⟨hmem, hkw⟩ := firstWithKw_some k l b' hf
      simp only [Bool.and_eq_true, List.all_eq_true, Bool.or_eq_true] at h
      have := h.1 b' hmem
      rw [hkw, hf] at this
      simp only [bne_self_eq_false, Bool.false_eq_true, false_or] at this
      rcases this with (h1 | h1) | h1
      · left; simp only [Schema.permitsAttr, h1, Bool.true_or]
      · left; simp only [Schema.permitsAttr, h1, Bool.or_true]
      · right; exact h1

/-- the keyword of every attribute the schema permits is accepted -/
theorem attrs_complete_lift (e : Nat) (h : attrsRowOk e = true) (a : Nat)
    (ha : (schema.mayAttrs e).contains a = true) :
    (a ≠ ANY ∧ (setAttribute T true e (kwOf T a)).isOk = true) ∨ excused .attrs (elemName e) (attrName a) = true := by
  unfold attrsRowOk at h
  have ha' : a ∈ schema.mayAttrs e := by simpa using ha
  cases hl : allowedAttrsOf T e with
  | none =>
    simp only [hl, List.all_eq_true] at h
    right; exact h a ha'
  | some l =>
    simp only [hl, Bool.and_eq_true, List.all_eq_true, Bool.or_eq_true] at h
    rcases h.2 a ha' with ⟨h1, h2⟩ | h1
    · left
      obtain ⟨b, hb⟩ := firstWithKw_isSome (kwOf T a) l h2
      exact ⟨by simpa using h1, by simp [setAttribute, hl, hb, Except.isOk, Except.toBool]⟩
    · right; exact h1

/-! ### required attributes -/

def requiredRowOk (e : Nat) : Bool :=
  let R := requiredOf T e
  let M := schema.mustAttrs e
  let ex := fun a => excused .required (elemName e) (attrName a)
  (R.all fun a => M.contains a || ex a) && (M.all fun a => R.contains a || ex a)

theorem required_lift (e : Nat) (h : requiredRowOk e = true) (a : Nat) :
    requiresAttr T e a = schema.requires e a ∨ excused .required (elemName e) (attrName a) = true := by
  simp only [requiredRowOk, Bool.and_eq_true, List.all_eq_true, Bool.or_eq_true] at h
  simp only [requiresAttr, Schema.requires]
  by_cases h1 : (requiredOf T e).contains a = true <;> by_cases h2 : (schema.mustAttrs e).contains a = true
  · left; rw [h1, h2]
  · rcases h.1 a (by simpa using h1) with h3 | h3
    · exact absurd h3 h2
    · right; exact h3
  · rcases h.2 a (by simpa using h2) with h3 | h3
    · exact absurd h3 h1
    · right; exact h3
  · left
    have h1' : (requiredOf T e).contains a = false := by simpa using h1
    have h2' : (schema.mustAttrs e).contains a = false := by simpa using h2
    rw [h1', h2']

/-! ### factories -/

def factoryRowOk (e : Nat) : Bool :=
  !schema.isElem e || GrammarFactories.factoryQnames.contains e || excused .factory (elemName e) NOITEM

/-! ### the whole row, and slices of rows -/

def rowOk (e : Nat) : Bool :=
  childrenRowOk e && textRowOk e && attrsRowOk e && requiredRowOk e && factoryRowOk e

/-- number of slices (one module each, so that lake checks them in parallel) -/
def NSLICES : Nat := 16
/-- rows per slice -/
def W : Nat := (GrammarTables.nElems + NSLICES - 1) / NSLICES

def sliceOk (k : Nat) : Bool :=
  (List.range' (k * W) W).all fun e => decide (GrammarTables.nElems ≤ e) || rowOk e

theorem slices_cover (f : Nat → Bool) (K w : Nat) (hw : 0 < w)
    (h : ∀ k, k < K → (List.range' (k * w) w).all f = true) (e : Nat) (he : e < K * w) : f e = true := by
  have hk : e / w < K := Nat.div_lt_of_lt_mul (by rw [Nat.mul_comm]; exact he)
  have := h (e / w) hk
  rw [List.all_eq_true] at this
  apply this e
  rw [List.mem_range'_1]
  exact ⟨Nat.div_mul_le_self e w, Nat.lt_div_mul_add hw⟩

end OdfModel.Props.C06

/-
  Property C06, part 3: the keyword ids of the generated tables are faithful to
  `a[1].lower().replace('-','')` (element.py) — two attributes have the same keyword id exactly
  when their local names give the same keyword string.  So the API model, which compares keyword
  ids, resolves a keyword like the Python code, which compares strings.
-/
import OdfModel.GrammarData
namespace OdfModel.Props.C06
open OdfModel OdfModel.GrammarApi OdfModel.GrammarData OdfModel.GrammarNamesCodec OdfModel.Generated

/-- the keyword string of attribute id `a`, computed by the model of the Python expression -/
def kwString (a : Nat) : Str := kwChars (localPart (bytes (attrName a)))

def kwRowOk (a : Nat) : Bool :=
  (bytes (attrName a)).all (fun c => Nat.blt c 128) && bytes (kwName (kwOf T a)) == kwString a

def ascending : List Nat → Bool
  | a :: b :: rest => Nat.blt a b && ascending (b :: rest)
  | _ => true

set_option maxRecDepth 100000 in
/-- per attribute: the name is ASCII and the keyword table entry is the keyword of its local name;
    the keyword table is strictly ascending (hence without repetition) and survives the byte codec -/
theorem kw_table_ok :
    ((List.range GrammarTables.nAttrs).all kwRowOk) = true
    ∧ ascending GrammarNames.kwName = true
    ∧ (GrammarNames.kwName.all fun n => ofBytes (bytes n) == n) = true
    ∧ GrammarNames.kwName.length = GrammarTables.nKws
    ∧ GrammarTables.attrKw.length = GrammarTables.nAttrs
    ∧ (GrammarTables.attrKw.all fun k => Nat.blt k GrammarTables.nKws) = true := by
  decide +kernel

theorem ascending_lt (l : List Nat) (h : ascending l = true) (i j : Nat) (hij : i < j) (hj : j < l.length) :
    l[i]'(Nat.lt_trans hij hj) < l[j] := by
  induction l generalizing i j with
  | nil => simp at hj
  | cons a rest ih =>
    cases rest with
    | nil => simp at hj; omega
    | cons b rest' =>
      simp only [ascending, Bool.and_eq_true] at h
      have hab : a < b := by simpa [Nat.blt] using h.1
      cases j with
      | zero => omega
      | succ j' =>
        cases i with
        | zero =>
          simp only [List.getElem_cons_zero, List.getElem_cons_succ]
          cases j' with
          | zero => simpa using hab
          | succ j'' =>
            have := ih h.2 0 (j''+1) (by omega) (by simpa using hj)
            simp only [List.getElem_cons_zero] at this
            exact Nat.lt_trans hab this
        | succ i' =>
          simp only [List.getElem_cons_succ]
          exact ih h.2 i' j' (by omega) (by simpa using hj)

/-- **C06 (keyword ids)**: attributes `a`, `b` of the tables get the same keyword id iff the Python
    keyword expression gives the same string for their local names -/
theorem kw_ids_faithful (a b : Nat) (ha : a < GrammarTables.nAttrs) (hb : b < GrammarTables.nAttrs) :
    kwOf T a = kwOf T b ↔ kwString a = kwString b := by
  obtain ⟨hrows, hasc, hcodec, hlen, hlen2, hrange⟩ := kw_table_ok
  rw [List.all_eq_true] at hrows hcodec hrange
  have ra := hrows a (List.mem_range.mpr ha)
  have rb := hrows b (List.mem_range.mpr hb)
  simp only [kwRowOk, Bool.and_eq_true, beq_iff_eq] at ra rb
  constructor
  · intro h; rw [← ra.2, ← rb.2, h]
  · intro h
    -- same string ⇒ same table entry ⇒ same index
    have hbytes : bytes (kwName (kwOf T a)) = bytes (kwName (kwOf T b)) := by rw [ra.2, rb.2, h]
    have hka : kwOf T a < GrammarNames.kwName.length := by
      have : kwOf T a ∈ GrammarTables.attrKw := by
        simp only [kwOf]
        have h2 : a < GrammarTables.attrKw.length := by rw [hlen2]; exact ha
        simp [List.getElem?_eq_getElem h2]
      have := hrange _ this
      rw [hlen]; simpa [Nat.blt] using this
    have hkb : kwOf T b < GrammarNames.kwName.length := by
      have : kwOf T b ∈ GrammarTables.attrKw := by
        simp only [kwOf]
        have h2 : b < GrammarTables.attrKw.length := by rw [hlen2]; exact hb
        simp [List.getElem?_eq_getElem h2]
      have := hrange _ this
      rw [hlen]; simpa [Nat.blt] using this
    have hna : kwName (kwOf T a) = GrammarNames.kwName[kwOf T a] := by simp [kwName, List.getElem?_eq_getElem hka]
    have hnb : kwName (kwOf T b) = GrammarNames.kwName[kwOf T b] := by simp [kwName, List.getElem?_eq_getElem hkb]
    have ca := hcodec _ (List.getElem_mem hka)
    have cb := hcodec _ (List.getElem_mem hkb)
    simp only [beq_iff_eq] at ca cb
    have hname : GrammarNames.kwName[kwOf T a] = GrammarNames.kwName[kwOf T b] := by
      rw [← ca, ← cb, ← hna, ← hnb, hbytes]
    rcases Nat.lt_trichotomy (kwOf T a) (kwOf T b) with hlt | heq | hgt
    · have := ascending_lt _ hasc _ _ hlt hkb; omega
    · exact heq
    · have := ascending_lt _ hasc _ _ hgt hka; omega

end OdfModel.Props.C06

/-
  Property C06, part 3: the keyword column of the generated tables is faithful to
  `a[1].lower().replace('-','')` (element.py).  `attrKw[a]` is the numeral of the keyword string
  of attribute `a`, so two attributes have the same keyword in the model exactly when the Python
  expression gives the same string for their local names, and the API model — which compares
  these numerals — resolves a keyword like the Python code, which compares strings.
-/
import OdfModel.GrammarData
namespace OdfModel.Props.C06
open OdfModel OdfModel.GrammarApi OdfModel.GrammarData OdfModel.GrammarNamesCodec OdfModel.Generated

/-- interned ids never collide with the wildcard id of the schema semantics -/
theorem ids_below_any : GrammarTables.nElems < Grammar.ANY ∧ GrammarTables.nAttrs < Grammar.ANY := by decide +kernel

/-- the keyword string of an attribute display name `prefix:local` (bytes), by the model of the
    Python expression -/
def kwStringOf (name : Nat) : Str := kwChars (localPart (bytes name))

/-- the keyword string of attribute id `a` -/
def kwString (a : Nat) : Str := kwStringOf (attrName a)

def kwRow (name kw : Nat) : Bool :=
  (bytes name).all (fun c => Nat.blt c 128) && (bytes kw == kwStringOf name) && Nat.beq (ofBytes (bytes kw)) kw

/-- walk the name column and the keyword column side by side -/
def kwRows : List Nat → List Nat → Bool
  | n :: ns, k :: ks => kwRow n k && kwRows ns ks
  | [], [] => true
  | _, _ => false

set_option maxRecDepth 100000 in
/-- per attribute: the name is ASCII, the keyword entry spells the keyword of its local name, and
    the entry survives the byte codec (so equal spellings are equal numerals) -/
theorem kw_table_ok : kwRows GrammarNames.attrName GrammarTables.attrKw = true := by decide +kernel

theorem kwRows_get (ns ks : List Nat) (h : kwRows ns ks = true) (a : Nat) (ha : a < ns.length) :
    kwRow (ns[a]?.getD 0) (ks[a]?.getD 0) = true := by
  induction ns generalizing ks a with
  | nil => simp at ha
  | cons n ns ih =>
    cases ks with
    | nil => simp [kwRows] at h
    | cons k ks =>
      simp only [kwRows, Bool.and_eq_true] at h
      cases a with
      | zero => simpa using h.1
      | succ a' =>
        simp only [List.getElem?_cons_succ]
        exact ih ks h.2 a' (by simpa using ha)

/-- **C06 (keywords)**: attributes `a`, `b` of the tables have the same keyword in the model iff the
    Python keyword expression gives the same string for their local names -/
theorem kw_ids_faithful (a b : Nat) (ha : a < GrammarNames.attrName.length) (hb : b < GrammarNames.attrName.length) :
    kwOf T a = kwOf T b ↔ kwString a = kwString b := by
  have ra := kwRows_get _ _ kw_table_ok a ha
  have rb := kwRows_get _ _ kw_table_ok b hb
  simp only [kwRow, Bool.and_eq_true, beq_iff_eq] at ra rb
  show GrammarTables.attrKw[a]?.getD 0 = GrammarTables.attrKw[b]?.getD 0 ↔
    kwStringOf (GrammarNames.attrName[a]?.getD 0) = kwStringOf (GrammarNames.attrName[b]?.getD 0)
  constructor
  · intro h; rw [← ra.1.2, ← rb.1.2, h]
  · intro h
    have : bytes (GrammarTables.attrKw[a]?.getD 0) = bytes (GrammarTables.attrKw[b]?.getD 0) := by
      rw [ra.1.2, rb.1.2, h]
    rw [← Nat.eq_of_beq_eq_true ra.2, ← Nat.eq_of_beq_eq_true rb.2, this]

end OdfModel.Props.C06

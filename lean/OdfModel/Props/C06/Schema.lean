/-
  Property C06, part 2: facts about the translated schemas that the semantics relies on
  (all by kernel evaluation over the regenerated `P` terms).
-/
import OdfModel.Grammar
import OdfModel.Generated.GrammarSchema
namespace OdfModel.Props.C06
open OdfModel OdfModel.Grammar OdfModel.Generated OdfModel.Generated.GrammarSchema

set_option maxRecDepth 100000 in
/-- the fuel of `mayElems / mayText / mayAttrs / mustAttrs` never runs out on the content of any
    element declaration of the two schemas: the functions compute the denotation, not a cut-off of it -/
theorem fuel_sufficient :
    (schema.elems.all.all fun d => ncOk NCFUEL d.nc && fuelOk schema FUEL d.content) = true := by decide +kernel

set_option maxRecDepth 100000 in
/-- every `<ref>` points into the define table and every element occurrence into the declaration
    table; both tables have the advertised size and chunking (so `get?` is positional lookup) -/
theorem refs_closed :
    (schema.defs.all.all fun p => decide (refBound p ≤ GrammarSchema.nDefs) && decide (declBound p ≤ GrammarSchema.nDecls)) = true
    ∧ (schema.elems.all.all fun d => decide (refBound d.content ≤ GrammarSchema.nDefs) && decide (declBound d.content ≤ GrammarSchema.nDecls)) = true
    ∧ schema.defs.all.length = GrammarSchema.nDefs
    ∧ schema.elems.all.length = GrammarSchema.nDecls
    ∧ (schema.defs.chunks.dropLast.all fun c => c.length == schema.defs.chunk) = true
    ∧ (schema.elems.chunks.dropLast.all fun c => c.length == schema.elems.chunk) = true := by
  decide +kernel

set_option maxRecDepth 100000 in
/-- `notAllowed` does not occur (so `mustAttrs` needs no unit for `choice`) -/
theorem no_notAllowed :
    (schema.defs.all.any hasNotAllowed || schema.elems.all.any fun d => hasNotAllowed d.content) = false := by decide +kernel

set_option maxRecDepth 100000 in
/-- every element name the schemas declare has an id below `nSchemaElems`, every attribute id is
    below `nAttrs`-/
theorem schema_elem_ids_first :
    (schema.elems.all.all fun d => (names d.nc).all fun q => q == ANY || decide (q < GrammarSchema.nSchemaElems)) = true := by
  decide +kernel

set_option maxRecDepth 100000 in
/-- the `<anyName/>` declarations (the islands: content of math:math, xforms:model, foreign
    metadata) exist, and each of them permits any child element and character data — so an element
    that no declaration names may, where it may occur at all, contain any element and text -/
theorem islands_permit_anything :
    schema.anyPatterns.isEmpty = false
    ∧ (schema.anyPatterns.all fun p => (mayElems schema FUEL p).contains ANY && mayText schema FUEL p) = true := by
  decide +kernel

end OdfModel.Props.C06

/-
  Property C06, part 4: the fuel of the schema semantics is immaterial.  Whenever `fuelOk` holds for
  a pattern at fuel `f` (theorem `fuel_sufficient`: it does, at `FUEL`, for the content of every
  element declaration of the shipped schemas), `mayElems`, `mayText`, `mayAttrs` and `mustAttrs`
  return the same answer at every larger fuel — so the functions compute the (fuel-free) meaning
  of the pattern and not a cut-off of it.  Generic: for every schema, no kernel evaluation.
-/
import OdfModel.Grammar
namespace OdfModel.Props.C06
open OdfModel OdfModel.Grammar

theorem flatMap_congr_on {α β : Type} (l : List α) (g h : α → List β) (H : ∀ x, x ∈ l → g x = h x) :
    l.flatMap g = l.flatMap h := by
  induction l with
  | nil => rfl
  | cons a rest ih =>
    simp only [List.flatMap_cons]
    rw [H a List.mem_cons_self, ih (fun x hx => H x (List.mem_cons_of_mem _ hx))]

theorem any_congr_on {α : Type} (l : List α) (g h : α → Bool) (H : ∀ x, x ∈ l → g x = h x) :
    l.any g = l.any h := by
  induction l with
  | nil => rfl
  | cons a rest ih =>
    simp only [List.any_cons]
    rw [H a List.mem_cons_self, ih (fun x hx => H x (List.mem_cons_of_mem _ hx))]

theorem map_congr_on {α β : Type} (l : List α) (g h : α → β) (H : ∀ x, x ∈ l → g x = h x) :
    l.map g = l.map h := by
  induction l with
  | nil => rfl
  | cons a rest ih =>
    simp only [List.map_cons]
    rw [H a List.mem_cons_self, ih (fun x hx => H x (List.mem_cons_of_mem _ hx))]

theorem succ_add_comm1 (f k : Nat) : f + 1 + k = (f + k) + 1 := by omega

theorem mayElems_fuel (S : Schema) (f : Nat) : ∀ p, fuelOk S f p = true → ∀ k, mayElems S (f + k) p = mayElems S f p := by
  induction f with
  | zero => intro p h; simp [fuelOk] at h
  | succ f ih =>
    intro p h k
    rw [succ_add_comm1]
    cases p with
    | ref n => simp only [fuelOk] at h; simp only [mayElems]; exact ih _ h k
    | element i => simp only [mayElems]
    | «attribute» nc q => simp only [mayElems]
    | group l => simp only [fuelOk, List.all_eq_true] at h; simp only [mayElems]; exact flatMap_congr_on l _ _ (fun x hx => ih x (h x hx) k)
    | interleave l => simp only [fuelOk, List.all_eq_true] at h; simp only [mayElems]; exact flatMap_congr_on l _ _ (fun x hx => ih x (h x hx) k)
    | choice l => simp only [fuelOk, List.all_eq_true] at h; simp only [mayElems]; exact flatMap_congr_on l _ _ (fun x hx => ih x (h x hx) k)
    | optional q => simp only [fuelOk] at h; simp only [mayElems]; exact ih _ h k
    | zeroOrMore q => simp only [fuelOk] at h; simp only [mayElems]; exact ih _ h k
    | oneOrMore q => simp only [fuelOk] at h; simp only [mayElems]; exact ih _ h k
    | mixed q => simp only [fuelOk] at h; simp only [mayElems]; exact ih _ h k
    | list q => simp only [mayElems]
    | empty => simp only [mayElems]
    | text => simp only [mayElems]
    | notAllowed => simp only [mayElems]
    | value s => simp only [mayElems]
    | data t pat => simp only [mayElems]

theorem mayAttrs_fuel (S : Schema) (f : Nat) : ∀ p, fuelOk S f p = true → ∀ k, mayAttrs S (f + k) p = mayAttrs S f p := by
  induction f with
  | zero => intro p h; simp [fuelOk] at h
  | succ f ih =>
    intro p h k
    rw [succ_add_comm1]
    cases p with
    | ref n => simp only [fuelOk] at h; simp only [mayAttrs]; exact ih _ h k
    | element i => simp only [mayAttrs]
    | «attribute» nc q => simp only [mayAttrs]
    | group l => simp only [fuelOk, List.all_eq_true] at h; simp only [mayAttrs]; exact flatMap_congr_on l _ _ (fun x hx => ih x (h x hx) k)
    | interleave l => simp only [fuelOk, List.all_eq_true] at h; simp only [mayAttrs]; exact flatMap_congr_on l _ _ (fun x hx => ih x (h x hx) k)
    | choice l => simp only [fuelOk, List.all_eq_true] at h; simp only [mayAttrs]; exact flatMap_congr_on l _ _ (fun x hx => ih x (h x hx) k)
    | optional q => simp only [fuelOk] at h; simp only [mayAttrs]; exact ih _ h k
    | zeroOrMore q => simp only [fuelOk] at h; simp only [mayAttrs]; exact ih _ h k
    | oneOrMore q => simp only [fuelOk] at h; simp only [mayAttrs]; exact ih _ h k
    | mixed q => simp only [fuelOk] at h; simp only [mayAttrs]; exact ih _ h k
    | list q => simp only [mayAttrs]
    | empty => simp only [mayAttrs]
    | text => simp only [mayAttrs]
    | notAllowed => simp only [mayAttrs]
    | value s => simp only [mayAttrs]
    | data t pat => simp only [mayAttrs]

theorem mayText_fuel (S : Schema) (f : Nat) : ∀ p, fuelOk S f p = true → ∀ k, mayText S (f + k) p = mayText S f p := by
  induction f with
  | zero => intro p h; simp [fuelOk] at h
  | succ f ih =>
    intro p h k
    rw [succ_add_comm1]
    cases p with
    | ref n => simp only [fuelOk] at h; simp only [mayText]; exact ih _ h k
    | element i => simp only [mayText]
    | «attribute» nc q => simp only [mayText]
    | group l => simp only [fuelOk, List.all_eq_true] at h; simp only [mayText]; exact any_congr_on l _ _ (fun x hx => ih x (h x hx) k)
    | interleave l => simp only [fuelOk, List.all_eq_true] at h; simp only [mayText]; exact any_congr_on l _ _ (fun x hx => ih x (h x hx) k)
    | choice l => simp only [fuelOk, List.all_eq_true] at h; simp only [mayText]; exact any_congr_on l _ _ (fun x hx => ih x (h x hx) k)
    | optional q => simp only [fuelOk] at h; simp only [mayText]; exact ih _ h k
    | zeroOrMore q => simp only [fuelOk] at h; simp only [mayText]; exact ih _ h k
    | oneOrMore q => simp only [fuelOk] at h; simp only [mayText]; exact ih _ h k
    | mixed q => simp only [mayText]
    | list q => simp only [mayText]
    | empty => simp only [mayText]
    | text => simp only [mayText]
    | notAllowed => simp only [mayText]
    | value s => simp only [mayText]
    | data t pat => simp only [mayText]

theorem mustAttrs_fuel (S : Schema) (f : Nat) : ∀ p, fuelOk S f p = true → ∀ k, mustAttrs S (f + k) p = mustAttrs S f p := by
  induction f with
  | zero => intro p h; simp [fuelOk] at h
  | succ f ih =>
    intro p h k
    rw [succ_add_comm1]
    cases p with
    | ref n => simp only [fuelOk] at h; simp only [mustAttrs]; exact ih _ h k
    | element i => simp only [mustAttrs]
    | «attribute» nc q => cases nc <;> simp only [mustAttrs]
    | group l => simp only [fuelOk, List.all_eq_true] at h; simp only [mustAttrs]; exact flatMap_congr_on l _ _ (fun x hx => ih x (h x hx) k)
    | interleave l => simp only [fuelOk, List.all_eq_true] at h; simp only [mustAttrs]; exact flatMap_congr_on l _ _ (fun x hx => ih x (h x hx) k)
    | choice l => simp only [fuelOk, List.all_eq_true] at h; simp only [mustAttrs]; rw [map_congr_on l _ _ (fun x hx => ih x (h x hx) k)]
    | optional q => simp only [mustAttrs]
    | zeroOrMore q => simp only [mustAttrs]
    | oneOrMore q => simp only [fuelOk] at h; simp only [mustAttrs]; exact ih _ h k
    | mixed q => simp only [fuelOk] at h; simp only [mustAttrs]; exact ih _ h k
    | list q => simp only [mustAttrs]
    | empty => simp only [mustAttrs]
    | text => simp only [mustAttrs]
    | notAllowed => simp only [mustAttrs]
    | value s => simp only [mustAttrs]
    | data t pat => simp only [mustAttrs]

end OdfModel.Props.C06

/- Property C06, slice 1 of 16: rows `1 * W … 1 * W + W - 1` of the element table, checked by kernel evaluation. -/
import OdfModel.Props.C06.Defs
namespace OdfModel.Props.C06
set_option maxRecDepth 100000 in
/-- **C06 (rows of slice 1)**: for every element id in the slice, each API decision of the row
    (children, text, attributes by keyword, required attributes, factory) equals the schema's or
    is listed in Exceptions / KnownFindings. -/
theorem slice_01 : sliceOk 1 = true := by decide +kernel
end OdfModel.Props.C06

/- Property C06, slice 6 of 16: rows `6 * W … 6 * W + W - 1` of the element table, checked by kernel evaluation. -/
import OdfModel.Props.C06.Defs
namespace OdfModel.Props.C06
set_option maxRecDepth 100000 in
/-- **C06 (rows of slice 6)**: for every element id in the slice, each API decision of the row
    (children, text, attributes by keyword, required attributes, factory) equals the schema's or
    is listed in Exceptions / KnownFindings. -/
theorem slice_06 : sliceOk 6 = true := by decide +kernel
end OdfModel.Props.C06

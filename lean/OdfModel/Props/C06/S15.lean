/- Property C06, slice 15 of 16: rows `15 * W … 15 * W + W - 1` of the element table, checked by kernel evaluation. -/
import OdfModel.Props.C06.Defs
namespace OdfModel.Props.C06
set_option maxRecDepth 100000 in
/-- **C06 (rows of slice 15)**: for every element id in the slice, each API decision of the row
    (children, text, attributes by keyword, required attributes, factory) equals the schema's or
    is listed in Exceptions / KnownFindings. -/
theorem slice_15 : sliceOk 15 = true := by decide +kernel
end OdfModel.Props.C06

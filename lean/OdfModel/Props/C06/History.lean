/-
  Property C06, histories: "with grammar checking on, adding a child element succeeds if and only if
  the schema permits it for that element" — *whatever the parent already holds and however it got
  there* (children let through with check_grammar=False, attached with the unchecked DOM calls
  appendChild / insertBefore, text nodes, children that came with a loaded file, removals).

  The single-call theorems of Props/C06.lean speak about a decision function of (tables, parent
  qname, child qname).  The model of OdfModel.GrammarHist keeps the parent's child list through a
  sequence of calls; the theorems here say that the list never enters the decision, and lift
  `children_match` to every reachable state of the parent.
-/
import OdfModel.GrammarHist
import OdfModel.Props.C06
namespace OdfModel.Props.C06
open OdfModel OdfModel.Grammar OdfModel.GrammarApi OdfModel.GrammarData OdfModel.GrammarExceptions
open OdfModel.Generated OdfModel.GrammarHist

/-- no call changes the qname of the parent -/
theorem step_qname (Tb : Tables) (P : Parent) (op : Op) : (step Tb P op).2.qname = P.qname := by
  cases op with
  | add check c =>
    simp only [step]
    split <;> rfl
  | append c => rfl
  | insert i c => rfl
  | text => rfl
  | remove i => rfl

/-- the outcome of one call is the verdict of the single-call model: the child list is not consulted -/
theorem step_verdict (Tb : Tables) (P : Parent) (op : Op) : (step Tb P op).1 = verdict Tb P.qname op := by
  cases op with
  | add check c => rfl
  | append c => rfl
  | insert i c => rfl
  | text => rfl
  | remove i => rfl

theorem run_qname (Tb : Tables) (ops : List Op) (P : Parent) : (run Tb P ops).2.qname = P.qname := by
  induction ops generalizing P with
  | nil => rfl
  | cons op rest ih =>
    simp only [run]
    rw [ih, step_qname]

/-- **C06 (histories, decisions)**: along any history of calls on one parent — checked and unchecked
    addElement, appendChild, insertBefore, unchecked addText, removeChild, in any order, from any
    initial child list (e.g. the one a loaded file brought) — every call has the outcome it has on
    an empty parent of that qname. -/
theorem history_outcomes_stateless (Tb : Tables) (ops : List Op) (P : Parent) :
    (run Tb P ops).1 = ops.map (verdict Tb P.qname) := by
  induction ops generalizing P with
  | nil => rfl
  | cons op rest ih =>
    simp only [run, List.map_cons]
    rw [ih, step_qname, step_verdict]

/-- a checked addElement after any history is accepted exactly when the single-call model accepts it -/
theorem history_then_checked_add (Tb : Tables) (p : Nat) (kids : List Kid) (ops : List Op) (c : Nat) :
    ((step Tb (run Tb ⟨p, kids⟩ ops).2 (.add true c)).1 = none) ↔ allowsChild Tb p c = true := by
  rw [step_verdict, run_qname]
  show raised (addElement Tb true p c) = none ↔ (addElement Tb true p c).isOk = true
  generalize addElement Tb true p c = r
  cases r <;> simp [raised, Except.isOk, Except.toBool]

/-- **C06 (histories, children)**: for every parent element of the tables, in every state a history
    of calls can bring it to, a checked addElement of a child is accepted iff the shipped schema
    permits that child there (or the pair is a documented exception / a listed finding). -/
theorem history_children_match (p : Nat) (hp : p < GrammarTables.nElems) (kids : List Kid) (ops : List Op) (c : Nat) :
    (((step T (run T ⟨p, kids⟩ ops).2 (.add true c)).1 = none) ↔ schema.permitsChild p c = true)
    ∨ inExceptions .children (elemName p) (elemName c) = true
    ∨ inKnownFindings .children (elemName p) (elemName c) = true := by
  rcases children_match p hp c with h | h
  · left
    rw [history_then_checked_add, h]
  · exact Or.inr h

/-- the element children of a child list that the tables do not allow under `p` -/
def illegalKids (Tb : Tables) (p : Nat) (kids : List Kid) : List Kid :=
  kids.filter fun k => match k with
    | .elem c => !(allowsChild Tb p c)
    | .text => false

def checkedOnly : Op → Bool
  | .add true _ => true
  | .text => true
  | _ => false

theorem illegalKids_append (Tb : Tables) (p : Nat) (a b : List Kid) :
    illegalKids Tb p (a ++ b) = illegalKids Tb p a ++ illegalKids Tb p b := by
  simp [illegalKids]

theorem step_add_kids (Tb : Tables) (P : Parent) (c : Nat) :
    (step Tb P (.add true c)).2.kids = if allowsChild Tb P.qname c = true then P.kids ++ [.elem c] else P.kids := by
  simp only [step, allowsChild]
  split <;> simp_all

/-- **C06 (histories, the parent's content)**: a history that consists of checked addElement calls
    (and text) adds no element child that the tables refuse: the refused children found in the
    parent afterwards are exactly those that were there before — one unchecked child does not open
    the door for more of its kind. -/
theorem checked_history_adds_no_illegal (Tb : Tables) (ops : List Op) (P : Parent)
    (h : ops.all checkedOnly = true) :
    illegalKids Tb P.qname (run Tb P ops).2.kids = illegalKids Tb P.qname P.kids := by
  induction ops generalizing P with
  | nil => rfl
  | cons op rest ih =>
    simp only [List.all_cons, Bool.and_eq_true] at h
    simp only [run]
    have hr := ih (step Tb P op).2 h.2
    rw [step_qname] at hr
    rw [hr]
    cases op with
    | add check c =>
      cases check with
      | false => simp [checkedOnly] at h
      | true =>
        rw [step_add_kids]
        by_cases ha : allowsChild Tb P.qname c = true
        · simp [ha, illegalKids]
        · simp [ha]
    | text => simp [step, illegalKids]
    | append c => simp [checkedOnly] at h
    | insert i c => simp [checkedOnly] at h
    | remove i => simp [checkedOnly] at h

/-- the history of the seeded class is in the domain and not vacuous: `text:p` forced into
    `table:table` with check_grammar=False, then a checked `text:p` (refused), a checked
    `table:table-row` (accepted), `text:p` again (refused) -/
example :
    let t := GrammarNames.elemName.idxOf (GrammarNamesCodec.encode "table:table")
    let p := GrammarNames.elemName.idxOf (GrammarNamesCodec.encode "text:p")
    let r := GrammarNames.elemName.idxOf (GrammarNamesCodec.encode "table:table-row")
    (run T ⟨t, []⟩ [.add false p, .add true p, .add true r, .add true p, .append p, .add true p])
      = ([none, some .IllegalChild, none, some .IllegalChild, none, some .IllegalChild],
         ⟨t, [.elem p, .elem r, .elem p]⟩) := by
  decide +kernel

end OdfModel.Props.C06

/-
  Property C06, the value and the text as arguments: "adding text or CDATA, or setting an attribute
  by keyword succeeds if and only if the schema permits it for that element" speaks of the element
  (and the keyword) only.  The theorems here say that in the model of OdfModel.GrammarValues the
  string / the value never enters the decision: the outcome is the one of the single-call model
  (OdfModel.GrammarApi.addText / addCDATA / setAttribute, which Props/C06.lean compares with the
  schema row by row), for the empty string, white space, NO-BREAK SPACE, None, 0 … alike; and that
  accepted text is kept as it was given.
-/
import OdfModel.GrammarValues
namespace OdfModel.Props.C06
open OdfModel OdfModel.GrammarApi OdfModel.GrammarValues

/-- **C06 (text as a dimension)** addText with the string `s` is refused exactly when the single-call
    model refuses text in that element - whatever `s` is -/
theorem addTextS_decision (T : Tables) (check : Bool) (e : Nat) (s : Str) :
    (addTextS T check e s).toBool = (addText T check e).toBool := by
  unfold addTextS addText
  by_cases h : (check && !(allowsTextOf T e)) = true
  · simp [h, Except.toBool]
  · by_cases hs : (s != []) = true <;> simp [h, hs, Except.toBool]

/-- a refusal is IllegalText, for every string -/
theorem addTextS_refusal (T : Tables) (check : Bool) (e : Nat) (s : Str) (x : Err)
    (h : addTextS T check e s = .error x) : x = .IllegalText ∧ addText T check e = .error .IllegalText := by
  unfold addTextS at h
  unfold addText
  by_cases hc : (check && !(allowsTextOf T e)) = true
  · simp [hc] at h ⊢; exact h.symm
  · by_cases hs : (s != []) = true <;> simp [hc, hs] at h

/-- the decision for two strings is the same: the refusal cannot depend on the text -/
theorem addTextS_independent (T : Tables) (check : Bool) (e : Nat) (s t : Str) :
    (addTextS T check e s).toBool = (addTextS T check e t).toBool := by
  rw [addTextS_decision, addTextS_decision]

/-- accepted text that is not empty is kept as it was given: one node with exactly that data
    (a NO-BREAK SPACE is not dropped) -/
theorem addTextS_kept (T : Tables) (check : Bool) (e : Nat) (s : Str) (hs : s ≠ [])
    (h : addText T check e = .ok ()) : addTextS T check e s = .ok [s] := by
  unfold addText at h
  unfold addTextS
  by_cases hc : (check && !(allowsTextOf T e)) = true
  · simp [hc] at h
  · simp [hc, hs]

/-- **C06 (text as a dimension, CDATA)** -/
theorem addCDATAS_decision (T : Tables) (check : Bool) (e : Nat) (s : Str) :
    (addCDATAS T check e s).toBool = (addCDATA T check e).toBool := by
  unfold addCDATAS addCDATA addText
  by_cases h : (check && !(allowsTextOf T e)) = true <;> simp [h, Except.toBool]

theorem addCDATAS_kept (T : Tables) (check : Bool) (e : Nat) (s : Str)
    (h : addCDATA T check e = .ok ()) : addCDATAS T check e s = .ok [s] := by
  unfold addCDATA addText at h
  unfold addCDATAS
  by_cases hc : (check && !(allowsTextOf T e)) = true
  · simp [hc] at h
  · simp [hc]

/-- **C06 (value as a dimension)** setAttribute with the value `v`: the outcome is the one of the
    single-call model - the attribute the keyword stands for together with the value as given, or the
    same error - whatever `v` is (None, '', 0, an element …) -/
theorem setAttributeV_decision (T : Tables) (check : Bool) (e kw : Nat) (v : Val) :
    setAttributeV T check e kw v = (setAttribute T check e kw).map (fun a => (a, v)) := by
  unfold setAttributeV setAttribute
  cases h1 : allowedAttrsOf T e with
  | none => simp [Except.map]
  | some l =>
    cases h2 : firstWithKw T kw l with
    | some a => simp [Except.map, h2]
    | none => cases check <;> simp [Except.map, h2]

/-- a keyword refused for one value is refused, with the same error, for every value -/
theorem setAttributeV_refusal_independent (T : Tables) (check : Bool) (e kw : Nat) (v w : Val) (x : Err)
    (h : setAttributeV T check e kw v = .error x) : setAttributeV T check e kw w = .error x := by
  rw [setAttributeV_decision] at h ⊢
  cases hs : setAttribute T check e kw with
  | error y => rw [hs] at h; simpa [Except.map] using h
  | ok a => rw [hs] at h; simp [Except.map] at h

/-- the hypotheses are satisfiable: an element without attribute table refuses a keyword given with None -/
example : setAttributeV ⟨[], [], [], [], []⟩ true 0 0 Val.none = .error .AttributeError := by rfl

end OdfModel.Props.C06

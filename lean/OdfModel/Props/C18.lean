import OdfModel.Xhtml
import OdfModel.Moin
namespace OdfModel.Props.C18
open OdfModel OdfModel.Xhtml

/-- placeholder while the model is being tied to the code -/
theorem render_nil : render [] = [] := rfl

end OdfModel.Props.C18

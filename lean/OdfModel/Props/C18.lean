/-
  C18 — the XHTML and MoinMoin converters are total, complete and escape everything.

  Models: `OdfModel.Xhtml` (odf/odf2xhtml.py), `OdfModel.Moin` (odf/odf2moinmoin.py); helper lemmas in
  `OdfModel.XhtmlLemmas`.  Everything here is PARTIAL BY CONSTRUCTION: only the converters' supported vocabulary is
  modelled (`Supported`, `Block`/`Inline`), and the style sheet text is a parameter of the token model (`Cfg.cssText`; its
  writer is covered by `css_section_partial`).  All nine findings were repaired in /repo (a71a4f0 … 22e9516); none is excluded.
-/
import OdfModel.XhtmlLemmas
import OdfModel.XhtmlText
import OdfModel.XhtmlEscape
import OdfModel.Moin
import OdfModel.MoinLemmas
namespace OdfModel.Props.C18
open OdfModel OdfModel.Xhtml OdfModel.Generated.Xhtml


/-! ## The vocabulary: element names and what the regenerated dispatch table says about them -/

def qDocument : Str := [111, 102, 102, 105, 99, 101, 58, 100, 111, 99, 117, 109, 101, 110, 116]  -- office:document
def qBody : Str := [111, 102, 102, 105, 99, 101, 58, 98, 111, 100, 121]  -- office:body
def qText : Str := [111, 102, 102, 105, 99, 101, 58, 116, 101, 120, 116]  -- office:text
def qSpreadsheet : Str := [111, 102, 102, 105, 99, 101, 58, 115, 112, 114, 101, 97, 100, 115, 104, 101, 101, 116]  -- office:spreadsheet
def qPresentation : Str := [111, 102, 102, 105, 99, 101, 58, 112, 114, 101, 115, 101, 110, 116, 97, 116, 105, 111, 110]  -- office:presentation
def qMeta : Str := [111, 102, 102, 105, 99, 101, 58, 109, 101, 116, 97]  -- office:meta
def qStyles : Str := [111, 102, 102, 105, 99, 101, 58, 115, 116, 121, 108, 101, 115]  -- office:styles
def qAutoStyles : Str := [111, 102, 102, 105, 99, 101, 58, 97, 117, 116, 111, 109, 97, 116, 105, 99, 45, 115, 116, 121, 108, 101, 115]  -- office:automatic-styles
def qMasterStyles : Str := [111, 102, 102, 105, 99, 101, 58, 109, 97, 115, 116, 101, 114, 45, 115, 116, 121, 108, 101, 115]  -- office:master-styles
def qSettings : Str := [111, 102, 102, 105, 99, 101, 58, 115, 101, 116, 116, 105, 110, 103, 115]  -- office:settings
def qFontDecls : Str := [111, 102, 102, 105, 99, 101, 58, 102, 111, 110, 116, 45, 102, 97, 99, 101, 45, 100, 101, 99, 108, 115]  -- office:font-face-decls
def qScripts : Str := [111, 102, 102, 105, 99, 101, 58, 115, 99, 114, 105, 112, 116, 115]  -- office:scripts
def qTitle : Str := [100, 99, 58, 116, 105, 116, 108, 101]  -- dc:title
def qCreator : Str := [100, 99, 58, 99, 114, 101, 97, 116, 111, 114]  -- dc:creator
def qLanguage : Str := [100, 99, 58, 108, 97, 110, 103, 117, 97, 103, 101]  -- dc:language
def qGenerator : Str := [109, 101, 116, 97, 58, 103, 101, 110, 101, 114, 97, 116, 111, 114]  -- meta:generator
def qUserDefined : Str := [109, 101, 116, 97, 58, 117, 115, 101, 114, 45, 100, 101, 102, 105, 110, 101, 100]  -- meta:user-defined
def qStyle : Str := [115, 116, 121, 108, 101, 58, 115, 116, 121, 108, 101]  -- style:style
def qTextProps : Str := [115, 116, 121, 108, 101, 58, 116, 101, 120, 116, 45, 112, 114, 111, 112, 101, 114, 116, 105, 101, 115]  -- style:text-properties
def qListStyle : Str := [116, 101, 120, 116, 58, 108, 105, 115, 116, 45, 115, 116, 121, 108, 101]  -- text:list-style
def qLevelBullet : Str := [116, 101, 120, 116, 58, 108, 105, 115, 116, 45, 108, 101, 118, 101, 108, 45, 115, 116, 121, 108, 101, 45, 98, 117, 108, 108, 101, 116]  -- text:list-level-style-bullet
def qLevelNumber : Str := [116, 101, 120, 116, 58, 108, 105, 115, 116, 45, 108, 101, 118, 101, 108, 45, 115, 116, 121, 108, 101, 45, 110, 117, 109, 98, 101, 114]  -- text:list-level-style-number
def qP : Str := [116, 101, 120, 116, 58, 112]  -- text:p
def qH : Str := [116, 101, 120, 116, 58, 104]  -- text:h
def qSpan : Str := [116, 101, 120, 116, 58, 115, 112, 97, 110]  -- text:span
def qA : Str := [116, 101, 120, 116, 58, 97]  -- text:a
def qList : Str := [116, 101, 120, 116, 58, 108, 105, 115, 116]  -- text:list
def qListItem : Str := [116, 101, 120, 116, 58, 108, 105, 115, 116, 45, 105, 116, 101, 109]  -- text:list-item
def qTable : Str := [116, 97, 98, 108, 101, 58, 116, 97, 98, 108, 101]  -- table:table
def qRow : Str := [116, 97, 98, 108, 101, 58, 116, 97, 98, 108, 101, 45, 114, 111, 119]  -- table:table-row
def qCell : Str := [116, 97, 98, 108, 101, 58, 116, 97, 98, 108, 101, 45, 99, 101, 108, 108]  -- table:table-cell
def qColumn : Str := [116, 97, 98, 108, 101, 58, 116, 97, 98, 108, 101, 45, 99, 111, 108, 117, 109, 110]  -- table:table-column
def qCovered : Str := [116, 97, 98, 108, 101, 58, 99, 111, 118, 101, 114, 101, 100, 45, 116, 97, 98, 108, 101, 45, 99, 101, 108, 108]  -- table:covered-table-cell
def qFrame : Str := [100, 114, 97, 119, 58, 102, 114, 97, 109, 101]  -- draw:frame
def qTextBox : Str := [100, 114, 97, 119, 58, 116, 101, 120, 116, 45, 98, 111, 120]  -- draw:text-box
def qImage : Str := [100, 114, 97, 119, 58, 105, 109, 97, 103, 101]  -- draw:image
def qPage : Str := [100, 114, 97, 119, 58, 112, 97, 103, 101]  -- draw:page
def qNote : Str := [116, 101, 120, 116, 58, 110, 111, 116, 101]  -- text:note
def qCitation : Str := [116, 101, 120, 116, 58, 110, 111, 116, 101, 45, 99, 105, 116, 97, 116, 105, 111, 110]  -- text:note-citation
def qNoteBody : Str := [116, 101, 120, 116, 58, 110, 111, 116, 101, 45, 98, 111, 100, 121]  -- text:note-body
def qS : Str := [116, 101, 120, 116, 58, 115]  -- text:s
def qTab : Str := [116, 101, 120, 116, 58, 116, 97, 98]  -- text:tab
def qLineBreak : Str := [116, 101, 120, 116, 58, 108, 105, 110, 101, 45, 98, 114, 101, 97, 107]  -- text:line-break
def qBookmark : Str := [116, 101, 120, 116, 58, 98, 111, 111, 107, 109, 97, 114, 107]  -- text:bookmark
def qBookmarkStart : Str := [116, 101, 120, 116, 58, 98, 111, 111, 107, 109, 97, 114, 107, 45, 115, 116, 97, 114, 116]  -- text:bookmark-start
def qBookmarkEnd : Str := [116, 101, 120, 116, 58, 98, 111, 111, 107, 109, 97, 114, 107, 45, 101, 110, 100]  -- text:bookmark-end
def qBookmarkRef : Str := [116, 101, 120, 116, 58, 98, 111, 111, 107, 109, 97, 114, 107, 45, 114, 101, 102]  -- text:bookmark-ref
def qListHeader : Str := [116, 101, 120, 116, 58, 108, 105, 115, 116, 45, 104, 101, 97, 100, 101, 114]  -- text:list-header
def qHeaderRows : Str := [116, 97, 98, 108, 101, 58, 116, 97, 98, 108, 101, 45, 104, 101, 97, 100, 101, 114, 45, 114, 111, 119, 115]  -- table:table-header-rows
def qSoftPageBreak : Str := [116, 101, 120, 116, 58, 115, 111, 102, 116, 45, 112, 97, 103, 101, 45, 98, 114, 101, 97, 107]  -- text:soft-page-break
def qSection : Str := [116, 101, 120, 116, 58, 115, 101, 99, 116, 105, 111, 110]  -- text:section
def qCustomShape : Str := [100, 114, 97, 119, 58, 99, 117, 115, 116, 111, 109, 45, 115, 104, 97, 112, 101]  -- draw:custom-shape
def qRect : Str := [100, 114, 97, 119, 58, 114, 101, 99, 116]  -- draw:rect
def qEllipse : Str := [100, 114, 97, 119, 58, 101, 108, 108, 105, 112, 115, 101]  -- draw:ellipse

/-- the supported vocabulary with its (start handler, end handler) -/
def vocabulary : List (Str × Option HName × Option HName) := [
  (qDocument, some .s_office_document_content, some .e_office_document_content),
  (qBody, none, none),
  (qText, some .s_office_text, some .e_office_text),
  (qSpreadsheet, some .s_office_spreadsheet, some .e_office_spreadsheet),
  (qPresentation, some .s_office_presentation, some .e_office_presentation),
  (qMeta, some .s_ignorecont, none),
  (qSettings, some .s_ignorexml, none),
  (qScripts, some .s_ignorexml, none),
  (qFontDecls, none, none),
  (qStyles, some .s_office_styles, none),
  (qAutoStyles, some .s_office_automatic_styles, none),
  (qMasterStyles, some .s_office_master_styles, none),
  (qTitle, some .s_processcont, some .e_dc_title),
  (qCreator, some .s_processcont, some .e_dc_creator),
  (qLanguage, some .s_processcont, some .e_dc_contentlanguage),
  (qGenerator, some .s_processcont, some .e_dc_metatag),
  (qUserDefined, none, none),
  (qStyle, some .s_style_style, some .e_style_style),
  (qTextProps, some .s_style_handle_properties, none),
  (qListStyle, none, none),
  (qLevelBullet, some .s_text_list_level_style_bullet, some .e_text_list_level_style_bullet),
  (qLevelNumber, some .s_text_list_level_style_number, some .e_text_list_level_style_number),
  (qP, some .s_text_p, some .e_text_p),
  (qH, some .s_text_h, some .e_text_h),
  (qSpan, some .s_text_span, some .e_text_span),
  (qA, some .s_text_a, some .e_text_a),
  (qList, some .s_text_list, some .e_text_list),
  (qListItem, some .s_text_list_item, some .e_text_list_item),
  (qTable, some .s_table_table, some .e_table_table),
  (qRow, some .s_table_table_row, some .e_table_table_row),
  (qCell, some .s_table_table_cell, some .e_table_table_cell),
  (qColumn, some .s_table_table_column, none),
  (qCovered, some .s_ignorexml, none),
  (qFrame, some .s_draw_frame, some .e_draw_frame),
  (qTextBox, some .s_draw_textbox, some .e_draw_textbox),
  (qCustomShape, some .s_custom_shape, some .e_custom_shape),
  (qRect, some .s_draw_shape, none),
  (qEllipse, some .s_draw_shape, none),
  (qImage, some .s_draw_image, none),
  (qPage, some .s_draw_page, some .e_draw_page),
  (qNote, some .s_text_note, none),
  (qCitation, none, some .e_text_note_citation),
  (qNoteBody, some .s_text_note_body, some .e_text_note_body),
  (qS, some .s_text_s, none),
  (qTab, some .s_text_tab, none),
  (qLineBreak, some .s_text_line_break, none),
  (qBookmark, some .s_text_bookmark, none),
  (qBookmarkStart, some .s_text_bookmark, none),
  (qBookmarkEnd, none, none),
  (qBookmarkRef, some .s_text_bookmark_ref, some .e_text_a),
  (qSection, none, none),
  (qListHeader, none, none),
  (qHeaderRows, none, none),
  (qSoftPageBreak, none, none)
]

/-- **tie to the source**: the handler pairs of the supported vocabulary, read off the dispatch dict of a live
    `ODF2XHTML()` (regenerated on every run).  A renamed, removed or re-wired handler breaks this theorem. -/
theorem vocabulary_dispatch : ∀ e ∈ vocabulary, dispatch e.1 = e.2 := by
  decide +kernel

/-- **tie to the source** (AST of odf/odf2xhtml.py, regenerated): `writedata` writes `escape(d)`, `opentag` and `emptytag`
    quote every attribute value with `quoteattr`, and no handler or helper hands a document-derived string to the output
    any other way (write kind 9 = a string that is neither a literal, nor `escape(…)`, nor a tag helper, nor a template
    whose arguments are literals / `quoteattr(…)`, nor collected output, nor the note number). -/
theorem handlers_escape :
    coreEscapes = (true, true, true) ∧ handlerWrites.all (fun hw => !hw.2.contains 9) = true ∧
    nsdictInjective = true ∧ cssWritesSafe = true := by
  decide +kernel

/-! ## The supported documents -/

/-- the three kinds of document body (text, spreadsheet, presentation): their handlers are `html_body` at the start and
    `generate_footnotes` + `</body>` at the end -/
def BodyH (hs he : HName) : Prop :=
  (hs = .s_office_text ∧ he = .e_office_text) ∨ (hs = .s_office_spreadsheet ∧ he = .e_office_spreadsheet) ∨
  (hs = .s_office_presentation ∧ he = .e_office_presentation)

/-- **the quantifier of C18 as far as it is modelled**: a loaded document
      office:document [ meta / settings / styles …,  office:body [ office:text | spreadsheet | presentation [ running text ] ] ]
    whose head part only meets handlers that write nothing (`Head`), and whose body is running text of the supported
    vocabulary (`Flow`: paragraphs, headings (outline level absent or decimal), spans, links with a target, lists, tables,
    frames, text boxes, images, notes of the shape citation+body outside other notes, s/tab/line-break, bookmarks,
    elements without handler such as sections, ignored elements). -/
inductive Supported : Node → Prop
  | mk (qd : Str) (ad : Attrs) (pre : List Node) (qb : Str) (ab : Attrs) (qt : Str) (at_ : Attrs) (blocks : List Node)
      (hs he : HName) :
      dispatch qd = (some .s_office_document_content, some .e_office_document_content) →
      HeadL [(qd, ad)] pre → dispatch qb = (none, none) →
      dispatch qt = (some hs, some he) → BodyH hs he → FlowL false blocks →
      Supported (.elem qd ad (pre ++ [.elem qb ab [.elem qt at_ blocks]]))


/-! ## The vocabulary is supported: every element kind of the property's quantifier is running text (`Flow`) -/

theorem disp {q : Str} {hs he : Option HName} (h : (q, hs, he) ∈ vocabulary) : dispatch q = (hs, he) :=
  vocabulary_dispatch (q, hs, he) h

theorem flow_p (b : Bool) (a : Attrs) (kids : List Node) (h : FlowL b kids) : Flow b (.elem qP a kids) :=
  .bracket b qP a kids _ _ (disp (by decide)) (.p a) h
theorem flow_h (b : Bool) (a : Attrs) (kids : List Node) (lvl : Nat) (hl : headingLevel a = .ok lvl) (h : FlowL b kids) :
    Flow b (.elem qH a kids) := .bracket b qH a kids _ _ (disp (by decide)) (.heading a lvl hl) h
theorem flow_span (b : Bool) (a : Attrs) (kids : List Node) (h : FlowL b kids) : Flow b (.elem qSpan a kids) :=
  .bracket b qSpan a kids _ _ (disp (by decide)) (.span a) h
theorem flow_a (b : Bool) (a : Attrs) (kids : List Node) (v : Str) (hv : a.lookup kHref = some v) (h : FlowL b kids) :
    Flow b (.elem qA a kids) := .bracket b qA a kids _ _ (disp (by decide)) (.link a v hv) h
theorem flow_bookmark_ref (b : Bool) (a : Attrs) (kids : List Node) (v : Str) (hv : a.lookup kRefName = some v) (h : FlowL b kids) :
    Flow b (.elem qBookmarkRef a kids) := .bracket b qBookmarkRef a kids _ _ (disp (by decide)) (.bmref a v hv) h
theorem flow_list (b : Bool) (a : Attrs) (kids : List Node) (h : FlowL b kids) : Flow b (.elem qList a kids) :=
  .bracket b qList a kids _ _ (disp (by decide)) (.list a) h
theorem flow_list_item (b : Bool) (a : Attrs) (kids : List Node) (h : FlowL b kids) : Flow b (.elem qListItem a kids) :=
  .bracket b qListItem a kids _ _ (disp (by decide)) (.item a) h
theorem flow_table (b : Bool) (a : Attrs) (kids : List Node) (h : FlowL b kids) : Flow b (.elem qTable a kids) :=
  .bracket b qTable a kids _ _ (disp (by decide)) (.table a) h
theorem flow_row (b : Bool) (a : Attrs) (kids : List Node) (h : FlowL b kids) : Flow b (.elem qRow a kids) :=
  .bracket b qRow a kids _ _ (disp (by decide)) (.row a) h
theorem flow_cell (b : Bool) (a : Attrs) (kids : List Node) (h : FlowL b kids) : Flow b (.elem qCell a kids) :=
  .bracket b qCell a kids _ _ (disp (by decide)) (.cell a) h
theorem flow_frame (b : Bool) (a : Attrs) (kids : List Node) (h : FlowL b kids) : Flow b (.elem qFrame a kids) :=
  .bracket b qFrame a kids _ _ (disp (by decide)) (.frame a) h
/-- drawing shapes that hold paragraphs (e7e9e0f): draw:custom-shape is a <div> like the frame, draw:rect / draw:ellipse
    (handler `s_draw_shape`) only write the pending text -/
theorem flow_custom_shape (b : Bool) (a : Attrs) (kids : List Node) (h : FlowL b kids) : Flow b (.elem qCustomShape a kids) :=
  .bracket b qCustomShape a kids _ _ (disp (by decide)) (.shape a) h
theorem flow_rect (b : Bool) (a : Attrs) (kids : List Node) (h : FlowL b kids) : Flow b (.elem qRect a kids) :=
  .leaf b qRect a kids _ (disp (by decide)) (.drawshape a) h
theorem flow_ellipse (b : Bool) (a : Attrs) (kids : List Node) (h : FlowL b kids) : Flow b (.elem qEllipse a kids) :=
  .leaf b qEllipse a kids _ (disp (by decide)) (.drawshape a) h
theorem flow_text_box (b : Bool) (a : Attrs) (kids : List Node) (h : FlowL b kids) : Flow b (.elem qTextBox a kids) :=
  .bracket b qTextBox a kids _ _ (disp (by decide)) (.textbox a) h
theorem flow_page (b : Bool) (a : Attrs) (kids : List Node) (h : FlowL b kids) : Flow b (.elem qPage a kids) :=
  .bracket b qPage a kids _ _ (disp (by decide)) (.page a) h
theorem flow_column (b : Bool) (a : Attrs) (n : Nat) (hn : pyInt ((a.lookup kColsRepeated).getD sOne) = some n) :
    Flow b (.elem qColumn a []) := .leaf b qColumn a [] _ (disp (by decide)) (.column a n hn) (.nil b)
theorem flow_covered (b : Bool) (a : Attrs) (kids : List Node) : Flow b (.elem qCovered a kids) :=
  .ignored b qCovered a kids none (disp (by decide))
theorem flow_image (b : Bool) (a : Attrs) (v : Str) (hv : a.lookup kHref = some v) : Flow b (.elem qImage a []) :=
  .leaf b qImage a [] _ (disp (by decide)) (.image a v hv) (.nil b)
theorem flow_s (b : Bool) (a : Attrs) (n : Nat) (hn : pyInt ((a.lookup kC).getD sOne) = some n) : Flow b (.elem qS a []) :=
  .leaf b qS a [] _ (disp (by decide)) (.s a n hn) (.nil b)
theorem flow_tab (b : Bool) (a : Attrs) : Flow b (.elem qTab a []) := .leaf b qTab a [] _ (disp (by decide)) (.tab a) (.nil b)
theorem flow_line_break (b : Bool) (a : Attrs) : Flow b (.elem qLineBreak a []) :=
  .leaf b qLineBreak a [] _ (disp (by decide)) (.br a) (.nil b)
theorem flow_bookmark (b : Bool) (a : Attrs) (v : Str) (hv : a.lookup kName = some v) : Flow b (.elem qBookmark a []) :=
  .leaf b qBookmark a [] _ (disp (by decide)) (.bookmark a v hv) (.nil b)
theorem flow_bookmark_start (b : Bool) (a : Attrs) (v : Str) (hv : a.lookup kName = some v) : Flow b (.elem qBookmarkStart a []) :=
  .leaf b qBookmarkStart a [] _ (disp (by decide)) (.bookmark a v hv) (.nil b)
theorem flow_bookmark_end (b : Bool) (a : Attrs) : Flow b (.elem qBookmarkEnd a []) :=
  .transparent b qBookmarkEnd a [] (disp (by decide)) (.nil b)
theorem flow_section (b : Bool) (a : Attrs) (kids : List Node) (h : FlowL b kids) : Flow b (.elem qSection a kids) :=
  .transparent b qSection a kids (disp (by decide)) h
/-- a note (foot note or end note) outside other notes: citation with its label, body with running text -/
theorem flow_note (a ac ab : Attrs) (label : List Str) (kids : List Node) (h : FlowL true kids) :
    Flow false (.elem qNote a [.elem qCitation ac (label.map Node.text), .elem qNoteBody ab kids]) :=
  .note qNote a qCitation ac label qNoteBody ab kids (disp (by decide)) (disp (by decide)) (disp (by decide)) h

/-- a text document with the given running text and nothing before the body -/
def textDoc (blocks : List Node) : Node := .elem qDocument [] [.elem qBody [] [.elem qText [] blocks]]

theorem supported_textDoc (blocks : List Node) (h : FlowL false blocks) : Supported (textDoc blocks) :=
  Supported.mk qDocument [] [] qBody [] qText [] blocks _ _ (disp (by decide)) (.nil _) (disp (by decide)) (disp (by decide))
    (Or.inl ⟨rfl, rfl⟩) h

/-- the hypotheses are satisfiable: <p>a<span>b</span><s/>, a foot note</p> <h outline-level="2">c</h> <list><item><p>d</p></item></list> -/
example : Supported (textDoc
    [.elem qP [] [.text [97], .elem qSpan [] [.text [98]], .elem qS [] [],
                  .elem qNote [] [.elem qCitation [] [.text [49]], .elem qNoteBody [] [.elem qP [] [.text [102]]]]],
     .elem qH [(kOutline, [50])] [.text [99]],
     .elem qList [] [.elem qListItem [] [.elem qP [] [.text [100]]]]]) := by
  apply supported_textDoc
  refine .cons _ _ _ (flow_p _ _ _ (.cons _ _ _ (.text _ _) (.cons _ _ _ (flow_span _ _ _ (.cons _ _ _ (.text _ _) (.nil _)))
    (.cons _ _ _ (flow_s _ _ 1 (by decide)) (.cons _ _ _ (flow_note [] [] [] [[49]] _ (.cons _ _ _ (flow_p _ _ _ (.cons _ _ _ (.text _ _) (.nil _))) (.nil _))) (.nil _))))))
    (.cons _ _ _ (flow_h _ _ _ 2 (by rfl) (.cons _ _ _ (.text _ _) (.nil _)))
    (.cons _ _ _ (flow_list _ _ _ (.cons _ _ _ (flow_list_item _ _ _ (.cons _ _ _ (flow_p _ _ _ (.cons _ _ _ (.text _ _) (.nil _))) (.nil _))) (.nil _))) (.nil _)))

/-! ## total and balanced -/

theorem runH_body_start (cfg : Cfg) (ctx : Ctx) {hs he : HName} (hb : BodyH hs he) (q : Str) (a : Attrs) (pe pc : Bool) (st : St) :
    runH cfg ctx hs q a pe pc st = (htmlBody cfg st).map (fun s => (s, pe, pc)) := by
  rcases hb with ⟨h, _⟩ | ⟨h, _⟩ | ⟨h, _⟩ <;> subst h <;> rfl

theorem runH_body_end (cfg : Cfg) (ctx : Ctx) {hs he : HName} (hb : BodyH hs he) (q : Str) (a : Attrs) (pe pc : Bool) (st : St) :
    runH cfg ctx he q a pe pc st =
      (do let st ← generateFootnotes cfg st; closetag nBody true st : M St).map (fun s => (s, pe, pc)) := by
  rcases hb with ⟨_, h⟩ | ⟨_, h⟩ | ⟨_, h⟩ <;> subst h <;> rfl

/-- the body element: `</head><body>` … foot notes `</body>` -/
theorem walk_body (cfg : Cfg) (ctx : Ctx) (st : St) (qt : Str) (at_ : Attrs) (blocks : List Node) {hs he : HName}
    (hd : dispatch qt = (some hs, some he)) (hb : BodyH hs he) (hf : FlowL false blocks) (hpe : ctx.pe = true)
    (hi : Inv false st) (hn : st.notes = []) (hdepth : 2 ≤ st.depth) :
    ∃ st', walk cfg ctx st (.elem qt at_ blocks) = .ok st' ∧ st'.depth + 1 = st.depth ∧ st'.saved = st.saved ∧
      ∀ s S, bal st.out s = some (nHead :: S) → bal st'.out s = some S := by
  obtain ⟨st1, h1, hd1, hs1, hb1⟩ := htmlBody_spec cfg st (by omega)
  have hi1 : Inv false st1 := ⟨by rw [hs1.saved]; exact hi.1, by rw [hs1.nbOpen]; exact hi.2.1, by rw [hs1.cur, hs1.notes]; exact hi.2.2⟩
  obtain ⟨st2, h2, e2⟩ := walkList_flow cfg blocks false ⟨(qt, at_) :: ctx.stack, true, ctx.pc⟩ st1 hf rfl (by simp) hi1
  obtain ⟨N, hN, okN, _⟩ := e2.notes
  have hn2 : NotesOK st2.notes := by rw [hN, hs1.notes, hn]; simpa using okN
  obtain ⟨st3, h3, hd3, hs3, hb3⟩ := generateFootnotes_spec cfg st2 hn2
  have hdep3 : 0 < st3.depth := by rw [hd3, e2.depth, hd1]; omega
  refine ⟨closePure nBody true st3, ?_, ?_, ?_, ?_⟩
  · rw [walk_elem _ _ _ _ _ _ hpe]
    simp only [startEl, endEl, hd, runH_body_start cfg ctx hb, runH_body_end cfg ctx hb, h1, Except.map, hpe, h2, if_true,
      bind, Except.bind, h3, closetag_ok _ _ _ hdep3]
  · simp; rw [hd3, e2.depth, hd1]; omega
  · simp; rw [hs3.saved, e2.saved, hs1.saved]
  · intro s S h
    have := hb3 s _ (e2.stack s _ (hb1 s S h))
    simp [bal_append, this, bal, br]

/-- what `s_office_document_content` writes first -/
def docStart : List Tok :=
  [.raw .doctype, .otag nHtml [(aXmlns, sXhtmlNs)] true, .otag nHead [] true,
   .etag nMeta [(aHttpEquiv, sContentType), (aContent, sTextHtml)], .raw .titleOpen, .raw .titleClose]

theorem doc_start (cfg : Cfg) (ctx : Ctx) (q : Str) (a : Attrs) (pe pc : Bool) :
    ∃ st1, runH cfg ctx .s_office_document_content q a pe pc St.init = .ok (st1, pe, pc) ∧ st1.out = docStart ∧
      st1.depth = 2 ∧ st1.saved = none ∧ st1.nbOpen = false ∧ st1.notes = [] ∧ st1.cur = 0 :=
  ⟨_, rfl, rfl, rfl, rfl, rfl, rfl, rfl⟩

/-- **C18 (total, balanced) — partial**: for every supported document (see `Supported`) and both settings of
    generate_css, whatever the opaque style sheet text is, the conversion raises no exception and the token sequence it
    writes is a Dyck word: every start handler's tag is closed by the matching end handler, properly nested, foot notes
    included.  Outside the statement: unsupported vocabulary. -/
theorem total_balanced_partial (cfg : Cfg) (doc : Node) (h : Supported doc) :
    ∃ toks, convert cfg doc = .ok toks ∧ Dyck toks := by
  cases h with
  | mk qd ad pre qb ab qt at_ blocks hs he hdd hpre hdb hdt hbody hflow =>
    obtain ⟨st1, hr1, ho1, hdep1, hsv1, hnb1, hno1, hcu1⟩ := doc_start cfg ⟨[], true, true⟩ qd ad true true
    obtain ⟨st2, h2, q2⟩ := walkList_head cfg pre ⟨[(qd, ad)], true, true⟩ st1 hpre
    have hi2 : Inv false st2 := ⟨by rw [q2.saved, hsv1]; rfl, by rw [q2.nbOpen, hnb1], by rw [q2.cur, q2.notes, hcu1, hno1]; rfl⟩
    obtain ⟨st3, h3, hd3, hs3, hb3⟩ := walk_body cfg ⟨(qb, ab) :: [(qd, ad)], true, true⟩ st2 qt at_ blocks hdt hbody hflow rfl hi2
      (by rw [q2.notes, hno1]) (by rw [q2.depth, hdep1]; exact Nat.le_refl 2)
    have hbal3 : bal st3.out [] = some [nHtml] := by
      apply hb3
      rw [q2.out, ho1]; rfl
    have hdep3 : 0 < st3.depth := by rw [q2.depth, hdep1] at hd3; omega
    refine ⟨(closePure nHtml true st3).out, ?_, ?_⟩
    · unfold convert
      rw [walk_elem _ _ _ _ _ _ rfl]
      simp only [startEl, endEl, hdd, hr1, walkList_append, h2, walkList]
      rw [walk_elem _ _ _ _ _ _ rfl]
      simp only [startEl, endEl, hdb, walkList, h3, if_true, runH, closetag_ok _ _ _ hdep3, Except.map]
    · show bal (st3.out ++ [Tok.ctag nHtml true]) [] = some []
      simp [bal_append, hbal3, bal, br]

/-- **C18 (total) — partial**: a supported document is converted without exception -/
theorem total_partial (cfg : Cfg) (doc : Node) (h : Supported doc) : ∀ e, convert cfg doc ≠ .error e := by
  obtain ⟨toks, ht, _⟩ := total_balanced_partial cfg doc h
  intro e he; rw [ht] at he; cases he

/-- **C18 (balanced) — partial**: the token sequence of a supported document is a Dyck word -/
theorem balanced_partial (cfg : Cfg) (doc : Node) (h : Supported doc) (toks : List Tok) (ht : convert cfg doc = .ok toks) :
    Dyck toks := by
  obtain ⟨toks', ht', hd⟩ := total_balanced_partial cfg doc h
  rw [ht] at ht'; cases ht'; exact hd



/-! ## escaped -/

/-- **C18 (escaped) — token level**: a document string can reach the rendered output in three ways only, and each is
    escaped at render time:
    * as a `text` token — rendered `escape(s)`: no `<`, no `>`, and the reference decoder gives `s` back, so every `&`
      in it begins `&amp;`, `&lt;` or `&gt;`;
    * as an attribute value of an `otag`/`etag` token — rendered `name=quoteattr(v)` (see `attr_value_quoted`);
    * as the style sheet `Raw.css` inside the CDATA section — written through `cdataSafe` (`css_section_partial`).
    All other `raw` tokens are constants of the converter or the decimal note number (`raw_tokens_constant`). -/
theorem text_token_escaped (s : Str) :
    renderTok (.text s) = sxEscape s ∧ 60 ∉ renderTok (.text s) ∧ 62 ∉ renderTok (.text s) ∧
      decText (s.length + 1) (renderTok (.text s)) = some s :=
  ⟨rfl, (sxEscape_no_markup s).1, (sxEscape_no_markup s).2, decText_sxEscape s⟩

/-- **C18 (escaped) — attribute values**: an attribute is rendered `name="…"` or `name='…'`; the reference XML
    attribute-value parser reads exactly `v` back and stops behind the closing quote, whatever quotes, `<`, `&`, CR,
    LF or TAB the value contains (v a string of XML characters as load() delivers them). -/
theorem attr_value_quoted (k v X : Str) (hv : Xml.StrOK v) (hf : ∀ c ∈ v, Xml.filtered c = false) :
    ∃ q r1, renderAttr (k, v) ++ X = k ++ 61 :: q :: r1 ∧ (q = 34 ∨ q = 39) ∧
      Spec.parseAttVal (r1.length + 1) q r1 = some (v, X) ∧ 60 ∉ sxQuoteattr v := by
  obtain ⟨q, r1, h1, h2, h3⟩ := attr_roundtrip v X hv hf
  exact ⟨q, r1, by simp [renderAttr, h1], h2, h3, sxQuoteattr_no_lt v⟩

/-- the `raw` tokens: the opaque style sheet, the note number, or one of eight literal strings of odf2xhtml.py -/
theorem raw_tokens_constant (r : Raw) :
    (∃ s, r = .css s) ∨ (∃ n, r = .num n ∧ renderRaw r = natToStr n) ∨
      renderRaw r ∈ [sDoctype, sNbsp, [32], sTitleOpen, sTitleClose, sCdataOpen, sCdataClose, defaultStyles] := by
  cases r <;> simp [renderRaw]

/-- **C18 (escaped) — whole output**: markup characters in text, meta data, link targets or style names add no `<`:
    the rendered output contains exactly as many `<` as the same token sequence with every text and every attribute
    value emptied. -/
theorem escaped_no_new_markup (ts : List Tok) : (render ts).count 60 = (render (ts.map shape)).count 60 :=
  count_lt_render ts

/-- **the style sheet** (the former obligation `cssOK`; repaired by 22e9516): the style sheet text stays a parameter of
    the token model, but its writer is now covered — the regenerated AST fact `cssWritesSafe` (`handlers_escape`) says every
    selector and property line goes through `cdataSafe`, and for such lines the CDATA section is read back exactly and ends
    at the converter's own `]]>` (`Xhtml.css_section_read_back`, restated here). -/
theorem css_section_partial (ls : List Str) (acc Y : Str) (fuel : Nat)
    (hx : ∀ l ∈ ls, ∀ c ∈ l, Spec.isXmlChar c = true ∧ c ≠ 13)
    (hf : (ls.flatMap (fun l => cdataSafe (l ++ [10])) ++ [47, 42] ++ Xml.CDC ++ Y).length + 1 ≤ fuel) :
    ∃ fuel', Y.length + 1 ≤ fuel' ∧
      Spec.parseForest fuel true acc (ls.flatMap (fun l => cdataSafe (l ++ [10])) ++ [47, 42] ++ Xml.CDC ++ Y) =
        Spec.parseForest fuel' false (acc ++ (ls.flatMap (· ++ [10]) ++ [47, 42])) Y :=
  css_section_read_back ls acc Y fuel hx hf

/-! ## complete -/

/-- the body element with the text bookkeeping: everything visible in the running text, then the note bodies -/
theorem walk_body_txt (cfg : Cfg) (ctx : Ctx) (st : St) (qt : Str) (at_ : Attrs) (blocks : List Node) {hs he : HName}
    (hd : dispatch qt = (some hs, some he)) (hb : BodyH hs he) (ht : TxtL false true true blocks) (hpe : ctx.pe = true)
    (hpc : ctx.pc = true) (hi : Inv false st) (hn : st.notes = []) (hdepth : 2 ≤ st.depth) :
    ∃ st', walk cfg ctx st (.elem qt at_ blocks) = .ok st' ∧ 0 < st'.depth ∧
      (visMainL blocks ++ visNotesL blocks).Sublist (textOf st'.out) := by
  obtain ⟨st1, h1, hd1, hs1, hb1⟩ := htmlBody_spec cfg st (by omega)
  have hi1 : Inv false st1 := ⟨by rw [hs1.saved]; exact hi.1, by rw [hs1.nbOpen]; exact hi.2.1, by rw [hs1.cur, hs1.notes]; exact hi.2.2⟩
  obtain ⟨st2, h2, e2, t2⟩ := walkList_txt cfg blocks false true true ⟨(qt, at_) :: ctx.stack, true, true⟩ st1 ht rfl rfl (by simp) hi1
  obtain ⟨N, hN, okN, _⟩ := e2.notes
  have hn2 : NotesOK st2.notes := by rw [hN, hs1.notes, hn]; simpa using okN
  obtain ⟨st3, h3, hd3, hs3, hb3⟩ := generateFootnotes_spec cfg st2 hn2
  have hdep3 : 0 < st3.depth := by rw [hd3, e2.depth, hd1]; omega
  have hmain : (visMainL blocks).Sublist (textOf st2.out) := by
    have := t2.main [] (by unfold Pre; simp)
    unfold Pre at this; simpa using this
  have hnotes : (visNotesL blocks).Sublist (notesText st2.notes) := by
    have := t2.notes [] (by simp)
    simpa using this
  have ht3 : textOf st3.out = textOf st2.out ++ notesText st2.notes := generateFootnotes_text cfg st2 st3 e2.cur h3
  refine ⟨closePure nBody true st3, ?_, ?_, ?_⟩
  · rw [walk_elem _ _ _ _ _ _ hpe]
    simp only [startEl, endEl, hd, runH_body_start cfg ctx hb, runH_body_end cfg ctx hb, h1, Except.map, hpe, hpc, h2, if_true,
      bind, Except.bind, h3, closetag_ok _ _ _ hdep3]
  · simp; rw [hd3, e2.depth, hd1]; omega
  · simp [ht3, tokText]
    exact List.Sublist.append hmain hnotes

/-- completeness for running text in the cleanliness judgement `Txt` (the general form; `complete_partial` below is the
    statement for documents that follow the ODF content model) -/
theorem complete_txt (cfg : Cfg) (qd : Str) (ad : Attrs) (pre : List Node) (qb : Str) (ab : Attrs) (qt : Str) (at_ : Attrs)
    (blocks : List Node) (hs he : HName)
    (hdd : dispatch qd = (some .s_office_document_content, some .e_office_document_content))
    (hpre : HeadL [(qd, ad)] pre) (hdb : dispatch qb = (none, none)) (hdt : dispatch qt = (some hs, some he))
    (hbody : BodyH hs he) (ht : TxtL false true true blocks) :
    ∃ toks, convert cfg (.elem qd ad (pre ++ [.elem qb ab [.elem qt at_ blocks]])) = .ok toks ∧
      (visMainL blocks ++ visNotesL blocks).Sublist (textOf toks) := by
  obtain ⟨st1, hr1, ho1, hdep1, hsv1, hnb1, hno1, hcu1⟩ := doc_start cfg ⟨[], true, true⟩ qd ad true true
  obtain ⟨st2, h2, q2⟩ := walkList_head cfg pre ⟨[(qd, ad)], true, true⟩ st1 hpre
  have hi2 : Inv false st2 := ⟨by rw [q2.saved, hsv1]; rfl, by rw [q2.nbOpen, hnb1], by rw [q2.cur, q2.notes, hcu1, hno1]; rfl⟩
  obtain ⟨st3, h3, hdep3, hsub⟩ := walk_body_txt cfg ⟨(qb, ab) :: [(qd, ad)], true, true⟩ st2 qt at_ blocks hdt hbody ht rfl rfl hi2
    (by rw [q2.notes, hno1]) (by rw [q2.depth, hdep1]; exact Nat.le_refl 2)
  refine ⟨(closePure nHtml true st3).out, ?_, ?_⟩
  · unfold convert
    rw [walk_elem _ _ _ _ _ _ rfl]
    simp only [startEl, endEl, hdd, hr1, walkList_append, h2, walkList]
    rw [walk_elem _ _ _ _ _ _ rfl]
    simp only [startEl, endEl, hdb, walkList, h3, if_true, runH, closetag_ok _ _ _ hdep3, Except.map]
  · simpa [tokText] using hsub

/-! ### the vocabulary in the cleanliness judgement `Txt` (b = inside a note body; c, c' = clean before / after) -/

theorem txt_p (b c2 : Bool) (a : Attrs) (kids : List Node) (h : TxtL b true c2 kids) : Txt b true true (.elem qP a kids) :=
  .bracket b true true c2 true qP a kids _ _ .purge .flush (disp (by decide)) (.p a) rfl rfl ⟨rfl, rfl⟩ h rfl
theorem txt_h (b c2 : Bool) (a : Attrs) (kids : List Node) (lvl : Nat) (hl : headingLevel a = .ok lvl) (h : TxtL b true c2 kids) :
    Txt b true true (.elem qH a kids) :=
  .bracket b true true c2 true qH a kids _ _ .purge .flush (disp (by decide)) (.heading a lvl hl) rfl rfl ⟨rfl, rfl⟩ h rfl
theorem txt_span (b c c2 : Bool) (a : Attrs) (kids : List Node) (h : TxtL b true c2 kids) : Txt b c true (.elem qSpan a kids) :=
  .bracket b c true c2 true qSpan a kids _ _ .flush .flush (disp (by decide)) (.span a) rfl rfl rfl h rfl
theorem txt_a (b c c2 : Bool) (a : Attrs) (kids : List Node) (v : Str) (hv : a.lookup kHref = some v) (h : TxtL b true c2 kids) :
    Txt b c true (.elem qA a kids) :=
  .bracket b c true c2 true qA a kids _ _ .flush .flush (disp (by decide)) (.link a v hv) rfl rfl rfl h rfl
theorem txt_bookmark_ref (b c c2 : Bool) (a : Attrs) (kids : List Node) (v : Str) (hv : a.lookup kRefName = some v)
    (h : TxtL b true c2 kids) : Txt b c true (.elem qBookmarkRef a kids) :=
  .bracket b c true c2 true qBookmarkRef a kids _ _ .flush .flush (disp (by decide)) (.bmref a v hv) rfl rfl rfl h rfl
theorem txt_list (b c2 : Bool) (a : Attrs) (kids : List Node) (h : TxtL b true c2 kids) : Txt b true true (.elem qList a kids) :=
  .bracket b true true c2 true qList a kids _ _ .purge .flush (disp (by decide)) (.list a) rfl rfl ⟨rfl, rfl⟩ h rfl
theorem txt_list_item (b c2 : Bool) (a : Attrs) (kids : List Node) (h : TxtL b true c2 kids) :
    Txt b true true (.elem qListItem a kids) :=
  .bracket b true true c2 true qListItem a kids _ _ .purge .flush (disp (by decide)) (.item a) rfl rfl ⟨rfl, rfl⟩ h rfl
theorem txt_table (b c2 : Bool) (a : Attrs) (kids : List Node) (h : TxtL b true c2 kids) : Txt b true true (.elem qTable a kids) :=
  .bracket b true true c2 true qTable a kids _ _ .purge .flush (disp (by decide)) (.table a) rfl rfl ⟨rfl, rfl⟩ h rfl
theorem txt_row (b c2 : Bool) (a : Attrs) (kids : List Node) (h : TxtL b true c2 kids) : Txt b true true (.elem qRow a kids) :=
  .bracket b true true c2 true qRow a kids _ _ .purge .flush (disp (by decide)) (.row a) rfl rfl ⟨rfl, rfl⟩ h rfl
theorem txt_cell (b c2 : Bool) (a : Attrs) (kids : List Node) (h : TxtL b true c2 kids) : Txt b true true (.elem qCell a kids) :=
  .bracket b true true c2 true qCell a kids _ _ .purge .flush (disp (by decide)) (.cell a) rfl rfl ⟨rfl, rfl⟩ h rfl
/-- a frame writes the pending text before it opens (repair 29b6eef): whatever is pending, its content starts clean -/
theorem txt_frame (b c c' : Bool) (a : Attrs) (kids : List Node) (h : TxtL b true c' kids) : Txt b c c' (.elem qFrame a kids) :=
  .bracket b c true c' c' qFrame a kids _ _ .flush .keep (disp (by decide)) (.frame a) rfl rfl rfl h rfl
/-- a drawing shape writes the pending text before its content (repair e7e9e0f): whatever is pending, its content starts
    clean - the former class `x-pending-before-shape` -/
theorem txt_custom_shape (b c c' : Bool) (a : Attrs) (kids : List Node) (h : TxtL b true c' kids) :
    Txt b c c' (.elem qCustomShape a kids) :=
  .bracket b c true c' c' qCustomShape a kids _ _ .flush .keep (disp (by decide)) (.shape a) rfl rfl rfl h rfl
theorem txt_rect (b c c' : Bool) (a : Attrs) (kids : List Node) (h : TxtL b true c' kids) : Txt b c c' (.elem qRect a kids) :=
  .leaf b c true c' qRect a kids _ .flush (disp (by decide)) (.drawshape a) rfl rfl h
theorem txt_ellipse (b c c' : Bool) (a : Attrs) (kids : List Node) (h : TxtL b true c' kids) : Txt b c c' (.elem qEllipse a kids) :=
  .leaf b c true c' qEllipse a kids _ .flush (disp (by decide)) (.drawshape a) rfl rfl h
theorem txt_text_box (b c c' : Bool) (a : Attrs) (kids : List Node) (h : TxtL b c c' kids) : Txt b c c' (.elem qTextBox a kids) :=
  .bracket b c c c' c' qTextBox a kids _ _ .keep .keep (disp (by decide)) (.textbox a) rfl rfl rfl h rfl
theorem txt_page (b c c' : Bool) (a : Attrs) (kids : List Node) (h : TxtL b c c' kids) : Txt b c c' (.elem qPage a kids) :=
  .bracket b c c c' c' qPage a kids _ _ .keep .keep (disp (by decide)) (.page a) rfl rfl rfl h rfl
theorem txt_image (b c : Bool) (a : Attrs) (v : Str) (hv : a.lookup kHref = some v) : Txt b c c (.elem qImage a []) :=
  .leaf b c c c qImage a [] _ .keep (disp (by decide)) (.image a v hv) rfl rfl (.nil b c)
theorem txt_column (b : Bool) (a : Attrs) (n : Nat) (hn : pyInt ((a.lookup kColsRepeated).getD sOne) = some n) :
    Txt b true true (.elem qColumn a []) :=
  .leaf b true true true qColumn a [] _ .purge (disp (by decide)) (.column a n hn) rfl ⟨rfl, rfl⟩ (.nil b true)
/-- text:s writes the pending text first (repair ff3c76c) -/
theorem txt_s (b c : Bool) (a : Attrs) (n : Nat) (hn : pyInt ((a.lookup kC).getD sOne) = some n) : Txt b c true (.elem qS a []) :=
  .leaf b c true true qS a [] _ .flush (disp (by decide)) (.s a n hn) rfl rfl (.nil b true)
theorem txt_tab (b c : Bool) (a : Attrs) : Txt b c true (.elem qTab a []) :=
  .leaf b c true true qTab a [] _ .flush (disp (by decide)) (.tab a) rfl rfl (.nil b true)
theorem txt_line_break (b c : Bool) (a : Attrs) : Txt b c true (.elem qLineBreak a []) :=
  .leaf b c true true qLineBreak a [] _ .flush (disp (by decide)) (.br a) rfl rfl (.nil b true)
theorem txt_bookmark (b c : Bool) (a : Attrs) (v : Str) (hv : a.lookup kName = some v) : Txt b c true (.elem qBookmark a []) :=
  .leaf b c true true qBookmark a [] _ .flush (disp (by decide)) (.bookmark a v hv) rfl rfl (.nil b true)
theorem txt_bookmark_start (b c : Bool) (a : Attrs) (v : Str) (hv : a.lookup kName = some v) :
    Txt b c true (.elem qBookmarkStart a []) :=
  .leaf b c true true qBookmarkStart a [] _ .flush (disp (by decide)) (.bookmark a v hv) rfl rfl (.nil b true)
theorem txt_bookmark_end (b c : Bool) (a : Attrs) : Txt b c c (.elem qBookmarkEnd a []) :=
  .transparent b c c qBookmarkEnd a [] (disp (by decide)) (.nil b c)
theorem txt_section (b c c' : Bool) (a : Attrs) (kids : List Node) (h : TxtL b c c' kids) : Txt b c c' (.elem qSection a kids) :=
  .transparent b c c' qSection a kids (disp (by decide)) h
/-- elements without handler: their children are walked as if they stood in the parent -/
theorem txt_list_header (b c c' : Bool) (a : Attrs) (kids : List Node) (h : TxtL b c c' kids) : Txt b c c' (.elem qListHeader a kids) :=
  .transparent b c c' qListHeader a kids (disp (by decide)) h
theorem txt_header_rows (b c c' : Bool) (a : Attrs) (kids : List Node) (h : TxtL b c c' kids) : Txt b c c' (.elem qHeaderRows a kids) :=
  .transparent b c c' qHeaderRows a kids (disp (by decide)) h
theorem txt_soft_page_break (b c : Bool) (a : Attrs) : Txt b c c (.elem qSoftPageBreak a []) :=
  .transparent b c c qSoftPageBreak a [] (disp (by decide)) (.nil b c)
theorem txt_covered (b c : Bool) (a : Attrs) (kids : List Node) : Txt b c c (.elem qCovered a kids) :=
  .ignored b c qCovered a kids none (disp (by decide))
theorem txt_note (c : Bool) (a ac ab : Attrs) (label : List Str) (kids : List Node) (h : TxtL true true true kids) :
    Txt false c true (.elem qNote a [.elem qCitation ac (label.map Node.text), .elem qNoteBody ab kids]) :=
  .note c qNote a qCitation ac label qNoteBody ab kids (disp (by decide)) (disp (by decide)) (disp (by decide)) h

/-! ### the ODF content model of the supported vocabulary -/

mutual
/-- `Block b n`: an element that stands where ODF allows no character data — a paragraph or heading (with paragraph
    content), or an element-only container (list, list header, list item, table, header rows, row, cell, section, text box,
    slide) whose children are
    `Block` again, or a column / covered cell / image.  `b` = inside a note body. -/
inductive Block : Bool → Node → Prop
  | p (b a kids) : (∀ k ∈ kids, Inline b k) → Block b (.elem qP a kids)
  | h (b a kids lvl) : headingLevel a = .ok lvl → (∀ k ∈ kids, Inline b k) → Block b (.elem qH a kids)
  | list (b a kids) : (∀ k ∈ kids, Block b k) → Block b (.elem qList a kids)
  | listItem (b a kids) : (∀ k ∈ kids, Block b k) → Block b (.elem qListItem a kids)
  | listHeader (b a kids) : (∀ k ∈ kids, Block b k) → Block b (.elem qListHeader a kids)
  | headerRows (b a kids) : (∀ k ∈ kids, Block b k) → Block b (.elem qHeaderRows a kids)
  | softPageBreak (b a) : Block b (.elem qSoftPageBreak a [])
  | table (b a kids) : (∀ k ∈ kids, Block b k) → Block b (.elem qTable a kids)
  | row (b a kids) : (∀ k ∈ kids, Block b k) → Block b (.elem qRow a kids)
  | cell (b a kids) : (∀ k ∈ kids, Block b k) → Block b (.elem qCell a kids)
  | sect (b a kids) : (∀ k ∈ kids, Block b k) → Block b (.elem qSection a kids)
  | textBox (b a kids) : (∀ k ∈ kids, Block b k) → Block b (.elem qTextBox a kids)
  | page (b a kids) : (∀ k ∈ kids, Block b k) → Block b (.elem qPage a kids)
  | frame (b a kids) : (∀ k ∈ kids, Block b k) → Block b (.elem qFrame a kids)
  | column (b a n) : pyInt ((a.lookup kColsRepeated).getD sOne) = some n → Block b (.elem qColumn a [])
  | covered (b a kids) : Block b (.elem qCovered a kids)
  | image (b a v) : a.lookup kHref = some v → Block b (.elem qImage a [])
/-- `Inline b n`: paragraph content — character data, spans, links, bookmark references, text:s / tab / line-break,
    bookmarks, frames (with text boxes and images), and — outside note bodies — notes -/
inductive Inline : Bool → Node → Prop
  | text (b s) : Inline b (.text s)
  | span (b a kids) : (∀ k ∈ kids, Inline b k) → Inline b (.elem qSpan a kids)
  | link (b a kids v) : a.lookup kHref = some v → (∀ k ∈ kids, Inline b k) → Inline b (.elem qA a kids)
  | bookmarkRef (b a kids v) : a.lookup kRefName = some v → (∀ k ∈ kids, Inline b k) → Inline b (.elem qBookmarkRef a kids)
  | s (b a n) : pyInt ((a.lookup kC).getD sOne) = some n → Inline b (.elem qS a [])
  | tab (b a) : Inline b (.elem qTab a [])
  | lineBreak (b a) : Inline b (.elem qLineBreak a [])
  | bookmark (b a v) : a.lookup kName = some v → Inline b (.elem qBookmark a [])
  | bookmarkStart (b a v) : a.lookup kName = some v → Inline b (.elem qBookmarkStart a [])
  | bookmarkEnd (b a) : Inline b (.elem qBookmarkEnd a [])
  | softPageBreak (b a) : Inline b (.elem qSoftPageBreak a [])
  | frame (b a kids) : (∀ k ∈ kids, Block b k) → Inline b (.elem qFrame a kids)
  | note (a ac ab) (label : List Str) (kids) : (∀ k ∈ kids, Block true k) →
      Inline false (.elem qNote a [.elem qCitation ac (label.map Node.text), .elem qNoteBody ab kids])
end

theorem txtL_of_blocks (b : Bool) (l : List Node) (h : ∀ k ∈ l, Txt b true true k) : TxtL b true true l := by
  induction l with
  | nil => exact .nil _ _
  | cons n ns ih => exact .cons _ _ true _ _ _ (h n (by simp)) (ih (fun k hk => h k (by simp [hk])))

theorem txtL_of_inlines (b : Bool) (l : List Node) (h : ∀ k ∈ l, ∀ c, ∃ c', Txt b c c' k) : ∀ c, ∃ c', TxtL b c c' l := by
  induction l with
  | nil => exact fun c => ⟨c, .nil _ _⟩
  | cons n ns ih =>
    intro c
    obtain ⟨c1, h1⟩ := h n (by simp) c
    obtain ⟨c2, h2⟩ := ih (fun k hk => h k (by simp [hk])) c1
    exact ⟨c2, .cons _ _ c1 _ _ _ h1 h2⟩

theorem mem_sizeOf_lt {q : Str} {a : Attrs} {kids : List Node} {k : Node} (hk : k ∈ kids) :
    sizeOf k < sizeOf (Node.elem q a kids) := by
  have := List.sizeOf_lt_of_mem hk
  simp only [Node.elem.sizeOf_spec]; omega

mutual
/-- an element of the content model never purges pending visible text: it starts clean and ends clean -/
theorem block_txt (n : Node) (b : Bool) (h : Block b n) : Txt b true true n := by
  cases h with
  | p _ a kids hk =>
    obtain ⟨c2, h2⟩ := txtL_of_inlines b kids (fun k hm c => inline_txt k b c (hk k hm)) true
    exact txt_p b c2 a kids h2
  | h _ a kids lvl hl hk =>
    obtain ⟨c2, h2⟩ := txtL_of_inlines b kids (fun k hm c => inline_txt k b c (hk k hm)) true
    exact txt_h b c2 a kids lvl hl h2
  | list _ a kids hk => exact txt_list b true a kids (txtL_of_blocks b kids (fun k hm => block_txt k b (hk k hm)))
  | listItem _ a kids hk => exact txt_list_item b true a kids (txtL_of_blocks b kids (fun k hm => block_txt k b (hk k hm)))
  | listHeader _ a kids hk => exact txt_list_header b true true a kids (txtL_of_blocks b kids (fun k hm => block_txt k b (hk k hm)))
  | headerRows _ a kids hk => exact txt_header_rows b true true a kids (txtL_of_blocks b kids (fun k hm => block_txt k b (hk k hm)))
  | softPageBreak _ a => exact txt_soft_page_break b true a
  | table _ a kids hk => exact txt_table b true a kids (txtL_of_blocks b kids (fun k hm => block_txt k b (hk k hm)))
  | row _ a kids hk => exact txt_row b true a kids (txtL_of_blocks b kids (fun k hm => block_txt k b (hk k hm)))
  | cell _ a kids hk => exact txt_cell b true a kids (txtL_of_blocks b kids (fun k hm => block_txt k b (hk k hm)))
  | sect _ a kids hk => exact txt_section b true true a kids (txtL_of_blocks b kids (fun k hm => block_txt k b (hk k hm)))
  | textBox _ a kids hk => exact txt_text_box b true true a kids (txtL_of_blocks b kids (fun k hm => block_txt k b (hk k hm)))
  | page _ a kids hk => exact txt_page b true true a kids (txtL_of_blocks b kids (fun k hm => block_txt k b (hk k hm)))
  | frame _ a kids hk => exact txt_frame b true true a kids (txtL_of_blocks b kids (fun k hm => block_txt k b (hk k hm)))
  | column _ a n hn => exact txt_column b a n hn
  | covered _ a kids => exact txt_covered b true a kids
  | image _ a v hv => exact txt_image b true a v hv
termination_by sizeOf n
decreasing_by all_goals exact mem_sizeOf_lt hm
/-- paragraph content copes with pending text (every handler writes it before it purges) -/
theorem inline_txt (n : Node) (b c : Bool) (h : Inline b n) : ∃ c', Txt b c c' n := by
  cases h with
  | text _ s => exact ⟨false, .text _ _ _⟩
  | span _ a kids hk =>
    obtain ⟨c2, h2⟩ := txtL_of_inlines b kids (fun k hm c => inline_txt k b c (hk k hm)) true
    exact ⟨true, txt_span b c c2 a kids h2⟩
  | link _ a kids v hv hk =>
    obtain ⟨c2, h2⟩ := txtL_of_inlines b kids (fun k hm c => inline_txt k b c (hk k hm)) true
    exact ⟨true, txt_a b c c2 a kids v hv h2⟩
  | bookmarkRef _ a kids v hv hk =>
    obtain ⟨c2, h2⟩ := txtL_of_inlines b kids (fun k hm c => inline_txt k b c (hk k hm)) true
    exact ⟨true, txt_bookmark_ref b c c2 a kids v hv h2⟩
  | s _ a n hn => exact ⟨true, txt_s b c a n hn⟩
  | tab _ a => exact ⟨true, txt_tab b c a⟩
  | lineBreak _ a => exact ⟨true, txt_line_break b c a⟩
  | bookmark _ a v hv => exact ⟨true, txt_bookmark b c a v hv⟩
  | bookmarkStart _ a v hv => exact ⟨true, txt_bookmark_start b c a v hv⟩
  | bookmarkEnd _ a => exact ⟨c, txt_bookmark_end b c a⟩
  | softPageBreak _ a => exact ⟨c, txt_soft_page_break b c a⟩
  | frame _ a kids hk => exact ⟨true, txt_frame b c true a kids (txtL_of_blocks b kids (fun k hm => block_txt k b (hk k hm)))⟩
  | note a ac ab label kids hk =>
    exact ⟨true, txt_note c a ac ab label kids (txtL_of_blocks true kids (fun k hm => block_txt k true (hk k hm)))⟩
termination_by sizeOf n
decreasing_by
  all_goals first
    | exact mem_sizeOf_lt hm
    | (have := List.sizeOf_lt_of_mem hm; simp only [Node.elem.sizeOf_spec, List.cons.sizeOf_spec, List.nil.sizeOf_spec]; omega)
end

/-! ### the headline statements -/

/-- **C18 (complete) — partial**: for a document whose head only meets handlers that write nothing and whose body is built
    from the supported vocabulary according to the ODF content model (`Block` / `Inline`: character data only in paragraph
    content), the conversion succeeds and the document's visible text — paragraphs, headings, list items, table cells,
    links, text boxes in document order, then the foot note bodies in document order — is a subsequence of the text tokens
    of the output, CHARACTER FOR CHARACTER (no white space normalisation is needed for XHTML).  No finding is excluded any
    more: since 29b6eef / ff3c76c every handler that discards `self.data` is only reached with nothing visible pending.
    "partial" = the vocabulary (`Block`/`Inline`), and the style sheet text being a parameter. -/
theorem complete_partial (cfg : Cfg) (qd : Str) (ad : Attrs) (pre : List Node) (qb : Str) (ab : Attrs) (qt : Str) (at_ : Attrs)
    (blocks : List Node) (hs he : HName)
    (hdd : dispatch qd = (some .s_office_document_content, some .e_office_document_content))
    (hpre : HeadL [(qd, ad)] pre) (hdb : dispatch qb = (none, none)) (hdt : dispatch qt = (some hs, some he))
    (hbody : BodyH hs he) (hb : ∀ k ∈ blocks, Block false k) :
    ∃ toks, convert cfg (.elem qd ad (pre ++ [.elem qb ab [.elem qt at_ blocks]])) = .ok toks ∧
      (visMainL blocks ++ visNotesL blocks).Sublist (textOf toks) :=
  complete_txt cfg qd ad pre qb ab qt at_ blocks hs he hdd hpre hdb hdt hbody
    (txtL_of_blocks false blocks (fun k hk => block_txt k false (hb k hk)))

/-- Python's `str.isspace`, as in `Moin.isSpace`; dropping white space on both sides keeps the subsequence -/
def nonWs (s : Str) : Str := s.filter (fun c => !Moin.isSpace c)

/-- **C18 (complete), in the form of the design — partial**: `Sublist (nonWs (visibleText t)) (nonWs (textOf (convert t)))` -/
theorem complete_nonWs_partial (cfg : Cfg) (qd : Str) (ad : Attrs) (pre : List Node) (qb : Str) (ab : Attrs) (qt : Str) (at_ : Attrs)
    (blocks : List Node) (hs he : HName)
    (hdd : dispatch qd = (some .s_office_document_content, some .e_office_document_content))
    (hpre : HeadL [(qd, ad)] pre) (hdb : dispatch qb = (none, none)) (hdt : dispatch qt = (some hs, some he))
    (hbody : BodyH hs he) (hb : ∀ k ∈ blocks, Block false k) :
    ∃ toks, convert cfg (.elem qd ad (pre ++ [.elem qb ab [.elem qt at_ blocks]])) = .ok toks ∧
      (nonWs (visMainL blocks ++ visNotesL blocks)).Sublist (nonWs (textOf toks)) := by
  obtain ⟨toks, h1, h2⟩ := complete_partial cfg qd ad pre qb ab qt at_ blocks hs he hdd hpre hdb hdt hbody hb
  exact ⟨toks, h1, h2.filter _⟩

/-- a document of the content model is `Supported`: `total_balanced_partial` applies to it -/
theorem supported_of_content_model (qd : Str) (ad : Attrs) (pre : List Node) (qb : Str) (ab : Attrs) (qt : Str) (at_ : Attrs)
    (blocks : List Node) (hs he : HName)
    (hdd : dispatch qd = (some .s_office_document_content, some .e_office_document_content))
    (hpre : HeadL [(qd, ad)] pre) (hdb : dispatch qb = (none, none)) (hdt : dispatch qt = (some hs, some he))
    (hbody : BodyH hs he) (hb : ∀ k ∈ blocks, Block false k) :
    Supported (.elem qd ad (pre ++ [.elem qb ab [.elem qt at_ blocks]])) :=
  .mk qd ad pre qb ab qt at_ blocks hs he hdd hpre hdb hdt hbody
    (txtL_of_blocks false blocks (fun k hk => block_txt k false (hb k hk))).flow

/-- the hypotheses are satisfiable — and the three repaired XHTML classes are inside them:
    <h>h</h> (no outline level), <p>a<s/>b<frame><text-box><p>e</p></text-box></frame>g, a foot note</p>, a list -/
example : ∀ k ∈ [Node.elem qH [] [.text [104]],
     .elem qP [] [.text [97], .elem qS [] [], .text [98],
                  .elem qFrame [] [.elem qTextBox [] [.elem qP [] [.text [101]]]], .text [103],
                  .elem qNote [] [.elem qCitation [] [.text [49]], .elem qNoteBody [] [.elem qP [] [.text [102]]]]],
     .elem qList [] [.elem qListItem [] [.elem qP [] [.text [100]]]]], Block false k := by
  have para (b : Bool) (x : Cp) : Block b (.elem qP [] [.text [x]]) :=
    .p _ _ _ (fun k hk => by rcases List.mem_singleton.mp hk with rfl; exact .text _ _)
  intro k hk
  simp only [List.mem_cons, List.not_mem_nil, or_false] at hk
  rcases hk with rfl | rfl | rfl
  · exact .h _ _ _ 1 rfl (fun k hk => by rcases List.mem_singleton.mp hk with rfl; exact .text _ _)
  · refine .p _ _ _ (fun k hk => ?_)
    simp only [List.mem_cons, List.not_mem_nil, or_false] at hk
    rcases hk with rfl | rfl | rfl | rfl | rfl | rfl
    · exact .text _ _
    · exact .s _ _ 1 (by decide)
    · exact .text _ _
    · exact .frame _ _ _ (fun k hk => by
        rcases List.mem_singleton.mp hk with rfl
        exact .textBox _ _ _ (fun k hk => by rcases List.mem_singleton.mp hk with rfl; exact para _ _))
    · exact .text _ _
    · exact Inline.note [] [] [] [[49]] _ (fun k hk => by rcases List.mem_singleton.mp hk with rfl; exact para _ _)
  · exact .list _ _ _ (fun k hk => by
      rcases List.mem_singleton.mp hk with rfl
      exact .listItem _ _ _ (fun k hk => by rcases List.mem_singleton.mp hk with rfl; exact para _ _))

/-! ## The repaired classes on the model (formerly `finding_*`; the real code is checked by harness/c18.py on every run) -/

/-- a71a4f0: a heading without text:outline-level is a level-1 heading -/
example : (convert ⟨false, []⟩ (textDoc [.elem qH [] [.text [97]]])).toOption.map textOf = some [97] := by rfl

/-- 29b6eef: `<p>a<frame><text-box><p>b</p></text-box></frame>c</p>` keeps the "a" -/
example : (convert ⟨false, []⟩ (textDoc [.elem qP [] [.text [97],
    .elem qFrame [] [.elem qTextBox [] [.elem qP [] [.text [98]]]], .text [99]]])).toOption.map textOf = some [97, 98, 99] := by rfl

/-- ff3c76c: `<p>a<s/>b</p>` is written a, blank, b -/
example : convert ⟨false, []⟩ (textDoc [.elem qP [] [.text [97], .elem qS [] [], .text [98]]]) =
    .ok (docStart ++ [.ctag nHead true, .otag nBody [] true, .otag nP [] false, .text [97], .raw .nbsp, .text [98], .ctag nP true,
                      .ctag nBody true, .ctag nHtml true]) := by rfl

/-! ### e7e9e0f: paragraph text directly in front of a drawing shape (former harness class `x-pending-before-shape`) -/

/-- **C18 (XHTML, x-pending-before-shape repaired)**: `<p>a<custom-shape><p>b</p></custom-shape>c</p>` keeps the "a" —
    s_custom_shape writes the pending data before it opens its <div> (corpus document `custom-shape-in-paragraph`; in
    general: `txt_custom_shape` puts the shape into the documents of `complete_nonWs_partial`) -/
theorem custom_shape_keeps_pending_text : (convert ⟨false, []⟩ (textDoc [.elem qP [] [.text [97],
    .elem qCustomShape [] [.elem qP [] [.text [98]]], .text [99]]])).toOption.map textOf = some [97, 98, 99] := by rfl

/-- **C18 (XHTML, x-pending-before-shape repaired)**: the same for draw:rect / draw:ellipse (handler `s_draw_shape`, corpus
    document `shape-in-paragraph`; in general `txt_rect`, `txt_ellipse`) -/
theorem shape_keeps_pending_text : ∀ q ∈ [qRect, qEllipse], (convert ⟨false, []⟩ (textDoc [.elem qP [] [.text [97],
    .elem q [] [.elem qP [] [.text [98]]], .text [99]]])).toOption.map textOf = some [97, 98, 99] := by
  intro q hq
  simp only [List.mem_cons, List.not_mem_nil, or_false] at hq
  rcases hq with rfl | rfl <;> rfl

/-! ### MoinMoin -/

/-- styles.xml without any style, and content.xml with the given children of office:text, as minidom shows them -/
def moinStyles : Node := .elem [] [] []
def moinContent (blocks : List Node) : Node := .elem [] [] [.elem Moin.tBody [] [.elem qText [] blocks]]

/-- 2b96491 (was KF-C18-10): an indented content.xml — white space between office:body, office:text, paragraphs, list items,
    table rows and cells — is converted like the unindented one (in general: `Moin.topStr_elems`, `itemsStr_elems`,
    `subitemsStr_elems`, `rowsStr_elems`, `cellsStr_elems`: the loops only see the element children) -/
example :
    Moin.toString moinStyles (.elem [] [] [.text [10], .elem Moin.tBody [] [.text [10, 32], .elem qText [] [.text [10, 32, 32],
        .elem qP [] [.text [90]], .text [10, 32, 32],
        .elem qList [] [.text [10], .elem qListItem [] [.text [10], .elem qP [] [.text [89]], .text [10]], .text [10]], .text [10],
        .elem qTable [] [.text [10], .elem qRow [] [.text [10], .elem qCell [] [.elem qP [] [.text [88]]], .text [10]], .text [10]],
        .text [10, 32]], .text [10]]]) =
    Moin.toString moinStyles (moinContent [.elem qP [] [.text [90]],
        .elem qList [] [.elem qListItem [] [.elem qP [] [.text [89]]]],
        .elem qTable [] [.elem qRow [] [.elem qCell [] [.elem qP [] [.text [88]]]]]]) := by
  rfl

/-- 41ddec8: both paragraphs of a foot note are converted -/
example : (Moin.toString moinStyles (moinContent [.elem qP [] [.text [97], .elem qNote []
    [.elem qCitation [] [.text [49]], .elem qNoteBody [] [.elem qP [] [.text [98]], .elem qP [] [.text [99]]]]]])).toOption.map
      (fun out => (98 ∈ out ∧ 99 ∈ out : Bool)) = some true := by rfl

/-- bc7fa87: a table inside a table cell, a section inside a section -/
example : (Moin.toString moinStyles (moinContent [.elem qTable [] [.elem qRow [] [.elem qCell []
    [.elem qTable [] [.elem qRow [] [.elem qCell [] [.elem qP [] [.text [90]]]]]]]]])).toOption.map (fun out => decide (90 ∈ out)) =
      some true := by rfl
example : (Moin.toString moinStyles (moinContent [.elem qSection [] [.elem qSection [] [.elem qP [] [.text [90]]]]])).toOption.map
    (fun out => decide (90 ∈ out)) = some true := by rfl

/-- c4d21da: `<p>a<span> </span>b</p>` keeps the blank -/
example : Moin.toString moinStyles (moinContent [.elem qP [] [.text [97], .elem qSpan [] [.text [32]], .text [98]]]) =
    .ok [97, 32, 98, 10] := by rfl

/-- the hypotheses of `Moin.moin_total_complete_partial` are satisfiable: `<p>a<span>b</span><s/></p><h outline-level="2">c</h>` -/
example : ∃ out, Moin.toString moinStyles (moinContent
      [.elem qP [] [.text [97], .elem qSpan [] [.text [98]], .elem qS [] []], .elem qH [(Moin.kOutline, [50])] [.text [99]]]) = .ok out ∧
    (Moin.nonWs [97, 98, 99]).Sublist (Moin.nonWs out) := by
  have nb : ∀ q : Str, q = qSpan ∨ q = qS → Moin.notBlock q := by
    intro q h; rcases h with rfl | rfl <;> (refine ⟨by decide +kernel, ?_, ?_, ?_, ?_, ?_⟩ <;> decide)
  have hp : Moin.MPara (.elem qP [] [.text [97], .elem qSpan [] [.text [98]], .elem qS [] []]) :=
    .mk _ _ _ (Or.inl rfl) (Or.inl rfl)
      (.cons _ _ (.text _) (.cons _ _ (.markup qSpan [] _ (nb _ (Or.inl rfl)) (by decide) (.cons _ _ (.text _) .nil))
        (.cons _ _ (.leaf qS [] [] .text_s (nb _ (Or.inr rfl)) (by decide) (by decide)) .nil)))
  have hh : Moin.MPara (.elem qH [(Moin.kOutline, [50])] [.text [99]]) :=
    .mk _ _ _ (Or.inr rfl) (Or.inr ⟨2, by decide⟩) (.cons _ _ (.text _) .nil)
  have hall : ∀ n ∈ [Node.elem qP [] [.text [97], .elem qSpan [] [.text [98]], .elem qS [] []],
      Node.elem qH [(Moin.kOutline, [50])] [.text [99]]], Moin.MPara n := by
    intro n hn
    rcases List.mem_cons.mp hn with rfl | hn
    · exact hp
    · rcases List.mem_cons.mp hn with rfl | hn
      · exact hh
      · cases hn
  exact Moin.moin_total_complete_partial moinStyles (moinContent _) {}
    (.elem Moin.tBody [] [.elem qText [] _]) [] (.elem qText [] _) []
    [Node.elem qP [] [.text [97], .elem qSpan [] [.text [98]], .elem qS [] []], Node.elem qH [(Moin.kOutline, [50])] [.text [99]]]
    rfl rfl rfl rfl hall

end OdfModel.Props.C18

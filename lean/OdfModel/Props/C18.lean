/-
  C18 — the XHTML and MoinMoin converters are total, complete and escape everything.

  Models: `OdfModel.Xhtml` (odf/odf2xhtml.py), `OdfModel.Moin` (odf/odf2moinmoin.py); helper lemmas in
  `OdfModel.XhtmlLemmas`.  Everything here is PARTIAL BY CONSTRUCTION: only the converters' supported vocabulary is
  modelled (`Supported`), the style sheet text is an opaque parameter (`Cfg.cssText`), and the known findings
  KF-C18-1 … are excluded by explicit hypotheses, each with a proved counter-example (`finding_*`).
-/
import OdfModel.XhtmlLemmas
import OdfModel.Moin
namespace OdfModel.Props.C18
open OdfModel OdfModel.Xml OdfModel.Xhtml OdfModel.Generated.Xhtml

/-! ## The supported documents -/

/-- the three kinds of document body (text, spreadsheet, presentation): their handlers are `html_body` at the start and
    `generate_footnotes` + `</body>` at the end -/
def BodyH (hs he : HName) : Prop :=
  (hs = .s_office_text ∧ he = .e_office_text) ∨ (hs = .s_office_spreadsheet ∧ he = .e_office_spreadsheet) ∨
  (hs = .s_office_presentation ∧ he = .e_office_presentation)

/-- **the quantifier of C18 as far as it is modelled**: a loaded document
      office:document [ meta / settings / styles …,  office:body [ office:text | spreadsheet | presentation [ running text ] ] ]
    whose head part only meets handlers that write nothing (`Head`), and whose body is running text of the supported
    vocabulary (`Flow`: paragraphs, headings WITH a decimal outline level, spans, links with a target, lists, tables,
    frames, text boxes, images, notes of the shape citation+body outside other notes, s/tab/line-break, bookmarks,
    elements without handler such as sections, ignored elements). -/
inductive Supported : Node → Prop
  | mk (qd : Str) (ad : Attrs) (pre : List Node) (qb : Str) (ab : Attrs) (qt : Str) (at_ : Attrs) (blocks : List Node)
      (hs he : HName) :
      dispatch qd = (some .s_office_document_content, some .e_office_document_content) →
      HeadL [(qd, ad)] pre → dispatch qb = (none, none) →
      dispatch qt = (some hs, some he) → BodyH hs he → FlowL false blocks →
      Supported (.elem qd ad (pre ++ [.elem qb ab [.elem qt at_ blocks]]))

/-! ## total and balanced -/

theorem runH_body_start (cfg : Cfg) (ctx : Ctx) {hs he : HName} (hb : BodyH hs he) (q : Str) (a : Attrs) (pe pc : Bool) (st : St) :
    runH cfg ctx hs q a pe pc st = (htmlBody cfg st).map (fun s => (s, pe, pc)) := by
  rcases hb with ⟨h, _⟩ | ⟨h, _⟩ | ⟨h, _⟩ <;> subst h <;> rfl

theorem runH_body_end (cfg : Cfg) (ctx : Ctx) {hs he : HName} (hb : BodyH hs he) (q : Str) (a : Attrs) (pe pc : Bool) (st : St) :
    runH cfg ctx he q a pe pc st =
      (do let st ← generateFootnotes cfg st; closetag nBody true st : M St).map (fun s => (s, pe, pc)) := by
  rcases hb with ⟨_, h⟩ | ⟨_, h⟩ | ⟨_, h⟩ <;> subst h <;> rfl

/-- the body element: `</head><body>` … foot notes `</body>` -/
theorem walk_body (cfg : Cfg) (ctx : Ctx) (st : St) (qt : Str) (at_ : Attrs) (blocks : List Node) {hs he : HName}
    (hd : dispatch qt = (some hs, some he)) (hb : BodyH hs he) (hf : FlowL false blocks) (hpe : ctx.pe = true)
    (hi : Inv false st) (hn : st.notes = []) (hdepth : 2 ≤ st.depth) :
    ∃ st', walk cfg ctx st (.elem qt at_ blocks) = .ok st' ∧ st'.depth + 1 = st.depth ∧ st'.saved = st.saved ∧
      ∀ s S, bal st.out s = some (nHead :: S) → bal st'.out s = some S := by
  obtain ⟨st1, h1, hd1, hs1, hb1⟩ := htmlBody_spec cfg st (by omega)
  have hi1 : Inv false st1 := ⟨by rw [hs1.saved]; exact hi.1, by rw [hs1.nbOpen]; exact hi.2.1, by rw [hs1.cur, hs1.notes]; exact hi.2.2⟩
  obtain ⟨st2, h2, e2⟩ := walkList_flow cfg blocks false ⟨(qt, at_) :: ctx.stack, true, ctx.pc⟩ st1 hf rfl (by simp) hi1
  obtain ⟨N, hN, okN, _⟩ := e2.notes
  have hn2 : NotesOK st2.notes := by rw [hN, hs1.notes, hn]; simpa using okN
  obtain ⟨st3, h3, hd3, hs3, hb3⟩ := generateFootnotes_spec cfg st2 hn2
  have hdep3 : 0 < st3.depth := by rw [hd3, e2.depth, hd1]; omega
  refine ⟨closePure nBody true st3, ?_, ?_, ?_, ?_⟩
  · rw [walk_elem _ _ _ _ _ _ hpe]
    simp only [startEl, endEl, hd, runH_body_start cfg ctx hb, runH_body_end cfg ctx hb, h1, Except.map, hpe, h2, if_true,
      bind, Except.bind, h3, closetag_ok _ _ _ hdep3]
  · simp; rw [hd3, e2.depth, hd1]; omega
  · simp; rw [hs3.saved, e2.saved, hs1.saved]
  · intro s S h
    have := hb3 s _ (e2.stack s _ (hb1 s S h))
    simp [bal_append, this, bal, br]

/-- what `s_office_document_content` writes first -/
def docStart : List Tok :=
  [.raw .doctype, .otag nHtml [(aXmlns, sXhtmlNs)] true, .otag nHead [] true,
   .etag nMeta [(aHttpEquiv, sContentType), (aContent, sTextHtml)], .raw .titleOpen, .raw .titleClose]

theorem doc_start (cfg : Cfg) (ctx : Ctx) (q : Str) (a : Attrs) (pe pc : Bool) :
    ∃ st1, runH cfg ctx .s_office_document_content q a pe pc St.init = .ok (st1, pe, pc) ∧ st1.out = docStart ∧
      st1.depth = 2 ∧ st1.saved = none ∧ st1.nbOpen = false ∧ st1.notes = [] ∧ st1.cur = 0 :=
  ⟨_, rfl, rfl, rfl, rfl, rfl, rfl, rfl⟩

/-- **C18 (total, balanced) — partial**: for every supported document (see `Supported`) and both settings of
    generate_css, whatever the opaque style sheet text is, the conversion raises no exception and the token sequence it
    writes is a Dyck word: every start handler's tag is closed by the matching end handler, properly nested, foot notes
    included.  Outside the statement: unsupported vocabulary, and the classes of the known findings (a heading without
    outline level is not `Supported`: `finding_heading_without_level`). -/
theorem total_balanced_partial (cfg : Cfg) (doc : Node) (h : Supported doc) :
    ∃ toks, convert cfg doc = .ok toks ∧ Dyck toks := by
  cases h with
  | mk qd ad pre qb ab qt at_ blocks hs he hdd hpre hdb hdt hbody hflow =>
    obtain ⟨st1, hr1, ho1, hdep1, hsv1, hnb1, hno1, hcu1⟩ := doc_start cfg ⟨[], true, true⟩ qd ad true true
    obtain ⟨st2, h2, q2⟩ := walkList_head cfg pre ⟨[(qd, ad)], true, true⟩ st1 hpre
    have hi2 : Inv false st2 := ⟨by rw [q2.saved, hsv1]; rfl, by rw [q2.nbOpen, hnb1], by rw [q2.cur, q2.notes, hcu1, hno1]; rfl⟩
    obtain ⟨st3, h3, hd3, hs3, hb3⟩ := walk_body cfg ⟨(qb, ab) :: [(qd, ad)], true, true⟩ st2 qt at_ blocks hdt hbody hflow rfl hi2
      (by rw [q2.notes, hno1]) (by rw [q2.depth, hdep1]; exact Nat.le_refl 2)
    have hbal3 : bal st3.out [] = some [nHtml] := by
      apply hb3
      rw [q2.out, ho1]; rfl
    have hdep3 : 0 < st3.depth := by rw [q2.depth, hdep1] at hd3; omega
    refine ⟨(closePure nHtml true st3).out, ?_, ?_⟩
    · unfold convert
      rw [walk_elem _ _ _ _ _ _ rfl]
      simp only [startEl, endEl, hdd, hr1, walkList_append, h2, walkList]
      rw [walk_elem _ _ _ _ _ _ rfl]
      simp only [startEl, endEl, hdb, walkList, h3, if_true, runH, closetag_ok _ _ _ hdep3, Except.map]
    · show bal (st3.out ++ [Tok.ctag nHtml true]) [] = some []
      simp [bal_append, hbal3, bal, br]

/-- **C18 (total) — partial**: a supported document is converted without exception -/
theorem total_partial (cfg : Cfg) (doc : Node) (h : Supported doc) : ∀ e, convert cfg doc ≠ .error e := by
  obtain ⟨toks, ht, _⟩ := total_balanced_partial cfg doc h
  intro e he; rw [ht] at he; cases he

/-- **C18 (balanced) — partial**: the token sequence of a supported document is a Dyck word -/
theorem balanced_partial (cfg : Cfg) (doc : Node) (h : Supported doc) (toks : List Tok) (ht : convert cfg doc = .ok toks) :
    Dyck toks := by
  obtain ⟨toks', ht', hd⟩ := total_balanced_partial cfg doc h
  rw [ht] at ht'; cases ht'; exact hd

end OdfModel.Props.C18

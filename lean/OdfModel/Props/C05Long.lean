/-
  Property C05, round-7 additions (harness/c05.py: long root start tags, nearly equal font names).

  * `__fixXmlPart` reads the WHOLE start tag of the document element, however long: padding of any length in front of
    the declarations (extension namespace declarations, white space, unquoted material) changes neither what
    `scanTag` returns behind it nor what `declares` finds — a part that declares the nine prefixes at the END of a
    start tag of 8 KiB, 64 KiB, … is not touched (`fix_long_root_identity`).
  * the font merge of content.xml / styles.xml uses style:name as an EXACT key: a style:font-face whose name is not,
    character for character, among the names declared before is kept with its subtree (`fontDrop_keeps`).
-/
import OdfModel.Props.C05
namespace OdfModel.Props.C05Long
open OdfModel OdfModel.Xml OdfModel.LoadSax OdfModel.Props.C04 OdfModel.Props.C05

/-- `re.search` looks at every position: a declaration found in `tag` is found behind any text put in front of it -/
theorem declares_pad (p : Str) (tag : Str) (h : declares p tag = true) : (pad : Str) → declares p (pad ++ tag) = true
  | [] => by simpa using h
  | c :: pad => by
    have ih := declares_pad p tag h pad
    simp [declares, ih]

/-- characters that are neither `>` nor a quotation mark -/
def Plain (pad : Str) : Prop := ∀ c ∈ pad, c ≠ 62 ∧ c ≠ 34 ∧ c ≠ 39

/-- the scan of the start tag walks over plain padding of ANY length (no window, no limit) -/
theorem scanTag_pad (r : Str) (f : Nat) : (pad : Str) → Plain pad → scanTag (pad.length + f) (pad ++ r) = pad ++ scanTag f r
  | [], _ => by simp
  | c :: pad, h => by
    have hc := h c (by simp)
    have ih := scanTag_pad r f pad (fun d hd => h d (by simp [hd]))
    have e : (c :: pad).length + f = (pad.length + f) + 1 := by simp; omega
    rw [e]
    simp [scanTag, hc.1, hc.2.1, hc.2.2, ih]

/-- **C05 (long root start tag)**: behind the name of the document element come `pad` — plain text of any length: a hundred
    or a thousand extension declarations without quotes would not be plain, see `fix_long_root_quoted` for one quoted value — and
    then `rest`, whose start-tag part declares the nine prefixes: the part is not touched. -/
theorem fix_long_root_identity (x pad rest : Str) (e : Nat) (he : findRootEnd x = some e) (hx : x.drop e = pad ++ rest)
    (hp : Plain pad) (hd : ∀ p ∈ requested, declares p (scanTag (rest.length + 1) rest) = true) : fixXmlPart x = x := by
  apply fix_identity
  intro e' he' p hpm
  rw [he] at he'
  cases he'
  unfold rootTagText
  rw [hx]
  have hl : (pad ++ rest).length + 1 = pad.length + (rest.length + 1) := by simp; omega
  rw [hl, scanTag_pad rest (rest.length + 1) pad hp]
  exact declares_pad p _ (hd p hpm) pad

/-- membership in a forest -/
def memF (n : Node) : Forest → Prop
  | .nil => False
  | .cons m t => m = n ∨ memF n t

/-- **C05 (font declarations, exact key)**: a node of the office:font-face-decls content that is not a style:font-face
    whose style:name is — character for character — among the names declared by the parts read before, is kept with its
    subtree.  Names that differ only by case, by Unicode normalisation or by blanks are different lists of code points. -/
theorem fontDrop_keeps (decl : List (Option Str)) (q : QName) (a : List (QName × Str)) (k : Forest)
    (hn : decl.contains (lookupA aStyleName a) = false) : (f : Forest) → memF (.elem q a k) f → memF (.elem q a k) (fontDrop decl f)
  | .nil, h => by simp [memF] at h
  | .cons (.text s) t, h => by
    simp only [memF] at h
    rcases h with h | h
    · cases h
    · simp only [fontDrop, memF]; exact Or.inr (fontDrop_keeps decl q a k hn t h)
  | .cons (.cdata s) t, h => by
    simp only [memF] at h
    rcases h with h | h
    · cases h
    · simp only [fontDrop, memF]; exact Or.inr (fontDrop_keeps decl q a k hn t h)
  | .cons (.elem q' a' k') t, h => by
    simp only [memF] at h
    rcases h with h | h
    · cases h
      have hm : ¬ (lookupA aStyleName a ∈ decl) := by simpa using hn
      simp [fontDrop, hm, memF]
    · simp only [fontDrop]
      split
      · exact fontDrop_keeps decl q a k hn t h
      · simp only [memF]; exact Or.inr (fontDrop_keeps decl q a k hn t h)

/-- the class of the round-7 inputs: the first part declared "Ab", the second declares "ab", "AB", " Ab" and "Ab" — only
    the last (the same name, character for character) is merged -/
example : fontDrop [some [65, 98]] (.cons (.elem qFontFaceEl [(aStyleName, [97, 98])] .nil)
      (.cons (.elem qFontFaceEl [(aStyleName, [65, 66])] .nil) (.cons (.elem qFontFaceEl [(aStyleName, [32, 65, 98])] .nil)
      (.cons (.elem qFontFaceEl [(aStyleName, [65, 98])] .nil) .nil)))) =
    .cons (.elem qFontFaceEl [(aStyleName, [97, 98])] .nil)
      (.cons (.elem qFontFaceEl [(aStyleName, [65, 66])] .nil) (.cons (.elem qFontFaceEl [(aStyleName, [32, 65, 98])] .nil) .nil)) := by
  simp [fontDrop, lookupA]

end OdfModel.Props.C05Long

import OdfModel.LoadSax
namespace OdfModel.Props.C05
open OdfModel OdfModel.Xml OdfModel.LoadSax

theorem placeholder : stylesPartOf sStylesXml = true := by decide

end OdfModel.Props.C05

/-
  Property C05 — load then save preserves a package produced by any application.

  Model: `OdfModel.LoadSax` (`fixXmlPart` at character level, LoadParser over SAX events) and `OdfModel.Pkg`
  (the manifest dispatch of `load`, `save`).  Foreign XML is NOT parsed by the reference parser of the XML layer
  (it only knows the sub-language the library writes): expat is the trusted front end, the model starts from the
  namespace-resolved event stream.  Tie: harness/c05.py (real `__fixXmlPart` on the text of every part vs
  `fixXmlPart`; recorded SAX streams through the model vs the loaded document; drv_pkg for the dispatch).

  PARTIAL by construction (DESIGN.md §7): the link "text of a part ↦ event stream" is expat's.
-/
import OdfModel.Props.C04
import OdfModel.Pkg
namespace OdfModel.Props.C05
open OdfModel OdfModel.Xml OdfModel.LoadSax OdfModel.Props.C04

/-! ### `__fixXmlPart` -/

/-- every requested prefix is declared somewhere in the text with a BLANK in front of `xmlns:` -/
def DeclaresWithSpace (x : Str) : Prop := ∀ p ∈ requested, isInfix (sXmlnsSp ++ p) x = true

instance (x : Str) : Decidable (DeclaresWithSpace x) := by unfold DeclaresWithSpace; infer_instance

theorem foldl_fixStep_id (x : Str) (ps : List Str) (h : ∀ p ∈ ps, isInfix (sXmlnsSp ++ p) x = true) (r : Str) :
    ps.foldl (fixStep x) r = r := by
  induction ps generalizing r with
  | nil => rfl
  | cons p ps ih =>
    simp only [List.foldl_cons]
    have hp : fixStep x r p = r := by simp [fixStep, h p (by simp)]
    rw [hp]
    exact ih (fun q hq => h q (by simp [hq])) r

/-- **C05 (fix_identity)**: a part that declares the nine prefixes the way the test looks for them is not touched. -/
theorem fix_identity (x : Str) (h : DeclaresWithSpace x) : fixXmlPart x = x :=
  foldl_fixStep_id x requested h x

/-- … and a part without any `" xmlns:"` is not touched either (`index` raises, `except: pass`): this is why
    declarations that are ALL separated by newlines are accidentally fine -/
theorem fix_no_anchor (x : Str) (h : indexOf sXmlnsSp x = none) : fixXmlPart x = x := by
  have : ∀ (ps : List Str), ps.foldl (fixStep x) x = x := by
    intro ps
    induction ps with
    | nil => rfl
    | cons p ps ih =>
      simp only [List.foldl_cons]
      have hp : fixStep x x p = x := by unfold fixStep; split <;> simp [h]
      rw [hp]; exact ih
  exact this requested

/-! #### a scanner for the attribute names of the first start tag (specification side, any XML white space) -/

def isWs (c : Cp) : Bool := c == 32 || c == 9 || c == 10 || c == 13

/-- mode 0: inside the element name; 1: between attributes; 2: inside an attribute name (`cur`); 3: after the name,
    before the value; 4: inside a value quoted with `q`.  Stops at the `>` that ends the tag. -/
def scanAttrs : Nat → Str → Cp → Str → List Str
  | _, _, _, [] => []
  | 0, cur, q, c :: r => if c == 62 then [] else if isWs c || c == 47 then scanAttrs 1 [] q r else scanAttrs 0 cur q r
  | 1, cur, q, c :: r => if c == 62 then [] else if isWs c || c == 47 then scanAttrs 1 [] q r else scanAttrs 2 [c] q r
  | 2, cur, q, c :: r =>
    if c == 62 then [cur] else if c == 61 || isWs c then cur :: scanAttrs 3 [] q r else scanAttrs 2 (cur ++ [c]) q r
  | 3, cur, q, c :: r =>
    if c == 62 then [] else if c == 34 || c == 39 then scanAttrs 4 [] c r else scanAttrs 3 cur q r
  | _, cur, q, c :: r => if c == q then scanAttrs 1 [] q r else scanAttrs 4 cur q r

/-- the text after the first `?>` (the XML declaration), from the first `<` on, without that `<` -/
def afterProlog : Str → Str
  | 63 :: 62 :: r => (r.dropWhile (· != 60)).drop 1
  | _ :: r => afterProlog r
  | [] => []

def rootAttrNames (x : Str) : List Str := scanAttrs 0 [] 0 (afterProlog x)

/-- the markup (everything between `<` and the matching `>`) and the character data of a text without `>` inside
    attribute values -/
def splitMarkup : Bool → Str → Str × Str
  | _, [] => ([], [])
  | true, c :: r => let p := splitMarkup (c != 62) r; (c :: p.1, p.2)
  | false, c :: r => if c == 60 then let p := splitMarkup true r; (c :: p.1, p.2) else let p := splitMarkup false r; (p.1, c :: p.2)

/-! #### the parse step, with expat as a parameter -/

/-- what a conforming XML processor must do with a start tag that names an attribute twice (well-formedness
    constraint "Unique Att Spec") -/
def RejectsDuplicateRootAttr (P : Str → Option (List Event)) : Prop :=
  ∀ x, ¬ (rootAttrNames x).Nodup → P x = none

/-- one iteration of `__loadxmlparts`: `__fixXmlPart`, parse, LoadParser; a `SAXParseException` is printed and
    SWALLOWED (`none` of the parser ↦ the document as it was).  Exact when the error is in the root start tag (no
    event has been delivered yet), which is where `__fixXmlPart` splices. -/
def loadText (P : Str → Option (List Event)) (member : Str) (l : Loaded) (x : Str) : Loaded :=
  match P (fixXmlPart x) with
  | none => l
  | some evs => (loadPart (stylesPartOf member) l evs).getD l

/-- content.xml: the first declaration after a blank, `xmlns:meta` after newline + TAB, a body with one paragraph -/
def w1 : Str := [60, 63, 120, 109, 108, 32, 118, 101, 114, 115, 105, 111, 110, 61, 39, 49, 46, 48, 39, 32, 101, 110, 99, 111, 100, 105, 110, 103, 61, 39, 85, 84, 70, 45, 56, 39, 63, 62, 10, 60, 111, 58, 100, 111, 99, 117, 109, 101, 110, 116, 45, 99, 111, 110, 116, 101, 110, 116, 32, 120, 109, 108, 110, 115, 58, 111, 61, 34, 117, 114, 110, 58, 111, 97, 115, 105, 115, 58, 110, 97, 109, 101, 115, 58, 116, 99, 58, 111, 112, 101, 110, 100, 111, 99, 117, 109, 101, 110, 116, 58, 120, 109, 108, 110, 115, 58, 111, 102, 102, 105, 99, 101, 58, 49, 46, 48, 34, 10, 9, 120, 109, 108, 110, 115, 58, 109, 101, 116, 97, 61, 34, 117, 114, 110, 58, 109, 34, 62, 60, 111, 58, 98, 111, 100, 121, 62, 60, 117, 58, 112, 32, 120, 109, 108, 110, 115, 58, 117, 61, 34, 117, 34, 47, 62, 60, 47, 111, 58, 98, 111, 100, 121, 62, 60, 47, 111, 58, 100, 111, 99, 117, 109, 101, 110, 116, 45, 99, 111, 110, 116, 101, 110, 116, 62]

/-- `xmlns:meta` -/
def sXmlnsMeta : Str := [120, 109, 108, 110, 115, 58, 109, 101, 116, 97]

/-- **known finding KF-C05-1, proved**: in `w1` every attribute of the root tag is named once, and `xmlns:meta` is
    declared; `__fixXmlPart` does not see the declaration (no blank in front of it) and splices a second `xmlns:meta`
    into the same tag … -/
theorem fix_finding_duplicate_xmlns :
    (rootAttrNames w1).Nodup ∧ sXmlnsMeta ∈ rootAttrNames w1 ∧
    (rootAttrNames (fixXmlPart w1)).count sXmlnsMeta = 2 ∧ ¬ (rootAttrNames (fixXmlPart w1)).Nodup := by
  decide +kernel

/-- … so every conforming parser rejects the patched text, the exception is swallowed, and the part is silently
    dropped: the document is what it was before (body empty), whatever the part contained. -/
theorem fix_finding_part_dropped (P : Str → Option (List Event)) (hP : RejectsDuplicateRootAttr P)
    (member : Str) (l : Loaded) : loadText P member l w1 = l := by
  unfold loadText
  rw [hP _ fix_finding_duplicate_xmlns.2.2.2]

/-- content.xml with newline-separated declarations and the words ` xmlns:x` in a paragraph -/
def w2 : Str := [60, 63, 120, 109, 108, 32, 118, 101, 114, 115, 105, 111, 110, 61, 39, 49, 46, 48, 39, 32, 101, 110, 99, 111, 100, 105, 110, 103, 61, 39, 85, 84, 70, 45, 56, 39, 63, 62, 10, 60, 111, 58, 100, 111, 99, 117, 109, 101, 110, 116, 45, 99, 111, 110, 116, 101, 110, 116, 10, 120, 109, 108, 110, 115, 58, 111, 61, 34, 117, 114, 110, 58, 111, 97, 115, 105, 115, 58, 110, 97, 109, 101, 115, 58, 116, 99, 58, 111, 112, 101, 110, 100, 111, 99, 117, 109, 101, 110, 116, 58, 120, 109, 108, 110, 115, 58, 111, 102, 102, 105, 99, 101, 58, 49, 46, 48, 34, 62, 60, 111, 58, 98, 111, 100, 121, 62, 60, 117, 58, 112, 10, 120, 109, 108, 110, 115, 58, 117, 61, 34, 117, 34, 62, 115, 97, 121, 32, 120, 109, 108, 110, 115, 58, 120, 60, 47, 117, 58, 112, 62, 60, 47, 111, 58, 98, 111, 100, 121, 62, 60, 47, 111, 58, 100, 111, 99, 117, 109, 101, 110, 116, 45, 99, 111, 110, 116, 101, 110, 116, 62]

/-- **known finding KF-C05-2, proved**: in `w2` the first `" xmlns:"` lies in character data; `__fixXmlPart` leaves
    all markup as it is and makes the character data 553 characters longer (nine declarations inside the sentence). -/
theorem fix_finding_splice_in_text :
    (splitMarkup false (fixXmlPart w2)).1 = (splitMarkup false w2).1 ∧
    (splitMarkup false w2).2.length = 12 ∧ (splitMarkup false (fixXmlPart w2)).2.length = 12 + 553 := by
  decide +kernel

/-- a part that satisfies `fix_identity`: all nine prefixes declared after a blank -/
def w3 : Str := [60, 63, 120, 109, 108, 32, 118, 101, 114, 115, 105, 111, 110, 61, 39, 49, 46, 48, 39, 32, 101, 110, 99, 111, 100, 105, 110, 103, 61, 39, 85, 84, 70, 45, 56, 39, 63, 62, 10, 60, 111, 58, 100, 111, 99, 117, 109, 101, 110, 116, 45, 99, 111, 110, 116, 101, 110, 116, 32, 120, 109, 108, 110, 115, 58, 111, 61, 34, 117, 114, 110, 58, 111, 97, 115, 105, 115, 58, 110, 97, 109, 101, 115, 58, 116, 99, 58, 111, 112, 101, 110, 100, 111, 99, 117, 109, 101, 110, 116, 58, 120, 109, 108, 110, 115, 58, 111, 102, 102, 105, 99, 101, 58, 49, 46, 48, 34, 32, 120, 109, 108, 110, 115, 58, 109, 101, 116, 97, 61, 34, 109, 34, 32, 120, 109, 108, 110, 115, 58, 99, 111, 110, 102, 105, 103, 61, 34, 99, 34, 32, 120, 109, 108, 110, 115, 58, 100, 99, 61, 34, 100, 34, 32, 120, 109, 108, 110, 115, 58, 115, 116, 121, 108, 101, 61, 34, 115, 34, 32, 120, 109, 108, 110, 115, 58, 115, 118, 103, 61, 34, 118, 34, 32, 120, 109, 108, 110, 115, 58, 102, 111, 61, 34, 102, 34, 32, 120, 109, 108, 110, 115, 58, 100, 114, 97, 119, 61, 34, 114, 34, 32, 120, 109, 108, 110, 115, 58, 116, 97, 98, 108, 101, 61, 34, 116, 34, 32, 120, 109, 108, 110, 115, 58, 102, 111, 114, 109, 61, 34, 103, 34, 62, 60, 111, 58, 98, 111, 100, 121, 47, 62, 60, 47, 111, 58, 100, 111, 99, 117, 109, 101, 110, 116, 45, 99, 111, 110, 116, 101, 110, 116, 62]

/-- non-vacuity of `fix_identity` -/
example : DeclaresWithSpace w3 := by decide +kernel

end OdfModel.Props.C05

/-
  Property C05 — load then save preserves a package produced by any application.

  Model: `OdfModel.LoadSax` (`fixXmlPart` at character level, LoadParser over SAX events) and `OdfModel.Pkg`
  (the manifest dispatch of `load`, `save`).  Foreign XML is NOT parsed by the reference parser of the XML layer
  (it only knows the sub-language the library writes): expat is the trusted front end, the model starts from the
  namespace-resolved event stream.  Tie: harness/c05.py (real `__fixXmlPart` on the text of every part vs
  `fixXmlPart`; recorded SAX streams through the model vs the loaded document; drv_pkg for the dispatch).

  PARTIAL by construction (DESIGN.md §7): the link "text of a part ↦ event stream" is expat's.
-/
import OdfModel.Props.C04
import OdfModel.Props.C05Extras
namespace OdfModel.Props.C05
open OdfModel OdfModel.Xml OdfModel.LoadSax OdfModel.Props.C04

/-! ### `__fixXmlPart` (as of fixes 4cb8050, 692b8c3, e859a9c) -/

/-- the document element's start tag (up to its first `>` outside quoted values) declares every requested prefix, with any white space
    in front of `xmlns:` and around `=` -/
def DeclaresInRoot (x : Str) : Prop :=
  ∀ e, findRootEnd x = some e → ∀ p ∈ requested, declares p (rootTagText x e) = true

theorem foldl_fixStep_id (tag : Str) (e : Nat) (ps : List Str) (h : ∀ p ∈ ps, declares p tag = true) (r : Str) :
    ps.foldl (fixStep tag e) r = r := by
  induction ps generalizing r with
  | nil => rfl
  | cons p ps ih =>
    simp only [List.foldl_cons]
    have hp : fixStep tag e r p = r := by simp [fixStep, h p (by simp)]
    rw [hp]
    exact ih (fun q hq => h q (by simp [hq])) r

/-- **C05 (fix_identity)**: a part whose document element declares the nine prefixes is not touched — whatever
    white space separates the declarations. -/
theorem fix_identity (x : Str) (h : DeclaresInRoot x) : fixXmlPart x = x := by
  unfold fixXmlPart
  cases hr : findRootEnd x with
  | none => rfl
  | some e => exact foldl_fixStep_id _ e requested (h e hr) x

/-- a text in which no element start is found is not touched either -/
theorem fix_no_root (x : Str) (h : findRootEnd x = none) : fixXmlPart x = x := by
  unfold fixXmlPart; rw [h]

/-! #### the function only ever inserts INSIDE the root start tag (fix e859a9c) -/

theorem length_takeWhile_le (p : Cp → Bool) : (l : Str) → (l.takeWhile p).length ≤ l.length
  | [] => by simp
  | c :: r => by
    have := length_takeWhile_le p r
    by_cases h : p c = true <;> simp [List.takeWhile_cons, h] <;> omega

theorem rootEndAt_bounds (x : Str) (k e : Nat) (h : rootEndAt x k = some e) : k + 2 ≤ e ∧ e ≤ x.length := by
  unfold rootEndAt at h
  split at h
  · rename_i d r hd
    split at h
    · rename_i hc
      cases h
      have hlen : (x.drop k).length = (d :: r).length + 1 := by rw [hd]; rfl
      have htw : ((d :: r).takeWhile isRootNameCh).length ≤ (d :: r).length := length_takeWhile_le _ _
      have hpos : 1 ≤ ((d :: r).takeWhile isRootNameCh).length := by
        have hdn : isRootNameCh d = true := by
          simp only [Bool.and_eq_true] at hc; exact hc.2
        simp [hdn]
      have hk : (x.drop k).length = x.length - k := List.length_drop
      constructor
      · omega
      · omega
    · cases h
  · cases h

/-- what the loop does to the text: everything it adds stands at offset `e` -/
theorem foldl_fixStep_splice (tag x : Str) (e : Nat) (he : e ≤ x.length) (ps : List Str) (ins : Str) :
    ∃ ins', ps.foldl (fixStep tag e) (x.take e ++ ins ++ x.drop e) = x.take e ++ ins' ++ x.drop e := by
  induction ps generalizing ins with
  | nil => exact ⟨ins, rfl⟩
  | cons p ps ih =>
    simp only [List.foldl_cons]
    by_cases hd : declares p tag = true
    · simp only [fixStep, hd, if_true]; exact ih ins
    · have hl : (x.take e).length = e := by simp [List.length_take, he]
      have h1 : (x.take e ++ ins ++ x.drop e).take e = x.take e := by
        rw [List.append_assoc, List.take_append_of_le_length (by omega), List.take_of_length_le (by omega)]
      have h2 : (x.take e ++ ins ++ x.drop e).drop e = ins ++ x.drop e := by
        rw [List.append_assoc, List.drop_append_of_le_length (by omega), List.drop_of_length_le (by omega)]
        simp
      have : fixStep tag e (x.take e ++ ins ++ x.drop e) p = x.take e ++ (toInsert p ++ ins) ++ x.drop e := by
        simp only [fixStep, hd]; rw [h1, h2]; simp [List.append_assoc]
      rw [this]; exact ih (toInsert p ++ ins)

/-- **C05 / C13 (fix_inserts_in_root_tag)**: either the text is returned as it is, or the document element's name ends at
    `e`, at least two characters (`<` and one name character) behind the prolog, and the result is the input with text
    inserted at `e` — behind the element name, inside the root start tag — and nowhere else. -/
theorem fix_inserts_in_root_tag (x : Str) :
    fixXmlPart x = x ∨ ∃ e ins, findRootEnd x = some e ∧ prologLen x + 2 ≤ e ∧ e ≤ x.length ∧
      fixXmlPart x = x.take e ++ ins ++ x.drop e := by
  unfold fixXmlPart
  cases hr : findRootEnd x with
  | none => exact Or.inl rfl
  | some e =>
    right
    obtain ⟨h1, h2⟩ := rootEndAt_bounds x (prologLen x) e hr
    obtain ⟨ins, hi⟩ := foldl_fixStep_splice (rootTagText x e) x e h2 requested []
    refine ⟨e, ins, rfl, h1, h2, ?_⟩
    simpa using hi

/-- **C05 / C13 (fix_prolog_untouched)**: the result agrees with the input on the whole prolog — everything in front
    of the document element's start tag: XML declaration, comments, processing instructions, the DOCTYPE with its
    internal subset — and on the `<` and the first name character behind it.  For EVERY text (`prologLen` is Python's
    match of the prolog regex, well-formed prolog or not). -/
theorem fix_prolog_untouched (x : Str) :
    (fixXmlPart x).take (prologLen x + 2) = x.take (prologLen x + 2) := by
  rcases fix_inserts_in_root_tag x with h | ⟨e, ins, _, h1, h2, h⟩
  · rw [h]
  · have hl : (x.take e).length = e := by simp [List.length_take, h2]
    rw [h, List.append_assoc, List.take_append_of_le_length (by omega), List.take_take]
    congr 1; omega

/-- the same, for any shorter prefix -/
theorem fix_prolog_untouched_le (x : Str) (k : Nat) (hk : k ≤ prologLen x + 2) :
    (fixXmlPart x).take k = x.take k := by
  have h := congrArg (List.take k) (fix_prolog_untouched x)
  simpa [List.take_take, Nat.min_eq_left hk] using h

/-- … and nothing behind the element name is touched either: the rest of the input follows the inserted text -/
theorem fix_rest_untouched (x : Str) (e : Nat) (h : findRootEnd x = some e) :
    ∃ ins, (fixXmlPart x).drop e = ins ++ x.drop e := by
  rcases fix_inserts_in_root_tag x with hid | ⟨e', ins, he, _, h2, hx⟩
  · exact ⟨[], by rw [hid]; rfl⟩
  · rw [h] at he; cases he
    have hl : (x.take e).length = e := by simp [List.length_take, h2]
    exact ⟨ins, by rw [hx, List.append_assoc, List.drop_append_of_le_length (by omega), List.drop_of_length_le (by omega)]; simp⟩

/-- the seeded change that exposed the defect: an entity literal with a `<b` inside the internal subset -/
def w5 : Str := [60, 33, 68, 79, 67, 84, 89, 80, 69, 32, 120, 32, 91, 60, 33, 69, 78, 84, 73, 84, 89, 32, 97, 32, 34, 60, 98, 62, 69, 88, 80, 60, 47, 98, 62, 34, 62, 93, 62, 60, 114, 47, 62]

/-- `<!DOCTYPE x [<!ENTITY a "<b>EXP</b>">]><r/>`: the prolog is the whole DOCTYPE (39 characters), the document element is
    `r`, not the `b` of the literal, and the nine declarations go behind `<r` -/
theorem fix_w5_root_behind_doctype :
    prologLen w5 = 39 ∧ findRootEnd w5 = some 41 ∧ (fixXmlPart w5).take 41 = w5.take 41 ∧
      (fixXmlPart w5).length = w5.length + (requested.map (fun p => (toInsert p).length)).sum := by
  decide +kernel

/-! #### a scanner for the attribute names of the first start tag (specification side, any XML white space) -/

def isWs (c : Cp) : Bool := c == 32 || c == 9 || c == 10 || c == 13

/-- mode 0: inside the element name; 1: between attributes; 2: inside an attribute name (`cur`); 3: after the name,
    before the value; 4: inside a value quoted with `q`.  Stops at the `>` that ends the tag. -/
def scanAttrs : Nat → Str → Cp → Str → List Str
  | _, _, _, [] => []
  | 0, cur, q, c :: r => if c == 62 then [] else if isWs c || c == 47 then scanAttrs 1 [] q r else scanAttrs 0 cur q r
  | 1, cur, q, c :: r => if c == 62 then [] else if isWs c || c == 47 then scanAttrs 1 [] q r else scanAttrs 2 [c] q r
  | 2, cur, q, c :: r =>
    if c == 62 then [cur] else if c == 61 || isWs c then cur :: scanAttrs 3 [] q r else scanAttrs 2 (cur ++ [c]) q r
  | 3, cur, q, c :: r =>
    if c == 62 then [] else if c == 34 || c == 39 then scanAttrs 4 [] c r else scanAttrs 3 cur q r
  | _, cur, q, c :: r => if c == q then scanAttrs 1 [] q r else scanAttrs 4 cur q r

/-- the text after the first `?>` (the XML declaration), from the first `<` on, without that `<` -/
def afterProlog : Str → Str
  | 63 :: 62 :: r => (r.dropWhile (· != 60)).drop 1
  | _ :: r => afterProlog r
  | [] => []

def rootAttrNames (x : Str) : List Str := scanAttrs 0 [] 0 (afterProlog x)

/-- the markup (everything between `<` and the matching `>`) and the character data of a text without `>` inside
    attribute values -/
def splitMarkup : Bool → Str → Str × Str
  | _, [] => ([], [])
  | true, c :: r => let p := splitMarkup (c != 62) r; (c :: p.1, p.2)
  | false, c :: r => if c == 60 then let p := splitMarkup true r; (c :: p.1, p.2) else let p := splitMarkup false r; (p.1, c :: p.2)

/-! #### the parse step, with expat as a parameter -/

/-- what a conforming XML processor must do with a start tag that names an attribute twice (well-formedness
    constraint "Unique Att Spec") -/
def RejectsDuplicateRootAttr (P : Str → Option (List Event)) : Prop :=
  ∀ x, ¬ (rootAttrNames x).Nodup → P x = none

/-- one iteration of `__loadxmlparts`: `__fixXmlPart`, parse, LoadParser; a `SAXParseException` is printed and
    SWALLOWED (`none` of the parser ↦ the document as it was).  Exact when the error is in the root start tag (no
    event has been delivered yet), which is where `__fixXmlPart` splices. -/
def loadText (P : Str → Option (List Event)) (member : Str) (l : Loaded) (x : Str) : Loaded :=
  match P (fixXmlPart x) with
  | none => l
  | some evs => (loadPart (stylesPartOf member) l evs).getD l

/-- content.xml: the first declaration after a blank, `xmlns:meta` after newline + TAB, a body with one paragraph -/
def w1 : Str := [60, 63, 120, 109, 108, 32, 118, 101, 114, 115, 105, 111, 110, 61, 39, 49, 46, 48, 39, 32, 101, 110, 99, 111, 100, 105, 110, 103, 61, 39, 85, 84, 70, 45, 56, 39, 63, 62, 10, 60, 111, 58, 100, 111, 99, 117, 109, 101, 110, 116, 45, 99, 111, 110, 116, 101, 110, 116, 32, 120, 109, 108, 110, 115, 58, 111, 61, 34, 117, 114, 110, 58, 111, 97, 115, 105, 115, 58, 110, 97, 109, 101, 115, 58, 116, 99, 58, 111, 112, 101, 110, 100, 111, 99, 117, 109, 101, 110, 116, 58, 120, 109, 108, 110, 115, 58, 111, 102, 102, 105, 99, 101, 58, 49, 46, 48, 34, 10, 9, 120, 109, 108, 110, 115, 58, 109, 101, 116, 97, 61, 34, 117, 114, 110, 58, 109, 34, 62, 60, 111, 58, 98, 111, 100, 121, 62, 60, 117, 58, 112, 32, 120, 109, 108, 110, 115, 58, 117, 61, 34, 117, 34, 47, 62, 60, 47, 111, 58, 98, 111, 100, 121, 62, 60, 47, 111, 58, 100, 111, 99, 117, 109, 101, 110, 116, 45, 99, 111, 110, 116, 101, 110, 116, 62]

/-- `xmlns:meta` -/
def sXmlnsMeta : Str := [120, 109, 108, 110, 115, 58, 109, 101, 116, 97]

/-- (was known finding KF-C05-1, repaired in 4cb8050) in `w1` — first declaration after a blank, `xmlns:meta` after
    newline + TAB — the declaration of `meta` is now seen: the patched root tag names every attribute once, and the
    eight prefixes that were missing are declared. -/
theorem fix_w1_ok :
    (rootAttrNames (fixXmlPart w1)).Nodup ∧ (rootAttrNames (fixXmlPart w1)).count sXmlnsMeta = 1 ∧
    (rootAttrNames (fixXmlPart w1)).length = 2 + 8 := by
  decide +kernel

/-- content.xml whose root tag has a literal `>` inside an attribute value in FRONT of the declaration of `meta` -/
def w4 : Str := [60, 63, 120, 109, 108, 32, 118, 101, 114, 115, 105, 111, 110, 61, 39, 49, 46, 48, 39, 32, 101, 110, 99, 111, 100, 105, 110, 103, 61, 39, 85, 84, 70, 45, 56, 39, 63, 62, 10, 60, 111, 58, 100, 111, 99, 117, 109, 101, 110, 116, 45, 99, 111, 110, 116, 101, 110, 116, 32, 120, 109, 108, 110, 115, 58, 111, 61, 34, 117, 114, 110, 58, 111, 97, 115, 105, 115, 58, 110, 97, 109, 101, 115, 58, 116, 99, 58, 111, 112, 101, 110, 100, 111, 99, 117, 109, 101, 110, 116, 58, 120, 109, 108, 110, 115, 58, 111, 102, 102, 105, 99, 101, 58, 49, 46, 48, 34, 32, 120, 109, 108, 110, 115, 58, 120, 61, 34, 97, 62, 98, 34, 32, 120, 109, 108, 110, 115, 58, 109, 101, 116, 97, 61, 34, 117, 114, 110, 58, 109, 34, 62, 60, 111, 58, 98, 111, 100, 121, 62, 60, 117, 58, 112, 32, 120, 109, 108, 110, 115, 58, 117, 61, 34, 117, 34, 47, 62, 60, 47, 111, 58, 98, 111, 100, 121, 62, 60, 47, 111, 58, 100, 111, 99, 117, 109, 101, 110, 116, 45, 99, 111, 110, 116, 101, 110, 116, 62]

/-- (was known finding KF-C05-17, repaired in 692b8c3) the root start tag now ends at the first `>` OUTSIDE a quoted
    value: in `w4` the declaration of `meta` behind `xmlns:x="a>b"` is seen, nothing is declared twice. -/
theorem fix_w4_ok :
    (rootAttrNames w4).Nodup ∧ sXmlnsMeta ∈ rootAttrNames w4 ∧
    (rootAttrNames (fixXmlPart w4)).Nodup ∧ (rootAttrNames (fixXmlPart w4)).count sXmlnsMeta = 1 ∧
    (rootAttrNames (fixXmlPart w4)).length = 3 + 8 := by
  decide +kernel

/-- content.xml with newline-separated declarations and the words ` xmlns:x` in a paragraph -/
def w2 : Str := [60, 63, 120, 109, 108, 32, 118, 101, 114, 115, 105, 111, 110, 61, 39, 49, 46, 48, 39, 32, 101, 110, 99, 111, 100, 105, 110, 103, 61, 39, 85, 84, 70, 45, 56, 39, 63, 62, 10, 60, 111, 58, 100, 111, 99, 117, 109, 101, 110, 116, 45, 99, 111, 110, 116, 101, 110, 116, 10, 120, 109, 108, 110, 115, 58, 111, 61, 34, 117, 114, 110, 58, 111, 97, 115, 105, 115, 58, 110, 97, 109, 101, 115, 58, 116, 99, 58, 111, 112, 101, 110, 100, 111, 99, 117, 109, 101, 110, 116, 58, 120, 109, 108, 110, 115, 58, 111, 102, 102, 105, 99, 101, 58, 49, 46, 48, 34, 62, 60, 111, 58, 98, 111, 100, 121, 62, 60, 117, 58, 112, 10, 120, 109, 108, 110, 115, 58, 117, 61, 34, 117, 34, 62, 115, 97, 121, 32, 120, 109, 108, 110, 115, 58, 120, 60, 47, 117, 58, 112, 62, 60, 47, 111, 58, 98, 111, 100, 121, 62, 60, 47, 111, 58, 100, 111, 99, 117, 109, 101, 110, 116, 45, 99, 111, 110, 116, 101, 110, 116, 62]

/-- (was known finding KF-C05-2, repaired in 4cb8050) in `w2` — declarations separated by newlines, the words
    ` xmlns:x` in a paragraph — the character data is no longer touched: all nine insertions go into the root tag. -/
theorem fix_w2_text_untouched :
    (splitMarkup false (fixXmlPart w2)).2 = (splitMarkup false w2).2 ∧
    (rootAttrNames (fixXmlPart w2)).Nodup ∧ (rootAttrNames (fixXmlPart w2)).length = 1 + 9 := by
  decide +kernel

/-- a part that satisfies `fix_identity`: all nine prefixes declared after a blank -/
def w3 : Str := [60, 63, 120, 109, 108, 32, 118, 101, 114, 115, 105, 111, 110, 61, 39, 49, 46, 48, 39, 32, 101, 110, 99, 111, 100, 105, 110, 103, 61, 39, 85, 84, 70, 45, 56, 39, 63, 62, 10, 60, 111, 58, 100, 111, 99, 117, 109, 101, 110, 116, 45, 99, 111, 110, 116, 101, 110, 116, 32, 120, 109, 108, 110, 115, 58, 111, 61, 34, 117, 114, 110, 58, 111, 97, 115, 105, 115, 58, 110, 97, 109, 101, 115, 58, 116, 99, 58, 111, 112, 101, 110, 100, 111, 99, 117, 109, 101, 110, 116, 58, 120, 109, 108, 110, 115, 58, 111, 102, 102, 105, 99, 101, 58, 49, 46, 48, 34, 32, 120, 109, 108, 110, 115, 58, 109, 101, 116, 97, 61, 34, 109, 34, 32, 120, 109, 108, 110, 115, 58, 99, 111, 110, 102, 105, 103, 61, 34, 99, 34, 32, 120, 109, 108, 110, 115, 58, 100, 99, 61, 34, 100, 34, 32, 120, 109, 108, 110, 115, 58, 115, 116, 121, 108, 101, 61, 34, 115, 34, 32, 120, 109, 108, 110, 115, 58, 115, 118, 103, 61, 34, 118, 34, 32, 120, 109, 108, 110, 115, 58, 102, 111, 61, 34, 102, 34, 32, 120, 109, 108, 110, 115, 58, 100, 114, 97, 119, 61, 34, 114, 34, 32, 120, 109, 108, 110, 115, 58, 116, 97, 98, 108, 101, 61, 34, 116, 34, 32, 120, 109, 108, 110, 115, 58, 102, 111, 114, 109, 61, 34, 103, 34, 62, 60, 111, 58, 98, 111, 100, 121, 47, 62, 60, 47, 111, 58, 100, 111, 99, 117, 109, 101, 110, 116, 45, 99, 111, 110, 116, 101, 110, 116, 62]

/-- non-vacuity of `fix_identity` -/
example : DeclaresInRoot w3 := by
  intro e he p hp
  have : findRootEnd w3 = some 58 := by decide +kernel
  rw [this] at he; cases he
  revert p; decide +kernel

/-! ### sections over SAX event streams -/

/-- **C05 (sections_preserved, partial)**: a section of a foreign part, as expat delivers it — `kids` canonical
    (character data merged, no empty text) — is loaded EXACTLY: element for element, attribute for attribute,
    character for character, white-space-only text included, whatever elements it contains (an inline office:document
    with its own office:body … included, since repair e0e65e8); and what `save` then writes for it is parsed back to
    the same forest (`canonTF [] kids = kids`).
    Hypotheses, each a decidable property of the source: the parser is idle and the section still empty (first
    occurrence); the element is a section element (`secOfTrigger`: all eight, office:font-face-decls from every part
    since repair b40b9f8); `kids` has at least one element child (else its text is dropped), registers only fresh
    style names (no rename: C11), no string of it holds a code point the writer filters (`huF kids = kids`: KF-C02-1);
    no further condition for office:font-face-decls (declared font names are taken when the section starts: empty
    here, so every declaration of this part is kept, repeats included; the second part: `font_section_second_part`).
    Not in the model: attribute converters (values must be fixed points: C15), expat itself. -/
theorem sections_preserved_partial (st : St) (q : QName) (a : List (QName × Str)) (kids : Forest) (s : Sec)
    (hi : Idle st) (hf : st.fix = []) (hempty : st.doc.get s = .nil) (hr : secOfTrigger q = some s)
    (hfr : fresh st.names (regAllF (some (qOfSec s)) kids) = true)
    (hc : canonB kids = true) (he : hasElemF kids = true) (hh : huF kids = kids) :
    ∃ st', run st (evN (.elem q a kids)) = some st' ∧ st'.doc.get s = kids ∧ canonTF [] (st'.doc.get s) = kids ∧
      st'.doc.sattrs s = putAttrs (st.doc.sattrs s) a ∧ Idle st' ∧ st'.fix = [] := by
  have hg : (st.doc.putAttrs s a).get s = st.doc.get s := by cases s <;> rfl
  have hk : keepS st.doc s kids = kids := by
    cases s <;> first | rfl | (simp only [Doc.get] at hempty; simp [keepS, hempty, declaredNames, fontDrop_nil_decl])
  refine ⟨afterSection st s a kids, run_section st q a kids s hi hf hr (by rw [hk]; exact hfr), ?_, ?_, ?_,
    afterSection_idle st s a kids hi, by simpa [afterSection] using hf⟩
  · simp [afterSection, hk, hg, hempty, secContent, he, mergeTF_canon_id kids hc]
  · simp only [afterSection, hk, Doc.get_app_same, hg, hempty, appF_nil_left, secContent, he, if_true,
      mergeTF_canon_id kids hc]
    rw [canonTF_eq_merge, hh, mergeTF_canon_id kids hc]
  · cases s <;> simp [afterSection, Doc.app, Doc.set, Doc.putAttrs]

/-- the other sections are not touched by it -/
theorem other_sections_untouched (st : St) (q : QName) (a : List (QName × Str)) (kids : Forest) (s s' : Sec)
    (hi : Idle st) (hf : st.fix = []) (hr : secOfTrigger q = some s)
    (hfr : fresh st.names (regAllF (some (qOfSec s)) (keepS st.doc s kids)) = true) (hne : s' ≠ s) :
    ∃ st', run st (evN (.elem q a kids)) = some st' ∧ st'.doc.get s' = st.doc.get s' := by
  have hg : (st.doc.putAttrs s a).get s' = st.doc.get s' := by cases s' <;> rfl
  exact ⟨afterSection st s a kids, run_section st q a kids s hi hf hr hfr,
    by simp [afterSection, Doc.get_app_other _ _ _ _ hne, hg]⟩

theorem setA_fresh (k : QName) (v : Str) : (cur : List (QName × Str)) → k ∉ cur.map (·.1) → setA k v cur = cur ++ [(k, v)]
  | [], _ => rfl
  | (q, w) :: r, h => by
    have h1 : q ≠ k := by intro e; apply h; simp [e]
    have h2 : k ∉ r.map (·.1) := by intro e; apply h; simp [e]
    simp [setA, h1, setA_fresh k v r h2]

theorem putAttrs_fresh : (a cur : List (QName × Str)) → ((cur ++ a).map (·.1)).Nodup → putAttrs cur a = cur ++ a
  | [], cur, _ => by simp [putAttrs]
  | (k, v) :: r, cur, h => by
    have hk : k ∉ cur.map (·.1) := by
      intro e
      simp only [List.map_append, List.map_cons, List.nodup_append] at h
      exact h.2.2 k e k (by simp) rfl
    rw [putAttrs, setA_fresh k v cur hk, putAttrs_fresh r (cur ++ [(k, v)]) (by simpa [List.append_assoc] using h)]
    simp

/-- (was known finding KF-C05-9, repaired in 2a48e47) **the attributes of a section element are kept**: a section
    object that has no attributes yet ends up with exactly the attributes of the file, in order (SAX delivers every
    attribute name once) -/
theorem section_attributes_kept (a : List (QName × Str)) (h : (a.map (·.1)).Nodup) : putAttrs [] a = a := by
  simpa using putAttrs_fresh a [] (by simpa using h)

/-- **office:font-face-decls of the part read second** (styles.xml after content.xml), exact statement: the fonts whose
    style:name the first part declared are skipped, the others are appended.  So the font declarations of a foreign
    package are preserved exactly when the two parts AGREE on every name both declare (then nothing that is skipped is
    lost); two different fonts under one name in the two parts lose the second (KF-C05-18, `finding_font_name_clash`). -/
theorem font_section_second_part (st : St) (q : QName) (a : List (QName × Str)) (kids : Forest)
    (hi : Idle st) (hf : st.fix = []) (hr : secOfTrigger q = some .fontFace)
    (hfr : fresh st.names (regAllF (some qFontFace) (fontDrop (declaredNames st.doc.fontFace) kids)) = true) :
    ∃ st', run st (evN (.elem q a kids)) = some st' ∧
      st'.doc.fontFace = appF st.doc.fontFace (secContent (fontDrop (declaredNames st.doc.fontFace) kids)) :=
  ⟨afterSection st .fontFace a kids, run_section st q a kids .fontFace hi hf hr (by simpa [keepS, qOfSec] using hfr),
    by simp [afterSection, keepS, Doc.app, Doc.set, Doc.get, Doc.putAttrs]⟩

/-- (was known finding KF-C05-3, repaired in b40b9f8) a font declared in content.xml is loaded; `fonts_loaded_once`
    (Props/C04.lean) shows content only / a sub-document's styles.xml / both parts, with a name repeated inside the part. -/
theorem content_fonts_loaded :
    (loadPart (stylesPartOf sContentXml) {} (evN fontsPart)).map (fun l => declaredNames l.doc.fontFace) =
      some [some [70], some [70], some [71]] := fonts_loaded_once.2.1

/-- **known finding KF-C05-18, proved**: the part read first declared the font name "F"; the part read second declares
    "F" with other content and "G": its "F" is dropped whatever it says, "G" is kept. -/
theorem finding_font_name_clash :
    fontDrop [some [70]] (.cons (.elem qFontFaceEl [(aStyleName, [70]), (aTextStyleName, [50])] .nil)
                           (.cons (.elem qFontFaceEl [(aStyleName, [71])] .nil) .nil)) =
      .cons (.elem qFontFaceEl [(aStyleName, [71])] .nil) .nil := by
  simp [fontDrop, lookupA, aStyleName, aTextStyleName]

/-! ### opaque manifest members

  `extras_carried` (every manifest entry `load` does not interpret is carried by load+save with path, media type and
  bytes) was proved here against the dispatch model of lean/OdfModel/Pkg.lean as it was before fix 0372084.  That model
  has been rewritten (recursive load, save by folder); the statement now belongs to the general theorem of the package
  layer (Props/C16.lean / Props/C03.lean: non-interpreted entries at ANY depth).  The old proof is parked in
  Props/C05Extras.lean (not built by `./check C05`) until it is re-pointed.  The oracle of harness/c05.py checks the
  statement on every package (listed files below object folders included). -/

end OdfModel.Props.C05

/-
C09, follow-up: the queries are OBSERVATIONS.

`doc.getElementsByType(f)` hands out what the index holds; on a document whose index is not empty (every built or
loaded document: the sections below the top node are indexed when they are attached) the call changes nothing —
neither the tree, nor ownerDocument, nor the element index, nor the style dictionaries.  So any sequence of queries
(the tail of `load()` asks for office:body to set `doc.text` / `doc.spreadsheet` / …; the harness asks for EVERY type
that occurs in the tree) leaves the state as it was, and a later query for any type still gets the list the index
held before: a caller that takes its answer apart (pops the body out of the list it was handed) is outside what the
query does.  The harness drives these queries for the skeleton types (office:body, office:text, office:document, …)
in lock-step (`SKEL_QUERY` in harness/c09.py) and sweeps every type on built, saved and loaded documents and their
embedded objects.
-/
import OdfModel.Props.C09
namespace OdfModel.Props.C09Queries
open OdfModel.Dom OdfModel.DomDoc OdfModel.Props.C07 OdfModel.Props.C08 OdfModel.Props.C09

/-- **C09 (a query is read-only)**: on a non-empty index `doc.getElementsByType(f)` returns the list kept for the
    qname and leaves the whole state — tree, ownerDocument, element index, style dictionaries — unchanged. -/
theorem docByType_readonly (q : Nat) (s : DState) (hne : s.edict.isEmpty = false) :
    (docByType q).run s = (s, .ok (edGet s.edict q)) := by
  unfold docByType
  simp only [DomDoc.run_bind_rd, hne, Bool.false_eq_true, if_false, DomDoc.run_rd]

/-- **C09 (any battery of queries is read-only)**: asking for a whole list of types one after the other (every type
    that occurs in the document) leaves the state unchanged. -/
def askAll : List Nat → DM Unit
  | [] => pure ()
  | q :: r => do let _ ← docByType q; askAll r

theorem askAll_readonly (qs : List Nat) (s : DState) (hne : s.edict.isEmpty = false) :
    (askAll qs).run s = (s, .ok ()) := by
  induction qs with
  | nil => rfl
  | cons q r ih =>
    unfold askAll
    rw [DomDoc.run_bind, docByType_readonly q s hne]
    exact ih

/-- **C09 (the tail of load())**: a query for one type (office:body, to find the child that becomes `doc.text`, …),
    then a query for ANY type: the second answer is the list the index held at the start — in particular the body is
    still listed after load() looked it up — and the state is the state at the start. -/
theorem docByType_after_query (q q' : Nat) (s : DState) (hne : s.edict.isEmpty = false) :
    (do let _ ← docByType q; docByType q').run s = (s, .ok (edGet s.edict q')) := by
  rw [DomDoc.run_bind, docByType_readonly q s hne]
  exact docByType_readonly q' s hne

/-- **C09 (every type, after any battery of queries)**: in a coherent state with a non-empty index, after asking for
    any list of types, the answer for a type `q` has no repetition and consists exactly of the attached elements of
    that qname (the top node aside) — for every `q`, the skeleton types included. -/
theorem docByType_exact_after_queries (qs : List Nat) (q : Nat) {s s' : DState} {l : List Id} (hG : Good s)
    (hne : s.edict.isEmpty = false)
    (hrun : (do askAll qs; docByType q).run s = (s', .ok l)) :
    s' = s ∧ l.Nodup ∧ ∀ x, x ≠ s.top → (x ∈ l ↔ Att s x ∧ (s.heap x).kind = .elem ∧ (s.heap x).qn = q) := by
  rw [DomDoc.run_bind, askAll_readonly qs s hne] at hrun
  simp only at hrun
  have hs : s' = s := by
    rw [docByType_readonly q s hne] at hrun
    exact (Prod.mk.inj hrun).1.symm
  subst hs
  exact ⟨rfl, docByType_exact hG hrun⟩

end OdfModel.Props.C09Queries

/-
  Property C06 — with checks on, the API accepts exactly what the ODF 1.2 schema permits.

  Specification side   OdfModel.Grammar        what a RELAX-NG pattern permits / requires (hand-written)
                       Generated.GrammarSchema  the two shipped .rng files as `P` terms (translated syntactically on every run)
  Implementation side  OdfModel.GrammarApi      the decisions of Element.addElement / addText / addCDATA / setAttribute / __init__
                       Generated.GrammarTables  odf/grammar.py, imported and dumped on every run
                       Generated.GrammarFactories  qname of every element factory
  Allowed differences  OdfModel.GrammarExceptions  `Exceptions` (documented in the repository) and `KnownFindings`
                                                (real findings = the lines of known-findings/C06.txt)

  The theorems below quantify over every element id of the tables (`e < nElems`: every element name
  known to the schemas, to odf/grammar.py or produced by a factory) and over *all* children /
  attributes / keywords.  They are obtained from 16 kernel evaluations (`slice_00 … slice_15`, one
  module each so that lake checks them in parallel) of the row check `rowOk` over the whole
  regenerated tables, lifted by the lemmas of Props/C06/Defs.lean.

  Ties to /repo: the tables are regenerated from the working tree before every build (translator);
  the decision logic of the model is compared with the real API on every (parent, child),
  (element, keyword), element × {text, CDATA}, constructor and factory by harness/c06.py.

  The schema-side functions follow references with fuel; `fuel_sufficient` (Props/C06/Schema.lean)
  shows the fuel never runs out, `kw_ids_faithful` (Props/C06/Kw.lean) that keyword identity in the
  model is keyword-string identity in Python.
-/
import OdfModel.Props.C06.Defs
import OdfModel.Props.C06.Schema
import OdfModel.Props.C06.Kw
import OdfModel.Props.C06.Fuel
import OdfModel.Props.C06.S00
import OdfModel.Props.C06.S01
import OdfModel.Props.C06.S02
import OdfModel.Props.C06.S03
import OdfModel.Props.C06.S04
import OdfModel.Props.C06.S05
import OdfModel.Props.C06.S06
import OdfModel.Props.C06.S07
import OdfModel.Props.C06.S08
import OdfModel.Props.C06.S09
import OdfModel.Props.C06.S10
import OdfModel.Props.C06.S11
import OdfModel.Props.C06.S12
import OdfModel.Props.C06.S13
import OdfModel.Props.C06.S14
import OdfModel.Props.C06.S15
namespace OdfModel.Props.C06
open OdfModel OdfModel.Grammar OdfModel.GrammarApi OdfModel.GrammarData OdfModel.GrammarExceptions
open OdfModel.Generated

theorem all_slices : ∀ k, k < NSLICES → sliceOk k = true := by
  intro k hk
  have h : k = 0 ∨ k = 1 ∨ k = 2 ∨ k = 3 ∨ k = 4 ∨ k = 5 ∨ k = 6 ∨ k = 7 ∨ k = 8 ∨ k = 9 ∨ k = 10 ∨
      k = 11 ∨ k = 12 ∨ k = 13 ∨ k = 14 ∨ k = 15 := by simp only [NSLICES] at hk; omega
  rcases h with h | h | h | h | h | h | h | h | h | h | h | h | h | h | h | h <;> subst h
  · exact slice_00
  · exact slice_01
  · exact slice_02
  · exact slice_03
  · exact slice_04
  · exact slice_05
  · exact slice_06
  · exact slice_07
  · exact slice_08
  · exact slice_09
  · exact slice_10
  · exact slice_11
  · exact slice_12
  · exact slice_13
  · exact slice_14
  · exact slice_15

/-- every row of the tables passes the row check -/
theorem all_rows (e : Nat) (he : e < GrammarTables.nElems) : rowOk e = true := by
  have hw : 0 < W := by decide
  have hcov : GrammarTables.nElems ≤ NSLICES * W := by decide
  have := slices_cover (fun e => decide (GrammarTables.nElems ≤ e) || rowOk e) NSLICES W hw
    (fun k hk => all_slices k hk) e (Nat.lt_of_lt_of_le he hcov)
  simp only [Bool.or_eq_true, decide_eq_true_eq] at this
  rcases this with h | h
  · omega
  · exact h

theorem rowOk_parts {e : Nat} (h : rowOk e = true) :
    childrenRowOk e = true ∧ textRowOk e = true ∧ attrsRowOk e = true ∧ requiredRowOk e = true ∧ factoryRowOk e = true := by
  simp only [rowOk, Bool.and_eq_true] at h
  exact ⟨h.1.1.1.1, h.1.1.1.2, h.1.1.2, h.1.2, h.2⟩

/-- **C06 (the schema side is fuel-independent)**: on the content of every element declaration of
    the shipped schemas, the four semantic functions give the same answer at `FUEL` and at every
    larger fuel. -/
theorem schema_semantics_fuel_independent (d : Decl) (hd : d ∈ schema.elems.all) (k : Nat) :
    mayElems schema (FUEL + k) d.content = mayElems schema FUEL d.content
    ∧ mayText schema (FUEL + k) d.content = mayText schema FUEL d.content
    ∧ mayAttrs schema (FUEL + k) d.content = mayAttrs schema FUEL d.content
    ∧ mustAttrs schema (FUEL + k) d.content = mustAttrs schema FUEL d.content := by
  have h := fuel_sufficient
  rw [List.all_eq_true] at h
  have hf := h d hd
  simp only [Bool.and_eq_true] at hf
  exact ⟨mayElems_fuel _ _ _ hf.2 k, mayText_fuel _ _ _ hf.2 k, mayAttrs_fuel _ _ _ hf.2 k, mustAttrs_fuel _ _ _ hf.2 k⟩

/-! ### The property at full strength

`C06_full` is the statement of the property with the documented `Exceptions` only.  It does **not**
hold on the current tree: the rows of `KnownFindings` (1 after the manifest repair) (= known-findings/C06.txt, each reproduced
on the real code by harness/c06.py on every run) are counter-examples.  The theorems proved below
are the same statements with the additional disjunct `∨ inKnownFindings …`, i.e. C06 for every row
outside that explicit, decidable list; any *other* differing row makes them fail to check. -/

def C06_full : Prop :=
  (∀ p, p < GrammarTables.nElems → ∀ c,
      allowsChild T p c = schema.permitsChild p c ∨ inExceptions .children (elemName p) (elemName c) = true)
  ∧ (∀ e, e < GrammarTables.nElems →
      allowsText' T e = schema.mayText e ∨ inExceptions .text (elemName e) NOITEM = true)
  ∧ (∀ e, e < GrammarTables.nElems → ∀ kw b, setAttribute T true e kw = .ok b →
      schema.permitsAttr e b = true ∨ inExceptions .attrs (elemName e) (attrName b) = true)
  ∧ (∀ e, e < GrammarTables.nElems → ∀ a, (schema.mayAttrs e).contains a = true →
      (a ≠ ANY ∧ (setAttribute T true e (kwOf T a)).isOk = true) ∨ inExceptions .attrs (elemName e) (attrName a) = true)
  ∧ (∀ e, e < GrammarTables.nElems → ∀ a,
      requiresAttr T e a = schema.requires e a ∨ inExceptions .required (elemName e) (attrName a) = true)
  ∧ (∀ e, e < GrammarTables.nElems → schema.isElem e = true →
      GrammarFactories.factoryQnames.contains e = true ∨ inExceptions .factory (elemName e) NOITEM = true)

/-- **C06 (children)**: for every parent element of the tables and every child whatsoever,
    `addElement` with checks on accepts the child iff the shipped schema permits it there, or the
    pair is a documented exception, or it is a listed finding. -/
theorem children_match (p : Nat) (hp : p < GrammarTables.nElems) (c : Nat) :
    allowsChild T p c = schema.permitsChild p c
    ∨ inExceptions .children (elemName p) (elemName c) = true
    ∨ inKnownFindings .children (elemName p) (elemName c) = true := by
  rcases children_lift p (rowOk_parts (all_rows p hp)).1 c with h | h
  · exact Or.inl h
  · exact Or.inr (excused_split h)

/-- **C06 (text)**: `addText` / `addCDATA` with checks on succeed iff the schema permits character
    data in the element (or exception / listed finding). -/
theorem text_match (e : Nat) (he : e < GrammarTables.nElems) :
    (allowsText' T e = schema.mayText e ∧ (addCDATA T true e).isOk = schema.mayText e)
    ∨ inExceptions .text (elemName e) NOITEM = true
    ∨ inKnownFindings .text (elemName e) NOITEM = true := by
  rcases text_lift e (rowOk_parts (all_rows e he)).2.1 with h | h
  · exact Or.inl ⟨h, h⟩
  · exact Or.inr (excused_split h)

/-- **C06 (attributes, accepted ⇒ permitted)**: whenever `setAttribute` with checks on accepts a
    keyword on an element of the tables, the attribute it stores is one the schema permits on that
    element (or exception / listed finding). -/
theorem attrs_match_sound (e : Nat) (he : e < GrammarTables.nElems) (kw b : Nat)
    (h : setAttribute T true e kw = .ok b) :
    schema.permitsAttr e b = true
    ∨ inExceptions .attrs (elemName e) (attrName b) = true
    ∨ inKnownFindings .attrs (elemName e) (attrName b) = true := by
  rcases attrs_sound_lift e (rowOk_parts (all_rows e he)).2.2.1 kw b h with h | h
  · exact Or.inl h
  · exact Or.inr (excused_split h)

/-- **C06 (attributes, permitted ⇒ accepted)**: the keyword of every attribute the schema permits
    on an element of the tables is accepted by `setAttribute` with checks on (or exception / listed
    finding; `<anyName/>` attributes can only be excepted). -/
theorem attrs_match_complete (e : Nat) (he : e < GrammarTables.nElems) (a : Nat)
    (h : (schema.mayAttrs e).contains a = true) :
    (a ≠ ANY ∧ (setAttribute T true e (kwOf T a)).isOk = true)
    ∨ inExceptions .attrs (elemName e) (attrName a) = true
    ∨ inKnownFindings .attrs (elemName e) (attrName a) = true := by
  rcases attrs_complete_lift e (rowOk_parts (all_rows e he)).2.2.1 a h with h | h
  · exact Or.inl h
  · exact Or.inr (excused_split h)

/-- a keyword is refused with AttributeError, and only the keyword of a listed attribute is accepted -/
theorem setAttribute_resolves (e kw b : Nat) (h : setAttribute T true e kw = .ok b) :
    kwOf T b = kw ∧ ∃ l, allowedAttrsOf T e = some l ∧ b ∈ l := by
  simp only [setAttribute] at h
  cases hl : allowedAttrsOf T e with
  | none => simp [hl] at h
  | some l =>
    simp only [hl] at h
    cases hf : firstWithKw T kw l with
    | none => simp [hf] at h
    | some b' =>
      simp only [hf, Except.ok.injEq] at h
      subst h
      exact ⟨(firstWithKw_some kw l b' hf).2, l, rfl, (firstWithKw_some kw l b' hf).1⟩

/-- **C06 (required attributes, table = schema)**: the constructor's table lists attribute `a` for
    element `e` iff every declaration of `e` in the schema requires `a` (or exception / listed finding). -/
theorem required_match (e : Nat) (he : e < GrammarTables.nElems) (a : Nat) :
    requiresAttr T e a = schema.requires e a
    ∨ inExceptions .required (elemName e) (attrName a) = true
    ∨ inKnownFindings .required (elemName e) (attrName a) = true := by
  rcases required_lift e (rowOk_parts (all_rows e he)).2.2.2.1 a with h | h
  · exact Or.inl h
  · exact Or.inr (excused_split h)

theorem firstMissing_none (given req : List Nat) :
    firstMissing given req = none ↔ ∀ r ∈ req, given.contains r = true := by
  induction req with
  | nil => simp [firstMissing]
  | cons r rest ih =>
    simp only [firstMissing]
    cases hc : given.contains r with
    | true => simp only [if_true, ih, List.mem_cons, forall_eq_or_imp, hc, true_and]
    | false =>
      simp only [Bool.false_eq_true, if_false]
      constructor
      · intro h; cases h
      · intro h
        have := h r List.mem_cons_self
        rw [hc] at this
        exact absurd this (by decide)

theorem firstMissing_some (given req : List Nat) (r : Nat) (h : firstMissing given req = some r) :
    r ∈ req ∧ given.contains r = false := by
  induction req with
  | nil => simp [firstMissing] at h
  | cons x rest ih =>
    simp only [firstMissing] at h
    cases hc : given.contains x with
    | true =>
      simp only [hc, if_true] at h
      exact ⟨List.mem_cons_of_mem _ (ih h).1, (ih h).2⟩
    | false =>
      simp only [hc, Bool.false_eq_true, if_false, Option.some.injEq] at h
      subst h
      exact ⟨List.mem_cons_self, hc⟩

/-- **C06 (constructor)**: with checks on, construction fails exactly when a table-required
    attribute is missing, the failure is an AttributeError naming a missing required attribute. -/
theorem construct_fails_iff (e : Nat) (given : List Nat) :
    ((construct T true e given).isOk = false ↔ ∃ a, requiresAttr T e a = true ∧ given.contains a = false)
    ∧ ∀ err a, construct T true e given = .error (err, a) →
        err = .AttributeError ∧ requiresAttr T e a = true ∧ given.contains a = false := by
  simp only [construct, if_true, requiresAttr]
  cases hf : firstMissing given (requiredOf T e) with
  | none =>
    have hall := (firstMissing_none given (requiredOf T e)).mp hf
    refine ⟨?_, ?_⟩
    · constructor
      · intro h; simp [Except.isOk, Except.toBool] at h
      · intro ⟨a, ha, hg⟩
        have := hall a (List.contains_iff_mem.mp ha)
        rw [hg] at this
        exact absurd this (by decide)
    · intro err a h; cases h
  | some r =>
    have hr := firstMissing_some given (requiredOf T e) r hf
    refine ⟨?_, ?_⟩
    · constructor
      · intro _; exact ⟨r, List.contains_iff_mem.mpr hr.1, hr.2⟩
      · intro _; rfl
    · intro err a h
      simp only [Except.error.injEq, Prod.mk.injEq] at h
      obtain ⟨h1, h2⟩ := h
      subst h1; subst h2
      exact ⟨rfl, List.contains_iff_mem.mpr hr.1, hr.2⟩

/-- **C06 (constructor keywords)**: a keyword argument of the constructor is decided exactly like
    `setAttribute` with checks on — whatever `check_grammar` the constructor got, and in particular
    every keyword is refused on an element without an allowed_attributes row. -/
theorem constructKw_keyword (Tb : Tables) (chk : Bool) (e kw : Nat) (given rest : List Nat) :
    ((setAttribute Tb true e kw).isOk = false →
        constructKw Tb chk e given (kw :: rest) = .error (.refusedKeyword kw))
    ∧ (allowedAttrsOf Tb e = none → constructKw Tb chk e given (kw :: rest) = .error (.refusedKeyword kw))
    ∧ (∀ a, setAttribute Tb true e kw = .ok a →
        constructKw Tb chk e given (kw :: rest) = constructKw Tb chk e (given ++ [a]) rest) := by
  refine ⟨?_, ?_, ?_⟩
  · intro h
    cases hs : setAttribute Tb true e kw with
    | ok a => simp [hs, Except.isOk, Except.toBool] at h
    | error err => simp [constructKw, loadKeywords, hs]
  · intro h
    simp [constructKw, loadKeywords, setAttribute, h]
  · intro a h
    simp [constructKw, loadKeywords, h]

/-- **C06 (factories)**: every element the schemas declare is produced by an element factory
    (called as `f(check_grammar=False)`), or is a documented exception / listed finding. -/
theorem factories_cover (e : Nat) (he : e < GrammarTables.nElems) (hs : schema.isElem e = true) :
    GrammarFactories.factoryQnames.contains e = true
    ∨ inExceptions .factory (elemName e) NOITEM = true
    ∨ inKnownFindings .factory (elemName e) NOITEM = true := by
  have h := (rowOk_parts (all_rows e he)).2.2.2.2
  simp only [factoryRowOk, hs, Bool.not_true, Bool.false_or, Bool.or_eq_true] at h
  rcases h with h | h
  · exact Or.inl h
  · exact Or.inr (excused_split h)

/-- **C06 (islands)**: an element without an allowed_children row — in particular every element of
    a foreign namespace, which is what the schema's `<anyName/>` islands contain — accepts any child,
    as `islands_permit_anything` says the schema does. -/
theorem rowless_parent_accepts (Tb : Tables) (chk : Bool) (p c : Nat) (h : allowedChildrenOf Tb p = none) :
    addElement Tb chk p c = .ok () := by
  unfold addElement
  rw [h]
  cases chk <;> rfl

theorem any_of_all {α : Type} (l : List α) (f : α → Bool) (hne : l.isEmpty = false) (hall : l.all f = true) :
    l.any f = true := by
  cases l with
  | nil => simp at hne
  | cons a rest => simp only [List.all_cons, Bool.and_eq_true] at hall; simp [hall.1]

/-- **C06 (text in the islands)**: an element that no schema declaration names and that the tables
    do not know (no allowed_children row) — MathML content, XForms instance data, foreign elements —
    accepts text with checks on, and the schema's `<anyName/>` islands permit text there: the two
    agree, without exception. -/
theorem text_match_islands (e : Nat) (hs : schema.isElem e = false) (hr : lookup T.allowedChildren e = none) :
    allowsText' T e = schema.mayText e ∧ (addCDATA T true e).isOk = schema.mayText e := by
  have hisl := islands_permit_anything
  have hempty : (schema.namedPatterns e).isEmpty = true := by simpa [Schema.isElem] using hs
  have hmay : schema.mayText e = true := by
    simp only [Schema.mayText, Schema.patterns, hempty, if_true]
    apply any_of_all _ _ hisl.1
    have h2 := hisl.2
    rw [List.all_eq_true] at h2 ⊢
    intro p hp
    have := h2 p hp
    simp only [Bool.and_eq_true] at this
    exact this.2
  have hapi : allowsText' T e = true := by
    rw [allowsText_eq]; simp [allowsTextOf, hr]
  exact ⟨by rw [hapi, hmay], by show allowsText' T e = schema.mayText e; rw [hapi, hmay]⟩

/-- **C06 (checks off)**: with `check_grammar=False`, `addElement`, `addText`, `addCDATA` and the
    constructor never refuse — for any tables. -/
theorem unchecked_passes (Tb : Tables) (p c e : Nat) (given : List Nat) :
    addElement Tb false p c = .ok () ∧ addText Tb false e = .ok () ∧ addCDATA Tb false e = .ok ()
    ∧ construct Tb false e given = .ok () := by
  refine ⟨?_, ?_, ?_, ?_⟩
  · simp [addElement]
  · simp [addText]
  · simp [addCDATA, addText]
  · simp [construct]

/-- **C06 (refusals)**: the only refusals are IllegalChild (addElement), IllegalText (addText,
    addCDATA) and AttributeError (setAttribute with checks on) — for any tables. -/
theorem refusal_kinds (Tb : Tables) (chk : Bool) (p c e kw : Nat) :
    (∀ err, addElement Tb chk p c = .error err → err = .IllegalChild)
    ∧ (∀ err, addText Tb chk e = .error err → err = .IllegalText)
    ∧ (∀ err, addCDATA Tb chk e = .error err → err = .IllegalText)
    ∧ (∀ err, setAttribute Tb true e kw = .error err → err = .AttributeError) := by
  refine ⟨?_, ?_, ?_, ?_⟩
  · intro err h
    unfold addElement at h
    split at h
    · split at h <;> simp_all
    · simp at h
  · intro err h
    unfold addText at h
    split at h <;> simp_all
  · intro err h
    unfold addCDATA addText at h
    split at h <;> simp_all
  · intro err h
    unfold setAttribute at h
    split at h
    · simp_all
    · split at h <;> simp_all

/-- the hypotheses are satisfiable and the decisions are not vacuous: `text:p` is a row of the
    tables, accepts text and `text:span`, refuses itself as a child, and the schema agrees -/
example :
    let p := GrammarNames.elemName.idxOf (GrammarNamesCodec.encode "text:p")
    let s := GrammarNames.elemName.idxOf (GrammarNamesCodec.encode "text:span")
    (p < GrammarTables.nElems ∧ s < GrammarTables.nElems ∧ schema.isElem p = true
      ∧ allowsText' T p = true ∧ schema.mayText p = true
      ∧ allowsChild T p s = true ∧ schema.permitsChild p s = true
      ∧ allowsChild T p p = false ∧ schema.permitsChild p p = false) := by
  decide +kernel

end OdfModel.Props.C06

/-
  Property C19 — updating user fields changes those fields and nothing else.
  Theorems about `OdfModel.UserField` (model of odf/userfield.py) and the regenerated tables
  `Generated.ValueTypes`; tied to the code by harness/c19.py (same documents and update dictionaries through
  `UserFields.update` / `list_fields_and_values` and through `drv_userfield`).

  The package-level part of the frame condition ("styles, pictures and other package members are preserved as by
  an ordinary load and save") is in the model the statement that every non-declaration item is carried over
  unchanged and in place (`updateDoc_frame`); that `load`+`save` itself preserves them is property C05's business
  and is checked here on the real code by the oracle (update(out) against a plain load+save, member by member).
-/
import OdfModel.UserField
namespace OdfModel.Props.C19
open OdfModel OdfModel.UserField

/-- two lists related element by element (core has no `All2`) -/
inductive All2 {α β : Type} (R : α → β → Prop) : List α → List β → Prop where
  | nil : All2 R [] []
  | cons {a b as bs} : R a b → All2 R as bs → All2 R (a :: as) (b :: bs)

theorem All2.length_eq {α β : Type} {R : α → β → Prop} {l : List α} {l' : List β} (h : All2 R l l') :
    l.length = l'.length := by
  induction h with
  | nil => rfl
  | cons _ _ ih => simp [ih]

/-! ### facts about the regenerated tables -/

/-- the value attribute of each value type according to ODF 1.2 part 1 §19.385/19.387-389, in the normal form
    of the generated table (types whose attribute is the default `office:value` are not listed; sorted by type
    name): boolean → office:boolean-value (5), date → office:date-value (3), string → office:string-value (6),
    time → office:time-value (4); float, percentage, currency and anything else → office:value (2).
    Hand-written from the specification. -/
def specTable : List (Str × AttrKey) :=
  [([98, 111, 111, 108, 101, 97, 110], 5), ([100, 97, 116, 101], 3), ([115, 116, 114, 105, 110, 103], 6), ([116, 105, 109, 101], 4)]
def specDefault : AttrKey := 2

def specAttrFor (vt : Option Str) : AttrKey := attrIn specTable specDefault specDefault vt

/-- **C19 (appropriate attribute)**: the table `update` was measured to use IS the specification's table -/
theorem upd_table_is_spec :
    Generated.ValueTypes.updTable = specTable ∧ Generated.ValueTypes.updDefault = specDefault ∧
    Generated.ValueTypes.updNone = specDefault := by decide

/-- … and so is the one `list_fields_and_values` reads through -/
theorem list_table_is_spec :
    Generated.ValueTypes.listTable = specTable ∧ Generated.ValueTypes.listDefault = specDefault ∧
    Generated.ValueTypes.listNone = specDefault := by decide

theorem updAttrFor_spec (vt : Option Str) : updAttrFor vt = specAttrFor vt := by
  unfold updAttrFor specAttrFor
  rw [upd_table_is_spec.1, upd_table_is_spec.2.1, upd_table_is_spec.2.2]

theorem listAttrFor_spec (vt : Option Str) : listAttrFor vt = specAttrFor vt := by
  unfold listAttrFor specAttrFor
  rw [list_table_is_spec.1, list_table_is_spec.2.1, list_table_is_spec.2.2]

/-- update writes where listing reads, for EVERY value type string (known, unknown, missing) -/
theorem attr_agree (vt : Option Str) : updAttrFor vt = listAttrFor vt := by
  rw [updAttrFor_spec, listAttrFor_spec]

theorem attrIn_cases (t : List (Str × AttrKey)) (d n : AttrKey) (vt : Option Str) :
    attrIn t d n vt = d ∨ attrIn t d n vt = n ∨ ∃ r ∈ t, attrIn t d n vt = r.2 := by
  unfold attrIn
  cases vt with
  | none => exact Or.inr (Or.inl rfl)
  | some s =>
    simp only
    cases h : t.find? (fun r => r.1 == s) with
    | none => exact Or.inl rfl
    | some r => exact Or.inr (Or.inr ⟨r, List.mem_of_find?_eq_some h, rfl⟩)

/-- the attribute update writes is one of the five value attributes: never text:name, never office:value-type,
    never any other attribute of the declaration -/
theorem specAttr_range (vt : Option Str) : 2 ≤ specAttrFor vt ∧ specAttrFor vt ≤ 6 := by
  rcases attrIn_cases specTable specDefault specDefault vt with h | h | ⟨r, hr, h⟩
  · unfold specAttrFor; rw [h]; decide
  · unfold specAttrFor; rw [h]; decide
  · unfold specAttrFor; rw [h]
    have : ∀ r ∈ specTable, 2 ≤ r.2 ∧ r.2 ≤ 6 := by decide
    exact this r hr

theorem updAttr_ne_name (vt : Option Str) : updAttrFor vt ≠ nameKey := by
  have := specAttr_range vt
  rw [updAttrFor_spec]; intro h; rw [h] at this; exact absurd this.1 (by decide)

theorem updAttr_ne_type (vt : Option Str) : updAttrFor vt ≠ typeKey := by
  have := specAttr_range vt
  rw [updAttrFor_spec]; intro h; rw [h] at this; exact absurd this.1 (by decide)

/-- every value attribute but office:boolean-value goes through an identity converter -/
theorem conv_identity_unless_boolean (k : AttrKey) (h1 : 2 ≤ k ∧ k ≤ 6) (h : k ≠ 5) : convClass k = 0 := by
  have : ∀ k : Fin 7, 2 ≤ k.val → k.val ≠ 5 → convClass k.val = 0 := by decide
  exact this ⟨k, Nat.lt_succ_of_le h1.2⟩ h1.1 h

theorem conv_boolean : convClass 5 = 1 := by decide

/-! ### association lists -/

theorem lookup_setAttr_same (k : AttrKey) (v : Str) (l : List (AttrKey × Str)) :
    lookup k (setAttr k v l) = some v := by
  induction l with
  | nil => simp [setAttr, lookup]
  | cons a r ih =>
    obtain ⟨k', v'⟩ := a
    by_cases h : k' = k
    · simp [setAttr, lookup, h]
    · simp [setAttr, lookup, h, ih]

theorem lookup_setAttr_other (k k' : AttrKey) (v : Str) (l : List (AttrKey × Str)) (h : k' ≠ k) :
    lookup k' (setAttr k v l) = lookup k' l := by
  induction l with
  | nil => simp [setAttr, lookup, Ne.symm h]
  | cons a r ih =>
    obtain ⟨k0, v0⟩ := a
    by_cases h0 : k0 = k
    · subst h0; simp [setAttr, lookup, Ne.symm h]
    · by_cases h1 : k0 = k'
      · subst h1; simp [setAttr, lookup, h0]
      · simp [setAttr, lookup, h0, h1, ih]

theorem setAttr_idem (k : AttrKey) (v : Str) (l : List (AttrKey × Str)) :
    setAttr k v (setAttr k v l) = setAttr k v l := by
  induction l with
  | nil => simp [setAttr]
  | cons a r ih =>
    obtain ⟨k0, v0⟩ := a
    by_cases h0 : k0 = k
    · simp [setAttr, h0]
    · simp [setAttr, h0, ih]

/-- attribute order and count: an existing attribute is overwritten in place, a new one is appended -/
theorem setAttr_keys (k : AttrKey) (v : Str) (l : List (AttrKey × Str)) :
    (setAttr k v l).map Prod.fst = l.map Prod.fst ∨ (setAttr k v l).map Prod.fst = l.map Prod.fst ++ [k] := by
  induction l with
  | nil => right; simp [setAttr]
  | cons a r ih =>
    obtain ⟨k0, v0⟩ := a
    by_cases h0 : k0 = k
    · left; simp [setAttr, h0]
    · rcases ih with ih | ih
      · left; simp [setAttr, h0, ih]
      · right; simp [setAttr, h0, ih]

/-! ### one declaration -/

/-- the raw new value the dictionary holds for this declaration, if any -/
def named (data : Data) (f : Field) : Option Str :=
  match f.name with
  | none => none
  | some n => lookup n data

theorem updField_unnamed (data : Data) (f : Field) (h : named data f = none) : updField data f = .ok f := by
  unfold named at h
  unfold updField
  cases hn : f.name with
  | none => rfl
  | some n => rw [hn] at h; simp only at h ⊢; rw [h]

theorem updField_named (data : Data) (f f' : Field) (v : Str) (h : named data f = some v)
    (hu : updField data f = .ok f') :
    ∃ v', convert (updAttrFor f.vtype) v = .ok v' ∧ f' = ⟨setAttr (updAttrFor f.vtype) v' f.attrs⟩ := by
  unfold named at h
  unfold updField at hu
  cases hn : f.name with
  | none => rw [hn] at h; cases h
  | some n =>
    rw [hn] at h hu; simp only at h hu
    rw [h] at hu; simp only at hu
    cases hc : convert (updAttrFor f.vtype) v with
    | error e => rw [hc] at hu; cases hu
    | ok v' => rw [hc] at hu; simp only at hu; exact ⟨v', rfl, (Except.ok.inj hu).symm⟩

/-- **C19 (frame, one declaration)**: after a successful update of a declaration, every attribute other than the
    value attribute of its type is what it was — in particular its name, its value type, and the value attributes of
    OTHER types it may carry (a stale office:value next to office:date-value, office:currency, text:formula, foreign
    attributes); attribute order is kept (a new value attribute is appended); an unnamed declaration is untouched. -/
theorem updField_frame (data : Data) (f f' : Field) (hu : updField data f = .ok f') :
    (∀ k, k ≠ updAttrFor f.vtype → lookup k f'.attrs = lookup k f.attrs) ∧
    (named data f = none → f' = f) ∧
    (f'.attrs.map Prod.fst = f.attrs.map Prod.fst ∨
      f'.attrs.map Prod.fst = f.attrs.map Prod.fst ++ [updAttrFor f.vtype]) := by
  cases hn : named data f with
  | none =>
    have := updField_unnamed data f hn
    rw [this] at hu; cases hu
    exact ⟨fun _ _ => rfl, fun _ => rfl, Or.inl rfl⟩
  | some v =>
    obtain ⟨v', _, hf⟩ := updField_named data f f' v hn hu
    subst hf
    refine ⟨?_, ?_, ?_⟩
    · intro k hk; exact lookup_setAttr_other _ k v' f.attrs hk
    · intro h; cases h
    · exact setAttr_keys _ _ _

theorem updField_name_type (data : Data) (f f' : Field) (hu : updField data f = .ok f') :
    f'.name = f.name ∧ f'.vtype = f.vtype := by
  have h := (updField_frame data f f' hu).1
  exact ⟨h nameKey (Ne.symm (updAttr_ne_name _)), h typeKey (Ne.symm (updAttr_ne_type _))⟩

/-- what `list_fields_and_values` must return for a declaration after `update data` -/
def expectedView (data : Data) (f : Field) : Option Str × Option Str × Option Str :=
  match named data f with
  | none => view f
  | some v => (f.name, f.vtype, (convert (updAttrFor f.vtype) v).toOption)

theorem updField_view (data : Data) (f f' : Field) (hu : updField data f = .ok f') :
    view f' = expectedView data f := by
  unfold expectedView
  cases hn : named data f with
  | none =>
    have := updField_unnamed data f hn
    rw [this] at hu; cases hu; rfl
  | some v =>
    obtain ⟨hnm, hty⟩ := updField_name_type data f f' hu
    obtain ⟨v', hc, hf⟩ := updField_named data f f' v hn hu
    simp only [view, hnm, hty, hc, Except.toOption]
    subst hf
    rw [← attr_agree, lookup_setAttr_same]

/-! ### the whole list of declarations -/

theorem update_forall2 (data : Data) (fs fs' : List Field) (h : update data fs = .ok fs') :
    All2 (fun f f' => updField data f = .ok f') fs fs' := by
  induction fs generalizing fs' with
  | nil => simp [update] at h; subst h; exact All2.nil
  | cons f r ih =>
    simp only [update] at h
    cases hf : updField data f with
    | error e => rw [hf] at h; cases h
    | ok f' =>
      rw [hf] at h; simp only at h
      cases hr : update data r with
      | error e => rw [hr] at h; cases h
      | ok r' =>
        rw [hr] at h; simp only at h
        cases h
        exact All2.cons hf (ih r' hr)

/-- **C19 (`update_sets`)**: listing the fields of the output returns, in the same order and number, for every
    declaration whose name is a key of the dictionary its name, its (unchanged) type and the new value as stored by
    the converter of its type's value attribute — and for every other declaration exactly what listing the source
    returns. -/
theorem update_sets (data : Data) (fs fs' : List Field) (h : update data fs = .ok fs') :
    listFields fs' = fs.map (expectedView data) := by
  have := update_forall2 data fs fs' h
  clear h
  unfold listFields
  induction this with
  | nil => rfl
  | cons hf _ ih => simp only [List.map_cons]; rw [updField_view data _ _ hf, ih]

theorem convert_identity (k : AttrKey) (v : Str) (h : convClass k = 0) : convert k v = .ok v := by
  simp [convert, h]

theorem cnvBoolean_true : cnvBoolean [116, 114, 117, 101] = .ok [116, 114, 117, 101] := rfl
theorem cnvBoolean_false : cnvBoolean [102, 97, 108, 115, 101] = .ok [102, 97, 108, 115, 101] := rfl

/-- **C19 (`update_sets`, verbatim form)**: for string, float, percentage, currency, date, time and unknown-type
    declarations the listed value is the dictionary's value code point for code point (markup characters,
    whitespace, non-ASCII included); for boolean declarations so are the canonical literals `true` / `false`. -/
theorem expectedView_verbatim (data : Data) (f : Field) (v : Str) (hn : named data f = some v)
    (hv : updAttrFor f.vtype ≠ 5 ∨ v = [116, 114, 117, 101] ∨ v = [102, 97, 108, 115, 101]) :
    expectedView data f = (f.name, f.vtype, some v) := by
  unfold expectedView
  rw [hn]; simp only
  have hr := specAttr_range f.vtype
  rw [← updAttrFor_spec] at hr
  by_cases h5 : updAttrFor f.vtype = 5
  · rcases hv with hv | hv | hv
    · exact absurd h5 hv
    · subst hv; rw [h5]; simp [convert, conv_boolean, cnvBoolean_true, Except.toOption]
    · subst hv; rw [h5]; simp [convert, conv_boolean, cnvBoolean_false, Except.toOption]
  · rw [convert_identity _ _ (conv_identity_unless_boolean _ hr h5)]; rfl

/-- **C19 (`update_frame`)**: field count and order are unchanged, and declaration by declaration everything but
    the one value attribute is unchanged (see `updField_frame`). -/
theorem update_frame (data : Data) (fs fs' : List Field) (h : update data fs = .ok fs') :
    fs'.length = fs.length ∧
    All2 (fun f f' =>
      (∀ k, k ≠ updAttrFor f.vtype → lookup k f'.attrs = lookup k f.attrs) ∧
      (named data f = none → f' = f) ∧
      (f'.attrs.map Prod.fst = f.attrs.map Prod.fst ∨
        f'.attrs.map Prod.fst = f.attrs.map Prod.fst ++ [updAttrFor f.vtype])) fs fs' := by
  have h2 := update_forall2 data fs fs' h
  refine ⟨h2.length_eq.symm, ?_⟩
  clear h
  induction h2 with
  | nil => exact All2.nil
  | cons hf _ ih => exact All2.cons (updField_frame data _ _ hf) ih

/-- relation between an item of the source and the item at the same place of the output -/
def ItemRel (data : Data) : Item → Item → Prop
  | .other x, .other y => x = y
  | .field f, .field f' => updField data f = .ok f'
  | _, _ => False

/-- **C19 (`update_frame`, document level)**: the output has the same items in the same order; everything that is
    not a declaration (other content, styles, pictures, package members: opaque payloads) is identical; each
    declaration is related to its source by one step of the update loop. -/
theorem updateDoc_frame (data : Data) (d d' : Doc) (h : updateDoc data d = .ok d') :
    All2 (ItemRel data) d d' := by
  induction d generalizing d' with
  | nil => simp [updateDoc] at h; subst h; exact All2.nil
  | cons it r ih =>
    cases it with
    | other x =>
      simp only [updateDoc] at h
      cases hr : updateDoc data r with
      | error e => rw [hr] at h; cases h
      | ok r' => rw [hr] at h; cases h; exact All2.cons rfl (ih r' hr)
    | field f =>
      simp only [updateDoc] at h
      cases hf : updField data f with
      | error e => rw [hf] at h; cases h
      | ok f' =>
        rw [hf] at h; simp only at h
        cases hr : updateDoc data r with
        | error e => rw [hr] at h; cases h
        | ok r' => rw [hr] at h; cases h; exact All2.cons hf (ih r' hr)

/-- the declarations of the updated document are the updated declarations -/
theorem fieldsOf_updateDoc (data : Data) (d d' : Doc) (h : updateDoc data d = .ok d') :
    update data (fieldsOf d) = .ok (fieldsOf d') := by
  induction d generalizing d' with
  | nil => simp [updateDoc] at h; subst h; rfl
  | cons it r ih =>
    cases it with
    | other x =>
      simp only [updateDoc] at h
      cases hr : updateDoc data r with
      | error e => rw [hr] at h; cases h
      | ok r' => rw [hr] at h; cases h; simpa [fieldsOf] using ih r' hr
    | field f =>
      simp only [updateDoc] at h
      cases hf : updField data f with
      | error e => rw [hf] at h; cases h
      | ok f' =>
        rw [hf] at h; simp only at h
        cases hr : updateDoc data r with
        | error e => rw [hr] at h; cases h
        | ok r' =>
          rw [hr] at h; cases h
          simp only [fieldsOf, update, hf, ih r' hr]

/-- **C19 (whole tool)**: after `update(data)` listing the destination gives `expectedView` of the source's fields -/
theorem updateOp_sets (data : Data) (s s' : State) (h : updateOp data s = .ok s') :
    ∃ d', s'.dest = some d' ∧ listFields (fieldsOf d') = (fieldsOf s.src).map (expectedView data) ∧
      All2 (ItemRel data) s.src d' := by
  unfold updateOp at h
  cases hd : updateDoc data s.src with
  | error e => rw [hd] at h; cases h
  | ok d' =>
    rw [hd] at h; cases h
    exact ⟨d', rfl, update_sets data _ _ (fieldsOf_updateDoc data _ _ hd), updateDoc_frame data _ _ hd⟩

/-! ### names that do not occur, idempotence, read-only listing -/

theorem updField_congr (data data' : Data) (f : Field) (h : named data f = named data' f) :
    updField data f = updField data' f := by
  unfold named at h
  unfold updField
  cases hn : f.name with
  | none => rfl
  | some n => rw [hn] at h; simp only at h ⊢; rw [h]

/-- only the entries whose key is the name of a declaration matter -/
theorem update_congr (data data' : Data) (fs : List Field) (h : ∀ f ∈ fs, named data f = named data' f) :
    update data fs = update data' fs := by
  induction fs with
  | nil => rfl
  | cons f r ih =>
    simp only [update]
    rw [updField_congr data data' f (h f (by simp)), ih (fun g hg => h g (List.mem_cons_of_mem _ hg))]

/-- **C19 (`unknown_names_ignored`)**: a dictionary none of whose keys names a declaration changes nothing -/
theorem unknown_names_ignored (data : Data) (fs : List Field) (h : ∀ f ∈ fs, named data f = none) :
    update data fs = .ok fs := by
  induction fs with
  | nil => rfl
  | cons f r ih =>
    simp only [update]
    rw [updField_unnamed data f (h f (by simp)), ih (fun g hg => h g (List.mem_cons_of_mem _ hg))]

/-- adding entries for names that are not declared does not change the result -/
theorem unknown_names_irrelevant (data extra : Data) (fs : List Field)
    (h : ∀ f ∈ fs, ∀ n, f.name = some n → lookup n (data ++ extra) = lookup n data) :
    update (data ++ extra) fs = update data fs := by
  apply update_congr
  intro f hf
  unfold named
  cases hn : f.name with
  | none => rfl
  | some n => exact h f hf n hn

theorem cnvBoolean_idem (v v' : Str) (h : cnvBoolean v = .ok v') : cnvBoolean v' = .ok v' := by
  unfold cnvBoolean at h
  simp only at h
  split at h
  · cases h; exact cnvBoolean_false
  · split at h
    · cases h; exact cnvBoolean_true
    · cases h

theorem convert_idem (k : AttrKey) (v v' : Str) (h : convert k v = .ok v') : convert k v' = .ok v' := by
  unfold convert at h ⊢
  split at h
  · rename_i h0; simp [h0]
  · rename_i h0
    split at h
    · rename_i h1; simp only [h0, h1, if_false, if_true]; exact cnvBoolean_idem v v' h
    · cases h

theorem updField_idem (data : Data) (f f' : Field) (hu : updField data f = .ok f') :
    updField data f' = .ok f' := by
  cases hn : named data f with
  | none =>
    have := updField_unnamed data f hn
    rw [this] at hu; cases hu; exact this
  | some v =>
    obtain ⟨hnm, hty⟩ := updField_name_type data f f' hu
    obtain ⟨v', hc, hf⟩ := updField_named data f f' v hn hu
    have hn' : named data f' = some v := by unfold named at hn ⊢; rw [hnm]; exact hn
    unfold named at hn'
    unfold updField
    cases hnn : f'.name with
    | none => simp [hnn] at hn'
    | some n =>
      rw [hnn] at hn'; simp only at hn' ⊢
      rw [hn', hty]; simp only
      rw [hc]; simp only
      subst hf
      -- the second run converts the same raw value to the same v' and overwrites the attribute with itself
      simp only [setAttr_idem]

/-- **C19 (`update_idempotent`)**: updating the output again with the same dictionary gives the same output -/
theorem update_idempotent (data : Data) (fs fs' : List Field) (h : update data fs = .ok fs') :
    update data fs' = .ok fs' := by
  have h2 := update_forall2 data fs fs' h
  clear h
  induction h2 with
  | nil => rfl
  | cons hf _ ih => simp only [update, updField_idem data _ _ hf, ih]

/-- **C19 (`list_readonly`)**: listing returns the views and leaves source and destination as they were
    (the modelled method has no `savedoc()`; tied to the code by hashing the source before and after) -/
theorem list_readonly (s : State) : (listOp s).2 = s ∧ (listOp s).1 = listFields (fieldsOf s.src) := ⟨rfl, rfl⟩

/-- updating never modifies the source either -/
theorem update_keeps_source (data : Data) (s s' : State) (h : updateOp data s = .ok s') : s'.src = s.src := by
  unfold updateOp at h
  cases hd : updateDoc data s.src with
  | error e => rw [hd] at h; cases h
  | ok d' => rw [hd] at h; cases h; rfl

/-! ### histories on one object -/

/-- **C19 (a call depends only on the source and its own arguments)**: whatever state the object is in (whatever
    was written before, whatever calls were made before), the result of a call is determined by the source
    document as it is now -/
theorem step_depends_on_source (s s' : State) (op : Op) (h : s.src = s'.src) : (step s op).2 = (step s' op).2 := by
  cases op with
  | list => simp [step, h]
  | update data inPlace =>
    simp only [step, h]
    cases updateDoc data s'.src <;> rfl

theorem step_keeps_source (s : State) (op : Op) (h : op.keepsSource = true) : (step s op).1.src = s.src := by
  cases op with
  | list => rfl
  | update data inPlace =>
    simp only [Op.keepsSource, Bool.not_eq_true'] at h
    subst h
    simp only [step]
    cases updateDoc data s.src <;> rfl

theorem run_keeps_source (s : State) (ops : List Op) (h : ∀ op ∈ ops, op.keepsSource = true) :
    (run s ops).src = s.src := by
  induction ops generalizing s with
  | nil => rfl
  | cons op r ih =>
    simp only [run]
    rw [ih _ (fun o ho => h o (List.mem_cons_of_mem _ ho)), step_keeps_source s op (h op (by simp))]

/-- **C19 (`history_independent`)**: after any history of listings and updates that write elsewhere, the next call
    gives exactly what it gives on a fresh object: the second update carries nothing of the first, reads keep
    returning what the source says -/
theorem history_independent (s : State) (ops : List Op) (h : ∀ op ∈ ops, op.keepsSource = true) (op : Op) :
    (step (run s ops) op).2 = (step ⟨s.src, none⟩ op).2 :=
  step_depends_on_source _ _ op (run_keeps_source s ops h)

/-- an update in place makes its output the source of the following calls -/
theorem in_place_becomes_source (s : State) (data : Data) (d : Doc) (h : updateDoc data s.src = .ok d) :
    (step s (.update data true)).1.src = d := by
  simp [step, h]

/-! ### the hypotheses are satisfiable -/

/-- a date declaration (carrying a stale office:value) and a string declaration, next to other content;
    updating the date and an undeclared name -/
example :
    let date : Field := ⟨[(0, [100]), (1, [100, 97, 116, 101]), (3, [49]), (2, [57])]⟩
    let str : Field := ⟨[(0, [115]), (1, [115, 116, 114, 105, 110, 103]), (6, [120])]⟩
    updateDoc [([100], [50]), ([122], [51])] [.other 1, .field date, .other 2, .field str] =
      .ok [.other 1, .field ⟨[(0, [100]), (1, [100, 97, 116, 101]), (3, [50]), (2, [57])]⟩, .other 2, .field str] := by
  rfl

end OdfModel.Props.C19

/-
  Property C11 — loading keeps style references right when content.xml and styles.xml reuse a style name.

  Theorems about `OdfModel.StyleClash` (model of the load order, `__register_stylename`, the rewrite in
  `build_caches`, the single automatic-styles container, and — through `OdfModel.Styles` — the selection of
  automatic styles on save).  Tie: the correspondence run of harness/c11.py (drv_clash) on the complete matrix
  of synthetic packages, and harness/translate_styles.py for the tables.

  FULL STATEMENT (`resolve_preserved`, kept visible as `ResolvePreserved`):

      ∀ pkg site,  resolveAfter pkg site = resolveBefore pkg site   and   resolveMem pkg site = resolveBefore pkg site

  read as: a site that resolved to the definition marked `m` in the source package resolves to `m` in the loaded
  document and in the package saved from it (`Preserved`; a reference that dangled in the source is not
  constrained — `equality_form_too_strong` shows why the literal equality is not the property).
  The code does NOT satisfy it: the `finding_*` theorems below are kernel-checked counter-examples, one per
  class of `known-findings/C11.txt`.  What is proved is `resolve_preserved_partial`: the statement for the
  packages of the decidable class `Handled` (all definitions are `style:style`; names are unique per container
  — the index is keyed by the bare name; common names are not used by automatic styles; for a name in both
  parts 'M'+name is free) and the sites of `HandledSite` (any body reference; a master-page reference that is
  `text:style-name` or whose name does not clash).
-/
import OdfModel.StyleClash
import OdfModel.Props.C10
namespace OdfModel.Props.C11
open OdfModel OdfModel.Styles OdfModel.StyleClash OdfModel.Generated.StyleRefs
open OdfModel.Props.C10 (final final_spec mem_collect mem_refsKids mem_ownRefs keptPred_of_mem keptPred_true
  usedAuto_eq Inv Stable Scanned)

/-! ### The property -/

/-- in the loaded document the site still resolves to the definition it resolved to in the source -/
def PreservedMem (p : Pkg) (s : Site) : Prop :=
  ∀ m, resolveBefore p s = some m → resolveMem p s = some m

/-- ... and in the package saved from it (a reference inside an automatic style that is not written to that
    part any more has gone with it: C10 says which are written) -/
def PreservedSaved (p : Pkg) (s : Site) : Prop :=
  ∀ m, resolveBefore p s = some m → (siteRef (saveLoad p) s).isSome = true → resolveAfter p s = some m

def Preserved (p : Pkg) (s : Site) : Prop := PreservedMem p s ∧ PreservedSaved p s

/-- **C11, full statement** (`resolve_preserved`): every reference site of every package keeps its
    definition.  NOT a theorem for the code as it is — see `resolve_preserved_fails`. -/
def ResolvePreserved (p : Pkg) : Prop := ∀ s, Preserved p s

instance (p : Pkg) (s : Site) : Decidable (PreservedMem p s) :=
  match h : resolveBefore p s with
  | none => isTrue (by intro m hm; rw [h] at hm; cases hm)
  | some m =>
    if h2 : resolveMem p s = some m then isTrue (by intro m' hm'; rw [h] at hm'; cases hm'; exact h2)
    else isFalse (fun H => h2 (H m h))

instance (p : Pkg) (s : Site) : Decidable (PreservedSaved p s) :=
  match h : resolveBefore p s with
  | none => isTrue (by intro m hm; rw [h] at hm; cases hm)
  | some m =>
    if h2 : (siteRef (saveLoad p) s).isSome = true → resolveAfter p s = some m then
      isTrue (by intro m' hm'; rw [h] at hm'; cases hm'; exact h2)
    else isFalse (fun H => h2 (H m h))

instance (p : Pkg) (s : Site) : Decidable (Preserved p s) := by unfold Preserved; infer_instance

/-! ### Counter-examples (the cells of the matrix the code does not handle) -/

/-- class codes as the harness assigns them (the model only compares them) -/
abbrev cParagraph : Nat := 1
abbrev cText : Nat := 2
abbrev cTable : Nat := 3
abbrev cTableCell : Nat := 6
abbrev cGraphic : Nat := 7
abbrev cPresentation : Nat := 8
abbrev cDrawingPage : Nat := 9
abbrev cData : Nat := 13
abbrev cList : Nat := 14
abbrev cPageLayout : Nat := 15

def P1 : Str := [80, 49]
def T1 : Str := [84, 49]
def gr1 : Str := [103, 114, 49]
def L1 : Str := [76, 49]

/-- the cell (kind, attribute) of the matrix with the name referenced from BOTH the body and a master page:
    definition 0 in content.xml, definition 1 in styles.xml, one reference each -/
def clashPkg (isStyle : Bool) (cls : Nat) (n : Str) (a : Nat) : Pkg :=
  { cAuto := [⟨isStyle, cls, n, 0, []⟩], body := [⟨a, n, cls⟩], common := []
    sAuto := [⟨isStyle, cls, n, 1, []⟩], master := [⟨a, n, cls⟩] }

/-- what happens in the probe `c11b.py`: graphic style `gr1` in both parts, the header frame uses
    `draw:style-name`.  The styles.xml definition (1) is renamed `Mgr1`, the frame still says `gr1`: in the
    loaded document and in the saved styles.xml it resolves to content.xml's definition (0), which is now
    written to BOTH parts, while `Mgr1` is written to neither. -/
theorem finding_draw_style_name :
    resolveBefore (clashPkg true cGraphic gr1 a_draw_style_name) (.master 0) = some 1 ∧
    resolveMem (clashPkg true cGraphic gr1 a_draw_style_name) (.master 0) = some 0 ∧
    resolveAfter (clashPkg true cGraphic gr1 a_draw_style_name) (.master 0) = some 0 ∧
    (saveLoad (clashPkg true cGraphic gr1 a_draw_style_name)).cAuto.map (·.marker) = [0] ∧
    (saveLoad (clashPkg true cGraphic gr1 a_draw_style_name)).sAuto.map (·.marker) = [0] ∧
    ¬ Preserved (clashPkg true cGraphic gr1 a_draw_style_name) (.master 0) := by decide

/-- **C11 is false for the code as it is.** -/
theorem resolve_preserved_fails : ¬ ∀ p, ResolvePreserved p :=
  fun h => finding_draw_style_name.2.2.2.2.2 (h _ _)

/-- the single-valued style-reference attributes of the schema that may name an automatic style and are not
    `text:style-name` -/
def otherAttrs : List Nat :=
  schemaStyleRefAttrs.filter (fun a => !schemaListTyped.contains a && !commonOnly a && a != a_text_style_name)

/-- **every other reference attribute**: for a `style:style` name used in both parts, the master-page cell fails
    for each of the 38 single-valued schema reference attributes other than `text:style-name`
    (`draw:style-name`, `presentation:style-name`, `table:style-name`, `draw:text-style-name`,
    `text:cond-style-name`, `text:visited-style-name`, `style:data-style-name`, ...), whatever the family -/
theorem finding_every_other_attribute :
    ∀ a ∈ otherAttrs, ¬ Preserved (clashPkg true cGraphic gr1 a) (.master 0) := by decide

/-- the list-valued attributes (`draw:class-names`, `presentation:class-names`, `text:class-names`,
    `draw:stroke-dash-names`): no token of the list is rewritten either -/
theorem finding_class_names :
    ∀ a ∈ schemaListTyped, ¬ Preserved (clashPkg true cGraphic gr1 a) (.master 0) := by decide

theorem finding_presentation_style_name :
    ¬ Preserved (clashPkg true cPresentation [112, 114, 49] a_presentation_style_name) (.master 0) := by decide

theorem finding_table_style_name :
    ¬ Preserved (clashPkg true cTable [116, 97, 49] a_table_style_name) (.master 0) := by decide

theorem finding_cond_style_name :
    ¬ Preserved (clashPkg true cParagraph P1 a_text_cond_style_name) (.master 0) := by decide

/-- a drawing-page style referenced from the master page itself (`draw:style-name` on `style:master-page`,
    what `draw:master-page-name`d pages inherit) -/
theorem finding_drawing_page :
    ¬ Preserved (clashPkg true cDrawingPage [100, 112, 49] a_draw_style_name) (.master 0) := by decide

/-- **definitions that are not `style:style`** (data styles, list styles, page layouts) are not renamed at all:
    two definitions share one name in the one container, both are written to styles.xml, the first wins -/
theorem finding_data_style_name :
    (load (clashPkg false cData [78, 48] a_style_data_style_name)).auto.map (·.name) = [[78, 48], [78, 48]] ∧
    (saveLoad (clashPkg false cData [78, 48] a_style_data_style_name)).sAuto.map (·.marker) = [0, 1] ∧
    ¬ Preserved (clashPkg false cData [78, 48] a_style_data_style_name) (.master 0) := by decide

/-- for those kinds not even `text:style-name` survives (`<text:list text:style-name="L1">` in a header) -/
theorem finding_list_style : ¬ Preserved (clashPkg false cList L1 a_text_style_name) (.master 0) := by decide

theorem finding_page_layout :
    ¬ Preserved (clashPkg false cPageLayout [112, 109, 49] a_style_page_layout_name) (.master 0) := by decide

/-- ... and for every single-valued schema reference attribute (here `text:style-name` included) -/
theorem finding_not_style_style_every_attribute :
    ∀ a ∈ a_text_style_name :: otherAttrs, ¬ Preserved (clashPkg false cList L1 a) (.master 0) := by decide

/-- **a reference that comes before the renamed definition**: styles.xml has the list style `L` (marker 2) whose
    level uses the text style `T1` and which precedes `T1` (marker 1) among the automatic styles; the header uses
    `L`.  The rewrite reaches only what is indexed after the rename was recorded. -/
def wBefore : Pkg :=
  { cAuto := [⟨true, cText, T1, 0, []⟩], body := [⟨a_text_style_name, T1, cText⟩], common := []
    sAuto := [⟨false, cList, L1, 2, [⟨a_text_style_name, T1, cText⟩]⟩, ⟨true, cText, T1, 1, []⟩]
    master := [⟨a_text_style_name, L1, cList⟩] }

theorem finding_reference_before_rename :
    resolveBefore wBefore (.inStyles 2 0) = some 1 ∧ resolveAfter wBefore (.inStyles 2 0) = some 0 ∧
    ¬ Preserved wBefore (.inStyles 2 0) := by decide

/-- the same two styles in the other order: the reference is rewritten and the cell holds -/
theorem reference_after_rename_holds :
    Preserved { wBefore with sAuto := wBefore.sAuto.reverse } (.inStyles 2 0) := by decide

/-- a data style referenced from inside an automatic cell style of styles.xml (`style:data-style-name` on
    `style:style`), before or after: never rewritten, and the data style is not renamed either -/
def wDataInside : Pkg :=
  { cAuto := [⟨false, cData, [78, 48], 0, []⟩], body := [], common := []
    sAuto := [⟨false, cData, [78, 48], 1, []⟩, ⟨true, cTableCell, [99, 101, 49], 2, [⟨a_style_data_style_name, [78, 48], cData⟩]⟩]
    master := [⟨a_table_style_name, [99, 101, 49], cTableCell⟩] }

theorem finding_data_style_inside_style : ¬ Preserved wDataInside (.inStyles 2 0) := by decide

/-- **'M'+name is taken**: content.xml has `P1` (0) and `MP1` (2), styles.xml has `P1` (1).  The styles.xml
    definition is renamed to `MP1`, which exists: the header paragraph now resolves to (2). -/
def wMTaken : Pkg :=
  { cAuto := [⟨true, cParagraph, P1, 0, []⟩, ⟨true, cParagraph, mName P1, 2, []⟩]
    body := [⟨a_text_style_name, P1, cParagraph⟩, ⟨a_text_style_name, mName P1, cParagraph⟩], common := []
    sAuto := [⟨true, cParagraph, P1, 1, []⟩], master := [⟨a_text_style_name, P1, cParagraph⟩] }

theorem finding_mname_taken :
    resolveBefore wMTaken (.master 0) = some 1 ∧ resolveAfter wMTaken (.master 0) = some 2 ∧
    ¬ Preserved wMTaken (.master 0) := by decide

/-- the other order holds: styles.xml has `P1` (1) THEN `MP1` (2), content.xml has `P1` (0).  Both styles.xml
    definitions move on (`MP1`, `MMP1`), the map is `P1 → MP1`, `MP1 → MMP1`, and a reference is sent through it
    exactly ONCE: header `P1 → MP1` (1), footer `MP1 → MMP1` (2).  (Following the map transitively would send the
    header to the footer's style.)  Outside `Handled`, so an instance by evaluation. -/
def wMAfter : Pkg :=
  { cAuto := [⟨true, cParagraph, P1, 0, []⟩], body := [⟨a_text_style_name, P1, cParagraph⟩], common := []
    sAuto := [⟨true, cParagraph, P1, 1, []⟩, ⟨true, cParagraph, mName P1, 2, []⟩]
    master := [⟨a_text_style_name, P1, cParagraph⟩, ⟨a_text_style_name, mName P1, cParagraph⟩] }

theorem source_mname_after_holds :
    (load wMAfter).auto.map (·.name) = [P1, mName P1, mName (mName P1)] ∧
    (load wMAfter).master.map (·.name) = [mName P1, mName (mName P1)] ∧
    ¬ Handled wMAfter ∧ ∀ s ∈ allSites wMAfter, Preserved wMAfter s := by decide +kernel

/-- **the index ignores the family**: a graphic style of styles.xml named like a paragraph style of content.xml
    is renamed although the two can never be confused; the header frame's `draw:style-name` then dangles -/
def wOtherFamily : Pkg :=
  { cAuto := [⟨true, cParagraph, [88, 49], 0, []⟩], body := [⟨a_text_style_name, [88, 49], cParagraph⟩], common := []
    sAuto := [⟨true, cGraphic, [88, 49], 1, []⟩], master := [⟨a_draw_style_name, [88, 49], cGraphic⟩] }

theorem finding_other_family :
    resolveBefore wOtherFamily (.master 0) = some 1 ∧ resolveAfter wOtherFamily (.master 0) = none ∧
    ¬ Preserved wOtherFamily (.master 0) := by decide

/-- adjacent, inside ONE part: paragraph style `a1` and text style `a1` (legal: names are per family).  The second
    is renamed and every later `text:style-name="a1"` is rewritten — the paragraph's too, which then dangles. -/
def wSamePart : Pkg :=
  { cAuto := [⟨true, cParagraph, [97, 49], 0, []⟩, ⟨true, cText, [97, 49], 1, []⟩]
    body := [⟨a_text_style_name, [97, 49], cParagraph⟩, ⟨a_text_style_name, [97, 49], cText⟩]
    common := [], sAuto := [], master := [] }

theorem finding_same_part_other_family :
    resolveBefore wSamePart (.body 0) = some 0 ∧ resolveAfter wSamePart (.body 0) = none ∧
    Preserved wSamePart (.body 1) ∧ ¬ Preserved wSamePart (.body 0) := by decide

/-- adjacent, a COMMON style: common styles and automatic styles share the one dictionary, so a common style of
    styles.xml named like an automatic style of content.xml is renamed; its child's `style:parent-style-name`
    (never rewritten) dangles -/
def wCommon : Pkg :=
  { cAuto := [⟨true, cParagraph, [67, 120], 0, []⟩], body := [⟨a_text_style_name, [67, 120], cParagraph⟩]
    common := [⟨true, cParagraph, [67, 120], 1, []⟩,
               ⟨true, cParagraph, [67, 104], 2, [⟨a_style_parent_style_name, [67, 120], cParagraph⟩]⟩]
    sAuto := [], master := [⟨a_text_style_name, [67, 120], cParagraph⟩] }

theorem finding_common_style_renamed :
    (load wCommon).common.map (·.name) = [mName [67, 120], [67, 104]] ∧
    Preserved wCommon (.master 0) ∧ ¬ Preserved wCommon (.inCommon 2 0) := by decide

/-- why the property is an implication and not the literal equality of DESIGN.md: a body reference to `MP1`
    that dangles in the source resolves after load+save, because the styles.xml `P1` now carries that name and is
    written to content.xml — with `text:style-name`, inside the handled class -/
def wDangling : Pkg :=
  { cAuto := [⟨true, cParagraph, P1, 0, []⟩], body := [⟨a_text_style_name, mName P1, cParagraph⟩], common := []
    sAuto := [⟨true, cParagraph, P1, 1, []⟩], master := [⟨a_text_style_name, P1, cParagraph⟩] }

theorem equality_form_too_strong :
    resolveBefore wDangling (.body 0) = none ∧ resolveAfter wDangling (.body 0) = some 1 ∧
    Preserved wDangling (.body 0) ∧ Preserved wDangling (.master 0) := by decide

/-! ### The part the code handles -/

/- `names`, `Handled`, `Seen`, `HandledSite` (the decidable classes) are defined in OdfModel.StyleClash, so that the
   driver can evaluate them on every package of the correspondence run. -/

/-! #### `findKey` -/

theorem findKey_append (l1 l2 : List (Str × Nat × Nat)) (n : Str) (c : Nat) :
    findKey (l1 ++ l2) n c = match findKey l1 n c with
      | some m => some m
      | none => findKey l2 n c := by
  induction l1 with
  | nil => rfl
  | cons k ks ih =>
    simp only [List.cons_append, findKey]
    split
    · rfl
    · exact ih

theorem findKey_none (l : List (Str × Nat × Nat)) (n : Str) (c : Nat) (h : ∀ k ∈ l, k.1 ≠ n) :
    findKey l n c = none := by
  induction l with
  | nil => rfl
  | cons k ks ih =>
    simp only [findKey]
    rw [if_neg (fun (hh : k.1 = n ∧ k.2.1 = c) => h k (by simp) hh.1)]
    exact ih (fun k' hk' => h k' (List.mem_cons_of_mem _ hk'))

theorem findKey_some_mem (l : List (Str × Nat × Nat)) (n : Str) (c m : Nat) (h : findKey l n c = some m) :
    ∃ k ∈ l, k.1 = n := by
  induction l with
  | nil => cases h
  | cons k ks ih =>
    simp only [findKey] at h
    split at h
    · rename_i hh; exact ⟨k, by simp, hh.1⟩
    · obtain ⟨k', hk', e⟩ := ih h; exact ⟨k', List.mem_cons_of_mem _ hk', e⟩

/-- dropping entries under other names does not change what a name resolves to -/
theorem findKey_filter (N : List Str) (l : List (Str × Nat × Nat)) (n : Str) (c : Nat) (hn : n ∈ N) :
    findKey (l.filter (fun k => decide (k.1 ∈ N))) n c = findKey l n c := by
  induction l with
  | nil => rfl
  | cons k ks ih =>
    by_cases hk : k.1 ∈ N
    · rw [List.filter_cons_of_pos (by simpa using hk)]
      simp only [findKey]
      split
      · rfl
      · exact ih
    · rw [List.filter_cons_of_neg (by simpa using hk)]
      simp only [findKey]
      rw [if_neg (fun (hh : k.1 = n ∧ k.2.1 = c) => hk (hh.1 ▸ hn))]
      exact ih

/-- a renaming of the names that is injective at `n` -/
theorem findKey_map (f : Str → Str) (l : List (Str × Nat × Nat)) (n : Str) (c : Nat)
    (h : ∀ k ∈ l, f k.1 = f n → k.1 = n) :
    findKey (l.map (fun k => (f k.1, k.2))) (f n) c = findKey l n c := by
  induction l with
  | nil => rfl
  | cons k ks ih =>
    have ih' := ih (fun k' hk' => h k' (List.mem_cons_of_mem _ hk'))
    simp only [List.map_cons, findKey]
    by_cases hk : k.1 = n ∧ k.2.1 = c
    · rw [if_pos ⟨by rw [hk.1], hk.2⟩, if_pos hk]
    · rw [if_neg hk, if_neg (fun (hh : f k.1 = f n ∧ k.2.1 = c) => hk ⟨h k (by simp) hh.1, hh.2⟩)]
      exact ih'

theorem findKey_map_none (f : Str → Str) (l : List (Str × Nat × Nat)) (y : Str) (c : Nat)
    (h : ∀ k ∈ l, f k.1 ≠ y) : findKey (l.map (fun k => (f k.1, k.2))) y c = none := by
  apply findKey_none
  intro _ hk
  obtain ⟨k', hk', rfl⟩ := List.mem_map.mp hk
  exact h k' hk'

theorem mem_keys_names {ds : List Def} {k : Str × Nat × Nat} (h : k ∈ ds.map key) : k.1 ∈ names ds := by
  obtain ⟨d, hd, rfl⟩ := List.mem_map.mp h
  exact List.mem_map.mpr ⟨d, hd, rfl⟩

theorem findDef_none {ds : List Def} {n : Str} (c : Nat) (h : n ∉ names ds) : findDef ds n c = none :=
  findKey_none _ _ _ (fun _ hk e => h (e ▸ mem_keys_names hk))

theorem findDef_some_mem {ds : List Def} {n : Str} {c m : Nat} (h : findDef ds n c = some m) : n ∈ names ds := by
  obtain ⟨k, hk, e⟩ := findKey_some_mem _ _ _ _ h
  exact e ▸ mem_keys_names hk

/-! #### save: what is written is a filter by name of the one container -/

theorem nodeRef_refNode (r : Ref) : nodeRef (refNode r) = some r := by cases r; rfl

theorem filterMap_nodeRef (rs : List Ref) : (rs.map refNode).filterMap nodeRef = rs := by
  induction rs with
  | nil => rfl
  | cons r rs ih => simp only [List.map_cons, List.filterMap_cons, nodeRef_refNode, ih]

theorem nodeDef_defNode (d : Def) : nodeDef (defNode d) = some d := by
  obtain ⟨s, c, n, m, rs⟩ := d
  simp only [defNode, nodeDef, filterMap_nodeRef]
  cases s <;> rfl

theorem filter_flags {α : Type} (q : α → Bool) (fl : List (Bool × α)) (h : ∀ p ∈ fl, p.1 = q p.2) :
    (fl.filter (·.1)).map (·.2) = (fl.map (·.2)).filter q := by
  induction fl with
  | nil => rfl
  | cons p ps ih =>
    have ih' := ih (fun p' hp' => h p' (List.mem_cons_of_mem _ hp'))
    have hp := h p (by simp)
    simp only [List.map_cons, List.filter_cons]
    cases hb : p.1 with
    | true => rw [← hp, hb]; simp [ih']
    | false => rw [← hp, hb]; simp [ih']

/-- `_used_auto_styles` returns exactly the children of automatic-styles whose name is in its final list -/
theorem usedAuto_filter (C : Cfg) (segs : List Node) (auto : Node) :
    usedAuto C segs auto = (kidsOf auto).filter (keptPred (final C segs auto).1) := by
  obtain ⟨_, h2, h3, h4⟩ := final_spec C segs auto
  rw [usedAuto_eq, ← h2]
  apply filter_flags
  intro p hp
  cases hb : p.1 with
  | true =>
    obtain ⟨⟨v, hv, hvn⟩, _⟩ := h3 p hp hb
    exact (keptPred_of_mem hv hvn).symm
  | false => exact (h4 p hp hb).symm

theorem keptPred_defNode (N : List Str) (d : Def) : keptPred N (defNode d) = decide (d.name ∈ N) := by
  simp [keptPred, styleNameOf, defNode, List.lookup, styleNameAttr]

/-- the final name list of `_used_auto_styles(segs)` over the container `auto` -/
def finalNames (segs : List Node) (auto : List Def) : List Str := (final cfg segs (defsNode auto)).1

theorem filterMap_kept (N : List Str) (auto : List Def) :
    ((auto.map defNode).filter (keptPred N)).filterMap nodeDef = auto.filter (fun d => decide (d.name ∈ N)) := by
  induction auto with
  | nil => rfl
  | cons d ds ih =>
    simp only [List.map_cons, List.filter_cons, keptPred_defNode]
    by_cases h : d.name ∈ N
    · simp [h, nodeDef_defNode, ih]
    · simp [h, ih]

theorem keptFor_eq (segs : List Node) (auto : List Def) :
    keptFor segs auto = auto.filter (fun d => decide (d.name ∈ finalNames segs auto)) := by
  unfold keptFor
  rw [usedAuto_filter]
  exact filterMap_kept _ auto

theorem keys_keptFor (segs : List Node) (auto : List Def) :
    (keptFor segs auto).map key = (auto.map key).filter (fun k => decide (k.1 ∈ finalNames segs auto)) := by
  rw [keptFor_eq, List.filter_map]
  rfl

/-- a reference the scan can see, sitting in a scanned container, puts its name on the list -/
theorem seen_in_finalNames (segs : List Node) (auto : List Def) (rs : List Ref) (r : Ref)
    (hseg : sitesNode rs ∈ segs) (hr : r ∈ rs) (hs : Seen r) : r.name ∈ finalNames segs auto := by
  apply (final_spec cfg segs (defsNode auto)).1
  rw [mem_collect]
  refine ⟨sitesNode rs, hseg, ?_⟩
  apply mem_refsKids (k := refNode r)
  · simp only [sitesNode, kidsOf]; exact List.mem_map.mpr ⟨r, hr, rfl⟩
  · simp only [refNode, refsNode, List.mem_append]
    refine Or.inl (Or.inl ((mem_ownRefs _ _ _).mpr ⟨hs.2, r.attr, hs.1, ?_⟩))
    simp [List.lookup]

/-- resolution among what is written to a part = resolution in the whole container, for a name on the list -/
theorem findDef_keptFor (segs : List Node) (auto : List Def) (n : Str) (c : Nat)
    (hn : n ∈ finalNames segs auto) : findDef (keptFor segs auto) n c = findDef auto n c := by
  unfold findDef
  rw [keys_keptFor, findKey_filter _ _ _ _ hn]

/-! #### load: closed form on the handled class -/

theorem rewriteRef_nil (r : Ref) : rewriteRef [] r = r := by
  unfold rewriteRef
  split <;> rfl

theorem map_rewriteRef_nil (rs : List Ref) : rs.map (rewriteRef []) = rs := by
  induction rs with
  | nil => rfl
  | cons r rs ih => simp only [List.map_cons, rewriteRef_nil, ih]

/-- a run of definitions none of which collides: nothing is renamed, nothing recorded -/
theorem indexDefs_plain (ds : List Def) (st : LState) (hfix : st.fix = [])
    (hs : ∀ d ∈ ds, d.isStyle = true) (hnd : (names ds).Nodup) (hfresh : ∀ d ∈ ds, d.name ∉ st.dict) :
    (indexDefs st ds).2 = ds ∧ (indexDefs st ds).1.fix = [] ∧
      ∀ x, x ∈ (indexDefs st ds).1.dict ↔ x ∈ names ds ∨ x ∈ st.dict := by
  induction ds generalizing st with
  | nil => simp [indexDefs, hfix, names]
  | cons d ds ih =>
    have hd : d.isStyle = true := hs d (by simp)
    have hn : d.name ∉ st.dict := hfresh d (by simp)
    have hreg : register st d = ({ st with dict := d.name :: st.dict }, d) := by
      simp [register, hd, hn]
    have hidx : indexDef st d = ({ st with dict := d.name :: st.dict }, d) := by
      simp only [indexDef, hreg, hfix, map_rewriteRef_nil]
    simp only [names, List.map_cons, List.nodup_cons] at hnd
    obtain ⟨h1, h2, h3⟩ := ih { st with dict := d.name :: st.dict } hfix
      (fun d' hd' => hs d' (List.mem_cons_of_mem _ hd')) hnd.2
      (fun d' hd' hm => by
        rcases List.mem_cons.mp hm with e | e
        · exact hnd.1 (e ▸ List.mem_map.mpr ⟨d', hd', rfl⟩)
        · exact hfresh d' (List.mem_cons_of_mem _ hd') e)
    simp only [indexDefs, hidx]
    refine ⟨by rw [h1], h2, ?_⟩
    intro x
    rw [h3 x]
    simp only [names, List.map_cons, List.mem_cons]
    constructor
    · rintro (h | h | h)
      · exact Or.inl (Or.inr h)
      · exact Or.inl (Or.inl h)
      · exact Or.inr h
    · rintro ((h | h) | h)
      · exact Or.inr (Or.inl h)
      · exact Or.inl h
      · exact Or.inr (Or.inr h)

/-- the name a styles.xml definition ends with: 'M'+name if the name is already registered -/
def ren (D : List Str) (n : Str) : Str := if n ∈ D then mName n else n

def renKey (D : List Str) (k : Str × Nat × Nat) : Str × Nat × Nat := (ren D k.1, k.2)

theorem key_refs (d : Def) (rs : List Ref) : key { d with refs := rs } = key d := rfl

/-- the run over the automatic styles of styles.xml: `D` = the names registered before it, `Q` = the names
    this run has registered so far -/
theorem indexDefs_ren (D : List Str) (ds : List Def) (st : LState) (Q : List Str)
    (hdict : ∀ x, x ∈ st.dict ↔ x ∈ D ∨ x ∈ Q)
    (hs : ∀ d ∈ ds, d.isStyle = true) (hnd : (names ds).Nodup)
    (hQ : ∀ d ∈ ds, d.name ∉ Q)
    (hM : ∀ n ∈ names ds, n ∈ D → mName n ∉ names ds) :
    (indexDefs st ds).2.map key = (ds.map key).map (renKey D) ∧
      ∀ x, (indexDefs st ds).1.fix.lookup x =
        if x ∈ names ds ∧ x ∈ D then some (mName x) else st.fix.lookup x := by
  induction ds generalizing st Q with
  | nil => simp [indexDefs, names]
  | cons d ds ih =>
    have hd : d.isStyle = true := hs d (by simp)
    have hnQ : d.name ∉ Q := hQ d (by simp)
    have hnd' := hnd
    simp only [names, List.map_cons, List.nodup_cons] at hnd'
    have hsub : ∀ d' ∈ ds, d'.name ≠ d.name := fun d' hd' e => hnd'.1 (e ▸ List.mem_map.mpr ⟨d', hd', rfl⟩)
    by_cases hD : d.name ∈ D
    · -- renamed
      have hin : d.name ∈ st.dict := (hdict _).mpr (Or.inl hD)
      have hreg : register st d = ({ dict := mName d.name :: st.dict, fix := (d.name, mName d.name) :: st.fix },
          { d with name := mName d.name }) := by simp [register, hd, hin]
      have hMd : mName d.name ∉ names (d :: ds) := hM d.name (by simp [names]) hD
      obtain ⟨h1, h2⟩ := ih { dict := mName d.name :: st.dict, fix := (d.name, mName d.name) :: st.fix } (mName d.name :: Q)
        (fun x => by
          simp only [List.mem_cons]; rw [hdict x]
          constructor
          · rintro (h | h | h)
            · exact Or.inr (Or.inl h)
            · exact Or.inl h
            · exact Or.inr (Or.inr h)
          · rintro (h | h | h)
            · exact Or.inr (Or.inl h)
            · exact Or.inl h
            · exact Or.inr (Or.inr h))
        (fun d' hd' => hs d' (List.mem_cons_of_mem _ hd')) hnd'.2
        (fun d' hd' hm => by
          rcases List.mem_cons.mp hm with e | e
          · exact hMd (e ▸ List.mem_map.mpr ⟨d', List.mem_cons_of_mem _ hd', rfl⟩)
          · exact hQ d' (List.mem_cons_of_mem _ hd') e)
        (fun n hn hnD hm => hM n (by simp only [names, List.map_cons, List.mem_cons]; exact Or.inr hn) hnD
          (by simp only [names, List.map_cons, List.mem_cons]; exact Or.inr hm))
      simp only [indexDefs, indexDef, hreg]
      refine ⟨?_, ?_⟩
      · simp only [List.map_cons, h1]
        simp [key, renKey, ren, hD]
      · intro x
        rw [h2 x]
        simp only [names, List.map_cons, List.mem_cons]
        by_cases hx : x = d.name
        · subst hx
          have : ¬ (d.name ∈ ds.map (·.name)) := hnd'.1
          simp [this, hD, List.lookup]
        · have hx' : (x == d.name) = false := by simpa using hx
          simp [hx, List.lookup, hx']
    · -- kept
      have hnin : d.name ∉ st.dict := fun h => by
        rcases (hdict _).mp h with h | h
        · exact hD h
        · exact hnQ h
      have hreg : register st d = ({ st with dict := d.name :: st.dict }, d) := by simp [register, hd, hnin]
      obtain ⟨h1, h2⟩ := ih { st with dict := d.name :: st.dict } (d.name :: Q)
        (fun x => by
          simp only [List.mem_cons]; rw [hdict x]
          constructor
          · rintro (h | h | h)
            · exact Or.inr (Or.inl h)
            · exact Or.inl h
            · exact Or.inr (Or.inr h)
          · rintro (h | h | h)
            · exact Or.inr (Or.inl h)
            · exact Or.inl h
            · exact Or.inr (Or.inr h))
        (fun d' hd' => hs d' (List.mem_cons_of_mem _ hd')) hnd'.2
        (fun d' hd' hm => by
          rcases List.mem_cons.mp hm with e | e
          · exact hsub d' hd' e
          · exact hQ d' (List.mem_cons_of_mem _ hd') e)
        (fun n hn hnD hm => hM n (by simp only [names, List.map_cons, List.mem_cons]; exact Or.inr hn) hnD
          (by simp only [names, List.map_cons, List.mem_cons]; exact Or.inr hm))
      simp only [indexDefs, indexDef, hreg]
      refine ⟨?_, ?_⟩
      · simp only [List.map_cons, h1]
        simp [key, renKey, ren, hD]
      · intro x
        rw [h2 x]
        simp only [names, List.map_cons, List.mem_cons]
        by_cases hx : x = d.name
        · subst hx
          have : ¬ (d.name ∈ ds.map (·.name)) := hnd'.1
          simp [this, hD]
        · simp [hx]

/-- the names registered before the automatic styles of styles.xml are read -/
def regNames (p : Pkg) : List Str := names p.common ++ names p.cAuto

/-- **what `load` does to a handled package**: content.xml and the common styles come through untouched;
    an automatic style of styles.xml is renamed exactly when content.xml has its name; master-page references
    are rewritten through a map that sends exactly those names `n` to 'M'+n -/
theorem load_handled (p : Pkg) (h : Handled p) :
    (load p).common = p.common ∧ (load p).body = p.body ∧
    (load p).auto.map key = p.cAuto.map key ++ (p.sAuto.map key).map (renKey (regNames p)) ∧
    ∃ F : List (Str × Str), (load p).master = p.master.map (rewriteRef F) ∧
      ∀ x, F.lookup x = if x ∈ names p.sAuto ∧ x ∈ regNames p then some (mName x) else none := by
  obtain ⟨hall, hc, hco, hsn, hcof, hm⟩ := h
  have hall' : ∀ d, (d ∈ p.cAuto ∨ d ∈ p.common) ∨ d ∈ p.sAuto → d.isStyle = true := by
    intro d hd; apply hall; rw [List.mem_append, List.mem_append]; exact hd
  obtain ⟨a1, a2, a3⟩ := indexDefs_plain p.cAuto ⟨[], []⟩ rfl (fun d hd => hall' d (Or.inl (Or.inl hd))) hc
    (fun d _ hm => by cases hm)
  obtain ⟨b1, b2, b3⟩ := indexDefs_plain p.common (afterContentAuto p).1 a2
    (fun d hd => hall' d (Or.inl (Or.inr hd))) hco
    (fun d hd hm => by
      have hm' : d.name ∈ (indexDefs ⟨[], []⟩ p.cAuto).1.dict := hm
      rw [a3] at hm'
      rcases hm' with e | e
      · exact (hcof d.name (List.mem_map.mpr ⟨d, hd, rfl⟩)).1 e
      · cases e)
  have hdict : ∀ x, x ∈ (afterCommon p).1.dict ↔ x ∈ regNames p ∨ x ∈ ([] : List Str) := by
    intro x
    have : x ∈ (indexDefs (afterContentAuto p).1 p.common).1.dict ↔ _ := b3 x
    unfold afterCommon
    rw [this]
    have a3' : x ∈ (afterContentAuto p).1.dict ↔ _ := a3 x
    rw [a3']
    simp [regNames, List.mem_append]
  obtain ⟨c1, c2⟩ := indexDefs_ren (regNames p) p.sAuto (afterCommon p).1 [] hdict
    (fun d hd => hall' d (Or.inr hd)) hsn (fun _ _ hm => by cases hm)
    (fun n hn hD => by
      have hcA : n ∈ names p.cAuto := by
        rcases List.mem_append.mp hD with e | e
        · exact absurd hn (hcof n e).2
        · exact e
      exact (hm n hn hcA).2.2)
  refine ⟨b1, ?_, ?_, (afterStylesAuto p).1.fix, rfl, ?_⟩
  · show p.body.map (rewriteRef (afterContentAuto p).1.fix) = p.body
    have a2' : (afterContentAuto p).1.fix = [] := a2
    rw [a2', map_rewriteRef_nil]
  · show ((afterContentAuto p).2 ++ (afterStylesAuto p).2).map key = _
    rw [List.map_append]
    congr 1
    · exact congrArg _ a1
  · intro x
    have h3 : List.lookup x (afterStylesAuto p).1.fix = _ := c2 x
    have b2' : (afterCommon p).1.fix = [] := b2
    rw [b2'] at h3
    simpa using h3

/-! #### resolution in the one container of the loaded document -/

theorem mName_inj {a b : Str} (h : mName a = mName b) : a = b := by
  simpa [mName] using h

/-- the facts about names the handled class gives -/
structure NameFacts (p : Pkg) : Prop where
  inD : ∀ n ∈ names p.sAuto, (n ∈ regNames p ↔ n ∈ names p.cAuto)
  fresh : ∀ n ∈ names p.sAuto, n ∈ regNames p →
    mName n ∉ names p.cAuto ∧ mName n ∉ names p.common ∧ mName n ∉ names p.sAuto
  coS : ∀ n ∈ names p.common, n ∉ names p.sAuto
  coC : ∀ n ∈ names p.common, n ∉ names p.cAuto

theorem nameFacts (p : Pkg) (h : Handled p) : NameFacts p := by
  obtain ⟨_, _, _, _, hcof, hm⟩ := h
  have inD : ∀ n ∈ names p.sAuto, (n ∈ regNames p ↔ n ∈ names p.cAuto) := by
    intro n hn
    constructor
    · intro hD
      rcases List.mem_append.mp hD with e | e
      · exact absurd hn (hcof n e).2
      · exact e
    · intro hc; exact List.mem_append.mpr (Or.inr hc)
  exact ⟨inD, fun n hn hD => hm n hn ((inD n hn).mp hD), fun n hn => (hcof n hn).2, fun n hn => (hcof n hn).1⟩

/-- looking a name up among the (renamed) automatic styles of styles.xml -/
theorem findKey_ren_at (p : Pkg) (n : Str) (c : Nat)
    (hinj : ∀ k ∈ p.sAuto.map key, ren (regNames p) k.1 = ren (regNames p) n → k.1 = n) :
    findKey ((p.sAuto.map key).map (renKey (regNames p))) (ren (regNames p) n) c = findDef p.sAuto n c :=
  findKey_map (ren (regNames p)) (p.sAuto.map key) n c hinj

theorem findKey_ren_none (p : Pkg) (y : Str) (c : Nat)
    (hne : ∀ k ∈ p.sAuto.map key, ren (regNames p) k.1 ≠ y) :
    findKey ((p.sAuto.map key).map (renKey (regNames p))) y c = none :=
  findKey_map_none (ren (regNames p)) (p.sAuto.map key) y c hne

theorem findDef_loaded (p : Pkg) (h : Handled p) (n : Str) (c : Nat) :
    findDef (load p).auto n c = match findDef p.cAuto n c with
      | some m => some m
      | none => findKey ((p.sAuto.map key).map (renKey (regNames p))) n c := by
  unfold findDef
  rw [(load_handled p h).2.2.1, findKey_append]

/-- a name of a common style is not the (new) name of any automatic style of styles.xml -/
theorem common_not_renamed (p : Pkg) (nf : NameFacts p) (y : Str) (hy : y ∈ names p.common) (c : Nat) :
    findKey ((p.sAuto.map key).map (renKey (regNames p))) y c = none := by
  apply findKey_ren_none
  intro k hk e
  have hk' := mem_keys_names hk
  unfold ren at e
  split at e
  · rename_i hD; exact (nf.fresh _ hk' hD).2.1 (e ▸ hy)
  · exact nf.coS y hy (e ▸ hk')

/-- **body references**: whatever a body reference resolved to, it resolves to in the loaded document -/
theorem body_resolve (p : Pkg) (h : Handled p) (r : Ref) (m : Nat)
    (hb : resolve p.cAuto p.common r = some m) : resolve (load p).auto p.common r = some m := by
  have nf := nameFacts p h
  unfold resolve at hb ⊢
  split
  · rename_i hco; rw [if_pos hco] at hb; exact hb
  · rename_i hco
    rw [if_neg hco] at hb
    rw [findDef_loaded p h]
    cases hc : findDef p.cAuto r.name r.cls with
    | some m' => rw [hc] at hb; exact hb
    | none =>
      rw [hc] at hb
      simp only at hb ⊢
      rw [common_not_renamed p nf r.name (findDef_some_mem hb)]
      exact hb

/-- **master-page references**: the rewritten reference resolves, in the loaded document, to what the
    original resolved to in styles.xml -/
theorem master_resolve (p : Pkg) (h : Handled p) (F : List (Str × Str))
    (hF : ∀ x, F.lookup x = if x ∈ names p.sAuto ∧ x ∈ regNames p then some (mName x) else none)
    (r : Ref) (m : Nat)
    (hsite : r.attr = a_text_style_name ∨ ¬ (r.name ∈ names p.sAuto ∧ r.name ∈ names p.cAuto))
    (hb : resolve p.sAuto p.common r = some m) :
    resolve (load p).auto p.common (rewriteRef F r) = some m := by
  have nf := nameFacts p h
  by_cases hcl : r.name ∈ names p.sAuto ∧ r.name ∈ names p.cAuto
  · -- the name is used in both parts: the reference is text:style-name and now says 'M'+name
    have htsn : r.attr = a_text_style_name := hsite.resolve_right (fun hn => hn hcl)
    have hD : r.name ∈ regNames p := (nf.inD _ hcl.1).mpr hcl.2
    have hr' : rewriteRef F r = { r with name := mName r.name } := by
      unfold rewriteRef
      rw [if_pos htsn, hF, if_pos ⟨hcl.1, hD⟩]
    have hco : commonOnly r.attr = false := by rw [htsn]; decide
    rw [hr']
    unfold resolve at hb ⊢
    simp only [hco, Bool.false_eq_true, if_false] at hb ⊢
    rw [findDef_loaded p h]
    have hfr := nf.fresh _ hcl.1 hD
    rw [findDef_none r.cls hfr.1]
    simp only
    have hren : mName r.name = ren (regNames p) r.name := by simp [ren, hD]
    rw [hren, findKey_ren_at]
    · cases hs : findDef p.sAuto r.name r.cls with
      | some m' => rw [hs] at hb; exact hb
      | none =>
        rw [hs] at hb
        exact absurd hcl.1 (nf.coS _ (findDef_some_mem hb))
    · intro k hk e
      have hk' := mem_keys_names hk
      rw [← hren] at e
      unfold ren at e
      split at e
      · exact mName_inj e
      · exact absurd (e ▸ hk') hfr.2.2
  · -- no clash: the reference is unchanged
    have hr' : rewriteRef F r = r := by
      unfold rewriteRef
      split
      · rw [hF]
        have : ¬ (r.name ∈ names p.sAuto ∧ r.name ∈ regNames p) :=
          fun hh => hcl ⟨hh.1, (nf.inD _ hh.1).mp hh.2⟩
        rw [if_neg this]
      · rfl
    rw [hr']
    unfold resolve at hb ⊢
    split
    · rename_i hco; rw [if_pos hco] at hb; exact hb
    · rename_i hco
      rw [if_neg hco] at hb
      rw [findDef_loaded p h]
      by_cases hS : r.name ∈ names p.sAuto
      · have hC : r.name ∉ names p.cAuto := fun hc => hcl ⟨hS, hc⟩
        have hD : r.name ∉ regNames p := fun hd => hC ((nf.inD _ hS).mp hd)
        rw [findDef_none r.cls hC]
        simp only
        have hren : r.name = ren (regNames p) r.name := by simp [ren, hD]
        rw [hren, findKey_ren_at, ← hren]
        · exact hb
        · intro k hk e
          have hk' := mem_keys_names hk
          rw [← hren] at e
          unfold ren at e
          split at e
          · rename_i hkD; exact absurd (e ▸ hS) (nf.fresh _ hk' hkD).2.2
          · exact e
      · rw [findDef_none r.cls hS] at hb
        simp only at hb
        have hco' := findDef_some_mem hb
        rw [findDef_none r.cls (nf.coC _ hco')]
        simp only
        rw [common_not_renamed p nf r.name hco']
        exact hb

theorem seen_rewrite (p : Pkg) (F : List (Str × Str))
    (hF : ∀ x, F.lookup x = if x ∈ names p.sAuto ∧ x ∈ regNames p then some (mName x) else none)
    (r : Ref) (hs : Seen r) : Seen (rewriteRef F r) := by
  unfold rewriteRef
  by_cases htsn : r.attr = a_text_style_name
  · rw [if_pos htsn, hF]
    by_cases hc : r.name ∈ names p.sAuto ∧ r.name ∈ regNames p
    · rw [if_pos hc]
      exact (⟨hs.1, by simp [mName]⟩ : Seen { r with name := mName r.name })
    · rw [if_neg hc]; exact hs
  · rw [if_neg htsn]; exact hs

/-- among what is written to a part, a reference that is on the list resolves as in the whole container -/
theorem resolve_keptFor (segs : List Node) (auto common : List Def) (r : Ref)
    (hn : r.name ∈ finalNames segs auto) :
    resolve (keptFor segs auto) common r = resolve auto common r := by
  unfold resolve
  rw [findDef_keptFor segs auto r.name r.cls hn]

/-- **C11, the part the code handles** (`resolve_preserved` restricted): for a package of the class `Handled`
    every body reference — through ANY reference attribute — and every master-page reference that is
    `text:style-name` (or whose name does not clash) resolves, in the loaded document and in the saved package,
    to the definition it resolved to in the source.  Missing for the full statement: every other (kind,
    attribute, placement) cell — each refuted by a `finding_*` theorem above. -/
theorem resolve_preserved_partial (p : Pkg) (h : Handled p) (s : Site) (hs : HandledSite p s) :
    Preserved p s := by
  obtain ⟨hcommon, hbody, _, F, hmaster, hF⟩ := load_handled p h
  cases s with
  | body i =>
    have key1 : ∀ r m, p.body[i]? = some r → resolve p.cAuto p.common r = some m →
        resolve (load p).auto p.common r = some m := fun r m _ hb => body_resolve p h r m hb
    constructor
    · intro m hb
      simp only [resolveBefore, resolveAt, siteRef, autosFor] at hb
      simp only [resolveMem, resolveAt, siteRef, autosFor, memPkg, hbody, hcommon]
      cases hr : p.body[i]? with
      | none => rw [hr] at hb; cases hb
      | some r => rw [hr] at hb; exact key1 r m hr hb
    · intro m hb _
      simp only [resolveBefore, resolveAt, siteRef, autosFor] at hb
      simp only [resolveAfter, saveLoad, resolveAt, siteRef, autosFor, save, hbody, hcommon]
      cases hr : p.body[i]? with
      | none => rw [hr] at hb; cases hb
      | some r =>
        rw [hr] at hb
        simp only
        rw [resolve_keptFor]
        · exact key1 r m hr hb
        · exact seen_in_finalNames _ _ p.body r (by simp) (List.mem_of_getElem? hr) (hs r hr)
  | master i =>
    have key2 : ∀ r m, p.master[i]? = some r → resolve p.sAuto p.common r = some m →
        resolve (load p).auto p.common (rewriteRef F r) = some m :=
      fun r m hr hb => master_resolve p h F hF r m (hs r hr).2 hb
    have hget : ∀ r, p.master[i]? = some r → (load p).master[i]? = some (rewriteRef F r) := by
      intro r hr; rw [hmaster, List.getElem?_map, hr]; rfl
    constructor
    · intro m hb
      simp only [resolveBefore, resolveAt, siteRef, autosFor] at hb
      simp only [resolveMem, resolveAt, siteRef, autosFor, memPkg, hcommon]
      cases hr : p.master[i]? with
      | none => rw [hr] at hb; cases hb
      | some r => rw [hr] at hb; rw [hget r hr]; exact key2 r m hr hb
    · intro m hb _
      simp only [resolveBefore, resolveAt, siteRef, autosFor] at hb
      simp only [resolveAfter, saveLoad, resolveAt, siteRef, autosFor, save, hcommon]
      cases hr : p.master[i]? with
      | none => rw [hr] at hb; cases hb
      | some r =>
        rw [hr] at hb
        rw [hget r hr]
        simp only
        rw [resolve_keptFor]
        · exact key2 r m hr hb
        · exact seen_in_finalNames _ _ (load p).master (rewriteRef F r) (by simp) (List.mem_of_getElem? (hget r hr))
            (seen_rewrite p F hF r (hs r hr).1)
  | inContent _ _ => exact absurd hs (by simp [HandledSite])
  | inStyles _ _ => exact absurd hs (by simp [HandledSite])
  | inCommon _ _ => exact absurd hs (by simp [HandledSite])

/-! #### the hypotheses are satisfiable, and not vacuously -/

/-- headerfooter.odt in small: paragraph style `P1` and text style `T1` in both parts, a common style, used through
    `text:style-name` from the body and from the header, plus a frame in the BODY using a graphic style through
    `draw:style-name` (body references are safe through any attribute) -/
def wGood : Pkg :=
  { cAuto := [⟨true, cParagraph, P1, 0, []⟩, ⟨true, cText, T1, 1, []⟩, ⟨true, cGraphic, gr1, 2, []⟩]
    body := [⟨a_text_style_name, P1, cParagraph⟩, ⟨a_text_style_name, T1, cText⟩, ⟨a_draw_style_name, gr1, cGraphic⟩,
             ⟨a_text_style_name, [83], cParagraph⟩]
    common := [⟨true, cParagraph, [83], 9, []⟩]
    sAuto := [⟨true, cParagraph, P1, 3, [⟨a_style_parent_style_name, [83], cParagraph⟩]⟩, ⟨true, cText, T1, 4, []⟩,
              ⟨true, cGraphic, [70], 5, []⟩]
    master := [⟨a_text_style_name, P1, cParagraph⟩, ⟨a_text_style_name, T1, cText⟩, ⟨a_draw_style_name, [70], cGraphic⟩,
               ⟨a_text_style_name, [83], cParagraph⟩] }

theorem wGood_handled : Handled wGood ∧ ∀ s ∈ [Site.body 0, .body 1, .body 2, .body 3, .master 0, .master 1, .master 2, .master 3],
    HandledSite wGood s := by decide +kernel

/-- the rename really happens there, and the references really resolve (the theorem is not vacuous) -/
theorem wGood_nontrivial :
    (load wGood).fix = [(T1, mName T1), (P1, mName P1)] ∧
    (load wGood).master.map (·.name) = [mName P1, mName T1, [70], [83]] ∧
    (allSites wGood).map (resolveBefore wGood) = [some 0, some 1, some 2, some 9, some 3, some 4, some 5, some 9, some 9] ∧
    (allSites wGood).map (resolveAfter wGood) = [some 0, some 1, some 2, some 9, some 3, some 4, some 5, some 9, some 9] ∧
    (saveLoad wGood).cAuto.map (·.marker) = [0, 1, 2] ∧ (saveLoad wGood).sAuto.map (·.marker) = [3, 4, 5] := by decide +kernel

example : Preserved wGood (.master 0) :=
  resolve_preserved_partial wGood wGood_handled.1 _ (wGood_handled.2 _ (by simp))

/-- each clause of `Handled` is needed: the counter-examples above violate exactly one of them and keep the
    site inside `HandledSite` -/
theorem handled_clauses_needed :
    (¬ Handled (clashPkg false cList L1 a_text_style_name) ∧ HandledSite (clashPkg false cList L1 a_text_style_name) (.master 0)) ∧
    (¬ Handled wMTaken ∧ HandledSite wMTaken (.master 0)) ∧
    (¬ Handled wSamePart ∧ HandledSite wSamePart (.body 0)) ∧
    (Handled (clashPkg true cGraphic gr1 a_draw_style_name) ∧
      ¬ HandledSite (clashPkg true cGraphic gr1 a_draw_style_name) (.master 0) ∧
      HandledSite (clashPkg true cGraphic gr1 a_draw_style_name) (.body 0)) := by decide

/-- in the matrix: for a `style:style` name in both parts, the body cell holds for every single-valued
    schema reference attribute and the master cell holds for `text:style-name` (instances of the theorem) -/
theorem cells_that_hold (cls : Nat) (a : Nat) (ha : a ∈ followedAttrs) :
    Preserved (clashPkg true cls gr1 a) (.body 0) ∧ Preserved (clashPkg true cls gr1 a_text_style_name) (.master 0) := by
  constructor
  · apply resolve_preserved_partial
    · simp [Handled, clashPkg, names, mName, gr1]
    · intro r hr
      simp only [clashPkg, List.getElem?_cons_zero, Option.some.injEq] at hr
      subst hr
      exact ⟨ha, by simp [gr1]⟩
  · apply resolve_preserved_partial
    · simp [Handled, clashPkg, names, mName, gr1]
    · intro r hr
      simp only [clashPkg, List.getElem?_cons_zero, Option.some.injEq] at hr
      subst hr
      exact ⟨⟨(by decide : a_text_style_name ∈ followedAttrs), by simp [gr1]⟩, Or.inl rfl⟩

/-! ### Sessions: embedded objects, several packages in one process (`loadSession`) -/

/-- the property for the document `d` a process holds for the source parts `p` -/
def PreservedDoc (p : Pkg) (d : Doc) (s : Site) : Prop :=
  (∀ m, resolveBefore p s = some m → resolveAt (memPkg d) s = some m) ∧
  (∀ m, resolveBefore p s = some m → (siteRef (save d) s).isSome = true → resolveAt (save d) s = some m)

theorem loadFrom_empty (p : Pkg) : (loadFrom ⟨[], []⟩ p).1 = load p := rfl

theorem preservedDoc_load (p : Pkg) (s : Site) : PreservedDoc p (load p) s ↔ Preserved p s := Iff.rfl

/-- the k-th document of a session is the document a lone `load` of its parts gives -/
theorem loadSession_getElem (ps : List Pkg) (k : Nat) : (loadSession ps)[k]? = ps[k]?.map load := by
  induction ps generalizing k with
  | nil => simp [loadSession]
  | cons p ps ih =>
    cases k with
    | zero => simp [loadSession, loadFrom_empty]
    | succ k => simp [loadSession, ih]

/-- **C11 in a session** (`resolve_preserved_partial` for every document of a process): whatever was loaded
    before — other packages, the parent document of an embedded object, a package whose load failed — the k-th
    (sub)document, if its own parts are in the class `Handled`, keeps every reference of `HandledSite` on the
    definition it had in its own source parts, in memory and in every package saved from it. -/
theorem session_preserved_partial (ps : List Pkg) (k : Nat) (p : Pkg) (d : Doc)
    (hp : ps[k]? = some p) (hd : (loadSession ps)[k]? = some d) (h : Handled p) (s : Site) (hs : HandledSite p s) :
    PreservedDoc p d s := by
  rw [loadSession_getElem, hp] at hd
  simp only [Option.map_some, Option.some.injEq] at hd
  subst hd
  exact (preservedDoc_load p s).mpr (resolve_preserved_partial p h s hs)

/-- an embedded object as an office suite writes it next to `wGood`: its content.xml numbers from `P1` too -/
def wObject : Pkg :=
  { cAuto := [⟨true, cParagraph, P1, 20, []⟩]
    body := [⟨a_text_style_name, P1, cParagraph⟩]
    common := []
    sAuto := [⟨true, cParagraph, mName P1, 21, []⟩]
    master := [⟨a_text_style_name, mName P1, cParagraph⟩] }

/-- **why the rename table must belong to the document**: with one table for the process the body paragraph of
    the object — a package of the class `Handled`, a site of `HandledSite` — follows the rename `P1 -> MP1` of the
    document read before it and lands on the header's definition; with the code's `loadSession` it stays. -/
theorem finding_shared_rename_table :
    Handled wObject ∧ HandledSite wObject (.body 0) ∧
    (loadSessionSharedFix [] [wGood, wObject]).map (fun d => resolveAt (memPkg d) (.body 0)) = [some 0, some 21] ∧
    (loadSessionSharedFix [] [wGood, wObject]).map (fun d => resolveAt (save d) (.body 0)) = [some 0, some 21] ∧
    (loadSession [wGood, wObject]).map (fun d => resolveAt (memPkg d) (.body 0)) = [some 0, some 20] ∧
    (loadSession [wGood, wObject]).map (fun d => resolveAt (save d) (.body 0)) = [some 0, some 20] ∧
    resolveBefore wObject (.body 0) = some 20 := by decide +kernel

example : PreservedDoc wObject ((loadSession [wGood, wObject])[1]) (.body 0) :=
  session_preserved_partial [wGood, wObject] 1 wObject _ rfl rfl finding_shared_rename_table.1 _ finding_shared_rename_table.2.1

end OdfModel.Props.C11

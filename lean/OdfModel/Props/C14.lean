/-
  Property C14 — namespaces keep their identity; output is independent of process history.

  Model: `OdfModel.Ns` (nsdict / Element.namespaces / get_nsprefix / __save_prefix), `OdfModel.Xml` (writer).
  Tie: harness/c14.py — random histories of namespace registrations vs the real table (`drv_xml ns …`), and the
  infoset of a document serialised after a random history vs the same document serialised in a fresh process.
-/
import OdfModel.NsLemmas
import OdfModel.Xml.Compose
namespace OdfModel.Props.C14
open OdfModel OdfModel.Xml OdfModel.Spec OdfModel.Ns

/-- the initial table shipped in odf/namespaces.py is sound: namespaces pairwise distinct, prefixes pairwise
    distinct NCNames, none of them `xmlns` or of the generated form `ns<digits>`, no empty namespace
    (re-checked by the kernel against the regenerated table on every run) -/
theorem init0_ok : Init0OK := by
  unfold Init0OK
  refine ⟨by decide +kernel, by decide +kernel, by decide +kernel⟩

/-- the table invariant holds after EVERY history of `get_nsprefix` calls -/
theorem inv_reachable (nss : List Str) : Inv (run initial nss) :=
  inv_run initial nss (inv_initial init0_ok)

theorem seen_keys_from (st : NsState) (nss : List Str) :
    ∀ e ∈ (run st nss).seen, e ∈ st.seen ∨ e.1 ∈ nss := by
  induction nss generalizing st with
  | nil => intro e he; exact Or.inl he
  | cons ns r ih =>
    intro e he
    rcases ih _ e he with h | h
    · unfold getNsPrefix at h
      by_cases hns : ns.isEmpty = true
      · simp [hns] at h; exact Or.inl h
      · simp only [hns, Bool.false_eq_true, if_false] at h
        split at h
        · exact Or.inl h
        · rcases List.mem_append.mp h with h1 | h1
          · exact Or.inl h1
          · simp at h1; subst h1; exact Or.inr (by simp)
    · exact Or.inr (by simp [h])

/-- **C14 / C01 ("whatever the process has serialised before")**: after every history the table declared on root
    elements is admissible — each prefix bound to exactly one namespace and vice versa, prefixes are NCNames other
    than `xmlns`, and the empty namespace is never bound — provided the namespace names handed to the library are
    strings of real code points. -/
theorem tableOK_reachable (nss : List Str) (h : ∀ ns ∈ nss, StrOK ns) : TableOK (run initial nss).seen := by
  have hinv := inv_reachable nss
  refine ⟨seen_prefs_nodup _ hinv, ?_⟩
  intro e he
  have hs := hinv.shape e (hinv.sub e he)
  refine ⟨hs.2.1, hs.2.2.1, hs.2.2.2, ?_⟩
  rcases seen_keys_from initial nss e he with h0 | h1
  · simp [initial] at h0
  · exact h e.1 h1

/-- each namespace name is declared once (bound to exactly one prefix) -/
theorem one_prefix_per_namespace (nss : List Str) : ((run initial nss).seen.map (·.1)).Nodup :=
  (inv_reachable nss).seenKeys

/-- each prefix is declared once (bound to exactly one namespace) -/
theorem one_namespace_per_prefix (nss : List Str) : ((run initial nss).seen.map (·.2)).Nodup :=
  seen_prefs_nodup _ (inv_reachable nss)

/-- the empty namespace is never bound to a prefix -/
theorem empty_namespace_never_bound (nss : List Str) : ∀ e ∈ (run initial nss).seen, e.1 ≠ [] := by
  intro e he
  have hinv := inv_reachable nss
  exact (hinv.shape e (hinv.sub e he)).2.2.2

/-- unqualified names stay unqualified, whatever the table -/
theorem unqualified_stays_unqualified (tbl : NsTable) (l : Str) : qualify tbl ⟨[], l⟩ = l := by
  simp [qualify, prefixOf]

/-- namespace names survive the filter when they contain no filtered character -/
theorem nsClean_reachable (nss : List Str) (h : ∀ ns ∈ nss, ns.map hu = ns) : NsClean (run initial nss).seen := by
  intro e he
  rcases seen_keys_from initial nss e he with h0 | h1
  · simp [initial] at h0
  · exact h e.1 h1

/-- **C14 (history independence)**: what a tree serialises to, at the infoset level, does not depend on the table —
    hence not on which documents, elements or namespaces the process handled before. -/
theorem history_independent (a b : NsTable) (q : QName) (attrs : List (QName × Str)) (kids : Forest)
    (ha : TableOK a) (hca : NsClean a) (hb : TableOK b) (hcb : NsClean b)
    (hta : TreeOK a (.elem q attrs kids)) (htb : TreeOK b (.elem q attrs kids)) :
    parseDoc (render a (.elem q attrs kids)) = parseDoc (render b (.elem q attrs kids)) := by
  rw [parseDoc_render a q attrs kids ha hca hta, parseDoc_render b q attrs kids hb hcb htb]

/-- the same, spelled out for two process histories -/
theorem history_independent_runs (h1 h2 : List Str) (q : QName) (attrs : List (QName × Str)) (kids : Forest)
    (hs1 : ∀ ns ∈ h1, StrOK ns ∧ ns.map hu = ns) (hs2 : ∀ ns ∈ h2, StrOK ns ∧ ns.map hu = ns)
    (ht1 : TreeOK (run initial h1).seen (.elem q attrs kids)) (ht2 : TreeOK (run initial h2).seen (.elem q attrs kids)) :
    parseDoc (render (run initial h1).seen (.elem q attrs kids)) =
      parseDoc (render (run initial h2).seen (.elem q attrs kids)) :=
  history_independent _ _ q attrs kids
    (tableOK_reachable h1 (fun ns h => (hs1 ns h).1)) (nsClean_reachable h1 (fun ns h => (hs1 ns h).2))
    (tableOK_reachable h2 (fun ns h => (hs2 ns h).1)) (nsClean_reachable h2 (fun ns h => (hs2 ns h).2)) ht1 ht2

/-! #### a binding, once made, is never lost (documents that are alive keep their declarations) -/

theorem lookupNs_append_some {tbl ext : NsTable} {ns p : Str} (h : lookupNs tbl ns = some p) :
    lookupNs (tbl ++ ext) ns = some p := by
  induction tbl with
  | nil => simp [lookupNs] at h
  | cons e r ih =>
    obtain ⟨n, q⟩ := e
    simp only [lookupNs, List.cons_append] at h ⊢
    split
    · rename_i hn; simpa [hn] using h
    · rename_i hn; simp only [hn, if_false] at h; exact ih h

/-- one `get_nsprefix` call keeps every binding of the declaration table -/
theorem binding_persists_step (st : NsState) (x ns p : Str) (h : lookupNs st.seen ns = some p) :
    lookupNs (getNsPrefix st x).1.seen ns = some p := by
  unfold getNsPrefix
  split
  · exact h
  · simp only
    split
    · exact h
    · exact lookupNs_append_some h

/-- **C14 (a namespace that was declared stays declared, under the same prefix)**: whatever the process does to the
    table afterwards — more documents, more foreign namespaces, loading packages — an element built earlier (whose
    qualified name was fixed when it was built) still finds its prefix bound to its namespace on every later root. -/
theorem binding_persists (st : NsState) (hist : List Str) (ns p : Str) (h : lookupNs st.seen ns = some p) :
    lookupNs (run st hist).seen ns = some p := by
  induction hist generalizing st with
  | nil => exact h
  | cons x r ih => exact ih _ (binding_persists_step st x ns p h)

/-- … hence the qualified name an element was given when it was built is the one any later table gives it -/
theorem qualify_persists (st : NsState) (hist : List Str) (q : QName) (p : Str) (h : lookupNs st.seen q.ns = some p) :
    qualify (run st hist).seen q = qualify st.seen q := by
  have h2 := binding_persists st hist q.ns p h
  simp [qualify, prefixOf, h, h2]

/-- the premise is met by a real history: a foreign namespace registered first, then others -/
example : lookupNs (run initial [[117]]).seen [117] = some (NS_PFX ++ dec OdfModel.Generated.nsdict0.length)
    ∧ lookupNs (run (run initial [[117]]) [[118], [119]]).seen [117] = some (NS_PFX ++ dec OdfModel.Generated.nsdict0.length) := by
  constructor <;> decide +kernel

/-! #### prefixes used inside attribute values -/

theorem knownNs_mem {d : NsTable} {p ns : Str} (h : knownNs d p = some ns) : (ns, p) ∈ d := by
  induction d with
  | nil => simp [knownNs] at h
  | cons e r ih =>
    obtain ⟨n, q⟩ := e
    simp only [knownNs] at h
    split at h
    · rename_i hq; cases h; simp [hq]
    · exact List.mem_cons_of_mem _ (ih h)

theorem lookupNs_of_mem_nodup {d : NsTable} (hk : (d.map (·.1)).Nodup) {ns p : Str} (h : (ns, p) ∈ d) :
    lookupNs d ns = some p := by
  induction d with
  | nil => cases h
  | cons e r ih =>
    obtain ⟨n, q⟩ := e
    simp only [List.map_cons, List.nodup_cons] at hk
    simp only [lookupNs]
    rcases List.mem_cons.mp h with heq | hmem
    · cases heq; simp
    · have : n ≠ ns := by
        intro hn; subst hn
        exact hk.1 (List.mem_map.mpr ⟨(n, p), hmem, rfl⟩)
      simp only [this, if_false]
      exact ih hk.2 hmem

/-- **C14 (prefix inside an attribute value)**: when a formula / namespaced-token value starts with a prefix the
    library knows, that prefix is declared on every root written afterwards and is bound to the namespace the
    library associates with it. -/
theorem value_prefix_declared (st : NsState) (hinv : Inv st) (p rest ns : Str) (hp : 58 ∉ p)
    (hk : knownNs st.nsdict p = some ns) : (ns, p) ∈ (savePrefix st (p ++ 58 :: rest)).seen := by
  have htw : (p ++ 58 :: rest).takeWhile (· != 58) = p := (takeWhile_ne58 p rest hp).1
  have hne : p ≠ p ++ 58 :: rest := by
    intro h
    have := congrArg List.length h
    simp at this
  have hmem := knownNs_mem hk
  have hl := lookupNs_of_mem_nodup hinv.keys hmem
  have hnsne : ns ≠ [] := (hinv.shape _ hmem).2.2.2
  have hnse : ns.isEmpty = false := by cases ns <;> simp_all
  simp only [savePrefix, htw, hne, if_false, hk, getNsPrefix, hnse, Bool.false_eq_true, nsAssign, hl]
  split
  · rename_i hs
    -- already declared: the entry for `ns` in `seen` is an entry of `nsdict`, hence carries prefix `p`
    cases hls : lookupNs st.seen ns with
    | none => rw [hls] at hs; cases hs
    | some p' =>
      have h1 := lookupNs_mem hls
      have h2 := lookupNs_of_mem_nodup hinv.keys (hinv.sub _ h1)
      rw [hl] at h2; cases h2; exact h1
  · simp

/-- **known finding (value prefix unknown to the library)**, as a theorem about the model: when the prefix is not in
    `nsdict` (e.g. `msoxl:` in formulas written by other applications) nothing is registered, so the value's prefix is
    not declared on output. -/
theorem finding_value_prefix_unknown (st : NsState) (v : Str)
    (hk : knownNs st.nsdict (v.takeWhile (· != 58)) = none) : savePrefix st v = st := by
  simp only [savePrefix, hk]
  split <;> rfl

/-- `__save_prefix` keeps the table invariant: it is the identity or one `get_nsprefix` call -/
theorem inv_savePrefix (st : NsState) (v : Str) (h : Inv st) : Inv (savePrefix st v) := by
  simp only [savePrefix]
  split
  · exact h
  · split
    · exact h
    · exact inv_step st _ h

/-- **C14 (prefix inside an attribute value, for all histories before and after)**: whatever the process did before
    (`pre`: any history of namespace registrations from the initial table - other documents, loads, foreign namespaces)
    and whatever it does afterwards (`post`), once an attribute whose datatype carries a prefixed value (formula,
    namespaced token, script language / event name - every attribute the converters route through `__save_prefix`) has
    been given a value that starts with a prefix `nsdict` knows, every root written later declares that prefix and
    binds it to the namespace `nsdict` associates with it. -/
theorem value_prefix_declared_all_histories (pre post : List Str) (p rest ns : Str) (hp : 58 ∉ p)
    (hk : knownNs (run initial pre).nsdict p = some ns) :
    lookupNs (run (savePrefix (run initial pre) (p ++ 58 :: rest)) post).seen ns = some p := by
  have hinv := inv_reachable pre
  have hmem := value_prefix_declared (run initial pre) hinv p rest ns hp hk
  have hinv2 := inv_savePrefix (run initial pre) (p ++ 58 :: rest) hinv
  exact binding_persists _ post ns p (lookupNs_of_mem_nodup hinv2.seenKeys hmem)

/-- ... and the attribute's own namespace, registered by `setAttrNS` just before the converter runs, does not disturb
    it: the state the harness observes after `setAttrNS(ans, local, p:rest)` on a fresh element is
    `savePrefix (run st [ans]) value`, and the value's prefix is declared there. -/
theorem value_prefix_declared_after_setAttrNS (pre : List Str) (ans p rest ns : Str) (hp : 58 ∉ p)
    (hk : knownNs (run initial (pre ++ [ans])).nsdict p = some ns) :
    (ns, p) ∈ (savePrefix (run initial (pre ++ [ans])) (p ++ 58 :: rest)).seen :=
  value_prefix_declared _ (inv_reachable (pre ++ [ans])) p rest ns hp hk

end OdfModel.Props.C14

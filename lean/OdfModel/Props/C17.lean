/-
  Property C17 — the whitespace helper round-trips every string.
  Theorems about `OdfModel.Teletype`; tied to odf/teletype.py by the correspondence run
  of `harness/c17.py` (same strings through `addTextToElement`/`extractText` and through
  `enc`/`extractL`).
-/
import OdfModel.Teletype
namespace OdfModel.Props.C17
open OdfModel OdfModel.Teletype

theorem extractL_flush (buf : Str) : extractL (flush buf) = buf := by
  unfold flush
  cases buf <;> simp [extractL, extract]

@[simp] theorem extractL_cons (a : TNode) (b : List TNode) :
    extractL (a :: b) = extract a ++ extractL b := by simp [extractL]

@[simp] theorem extractL_nil : extractL [] = [] := by simp [extractL]

theorem extractL_append (a b : List TNode) : extractL (a ++ b) = extractL a ++ extractL b := by
  induction a with
  | nil => simp
  | cons x xs ih => simp [ih]

theorem takeWhile_spaces (r : Str) :
    r.takeWhile (· = SP) = List.replicate (r.takeWhile (· = SP)).length SP := by
  induction r with
  | nil => simp
  | cons c r ih =>
    by_cases h : c = SP
    · subst h; simp [List.replicate_succ]; exact ih
    · simp [h]

/-- **C17 (direct round trip)**: for every string, with any pending text buffer. -/
theorem roundtrip_buf (buf s : Str) : extractL (enc buf s) = buf ++ s := by
  fun_induction enc buf s with
  | case1 buf => simp [extractL_flush]
  | case2 buf r ih => simp [extractL_append, extractL_flush, ih, extract]
  | case3 buf r _ ih => simp [extractL_append, extractL_flush, ih, extract]
  | case4 buf r _ _ n hn ih =>
    simp only [extractL_append, extractL_flush, ih, extractL_cons, extract]
    simp
    have h1 := takeWhile_spaces r
    have h2 := List.takeWhile_append_dropWhile (p := fun x => decide (x = SP)) (l := r)
    rw [← h1]; exact h2
  | case5 buf r _ _ n hn ih => simp [ih]
  | case6 buf c r _ _ _ ih => simp [ih]

/-- **C17**: `extractText(addTextToElement(empty, s)) = s` for every string `s`. -/
theorem roundtrip (s : Str) : extractL (enc [] s) = s := by
  simpa using roundtrip_buf [] s

/-- **C17 (appending to an element that already has content)** -/
theorem roundtrip_append (kids : List TNode) (s : Str) :
    extractL (kids ++ enc [] s) = extractL kids ++ s := by
  rw [extractL_append, roundtrip]


/-! ### The inserted nodes never hold raw whitespace -/

/-- no literal TAB or LF, and no two adjacent literal blanks -/
def CleanStr : Str → Bool
  | [] => true
  | [c] => c != TAB && c != LF
  | c :: d :: r => c != TAB && c != LF && !(c == SP && d == SP) && CleanStr (d :: r)

def CleanNode : TNode → Bool
  | .text s => CleanStr s && !s.isEmpty
  | .sp n => n ≥ 1
  | .tab => true
  | .lb => true
  | _ => false     -- `enc` never produces CDATA, a count-less <text:s/> or other elements

theorem cleanStr_snoc (buf : Str) (c : Cp) (hb : CleanStr buf = true)
    (h1 : c ≠ TAB) (h2 : c ≠ LF) (h3 : c = SP → buf.getLast? ≠ some SP) :
    CleanStr (buf ++ [c]) = true := by
  induction buf with
  | nil => simp [CleanStr, h1, h2]
  | cons a r ih =>
    cases r with
    | nil =>
      simp [CleanStr] at hb ⊢
      refine ⟨⟨⟨hb.1, hb.2⟩, ?_⟩, h1, h2⟩
      by_cases hc : c = SP
      · left; intro ha; exact h3 hc (by simp [ha])
      · right; exact hc
    | cons b r' =>
      simp only [List.cons_append, CleanStr, Bool.and_eq_true] at hb ⊢
      refine ⟨hb.1, ?_⟩
      apply ih hb.2
      intro hc
      have := h3 hc
      simpa [List.getLast?_cons_cons] using this

theorem all_flush (buf : Str) (hb : CleanStr buf = true) :
    (flush buf).all CleanNode = true := by
  unfold flush
  cases buf <;> simp_all [CleanNode]

/-- invariant of the loop: the buffer is clean, and if it ends in a blank the next input
    character is not a blank (the blank-run branch consumed the whole run) -/
theorem clean_buf (buf s : Str) (hb : CleanStr buf = true)
    (hs : buf.getLast? = some SP → s.head? ≠ some SP) :
    (enc buf s).all CleanNode = true := by
  fun_induction enc buf s with
  | case1 buf => exact all_flush buf hb
  | case2 buf r ih =>
    simp only [List.all_append, Bool.and_eq_true]
    exact ⟨⟨all_flush buf hb, by simp [CleanNode]⟩, ih (by simp [CleanStr]) (by simp)⟩
  | case3 buf r _ ih =>
    simp only [List.all_append, Bool.and_eq_true]
    exact ⟨⟨all_flush buf hb, by simp [CleanNode]⟩, ih (by simp [CleanStr]) (by simp)⟩
  | case4 buf r _ _ n hn ih =>
    simp only [List.all_append, Bool.and_eq_true]
    refine ⟨⟨all_flush _ ?_, by simp [CleanNode]; omega⟩, ih (by simp [CleanStr]) (by simp)⟩
    apply cleanStr_snoc buf SP hb (by decide) (by decide)
    intro _ h; exact hs h (by simp)
  | case5 buf r _ _ n hn ih =>
    apply ih
    · apply cleanStr_snoc buf SP hb (by decide) (by decide)
      intro _ h; exact hs h (by simp)
    · intro _
      have hn0 : (List.takeWhile (fun x => decide (x = SP)) r).length = 0 := by omega
      cases r with
      | nil => simp
      | cons d r' =>
        by_cases hd : d = SP
        · simp [hd] at hn0
        · simp [hd]
  | case6 buf c r h1 h2 h3 ih =>
    apply ih
    · exact cleanStr_snoc buf c hb h1 h2 (fun h => absurd h h3)
    · simp [h3]

/-- **C17 (no raw whitespace)**: every node inserted by one call is a non-empty text node
    without TAB, LF or two adjacent blanks, a `<text:s>` with count ≥ 1, a `<text:tab>` or a
    `<text:line-break>`. -/
theorem no_raw_whitespace (s : Str) : (enc [] s).all CleanNode = true :=
  clean_buf [] s (by simp [CleanStr]) (by simp)

/-! ### After save and load -/

theorem extractL_mergeText (l : List TNode) : extractL (mergeText l) = extractL l := by
  fun_induction mergeText l with
  | case1 a b r ih => simp [ih, extract]
  | case2 ks r ih => simp [ih]
  | case3 x r _ _ ih => simp [ih]
  | case4 => rfl

/-- **C17 (after save/load)**: merging adjacent text nodes — which is all a save/load cycle
    does to the inserted children besides the character replacement of C02 — does not change
    what `extractText` returns. -/
theorem roundtrip_after_merge (kids : List TNode) (s : Str) :
    extractL (mergeText (kids ++ enc [] s)) = extractL kids ++ s := by
  rw [extractL_mergeText, roundtrip_append]

end OdfModel.Props.C17

/-
  Property C03 — a saved package is a conforming ODF zip container with a truthful manifest.
  Theorems about `OdfModel.Pkg.save` (model of `__zipwrite`, `_saveXmlObjects`, `_savePictures`, `_allExtras`) and
  `OdfModel.Pkg.load`; tied to odf/opendocument.py by the correspondence run of harness/c03.py.
  Code as of fix 0372084: every sub-document is stored under its `folder` attribute.

  Main theorems (all for object trees of any nesting depth, by mutual induction over Doc / List Doc):
    mimetype_first              first entry = ("mimetype", stored, no extra, utf8 of the media type)
    required_members            content.xml, styles.xml, meta.xml, META-INF/manifest.xml are members
    manifest_exact_ordered      member names = mimetype :: (paths of the manifest's file entries, same order) ++ [manifest]
    manifest_exact              … hence a permutation of the names minus mimetype and the manifest (multiset)
    folder_entries              which entries are folder entries: "/", every object folder, "Thumbnails/", None-extras
    root_and_object_mediatypes  "/" carries the document's media type, every object folder its object's
    parts_present               every object's styles/content/(settings).xml under its folder, holding its own part
    pictures_present            every registered picture under folder ++ href, stored, its bytes, its media type
    extras_present              every extra of every object under folder ++ name, its bytes, its media type
    thumbnail_present           the thumbnail member with its bytes, listed with the media type the document carries for it
    manifest_nodup    [DocOK]   no manifest path twice (exactly one root entry)
    names_nodup       [DocOK]   no member name twice
    folder_iff_slash  [DocOK, plainHrefs]   the folder entries are exactly the manifest paths ending in "/"
    register_nodup              the registry is a dict: hrefs pairwise distinct by construction
    load_docOK                  every document built by `load`, from ANY package (nested objects, any numbering/order), satisfies DocOK
    loaded_saves_clean          … hence no member name and no manifest path twice after load + save
-/
import OdfModel.Pkg
namespace OdfModel.Props.C03
open OdfModel OdfModel.Pkg

/-! ### vocabulary -/

/-- member names of the archive, in order -/
def names (o : Out) : List Str := o.zip.map (·.name)
/-- the manifest entries that describe a file (not tagged as folder entry), in order -/
def fileEntries (o : Out) : List ME := o.man.filter (fun e => !e.isFolder)
/-- the manifest entries that describe a folder, in order -/
def folderEntries (o : Out) : List ME := o.man.filter (fun e => e.isFolder)
def filePaths (o : Out) : List Str := (fileEntries o).map (·.path)
/-- all manifest paths, in order -/
def paths (o : Out) : List Str := o.man.map (·.path)

@[simp] theorem names_append (a b : Out) : names (a ++ b) = names a ++ names b := by simp [names]
@[simp] theorem filePaths_append (a b : Out) : filePaths (a ++ b) = filePaths a ++ filePaths b := by
  simp [filePaths, fileEntries]
@[simp] theorem folderEntries_append (a b : Out) :
    folderEntries (a ++ b) = folderEntries a ++ folderEntries b := by simp [folderEntries]
@[simp] theorem paths_append (a b : Out) : paths (a ++ b) = paths a ++ paths b := by simp [paths]
@[simp] theorem names_empty : names Out.empty = [] := rfl
@[simp] theorem filePaths_empty : filePaths Out.empty = [] := rfl
@[simp] theorem folderEntries_empty : folderEntries Out.empty = [] := rfl
@[simp] theorem paths_empty : paths Out.empty = [] := rfl
@[simp] theorem names_emFile (n : Str) (m : Method) (c : Content) (t : Str) : names (emFile n m c t) = [n] := rfl
@[simp] theorem filePaths_emFile (n : Str) (m : Method) (c : Content) (t : Str) :
    filePaths (emFile n m c t) = [n] := rfl
@[simp] theorem paths_emFile (n : Str) (m : Method) (c : Content) (t : Str) : paths (emFile n m c t) = [n] := rfl
@[simp] theorem folderEntries_emFile (n : Str) (m : Method) (c : Content) (t : Str) :
    folderEntries (emFile n m c t) = [] := rfl
@[simp] theorem names_emM (e : ME) : names (emM e) = [] := rfl
@[simp] theorem paths_emM (e : ME) : paths (emM e) = [e.path] := rfl
@[simp] theorem names_emZ (e : ZE) : names (emZ e) = [e.name] := rfl
@[simp] theorem filePaths_emZ (e : ZE) : filePaths (emZ e) = [] := rfl
@[simp] theorem paths_emZ (e : ZE) : paths (emZ e) = [] := rfl
@[simp] theorem folderEntries_emZ (e : ZE) : folderEntries (emZ e) = [] := rfl
@[simp] theorem filePaths_emM_folder (p t : Str) : filePaths (emM ⟨p, t, true⟩) = [] := rfl
@[simp] theorem folderEntries_emM_folder (p t : Str) :
    folderEntries (emM ⟨p, t, true⟩) = [⟨p, t, true⟩] := rfl
@[simp] theorem names_xmlPart (F : Str) (k : PartKind) (n : Str) (i : Nat) : names (xmlPart F k n i) = [F ++ n] := rfl
@[simp] theorem filePaths_xmlPart (F : Str) (k : PartKind) (n : Str) (i : Nat) :
    filePaths (xmlPart F k n i) = [F ++ n] := rfl
@[simp] theorem paths_xmlPart (F : Str) (k : PartKind) (n : Str) (i : Nat) : paths (xmlPart F k n i) = [F ++ n] := rfl
@[simp] theorem folderEntries_xmlPart (F : Str) (k : PartKind) (n : Str) (i : Nat) :
    folderEntries (xmlPart F k n i) = [] := rfl

/-! ### first entry, required members -/

/-- **C03 (first entry)**: the first zip entry is `mimetype`, stored, without extra field, and its
    bytes are the UTF-8 encoding of the document's media type. -/
theorem mimetype_first (d : Doc) :
    (save d).zip.head? = some ⟨sMimetype, .stored, [], .bytes (utf8 d.mimetype)⟩ := by
  simp [save]

/-- **C03 (required members)**: content.xml, styles.xml, meta.xml and META-INF/manifest.xml are
    members of every saved package. -/
theorem required_members (d : Doc) :
    sContent ∈ names (save d) ∧ sStyles ∈ names (save d) ∧ sMeta ∈ names (save d)
      ∧ sManifestPath ∈ names (save d) := by
  cases d with
  | mk id mt hs pics th ex fo kids => simp [save, saveXml]

/-! ### the manifest lists exactly the files of the archive -/

mutual
theorem balanced_saveXml (L : Nat) (top : Bool) (F : Str) (d : Doc) :
    names (saveXml L top F d) = filePaths (saveXml L top F d) := by
  cases d with
  | mk id mt hs pics th ex fo kids =>
    have ih := balanced_saveXmlKids L kids
    cases hs <;> cases top <;> simp [saveXml, ih]
theorem balanced_saveXmlKids (L : Nat) (ds : List Doc) :
    names (saveXmlKids L ds) = filePaths (saveXmlKids L ds) := by
  cases ds with
  | nil => simp [saveXmlKids]
  | cons c cs =>
    simp [saveXmlKids, balanced_saveXml L false (stor L c) c, balanced_saveXmlKids L cs]
end

theorem balanced_picsOut (F : Str) (ps : List Pic) : names (picsOut F ps) = filePaths (picsOut F ps) := by
  induction ps with
  | nil => simp [picsOut]
  | cons p ps ih => simp [picsOut, picOut, ih]

mutual
theorem balanced_savePics (L : Nat) (F : Str) (d : Doc) : names (savePics L F d) = filePaths (savePics L F d) := by
  cases d with
  | mk id mt hs pics th ex fo kids =>
    simp [savePics, balanced_picsOut, balanced_savePicsKids L kids]
theorem balanced_savePicsKids (L : Nat) (ds : List Doc) :
    names (savePicsKids L ds) = filePaths (savePicsKids L ds) := by
  cases ds with
  | nil => simp [savePicsKids]
  | cons c cs =>
    simp [savePicsKids, balanced_savePics L (stor L c) c, balanced_savePicsKids L cs]
end

theorem balanced_thumbOut (t : Option Thumb) : names (thumbOut t) = filePaths (thumbOut t) := by
  cases t <;> simp [thumbOut]

theorem balanced_extrasOut (F : Str) (es : List Extra) : names (extrasOut F es) = filePaths (extrasOut F es) := by
  induction es with
  | nil => simp [extrasOut]
  | cons e es ih =>
    simp only [extrasOut, names_append, filePaths_append, ih]
    congr 1
    unfold extraOut
    split
    · rfl
    · cases e.content <;> simp

mutual
theorem balanced_saveExtras (L : Nat) (F : Str) (d : Doc) :
    names (saveExtras L F d) = filePaths (saveExtras L F d) := by
  cases d with
  | mk id mt hs pics th ex fo kids =>
    simp [saveExtras, balanced_extrasOut, balanced_saveExtrasKids L kids]
theorem balanced_saveExtrasKids (L : Nat) (ds : List Doc) :
    names (saveExtrasKids L ds) = filePaths (saveExtrasKids L ds) := by
  cases ds with
  | nil => simp [saveExtrasKids]
  | cons c cs =>
    simp [saveExtrasKids, balanced_saveExtras L (stor L c) c, balanced_saveExtrasKids L cs]
end

/-- **C03 (manifest exactness, ordered form)**: the member names of the archive are `mimetype`, then
    exactly the paths of the manifest's file entries *in the same order*, then `META-INF/manifest.xml`.
    No omission, no extra, each file under the path where its bytes are. -/
theorem manifest_exact_ordered (d : Doc) :
    names (save d) = sMimetype :: (filePaths (save d) ++ [sManifestPath]) := by
  simp [save, balanced_saveXml, balanced_savePics, balanced_thumbOut, balanced_saveExtras]

/-- **C03 (manifest exactness)**: the paths of the manifest's file entries are a permutation of the
    archive's member names minus one `mimetype` and one `META-INF/manifest.xml` (multiset
    difference, so a duplicated name could not hide). -/
theorem manifest_exact (d : Doc) :
    (filePaths (save d)).Perm (((names (save d)).erase sMimetype).erase sManifestPath) := by
  rw [manifest_exact_ordered]
  simp only [List.erase_cons_head]
  have h1 : (filePaths (save d) ++ [sManifestPath]).Perm
      (sManifestPath :: (filePaths (save d) ++ [sManifestPath]).erase sManifestPath) :=
    List.perm_cons_erase (by simp)
  have h2 : (filePaths (save d) ++ [sManifestPath]).Perm (sManifestPath :: filePaths (save d)) :=
    List.perm_append_comm
  exact (List.Perm.cons_inv (h2.symm.trans h1))

/-! ### which manifest entries are folder entries -/

mutual
/-- the folder entries `_saveXmlObjects` produces for the sub-documents of a document -/
def objFolderEntries (L : Nat) : List Doc → List ME
  | [] => []
  | c :: cs => objFolderEntries1 L (stor L c) c ++ objFolderEntries L cs
def objFolderEntries1 (L : Nat) (F : Str) : Doc → List ME
  | ⟨_, mt, _, _, _, _, _, kids⟩ => ⟨F, mt, true⟩ :: objFolderEntries L kids
end

def thumbFolderEntries : Option Thumb → List ME
  | none => []
  | some _ => [⟨sThumbDir, [], true⟩]

/-- the extras of one document that are written without a member -/
def extraFolderEntries (F : Str) (es : List Extra) : List ME :=
  (es.filter (fun e => e.filename ≠ sDocSig ∧ e.content.isNone)).map (fun e => ⟨F ++ e.filename, e.mediatype, true⟩)

mutual
/-- … of a document and all its sub-documents, in `_allExtras` order -/
def treeExtraFolderEntries (L : Nat) (F : Str) : Doc → List ME
  | ⟨_, _, _, _, _, ex, _, kids⟩ => extraFolderEntries F ex ++ treeExtraFolderEntriesK L kids
def treeExtraFolderEntriesK (L : Nat) : List Doc → List ME
  | [] => []
  | c :: cs => treeExtraFolderEntries L (stor L c) c ++ treeExtraFolderEntriesK L cs
end

mutual
theorem folderEntries_saveXmlKids (L : Nat) (ds : List Doc) :
    folderEntries (saveXmlKids L ds) = objFolderEntries L ds := by
  cases ds with
  | nil => simp [saveXmlKids, objFolderEntries]
  | cons c cs =>
    simp [saveXmlKids, objFolderEntries, folderEntries_saveXml_sub L (stor L c) c,
      folderEntries_saveXmlKids L cs]
theorem folderEntries_saveXml_sub (L : Nat) (F : Str) (d : Doc) :
    folderEntries (saveXml L false F d) = objFolderEntries1 L F d := by
  cases d with
  | mk id mt hs pics th ex fo kids =>
    cases hs <;> simp [saveXml, objFolderEntries1, folderEntries_saveXmlKids L kids]
end

theorem folderEntries_picsOut (F : Str) (ps : List Pic) : folderEntries (picsOut F ps) = [] := by
  induction ps with
  | nil => simp [picsOut]
  | cons p ps ih => simp [picsOut, picOut, ih]

mutual
theorem folderEntries_savePics (L : Nat) (F : Str) (d : Doc) : folderEntries (savePics L F d) = [] := by
  cases d with
  | mk id mt hs pics th ex fo kids =>
    simp [savePics, folderEntries_picsOut, folderEntries_savePicsKids L kids]
theorem folderEntries_savePicsKids (L : Nat) (ds : List Doc) :
    folderEntries (savePicsKids L ds) = [] := by
  cases ds with
  | nil => simp [savePicsKids]
  | cons c cs =>
    simp [savePicsKids, folderEntries_savePics L (stor L c) c, folderEntries_savePicsKids L cs]
end

theorem folderEntries_extrasOut (F : Str) (es : List Extra) :
    folderEntries (extrasOut F es) = extraFolderEntries F es := by
  induction es with
  | nil => simp [extrasOut, extraFolderEntries]
  | cons e es ih =>
    simp only [extrasOut, folderEntries_append, ih]
    unfold extraOut extraFolderEntries
    by_cases h : e.filename = sDocSig
    · simp [h]
    · cases hc : e.content <;> simp [h, hc]

mutual
theorem folderEntries_saveExtras (L : Nat) (F : Str) (d : Doc) :
    folderEntries (saveExtras L F d) = treeExtraFolderEntries L F d := by
  cases d with
  | mk id mt hs pics th ex fo kids =>
    simp [saveExtras, treeExtraFolderEntries, folderEntries_extrasOut, folderEntries_saveExtrasKids L kids]
theorem folderEntries_saveExtrasKids (L : Nat) (ds : List Doc) :
    folderEntries (saveExtrasKids L ds) = treeExtraFolderEntriesK L ds := by
  cases ds with
  | nil => simp [saveExtrasKids, treeExtraFolderEntriesK]
  | cons c cs =>
    simp [saveExtrasKids, treeExtraFolderEntriesK, folderEntries_saveExtras L (stor L c) c,
      folderEntries_saveExtrasKids L cs]
end

/-- **C03 (which manifest entries are folder entries)**: the entries written without a member are, in
    this order: the root "/" with the document's media type; one entry per embedded object, its path
    the folder the object is stored in (`stor`: its `folder` attribute relative to the saved document,
    plus "/") and its media type the object's; "Thumbnails/" if there is a thumbnail; the extras
    (of the document and of every sub-document, below its folder) whose content is None.  Everything
    else in the manifest is a file entry and is covered by `manifest_exact`. -/
theorem folder_entries (d : Doc) :
    folderEntries (save d) =
      ⟨sSlash, d.mimetype, true⟩ :: objFolderEntries d.folder.length d.children
        ++ thumbFolderEntries d.thumbnail ++ treeExtraFolderEntries d.folder.length [] d := by
  cases d with
  | mk id mt hs pics th ex fo kids =>
    have hth : folderEntries (thumbOut th) = thumbFolderEntries th := by
      cases th <;> simp [thumbOut, thumbFolderEntries]
    cases hs <;>
      simp [save, saveXml, folderEntries_saveXmlKids, folderEntries_savePics, folderEntries_saveExtras, hth]

/-! ### every object of the tree, at any depth: media type, parts, pictures, extras -/

/-- the members `_saveXmlObjects` writes for one object stored in folder `G` -/
def ownXmlZ (G : Str) (o : Doc) : List ZE :=
  [⟨G ++ sStyles, .deflated, [], .part .styles o.id⟩, ⟨G ++ sContent, .deflated, [], .part .content o.id⟩]
  ++ (if o.hasSettings then [⟨G ++ sSettings, .deflated, [], .part .settings o.id⟩] else [])
/-- … and their manifest entries -/
def ownXmlM (G : Str) (o : Doc) : List ME :=
  [⟨G ++ sStyles, sTextXml, false⟩, ⟨G ++ sContent, sTextXml, false⟩]
  ++ (if o.hasSettings then [⟨G ++ sSettings, sTextXml, false⟩] else [])

mutual
theorem xml_sub (L : Nat) (top : Bool) (F : Str) (d : Doc) :
    ∀ p ∈ objects L F d, (∀ e ∈ ownXmlZ p.1 p.2, e ∈ (saveXml L top F d).zip)
      ∧ (∀ e ∈ ownXmlM p.1 p.2, e ∈ (saveXml L top F d).man) := by
  cases d with
  | mk id mt hs pics th ex fo kids =>
    intro p hp
    simp only [objects, List.mem_cons] at hp
    rcases hp with hp | hp
    · subst hp
      cases hs <;> cases top <;> simp [ownXmlZ, ownXmlM, saveXml, xmlPart]
    · have := xml_subK L kids p hp
      constructor
      · intro e he; simp [saveXml, this.1 e he]
      · intro e he; simp [saveXml, this.2.1 e he]
theorem xml_subK (L : Nat) (ds : List Doc) :
    ∀ p ∈ objectsK L ds, (∀ e ∈ ownXmlZ p.1 p.2, e ∈ (saveXmlKids L ds).zip)
      ∧ (∀ e ∈ ownXmlM p.1 p.2, e ∈ (saveXmlKids L ds).man)
      ∧ ⟨p.1, p.2.mimetype, true⟩ ∈ (saveXmlKids L ds).man := by
  cases ds with
  | nil => simp [objectsK]
  | cons c cs =>
    intro p hp
    simp only [objectsK, List.mem_append] at hp
    rcases hp with hp | hp
    · have h1 := xml_sub L false (stor L c) c p hp
      refine ⟨fun e he => by simp [saveXmlKids, h1.1 e he], fun e he => by simp [saveXmlKids, h1.2 e he], ?_⟩
      cases c with
      | mk id mt hs pics th ex fo kids =>
        simp only [objects, List.mem_cons] at hp
        rcases hp with hp | hp
        · subst hp; simp [saveXmlKids, saveXml]
        · have := (xml_subK L kids p hp).2.2
          simp [saveXmlKids, saveXml, this]
    · have h2 := xml_subK L cs p hp
      exact ⟨fun e he => by simp [saveXmlKids, h2.1 e he], fun e he => by simp [saveXmlKids, h2.2.1 e he],
        by simp [saveXmlKids, h2.2.2]⟩
end

theorem pics_mem (F : Str) (ps : List Pic) : ∀ pic ∈ ps,
    (⟨F ++ pic.href, .stored, [], picContent pic.src⟩ : ZE) ∈ (picsOut F ps).zip
      ∧ (⟨F ++ pic.href, pic.mediatype, false⟩ : ME) ∈ (picsOut F ps).man := by
  induction ps with
  | nil => simp
  | cons q qs ih =>
    intro pic hp
    simp only [List.mem_cons] at hp
    rcases hp with hp | hp
    · subst hp; simp [picsOut, picOut]
    · have := ih pic hp; simp [picsOut, this.1, this.2]

mutual
theorem pics_sub (L : Nat) (F : Str) (d : Doc) :
    ∀ p ∈ objects L F d, ∀ pic ∈ p.2.pictures,
      (⟨p.1 ++ pic.href, .stored, [], picContent pic.src⟩ : ZE) ∈ (savePics L F d).zip
        ∧ (⟨p.1 ++ pic.href, pic.mediatype, false⟩ : ME) ∈ (savePics L F d).man := by
  cases d with
  | mk id mt hs pics th ex fo kids =>
    intro p hp pic hpic
    simp only [objects, List.mem_cons] at hp
    rcases hp with hp | hp
    · subst hp
      have := pics_mem F pics pic hpic
      simp [savePics, this.1, this.2]
    · have := pics_subK L kids p hp pic hpic
      simp [savePics, this.1, this.2]
theorem pics_subK (L : Nat) (ds : List Doc) :
    ∀ p ∈ objectsK L ds, ∀ pic ∈ p.2.pictures,
      (⟨p.1 ++ pic.href, .stored, [], picContent pic.src⟩ : ZE) ∈ (savePicsKids L ds).zip
        ∧ (⟨p.1 ++ pic.href, pic.mediatype, false⟩ : ME) ∈ (savePicsKids L ds).man := by
  cases ds with
  | nil => simp [objectsK]
  | cons c cs =>
    intro p hp pic hpic
    simp only [objectsK, List.mem_append] at hp
    rcases hp with hp | hp
    · have := pics_sub L (stor L c) c p hp pic hpic
      simp [savePicsKids, this.1, this.2]
    · have := pics_subK L cs p hp pic hpic
      simp [savePicsKids, this.1, this.2]
end

/-- what `save` writes for one extra `x` of an object stored in `F`: a manifest entry with its media type
    under `F ++ name` and, if it has content, the member with exactly these bytes -/
def ExtraWritten (o : Out) (F : Str) (x : Extra) : Prop :=
  (∃ fl, (⟨F ++ x.filename, x.mediatype, fl⟩ : ME) ∈ o.man) ∧
  (∀ b, x.content = some b → (⟨F ++ x.filename, .deflated, [], .bytes b⟩ : ZE) ∈ o.zip)

theorem ExtraWritten.left {a b : Out} {F : Str} {x : Extra} (h : ExtraWritten a F x) : ExtraWritten (a ++ b) F x := by
  obtain ⟨⟨fl, h1⟩, h2⟩ := h
  exact ⟨⟨fl, by simp [h1]⟩, fun c hc => by simp [h2 c hc]⟩

theorem ExtraWritten.right {a b : Out} {F : Str} {x : Extra} (h : ExtraWritten b F x) : ExtraWritten (a ++ b) F x := by
  obtain ⟨⟨fl, h1⟩, h2⟩ := h
  exact ⟨⟨fl, by simp [h1]⟩, fun c hc => by simp [h2 c hc]⟩

theorem extras_mem (F : Str) (es : List Extra) (x : Extra) (hx : x ∈ es) (hs : x.filename ≠ sDocSig) :
    ExtraWritten (extrasOut F es) F x := by
  induction es with
  | nil => cases hx
  | cons e es ih =>
    simp only [extrasOut]
    rcases List.mem_cons.mp hx with rfl | hx'
    · apply ExtraWritten.left
      unfold extraOut
      simp only [hs, if_false]
      cases hc : x.content with
      | none => exact ⟨⟨true, by simp⟩, fun b hb => by rw [hc] at hb; cases hb⟩
      | some b0 => exact ⟨⟨false, by simp⟩, fun b hb => by rw [hc] at hb; cases hb; simp⟩
    · exact ExtraWritten.right (ih hx')

mutual
theorem extras_sub (L : Nat) (F : Str) (d : Doc) :
    ∀ p ∈ objects L F d, ∀ x ∈ p.2.extras, x.filename ≠ sDocSig → ExtraWritten (saveExtras L F d) p.1 x := by
  cases d with
  | mk id mt hs pics th ex fo kids =>
    intro p hp x hx hs'
    simp only [objects, List.mem_cons] at hp
    simp only [saveExtras]
    rcases hp with hp | hp
    · subst hp
      exact ExtraWritten.left (extras_mem F ex x hx hs')
    · exact ExtraWritten.right (extras_subK L kids p hp x hx hs')
theorem extras_subK (L : Nat) (ds : List Doc) :
    ∀ p ∈ objectsK L ds, ∀ x ∈ p.2.extras, x.filename ≠ sDocSig → ExtraWritten (saveExtrasKids L ds) p.1 x := by
  cases ds with
  | nil => simp [objectsK]
  | cons c cs =>
    intro p hp x hx hs'
    simp only [objectsK, List.mem_append] at hp
    simp only [saveExtrasKids]
    rcases hp with hp | hp
    · exact ExtraWritten.left (extras_sub L (stor L c) c p hp x hx hs')
    · exact ExtraWritten.right (extras_subK L cs p hp x hx hs')
end

/-- **C03 (media types of the root and of every object folder)**: the manifest entry "/" carries the
    document's media type, and for every embedded object `o`, at any nesting depth, stored in folder `G`,
    the manifest has the folder entry `G` with `o`'s media type. -/
theorem root_and_object_mediatypes (d : Doc) :
    (⟨sSlash, d.mimetype, true⟩ : ME) ∈ (save d).man ∧
    ∀ p ∈ objectsK d.folder.length d.children, (⟨p.1, p.2.mimetype, true⟩ : ME) ∈ (save d).man := by
  cases d with
  | mk id mt hs pics th ex fo kids =>
    constructor
    · simp [save, saveXml]
    · intro p hp
      have := (xml_subK fo.length kids p hp).2.2
      simp [save, saveXml, this]

/-- **C03 (every object's own parts are where its folder is)**: for every object of the tree (the top
    document with folder "" included) styles.xml and content.xml — and settings.xml if it has
    settings — are members under its folder, deflated, holding *that* object's part, and listed as
    text/xml. -/
theorem parts_present (d : Doc) :
    ∀ p ∈ objects d.folder.length [] d,
      (∀ e ∈ ownXmlZ p.1 p.2, e ∈ (save d).zip) ∧ (∀ e ∈ ownXmlM p.1 p.2, e ∈ (save d).man) := by
  intro p hp
  have := xml_sub d.folder.length true [] d p hp
  exact ⟨fun e he => by simp [save, this.1 e he], fun e he => by simp [save, this.2 e he]⟩

/-- **C03 (pictures)**: every picture registered in any object of the tree is a member under
    `folder ++ href` (the folder being the one that holds the object's content.xml, see
    `parts_present`), stored, with exactly its bytes, and the manifest lists that path with the
    picture's media type. -/
theorem pictures_present (d : Doc) :
    ∀ p ∈ objects d.folder.length [] d, ∀ pic ∈ p.2.pictures,
      (⟨p.1 ++ pic.href, .stored, [], picContent pic.src⟩ : ZE) ∈ (save d).zip
        ∧ (⟨p.1 ++ pic.href, pic.mediatype, false⟩ : ME) ∈ (save d).man := by
  intro p hp pic hpic
  have := pics_sub d.folder.length [] d p hp pic hpic
  simp [save, this.1, this.2]

/-- **C03 (extra members)**: every extra of any object of the tree (except META-INF/documentsignatures.xml)
    is listed under `folder ++ name` with its media type, and if it has content the member is there,
    deflated, with exactly its bytes. -/
theorem extras_present (d : Doc) :
    ∀ p ∈ objects d.folder.length [] d, ∀ x ∈ p.2.extras, x.filename ≠ sDocSig → ExtraWritten (save d) p.1 x := by
  intro p hp x hx hs
  have := extras_sub d.folder.length [] d p hp x hx hs
  simp only [save]
  exact ExtraWritten.left (ExtraWritten.right this)

/-- **C03 (thumbnail)**: a thumbnail is the member "Thumbnails/thumbnail.png", deflated, with exactly its
    bytes, listed with the media type the document carries for it ("" for a thumbnail set through the
    API, the source manifest's media type for a loaded one — fix f4df084). -/
theorem thumbnail_present (d : Doc) (t : Thumb) (h : d.thumbnail = some t) :
    (⟨sThumb, .deflated, [], .bytes t.content⟩ : ZE) ∈ (save d).zip
      ∧ (⟨sThumb, t.mediatype, false⟩ : ME) ∈ (save d).man := by
  simp [save, h, thumbOut]

/-! ### no manifest path and no member name occurs twice -/

/-- begins with "Object " -/
def startsObj (s : Str) : Bool := s.take 7 == sObjectSp
/-- ends with "/" -/
def endsSlash (s : Str) : Bool := s.getLast? == some 47

/-- names the package layer generates itself inside the folder of a document -/
def reservedFor (top : Bool) : List Str :=
  if top then [sStyles, sContent, sSettings, sMeta, sMimetype, sThumb, sManifestPath, sSlash, sThumbDir]
  else [sStyles, sContent, sSettings]

/-- the name of a sub-document inside its parent's folder: `c.folder[len(self.folder)+1:]` -/
def kidName (fo : Str) (c : Doc) : Str := c.folder.drop (fo.length + 1)

/-- the extras that `save` writes -/
def liveExtras (es : List Extra) : List Extra := es.filter (fun e => e.filename ≠ sDocSig)

/-- the names chosen by the caller / the loaded package inside one document: picture hrefs and extra names -/
def givenNames (pics : List Pic) (ex : List Extra) : List Str :=
  pics.map (·.href) ++ (liveExtras ex).map (·.filename)

/-- well-formedness of one document of the tree (decidable):
    * picture hrefs and extra names are pairwise distinct, not empty, and none is a name the package layer
      generates in that folder (styles.xml, content.xml, settings.xml; for the top document also meta.xml,
      mimetype, Thumbnails/thumbnail.png, META-INF/manifest.xml, "/", "Thumbnails/");
    * an extra has content None exactly if its name ends in "/";
    * the names of the sub-documents are pairwise distinct, not empty and contain no "/", and every
      sub-document's `folder` is this document's `folder` + "/" + its name (what `addObject` and `load` establish);
    * no generated or given name lies inside the folder of a sub-document (begins with its name + "/"). -/
def nodeOK (top : Bool) (pics : List Pic) (ex : List Extra) (fo : Str) (kids : List Doc) : Bool :=
  decide (givenNames pics ex).Nodup && decide (kids.map (kidName fo)).Nodup
  && (givenNames pics ex).all (fun n => !(reservedFor top).contains n && n != [])
  && (liveExtras ex).all (fun e => e.content.isNone == endsSlash e.filename)
  && kids.all (fun c => kidName fo c != [] && !(kidName fo c).contains 47
        && c.folder == fo ++ sSlash ++ kidName fo c
        && (reservedFor top ++ givenNames pics ex).all (fun n => !(kidName fo c ++ sSlash).isPrefixOf n))

mutual
def treeOK (top : Bool) : Doc → Bool
  | ⟨_, _, _, pics, _, ex, fo, kids⟩ => nodeOK top pics ex fo kids && treeOKs kids
def treeOKs : List Doc → Bool
  | [] => true
  | c :: cs => treeOK false c && treeOKs cs
end

/-- **`DocOK d`** — the decidable well-formedness hypothesis of `manifest_nodup` and `names_nodup`: `nodeOK`
    for every document of the tree. -/
def DocOK (d : Doc) : Bool := treeOK true d

/-! #### paths relative to a document's folder -/

def xmlOwn (hs : Bool) : List Str := [sStyles, sContent] ++ (if hs then [sSettings] else [])

mutual
/-- every manifest path below the folder of a document, relative to it (without the folder entry itself) -/
def relAll : Doc → List Str
  | ⟨_, _, hs, pics, _, ex, fo, kids⟩ => (xmlOwn hs ++ givenNames pics ex) ++ relKids fo kids
def relKids (fo : Str) : List Doc → List Str
  | [] => []
  | c :: cs => ([] :: relAll c).map (fun x => kidName fo c ++ sSlash ++ x) ++ relKids fo cs
end

/-- where a document is stored, relative to `L = len(folder of the saved document)`: the saved document
    itself in "", every other one in `stor L d` -/
def Placed (L : Nat) (F : Str) (d : Doc) : Prop :=
  (d.folder.length = L ∧ F = []) ∨ (L < d.folder.length ∧ F = stor L d)

theorem stor_child (L : Nat) (F : Str) (d c : Doc) (k : Str) (hp : Placed L F d)
    (hc : c.folder = d.folder ++ sSlash ++ k) : stor L c = F ++ k ++ sSlash ∧ Placed L (stor L c) c := by
  have hlen : L < c.folder.length := by
    rw [hc]; simp [sSlash]
    rcases hp with ⟨h, _⟩ | ⟨h, _⟩ <;> omega
  refine ⟨?_, Or.inr ⟨hlen, rfl⟩⟩
  rcases hp with ⟨h, rfl⟩ | ⟨h, rfl⟩
  · simp only [stor, hc, sSlash, List.append_assoc, List.nil_append]
    rw [List.drop_append]
    have : List.drop (L + 1) d.folder = [] := by apply List.drop_eq_nil_of_le; omega
    simp [this, h]
  · simp only [stor, hc, sSlash, List.append_assoc]
    rw [List.drop_append]
    have : L + 1 - d.folder.length = 0 := by omega
    simp [this]

mutual
/-- the `folder` attributes of the tree are consistent -/
def wf : Doc → Bool
  | ⟨_, _, _, _, _, _, fo, kids⟩ => kids.all (fun c => c.folder == fo ++ sSlash ++ kidName fo c) && wfs kids
def wfs : List Doc → Bool
  | [] => true
  | c :: cs => wf c && wfs cs
end

mutual
theorem wf_of_treeOK (top : Bool) (d : Doc) (h : treeOK top d = true) : wf d = true := by
  cases d with
  | mk id mt hs pics th ex fo kids =>
    simp only [treeOK, nodeOK, Bool.and_eq_true, List.all_eq_true] at h
    simp only [wf, Bool.and_eq_true, List.all_eq_true]
    exact ⟨fun c hc => (h.1.2 c hc).1.2, wfs_of_treeOKs kids h.2⟩
theorem wfs_of_treeOKs (ds : List Doc) (h : treeOKs ds = true) : wfs ds = true := by
  cases ds with
  | nil => rfl
  | cons c cs =>
    simp only [treeOKs, Bool.and_eq_true] at h
    simp only [wfs, Bool.and_eq_true]
    exact ⟨wf_of_treeOK false c h.1, wfs_of_treeOKs cs h.2⟩
end

theorem perm_interleave3 {α} (a b c a' b' c' : List α) :
    ((a ++ a') ++ (b ++ b') ++ (c ++ c')).Perm ((a ++ b ++ c) ++ (a' ++ b' ++ c')) := by
  have h1 : ((a ++ a') ++ (b ++ b')).Perm ((a ++ b) ++ (a' ++ b')) := by
    simp only [List.append_assoc]
    apply List.Perm.append_left
    rw [← List.append_assoc, ← List.append_assoc]
    exact List.Perm.append_right _ List.perm_append_comm
  refine (List.Perm.append_right _ h1).trans ?_
  simp only [List.append_assoc]
  apply List.Perm.append_left
  apply List.Perm.append_left
  have : ((a' ++ b') ++ c ++ c').Perm (c ++ (a' ++ b') ++ c') := List.Perm.append_right _ List.perm_append_comm
  simpa [List.append_assoc] using this

theorem paths_picsOut (F : Str) (ps : List Pic) : paths (picsOut F ps) = ps.map (fun p => F ++ p.href) := by
  induction ps with
  | nil => simp [picsOut]
  | cons p ps ih => simp [picsOut, picOut, ih]

theorem paths_extrasOut (F : Str) (es : List Extra) :
    paths (extrasOut F es) = (liveExtras es).map (fun e => F ++ e.filename) := by
  induction es with
  | nil => simp [extrasOut, liveExtras]
  | cons e es ih =>
    simp only [extrasOut, paths_append, ih]
    unfold extraOut liveExtras
    by_cases h : e.filename = sDocSig
    · simp [h]
    · cases hc : e.content <;> simp [h, hc]

/-- the manifest paths `_saveXmlObjects` writes for a sub-document after its folder entry -/
def bodyPaths (L : Nat) (F : Str) (hs : Bool) (kids : List Doc) : List Str :=
  (xmlOwn hs).map (F ++ ·) ++ paths (saveXmlKids L kids)

theorem paths_saveXml_sub (L : Nat) (F : Str) (id : Nat) (mt : Str) (hs : Bool) (pics : List Pic) (th : Option Thumb)
    (ex : List Extra) (fo : Str) (kids : List Doc) :
    paths (saveXml L false F ⟨id, mt, hs, pics, th, ex, fo, kids⟩) = F :: bodyPaths L F hs kids := by
  cases hs <;> simp [saveXml, bodyPaths, xmlOwn]

theorem paths_saveXml_top (L : Nat) (F : Str) (id : Nat) (mt : Str) (hs : Bool) (pics : List Pic) (th : Option Thumb)
    (ex : List Extra) (fo : Str) (kids : List Doc) :
    (paths (saveXml L true F ⟨id, mt, hs, pics, th, ex, fo, kids⟩)).Perm (sSlash :: sMeta :: bodyPaths L F hs kids) := by
  cases hs <;> simp [saveXml, bodyPaths, xmlOwn]
  · exact List.perm_middle (l₁ := [_, _])
  · exact List.perm_middle (l₁ := [_, _, _])

mutual
theorem paths_perm (L : Nat) (F : Str) (d : Doc) (hp : Placed L F d) (hw : wf d = true) :
    (bodyPaths L F d.hasSettings d.children ++ paths (savePics L F d) ++ paths (saveExtras L F d)).Perm
      ((relAll d).map (F ++ ·)) := by
  cases d with
  | mk id mt hs pics th ex fo kids =>
    simp only [wf, Bool.and_eq_true, List.all_eq_true] at hw
    have ih := paths_permK L F ⟨id, mt, hs, pics, th, ex, fo, kids⟩ hp kids (fun c hc => by simpa using hw.1 c hc) hw.2
    simp only [bodyPaths, savePics, saveExtras, paths_append, paths_picsOut, paths_extrasOut]
    refine (perm_interleave3 _ _ _ _ _ _).trans ?_
    simp only [relAll, givenNames, List.map_append, List.map_map, List.append_assoc]
    have e1 : (List.map (fun p : Pic => F ++ p.href) pics) = List.map ((fun x => F ++ x) ∘ fun x : Pic => x.href) pics := rfl
    have e2 : (List.map (fun e : Extra => F ++ e.filename) (liveExtras ex))
        = List.map ((fun x => F ++ x) ∘ fun x : Extra => x.filename) (liveExtras ex) := rfl
    rw [e1, e2]
    refine List.Perm.append_left _ (List.Perm.append_left _ (List.Perm.append_left _ ?_))
    simpa [List.append_assoc] using ih
theorem paths_permK (L : Nat) (F : Str) (d : Doc) (hp : Placed L F d) (ds : List Doc)
    (hk : ∀ c ∈ ds, c.folder = d.folder ++ sSlash ++ kidName d.folder c) (hw : wfs ds = true) :
    (paths (saveXmlKids L ds) ++ paths (savePicsKids L ds) ++ paths (saveExtrasKids L ds)).Perm
      ((relKids d.folder ds).map (F ++ ·)) := by
  cases ds with
  | nil => simp [saveXmlKids, savePicsKids, saveExtrasKids, relKids]
  | cons c cs =>
    simp only [wfs, Bool.and_eq_true] at hw
    obtain ⟨hst, hpl⟩ := stor_child L F d c (kidName d.folder c) hp (hk c List.mem_cons_self)
    have h1 := paths_perm L (stor L c) c hpl hw.1
    have h2 := paths_permK L F d hp cs (fun x hx => hk x (List.mem_cons_of_mem _ hx)) hw.2
    simp only [saveXmlKids, savePicsKids, saveExtrasKids, paths_append, relKids, List.map_append]
    refine (perm_interleave3 _ _ _ _ _ _).trans ?_
    refine List.Perm.append ?_ h2
    cases c with
    | mk cid cmt chs cpics cth cex cfo ckids =>
      rw [paths_saveXml_sub]
      simp only [List.cons_append, List.map_cons, List.map_map]
      have e0 : F ++ (kidName d.folder ⟨cid, cmt, chs, cpics, cth, cex, cfo, ckids⟩ ++ sSlash ++ [])
          = stor L ⟨cid, cmt, chs, cpics, cth, cex, cfo, ckids⟩ := by rw [hst]; simp
      have e1 : ((fun x => F ++ x) ∘ fun x => kidName d.folder ⟨cid, cmt, chs, cpics, cth, cex, cfo, ckids⟩ ++ sSlash ++ x)
          = (fun x => stor L ⟨cid, cmt, chs, cpics, cth, cex, cfo, ckids⟩ ++ x) := by
        funext x; rw [hst]; simp
      rw [e0, e1]
      exact List.Perm.cons _ (by simpa [List.append_assoc] using h1)
end


theorem split_at_sep (c : Nat) : ∀ (a b x y : Str), c ∉ a → c ∉ b → a ++ c :: x = b ++ c :: y → a = b ∧ x = y := by
  intro a
  induction a with
  | nil =>
    intro b x y _ hb h
    cases b with
    | nil => simpa using h
    | cons b0 bs => simp at h; simp [h.1] at hb
  | cons a0 as ih =>
    intro b x y ha hb h
    cases b with
    | nil => simp at h; simp [h.1] at ha
    | cons b0 bs =>
      simp at h ha hb
      have := ih bs x y ha.2 hb.2 h.2
      simp [h.1, this.1, this.2]

/-- a path lies in the folder of at most one sub-document -/
theorem kid_prefix_unique (k k' n : Str) (h1 : 47 ∉ k) (h2 : 47 ∉ k') (p1 : (k ++ sSlash) <+: n)
    (p2 : (k' ++ sSlash) <+: n) : k = k' := by
  obtain ⟨a, ha⟩ := p1
  obtain ⟨b, hb⟩ := p2
  have : k ++ 47 :: a = k' ++ 47 :: b := by simpa [sSlash] using ha.trans hb.symm
  exact (split_at_sep 47 k k' a b h1 h2 this).1

theorem xmlOwn_reserved (top hs : Bool) : ∀ n ∈ xmlOwn hs, n ∈ reservedFor top := by
  cases top <;> cases hs <;> decide

theorem xmlOwn_nodup (hs : Bool) : (xmlOwn hs).Nodup ∧ ∀ n ∈ xmlOwn hs, n ≠ [] := by
  cases hs <;> decide

mutual
theorem relAll_facts (top : Bool) (d : Doc) (h : treeOK top d = true) :
    (relAll d).Nodup ∧ (∀ n ∈ relAll d, n ≠ []) ∧ (∀ r ∈ reservedFor top, r ∉ xmlOwn d.hasSettings → r ∉ relAll d) := by
  cases d with
  | mk id mt hs pics th ex fo kids =>
    simp only [treeOK, nodeOK, Bool.and_eq_true, decide_eq_true_eq, List.all_eq_true, Bool.not_eq_true',
      bne_iff_ne, beq_iff_eq] at h
    obtain ⟨⟨⟨⟨⟨g1, g2⟩, g3⟩, _⟩, g5⟩, hks⟩ := h
    have hk' : ∀ c ∈ kids, kidName fo c ≠ [] ∧ 47 ∉ kidName fo c := by
      intro c hc
      have := (g5 c hc).1.1
      exact ⟨this.1, by simpa using this.2⟩
    have rule : ∀ n ∈ reservedFor top ++ givenNames pics ex, ∀ c ∈ kids, ¬ (kidName fo c ++ sSlash) <+: n := by
      intro n hn c hc hpre
      have := (g5 c hc).2 n hn
      rw [List.isPrefixOf_iff_prefix.mpr hpre] at this
      cases this
    obtain ⟨kn, kpre⟩ := relKids_facts fo kids hks g2 hk'
    have gres : ∀ n ∈ givenNames pics ex, n ∉ reservedFor top := by
      intro n hn hr
      have := (g3 n hn).1
      rw [List.contains_iff_mem.mpr hr] at this
      cases this
    refine ⟨?_, ?_, ?_⟩
    · simp only [relAll]
      rw [List.nodup_append, List.nodup_append]
      refine ⟨⟨(xmlOwn_nodup hs).1, g1, ?_⟩, kn, ?_⟩
      · intro a ha b hb hab
        subst hab
        exact gres a hb (xmlOwn_reserved top hs a ha)
      · intro a ha b hb hab
        subst hab
        obtain ⟨c, hc, hpre⟩ := kpre a hb
        rcases List.mem_append.mp ha with ha | ha
        · exact rule a (List.mem_append_left _ (xmlOwn_reserved top hs a ha)) c hc hpre
        · exact rule a (List.mem_append_right _ ha) c hc hpre
    · intro n hn
      simp only [relAll] at hn
      rcases List.mem_append.mp hn with hn | hn
      · rcases List.mem_append.mp hn with hn | hn
        · exact (xmlOwn_nodup hs).2 n hn
        · exact (g3 n hn).2
      · obtain ⟨c, _, x, hx⟩ := kpre n hn
        intro he; rw [he] at hx; simp [sSlash] at hx
    · intro r hr hnot hin
      simp only [relAll] at hin
      rcases List.mem_append.mp hin with hin | hin
      · rcases List.mem_append.mp hin with hin | hin
        · exact hnot hin
        · exact gres r hin hr
      · obtain ⟨c, hc, hpre⟩ := kpre r hin
        exact rule r (List.mem_append_left _ hr) c hc hpre
theorem relKids_facts (fo : Str) (ds : List Doc) (h : treeOKs ds = true) (hnd : (ds.map (kidName fo)).Nodup)
    (hk : ∀ c ∈ ds, kidName fo c ≠ [] ∧ 47 ∉ kidName fo c) :
    (relKids fo ds).Nodup ∧ ∀ n ∈ relKids fo ds, ∃ c ∈ ds, (kidName fo c ++ sSlash) <+: n := by
  cases ds with
  | nil => simp [relKids]
  | cons c cs =>
    simp only [treeOKs, Bool.and_eq_true] at h
    simp only [List.map_cons, List.nodup_cons] at hnd
    obtain ⟨fn, fne, _⟩ := relAll_facts false c h.1
    obtain ⟨rn, rpre⟩ := relKids_facts fo cs h.2 hnd.2 (fun x hx => hk x (List.mem_cons_of_mem _ hx))
    have hpart : ∀ n ∈ ([] :: relAll c).map (fun x => kidName fo c ++ sSlash ++ x), (kidName fo c ++ sSlash) <+: n := by
      intro n hn
      simp only [List.mem_map] at hn
      obtain ⟨x, _, rfl⟩ := hn
      exact ⟨x, rfl⟩
    refine ⟨?_, ?_⟩
    · simp only [relKids]
      rw [List.nodup_append]
      refine ⟨?_, rn, ?_⟩
      · have hn0 : ([] :: relAll c).Nodup := List.nodup_cons.mpr ⟨fun hin => fne [] hin rfl, fn⟩
        exact List.Pairwise.map _ (fun a b hab heq => hab (List.append_cancel_left heq)) hn0
      · intro a ha b hb hab
        subst hab
        obtain ⟨c', hc', hpre'⟩ := rpre a hb
        have := kid_prefix_unique _ _ a (hk c List.mem_cons_self).2 (hk c' (List.mem_cons_of_mem _ hc')).2 (hpart a ha) hpre'
        apply hnd.1
        rw [this]
        exact List.mem_map_of_mem hc'
    · intro n hn
      simp only [relKids] at hn
      rcases List.mem_append.mp hn with hn | hn
      · exact ⟨c, List.mem_cons_self, hpart n hn⟩
      · obtain ⟨c', hc', hp⟩ := rpre n hn
        exact ⟨c', List.mem_cons_of_mem _ hc', hp⟩
end

theorem paths_thumbOut (t : Option Thumb) :
    (paths (thumbOut t)).Nodup ∧ ∀ n ∈ paths (thumbOut t), n = sThumbDir ∨ n = sThumb := by
  cases t <;> simp [thumbOut] <;> decide

/-- the manifest paths of a saved package, up to order: "/", meta.xml, everything below the folder of the
    document, and the thumbnail entries -/
theorem paths_save_perm (d : Doc) (h : DocOK d = true) :
    (paths (save d)).Perm (sSlash :: sMeta :: (relAll d ++ paths (thumbOut d.thumbnail))) := by
  have hw := wf_of_treeOK true d h
  have hp := paths_perm d.folder.length [] d (Or.inl ⟨rfl, rfl⟩) hw
  cases d with
  | mk id mt hs pics th ex fo kids =>
    have ht := paths_saveXml_top fo.length [] id mt hs pics th ex fo kids
    have e : paths (save ⟨id, mt, hs, pics, th, ex, fo, kids⟩)
        = paths (saveXml fo.length true [] ⟨id, mt, hs, pics, th, ex, fo, kids⟩)
          ++ (paths (savePics fo.length [] ⟨id, mt, hs, pics, th, ex, fo, kids⟩)
          ++ (paths (thumbOut th) ++ paths (saveExtras fo.length [] ⟨id, mt, hs, pics, th, ex, fo, kids⟩))) := by
      simp [save]
    rw [e]
    refine (List.Perm.append_right _ ht).trans ?_
    simp only [List.cons_append]
    refine List.Perm.cons _ (List.Perm.cons _ ?_)
    -- move the thumbnail entries behind the extras
    have hsw : (paths (thumbOut th) ++ paths (saveExtras fo.length [] ⟨id, mt, hs, pics, th, ex, fo, kids⟩)).Perm
        (paths (saveExtras fo.length [] ⟨id, mt, hs, pics, th, ex, fo, kids⟩) ++ paths (thumbOut th)) := List.perm_append_comm
    refine (List.Perm.append_left _ (List.Perm.append_left _ hsw)).trans ?_
    rw [← List.append_assoc, ← List.append_assoc]
    refine List.Perm.append_right _ ?_
    have : (List.map (fun x => [] ++ x) (relAll ⟨id, mt, hs, pics, th, ex, fo, kids⟩)) = relAll ⟨id, mt, hs, pics, th, ex, fo, kids⟩ := by
      simp
    rw [← this]
    simpa [List.append_assoc] using hp

/-- the four generated top-level names, everything below the document's folder, and the thumbnail entries are
    pairwise distinct -/
theorem top_paths_nodup (d : Doc) (h : DocOK d = true) :
    (sMimetype :: sManifestPath :: sSlash :: sMeta :: (relAll d ++ paths (thumbOut d.thumbnail))).Nodup := by
  obtain ⟨rn, _, rres⟩ := relAll_facts true d h
  obtain ⟨tn, tmem⟩ := paths_thumbOut d.thumbnail
  have hnotown : ∀ r ∈ [sMeta, sMimetype, sThumb, sManifestPath, sSlash, sThumbDir], r ∉ xmlOwn d.hasSettings := by
    cases d.hasSettings <;> decide
  have hrel : ∀ r ∈ [sMeta, sMimetype, sThumb, sManifestPath, sSlash, sThumbDir], r ∉ relAll d := by
    intro r hr
    refine rres r ?_ (hnotown r hr)
    simp only [reservedFor, if_true]
    simp only [List.mem_cons, List.not_mem_nil, or_false] at hr ⊢
    rcases hr with rfl | rfl | rfl | rfl | rfl | rfl <;> simp
  have hRT : (relAll d ++ paths (thumbOut d.thumbnail)).Nodup := by
    rw [List.nodup_append]
    refine ⟨rn, tn, ?_⟩
    intro a ha b hb hab
    subst hab
    rcases tmem a hb with rfl | rfl
    · exact hrel _ (by simp) ha
    · exact hrel _ (by simp) ha
  have hnot : ∀ r ∈ [sMimetype, sManifestPath, sSlash, sMeta], r ∉ relAll d ++ paths (thumbOut d.thumbnail) := by
    intro r hr hin
    rcases List.mem_append.mp hin with hin | hin
    · refine hrel r ?_ hin
      simp only [List.mem_cons, List.not_mem_nil, or_false] at hr ⊢
      rcases hr with rfl | rfl | rfl | rfl <;> simp
    · simp only [List.mem_cons, List.not_mem_nil, or_false] at hr
      rcases tmem r hin with h1 | h1 <;> rcases hr with rfl | rfl | rfl | rfl <;> revert h1 <;> decide
  rw [List.nodup_cons, List.nodup_cons, List.nodup_cons, List.nodup_cons]
  refine ⟨?_, ?_, ?_, ?_, hRT⟩
  · simp only [List.mem_cons, not_or]
    exact ⟨by decide, by decide, by decide, hnot _ (by simp)⟩
  · simp only [List.mem_cons, not_or]
    exact ⟨by decide, by decide, hnot _ (by simp)⟩
  · simp only [List.mem_cons, not_or]
    exact ⟨by decide, hnot _ (by simp)⟩
  · exact hnot _ (by simp)

/-- **C03 (no manifest path twice; in particular exactly one root entry)**: under `DocOK d` the manifest of
    the saved package lists every path once — file entries and folder entries, object trees of any depth,
    pictures and extras of sub-documents included. -/
theorem manifest_nodup (d : Doc) (h : DocOK d = true) : (paths (save d)).Nodup := by
  have := top_paths_nodup d h
  rw [List.nodup_cons, List.nodup_cons] at this
  exact (List.Perm.nodup_iff (paths_save_perm d h)).mpr this.2.2

/-- **C03 (no member name twice)**: under `DocOK d` the member names of the saved package are pairwise
    distinct — for object trees of any depth. -/
theorem names_nodup (d : Doc) (h : DocOK d = true) : (names (save d)).Nodup := by
  have hall := top_paths_nodup d h
  have hperm := paths_save_perm d h
  have hall' : (sMimetype :: sManifestPath :: paths (save d)).Nodup :=
    (List.Perm.nodup_iff (List.Perm.cons _ (List.Perm.cons _ hperm))).mpr hall
  have hsub : (filePaths (save d)).Sublist (paths (save d)) := by
    unfold filePaths fileEntries paths
    exact List.Sublist.map _ List.filter_sublist
  rw [List.nodup_cons, List.nodup_cons] at hall'
  obtain ⟨h1, h2, h3⟩ := hall'
  rw [manifest_exact_ordered, List.nodup_cons, List.nodup_append]
  refine ⟨?_, List.Nodup.sublist hsub h3, by simp, ?_⟩
  · simp only [List.mem_append, List.mem_singleton, not_or]
    exact ⟨fun hin => h1 (List.mem_cons_of_mem _ (hsub.subset hin)), by decide⟩
  · intro a ha b hb hab
    simp at hb; subst hb; subst hab
    exact h2 (hsub.subset ha)


/-! ### folder entries are exactly the manifest paths that end in "/" -/

/-- a picture href that does not look like a directory: not ending in "/", not empty -/
def hrefPlain (h : Str) : Bool := !endsSlash h && !h.isEmpty

mutual
/-- **`plainHrefs d`** — the extra decidable hypothesis of `folder_iff_slash`: no picture href of any document
    of the tree ends in "/" or is empty -/
def plainHrefs : Doc → Bool
  | ⟨_, _, _, pics, _, _, _, kids⟩ => pics.all (fun p => hrefPlain p.href) && plainHrefsK kids
def plainHrefsK : List Doc → Bool
  | [] => true
  | c :: cs => plainHrefs c && plainHrefsK cs
end

theorem endsSlash_append (F h : Str) (hne : h ≠ []) : endsSlash (F ++ h) = endsSlash h := by
  cases hl : h.getLast? with
  | none => exact absurd (List.getLast?_eq_none_iff.mp hl) hne
  | some x => simp [endsSlash, List.getLast?_append, hl]

theorem endsSlash_stor (L : Nat) (c : Doc) : endsSlash (stor L c) = true := by
  simp [endsSlash, stor, sSlash, List.getLast?_append]

/-- every manifest entry of `o` is tagged as folder entry iff its path ends in "/" -/
def SlashOK (o : Out) : Prop := ∀ e ∈ o.man, e.isFolder = endsSlash e.path

theorem SlashOK.append {a b : Out} (ha : SlashOK a) (hb : SlashOK b) : SlashOK (a ++ b) := by
  intro e he
  simp only [Out.man_append, List.mem_append] at he
  rcases he with he | he
  · exact ha e he
  · exact hb e he

theorem slashOK_empty : SlashOK Out.empty := by intro e he; simp at he

theorem slashOK_xmlPart (F : Str) (k : PartKind) (n : Str) (i : Nat) (hn : n ≠ []) (hs : endsSlash n = false) :
    SlashOK (xmlPart F k n i) := by
  intro e he
  simp [xmlPart] at he
  subst he
  simp [endsSlash_append F n hn, hs]

mutual
theorem slashOK_saveXml (L : Nat) (top : Bool) (F : Str) (d : Doc) (hF : top = true ∨ endsSlash F = true) :
    SlashOK (saveXml L top F d) := by
  cases d with
  | mk id mt hs pics th ex fo kids =>
    simp only [saveXml]
    refine SlashOK.append (SlashOK.append (SlashOK.append (SlashOK.append (SlashOK.append ?_ ?_) ?_) ?_) ?_) ?_
    · intro e he
      simp at he; subst he
      rcases hF with hF | hF
      · subst hF; simp; decide
      · cases top
        · simp [hF]
        · simp; decide
    · exact slashOK_xmlPart F _ _ _ (by decide) (by decide)
    · exact slashOK_xmlPart F _ _ _ (by decide) (by decide)
    · cases hs
      · exact slashOK_empty
      · exact slashOK_xmlPart F _ _ _ (by decide) (by decide)
    · cases top
      · exact slashOK_empty
      · intro e he; simp at he; subst he; decide
    · exact slashOK_saveXmlKids L kids
theorem slashOK_saveXmlKids (L : Nat) (ds : List Doc) : SlashOK (saveXmlKids L ds) := by
  cases ds with
  | nil => exact slashOK_empty
  | cons c cs =>
    simp only [saveXmlKids]
    exact SlashOK.append (slashOK_saveXml L false _ c (Or.inr (endsSlash_stor L c))) (slashOK_saveXmlKids L cs)
end

theorem slashOK_picsOut (F : Str) (ps : List Pic) (h : ∀ p ∈ ps, hrefPlain p.href = true) : SlashOK (picsOut F ps) := by
  induction ps with
  | nil => exact slashOK_empty
  | cons p ps ih =>
    simp only [picsOut]
    refine SlashOK.append ?_ (ih (fun q hq => h q (List.mem_cons_of_mem _ hq)))
    intro e he
    simp [picOut] at he; subst he
    have := h p List.mem_cons_self
    simp only [hrefPlain, Bool.and_eq_true, Bool.not_eq_true', List.isEmpty_eq_false_iff] at this
    simp [endsSlash_append F p.href this.2, this.1]

mutual
theorem slashOK_savePics (L : Nat) (F : Str) (d : Doc) (h : plainHrefs d = true) : SlashOK (savePics L F d) := by
  cases d with
  | mk id mt hs pics th ex fo kids =>
    simp only [plainHrefs, Bool.and_eq_true, List.all_eq_true] at h
    simp only [savePics]
    exact SlashOK.append (slashOK_picsOut F pics h.1) (slashOK_savePicsKids L kids h.2)
theorem slashOK_savePicsKids (L : Nat) (ds : List Doc) (h : plainHrefsK ds = true) :
    SlashOK (savePicsKids L ds) := by
  cases ds with
  | nil => exact slashOK_empty
  | cons c cs =>
    simp only [plainHrefsK, Bool.and_eq_true] at h
    simp only [savePicsKids]
    exact SlashOK.append (slashOK_savePics L _ c h.1) (slashOK_savePicsKids L cs h.2)
end

theorem slashOK_extrasOut (F : Str) (es : List Extra)
    (h : ∀ e ∈ es, e.filename ≠ sDocSig → e.filename ≠ [] ∧ (e.content.isNone == endsSlash e.filename) = true) :
    SlashOK (extrasOut F es) := by
  induction es with
  | nil => exact slashOK_empty
  | cons x xs ih =>
    simp only [extrasOut]
    refine SlashOK.append ?_ (ih (fun e he => h e (List.mem_cons_of_mem _ he)))
    unfold extraOut
    by_cases hx : x.filename = sDocSig
    · simp [hx]; exact slashOK_empty
    · obtain ⟨hne, hc⟩ := h x List.mem_cons_self hx
      intro e he
      cases hcc : x.content with
      | none => simp [hx, hcc] at he; subst he; simpa [hcc, endsSlash_append F x.filename hne] using hc
      | some b => simp [hx, hcc] at he; subst he; simpa [hcc, endsSlash_append F x.filename hne] using hc

theorem extras_facts_of_nodeOK (top : Bool) (pics : List Pic) (ex : List Extra) (fo : Str) (kids : List Doc)
    (h : nodeOK top pics ex fo kids = true) :
    ∀ e ∈ ex, e.filename ≠ sDocSig → e.filename ≠ [] ∧ (e.content.isNone == endsSlash e.filename) = true := by
  simp only [nodeOK, Bool.and_eq_true, decide_eq_true_eq, List.all_eq_true, Bool.not_eq_true', bne_iff_ne] at h
  intro e he hne
  have hl : e ∈ liveExtras ex := by simp [liveExtras, he, hne]
  refine ⟨(h.1.1.2 e.filename ?_).2, h.1.2 e hl⟩
  simp only [givenNames, List.mem_append, List.mem_map]
  exact Or.inr ⟨e, hl, rfl⟩

mutual
theorem slashOK_saveExtras (L : Nat) (top : Bool) (F : Str) (d : Doc) (h : treeOK top d = true) :
    SlashOK (saveExtras L F d) := by
  cases d with
  | mk id mt hs pics th ex fo kids =>
    simp only [treeOK, Bool.and_eq_true] at h
    simp only [saveExtras]
    exact SlashOK.append (slashOK_extrasOut F ex (extras_facts_of_nodeOK top pics ex fo kids h.1))
      (slashOK_saveExtrasKids L kids h.2)
theorem slashOK_saveExtrasKids (L : Nat) (ds : List Doc) (h : treeOKs ds = true) : SlashOK (saveExtrasKids L ds) := by
  cases ds with
  | nil => exact slashOK_empty
  | cons c cs =>
    simp only [treeOKs, Bool.and_eq_true] at h
    simp only [saveExtrasKids]
    exact SlashOK.append (slashOK_saveExtras L false _ c h.1) (slashOK_saveExtrasKids L cs h.2)
end

/-- **C03 (folder entries, syntactically)**: under `DocOK d` and `plainHrefs d` a manifest entry is one of the
    folder entries of `folder_entries` exactly when its path ends in "/" — so a reader of the package can tell
    the two kinds apart, and `manifest_exact` speaks about all paths not ending in "/". -/
theorem folder_iff_slash (d : Doc) (h : DocOK d = true) (hp : plainHrefs d = true) :
    ∀ e ∈ (save d).man, e.isFolder = endsSlash e.path := by
  have hth : SlashOK (thumbOut d.thumbnail) := by
    cases d.thumbnail with
    | none => exact slashOK_empty
    | some b => intro e he; simp [thumbOut] at he; rcases he with rfl | rfl <;> simp <;> decide
  have h0 : ∀ z, SlashOK (emZ z) := by intro z e he; simp at he
  exact SlashOK.append (SlashOK.append (SlashOK.append (SlashOK.append (SlashOK.append (h0 _)
    (slashOK_saveXml _ true [] d (Or.inl rfl))) (slashOK_savePics _ [] d hp)) hth)
    (slashOK_saveExtras _ true [] d h)) (h0 _)

/-! ### the hypothesis is satisfiable; the picture registry -/

theorem register_hrefs (ps : List Pic) (p : Pic) :
    (register ps p).map (·.href) = if ps.any (fun q => q.href == p.href) then ps.map (·.href)
      else ps.map (·.href) ++ [p.href] := by
  unfold register
  split
  · simp only [List.map_map]
    apply List.map_congr_left
    intro q _
    by_cases h : q.href = p.href <;> simp [h]
  · simp

/-- the picture registry is a dict: whatever sequence of registrations, the hrefs are pairwise
    distinct -/
theorem register_nodup (regs : List Pic) : ((regs.foldl register []).map (·.href)).Nodup := by
  suffices h : ∀ acc : List Pic, (acc.map (·.href)).Nodup → ((regs.foldl register acc).map (·.href)).Nodup from
    h [] (by simp)
  induction regs with
  | nil => intro acc h; simpa using h
  | cons p ps ih =>
    intro acc h
    simp only [List.foldl_cons]
    apply ih
    rw [register_hrefs]
    split
    · exact h
    · rename_i hn
      rw [List.nodup_append]
      refine ⟨h, by simp, ?_⟩
      intro a ha b hb hab
      simp at hb; subst hb; subst hab
      apply hn
      simp only [List.mem_map] at ha
      obtain ⟨q, hq, hqe⟩ := ha
      simp only [List.any_eq_true]
      exact ⟨q, hq, by simp [hqe]⟩

/-- a document with an explicitly named object ("/MyObj") holding an object of its own ("/MyObj/Object 1"),
    a second object "/Object 2", pictures at every level (one by file name), a thumbnail, file and
    directory extras at the top and inside an object -/
def sampleDoc : Doc :=
  ⟨0, sOdt, true, [⟨sPictures ++ [97], .image [1, 2], [105]⟩], some ⟨[7], [105]⟩,
    [⟨[120, 47, 121], [], some [9]⟩, ⟨[120, 47], [], none⟩], [],
    [⟨1, sOdt, false, [⟨sPictures ++ [97], .file [102], []⟩], none, [⟨sMeta, sTextXml, some [60]⟩, ⟨[99, 47], [], none⟩],
        [47, 77, 121, 79, 98, 106],
        [⟨2, sOdt, true, [⟨sPictures ++ [98], .image [], []⟩], none, [], [47, 77, 121, 79, 98, 106] ++ sSlash ++ objPrefix 1 |>.dropLast, []⟩]⟩,
     ⟨3, sOdt, false, [], none, [], (sSlash ++ objPrefix 2).dropLast, []⟩]⟩

/-- `DocOK` and `plainHrefs` are satisfiable (by a document that exercises every clause) -/
theorem docOK_sample : DocOK sampleDoc = true ∧ plainHrefs sampleDoc = true
    ∧ (names (save sampleDoc)).length = 19 := by decide


/-- a sub-document (folder "/Object 1") that carries an extra named meta.xml — what `load` makes of "Object 1/meta.xml" — with
    an object of its own that has a picture -/
def subWithOwnMeta : Doc :=
  ⟨1, sOdt, false, [], none, [⟨sMeta, sTextXml, some [60]⟩], (sSlash ++ objPrefix 1).dropLast,
    [⟨2, sOdt, false, [⟨sPictures ++ [97], .image [1], [105]⟩], none, [], (sSlash ++ objPrefix 1 ++ objPrefix 1).dropLast, []⟩]⟩

/-- **finding KF-C03-4** (`sig=subdocument-with-reserved-extra-saved-on-its-own`): saved on its own, the sub-document is a
    package root: `save` generates meta.xml AND writes the extra of that name (`DocOK` is false: meta.xml is reserved for
    the root).  Everything else is right for a document whose folder is not "": its nested object and the picture are stored
    relative to it ("Object 1/…"), not under its absolute folder. -/
theorem finding_subdocument_own_meta :
    DocOK subWithOwnMeta = false ∧ (names (save subWithOwnMeta)).count sMeta = 2
    ∧ (names (save subWithOwnMeta)).contains (objPrefix 1 ++ sPictures ++ [97]) = true
    ∧ (names (save subWithOwnMeta)).contains (objPrefix 1 ++ objPrefix 1 ++ sPictures ++ [97]) = false := by
  decide

/-- without the extra the same sub-document saved on its own is well-formed: the theorems (`names_nodup`, `manifest_nodup`,
    `pictures_present` …) are stated for any `d.folder`, with `d.folder.length` as the offset -/
theorem subdocument_on_its_own_sample :
    let d : Doc := ⟨1, sOdt, false, [], none, [], (sSlash ++ objPrefix 1).dropLast,
      [⟨2, sOdt, false, [⟨sPictures ++ [97], .image [1], [105]⟩], none, [], (sSlash ++ objPrefix 1 ++ objPrefix 1).dropLast, []⟩]⟩
    DocOK d = true ∧ names (save d) = [sMimetype, sStyles, sContent, sMeta, objPrefix 1 ++ sStyles, objPrefix 1 ++ sContent,
      objPrefix 1 ++ sPictures ++ [97], sManifestPath] := by
  decide

/-! ### load: every document it builds, from ANY package, is well-formed -/

theorem dictSet_keys (d : List (Str × Str)) (k v : Str) :
    (dictSet d k v).map (·.1) = if d.any (fun e => e.1 == k) then d.map (·.1) else d.map (·.1) ++ [k] := by
  unfold dictSet
  split
  · simp only [List.map_map]
    apply List.map_congr_left
    intro q _
    by_cases h : q.1 = k <;> simp [h]
  · simp

/-- `manifestlist` is a dict: its keys are pairwise distinct -/
theorem manifestlist_nodup (raw : List (Str × Str)) : ((manifestlist raw).map (·.1)).Nodup := by
  unfold manifestlist
  suffices h : ∀ acc : List (Str × Str), (acc.map (·.1)).Nodup →
      ((raw.foldl (fun d e => dictSet d e.1 e.2) acc).map (·.1)).Nodup from h [] (by simp)
  induction raw with
  | nil => intro acc h; simpa using h
  | cons e es ih =>
    intro acc h
    simp only [List.foldl_cons]
    apply ih
    rw [dictSet_keys]
    split
    · exact h
    · rename_i hn
      rw [List.nodup_append]
      refine ⟨h, by simp, ?_⟩
      intro a ha b hb hab
      simp at hb; subst hb; subst hab
      apply hn
      simp only [List.mem_map] at ha
      obtain ⟨q, hq, hqe⟩ := ha
      simp only [List.any_eq_true]
      exact ⟨q, hq, by simp [hqe]⟩

/-- if `g` tells the elements of `l` apart and `f` tells apart whatever `g` does, `f` tells them apart -/
theorem nodup_map_of_nodup_map {α β γ} (f : α → β) (g : α → γ) : ∀ (l : List α), (l.map g).Nodup →
    (∀ a ∈ l, ∀ b ∈ l, f a = f b → g a = g b) → (l.map f).Nodup := by
  intro l
  induction l with
  | nil => intro _ _; simp
  | cons x xs ih =>
    intro hg hinj
    simp only [List.map_cons, List.nodup_cons] at hg ⊢
    refine ⟨?_, ih hg.2 (fun a ha b hb => hinj a (List.mem_cons_of_mem _ ha) b (List.mem_cons_of_mem _ hb))⟩
    intro hin
    simp only [List.mem_map] at hin
    obtain ⟨y, hy, hfy⟩ := hin
    apply hg.1
    simp only [List.mem_map]
    exact ⟨y, hy, hinj y (List.mem_cons_of_mem _ hy) x List.mem_cons_self hfy⟩

/-- the shape of one folder component: "Object " digits "/" -/
def IsComp (c : Str) : Prop := ∃ ds, c = sObjectSp ++ ds ++ sSlash ∧ ds ≠ [] ∧ ∀ x ∈ ds, isDigit x = true

theorem takeWhile_digits (ds t : Str) (h : ∀ x ∈ ds, isDigit x = true) :
    (ds ++ 47 :: t).takeWhile isDigit = ds := by
  induction ds with
  | nil => simp [isDigit]
  | cons d ds ih =>
    have hd := h d List.mem_cons_self
    simp [hd, ih (fun x hx => h x (List.mem_cons_of_mem _ hx))]

theorem objComp_of_prefix (c n : Str) (hc : IsComp c) (hp : c <+: n) : objComp n = some c := by
  obtain ⟨ds, rfl, hne, hd⟩ := hc
  obtain ⟨t, rfl⟩ := hp
  have e1 : (sObjectSp ++ ds ++ sSlash ++ t) = sObjectSp ++ (ds ++ 47 :: t) := by simp [sSlash]
  have e2 : List.take 7 (sObjectSp ++ (ds ++ 47 :: t)) = sObjectSp := by
    rw [List.take_append]; simp [sObjectSp]
  have e3 : List.drop 7 (sObjectSp ++ (ds ++ 47 :: t)) = ds ++ 47 :: t := by
    rw [List.drop_append]; simp [sObjectSp]
  have e4 : List.drop (7 + ds.length) (sObjectSp ++ (ds ++ 47 :: t)) = 47 :: t := by
    rw [← List.drop_drop, e3, List.drop_append]; simp
  have : ds.isEmpty = false := by cases ds with | nil => exact absurd rfl hne | cons a b => rfl
  unfold objComp
  rw [e1, e2, e3, takeWhile_digits ds t hd]
  simp [e4, this, sSlash]

theorem mem_takeWhile_prop (p : Nat → Bool) : ∀ (l : Str) (x : Nat), x ∈ l.takeWhile p → p x = true := by
  intro l
  induction l with
  | nil => intro x hx; simp at hx
  | cons a l ih =>
    intro x hx
    by_cases ha : p a = true
    · simp only [List.takeWhile_cons, ha, if_true, List.mem_cons] at hx
      rcases hx with rfl | hx
      · exact ha
      · exact ih x hx
    · simp [ha] at hx

theorem eq_dropLast_append_of_getLast? : ∀ (l : Str) (a : Nat), l.getLast? = some a → l = l.dropLast ++ [a] := by
  intro l
  induction l with
  | nil => intro a h; simp at h
  | cons x xs ih =>
    intro a h
    cases xs with
    | nil => simp at h; simp [h]
    | cons y ys =>
      have h' : (y :: ys).getLast? = some a := by simpa [List.getLast?_cons_cons] using h
      have := ih a h'
      simp only [List.dropLast_cons_cons, List.cons_append]
      rw [← this]

theorem objComp_some (s c : Str) (h : objComp s = some c) : IsComp c ∧ c <+: s := by
  unfold objComp at h
  by_cases h7 : (s.take 7 == sObjectSp) = true
  · simp only [h7, if_true] at h
    by_cases h2 : (!((s.drop 7).takeWhile isDigit).isEmpty && (s.drop (7 + ((s.drop 7).takeWhile isDigit).length)).head? == some 47) = true
    · simp only [h2, if_true, Option.some.injEq] at h
      simp only [Bool.and_eq_true, Bool.not_eq_true', beq_iff_eq] at h2
      subst h
      have hne : (s.drop 7).takeWhile isDigit ≠ [] := by
        intro he; rw [he] at h2; simp at h2
      refine ⟨⟨_, rfl, hne, fun x hx => mem_takeWhile_prop isDigit _ x hx⟩, ?_⟩
      have hs : s = s.take 7 ++ s.drop 7 := (List.take_append_drop 7 s).symm
      have hd : s.drop 7 = (s.drop 7).takeWhile isDigit ++ (s.drop 7).dropWhile isDigit :=
        (List.takeWhile_append_dropWhile).symm
      have hdd : s.drop (7 + ((s.drop 7).takeWhile isDigit).length) = (s.drop 7).dropWhile isDigit := by
        rw [← List.drop_drop]
        conv => lhs; rw [hd]
        rw [List.drop_append]; simp
      rw [hdd] at h2
      cases hw : (s.drop 7).dropWhile isDigit with
      | nil => rw [hw] at h2; simp at h2
      | cons a t =>
        rw [hw] at h2
        have ha : a = 47 := by simpa using h2.2
        subst ha
        refine ⟨t, ?_⟩
        have h7' : s.take 7 = sObjectSp := by simpa using h7
        conv => rhs; rw [hs, hd, hw, h7']
        simp [sSlash]
    · simp only [h2] at h
      simp at h
  · simp only [h7] at h
    simp at h

theorem isComp_facts (c : Str) (h : IsComp c) :
    c ≠ [] ∧ c.getLast? = some 47 ∧ 47 ∉ c.dropLast ∧ c.dropLast ≠ [] ∧ c = c.dropLast ++ sSlash ∧ startsObj c = true := by
  obtain ⟨ds, rfl, hne, hd⟩ := h
  have e : (sObjectSp ++ ds ++ sSlash).dropLast = sObjectSp ++ ds := by simp [sSlash]
  refine ⟨by simp [sSlash], by simp [sSlash, List.getLast?_append], ?_, ?_, ?_, ?_⟩
  · rw [e]
    intro hin
    rcases List.mem_append.mp hin with hin | hin
    · revert hin; decide
    · have := hd 47 hin; revert this; decide
  · rw [e]; simp [sObjectSp]
  · rw [e]
  · simp [startsObj, sObjectSp]

/-- a folder in the package: "" or something ending in "/" -/
def PathOK (P : Str) : Prop := P = [] ∨ P.getLast? = some 47

theorem pathOK_append (P c : Str) (hc : IsComp c) : PathOK (P ++ c) := by
  right
  rw [List.getLast?_append, (isComp_facts c hc).2.1]; rfl

theorem folderOfPath_append (P c : Str) (hP : PathOK P) (hc : IsComp c) :
    folderOfPath (P ++ c) = folderOfPath P ++ sSlash ++ c.dropLast := by
  obtain ⟨hne, _, _, _, hcc, _⟩ := isComp_facts c hc
  have h1 : (P ++ c).isEmpty = false := by
    cases c with
    | nil => exact absurd rfl hne
    | cons a b => cases P <;> rfl
  have h2 : (P ++ c).dropLast = P ++ c.dropLast := by
    conv => lhs; rw [hcc, ← List.append_assoc]
    simp [sSlash]
  rcases hP with rfl | hP
  · simp [folderOfPath, sSlash] at *
    simp [hne]
  · have hPne : P ≠ [] := by intro he; rw [he] at hP; simp at hP
    have hP' : P = P.dropLast ++ [47] := eq_dropLast_append_of_getLast? P 47 hP
    have h3 : P.isEmpty = false := by cases P with | nil => exact absurd rfl hPne | cons a b => rfl
    simp only [folderOfPath, h1, h3, h2]
    conv => lhs; rw [hP']
    simp [sSlash]

theorem chainEnd_spec (keys : List Str) : ∀ (f : Nat) (op rest : Str), rest.length ≤ f →
    ∃ rest', op ++ rest = chainEnd keys f op rest ++ rest' ∧
      ∀ c, objComp rest' = some c → keys.contains (chainEnd keys f op rest ++ c) = false := by
  intro f
  induction f with
  | zero =>
    intro op rest h
    have : rest = [] := by cases rest with | nil => rfl | cons a b => simp at h
    subst this
    exact ⟨[], by simp [chainEnd], fun c hc => by simp [objComp, sObjectSp] at hc⟩
  | succ f ih =>
    intro op rest h
    simp only [chainEnd]
    cases ho : objComp rest with
    | none => exact ⟨rest, rfl, fun c hc => by rw [ho] at hc; cases hc⟩
    | some c =>
      simp only
      by_cases hk : keys.contains (op ++ c) = true
      · simp only [hk, if_true]
        obtain ⟨hcomp, t, ht⟩ := objComp_some rest c ho
        have hcl : 0 < c.length := by
          have := (isComp_facts c hcomp).1
          cases c with | nil => exact absurd rfl this | cons a b => simp
        have hdrop : rest.drop c.length = t := by rw [← ht]; simp
        have hlen : (rest.drop c.length).length ≤ f := by
          rw [List.length_drop]; omega
        obtain ⟨r', e1, e2⟩ := ih (op ++ c) (rest.drop c.length) hlen
        refine ⟨r', ?_, e2⟩
        rw [← e1, hdrop, ← ht]; simp
      · simp only [hk]
        refine ⟨rest, rfl, fun c' hc' => ?_⟩
        rw [ho] at hc'
        cases hc'
        simpa using hk

theorem chainEnd_pathOK (keys : List Str) : ∀ (f : Nat) (op rest : Str), PathOK op → PathOK (chainEnd keys f op rest) := by
  intro f
  induction f with
  | zero => intro op rest h; exact h
  | succ f ih =>
    intro op rest h
    simp only [chainEnd]
    cases ho : objComp rest with
    | none => exact h
    | some c =>
      simp only
      by_cases hk : keys.contains (op ++ c) = true
      · simp only [hk, if_true]
        exact ih _ _ (pathOK_append op c (objComp_some rest c ho).1)
      · simp only [hk]; exact h

/-- what is known of the key of an entry dispatched to the document stored in `P` -/
theorem chainOf_spec (keys : List Str) (k : Str) :
    k = chainOf keys k ++ k.drop (chainOf keys k).length ∧
    ∀ c, objComp (k.drop (chainOf keys k).length) = some c → keys.contains (chainOf keys k ++ c) = false := by
  obtain ⟨r', e1, e2⟩ := chainEnd_spec keys k.length [] k (Nat.le_refl _)
  simp only [List.nil_append] at e1
  unfold chainOf
  generalize chainEnd keys k.length [] k = P at e1 e2 ⊢
  have hd : k.drop P.length = r' := by rw [e1]; simp
  rw [hd]
  exact ⟨e1, e2⟩

theorem chainPairs_spec (keys : List Str) : ∀ (f : Nat) (op rest : Str), PathOK op →
    ∀ x ∈ chainPairs keys f op rest, PathOK x.1 ∧ ∃ c, IsComp c ∧ x.2 = x.1 ++ c ∧ x.2 ∈ keys := by
  intro f
  induction f with
  | zero => intro op rest _ x hx; simp [chainPairs] at hx
  | succ f ih =>
    intro op rest hop x hx
    simp only [chainPairs] at hx
    cases ho : objComp rest with
    | none => simp [ho] at hx
    | some c =>
      simp only [ho] at hx
      by_cases hk : keys.contains (op ++ c) = true
      · simp only [hk, if_true, List.mem_cons] at hx
        have hcomp := (objComp_some rest c ho).1
        rcases hx with rfl | hx
        · exact ⟨hop, c, hcomp, rfl, by simpa using hk⟩
        · exact ih _ _ (pathOK_append op c hcomp) x hx
      · simp only [hk] at hx
        simp at hx


theorem nodeOK_intro (top : Bool) (pics : List Pic) (ex : List Extra) (fo : Str) (kids : List Doc)
    (h1 : (givenNames pics ex).Nodup) (h2 : (kids.map (kidName fo)).Nodup)
    (h3 : ∀ n ∈ givenNames pics ex, n ∉ reservedFor top ∧ n ≠ [])
    (h4 : ∀ e ∈ liveExtras ex, (e.content.isNone == endsSlash e.filename) = true)
    (h5 : ∀ c ∈ kids, kidName fo c ≠ [] ∧ 47 ∉ kidName fo c ∧ c.folder = fo ++ sSlash ++ kidName fo c
      ∧ ∀ n ∈ reservedFor top ++ givenNames pics ex, ¬ (kidName fo c ++ sSlash) <+: n) :
    nodeOK top pics ex fo kids = true := by
  simp only [nodeOK, Bool.and_eq_true, decide_eq_true_eq, List.all_eq_true, Bool.not_eq_true', bne_iff_ne, beq_iff_eq]
  refine ⟨⟨⟨⟨h1, h2⟩, ?_⟩, fun e he => by simpa using h4 e he⟩, ?_⟩
  · intro n hn
    refine ⟨?_, (h3 n hn).2⟩
    cases hc : (reservedFor top).contains n with
    | false => rfl
    | true => exact absurd (List.contains_iff_mem.mp hc) (h3 n hn).1
  · intro c hc
    obtain ⟨a1, a2, a3, a4⟩ := h5 c hc
    refine ⟨⟨⟨a1, ?_⟩, a3⟩, ?_⟩
    · cases hcc : (kidName fo c).contains 47 with
      | false => rfl
      | true => exact absurd (List.contains_iff_mem.mp hcc) a2
    · intro n hn
      cases hp : (kidName fo c ++ sSlash).isPrefixOf n with
      | false => rfl
      | true => exact absurd (List.isPrefixOf_iff_prefix.mp hp) (a4 n hn)

theorem foldl_addPair_mem : ∀ (L acc : List (Str × Str)) (x : Str × Str),
    x ∈ L.foldl addPair acc ↔ x ∈ acc ∨ x ∈ L := by
  intro L
  induction L with
  | nil => intro acc x; simp
  | cons y ys ih =>
    intro acc x
    simp only [List.foldl_cons, ih, addPair]
    by_cases hc : acc.contains y = true
    · simp only [hc, if_true, List.mem_cons]
      constructor
      · rintro (h | h); exact Or.inl h; exact Or.inr (Or.inr h)
      · rintro (h | h | h)
        · exact Or.inl h
        · subst h; exact Or.inl (List.contains_iff_mem.mp hc)
        · exact Or.inr h
    · simp only [hc, Bool.false_eq_true, if_false, List.mem_append, List.mem_cons, List.not_mem_nil, or_false]
      constructor
      · rintro ((h | h) | h); exact Or.inl h; exact Or.inr (Or.inl h); exact Or.inr (Or.inr h)
      · rintro (h | h | h); exact Or.inl (Or.inl h); exact Or.inl (Or.inr h); exact Or.inr h

theorem foldl_addPair_nodup : ∀ (L acc : List (Str × Str)), acc.Nodup → (L.foldl addPair acc).Nodup := by
  intro L
  induction L with
  | nil => intro acc h; simpa using h
  | cons y ys ih =>
    intro acc h
    simp only [List.foldl_cons]
    apply ih
    unfold addPair
    by_cases hc : acc.contains y = true
    · simp only [hc, if_true]; exact h
    · simp only [hc, Bool.false_eq_true, if_false]
      rw [List.nodup_append]
      refine ⟨h, by simp, ?_⟩
      intro a ha b hb hab
      simp at hb; subst hb; subst hab
      exact hc (List.contains_iff_mem.mpr ha)

theorem allPairs_spec (keys : List Str) : ∀ x ∈ allPairs keys,
    PathOK x.1 ∧ ∃ c, IsComp c ∧ x.2 = x.1 ++ c ∧ x.2 ∈ keys := by
  intro x hx
  simp only [allPairs, foldl_addPair_mem, List.not_mem_nil, false_or, List.mem_flatMap] at hx
  obtain ⟨k, _, hk⟩ := hx
  exact chainPairs_spec keys k.length [] k (Or.inl rfl) x hk

theorem mem_kidsOf (keys : List Str) (P Q : Str) : Q ∈ kidsOf keys P ↔ (P, Q) ∈ allPairs keys := by
  simp only [kidsOf, List.mem_map, List.mem_filter, beq_iff_eq]
  constructor
  · rintro ⟨x, ⟨hx, h1⟩, h2⟩
    cases x with
    | mk a b => simp only at h1 h2; subst h1; subst h2; exact hx
  · intro h; exact ⟨(P, Q), ⟨h, rfl⟩, rfl⟩

theorem kidsOf_nodup (keys : List Str) (P : Str) : (kidsOf keys P).Nodup := by
  unfold kidsOf
  have hn : (allPairs keys).Nodup := foldl_addPair_nodup _ [] (by simp)
  have hf : ((allPairs keys).filter (fun x => x.1 == P)).Nodup := List.Nodup.sublist List.filter_sublist hn
  have := nodup_map_of_nodup_map (fun x : Str × Str => x.2) id _ (by simpa using hf) (by
    intro a ha b hb hab
    simp only [List.mem_filter, beq_iff_eq] at ha hb
    cases a; cases b; simp only at ha hb hab ⊢
    rw [ha.2, hb.2, hab])
  exact this

theorem foldl_register_mem : ∀ (l acc : List Pic) (q : Pic), q ∈ l.foldl register acc → q ∈ acc ∨ q ∈ l := by
  intro l
  induction l with
  | nil => intro acc q h; exact Or.inl (by simpa using h)
  | cons x xs ih =>
    intro acc q h
    simp only [List.foldl_cons] at h
    rcases ih _ q h with h1 | h1
    · unfold register at h1
      split at h1
      · simp only [List.mem_map] at h1
        obtain ⟨q0, hq0, rfl⟩ := h1
        by_cases hh : (q0.href == x.href) = true
        · simp [hh]
        · simp [hh, hq0]
      · simp only [List.mem_append, List.mem_singleton] at h1
        rcases h1 with h1 | h1
        · exact Or.inl h1
        · exact Or.inr (by simp [h1])
    · exact Or.inr (List.mem_cons_of_mem _ h1)


/-- what `load` works with: the dict of the manifest, its keys, and every `z.read` it needs succeeds -/
structure LoadCtx (p : Package) (man : List (Str × Str)) (keys : List Str) : Prop where
  hkeys : keys = man.map (·.1)
  hnd : keys.Nodup
  hread : ∀ e ∈ man, needsRead keys e = true → (zread p.members e.1).isSome = true

theorem mem_entriesAt (man : List (Str × Str)) (keys : List Str) (P : Str) (e : Str × Str) :
    e ∈ entriesAt man keys P ↔ e ∈ man ∧ chainOf keys e.1 = P := by
  simp [entriesAt]

/-- the key of an entry dispatched to `P` is `P` + its name there -/
theorem entry_key (man : List (Str × Str)) (keys : List Str) (P : Str) (e : Str × Str)
    (he : e ∈ entriesAt man keys P) : e.1 = P ++ e.1.drop P.length := by
  have := (chainOf_spec keys e.1).1
  rw [((mem_entriesAt man keys P e).mp he).2] at this
  exact this

theorem mem_picsAt (p : Package) (man : List (Str × Str)) (keys : List Str) (P : Str) (q : Pic)
    (hq : q ∈ picsAt p man keys P) :
    ∃ e ∈ entriesAt man keys P, isPicturePath (e.1.drop P.length) = true ∧ q.href = e.1.drop P.length := by
  unfold picsAt at hq
  rcases foldl_register_mem _ [] q hq with h | h
  · cases h
  · simp only [List.mem_map, List.mem_filter] at h
    obtain ⟨e, ⟨he, hp⟩, rfl⟩ := h
    exact ⟨e, he, hp, rfl⟩

theorem mem_extrasAt (p : Package) (man : List (Str × Str)) (keys : List Str) (P : Str) (x : Extra) :
    x ∈ extrasAt p man keys P ↔ ∃ e ∈ entriesAt man keys P, isKept P e = true ∧ x = toExtra p P e := by
  simp only [extrasAt, List.mem_map, List.mem_filter]
  constructor
  · rintro ⟨e, ⟨he, hk⟩, rfl⟩; exact ⟨e, he, hk, rfl⟩
  · rintro ⟨e, he, hk, rfl⟩; exact ⟨e, ⟨he, hk⟩, rfl⟩

theorem picture_not_reserved (top : Bool) (n : Str) (h : isPicturePath n = true) : n ∉ reservedFor top ∧ n ≠ [] := by
  refine ⟨?_, by intro he; rw [he] at h; simp [isPicturePath] at h⟩
  intro hr
  have : isPicturePath n = false := by
    cases top <;> simp [reservedFor] at hr
    · rcases hr with rfl | rfl | rfl <;> decide
    · rcases hr with rfl | rfl | rfl | rfl | rfl | rfl | rfl | rfl | rfl <;> decide
  rw [this] at h; cases h

theorem kept_not_reserved (P : Str) (e : Str × Str) (hk : isKept P e = true) (he : e.1 = P ++ e.1.drop P.length) :
    e.1.drop P.length ∉ reservedFor (decide (P = [])) ∧ e.1.drop P.length ≠ [] := by
  simp only [isKept, Bool.and_eq_true, Bool.not_eq_true', Bool.or_eq_false_iff, beq_eq_false_iff_ne] at hk
  obtain ⟨⟨⟨_, hth⟩, hpp, hme⟩, hreg⟩ := hk
  simp only [isParsedPart, Bool.or_eq_false_iff, beq_eq_false_iff_ne] at hpp
  refine ⟨?_, hpp.2⟩
  by_cases hP : P = []
  · subst hP
    simp only [List.length_nil, List.drop_zero] at *
    simp only [isRegenerated, Bool.or_eq_false_iff, beq_eq_false_iff_ne] at hreg
    simp only [decide_true, reservedFor, if_true, List.mem_cons, List.not_mem_nil, or_false, not_or]
    exact ⟨hpp.1.2, hpp.1.1.2, hpp.1.1.1, hme, hreg.1.2, hth, hreg.2, hreg.1.1.1, hreg.1.1.2⟩
  · simp only [hP, decide_false, reservedFor, Bool.false_eq_true, if_false, List.mem_cons, List.not_mem_nil, or_false, not_or]
    exact ⟨hpp.1.2, hpp.1.1.2, hpp.1.1.1⟩

theorem startsObj_of_prefix (c r : Str) (hc : IsComp c) (hp : c <+: r) : startsObj r = true := by
  obtain ⟨ds, rfl, _, _⟩ := hc
  obtain ⟨t, rfl⟩ := hp
  simp [startsObj, sObjectSp]

theorem reserved_not_obj (top : Bool) : ∀ r ∈ reservedFor top, startsObj r = false := by
  cases top <;> decide

theorem kidName_built (P c : Str) (hP : PathOK P) (hc : IsComp c) (d : Doc)
    (hd : d.folder = folderOfPath (P ++ c)) : kidName (folderOfPath P) d = c.dropLast := by
  unfold kidName
  rw [hd, folderOfPath_append P c hP hc]
  have : (folderOfPath P ++ sSlash ++ c.dropLast) = (folderOfPath P ++ sSlash) ++ c.dropLast := by simp
  rw [this, List.drop_append]
  simp [sSlash]

/-- one document that `load` builds is well-formed, whatever stands for its sub-documents as long as they carry
    the folder of their place -/
theorem nodeOK_at (p : Package) (man : List (Str × Str)) (keys : List Str) (ctx : LoadCtx p man keys)
    (P : Str) (hP : PathOK P) (g : Str → Doc) (hg : ∀ Q, (g Q).folder = folderOfPath Q) :
    nodeOK (decide (P = [])) (picsAt p man keys P) (extrasAt p man keys P) (folderOfPath P)
      ((kidsOf keys P).map g) = true := by
  -- names of the live extras
  have hlive : ∀ n ∈ (liveExtras (extrasAt p man keys P)).map (·.filename),
      ∃ e ∈ entriesAt man keys P, isKept P e = true ∧ n = e.1.drop P.length := by
    intro n hn
    simp only [liveExtras, List.mem_map, List.mem_filter] at hn
    obtain ⟨x, ⟨hx, _⟩, rfl⟩ := hn
    obtain ⟨e, he, hk, rfl⟩ := (mem_extrasAt p man keys P x).mp hx
    exact ⟨e, he, hk, rfl⟩
  have hhref : ∀ n ∈ (picsAt p man keys P).map (·.href),
      ∃ e ∈ entriesAt man keys P, isPicturePath (e.1.drop P.length) = true ∧ n = e.1.drop P.length := by
    intro n hn
    simp only [List.mem_map] at hn
    obtain ⟨q, hq, rfl⟩ := hn
    exact mem_picsAt p man keys P q hq
  -- every given name comes from an entry dispatched here
  have hgiven : ∀ n ∈ givenNames (picsAt p man keys P) (extrasAt p man keys P),
      ∃ e ∈ entriesAt man keys P, n = e.1.drop P.length ∧ n ∉ reservedFor (decide (P = [])) ∧ n ≠ [] := by
    intro n hn
    rcases List.mem_append.mp hn with hn | hn
    · obtain ⟨e, he, hp, rfl⟩ := hhref n hn
      exact ⟨e, he, rfl, picture_not_reserved _ _ hp⟩
    · obtain ⟨e, he, hk, rfl⟩ := hlive n hn
      exact ⟨e, he, rfl, kept_not_reserved P e hk (entry_key man keys P e he)⟩
  -- the sub-documents
  have hkid : ∀ d ∈ (kidsOf keys P).map g, ∃ c, IsComp c ∧ (P ++ c) ∈ keys ∧ d.folder = folderOfPath (P ++ c)
      ∧ kidName (folderOfPath P) d = c.dropLast := by
    intro d hd
    simp only [List.mem_map] at hd
    obtain ⟨Q, hQ, rfl⟩ := hd
    obtain ⟨_, c, hc, e2, e3⟩ := allPairs_spec keys (P, Q) ((mem_kidsOf keys P Q).mp hQ)
    simp only at e2 e3
    subst e2
    exact ⟨c, hc, e3, hg _, kidName_built P c hP hc _ (hg _)⟩
  apply nodeOK_intro
  · -- given names pairwise distinct
    unfold givenNames
    rw [List.nodup_append]
    refine ⟨register_nodup _, ?_, ?_⟩
    · have hsub : ((liveExtras (extrasAt p man keys P)).map (·.filename)).Sublist
          (((entriesAt man keys P).filter (isKept P)).map (fun e => e.1.drop P.length)) := by
        unfold liveExtras extrasAt
        have : (((entriesAt man keys P).filter (isKept P)).map (fun e => e.1.drop P.length))
            = (((entriesAt man keys P).filter (isKept P)).map (toExtra p P)).map (·.filename) := by
          simp [List.map_map, Function.comp, toExtra]
        rw [this]
        exact List.Sublist.map _ List.filter_sublist
      refine List.Nodup.sublist hsub ?_
      apply nodup_map_of_nodup_map _ (fun e : Str × Str => e.1)
      · have h1 : ((entriesAt man keys P).filter (isKept P)).Sublist man :=
          List.Sublist.trans List.filter_sublist (by unfold entriesAt; exact List.filter_sublist)
        have h2 := List.Sublist.map (fun e : Str × Str => e.1) h1
        rw [← ctx.hkeys] at h2
        exact List.Nodup.sublist h2 ctx.hnd
      · intro a ha b hb hab
        have ka := entry_key man keys P a (List.mem_filter.mp ha).1
        have kb := entry_key man keys P b (List.mem_filter.mp hb).1
        rw [ka, kb, hab]
    · intro a ha b hb hab
      subst hab
      obtain ⟨e1, _, hp1, rfl⟩ := hhref a ha
      obtain ⟨e2, _, hk2, h2⟩ := hlive _ hb
      simp only [isKept, Bool.and_eq_true, Bool.not_eq_true'] at hk2
      rw [h2, hk2.1.1.1] at hp1; cases hp1
  · -- names of the sub-documents pairwise distinct
    rw [List.map_map]
    apply nodup_map_of_nodup_map _ id _ (by simpa using kidsOf_nodup keys P)
    intro Q1 h1 Q2 h2 hab
    obtain ⟨_, c1, hc1, e1, _⟩ := allPairs_spec keys (P, Q1) ((mem_kidsOf keys P Q1).mp h1)
    obtain ⟨_, c2, hc2, e2, _⟩ := allPairs_spec keys (P, Q2) ((mem_kidsOf keys P Q2).mp h2)
    simp only at e1 e2
    simp only [Function.comp] at hab
    rw [e1] at hab
    rw [e2] at hab
    rw [kidName_built P c1 hP hc1 _ (hg _), kidName_built P c2 hP hc2 _ (hg _)] at hab
    simp only [id]
    rw [e1, e2, (isComp_facts c1 hc1).2.2.2.2.1, (isComp_facts c2 hc2).2.2.2.2.1, hab]
  · intro n hn
    obtain ⟨_, _, _, h1, h2⟩ := hgiven n hn
    exact ⟨h1, h2⟩
  · -- an extra has content None exactly if its name ends in "/"
    intro x hx
    simp only [liveExtras, List.mem_filter] at hx
    obtain ⟨e, he, hk, rfl⟩ := (mem_extrasAt p man keys P x).mp hx.1
    simp only [toExtra, endsSlash]
    by_cases hl : ((e.1.drop P.length).getLast? == some 47) = true
    · simp [hl]
    · have hm := (mem_entriesAt man keys P e).mp he
      have hr : needsRead keys e = true := by
        simp only [needsRead, hm.2, hk, Bool.true_and, Bool.or_eq_true, bne_iff_ne, ne_eq]
        right
        simpa using hl
      have := ctx.hread e hm.1 hr
      simp only [Bool.not_eq_true] at hl
      simp [hl]; exact this
  · intro d hd
    obtain ⟨c, hc, hin, hfo, hkn⟩ := hkid d hd
    obtain ⟨_, _, hno, hne, hcc, _⟩ := isComp_facts c hc
    rw [hkn]
    refine ⟨hne, hno, by rw [hfo, folderOfPath_append P c hP hc], ?_⟩
    rw [← hcc]
    intro n hn hpre
    rcases List.mem_append.mp hn with hn | hn
    · have := reserved_not_obj _ n hn
      rw [startsObj_of_prefix c n hc hpre] at this
      cases this
    · obtain ⟨e, he, rfl, _, _⟩ := hgiven n hn
      have hstop := (chainOf_spec keys e.1).2
      rw [((mem_entriesAt man keys P e).mp he).2] at hstop
      have := hstop c (objComp_of_prefix c _ hc hpre)
      rw [List.contains_iff_mem.mpr hin] at this
      cases this


theorem buildDoc_folder (p : Package) (man : List (Str × Str)) (keys : List Str) (f : Nat) (P : Str) :
    (buildDoc p man keys f P).folder = folderOfPath P := by
  cases f <;> rfl

theorem nodeOK_nokids (top : Bool) (pics : List Pic) (ex : List Extra) (fo : Str) (kids : List Doc)
    (h : nodeOK top pics ex fo kids = true) : nodeOK top pics ex fo [] = true := by
  simp only [nodeOK, Bool.and_eq_true, decide_eq_true_eq, List.all_eq_true] at h ⊢
  exact ⟨⟨⟨⟨h.1.1.1.1, by simp⟩, h.1.1.2⟩, h.1.2⟩, by simp⟩

theorem treeOKs_map (g : Str → Doc) : ∀ (l : List Str), (∀ Q ∈ l, treeOK false (g Q) = true) → treeOKs (l.map g) = true := by
  intro l
  induction l with
  | nil => intro _; rfl
  | cons Q l ih =>
    intro h
    simp only [List.map_cons, treeOKs, Bool.and_eq_true]
    exact ⟨h Q List.mem_cons_self, ih (fun x hx => h x (List.mem_cons_of_mem _ hx))⟩

/-- the tree `load` builds below any folder is well-formed -/
theorem buildDoc_ok (p : Package) (man : List (Str × Str)) (keys : List Str) (ctx : LoadCtx p man keys) :
    ∀ (f : Nat) (P : Str), PathOK P → treeOK (decide (P = [])) (buildDoc p man keys f P) = true := by
  intro f
  induction f with
  | zero =>
    intro P hP
    have := nodeOK_at p man keys ctx P hP (buildDoc p man keys 0) (buildDoc_folder p man keys 0)
    simp only [buildDoc, treeOK, treeOKs, Bool.and_true]
    exact nodeOK_nokids _ _ _ _ _ this
  | succ f ih =>
    intro P hP
    have := nodeOK_at p man keys ctx P hP (buildDoc p man keys f) (buildDoc_folder p man keys f)
    simp only [buildDoc, treeOK, Bool.and_eq_true]
    refine ⟨this, treeOKs_map _ _ ?_⟩
    intro Q hQ
    obtain ⟨_, c, hc, e2, _⟩ := allPairs_spec keys (P, Q) ((mem_kidsOf keys P Q).mp hQ)
    simp only at e2
    have hne : Q ≠ [] := by
      rw [e2]; intro he
      have := (isComp_facts c hc).1
      cases c with
      | nil => exact this rfl
      | cons a b => cases P <;> simp at he
    have := ih Q (by rw [e2]; exact pathOK_append P c hc)
    simpa [hne] using this

/-- **C03 (`load` produces well-formed documents — full strength, no hypothesis)**: every document that
    `load` builds, from ANY package — sub-documents at any depth, with their own pictures and extra
    files, any numbering, any manifest order — satisfies `DocOK`; so `manifest_nodup` and `names_nodup`
    hold for whatever is saved from it (`loaded_saves_clean`). -/
theorem load_docOK (p : Package) (d : Doc) (hl : load p = some d) : DocOK d = true := by
  unfold load at hl
  simp only at hl
  split at hl
  · rename_i hall
    have ctx : LoadCtx p (manifestlist p.manifest) ((manifestlist p.manifest).map (·.1)) := by
      refine ⟨rfl, manifestlist_nodup _, ?_⟩
      intro e he hr
      simp only [List.all_eq_true, Bool.or_eq_true, Bool.not_eq_true'] at hall
      rcases hall e he with h | h
      · rw [hr] at h; cases h
      · exact h
    have hb := buildDoc_ok p _ _ ctx (loadFuel ((manifestlist p.manifest).map (·.1))) [] (Or.inl rfl)
    generalize buildDoc p (manifestlist p.manifest) ((manifestlist p.manifest).map (·.1))
      (loadFuel ((manifestlist p.manifest).map (·.1))) [] = b at hl hb
    cases b with
    | mk id mt hs pics th ex fo kids =>
      simp only [Option.some.injEq] at hl
      subst hl
      simpa [DocOK, treeOK] using hb
  · cases hl

/-- **C03 (no member name and no manifest path twice after load + save, every package)** -/
theorem loaded_saves_clean (p : Package) (d : Doc) (hl : load p = some d) :
    (names (save d)).Nodup ∧ (paths (save d)).Nodup :=
  ⟨names_nodup d (load_docOK p d hl), manifest_nodup d (load_docOK p d hl)⟩

/-- a package with the root entry, "Thumbnails/", a picture, an object folder "Object 7/" listed after one of its
    files, with a picture, a file, a meta.xml of its own and an object of its own, a file extra and a directory
    extra: loads, and saves without any path twice -/
def samplePackage : Package :=
  ⟨some sOdt,
    [(sSlash, sOdt), (sContent, sTextXml), (sStyles, sTextXml), (sThumbDir, []), (sThumb, [105]), (sPictures ++ [97], [105]),
     (objPrefix 7 ++ sContent, sTextXml), (objPrefix 7, sOdt), (objPrefix 7 ++ sPictures ++ [98], [105]),
     (objPrefix 7 ++ [120], []), (objPrefix 7 ++ sMeta, sTextXml), (objPrefix 7 ++ objPrefix 1, sOdt),
     (objPrefix 7 ++ objPrefix 1 ++ sContent, sTextXml), (objPrefix 5 ++ [121], []), ([120, 47, 121], []), ([120, 47], [])],
    [(sContent, [60]), (sStyles, [60]), (sThumb, [5]), (sPictures ++ [97], [1]), (objPrefix 7 ++ sContent, [60]),
     (objPrefix 7 ++ sPictures ++ [98], [2]), (objPrefix 7 ++ [120], [3]), (objPrefix 7 ++ sMeta, [60]),
     (objPrefix 7 ++ objPrefix 1 ++ sContent, [60]), (objPrefix 5 ++ [121], [4]), ([120, 47, 121], [2])], []⟩

theorem load_sample :
    (load samplePackage).map (fun d => (DocOK d, plainHrefs d, decide (paths (save d)).Nodup)) = some (true, true, true)
    ∧ (load samplePackage).map (fun d => d.children.map (fun c => (c.id, c.folder))) = some [(8, (sSlash ++ objPrefix 7).dropLast)]
    ∧ (load samplePackage).map (fun d => d.children.map (fun c => c.extras.map (·.filename))) = some [[[120], sMeta]]
    ∧ (load samplePackage).map (fun d => d.children.map (fun c => c.children.map (·.folder)))
        = some [[(sSlash ++ objPrefix 7 ++ objPrefix 1).dropLast]]
    ∧ (load samplePackage).map (fun d => d.extras.map (·.filename)) = some [objPrefix 5 ++ [121], [120, 47, 121], [120, 47]]
    ∧ (load samplePackage).map (fun d => d.thumbnail.map (·.mediatype)) = some (some [105]) := by
  decide

/-- residual class for `folder_iff_slash` only: a directory entry below "Pictures/" whose zip member exists
    becomes a picture whose href ends in "/" (`plainHrefs` false); names and paths are still pairwise distinct -/
theorem pictureDir_sample :
    let p : Package := ⟨some sOdt, [(sSlash, sOdt), (sContent, sTextXml), (sPictures ++ [115, 47], [])],
      [(sContent, [60]), (sPictures ++ [115, 47], [])], []⟩
    (load p).map (fun d => (DocOK d, plainHrefs d, decide (names (save d)).Nodup,
        decide (paths (save d)).Nodup)) = some (true, false, true, true) := by
  decide


end OdfModel.Props.C03
